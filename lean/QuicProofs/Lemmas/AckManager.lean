import QuicModel.Conn.AckManager
import QuicProofs.Props.C16AckRanges
/-
  Helper lemmas for the ACK half of C08 (`Quic.Conn.AckManager`): what every operation does to
  `ack_ranges` (as a sequence of the `ack::Ranges` operations `Quic.Proofs.C16.AOp`, so that the C16
  theorems apply), the two `.expect(..)` sites are unreachable, facts about the transmission state
  machine and the ghost bookkeeping of the promptness invariant.
-/
namespace Quic.Proofs.AckMgr
open Quic.Conn.AckManager Quic.Data.IvSet Quic.Data.IvSpec Quic.Data Quic.Proofs.IvLemmas Quic.Proofs.AckLemmas
open Quic.Proofs

-- ---------------------------------------------------------------------------------------------
-- small facts

theorem mem_reverse (l : List Interval) (x : Nat) : Mem l.reverse x ↔ Mem l x := by
  unfold Mem
  constructor
  · rintro ⟨i, hi, hx⟩; exact ⟨i, List.mem_reverse.1 hi, hx⟩
  · rintro ⟨i, hi, hx⟩; exact ⟨i, List.mem_reverse.2 hi, hx⟩

theorem nonempty_of_mem {l : List Interval} {x : Nat} (h : Mem l x) : l ≠ [] := by
  obtain ⟨i, hi, _⟩ := h
  intro hl; rw [hl] at hi; cases hi

theorem isEmpty_false_of_mem {s : IvSet} {x : Nat} (h : Mem s.ivs x) : s.isEmpty = false := by
  have := nonempty_of_mem h
  unfold IvSet.isEmpty
  cases hs : s.ivs with
  | nil => exact absurd hs this
  | cons _ _ => rfl

theorem ackRange_spec (t : Transmission) (a : AckSet) (r : Interval) (h : t.ackRange a = some r) :
    r = ⟨0, t.largestReceivedAcked⟩ := by
  unfold Transmission.ackRange at h
  split at h
  · cases h; rfl
  · cases h

/-- the range `on_update` hands out always starts at packet number 0 -/
theorem onUpdate_lo (tx : TxSet) (a : AckSet) (r : Interval) (h : (tx.onUpdate a).2 = some r) : r.lo = 0 := by
  unfold TxSet.onUpdate at h
  split at h
  · rename_i r' heq
    have : r' = r := by simpa using h
    subst this
    cases hl : tx.latest with
    | none => rw [hl] at heq; cases heq
    | some t =>
      rw [hl] at heq
      have := ackRange_spec t a r' heq
      rw [this]
  · split at h
    · rename_i r' heq
      have : r' = r := by simpa using h
      subst this
      cases hl : tx.stable with
      | none => rw [hl] at heq; cases heq
      | some t =>
        rw [hl] at heq
        have := ackRange_spec t a r' heq
        rw [this]
    · cases h

/-- removing `0 ..= hi` never needs an extra interval: the `.expect(..)` in `on_packet_ack` cannot fire -/
theorem remove_zero (L : Nat) (s : IvSet) (r : Interval) (hr : r.lo = 0) (hinv : Inv L s) :
    s.remove r = (⟨some L, remSpec s.ivs r⟩, .ok ()) := by
  obtain ⟨hlim, hL, hwf, hlen⟩ := hinv
  rcases remove_char s r hwf (by omega) with ⟨h, _⟩ | ⟨_, ⟨b, _, hb, _⟩, _⟩
  · rw [h, hlim]
  · omega

theorem insSpec_ne_nil (l : List Interval) (a : Interval) (hwf : WF l) (ha : a.lo ≤ a.hi) : insSpec l a ≠ [] := by
  apply nonempty_of_mem (x := a.lo)
  exact (insSpec_mem l a a.lo hwf ha).2 (Or.inr ⟨Nat.le_refl _, ha⟩)

/-- whatever `insert_packet_number` reports, the set is not empty afterwards -/
theorem insertPn_nonempty (L : Nat) (s : IvSet) (pn : Nat) (hinv : Inv L s) :
    (AckRanges.insertPn s pn).1.isEmpty = false := by
  unfold AckRanges.insertPn
  have hne : (AckRanges.insertRange s pn pn).1.ivs ≠ [] := by
    rcases insertRange_char L s pn pn hinv (Nat.le_refl _) with ⟨_, he⟩ | ⟨_, _, mn, rest, hiv, ⟨_, he⟩ | ⟨_, he⟩⟩
    · rw [he]; exact insSpec_ne_nil _ _ hinv.2.2.1 (Nat.le_refl _)
    · rw [he]
      have hwf := hinv.2.2.1; rw [hiv] at hwf
      exact insSpec_ne_nil _ _ hwf.tail (Nat.le_refl _)
    · rw [he, hiv]; exact List.cons_ne_nil _ _
  unfold IvSet.isEmpty
  cases h : (AckRanges.insertRange s pn pn).1.ivs with
  | nil => exact absurd h hne
  | cons _ _ => rfl

-- ---------------------------------------------------------------------------------------------
-- the transmission state machine

theorem onUpdate_ne_disabled (st : TxState) (r : IvSet) (h : r.isEmpty = false) : st.onUpdate r ≠ .disabled := by
  unfold TxState.onUpdate
  rw [h]
  cases st <;> simp

theorem onUpdate_active (st : TxState) (r : IvSet) (h : r.isEmpty = false) (ha : st.isActive = true) :
    (st.onUpdate r).isActive = true := by
  unfold TxState.onUpdate
  rw [h]
  cases st <;> simp_all [TxState.isActive]

theorem activate_active (st : TxState) (h : st ≠ .disabled) : st.activate.isActive = true := by
  cases st <;> simp_all [TxState.activate, TxState.isActive]

theorem activate_ne_disabled (st : TxState) (h : st ≠ .disabled) : st.activate ≠ .disabled := by
  cases st <;> simp_all [TxState.activate]

theorem activate_keeps_active (st : TxState) (h : st.isActive = true) : st.activate.isActive = true := by
  cases st <;> simp_all [TxState.activate, TxState.isActive]

theorem active_ne_disabled (st : TxState) (h : st.isActive = true) : st ≠ .disabled := by
  cases st <;> simp_all [TxState.isActive]

-- ---------------------------------------------------------------------------------------------
-- which fields an operation touches

@[simp] theorem onTimeout_ranges (s : State) (t : Nat) : (onTimeout s t).ackRanges = s.ackRanges := by
  unfold onTimeout; split <;> rfl
@[simp] theorem onTimeout_settings (s : State) (t : Nat) : (onTimeout s t).ackSettings = s.ackSettings := by
  unfold onTimeout; split <;> rfl
@[simp] theorem procSchedule_ranges (s : State) (p : Processed) (a b : Bool) : (procSchedule s p a b).ackRanges = s.ackRanges := by
  unfold procSchedule; repeat' split
  all_goals rfl
@[simp] theorem procSchedule_settings (s : State) (p : Processed) (a b : Bool) : (procSchedule s p a b).ackSettings = s.ackSettings := by
  unfold procSchedule; repeat' split
  all_goals rfl
@[simp] theorem procInsert_ranges (s : State) (p : Processed) : (procInsert s p).ackRanges = (AckRanges.insertPn s.ackRanges p.pn).1 := rfl
@[simp] theorem procInsert_settings (s : State) (p : Processed) : (procInsert s p).ackSettings = s.ackSettings := rfl
@[simp] theorem procInsert_timer (s : State) (p : Processed) : (procInsert s p).ackDelayTimer = s.ackDelayTimer := rfl

theorem onProcessed_ranges (s : State) (p : Processed) :
    (onProcessedPacket s p).1.ackRanges = (AckRanges.insertPn s.ackRanges p.pn).1 := by
  simp [onProcessedPacket]

theorem onProcessed_settings (s : State) (p : Processed) : (onProcessedPacket s p).1.ackSettings = s.ackSettings := by
  simp [onProcessedPacket]

theorem onPacketLoss_ranges (s : State) (a : AckSet) : (onPacketLoss s a).ackRanges = s.ackRanges := by
  unfold onPacketLoss; split <;> rfl
theorem onPacketLoss_settings (s : State) (a : AckSet) : (onPacketLoss s a).ackSettings = s.ackSettings := by
  unfold onPacketLoss; split <;> rfl
theorem onPacketLoss_timer (s : State) (a : AckSet) : (onPacketLoss s a).ackDelayTimer = s.ackDelayTimer := by
  unfold onPacketLoss; split <;> rfl

theorem onTransmitComplete_fields (s : State) (c : Constraint) (own : Nat) (ae pf : Bool) (r : State × Bool)
    (h : onTransmitComplete s c own ae pf = some r) :
    r.1.ackRanges = s.ackRanges ∧ r.1.ackSettings = s.ackSettings ∧ r.1.ackDelayTimer = none ∧
    r.1.transmissionState = s.transmissionState.onTransmit := by
  unfold onTransmitComplete at h
  split at h
  · cases h
  · cases h; exact ⟨rfl, rfl, rfl, rfl⟩

/-- `on_transmit_complete` cannot hit its `.expect(..)` when `on_transmit` wrote a frame -/
theorem onTransmitComplete_isSome (s : State) (c : Constraint) (own : Nat) (ae pf : Bool)
    (h : s.ackRanges.isEmpty = false) : ∃ r, onTransmitComplete s c own ae pf = some r := by
  unfold onTransmitComplete
  cases hm : s.ackRanges.maxValue with
  | some mx => exact ⟨_, rfl⟩
  | none =>
    exfalso
    unfold IvSet.maxValue at hm
    unfold IvSet.isEmpty at h
    cases hl : s.ackRanges.ivs with
    | nil => rw [hl] at h; cases h
    | cons b rest =>
      rw [hl] at hm
      have : (b :: rest).getLast? ≠ none := by simp
      cases hg : (b :: rest).getLast? with
      | none => exact this hg
      | some v => rw [hg] at hm; cases hm

/-- a written frame is the descending list of ALL stored ranges, and there is at least one -/
theorem onTransmit_frame (s : State) (c : Constraint) (m : Mode) (now : Nat) (fits : Bool) (f : AckFrame)
    (h : onTransmit s c m now fits = some f) :
    f.ranges = AckRanges.ackRanges s.ackRanges ∧ s.ackRanges.isEmpty = false ∧
    s.transmissionState.shouldTransmit c m true = true := by
  unfold onTransmit at h
  cases he : s.ackRanges.isEmpty with
  | true =>
    rw [he] at h
    simp [TxState.shouldTransmit] at h
  | false =>
    rw [he] at h
    simp only [Bool.not_false] at h
    split at h
    · cases h
    · rename_i hst
      split at h
      · cases h; exact ⟨rfl, rfl, by simpa using hst⟩
      · cases h

theorem onPacketAck_char (L : Nat) (s : State) (a : AckSet) (hinv : Inv L s.ackRanges) :
    (∃ r, (s.ackElicitingTransmissions.onUpdate a).2 = some r ∧ r.lo = 0 ∧
      onPacketAck s a = some { s with ackElicitingTransmissions := (s.ackElicitingTransmissions.onUpdate a).1
                                      ackRanges := ⟨some L, remSpec s.ackRanges.ivs r⟩ }) ∨
    ((s.ackElicitingTransmissions.onUpdate a).2 = none ∧
      onPacketAck s a = some { s with ackElicitingTransmissions := (s.ackElicitingTransmissions.onUpdate a).1 }) := by
  unfold onPacketAck
  cases hu : (s.ackElicitingTransmissions.onUpdate a).2 with
  | none => exact Or.inr ⟨rfl, rfl⟩
  | some r =>
    have hlo := onUpdate_lo _ _ _ hu
    have hrm := remove_zero L s.ackRanges r hlo hinv
    refine Or.inl ⟨r, rfl, hlo, ?_⟩
    simp only [hrm]

theorem onPacketAck_fields (s : State) (a : AckSet) (s' : State) (h : onPacketAck s a = some s') :
    s'.ackDelayTimer = s.ackDelayTimer ∧ s'.transmissionState = s.transmissionState ∧ s'.ackSettings = s.ackSettings := by
  unfold onPacketAck at h
  split at h
  · split at h
    · cases h; exact ⟨rfl, rfl, rfl⟩
    · cases h
  · cases h; exact ⟨rfl, rfl, rfl⟩

-- ---------------------------------------------------------------------------------------------
-- `ack_ranges` under a history = a sequence of `ack::Ranges` operations

/-- the `ack::Ranges` operations one ack-manager operation performs -/
def projOp (s : State) : Op → List C16.AOp
  | .processed p => [.insertPn p.pn]
  | .packetAck a =>
    match (s.ackElicitingTransmissions.onUpdate a).2 with
    | some r => [.remove r.lo r.hi]
    | none => []
  | _ => []

def projRun : State → List Op → List C16.AOp
  | _, [] => []
  | s, op :: rest =>
    match step s op with
    | some r => projOp s op ++ projRun r.1 rest
    | none => []

theorem foldl_astep_inv (L : Nat) (aops : List C16.AOp) (r : IvSet) (h : Inv L r) : Inv L (aops.foldl C16.astep r) := by
  induction aops generalizing r with
  | nil => exact h
  | cons op rest ih => exact ih _ (C16.ackranges_step_inv L r op h)

theorem c16_run_fst (aops : List C16.AOp) (r : IvSet) (R : Nat → Prop) :
    (C16.run aops (r, R)).1 = aops.foldl C16.astep r := by
  induction aops generalizing r R with
  | nil => rfl
  | cons op rest ih => simp only [C16.run, List.foldl_cons]; exact ih _ _

theorem transmit_ranges (s : State) (c : Constraint) (m : Mode) (now own : Nat) (fits ae pf : Bool) (r : State × Out)
    (h : transmit s c m now own fits ae pf = some r) :
    r.1.ackRanges = s.ackRanges ∧ r.1.ackSettings = s.ackSettings := by
  unfold transmit at h
  split at h
  · split at h
    · rename_i r' hc
      cases h
      have := onTransmitComplete_fields s c own ae pf r' hc
      exact ⟨this.1, this.2.1⟩
    · cases h
  · cases h; exact ⟨rfl, rfl⟩

/-- one operation = its projected `ack::Ranges` operations -/
theorem step_ranges (s : State) (op : Op) (r : State × Out) (h : step s op = some r) :
    r.1.ackRanges = (projOp s op).foldl C16.astep s.ackRanges ∧ r.1.ackSettings = s.ackSettings := by
  cases op with
  | processed p =>
    simp only [step, Option.some.injEq] at h
    subst h
    exact ⟨by simp [projOp, onProcessed_ranges, C16.astep], onProcessed_settings s p⟩
  | transmit c m now own fits ae pf =>
    simp only [step] at h
    have := transmit_ranges s c m now own fits ae pf r h
    exact ⟨by simp [projOp, this.1], this.2⟩
  | packetAck a =>
    simp only [step] at h
    unfold onPacketAck at h
    cases hu : (s.ackElicitingTransmissions.onUpdate a).2 with
    | none =>
      rw [hu] at h
      simp only [Option.some.injEq] at h
      subst h
      exact ⟨by simp [projOp, hu], rfl⟩
    | some rg =>
      rw [hu] at h
      simp only at h
      have hlo := onUpdate_lo _ _ _ hu
      cases hrm : (s.ackRanges.remove rg).2 with
      | error e => rw [hrm] at h; cases h
      | ok u =>
        rw [hrm] at h
        simp only [Option.some.injEq] at h
        subst h
        refine ⟨?_, rfl⟩
        simp only [projOp, hu, List.foldl_cons, List.foldl_nil, C16.astep]
        rw [if_pos (by omega)]
  | packetLoss a =>
    simp only [step, Option.some.injEq] at h
    subst h
    exact ⟨by simp [projOp, onPacketLoss_ranges], onPacketLoss_settings s a⟩
  | timeout now =>
    simp only [step, Option.some.injEq] at h
    subst h
    exact ⟨by simp [projOp], by simp⟩

theorem step_inv (L : Nat) (s : State) (op : Op) (r : State × Out) (hinv : Inv L s.ackRanges)
    (h : step s op = some r) : Inv L r.1.ackRanges := by
  rw [(step_ranges s op r h).1]
  exact foldl_astep_inv L _ _ hinv

/-- neither `.expect(..)` can fire on a state whose `ack_ranges` respect their limit -/
theorem step_isSome (L : Nat) (s : State) (op : Op) (hinv : Inv L s.ackRanges) : ∃ r, step s op = some r := by
  cases op with
  | processed p => exact ⟨_, rfl⟩
  | transmit c m now own fits ae pf =>
    simp only [step, transmit]
    cases hf : onTransmit s c m now fits with
    | none => exact ⟨_, rfl⟩
    | some f =>
      obtain ⟨r, hr⟩ := onTransmitComplete_isSome s c own ae pf (onTransmit_frame s c m now fits f hf).2.1
      rw [hr]; exact ⟨_, rfl⟩
  | packetAck a =>
    simp only [step]
    rcases onPacketAck_char L s a hinv with ⟨r, _, _, h⟩ | ⟨_, h⟩ <;> (rw [h]; exact ⟨_, rfl⟩)
  | packetLoss a => exact ⟨_, rfl⟩
  | timeout now => exact ⟨_, rfl⟩

theorem run_ranges (L : Nat) (ops : List Op) (s : State) (r : State × List Out) (hinv : Inv L s.ackRanges)
    (h : run s ops = some r) :
    r.1.ackRanges = (projRun s ops).foldl C16.astep s.ackRanges ∧ Inv L r.1.ackRanges ∧ r.1.ackSettings = s.ackSettings := by
  induction ops generalizing s r with
  | nil =>
    simp only [run, Option.some.injEq] at h
    subst h
    exact ⟨rfl, hinv, rfl⟩
  | cons op rest ih =>
    simp only [run] at h
    cases hs : step s op with
    | none => rw [hs] at h; cases h
    | some r1 =>
      rw [hs] at h
      simp only at h
      cases hr : run r1.1 rest with
      | none => rw [hr] at h; cases h
      | some r2 =>
        rw [hr] at h
        simp only [Option.some.injEq] at h
        subst h
        have h1 := step_ranges s op r1 hs
        have hi1 := step_inv L s op r1 hinv hs
        have h2 := ih r1.1 r2 hi1 hr
        refine ⟨?_, h2.2.1, by rw [h2.2.2, h1.2]⟩
        simp only [projRun, hs, List.foldl_append]
        rw [h2.1, h1.1]

theorem run_isSome (L : Nat) (ops : List Op) (s : State) (hinv : Inv L s.ackRanges) : ∃ r, run s ops = some r := by
  induction ops generalizing s with
  | nil => exact ⟨_, rfl⟩
  | cons op rest ih =>
    obtain ⟨r1, h1⟩ := step_isSome L s op hinv
    obtain ⟨r2, h2⟩ := ih r1.1 (step_inv L s op r1 hinv h1)
    exact ⟨(r2.1, r1.2 :: r2.2), by simp only [run, h1, h2]⟩

/-- the projected operations insert exactly the processed packet numbers -/
theorem projRun_inserted (ops : List Op) (s : State) (x : Nat) (h : C16.InsertedBy (projRun s ops) x) :
    ∃ p, Op.processed p ∈ ops ∧ p.pn = x := by
  induction ops generalizing s with
  | nil => obtain ⟨o, ho, _⟩ := h; simp [projRun] at ho
  | cons op rest ih =>
    obtain ⟨o, ho, hx⟩ := h
    simp only [projRun] at ho
    cases hs : step s op with
    | none => rw [hs] at ho; cases ho
    | some r1 =>
      rw [hs] at ho
      simp only [List.mem_append] at ho
      rcases ho with ho | ho
      · cases op with
        | processed p =>
          simp only [projOp, List.mem_singleton] at ho
          subst ho
          exact ⟨p, List.mem_cons_self .., hx.symm⟩
        | packetAck a =>
          simp only [projOp] at ho
          split at ho
          · simp only [List.mem_singleton] at ho; subst ho; exact absurd hx id
          · cases ho
        | transmit => simp [projOp] at ho
        | packetLoss => simp [projOp] at ho
        | timeout => simp [projOp] at ho
      · obtain ⟨p, hp, hpx⟩ := ih r1.1 ⟨o, ho, hx⟩
        exact ⟨p, List.mem_cons_of_mem _ hp, hpx⟩

/-- SOUNDNESS from any state: whatever `ack_ranges` holds after a history was there at the start or
    is the packet number of a `processed` operation of the history -/
theorem sound_from (L : Nat) (s0 : State) (hinv : Inv L s0.ackRanges) (ops : List Op) (r : State × List Out)
    (h : run s0 ops = some r) (x : Nat) (hx : Mem r.1.ackRanges.ivs x) :
    Mem s0.ackRanges.ivs x ∨ ∃ p, Op.processed p ∈ ops ∧ p.pn = x := by
  have hr := (run_ranges L ops s0 r hinv h).1
  rw [hr, ← c16_run_fst _ _ (fun y => Mem s0.ackRanges.ivs y)] at hx
  have h1 := C16.ackranges_sound_run L (projRun s0 ops) s0.ackRanges _ hinv (fun _ hy => hy) x hx
  rcases C16.ref_subset_inserted _ _ _ x h1 with h2 | h2
  · exact Or.inl h2
  · exact Or.inr (projRun_inserted ops s0 x h2)

theorem step_frame (s : State) (op : Op) (s' : State) (f : AckFrame) (ping : Bool)
    (h : step s op = some (s', .frame f ping)) :
    f.ranges = AckRanges.ackRanges s.ackRanges ∧ s.ackRanges.isEmpty = false := by
  cases op with
  | transmit c m now own fits ae pf =>
    simp only [step, transmit] at h
    cases hf : onTransmit s c m now fits with
    | none => rw [hf] at h; cases h
    | some f' =>
      rw [hf] at h
      simp only at h
      cases hc : onTransmitComplete s c own ae pf with
      | none => rw [hc] at h; cases h
      | some r' =>
        rw [hc] at h
        simp only [Option.some.injEq, Prod.mk.injEq, Out.frame.injEq] at h
        obtain ⟨_, rfl, _⟩ := h
        have := onTransmit_frame s c m now fits f' hf
        exact ⟨this.1, this.2.1⟩
  | processed p => simp [step] at h
  | packetAck a =>
    simp only [step] at h
    split at h <;> simp at h
  | packetLoss a => simp [step] at h
  | timeout now => simp [step] at h

end Quic.Proofs.AckMgr
