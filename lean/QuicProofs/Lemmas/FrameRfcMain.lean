import QuicProofs.Lemmas.FrameRfcTags
import QuicProofs.Lemmas.FrameRfcAck
/-
  Assembly of `impl_eq_rfc_frame`: PADDING, the extension range `0x40..=0xff`, the 64-way tag split,
  and the replacement of the shared varint decoder by the RFC's own (`parseFrameWith_congr`).
-/
namespace Quic.Proofs.Frame
open Quic Quic.Codec Quic.Codec.Frame
open Quic.Rfc.Frame (parseFrameWith parseFieldsWith parseFieldWith parsePairsWith layout interp Field Val)

theorem agree_tag0 (t : List Nat) (ht : t.head? ≠ some 0) :
    absRes (decodeFrame (0 :: t)) = parseFrameWith D (0 :: t) := by
  rw [parseFrameWith_small 0 t (by decide)]
  have hz := zeroRun_of_head t ht
  simp [decodeFrame, decPadding, hz, absRes, toRfc, layout, rfcRest_nil, interp]

theorem layout_none_of_ge (ty : Nat) (h : 64 ≤ ty) : layout ty = none := by
  unfold layout
  repeat (rw [if_neg (by omega)])

/-- first byte `0x40..=0xff`: the RFC parser knows no such frame type (or the type is not in its
    shortest encoding); the implementation only produces the two extension frames -/
theorem agree_ext (h : Nat) (t : List Nat) (h1 : 64 ≤ h) (h2 : h < 256) :
    absRes (decodeFrame (h :: t)) = parseFrameWith D (h :: t) := by
  have lhs : absRes (decodeFrame (h :: t)) = none := by
    have : decodeFrame (h :: t) = handleExtension (h :: t) := by simp [decodeFrame, h1]
    rw [this]
    unfold handleExtension
    cases decVar (h :: t) with
    | error e => rfl
    | ok p =>
      obtain ⟨tag, r⟩ := p
      simp only []
      by_cases c1 : tag = dcTag
      · simp only [c1, if_true]
        unfold decDcTokens
        cases decVar r with
        | error e => rfl
        | ok q =>
          obtain ⟨count, r'⟩ := q
          simp only []
          repeat' split
          all_goals simp [absRes, toRfc]
      · simp only [c1, if_false]
        by_cases c2 : tag = mtuTag
        · simp only [c2, if_true]
          unfold decMtu
          cases decU16 r with
          | error e => rfl
          | ok q => rfl
        · simp [c2, absRes]
  rw [lhs]
  symm
  unfold parseFrameWith
  cases hd : D (h :: t) with
  | none => rfl
  | some p =>
    obtain ⟨ty, r⟩ := p
    simp only []
    by_cases hs : (h :: t).length - r.length ≠ Rfc.VarInt.minimalLen ty
    · rw [if_pos hs]
    · rw [if_neg hs]
      have hty : 64 ≤ ty := by
        -- the encoding is at least two bytes long, so a shortest encoding means ty ≥ 64
        have hw : VarInt.widthOf (h / 64 % 4) ≥ 2 := by
          unfold VarInt.widthOf
          have : h / 64 % 4 = 1 ∨ h / 64 % 4 = 2 ∨ h / 64 % 4 = 3 := by omega
          rcases this with e | e | e <;> simp [e]
        by_cases hl : (h :: t).length < VarInt.widthOf (h / 64 % 4)
        · have := Proofs.C05.decode_short h t hl
          unfold D at hd
          rw [this] at hd
          simp at hd
        · simp only [D, VarInt.decode, VarInt.decodeWith, if_neg hl, Option.some.injEq, Prod.mk.injEq] at hd
          obtain ⟨_, hr⟩ := hd
          have hlen : (h :: t).length - r.length = VarInt.widthOf (h / 64 % 4) := by
            rw [← hr]; simp at hl ⊢; omega
          have hm : Rfc.VarInt.minimalLen ty ≥ 2 := by
            have := Classical.not_not.mp hs
            omega
          unfold Rfc.VarInt.minimalLen at hm
          by_cases c : ty ≤ 63
          · simp [c] at hm
          · omega
      rw [layout_none_of_ge ty hty]

abbrev P := Rfc.VarInt.parse

theorem P_eq_D (b : List Nat) (hb : BytesOk b) : P b = D b :=
  (Proofs.C05.decode_eq_rfc_parse b hb).symm

theorem bytesOk_drop {b : List Nat} (n : Nat) (hb : BytesOk b) : BytesOk (b.drop n) :=
  fun x hx => hb x (List.mem_of_mem_drop hx)

theorem D_bytesOk {b r : List Nat} {v : Nat} (h : D b = some (v, r)) (hb : BytesOk b) : BytesOk r := by
  obtain ⟨_, n, _, _, hr⟩ := Proofs.C05.decode_consumes b r v h
  subst hr
  exact bytesOk_drop n hb

theorem parsePairsWith_congr (n : Nat) : ∀ (b : List Nat), BytesOk b →
    parsePairsWith P n b = parsePairsWith D n b ∧
      ∀ ps r, parsePairsWith D n b = some (ps, r) → BytesOk r := by
  induction n with
  | zero =>
    intro b hb
    refine ⟨rfl, ?_⟩
    intro ps r h
    simp [parsePairsWith] at h
    obtain ⟨_, rfl⟩ := h
    exact hb
  | succ n ih =>
    intro b hb
    simp only [parsePairsWith]
    rw [P_eq_D b hb]
    cases h1 : D b with
    | none => simp
    | some p =>
      obtain ⟨gap, b1⟩ := p
      have hb1 := D_bytesOk h1 hb
      simp only []
      rw [P_eq_D b1 hb1]
      cases h2 : D b1 with
      | none => simp
      | some q =>
        obtain ⟨len, b2⟩ := q
        have hb2 := D_bytesOk h2 hb1
        simp only []
        obtain ⟨e, k⟩ := ih b2 hb2
        rw [e]
        refine ⟨rfl, ?_⟩
        intro ps r h
        cases h3 : parsePairsWith D n b2 with
        | none => simp [h3] at h
        | some w =>
          obtain ⟨ps', r'⟩ := w
          simp [h3] at h
          obtain ⟨_, rfl⟩ := h
          exact k ps' r' h3

theorem parseFieldWith_congr (f : Field) (b : List Nat) (hb : BytesOk b) :
    parseFieldWith P f b = parseFieldWith D f b ∧
      ∀ v r, parseFieldWith D f b = some (v, r) → BytesOk r := by
  cases f with
  | int =>
    simp only [parseFieldWith]
    rw [P_eq_D b hb]
    refine ⟨rfl, ?_⟩
    intro v r h
    cases h1 : D b with
    | none => simp [h1] at h
    | some p =>
      obtain ⟨x, r'⟩ := p
      simp [h1] at h
      obtain ⟨_, rfl⟩ := h
      exact D_bytesOk h1 hb
  | len8Bytes =>
    refine ⟨rfl, ?_⟩
    intro v r h
    simp only [parseFieldWith] at h
    cases b with
    | nil => simp at h
    | cons n t =>
      simp only [] at h
      by_cases c : t.length < n
      · simp [c] at h
      · simp [c] at h
        obtain ⟨_, rfl⟩ := h
        exact bytesOk_drop n (fun x hx => hb x (List.mem_cons_of_mem _ hx))
  | fixedBytes n =>
    refine ⟨rfl, ?_⟩
    intro v r h
    simp only [parseFieldWith] at h
    by_cases c : b.length < n
    · simp [c] at h
    · simp [c] at h
      obtain ⟨_, rfl⟩ := h
      exact bytesOk_drop n hb
  | lenBytes =>
    simp only [parseFieldWith]
    rw [P_eq_D b hb]
    refine ⟨rfl, ?_⟩
    intro v r h
    cases h1 : D b with
    | none => simp [h1] at h
    | some p =>
      obtain ⟨n, r'⟩ := p
      simp only [h1] at h
      by_cases c : r'.length < n
      · simp [c] at h
      · simp [c] at h
        obtain ⟨_, rfl⟩ := h
        exact bytesOk_drop n (D_bytesOk h1 hb)
  | restBytes =>
    refine ⟨rfl, ?_⟩
    intro v r h
    simp [parseFieldWith] at h
    obtain ⟨_, rfl⟩ := h
    intro x hx; simp at hx
  | ackRanges =>
    simp only [parseFieldWith]
    rw [P_eq_D b hb]
    cases h1 : D b with
    | none => simp
    | some p =>
      obtain ⟨count, b1⟩ := p
      have hb1 := D_bytesOk h1 hb
      simp only []
      rw [P_eq_D b1 hb1]
      cases h2 : D b1 with
      | none => simp
      | some q =>
        obtain ⟨first, b2⟩ := q
        have hb2 := D_bytesOk h2 hb1
        simp only []
        obtain ⟨e, k⟩ := parsePairsWith_congr count b2 hb2
        rw [e]
        refine ⟨rfl, ?_⟩
        intro v r h
        cases h3 : parsePairsWith D count b2 with
        | none => simp [h3] at h
        | some w =>
          obtain ⟨ps', r'⟩ := w
          simp [h3] at h
          obtain ⟨_, rfl⟩ := h
          exact k ps' r' h3

theorem parseFieldsWith_congr (fs : List Field) : ∀ (b : List Nat), BytesOk b →
    parseFieldsWith P fs b = parseFieldsWith D fs b := by
  induction fs with
  | nil => intro b _; rfl
  | cons f fs ih =>
    intro b hb
    simp only [parseFieldsWith]
    obtain ⟨e, k⟩ := parseFieldWith_congr f b hb
    rw [e]
    cases h1 : parseFieldWith D f b with
    | none => rfl
    | some p =>
      obtain ⟨v, r⟩ := p
      simp only []
      rw [ih r (k v r h1)]

/-- on in-range bytes the RFC parser does not care which of the two varint decoders it uses -/
theorem parseFrameWith_congr (b : List Nat) (hb : BytesOk b) :
    parseFrameWith P b = parseFrameWith D b := by
  unfold parseFrameWith
  rw [P_eq_D b hb]
  cases h1 : D b with
  | none => rfl
  | some p =>
    obtain ⟨ty, r⟩ := p
    simp only []
    have hr := D_bytesOk h1 hb
    split
    · rfl
    · cases layout ty with
      | none => rfl
      | some fields =>
        simp only []
        rw [parseFieldsWith_congr fields r hr]


theorem agree_small_0 (h : Nat) (t : List Nat) (h1 : 0 ≤ h) (h2 : h < 16) (hlt : t.length < 2 ^ 62)
    (hp : ∀ t', h :: t ≠ 0 :: 0 :: t') : absRes (decodeFrame (h :: t)) = parseFrameWith D (h :: t) := by
  have hcases : h = 0 ∨ h = 1 ∨ h = 2 ∨ h = 3 ∨ h = 4 ∨ h = 5 ∨ h = 6 ∨ h = 7 ∨ h = 8 ∨ h = 9 ∨ h = 10 ∨ h = 11 ∨ h = 12 ∨ h = 13 ∨ h = 14 ∨ h = 15 := by omega
  rcases hcases with rfl | rfl | rfl | rfl | rfl | rfl | rfl | rfl | rfl | rfl | rfl | rfl | rfl | rfl | rfl | rfl
  · apply agree_tag0
    intro hh
    match t, hh with
    | x :: t', hh => simp at hh; subst hh; exact hp t' rfl
  · exact agree_tag1 t
  · exact agree_tag2 t hlt
  · exact agree_tag3 t hlt
  · exact agree_tag4 t
  · exact agree_tag5 t
  · exact agree_tag6 t
  · exact agree_tag7 t
  · exact agree_tag8 t
  · exact agree_tag9 t
  · exact agree_tag10 t
  · exact agree_tag11 t
  · exact agree_tag12 t
  · exact agree_tag13 t
  · exact agree_tag14 t
  · exact agree_tag15 t

theorem agree_small_16 (h : Nat) (t : List Nat) (h1 : 16 ≤ h) (h2 : h < 32) (hlt : t.length < 2 ^ 62)
    (hp : ∀ t', h :: t ≠ 0 :: 0 :: t') : absRes (decodeFrame (h :: t)) = parseFrameWith D (h :: t) := by
  have hcases : h = 16 ∨ h = 17 ∨ h = 18 ∨ h = 19 ∨ h = 20 ∨ h = 21 ∨ h = 22 ∨ h = 23 ∨ h = 24 ∨ h = 25 ∨ h = 26 ∨ h = 27 ∨ h = 28 ∨ h = 29 ∨ h = 30 ∨ h = 31 := by omega
  rcases hcases with rfl | rfl | rfl | rfl | rfl | rfl | rfl | rfl | rfl | rfl | rfl | rfl | rfl | rfl | rfl | rfl
  · exact agree_tag16 t
  · exact agree_tag17 t
  · exact agree_tag18 t
  · exact agree_tag19 t
  · exact agree_tag20 t
  · exact agree_tag21 t
  · exact agree_tag22 t
  · exact agree_tag23 t
  · exact agree_tag24 t
  · exact agree_tag25 t
  · exact agree_tag26 t
  · exact agree_tag27 t
  · exact agree_tag28 t
  · exact agree_tag29 t
  · exact agree_tag30 t
  · exact agree_tag31 t

theorem agree_small_32 (h : Nat) (t : List Nat) (h1 : 32 ≤ h) (h2 : h < 48) (hlt : t.length < 2 ^ 62)
    (hp : ∀ t', h :: t ≠ 0 :: 0 :: t') : absRes (decodeFrame (h :: t)) = parseFrameWith D (h :: t) := by
  have hcases : h = 32 ∨ h = 33 ∨ h = 34 ∨ h = 35 ∨ h = 36 ∨ h = 37 ∨ h = 38 ∨ h = 39 ∨ h = 40 ∨ h = 41 ∨ h = 42 ∨ h = 43 ∨ h = 44 ∨ h = 45 ∨ h = 46 ∨ h = 47 := by omega
  rcases hcases with rfl | rfl | rfl | rfl | rfl | rfl | rfl | rfl | rfl | rfl | rfl | rfl | rfl | rfl | rfl | rfl
  · exact agree_tag32 t
  · exact agree_tag33 t
  · exact agree_tag34 t
  · exact agree_tag35 t
  · exact agree_tag36 t
  · exact agree_tag37 t
  · exact agree_tag38 t
  · exact agree_tag39 t
  · exact agree_tag40 t
  · exact agree_tag41 t
  · exact agree_tag42 t
  · exact agree_tag43 t
  · exact agree_tag44 t
  · exact agree_tag45 t
  · exact agree_tag46 t
  · exact agree_tag47 t

theorem agree_small_48 (h : Nat) (t : List Nat) (h1 : 48 ≤ h) (h2 : h < 64) (hlt : t.length < 2 ^ 62)
    (hp : ∀ t', h :: t ≠ 0 :: 0 :: t') : absRes (decodeFrame (h :: t)) = parseFrameWith D (h :: t) := by
  have hcases : h = 48 ∨ h = 49 ∨ h = 50 ∨ h = 51 ∨ h = 52 ∨ h = 53 ∨ h = 54 ∨ h = 55 ∨ h = 56 ∨ h = 57 ∨ h = 58 ∨ h = 59 ∨ h = 60 ∨ h = 61 ∨ h = 62 ∨ h = 63 := by omega
  rcases hcases with rfl | rfl | rfl | rfl | rfl | rfl | rfl | rfl | rfl | rfl | rfl | rfl | rfl | rfl | rfl | rfl
  · exact agree_tag48 t
  · exact agree_tag49 t
  · exact agree_tag50 t
  · exact agree_tag51 t
  · exact agree_tag52 t
  · exact agree_tag53 t
  · exact agree_tag54 t
  · exact agree_tag55 t
  · exact agree_tag56 t
  · exact agree_tag57 t
  · exact agree_tag58 t
  · exact agree_tag59 t
  · exact agree_tag60 t
  · exact agree_tag61 t
  · exact agree_tag62 t
  · exact agree_tag63 t

/-- structural agreement (no assumption on the varint decoder beyond being shared) -/
theorem codec_eq_rfcWith (b : List Nat) (hb : BytesOk b) (hl : b.length < 2 ^ 62)
    (hp : ∀ t, b ≠ 0 :: 0 :: t) : absRes (decodeFrame b) = parseFrameWith D b := by
  match b, hb, hl, hp with
  | [], _, _, _ => simp [decodeFrame, absRes, parseFrameWith, D, VarInt.decode, VarInt.decodeWith]
  | h :: t, hb, hl, hp =>
    have h256 : h < 256 := hb h (by simp)
    by_cases hext : 64 ≤ h
    · exact agree_ext h t hext h256
    · have hlt : t.length < 2 ^ 62 := by simp at hl; omega
      by_cases c1 : h < 16
      · exact agree_small_0 h t (by omega) c1 hlt hp
      by_cases c2 : h < 32
      · exact agree_small_16 h t (by omega) c2 hlt hp
      by_cases c3 : h < 48
      · exact agree_small_32 h t (by omega) c3 hlt hp
      exact agree_small_48 h t (by omega) (by omega) hlt hp

/-- the implementation model agrees with the RFC transcription on every in-range byte string that
    does not start with a run of two or more PADDING bytes -/
theorem codec_eq_rfc (b : List Nat) (hb : BytesOk b) (hl : b.length < 2 ^ 62)
    (hp : ∀ t, b ≠ 0 :: 0 :: t) : absRes (decodeFrame b) = Rfc.Frame.parseFrame b := by
  rw [codec_eq_rfcWith b hb hl hp]
  unfold Rfc.Frame.parseFrame
  exact (parseFrameWith_congr b hb).symm

end Quic.Proofs.Frame
