import QuicProofs.Lemmas.LocalIds
/-
  C13 helper: when the expirations handed to `register_connection_id` never shrink (a `connection_id::Generator`
  with a constant `lifetime()`), `retire_prior_to` never overtakes an id that can still be transmitted, so every
  NEW_CONNECTION_ID frame has `retire_prior_to ≤ sequence_number`.
-/
namespace Quic.Proofs.LocalIds
open Quic.Conn.LocalIds
open Quic.Rfc.PeerView (Frame Ev View observe)

/-- `a` expires no later than `b` (`none` = never) -/
def expLe : Option Nat → Option Nat → Prop
  | _, none => True
  | some a, some b => a ≤ b
  | none, some _ => False

instance (a b : Option Nat) : Decidable (expLe a b) := by
  cases a <;> cases b <;> simp only [expLe] <;> infer_instance

/-- "lifetimes do not shrink": a newly registered id does not expire before an id that is still registered -/
def MonoOk (s : State) : Op → Prop
  | .register _ e _ => ∀ i ∈ s.ids, expLe i.retirementTime (e.map (fun x => x - expirationBuffer))
  | _ => True

/-- a history all of whose registrations respect `MonoOk` in the state they are applied to -/
def Admissible (p : Nat) : State → List Op → Prop
  | _, [] => True
  | s, op :: ops => MonoOk s op ∧ Admissible p (Quic.Conn.LocalIds.step p s op).1 ops

def key (i : IdInfo) : Nat × Option Nat := (i.seq, i.retirementTime)

def KeyRel (a b : Nat × Option Nat) : Prop := a.1 < b.1 ∧ expLe a.2 b.2

structure Inv5 (s : State) : Prop where
  mono : (s.ids.map key).Pairwise KeyRel
  low : ∀ i ∈ s.ids, i.seq < s.retirePriorTo → i.isRetired = true
  framesOk : ∀ f ∈ emitted s, f.rpt ≤ f.seq

theorem mono_of_lt {ids : List IdInfo} (h : (ids.map key).Pairwise KeyRel) (a b : IdInfo) (ha : a ∈ ids) (hb : b ∈ ids)
    (hlt : a.seq < b.seq) : expLe a.retirementTime b.retirementTime := by
  induction ids with
  | nil => cases ha
  | cons x rest ih =>
    simp only [List.map_cons, List.pairwise_cons, List.mem_map] at h
    rcases List.mem_cons.mp ha with ha1 | ha1
    · rcases List.mem_cons.mp hb with hb1 | hb1
      · rw [ha1, hb1] at hlt; omega
      · have := h.1 (key b) ⟨b, hb1, rfl⟩
        rw [ha1]; exact this.2
    · rcases List.mem_cons.mp hb with hb1 | hb1
      · have := h.1 (key a) ⟨a, ha1, rfl⟩
        have h2 : x.seq < a.seq := this.1
        rw [hb1] at hlt; omega
      · exact ih h.2 ha1 hb1

theorem nodup_seq_eq (ids : List IdInfo) (h : (ids.map (·.seq)).Pairwise (· < ·)) (a b : IdInfo) (ha : a ∈ ids) (hb : b ∈ ids)
    (hab : a.seq = b.seq) : a = b := by
  induction ids with
  | nil => cases ha
  | cons x rest ih =>
    simp only [List.map_cons, List.pairwise_cons, List.mem_map] at h
    rcases List.mem_cons.mp ha with ha1 | ha1
    · rcases List.mem_cons.mp hb with hb1 | hb1
      · rw [ha1, hb1]
      · have := h.1 b.seq ⟨b, hb1, rfl⟩
        rw [ha1] at hab; omega
    · rcases List.mem_cons.mp hb with hb1 | hb1
      · have := h.1 a.seq ⟨a, ha1, rfl⟩
        rw [hb1] at hab; omega
      · exact ih h.2 ha1 hb1

theorem foldl_rpt_witness (ids : List IdInfo) (now r q : Nat) (hold : ¬ q < r)
    (hlt : q < ids.foldl (fun r i => if i.isRetireReady now then max r (i.seq + 1) else r) r) :
    ∃ i ∈ ids, i.isRetireReady now = true ∧ q < i.seq + 1 := by
  induction ids generalizing r with
  | nil => exact absurd hlt hold
  | cons x rest ih =>
    rw [List.foldl_cons] at hlt
    by_cases hx : x.isRetireReady now = true
    · rw [if_pos hx] at hlt
      by_cases hjx : q < x.seq + 1
      · exact ⟨x, by simp, hx, hjx⟩
      · have : ¬ q < max r (x.seq + 1) := by
          intro hh
          rcases Nat.lt_or_ge r (x.seq + 1) with h3 | h3
          · rw [Nat.max_eq_right (by omega)] at hh; exact hjx hh
          · rw [Nat.max_eq_left h3] at hh; exact hold hh
        obtain ⟨i, hi, h4, h5⟩ := ih _ this hlt
        exact ⟨i, List.mem_cons_of_mem _ hi, h4, h5⟩
    · rw [if_neg hx] at hlt
      obtain ⟨i, hi, h4, h5⟩ := ih _ hold hlt
      exact ⟨i, List.mem_cons_of_mem _ hi, h4, h5⟩

theorem transmitLoop_map_key (rpt : Nat) (c : Constraint) (pn : Nat) (ids : List IdInfo) (room : Nat) :
    (transmitLoop rpt c pn ids room).1.map key = ids.map key := by
  induction ids generalizing room with
  | nil => simp [transmitLoop]
  | cons i rest ih =>
    unfold transmitLoop
    split
    · cases room with
      | zero => simp [ih]
      | succ r => simp [ih, key]
    · simp [ih]

theorem retired_mono_status {i : IdInfo} (h : i.isRetired = true) (r : Nat) :
    IdInfo.isRetired { i with status := Status.pendingRemoval r } = true := by
  simp [IdInfo.isRetired]

theorem inv5_of_keys {s s' : State} (h : Inv5 s) (hk : s'.ids.map key = s.ids.map key)
    (hlow : ∀ i ∈ s'.ids, i.seq < s'.retirePriorTo → i.isRetired = true)
    (hf : ∀ f ∈ emitted s', f.rpt ≤ f.seq) : Inv5 s' :=
  ⟨by rw [hk]; exact h.mono, hlow, hf⟩

theorem onAck_key (set : List Nat) (i : IdInfo) : key (i.onAck set) = key i := by
  unfold IdInfo.onAck key; split <;> (try split) <;> rfl
theorem onLoss_key (set : List Nat) (i : IdInfo) : key (i.onLoss set) = key i := by
  unfold IdInfo.onLoss key; split <;> (try split) <;> rfl
theorem retireIfReady_key (now : Nat) (i : IdInfo) : key (i.retireIfReady now) = key i := by
  unfold IdInfo.retireIfReady key IdInfo.retire; split <;> rfl

theorem map_key_of (g : IdInfo → IdInfo) (hg : ∀ i, key (g i) = key i) (ids : List IdInfo) :
    (ids.map g).map key = ids.map key := by
  simp only [List.map_map]; apply List.map_congr_left; intro i _; exact hg i

theorem onAck_retired (set : List Nat) (i : IdInfo) : (i.onAck set).isRetired = i.isRetired := by
  unfold IdInfo.onAck
  split
  · next pn hst => split <;> simp [IdInfo.isRetired, hst]
  · rfl

theorem onLoss_retired (set : List Nat) (i : IdInfo) : (i.onLoss set).isRetired = i.isRetired := by
  unfold IdInfo.onLoss
  split
  · next pn hst => split <;> simp [IdInfo.isRetired, hst]
  · rfl

theorem hasElapsed_mono {a b now : Nat} (h : a ≤ b) (hb : hasElapsed b now = true) : hasElapsed a now = true := by
  simp only [hasElapsed, decide_eq_true_eq] at hb ⊢
  omega

theorem inv5_step (p : Nat) {s : State} (h1 : Inv1 s) (h : Inv5 s) (op : Op) (hok : MonoOk s op) :
    Inv5 (Quic.Conn.LocalIds.step p s op).1 := by
  cases op with
  | setLimit => exact inv5_of_keys h rfl h.low h.framesOk
  | register id e t =>
    rcases register_cases s id e t with ⟨h1', _⟩ | ⟨m, _, _, _, _, heq⟩
    · simp only [Quic.Conn.LocalIds.step]; rw [h1']; exact h
    · simp only [Quic.Conn.LocalIds.step]; rw [heq]
      refine ⟨?_, ?_, h.framesOk⟩
      · simp only [registerOk, List.map_append, List.map_cons, List.map_nil]
        rw [List.pairwise_append]
        refine ⟨h.mono, by simp, ?_⟩
        intro a ha b hb
        simp only [List.mem_singleton] at hb
        subst hb
        simp only [List.mem_map] at ha
        obtain ⟨i, hi, rfl⟩ := ha
        exact ⟨h1.below i.seq (List.mem_map.mpr ⟨i, hi, rfl⟩), hok i hi⟩
      · simp only [registerOk, List.mem_append, List.mem_singleton]
        intro i hi hlt
        rcases hi with hi | hi
        · exact h.low i hi hlt
        · subst hi
          have := h1.rptLe
          simp only at hlt
          omega
  | onRetire seq dcid rtt now =>
    simp only [Quic.Conn.LocalIds.step]
    have hfr : ∀ (s' : State), s'.events = s.events ++ [Ev.rxRetire seq] → ∀ f ∈ emitted s', f.rpt ≤ f.seq := by
      intro s' he f hf
      have hf' : f ∈ framesOf s'.events := hf
      rw [he, framesOf_append, framesOf_rxRetire, List.append_nil] at hf'
      exact h.framesOk f hf'
    rcases onRetire_cases s seq dcid rtt now with ⟨h1', _⟩ | ⟨h1', _⟩ | ⟨pre, x, post, hs, _, h1'⟩
    · rw [h1']; exact h
    · rw [h1']; exact inv5_of_keys h rfl h.low (hfr _ rfl)
    · rw [h1']
      refine inv5_of_keys h (by simp [hs, key]) ?_ (hfr _ rfl)
      intro i hi hlt
      simp only [List.mem_append, List.mem_cons] at hi
      rcases hi with hi | hi | hi
      · exact h.low i (by simp [hs, hi]) hlt
      · subst hi; simp [IdInfo.isRetired]
      · exact h.low i (by simp [hs, hi]) hlt
  | onTimeout now =>
    simp only [Quic.Conn.LocalIds.step, onTimeout]
    split
    · split
      · unfold unregisterExpiredIds
        refine ⟨?_, ?_, h.framesOk⟩
        · have hk := map_key_of _ (retireIfReady_key now) s.ids
          have hsub : ((s.ids.map (IdInfo.retireIfReady now)).filter (fun i => !i.isExpired now)).map key |>.Sublist
              ((s.ids.map (IdInfo.retireIfReady now)).map key) := (List.filter_sublist).map _
          rw [hk] at hsub
          exact h.mono.sublist hsub
        · intro i' hi' hlt
          simp only [List.mem_filter, List.mem_map] at hi'
          obtain ⟨⟨j, hj, rfl⟩, _⟩ := hi'
          simp only at hlt
          rw [retireIfReady_seq] at hlt
          -- either below the old retire_prior_to, or at most a retire-ready id's sequence number
          by_cases hold : j.seq < s.retirePriorTo
          · have := h.low j hj hold
            unfold IdInfo.retireIfReady
            split
            · simp [IdInfo.retire, IdInfo.isRetired]
            · exact this
          · -- find the ready id that pushed retire_prior_to beyond j
            have hex := foldl_rpt_witness s.ids now s.retirePriorTo j.seq hold hlt
            obtain ⟨i, hi, hready, hji⟩ := hex
            -- j is retire-ready too (or already retired)
            by_cases hjr : j.isRetired = true
            · unfold IdInfo.retireIfReady
              split
              · simp [IdInfo.retire, IdInfo.isRetired]
              · exact hjr
            · have hjready : j.isRetireReady now = true := by
                unfold IdInfo.isRetireReady at hready ⊢
                simp only [Bool.and_eq_true, Bool.not_eq_true'] at hready ⊢
                refine ⟨by simpa using hjr, ?_⟩
                by_cases hsame : j.seq = i.seq
                · have := nodup_seq_eq s.ids h1.sorted j i hj hi hsame
                  rw [this]; exact hready.2
                · have hle := mono_of_lt h.mono j i hj hi (by omega)
                  cases hi2 : i.retirementTime with
                  | none => rw [hi2] at hready; simp at hready
                  | some ti =>
                    rw [hi2] at hready hle
                    cases hj2 : j.retirementTime with
                    | none => rw [hj2] at hle; exact absurd hle (by simp [expLe])
                    | some tj =>
                      rw [hj2] at hle
                      simp only [expLe] at hle
                      exact hasElapsed_mono hle hready.2
              unfold IdInfo.retireIfReady
              simp [hjready, IdInfo.retire, IdInfo.isRetired]
      · exact h
    · exact h
  | onTransmit c pn room =>
    simp only [Quic.Conn.LocalIds.step, onTransmit]
    split
    · exact h
    · refine ⟨by simp only [transmitLoop_map_key]; exact h.mono, ?_, ?_⟩
      · intro i' hi' hlt
        obtain ⟨i, hi, hs, _, _, _, hst⟩ := transmitLoop_ids _ _ _ _ _ i' hi'
        rcases hst with rfl | ⟨hst, _⟩
        · exact h.low i' hi hlt
        · have := h.low i hi (by rw [← hs]; exact hlt)
          rcases hst with hst | hst <;> simp [IdInfo.isRetired, hst] at this
      · intro f hf
        have hf' : f ∈ framesOf (s.events ++ (transmitLoop s.retirePriorTo c pn s.ids room).2) := hf
        rw [framesOf_append, transmitLoop_events, framesOf_tx] at hf'
        simp only [List.mem_append] at hf'
        rcases hf' with hf' | hf'
        · exact h.framesOk f hf'
        · obtain ⟨i, hi, rfl, hst⟩ := transmitFrames_mem _ _ _ _ f hf'
          simp only
          by_cases hlt : i.seq < s.retirePriorTo
          · have := h.low i hi hlt
            rcases hst with hst | hst <;> simp [IdInfo.isRetired, hst] at this
          · omega
  | onPacketAck set =>
    simp only [Quic.Conn.LocalIds.step, onPacketAck]
    split
    · exact h
    · refine inv5_of_keys h (map_key_of _ (onAck_key set) _) ?_ h.framesOk
      intro i' hi' hlt
      simp only [List.mem_map] at hi'
      obtain ⟨i, hi, rfl⟩ := hi'
      rw [onAck_retired]
      rw [onAck_seq] at hlt
      exact h.low i hi hlt
  | onPacketLoss set =>
    simp only [Quic.Conn.LocalIds.step, onPacketLoss]
    split
    · exact h
    · refine inv5_of_keys h (map_key_of _ (onLoss_key set) _) ?_ h.framesOk
      intro i' hi' hlt
      simp only [List.mem_map] at hi'
      obtain ⟨i, hi, rfl⟩ := hi'
      rw [onLoss_retired]
      rw [onLoss_seq] at hlt
      exact h.low i hi hlt
  | onHandshakeConfirmed =>
    simp only [Quic.Conn.LocalIds.step, onHandshakeConfirmed]
    split
    · rcases retireHandshake_cases s with h1' | ⟨pre, x, post, hs, hx0, _, h1'⟩
      · rw [h1']; exact h
      · rw [h1']
        refine inv5_of_keys h (by simp [hs, key, IdInfo.retire]) ?_ h.framesOk
        intro i hi hlt
        simp only [List.mem_append, List.mem_cons] at hi
        simp only at hlt
        have hcase : i.seq < s.retirePriorTo ∨ i.seq = 0 := by
          rcases Nat.lt_or_ge s.retirePriorTo (x.seq + 1) with h3 | h3
          · rw [Nat.max_eq_right (by omega)] at hlt; right; omega
          · rw [Nat.max_eq_left h3] at hlt; left; exact hlt
        rcases hi with hi | hi | hi
        · rcases hcase with hc | hc
          · exact h.low i (by simp [hs, hi]) hc
          · have := nodup_seq_eq s.ids h1.sorted i x (by simp [hs, hi]) (by simp [hs]) (by omega)
            -- i = x contradicts i ∈ pre only through position; use retirement of x instead
            subst this
            exact False.elim (by
              have hsorted := h1.sorted
              rw [hs] at hsorted
              simp only [List.map_append, List.map_cons, List.pairwise_append, List.mem_map, List.mem_cons] at hsorted
              have := hsorted.2.2 i.seq ⟨i, hi, rfl⟩ i.seq (Or.inl rfl)
              omega)
        · subst hi; simp [IdInfo.retire, IdInfo.isRetired]
        · rcases hcase with hc | hc
          · exact h.low i (by simp [hs, hi]) hc
          · exact False.elim (by
              have hsorted := h1.sorted
              rw [hs] at hsorted
              simp only [List.map_append, List.map_cons, List.pairwise_append, List.pairwise_cons, List.mem_map] at hsorted
              have := hsorted.2.1.1 i.seq ⟨i, hi, rfl⟩
              omega)
    · exact h
  | envInsert id owner =>
    simp only [Quic.Conn.LocalIds.step]
    split
    · exact h
    · split
      · exact inv5_of_keys h rfl h.low h.framesOk
      · exact h
  | envRemove id =>
    simp only [Quic.Conn.LocalIds.step]
    split
    · exact h
    · exact inv5_of_keys h rfl h.low h.framesOk


theorem inv5_run (p : Nat) {s : State} (h1 : Inv1 s) (h : Inv5 s) (ops : List Op) (hadm : Admissible p s ops) :
    Inv5 (run p s ops) := by
  induction ops generalizing s with
  | nil => exact h
  | cons op ops ih =>
    obtain ⟨hok, hrest⟩ := hadm
    exact ih (inv1_step p h1 op) (inv5_step p h1 h op hok) hrest

theorem inv5_new {iid : Nat} {m : List (Cid × Nat)} {hid : Cid} {e : Option Nat} {t : Token} {rot : Bool} {s : State}
    (h : new iid m hid e t rot = some s) : Inv5 s := by
  obtain ⟨m', _, rfl⟩ := new_spec h
  refine ⟨by simp, ?_, by simp [emitted, framesOf]⟩
  intro i _ hlt
  simp [emptyState] at hlt

end Quic.Proofs.LocalIds
