import QuicProofs.Lemmas.FrameRfc
/- per-tag agreement lemmas for `impl_eq_rfc_frame` (all one-byte tags except PADDING and ACK) -/
namespace Quic.Proofs.Frame
open Quic Quic.Codec Quic.Codec.Frame
open Quic.Rfc.Frame (parseFrameWith parseFieldsWith parseFieldWith parsePairsWith layout interp Field Val)
theorem agree_tag1 (t : List Nat) : absRes (decodeFrame (1 :: t)) = parseFrameWith D (1 :: t) := by
  rw [parseFrameWith_small 1 t (by decide)]
  agree_simp

theorem agree_tag4 (t : List Nat) : absRes (decodeFrame (4 :: t)) = parseFrameWith D (4 :: t) := by
  rw [parseFrameWith_small 4 t (by decide)]
  agree_simp

theorem agree_tag5 (t : List Nat) : absRes (decodeFrame (5 :: t)) = parseFrameWith D (5 :: t) := by
  rw [parseFrameWith_small 5 t (by decide)]
  agree_simp

theorem agree_tag6 (t : List Nat) : absRes (decodeFrame (6 :: t)) = parseFrameWith D (6 :: t) := by
  rw [parseFrameWith_small 6 t (by decide)]
  agree_simp

theorem agree_tag7 (t : List Nat) : absRes (decodeFrame (7 :: t)) = parseFrameWith D (7 :: t) := by
  rw [parseFrameWith_small 7 t (by decide)]
  agree_simp
  apply obind_congr; intro v r
  repeat' split
  all_goals simp_all

theorem agree_tag8 (t : List Nat) : absRes (decodeFrame (8 :: t)) = parseFrameWith D (8 :: t) := by
  rw [parseFrameWith_small 8 t (by decide)]
  agree_simp

theorem agree_tag9 (t : List Nat) : absRes (decodeFrame (9 :: t)) = parseFrameWith D (9 :: t) := by
  rw [parseFrameWith_small 9 t (by decide)]
  agree_simp

theorem agree_tag10 (t : List Nat) : absRes (decodeFrame (10 :: t)) = parseFrameWith D (10 :: t) := by
  rw [parseFrameWith_small 10 t (by decide)]
  agree_simp

theorem agree_tag11 (t : List Nat) : absRes (decodeFrame (11 :: t)) = parseFrameWith D (11 :: t) := by
  rw [parseFrameWith_small 11 t (by decide)]
  agree_simp

theorem agree_tag12 (t : List Nat) : absRes (decodeFrame (12 :: t)) = parseFrameWith D (12 :: t) := by
  rw [parseFrameWith_small 12 t (by decide)]
  agree_simp

theorem agree_tag13 (t : List Nat) : absRes (decodeFrame (13 :: t)) = parseFrameWith D (13 :: t) := by
  rw [parseFrameWith_small 13 t (by decide)]
  agree_simp

theorem agree_tag14 (t : List Nat) : absRes (decodeFrame (14 :: t)) = parseFrameWith D (14 :: t) := by
  rw [parseFrameWith_small 14 t (by decide)]
  agree_simp

theorem agree_tag15 (t : List Nat) : absRes (decodeFrame (15 :: t)) = parseFrameWith D (15 :: t) := by
  rw [parseFrameWith_small 15 t (by decide)]
  agree_simp

theorem agree_tag16 (t : List Nat) : absRes (decodeFrame (16 :: t)) = parseFrameWith D (16 :: t) := by
  rw [parseFrameWith_small 16 t (by decide)]
  agree_simp

theorem agree_tag17 (t : List Nat) : absRes (decodeFrame (17 :: t)) = parseFrameWith D (17 :: t) := by
  rw [parseFrameWith_small 17 t (by decide)]
  agree_simp

theorem agree_tag18 (t : List Nat) : absRes (decodeFrame (18 :: t)) = parseFrameWith D (18 :: t) := by
  rw [parseFrameWith_small 18 t (by decide)]
  agree_simp
  apply obind_congr; intro v r
  split <;> simp_all

theorem agree_tag19 (t : List Nat) : absRes (decodeFrame (19 :: t)) = parseFrameWith D (19 :: t) := by
  rw [parseFrameWith_small 19 t (by decide)]
  agree_simp
  apply obind_congr; intro v r
  split <;> simp_all

theorem agree_tag20 (t : List Nat) : absRes (decodeFrame (20 :: t)) = parseFrameWith D (20 :: t) := by
  rw [parseFrameWith_small 20 t (by decide)]
  agree_simp

theorem agree_tag21 (t : List Nat) : absRes (decodeFrame (21 :: t)) = parseFrameWith D (21 :: t) := by
  rw [parseFrameWith_small 21 t (by decide)]
  agree_simp

theorem agree_tag22 (t : List Nat) : absRes (decodeFrame (22 :: t)) = parseFrameWith D (22 :: t) := by
  rw [parseFrameWith_small 22 t (by decide)]
  agree_simp
  apply obind_congr; intro v r
  split <;> simp_all

theorem agree_tag23 (t : List Nat) : absRes (decodeFrame (23 :: t)) = parseFrameWith D (23 :: t) := by
  rw [parseFrameWith_small 23 t (by decide)]
  agree_simp
  apply obind_congr; intro v r
  split <;> simp_all

theorem agree_tag24 (t : List Nat) : absRes (decodeFrame (24 :: t)) = parseFrameWith D (24 :: t) := by
  rw [parseFrameWith_small 24 t (by decide)]
  agree_simp
  apply obind_congr; intro seq r
  apply obind_congr; intro rpt r
  cases r with
  | nil => simp
  | cons n r =>
    simp only [cidLenMin, cidLenMax]
    by_cases h1 : seq < rpt
    · have : ¬ rpt ≤ seq := by omega
      simp [h1, this]
      repeat' split
      all_goals simp_all
    · have : rpt ≤ seq := by omega
      simp only [h1, this, if_false, true_and]
      by_cases h2 : r.length < n
      · simp [h2]
      · have hmin : min n r.length = n := by omega
        simp only [h2, if_false, hmin]
        by_cases h3 : n < 1 ∨ 20 < n
        · have : ¬ (1 ≤ n ∧ n ≤ 20) := by omega
          simp [h3, this]
          intro _ _; omega
        · have : 1 ≤ n ∧ n ≤ 20 := by omega
          simp only [h3, this, if_false, if_true, and_self]

theorem agree_tag25 (t : List Nat) : absRes (decodeFrame (25 :: t)) = parseFrameWith D (25 :: t) := by
  rw [parseFrameWith_small 25 t (by decide)]
  agree_simp

theorem agree_tag26 (t : List Nat) : absRes (decodeFrame (26 :: t)) = parseFrameWith D (26 :: t) := by
  rw [parseFrameWith_small 26 t (by decide)]
  agree_simp

theorem agree_tag27 (t : List Nat) : absRes (decodeFrame (27 :: t)) = parseFrameWith D (27 :: t) := by
  rw [parseFrameWith_small 27 t (by decide)]
  agree_simp

theorem agree_tag28 (t : List Nat) : absRes (decodeFrame (28 :: t)) = parseFrameWith D (28 :: t) := by
  rw [parseFrameWith_small 28 t (by decide)]
  agree_simp
  apply obind_congr; intro c r
  apply obind_congr; intro ft r
  apply obind_congr; intro n r
  repeat' split
  all_goals simp_all
  all_goals (by_cases hn : n = 0 <;> simp_all)

theorem agree_tag29 (t : List Nat) : absRes (decodeFrame (29 :: t)) = parseFrameWith D (29 :: t) := by
  rw [parseFrameWith_small 29 t (by decide)]
  agree_simp
  apply obind_congr; intro c r
  apply obind_congr; intro n r
  repeat' split
  all_goals simp_all
  all_goals (by_cases hn : n = 0 <;> simp_all)

theorem agree_tag30 (t : List Nat) : absRes (decodeFrame (30 :: t)) = parseFrameWith D (30 :: t) := by
  rw [parseFrameWith_small 30 t (by decide)]
  agree_simp

theorem agree_tag31 (t : List Nat) : absRes (decodeFrame (31 :: t)) = parseFrameWith D (31 :: t) := by
  rw [parseFrameWith_small 31 t (by decide)]
  simp [decodeFrame, handleExtension, decVar_small, layout, absRes, dcTag, mtuTag]

theorem agree_tag32 (t : List Nat) : absRes (decodeFrame (32 :: t)) = parseFrameWith D (32 :: t) := by
  rw [parseFrameWith_small 32 t (by decide)]
  simp [decodeFrame, handleExtension, decVar_small, layout, absRes, dcTag, mtuTag]

theorem agree_tag33 (t : List Nat) : absRes (decodeFrame (33 :: t)) = parseFrameWith D (33 :: t) := by
  rw [parseFrameWith_small 33 t (by decide)]
  simp [decodeFrame, handleExtension, decVar_small, layout, absRes, dcTag, mtuTag]

theorem agree_tag34 (t : List Nat) : absRes (decodeFrame (34 :: t)) = parseFrameWith D (34 :: t) := by
  rw [parseFrameWith_small 34 t (by decide)]
  simp [decodeFrame, handleExtension, decVar_small, layout, absRes, dcTag, mtuTag]

theorem agree_tag35 (t : List Nat) : absRes (decodeFrame (35 :: t)) = parseFrameWith D (35 :: t) := by
  rw [parseFrameWith_small 35 t (by decide)]
  simp [decodeFrame, handleExtension, decVar_small, layout, absRes, dcTag, mtuTag]

theorem agree_tag36 (t : List Nat) : absRes (decodeFrame (36 :: t)) = parseFrameWith D (36 :: t) := by
  rw [parseFrameWith_small 36 t (by decide)]
  simp [decodeFrame, handleExtension, decVar_small, layout, absRes, dcTag, mtuTag]

theorem agree_tag37 (t : List Nat) : absRes (decodeFrame (37 :: t)) = parseFrameWith D (37 :: t) := by
  rw [parseFrameWith_small 37 t (by decide)]
  simp [decodeFrame, handleExtension, decVar_small, layout, absRes, dcTag, mtuTag]

theorem agree_tag38 (t : List Nat) : absRes (decodeFrame (38 :: t)) = parseFrameWith D (38 :: t) := by
  rw [parseFrameWith_small 38 t (by decide)]
  simp [decodeFrame, handleExtension, decVar_small, layout, absRes, dcTag, mtuTag]

theorem agree_tag39 (t : List Nat) : absRes (decodeFrame (39 :: t)) = parseFrameWith D (39 :: t) := by
  rw [parseFrameWith_small 39 t (by decide)]
  simp [decodeFrame, handleExtension, decVar_small, layout, absRes, dcTag, mtuTag]

theorem agree_tag40 (t : List Nat) : absRes (decodeFrame (40 :: t)) = parseFrameWith D (40 :: t) := by
  rw [parseFrameWith_small 40 t (by decide)]
  simp [decodeFrame, handleExtension, decVar_small, layout, absRes, dcTag, mtuTag]

theorem agree_tag41 (t : List Nat) : absRes (decodeFrame (41 :: t)) = parseFrameWith D (41 :: t) := by
  rw [parseFrameWith_small 41 t (by decide)]
  simp [decodeFrame, handleExtension, decVar_small, layout, absRes, dcTag, mtuTag]

theorem agree_tag42 (t : List Nat) : absRes (decodeFrame (42 :: t)) = parseFrameWith D (42 :: t) := by
  rw [parseFrameWith_small 42 t (by decide)]
  simp [decodeFrame, handleExtension, decVar_small, layout, absRes, dcTag, mtuTag]

theorem agree_tag43 (t : List Nat) : absRes (decodeFrame (43 :: t)) = parseFrameWith D (43 :: t) := by
  rw [parseFrameWith_small 43 t (by decide)]
  simp [decodeFrame, handleExtension, decVar_small, layout, absRes, dcTag, mtuTag]

theorem agree_tag44 (t : List Nat) : absRes (decodeFrame (44 :: t)) = parseFrameWith D (44 :: t) := by
  rw [parseFrameWith_small 44 t (by decide)]
  simp [decodeFrame, handleExtension, decVar_small, layout, absRes, dcTag, mtuTag]

theorem agree_tag45 (t : List Nat) : absRes (decodeFrame (45 :: t)) = parseFrameWith D (45 :: t) := by
  rw [parseFrameWith_small 45 t (by decide)]
  simp [decodeFrame, handleExtension, decVar_small, layout, absRes, dcTag, mtuTag]

theorem agree_tag46 (t : List Nat) : absRes (decodeFrame (46 :: t)) = parseFrameWith D (46 :: t) := by
  rw [parseFrameWith_small 46 t (by decide)]
  simp [decodeFrame, handleExtension, decVar_small, layout, absRes, dcTag, mtuTag]

theorem agree_tag47 (t : List Nat) : absRes (decodeFrame (47 :: t)) = parseFrameWith D (47 :: t) := by
  rw [parseFrameWith_small 47 t (by decide)]
  simp [decodeFrame, handleExtension, decVar_small, layout, absRes, dcTag, mtuTag]

theorem agree_tag48 (t : List Nat) : absRes (decodeFrame (48 :: t)) = parseFrameWith D (48 :: t) := by
  rw [parseFrameWith_small 48 t (by decide)]
  agree_simp

theorem agree_tag49 (t : List Nat) : absRes (decodeFrame (49 :: t)) = parseFrameWith D (49 :: t) := by
  rw [parseFrameWith_small 49 t (by decide)]
  agree_simp

theorem agree_tag50 (t : List Nat) : absRes (decodeFrame (50 :: t)) = parseFrameWith D (50 :: t) := by
  rw [parseFrameWith_small 50 t (by decide)]
  simp [decodeFrame, handleExtension, decVar_small, layout, absRes, dcTag, mtuTag]

theorem agree_tag51 (t : List Nat) : absRes (decodeFrame (51 :: t)) = parseFrameWith D (51 :: t) := by
  rw [parseFrameWith_small 51 t (by decide)]
  simp [decodeFrame, handleExtension, decVar_small, layout, absRes, dcTag, mtuTag]

theorem agree_tag52 (t : List Nat) : absRes (decodeFrame (52 :: t)) = parseFrameWith D (52 :: t) := by
  rw [parseFrameWith_small 52 t (by decide)]
  simp [decodeFrame, handleExtension, decVar_small, layout, absRes, dcTag, mtuTag]

theorem agree_tag53 (t : List Nat) : absRes (decodeFrame (53 :: t)) = parseFrameWith D (53 :: t) := by
  rw [parseFrameWith_small 53 t (by decide)]
  simp [decodeFrame, handleExtension, decVar_small, layout, absRes, dcTag, mtuTag]

theorem agree_tag54 (t : List Nat) : absRes (decodeFrame (54 :: t)) = parseFrameWith D (54 :: t) := by
  rw [parseFrameWith_small 54 t (by decide)]
  simp [decodeFrame, handleExtension, decVar_small, layout, absRes, dcTag, mtuTag]

theorem agree_tag55 (t : List Nat) : absRes (decodeFrame (55 :: t)) = parseFrameWith D (55 :: t) := by
  rw [parseFrameWith_small 55 t (by decide)]
  simp [decodeFrame, handleExtension, decVar_small, layout, absRes, dcTag, mtuTag]

theorem agree_tag56 (t : List Nat) : absRes (decodeFrame (56 :: t)) = parseFrameWith D (56 :: t) := by
  rw [parseFrameWith_small 56 t (by decide)]
  simp [decodeFrame, handleExtension, decVar_small, layout, absRes, dcTag, mtuTag]

theorem agree_tag57 (t : List Nat) : absRes (decodeFrame (57 :: t)) = parseFrameWith D (57 :: t) := by
  rw [parseFrameWith_small 57 t (by decide)]
  simp [decodeFrame, handleExtension, decVar_small, layout, absRes, dcTag, mtuTag]

theorem agree_tag58 (t : List Nat) : absRes (decodeFrame (58 :: t)) = parseFrameWith D (58 :: t) := by
  rw [parseFrameWith_small 58 t (by decide)]
  simp [decodeFrame, handleExtension, decVar_small, layout, absRes, dcTag, mtuTag]

theorem agree_tag59 (t : List Nat) : absRes (decodeFrame (59 :: t)) = parseFrameWith D (59 :: t) := by
  rw [parseFrameWith_small 59 t (by decide)]
  simp [decodeFrame, handleExtension, decVar_small, layout, absRes, dcTag, mtuTag]

theorem agree_tag60 (t : List Nat) : absRes (decodeFrame (60 :: t)) = parseFrameWith D (60 :: t) := by
  rw [parseFrameWith_small 60 t (by decide)]
  simp [decodeFrame, handleExtension, decVar_small, layout, absRes, dcTag, mtuTag]

theorem agree_tag61 (t : List Nat) : absRes (decodeFrame (61 :: t)) = parseFrameWith D (61 :: t) := by
  rw [parseFrameWith_small 61 t (by decide)]
  simp [decodeFrame, handleExtension, decVar_small, layout, absRes, dcTag, mtuTag]

theorem agree_tag62 (t : List Nat) : absRes (decodeFrame (62 :: t)) = parseFrameWith D (62 :: t) := by
  rw [parseFrameWith_small 62 t (by decide)]
  simp [decodeFrame, handleExtension, decVar_small, layout, absRes, dcTag, mtuTag]

theorem agree_tag63 (t : List Nat) : absRes (decodeFrame (63 :: t)) = parseFrameWith D (63 :: t) := by
  rw [parseFrameWith_small 63 t (by decide)]
  simp [decodeFrame, handleExtension, decVar_small, layout, absRes, dcTag, mtuTag]

end Quic.Proofs.Frame
