import QuicModel.Recovery.Manager
import QuicProofs.Lemmas.Recovery
/-
  Helper lemmas for the C09 theorems about the `recovery::Manager` model.
-/
namespace Quic.Proofs.Lemmas.RecoveryManager
open Quic.Recovery Quic.Recovery.Manager

/-- the congestion controller's counter of `path` -/
def cnt (m : Manager) (path : Nat) : Nat := (m.paths path).bytesInFlight

/-! ### `unresolvedBytes` -/

theorem ub_append (path : Nat) (a b : List SentInfo) :
    unresolvedBytes path (a ++ b) = unresolvedBytes path a + unresolvedBytes path b := by
  induction a with
  | nil => simp [unresolvedBytes]
  | cons x xs ih => simp only [List.cons_append, unresolvedBytes, ih]; omega

theorem ub_filter_split (path : Nat) (f : SentInfo → Bool) (l : List SentInfo) :
    unresolvedBytes path l = unresolvedBytes path (l.filter f) + unresolvedBytes path (l.filter (fun p => !f p)) := by
  induction l with
  | nil => simp [unresolvedBytes]
  | cons x xs ih =>
    cases hf : f x <;> simp only [List.filter_cons, hf, Bool.not_false, Bool.not_true, if_true, if_false,
      Bool.false_eq_true, unresolvedBytes, ih] <;> omega

theorem ub_take_drop (path : Nat) (f : SentInfo → Bool) (l : List SentInfo) :
    unresolvedBytes path l = unresolvedBytes path (l.takeWhile f) + unresolvedBytes path (l.dropWhile f) := by
  rw [← ub_append, List.takeWhile_append_dropWhile]

theorem ub_eq_sum (path : Nat) (l : List SentInfo) :
    unresolvedBytes path l = (l.map (fun p => if p.pathId = path then p.sentBytes else 0)).sum := by
  induction l with
  | nil => rfl
  | cons x xs ih => simp only [unresolvedBytes, List.map_cons, List.sum_cons, ih]

theorem sumBytes_filter_path (path : Nat) (l : List SentInfo) :
    sumBytes (l.filter (fun p => decide (p.pathId = path))) = unresolvedBytes path l := by
  induction l with
  | nil => rfl
  | cons x xs ih =>
    by_cases h : x.pathId = path
    · simp only [List.filter_cons, h, decide_true, if_true, unresolvedBytes]
      simp only [sumBytes, List.map_cons, List.sum_cons] at ih ⊢
      omega
    · simp only [List.filter_cons, h, decide_false, if_false, unresolvedBytes, Bool.false_eq_true]
      omega

theorem sumBytes_all_path (path : Nat) (l : List SentInfo) (h : l.all (fun p => decide (p.pathId = path)) = true) :
    sumBytes l = unresolvedBytes path l ∧ ∀ q, q ≠ path → unresolvedBytes q l = 0 := by
  induction l with
  | nil => exact ⟨rfl, fun _ _ => rfl⟩
  | cons x xs ih =>
    simp only [List.all_cons, Bool.and_eq_true, decide_eq_true_eq] at h
    obtain ⟨h1, h2⟩ := ih h.2
    constructor
    · simp only [sumBytes, List.map_cons, List.sum_cons, unresolvedBytes, h.1, if_true] at h1 ⊢
      omega
    · intro q hq
      simp only [unresolvedBytes, h2 q hq]
      have : ¬ x.pathId = q := by rw [h.1]; exact fun e => hq e.symm
      simp [this]

/-! ### the counter operations -/

theorem cnt_setPath (i : Nat) (p : PathState) (path : Nat) (ps : Nat → PathState) :
    (setPath ps i p path).bytesInFlight = if path = i then p.bytesInFlight else (ps path).bytesInFlight := by
  simp only [setPath]; split <;> rfl

theorem cnt_addBif (m : Manager) (i n path : Nat) :
    cnt (addBif m i n) path = cnt m path + (if i = path then n else 0) := by
  simp only [cnt, addBif, setPath]
  by_cases h : path = i
  · subst h; simp
  · have : ¬ i = path := fun e => h e.symm
    simp [h, this]

theorem subBif_ok (m : Manager) (i n : Nat) (h : n ≤ cnt m i) :
    (∀ path, cnt (subBif m i n) path = cnt m path - (if i = path then n else 0)) ∧
      (subBif m i n).underflow = m.underflow ∧ (subBif m i n).sent = m.sent := by
  simp only [cnt] at h
  refine ⟨fun path => ?_, ?_, ?_⟩
  · simp only [cnt, subBif, h, if_true, setPath]
    by_cases hp : path = i
    · subst hp; simp
    · have : ¬ i = path := fun e => hp e.symm
      simp [hp, this]
  · simp only [subBif, h, if_true]
  · simp only [subBif, h, if_true]


/-! ### the loss time threshold of a path only changes with an RTT sample -/

/-- `loss_time_threshold()` of `path`'s estimator -/
def ltt (m : Manager) (path : Nat) : Nat := Rtt.lossTimeThreshold (m.paths path).rtt

theorem ltt_setPath_same (ps : Nat → PathState) (i : Nat) (p : PathState)
    (h : Rtt.lossTimeThreshold p.rtt = Rtt.lossTimeThreshold (ps i).rtt) (path : Nat) :
    Rtt.lossTimeThreshold (setPath ps i p path).rtt = Rtt.lossTimeThreshold (ps path).rtt := by
  simp only [setPath]
  split
  · rename_i e; subst e; exact h
  · rfl

theorem ltt_onPersistentCongestion (r : Rtt.RttEstimator) :
    Rtt.lossTimeThreshold (Rtt.onPersistentCongestion r) = Rtt.lossTimeThreshold r := rfl

theorem ltt_subBif (m : Manager) (i n path : Nat) : ltt (subBif m i n) path = ltt m path := by
  simp only [ltt, subBif]
  split
  · dsimp only
    refine ltt_setPath_same m.paths i _ ?_ path
    rfl
  · dsimp only
    refine ltt_setPath_same m.paths i _ ?_ path
    rfl

/-- the persistent-congestion tail of `lostOne` -/
theorem ltt_pcTail (m' : Manager) (i : Nat) (b : Bool) (path : Nat) :
    ltt (if b = true then
        { m' with paths := setPath m'.paths i { m'.paths i with rtt := Rtt.onPersistentCongestion (m'.paths i).rtt } }
      else m') path = ltt m' path := by
  split
  · simp only [ltt]
    refine ltt_setPath_same m'.paths i _ ?_ path
    exact ltt_onPersistentCongestion _
  · rfl

theorem ltt_lostOne (d c : Nat) (m : Manager) (p : SentInfo) (path : Nat) : ltt (lostOne d c m p) path = ltt m path := by
  have h1 : ltt (if p.mtuProbe = true then subBif m p.pathId p.sentBytes
      else if p.sentBytes > 0 then subBif m p.pathId p.sentBytes else m) path = ltt m path := by
    split
    · rw [ltt_subBif]
    · split
      · rw [ltt_subBif]
      · rfl
  simp only [lostOne]
  generalize (if p.mtuProbe = true then subBif m p.pathId p.sentBytes
      else if p.sentBytes > 0 then subBif m p.pathId p.sentBytes else m) = m1 at h1 ⊢
  rw [ltt_pcTail, h1]

theorem ltt_foldl_lostOne (d c : Nat) (L : List SentInfo) (path : Nat) : ∀ m : Manager,
    ltt (L.foldl (lostOne d c) m) path = ltt m path := by
  induction L with
  | nil => intro m; rfl
  | cons p ps ih => intro m; simp only [List.foldl_cons]; rw [ih, ltt_lostOne]

theorem ltt_pvTail (m' : Manager) (i : Nat) (path : Nat) :
    ltt (if (m'.paths i).peerValidated = true then
        { m' with paths := setPath m'.paths i { m'.paths i with ptoBackoff := 1 } } else m') path = ltt m' path := by
  split
  · simp only [ltt]
    refine ltt_setPath_same m'.paths i _ ?_ path
    rfl
  · rfl

theorem ltt_ackOne (rx : Nat) (m : Manager) (p : SentInfo) (path : Nat) : ltt (ackOne rx m p) path = ltt m path := by
  have h1 : ltt (if p.pathId = rx then m else if p.sentBytes > 0 then subBif m p.pathId p.sentBytes else m) path
      = ltt m path := by
    split
    · rfl
    · split
      · rw [ltt_subBif]
      · rfl
  simp only [ackOne]
  generalize (if p.pathId = rx then m else if p.sentBytes > 0 then subBif m p.pathId p.sentBytes else m) = m1 at h1 ⊢
  rw [ltt_pvTail, h1]

theorem ltt_foldl_ackOne (rx : Nat) (L : List SentInfo) (path : Nat) : ∀ m : Manager,
    ltt (L.foldl (ackOne rx) m) path = ltt m path := by
  induction L with
  | nil => intro m; rfl
  | cons p ps ih => intro m; simp only [List.foldl_cons]; rw [ih, ltt_ackOne]

/-- bytes-in-flight invariant: no counter underflow so far and every path's counter equals the
    total size of its unresolved packets -/
structure Inv (m : Manager) : Prop where
  noUnderflow : m.underflow = false
  exact : ∀ path, cnt m path = unresolvedBytes path m.sent

/-- folding a per-packet step that subtracts `w p path` from the counters -/
theorem foldl_cnt (f : Manager → SentInfo → Manager) (w : SentInfo → Nat → Nat)
    (hf : ∀ m p, (∀ path, w p path ≤ cnt m path) →
      (∀ path, cnt (f m p) path = cnt m path - w p path) ∧ (f m p).underflow = m.underflow)
    (L : List SentInfo) : ∀ (m : Manager) (X : Nat → Nat), m.underflow = false →
      (∀ path, cnt m path = X path + (L.map (fun p => w p path)).sum) →
      (L.foldl f m).underflow = false ∧ ∀ path, cnt (L.foldl f m) path = X path := by
  induction L with
  | nil => intro m X hu h; exact ⟨hu, fun path => by simpa using h path⟩
  | cons p ps ih =>
    intro m X hu h
    have hle : ∀ path, w p path ≤ cnt m path := fun path => by
      have := h path; simp only [List.map_cons, List.sum_cons] at this; omega
    obtain ⟨h1, h2⟩ := hf m p hle
    simp only [List.foldl_cons]
    apply ih (f m p) X (by rw [h2]; exact hu)
    intro path
    have := h path; simp only [List.map_cons, List.sum_cons] at this
    rw [h1 path]; omega

def wLost (p : SentInfo) (path : Nat) : Nat := if p.pathId = path then p.sentBytes else 0
def wAck (rx : Nat) (p : SentInfo) (path : Nat) : Nat := if p.pathId = path ∧ p.pathId ≠ rx then p.sentBytes else 0

theorem lostOne_cnt (d c : Nat) (m : Manager) (p : SentInfo) (h : ∀ path, wLost p path ≤ cnt m path) :
    (∀ path, cnt (lostOne d c m p) path = cnt m path - wLost p path) ∧ (lostOne d c m p).underflow = m.underflow := by
  have hb : p.sentBytes ≤ cnt m p.pathId := by simpa [wLost] using h p.pathId
  obtain ⟨s1, s2, _⟩ := subBif_ok m p.pathId p.sentBytes hb
  have key : ∀ (m' : Manager), (∀ path, cnt m' path = cnt m path - wLost p path) → m'.underflow = m.underflow →
      (∀ path, cnt (if (decide (d > Rtt.persistentCongestionThreshold (m.paths p.pathId).rtt) && decide (p.pathId = c)) = true then
          { m' with paths := setPath m'.paths p.pathId { m'.paths p.pathId with rtt := Rtt.onPersistentCongestion (m'.paths p.pathId).rtt } }
        else m') path = cnt m path - wLost p path) ∧
      (if (decide (d > Rtt.persistentCongestionThreshold (m.paths p.pathId).rtt) && decide (p.pathId = c)) = true then
          { m' with paths := setPath m'.paths p.pathId { m'.paths p.pathId with rtt := Rtt.onPersistentCongestion (m'.paths p.pathId).rtt } }
        else m').underflow = m.underflow := by
    intro m' h1 h2
    split
    · refine ⟨fun path => ?_, h2⟩
      rw [← h1 path]
      simp only [cnt, setPath]
      split
      · rename_i e; subst e; rfl
      · rfl
    · exact ⟨h1, h2⟩
  simp only [lostOne]
  by_cases hm : p.mtuProbe = true
  · simp only [hm, if_true]
    exact key _ (fun path => by rw [s1 path]; rfl) s2
  · simp only [hm, Bool.false_eq_true, if_false]
    by_cases hz : p.sentBytes > 0
    · simp only [hz, if_true]
      exact key _ (fun path => by rw [s1 path]; rfl) s2
    · simp only [hz, if_false]
      exact key m (fun path => by simp only [wLost]; split <;> omega) rfl

theorem lostOne_fields (d c : Nat) (m : Manager) (p : SentInfo) :
    (lostOne d c m p).sent = m.sent ∧ (lostOne d c m p).largestAcked = m.largestAcked := by
  simp only [lostOne, subBif]
  repeat' split
  all_goals exact ⟨rfl, rfl⟩

theorem foldl_lostOne_fields (d c : Nat) (L : List SentInfo) : ∀ (m : Manager),
    (L.foldl (lostOne d c) m).sent = m.sent ∧ (L.foldl (lostOne d c) m).largestAcked = m.largestAcked := by
  induction L with
  | nil => intro m; exact ⟨rfl, rfl⟩
  | cons p ps ih =>
    intro m
    simp only [List.foldl_cons]
    obtain ⟨a, b⟩ := ih (lostOne d c m p)
    obtain ⟨a', b'⟩ := lostOne_fields d c m p
    exact ⟨a.trans a', b.trans b'⟩

theorem ackOne_cnt (rx : Nat) (m : Manager) (p : SentInfo) (h : ∀ path, wAck rx p path ≤ cnt m path) :
    (∀ path, cnt (ackOne rx m p) path = cnt m path - wAck rx p path) ∧ (ackOne rx m p).underflow = m.underflow := by
  have key : ∀ (m' : Manager), (∀ path, cnt m' path = cnt m path - wAck rx p path) → m'.underflow = m.underflow →
      (∀ path, cnt (if (m'.paths p.pathId).peerValidated = true then
          { m' with paths := setPath m'.paths p.pathId { m'.paths p.pathId with ptoBackoff := 1 } } else m') path
            = cnt m path - wAck rx p path) ∧
      (if (m'.paths p.pathId).peerValidated = true then
          { m' with paths := setPath m'.paths p.pathId { m'.paths p.pathId with ptoBackoff := 1 } } else m').underflow
            = m.underflow := by
    intro m' h1 h2
    split
    · refine ⟨fun path => ?_, h2⟩
      rw [← h1 path]
      simp only [cnt, setPath]
      split
      · rename_i e; subst e; rfl
      · rfl
    · exact ⟨h1, h2⟩
  simp only [ackOne]
  by_cases hr : p.pathId = rx
  · simp only [hr, if_true]
    have := key m (fun path => by simp [wAck, hr]) rfl
    simpa only [hr] using this
  · simp only [hr, if_false]
    by_cases hz : p.sentBytes > 0
    · have hb : p.sentBytes ≤ cnt m p.pathId := by simpa [wAck, hr] using h p.pathId
      obtain ⟨s1, s2, _⟩ := subBif_ok m p.pathId p.sentBytes hb
      simp only [hz, if_true]
      exact key _ (fun path => by rw [s1 path]; simp [wAck, hr]) s2
    · simp only [hz, if_false]
      exact key m (fun path => by simp only [wAck]; split <;> omega) rfl

theorem ackOne_fields (rx : Nat) (m : Manager) (p : SentInfo) :
    (ackOne rx m p).sent = m.sent ∧ (ackOne rx m p).largestAcked = m.largestAcked := by
  simp only [ackOne, subBif]
  repeat' split
  all_goals exact ⟨rfl, rfl⟩

theorem foldl_ackOne_fields (rx : Nat) (L : List SentInfo) : ∀ (m : Manager),
    (L.foldl (ackOne rx) m).sent = m.sent ∧ (L.foldl (ackOne rx) m).largestAcked = m.largestAcked := by
  induction L with
  | nil => intro m; exact ⟨rfl, rfl⟩
  | cons p ps ih =>
    intro m
    simp only [List.foldl_cons]
    obtain ⟨a, b⟩ := ih (ackOne rx m p)
    obtain ⟨a', b'⟩ := ackOne_fields rx m p
    exact ⟨a.trans a', b.trans b'⟩

theorem updatePtoTimer_fields (m : Manager) (now : Nat) :
    (updatePtoTimer m now).sent = m.sent ∧ (updatePtoTimer m now).paths = m.paths ∧
      (updatePtoTimer m now).underflow = m.underflow ∧ (updatePtoTimer m now).largestAcked = m.largestAcked := by
  simp only [updatePtoTimer]
  repeat' split
  all_goals exact ⟨rfl, rfl, rfl, rfl⟩


theorem armLossTimer_fields (m : Manager) (la now : Nat) (rest : List SentInfo) :
    (armLossTimer m la now rest).sent = m.sent ∧ (armLossTimer m la now rest).paths = m.paths ∧
      (armLossTimer m la now rest).underflow = m.underflow ∧
      (armLossTimer m la now rest).largestAcked = m.largestAcked := by
  simp only [armLossTimer]
  repeat' split
  all_goals exact ⟨rfl, rfl, rfl, rfl⟩

theorem mem_takeWhile_true {α : Type} (f : α → Bool) (l : List α) (x : α) (h : x ∈ l.takeWhile f) : f x = true := by
  induction l with
  | nil => simp at h
  | cons y ys ih =>
    simp only [List.takeWhile_cons] at h
    split at h
    · rcases List.mem_cons.mp h with rfl | h'
      · assumption
      · exact ih h'
    · simp at h

theorem detectAndRemoveLost_some (m : Manager) (now cur la : Nat) (h : m.largestAcked = some la) :
    detectAndRemoveLost m now cur = detectWith { m with lossTimer := none } la now cur := by
  simp only [detectAndRemoveLost, h]

theorem detectAndRemoveLost_none (m : Manager) (now cur : Nat) (h : m.largestAcked = none) :
    detectAndRemoveLost m now cur = ({ m with lossTimer := none, panicked := true }, []) := by
  simp only [detectAndRemoveLost, h]

/-- what `detect_lost_packets`/`remove_lost_packets` do to the bookkeeping; `X` is slack that is
    not (yet) accounted for by `sent` (bytes of packets acknowledged by the frame being processed) -/
theorem detectWith_inv (m : Manager) (la now cur : Nat) (X : Nat → Nat) (hu : m.underflow = false)
    (h : ∀ path, cnt m path = X path + unresolvedBytes path m.sent) :
    (detectWith m la now cur).1.underflow = false ∧
    (∀ path, cnt (detectWith m la now cur).1 path = X path + unresolvedBytes path (detectWith m la now cur).1.sent) ∧
    m.sent = (detectWith m la now cur).2 ++ (detectWith m la now cur).1.sent ∧
    (detectWith m la now cur).1.largestAcked = m.largestAcked ∧
    (∀ p ∈ (detectWith m la now cur).2, isLost m la now p = true) ∧
    (∀ path, ltt (detectWith m la now cur).1 path = ltt m path) := by
  unfold detectWith
  simp only []
  generalize hlost : m.sent.takeWhile (isLost m la now) = lost
  generalize hrest : m.sent.dropWhile (isLost m la now) = rest
  obtain ⟨a1, a2, a3, a4⟩ := armLossTimer_fields m la now rest
  generalize harm : armLossTimer m la now rest = m1 at a1 a2 a3 a4
  generalize (lost.foldl (fun c p => c.onLostPacket p.pn p.timeSent p.pathId p.mtuProbe p.ackEliciting)
    (PersistentCongestion.Calculator.new (m1.paths cur).rtt.firstRttSample cur)).maxDuration = d
  have hsplit : m.sent = lost ++ rest := by rw [← hlost, ← hrest, List.takeWhile_append_dropWhile]
  have hcnt : ∀ path, cnt { m1 with sent := rest } path =
      (X path + unresolvedBytes path rest) + (lost.map (fun p => wLost p path)).sum := by
    intro path
    have e : cnt { m1 with sent := rest } path = cnt m path := by simp only [cnt, a2]
    rw [e, h path, hsplit, ub_append, ub_eq_sum path lost]
    simp only [wLost]; omega
  obtain ⟨f1, f2⟩ := foldl_cnt (lostOne d cur) wLost (lostOne_cnt d cur) lost { m1 with sent := rest }
    (fun path => X path + unresolvedBytes path rest) (a3.trans hu) hcnt
  obtain ⟨g1, g2⟩ := foldl_lostOne_fields d cur lost { m1 with sent := rest }
  refine ⟨f1, ?_, ?_, ?_, ?_, ?_⟩
  · intro path; rw [f2 path, g1]
  · rw [g1]; exact hsplit
  · rw [g2]; exact a4
  · intro p hp
    rw [← hlost] at hp
    exact mem_takeWhile_true _ _ _ hp
  · intro path
    rw [ltt_foldl_lostOne]
    simp only [ltt, a2]

theorem detect_inv (m : Manager) (now cur : Nat) (X : Nat → Nat) (hu : m.underflow = false)
    (h : ∀ path, cnt m path = X path + unresolvedBytes path m.sent) :
    (detectAndRemoveLost m now cur).1.underflow = false ∧
    (∀ path, cnt (detectAndRemoveLost m now cur).1 path = X path + unresolvedBytes path (detectAndRemoveLost m now cur).1.sent) ∧
    m.sent = (detectAndRemoveLost m now cur).2 ++ (detectAndRemoveLost m now cur).1.sent ∧
    (detectAndRemoveLost m now cur).1.largestAcked = m.largestAcked ∧
    (∀ p ∈ (detectAndRemoveLost m now cur).2, ∃ la, m.largestAcked = some la ∧ isLost m la now p = true) ∧
    (∀ path, ltt (detectAndRemoveLost m now cur).1 path = ltt m path) := by
  rcases ho : m.largestAcked with _ | la
  · rw [detectAndRemoveLost_none m now cur ho]
    exact ⟨hu, h, by simp, ho, by simp, fun _ => rfl⟩
  · rw [detectAndRemoveLost_some m now cur la ho]
    obtain ⟨b1, b2, b3, b4, b5, b6⟩ := detectWith_inv { m with lossTimer := none } la now cur X hu h
    exact ⟨b1, b2, b3, b4.trans ho, fun p hp => ⟨la, rfl, b5 p hp⟩, b6⟩


theorem sum_wAck (rx path : Nat) (A : List SentInfo) :
    (A.map (fun p => wAck rx p path)).sum = if path = rx then 0 else unresolvedBytes path A := by
  induction A with
  | nil => simp [unresolvedBytes]
  | cons x xs ih =>
    simp only [List.map_cons, List.sum_cons, unresolvedBytes]
    rw [ih]
    simp only [wAck]
    by_cases h1 : path = rx
    · subst h1
      by_cases h2 : x.pathId = path <;> simp [h2]
    · by_cases h2 : x.pathId = path
      · simp [h1, h2]
      · simp [h1, h2]

/-- a packet declared lost by the manager: `loss::detect` said `Lost` for it, with the current
    `loss_time_threshold()` of the RTT estimator of the path it was sent on (as of the end of the
    operation: the threshold only changes with an RTT sample, which is taken before loss detection)
    and the manager's largest acknowledged packet `la` -/
def LostBy (m' : Manager) (la now : Nat) (p : SentInfo) : Prop :=
  Loss.detect (Rtt.lossTimeThreshold (m'.paths p.pathId).rtt) p.timeSent Loss.K_PACKET_THRESHOLD p.pn la now
    = some Loss.Outcome.lost

theorem isLost_LostBy (m m' : Manager) (la now : Nat) (p : SentInfo) (h : isLost m la now p = true)
    (hl : ∀ path, ltt m' path = ltt m path) : LostBy m' la now p := by
  have := hl p.pathId
  simp only [ltt] at this
  simp only [LostBy, this]
  simpa [isLost] using h

theorem updateLargestAcked_fields (m : Manager) (fl : Nat) :
    (updateLargestAcked m fl).sent = m.sent ∧ (updateLargestAcked m fl).paths = m.paths ∧
      (updateLargestAcked m fl).underflow = m.underflow := by
  simp only [updateLargestAcked]
  repeat' split
  all_goals exact ⟨rfl, rfl, rfl⟩

theorem rttSample_fields (m : Manager) (lna : SentInfo) (fl d now rx : Nat) (ae : Bool) :
    (rttSample m lna fl d now rx ae).sent = m.sent ∧ (∀ path, cnt (rttSample m lna fl d now rx ae) path = cnt m path) ∧
      (rttSample m lna fl d now rx ae).underflow = m.underflow ∧
      (rttSample m lna fl d now rx ae).largestAcked = m.largestAcked := by
  simp only [rttSample]
  split
  · refine ⟨rfl, fun path => ?_, rfl, rfl⟩
    simp only [cnt, setPath]
    split
    · rename_i e; subst e; rfl
    · rfl
  · exact ⟨rfl, fun _ => rfl, rfl, rfl⟩

/-- `process_new_acked_packets`: the acknowledged bytes `A` are still counted when it starts -/
theorem processNewAcked_spec (m : Manager) (A : List SentInfo) (now rx : Nat) (hu : m.underflow = false)
    (hpre : ∀ path, cnt m path = unresolvedBytes path A + unresolvedBytes path m.sent) :
    Inv (processNewAcked m A now rx).1 ∧
    ∃ lost : List SentInfo,
      (processNewAcked m A now rx).2 = { acked := A.map (·.pn), lost := lost.map (·.pn) } ∧
      m.sent = lost ++ (processNewAcked m A now rx).1.sent ∧
      (processNewAcked m A now rx).1.largestAcked = m.largestAcked ∧
      (∀ p ∈ lost, ∃ la, m.largestAcked = some la ∧ isLost m la now p = true) ∧
      (∀ path, ltt (processNewAcked m A now rx).1 path = ltt m path) := by
  obtain ⟨d1, d2, d3, d4, d5, d6⟩ := detect_inv m now rx (fun path => unresolvedBytes path A) hu hpre
  unfold processNewAcked
  simp only []
  generalize hdet : detectAndRemoveLost m now rx = det at d1 d2 d3 d4 d5 d6
  obtain ⟨m4, lost⟩ := det
  simp only [] at d1 d2 d3 d4 d5 d6 ⊢
  have hpre2 : ∀ path, cnt m4 path =
      (unresolvedBytes path m4.sent + (if path = rx then unresolvedBytes rx A else 0)) +
        (A.map (fun p => wAck rx p path)).sum := by
    intro path
    rw [d2 path, sum_wAck]
    split
    · rename_i e; subst e; omega
    · omega
  obtain ⟨e1, e2⟩ := foldl_cnt (ackOne rx) (wAck rx) (ackOne_cnt rx) A m4 _ d1 hpre2
  obtain ⟨e3, e4⟩ := foldl_ackOne_fields rx A m4
  generalize hm5 : A.foldl (ackOne rx) m4 = m5 at e1 e2 e3 e4
  obtain ⟨u1, u2, u3, u4⟩ := updatePtoTimer_fields m5 now
  generalize hm6 : updatePtoTimer m5 now = m6 at u1 u2 u3 u4
  rw [sumBytes_filter_path rx A]
  have h6c : ∀ path, cnt m6 path = unresolvedBytes path m4.sent + (if path = rx then unresolvedBytes rx A else 0) := by
    intro path; simp only [cnt, u2]; exact e2 path
  have h6l : ∀ path, ltt m6 path = ltt m path := by
    intro path
    have : ltt m6 path = ltt m5 path := by simp only [ltt, u2]
    rw [this, ← hm5, ltt_foldl_ackOne]; exact d6 path
  have hfinal : Inv (if unresolvedBytes rx A > 0 then subBif m6 rx (unresolvedBytes rx A) else m6) ∧
      (if unresolvedBytes rx A > 0 then subBif m6 rx (unresolvedBytes rx A) else m6).sent = m4.sent ∧
      (if unresolvedBytes rx A > 0 then subBif m6 rx (unresolvedBytes rx A) else m6).largestAcked = m4.largestAcked ∧
      (∀ path, ltt (if unresolvedBytes rx A > 0 then subBif m6 rx (unresolvedBytes rx A) else m6) path = ltt m path) := by
    split
    · have hb : unresolvedBytes rx A ≤ cnt m6 rx := by rw [h6c rx]; simp
      obtain ⟨s1, s2, s3⟩ := subBif_ok m6 rx _ hb
      refine ⟨⟨by rw [s2, u3]; exact e1, fun path => ?_⟩, by rw [s3, u1, e3], ?_, fun path => by rw [ltt_subBif]; exact h6l path⟩
      · rw [s1 path, h6c path, s3, u1, e3]
        by_cases hp : path = rx
        · subst hp; simp
        · have : ¬ rx = path := fun e => hp e.symm
          simp [hp, this]
      · simp only [cnt] at hb
        simp only [subBif, hb, if_true]; rw [u4, e4]
    · rename_i hz
      have hz' : unresolvedBytes rx A = 0 := by omega
      refine ⟨⟨by rw [u3]; exact e1, fun path => ?_⟩, by rw [u1, e3], by rw [u4, e4], h6l⟩
      rw [h6c path, u1, e3, hz']; simp
  obtain ⟨f1, f2, f3, f4⟩ := hfinal
  exact ⟨f1, lost, rfl, by rw [f2]; exact d3, by rw [f3]; exact d4, d5, f4⟩

/-- specification of one `process_acks` call -/
theorem processAcks_spec (m : Manager) (ranges : List (Nat × Nat)) (d now rx : Nat) (hinv : Inv m) :
    Inv (processAcks m ranges d now rx).1 ∧
    ∃ A lost : List SentInfo,
      (processAcks m ranges d now rx).2 = { acked := A.map (·.pn), lost := lost.map (·.pn) } ∧
      (A ++ (lost ++ (processAcks m ranges d now rx).1.sent)).Perm m.sent ∧
      (∀ p ∈ A, inRanges ranges p.pn = true) ∧
      (∀ p ∈ lost, ∃ la, (processAcks m ranges d now rx).1.largestAcked = some la ∧
        LostBy (processAcks m ranges d now rx).1 la now p) := by
  obtain ⟨hu, hex⟩ := hinv
  unfold processAcks
  simp only []
  generalize hA : m.sent.filter (fun p => inRanges ranges p.pn) = A
  generalize hR : m.sent.filter (fun p => !inRanges ranges p.pn) = R
  have hperm : (A ++ R).Perm m.sent := by
    rw [← hA, ← hR]; exact List.filter_append_perm _ _
  have hsplit : ∀ path, unresolvedBytes path m.sent = unresolvedBytes path A + unresolvedBytes path R := by
    intro path; rw [← hA, ← hR]; exact ub_filter_split path _ _
  have hAin : ∀ p ∈ A, inRanges ranges p.pn = true := by
    intro p hp; rw [← hA] at hp; exact (List.mem_filter.mp hp).2
  obtain ⟨h2s, h2p, h2u⟩ := updateLargestAcked_fields { m with sent := R } (frameLargest ranges)
  generalize hm2 : updateLargestAcked { m with sent := R } (frameLargest ranges) = m2 at h2s h2p h2u
  simp only [] at h2s h2p h2u
  cases hlast : A.getLast? with
  | none =>
    have hnil : A = [] := by simpa using hlast
    simp only []
    refine ⟨⟨h2u.trans hu, fun path => ?_⟩, [], [], rfl, ?_, by simp, by simp⟩
    · have := hex path
      simp only [cnt, h2p, h2s] at this ⊢
      rw [this, hsplit path, hnil]; simp [unresolvedBytes]
    · rw [h2s]; simpa [hnil] using hperm
  | some lna =>
    simp only []
    obtain ⟨h3s, h3c, h3u, h3l⟩ := rttSample_fields m2 lna (frameLargest ranges) d now rx (A.any (fun p => p.ackEliciting))
    generalize hm3 : rttSample m2 lna (frameLargest ranges) d now rx (A.any (fun p => p.ackEliciting)) = m3 at h3s h3c h3u h3l
    have hpre : ∀ path, cnt m3 path = unresolvedBytes path A + unresolvedBytes path m3.sent := by
      intro path
      have e : cnt m2 path = cnt m path := by simp only [cnt, h2p]
      rw [h3c path, e, hex path, hsplit path, h3s, h2s]
    obtain ⟨f1, lost, f2, f3, f4, f5, f6⟩ := processNewAcked_spec m3 A now rx (by rw [h3u, h2u]; exact hu) hpre
    refine ⟨f1, A, lost, f2, ?_, hAin, ?_⟩
    · have : R = lost ++ (processNewAcked m3 A now rx).1.sent := by rw [← f3, h3s, h2s]
      rw [← this]; exact hperm
    · intro p hp
      obtain ⟨la, hla, hl⟩ := f5 p hp
      exact ⟨la, by rw [f4]; exact hla, isLost_LostBy m3 _ la now p hl f6⟩


/-! ### the ghost `nextPn` is only written by `on_packet_sent` -/

theorem hs_subBif (m : Manager) (i n : Nat) : (subBif m i n).nextPn = m.nextPn := by
  simp only [subBif]; split <;> rfl

theorem hs_lostOne (d c : Nat) (m : Manager) (p : SentInfo) : (lostOne d c m p).nextPn = m.nextPn := by
  simp only [lostOne, subBif]
  repeat' split
  all_goals rfl

theorem hs_foldl_lostOne (d c : Nat) (L : List SentInfo) : ∀ m : Manager,
    (L.foldl (lostOne d c) m).nextPn = m.nextPn := by
  induction L with
  | nil => intro m; rfl
  | cons p ps ih => intro m; simp only [List.foldl_cons]; rw [ih, hs_lostOne]

theorem hs_ackOne (rx : Nat) (m : Manager) (p : SentInfo) : (ackOne rx m p).nextPn = m.nextPn := by
  simp only [ackOne, subBif]
  repeat' split
  all_goals rfl

theorem hs_foldl_ackOne (rx : Nat) (L : List SentInfo) : ∀ m : Manager,
    (L.foldl (ackOne rx) m).nextPn = m.nextPn := by
  induction L with
  | nil => intro m; rfl
  | cons p ps ih => intro m; simp only [List.foldl_cons]; rw [ih, hs_ackOne]

theorem hs_updatePtoTimer (m : Manager) (now : Nat) : (updatePtoTimer m now).nextPn = m.nextPn := by
  simp only [updatePtoTimer]
  repeat' split
  all_goals rfl

theorem hs_armLossTimer (m : Manager) (la now : Nat) (rest : List SentInfo) :
    (armLossTimer m la now rest).nextPn = m.nextPn := by
  simp only [armLossTimer]
  repeat' split
  all_goals rfl

theorem hs_detect (m : Manager) (now cur : Nat) : (detectAndRemoveLost m now cur).1.nextPn = m.nextPn := by
  rcases ho : m.largestAcked with _ | la
  · rw [detectAndRemoveLost_none m now cur ho]
  · rw [detectAndRemoveLost_some m now cur la ho]
    simp only [detectWith]
    rw [hs_foldl_lostOne]
    exact hs_armLossTimer _ _ _ _

theorem hs_updateLargestAcked (m : Manager) (fl : Nat) : (updateLargestAcked m fl).nextPn = m.nextPn := by
  simp only [updateLargestAcked]
  repeat' split
  all_goals rfl

theorem hs_rttSample (m : Manager) (lna : SentInfo) (fl d now rx : Nat) (ae : Bool) :
    (rttSample m lna fl d now rx ae).nextPn = m.nextPn := by
  simp only [rttSample]; split <;> rfl

theorem hs_processNewAcked (m : Manager) (A : List SentInfo) (now rx : Nat) :
    (processNewAcked m A now rx).1.nextPn = m.nextPn := by
  simp only [processNewAcked]
  split
  · rw [hs_subBif, hs_updatePtoTimer, hs_foldl_ackOne, hs_detect]
  · rw [hs_updatePtoTimer, hs_foldl_ackOne, hs_detect]

theorem hs_processAcks (m : Manager) (ranges : List (Nat × Nat)) (d now rx : Nat) :
    (processAcks m ranges d now rx).1.nextPn = m.nextPn := by
  simp only [processAcks]
  split
  · rw [hs_updateLargestAcked]
  · rw [hs_processNewAcked, hs_rttSample, hs_updateLargestAcked]

theorem hs_onTimeout (m : Manager) (now : Nat) : (onTimeout m now).1.nextPn = m.nextPn := by
  simp only [onTimeout, onLossTimeout, onPtoTimeout]
  repeat' split
  all_goals first | rfl | (rw [hs_updatePtoTimer, hs_detect]; done) | (rw [hs_updatePtoTimer]; done)

/-! ### timeouts -/

theorem hs_onLossTimeout (m : Manager) (now : Nat) : (onLossTimeout m now).1.nextPn = m.nextPn := by
  simp only [onLossTimeout]; rw [hs_updatePtoTimer, hs_detect]

theorem hs_onPtoTimeout (m : Manager) (now : Nat) : (onPtoTimeout m now).1.nextPn = m.nextPn := by
  simp only [onPtoTimeout]
  split
  · rw [hs_updatePtoTimer]
  · rfl

theorem onPtoTimeout_fields (m : Manager) (now : Nat) :
    (onPtoTimeout m now).1.sent = m.sent ∧ (onPtoTimeout m now).2 = {} ∧
      (∀ path, cnt (onPtoTimeout m now).1 path = cnt m path) ∧ (onPtoTimeout m now).1.underflow = m.underflow := by
  simp only [onPtoTimeout]
  split
  · obtain ⟨u1, u2, u3, _⟩ := updatePtoTimer_fields
      { m with pto := (Pto.onTimeout m.pto (!m.sent.isEmpty) now).1,
               paths := setPath m.paths m.activePath
                 { m.paths m.activePath with ptoBackoff := min ((m.paths m.activePath).ptoBackoff * 2) m.maxPtoBackoff } } now
    refine ⟨u1, rfl, fun path => ?_, u3⟩
    simp only [cnt, u2, setPath]
    split
    · rename_i e; subst e; rfl
    · rfl
  · exact ⟨rfl, rfl, fun _ => rfl, rfl⟩

theorem onLossTimeout_spec (m : Manager) (now : Nat) (hinv : Inv m) :
    Inv (onLossTimeout m now).1 ∧
    ∃ lost : List SentInfo,
      (onLossTimeout m now).2 = { lost := lost.map (·.pn) } ∧ m.sent = lost ++ (onLossTimeout m now).1.sent ∧
      (∀ p ∈ lost, ∃ la, (onLossTimeout m now).1.largestAcked = some la ∧ LostBy (onLossTimeout m now).1 la now p) := by
  obtain ⟨hu, hex⟩ := hinv
  obtain ⟨d1, d2, d3, d4, d5, d6⟩ := detect_inv { m with lossTimer := none } now m.activePath (fun _ => 0) hu
    (fun path => by simpa [cnt] using hex path)
  simp only [onLossTimeout]
  generalize detectAndRemoveLost { m with lossTimer := none } now m.activePath = det at d1 d2 d3 d4 d5 d6
  obtain ⟨m4, lost⟩ := det
  simp only [] at d1 d2 d3 d4 d5 d6 ⊢
  obtain ⟨u1, u2, u3, u4⟩ := updatePtoTimer_fields m4 now
  refine ⟨⟨by rw [u3]; exact d1, fun path => ?_⟩, lost, rfl, by rw [u1]; exact d3, ?_⟩
  · have := d2 path
    simp only [cnt, u2, u1] at this ⊢
    omega
  · intro p hp
    obtain ⟨la, hla, hl⟩ := d5 p hp
    refine ⟨la, by rw [u4, d4]; exact hla, isLost_LostBy _ _ la now p hl (fun path => ?_)⟩
    have : ltt (updatePtoTimer m4 now) path = ltt m4 path := by simp only [ltt, u2]
    rw [this]; exact d6 path


/-! ### one operation -/

/-- what every operation guarantees (given the bytes-in-flight invariant before it) -/
structure StepOk (m : Manager) (op : Op) (m' : Manager) (out : Out) : Prop where
  inv : Inv m'
  perm : (out.acked ++ (out.lost ++ (out.discarded ++ m'.sent.map (·.pn)))).Perm (m.sent.map (·.pn) ++ out.sent)
  lost : ∀ pn ∈ out.lost, ∃ p ∈ m.sent, p.pn = pn ∧
    ∃ la now, op.now? = some now ∧ m'.largestAcked = some la ∧ LostBy m' la now p
  sentNew : out.sent = [] ∧ m'.nextPn = m.nextPn ∨
    ∃ pn, out.sent = [pn] ∧ m'.nextPn = pn + 1 ∧ m.nextPn ≤ pn
  sub : ∀ p ∈ m'.sent, p ∈ m.sent ∨ (p.congestionControlled = false → p.sentBytes = 0)

theorem perm_of_eq {α : Type} {a b : List α} (h : a = b) : a.Perm b := h ▸ List.Perm.refl _

theorem stepOk_same (m : Manager) (op : Op) (m' : Manager) (hi : Inv m') (hs : m'.sent = m.sent)
    (hh : m'.nextPn = m.nextPn) : StepOk m op m' {} :=
  ⟨hi, by simp [hs], by simp, Or.inl ⟨rfl, hh⟩, fun p hp => Or.inl (hs ▸ hp)⟩

theorem inv_of_same (m m' : Manager) (hi : Inv m) (hs : m'.sent = m.sent) (hc : ∀ path, cnt m' path = cnt m path)
    (hu : m'.underflow = m.underflow) : Inv m' :=
  ⟨hu.trans hi.noUnderflow, fun path => by rw [hc path, hs]; exact hi.exact path⟩

theorem cnt_setPath_same (m : Manager) (i : Nat) (p : PathState) (h : p.bytesInFlight = (m.paths i).bytesInFlight)
    (path : Nat) : (setPath m.paths i p path).bytesInFlight = (m.paths path).bytesInFlight := by
  simp only [setPath]
  split
  · rename_i e; subst e; exact h
  · rfl

theorem stepOk_transport (m m0 : Manager) (op : Op) (m' : Manager) (out : Out) (h : StepOk m0 op m' out)
    (hs : m0.sent = m.sent) (hh : m0.nextPn = m.nextPn) : StepOk m op m' out := by
  obtain ⟨a, b, c, d, e⟩ := h
  exact ⟨a, by rw [← hs]; exact b, by rw [← hs]; exact c, by rw [← hh]; exact d, by rw [← hs]; exact e⟩

def mkInfo (pn : Nat) (cc : Bool) (bytes now : Nat) (ae : Bool) (pathId : Nat) (mtu : Bool) : SentInfo :=
  { pn := pn, congestionControlled := cc, sentBytes := if cc = true then bytes else 0, timeSent := now, ackEliciting := ae, pathId := pathId, mtuProbe := mtu }

theorem onTimeout_ok (m : Manager) (now : Nat) (hi : Inv m) :
    StepOk m (.timeout now) (onTimeout m now).1 (onTimeout m now).2 := by
  simp only [onTimeout]
  generalize hm0 : (if m.ptoUpdatePending = true then { m with panicked := true } else m) = m0
  have h0 : m0.sent = m.sent ∧ Inv m0 ∧ m0.nextPn = m.nextPn := by
    rw [← hm0]; split
    · exact ⟨rfl, ⟨hi.noUnderflow, hi.exact⟩, rfl⟩
    · exact ⟨rfl, hi, rfl⟩
  obtain ⟨h0s, h0i, h0h⟩ := h0
  apply stepOk_transport m m0 _ _ _ _ h0s h0h
  split
  · split
    · obtain ⟨l1, lost, l2, l3, l4⟩ := onLossTimeout_spec m0 now h0i
      refine ⟨l1, ?_, ?_, Or.inl ⟨by rw [l2], hs_onLossTimeout m0 now⟩, fun p hp => Or.inl (by rw [l3]; exact List.mem_append_right _ hp)⟩
      · rw [l2, l3]; simp
      · intro pn hpn
        rw [l2] at hpn
        simp only [List.mem_map] at hpn
        obtain ⟨p, hp, rfl⟩ := hpn
        obtain ⟨la, hla, hl⟩ := l4 p hp
        exact ⟨p, by rw [l3]; exact List.mem_append_left _ hp, rfl, la, now, rfl, hla, hl⟩
    · exact ⟨h0i, by simp, by simp, Or.inl ⟨rfl, rfl⟩, fun p hp => Or.inl hp⟩
  · obtain ⟨p1, p2, p3, p4⟩ := onPtoTimeout_fields m0 now
    refine ⟨inv_of_same m0 _ h0i p1 p3 p4, ?_, ?_, Or.inl ⟨by rw [p2], hs_onPtoTimeout m0 now⟩, fun p hp => Or.inl (p1 ▸ hp)⟩
    · rw [p2, p1]; simp
    · rw [p2]; simp

theorem apply_ok (m : Manager) (op : Op) (hi : Inv m) (hv : op.validCore m = true) :
    StepOk m op (apply m op).1 (apply m op).2.1 := by
  cases op with
  | send pn bytes cc ae now pathId mtu =>
    simp only [apply, onPacketSent]
    have hh : m.nextPn ≤ pn := by
      simp only [Op.validCore, Bool.and_eq_true, decide_eq_true_eq] at hv
      exact hv.1.1
    have hcore : ∀ (m' : Manager), m'.sent = m.sent ++ [mkInfo pn cc bytes now ae pathId mtu] →
        (∀ path, cnt m' path = cnt m path + (if pathId = path then (if cc = true then bytes else 0) else 0)) →
        m'.underflow = m.underflow → m'.nextPn = pn + 1 → StepOk m (.send pn bytes cc ae now pathId mtu) m' { sent := [pn] } := by
      intro m' hs hc hu hh'
      refine ⟨⟨hu.trans hi.noUnderflow, fun path => ?_⟩, ?_, by simp, Or.inr ⟨pn, rfl, hh', hh⟩, ?_⟩
      · rw [hc path, hs, ub_append, hi.exact path]
        simp only [unresolvedBytes, mkInfo, Nat.add_zero]
        rfl
      · simp [hs, mkInfo]
      · intro p hp
        rw [hs] at hp
        rcases List.mem_append.mp hp with h | h
        · exact Or.inl h
        · right; intro hcc
          simp only [List.mem_singleton] at h
          subst h
          simp only [mkInfo] at hcc ⊢
          simp [hcc]
    split
    · exact hcore _ rfl (fun path => cnt_addBif m pathId _ path) rfl rfl
    · exact hcore _ rfl (fun path => cnt_addBif m pathId _ path) rfl rfl
  | burstComplete now =>
    simp only [apply, onTransmitBurstComplete]
    split
    · obtain ⟨u1, u2, u3, _⟩ := updatePtoTimer_fields m now
      exact stepOk_same m _ _ (inv_of_same m _ hi u1 (fun path => by simp only [cnt, u2]) u3) u1 (hs_updatePtoTimer m now)
    · exact stepOk_same m _ _ hi rfl rfl
  | ackFrame ranges d now rx =>
    simp only [apply]
    by_cases hr : ackValid m ranges = true
    · rw [if_pos hr]
      obtain ⟨a1, A, lost, a2, a3, a4, a5⟩ := processAcks_spec m ranges d now rx hi
      refine ⟨a1, ?_, ?_, Or.inl ⟨by rw [a2], hs_processAcks m ranges d now rx⟩,
        fun p hp => Or.inl (a3.mem_iff.mp (List.mem_append_right _ (List.mem_append_right _ hp)))⟩
      · simp only [a2, List.nil_append, List.append_nil]
        have := a3.map (·.pn)
        simpa using this
      · intro pn hpn
        simp only [a2, List.mem_map] at hpn
        obtain ⟨p, hp, rfl⟩ := hpn
        obtain ⟨la, hla, hl⟩ := a5 p hp
        have hmem : p ∈ m.sent := a3.mem_iff.mp (List.mem_append_right _ (List.mem_append_left _ hp))
        exact ⟨p, hmem, rfl, la, now, rfl, hla, hl⟩
    · rw [if_neg hr]
      exact stepOk_same m _ _ ⟨hi.noUnderflow, hi.exact⟩ rfl rfl
  | timeout now => exact onTimeout_ok m now hi
  | discardSpace pathId =>
    simp only [Op.validCore, Bool.and_eq_true] at hv
    obtain ⟨h1, h2⟩ := sumBytes_all_path pathId m.sent hv.2
    have hb : sumBytes m.sent ≤ cnt m pathId := by rw [h1, hi.exact pathId]; exact Nat.le_refl _
    obtain ⟨s1, s2, s3⟩ := subBif_ok m pathId _ hb
    simp only [apply, onSpaceDiscarded]
    refine ⟨⟨s2.trans hi.noUnderflow, fun path => ?_⟩, by simp [s3], by simp, Or.inl ⟨rfl, hs_subBif m pathId _⟩, by simp⟩
    show cnt (subBif m pathId (sumBytes m.sent)) path = unresolvedBytes path []
    rw [s1 path, hi.exact path]
    by_cases hp : pathId = path
    · subst hp; simp [h1, unresolvedBytes]
    · simp [hp, unresolvedBytes, h2 path (fun e => hp e.symm)]
  | retry pathId =>
    simp only [Op.validCore] at hv
    obtain ⟨h1, h2⟩ := sumBytes_all_path pathId m.sent hv
    have hb : sumBytes m.sent ≤ cnt m pathId := by rw [h1, hi.exact pathId]; exact Nat.le_refl _
    obtain ⟨s1, s2, s3⟩ := subBif_ok m pathId _ hb
    simp only [apply, onRetry]
    refine ⟨⟨s2.trans hi.noUnderflow, fun path => ?_⟩, by simp [s3], by simp, Or.inl ⟨rfl, hs_subBif m pathId _⟩, by simp⟩
    show cnt (subBif m pathId (sumBytes m.sent)) path = unresolvedBytes path []
    rw [s1 path, hi.exact path]
    by_cases hp : pathId = path
    · subst hp; simp [h1, unresolvedBytes]
    · simp [hp, unresolvedBytes, h2 path (fun e => hp e.symm)]
  | setConfirmed => exact stepOk_same m _ _ ⟨hi.noUnderflow, hi.exact⟩ rfl rfl
  | setPathFlags pathId pv amp =>
    simp only [apply]
    exact stepOk_same m _ _ (inv_of_same m _ hi rfl (fun path => by
      simp only [cnt]; exact cnt_setPath_same m pathId { m.paths pathId with peerValidated := pv, atAmplificationLimit := amp } rfl path) rfl) rfl rfl
  | setMaxAckDelay pathId ms =>
    simp only [apply]
    exact stepOk_same m _ _ (inv_of_same m _ hi rfl (fun path => by
      simp only [cnt]; exact cnt_setPath_same m pathId { m.paths pathId with rtt := Rtt.onMaxAckDelay (m.paths pathId).rtt ms } rfl path) rfl) rfl rfl
  | setActivePath pathId => exact stepOk_same m _ _ ⟨hi.noUnderflow, hi.exact⟩ rfl rfl

theorem validCore_tick (m : Manager) (op : Op) : op.validCore (tick m op) = op.validCore m := by
  cases op <;> simp only [tick, Op.now?, Op.validCore] <;> rfl

theorem tick_fields (m : Manager) (op : Op) :
    (tick m op).sent = m.sent ∧ (tick m op).nextPn = m.nextPn ∧ (Inv m → Inv (tick m op)) := by
  simp only [tick]
  split
  · exact ⟨rfl, rfl, fun h => ⟨h.noUnderflow, h.exact⟩⟩
  · exact ⟨rfl, rfl, fun h => h⟩

/-- the specification of `step` -/
theorem step_ok (m : Manager) (op : Op) (hi : Inv m) : StepOk m op (step m op).1 (step m op).2.1 := by
  simp only [step]
  split
  · exact stepOk_same m op m hi rfl rfl
  · rename_i hv
    simp only [Bool.not_eq_true, Bool.not_eq_false', Op.valid, Bool.and_eq_true] at hv
    obtain ⟨t1, t2, t3⟩ := tick_fields m op
    exact stepOk_transport m (tick m op) op _ _ (apply_ok (tick m op) op (t3 hi) (by rw [validCore_tick]; exact hv.2)) t1 t2


theorem onTimeout_pto_branch (m : Manager) (now : Nat) (h : m.lossTimer = none) :
    (onTimeout m now).1.sent = m.sent ∧ (onTimeout m now).2.lost = [] := by
  simp only [onTimeout]
  generalize hm0 : (if m.ptoUpdatePending = true then { m with panicked := true } else m) = m0
  have h0 : m0.sent = m.sent ∧ m0.lossTimer = none := by
    rw [← hm0]; split <;> exact ⟨rfl, h⟩
  simp only [h0.2, Option.isSome_none, Bool.false_eq_true, if_false]
  obtain ⟨p1, p2, _, _⟩ := onPtoTimeout_fields m0 now
  exact ⟨p1.trans h0.1, by rw [p2]⟩

/-! ### histories -/

/-- history invariant: exact counters, distinct tracked packet numbers below `nextPn`, and only
    congestion-controlled packets carry bytes -/
structure HInv (m : Manager) : Prop where
  inv : Inv m
  nodup : (m.sent.map (·.pn)).Nodup
  bound : ∀ p ∈ m.sent, p.pn < m.nextPn
  ccBytes : ∀ p ∈ m.sent, p.congestionControlled = false → p.sentBytes = 0

theorem hinv_init (sp : Rtt.Space) : HInv (init sp) :=
  ⟨⟨rfl, fun _ => rfl⟩, by simp [init], by simp [init], by simp [init]⟩

theorem count_singleton (a pn : Nat) : List.count a [pn] = if a = pn then 1 else 0 := by
  by_cases h : a = pn
  · subst h; simp
  · rw [if_neg h]
    exact List.count_eq_zero.mpr (by simp [h])

theorem nextPn_mono_of (m : Manager) (op : Op) (m' : Manager) (out : Out) (h : StepOk m op m' out) :
    m.nextPn ≤ m'.nextPn ∧ ∀ pn ∈ out.sent, m.nextPn ≤ pn ∧ pn < m'.nextPn := by
  rcases h.sentNew with ⟨h1, h2⟩ | ⟨pn, h1, h2, h3⟩
  · rw [h1, h2]; exact ⟨Nat.le_refl _, by simp⟩
  · rw [h1, h2]
    refine ⟨by omega, ?_⟩
    intro x hx
    simp only [List.mem_singleton] at hx
    subst hx; omega

theorem hinv_of_stepOk (m : Manager) (op : Op) (m' : Manager) (out : Out) (hm : HInv m) (h : StepOk m op m' out) :
    HInv m' := by
  have hcount := List.perm_iff_count.mp h.perm
  have hnd := List.nodup_iff_count.mp hm.nodup
  have hnotin : ∀ a, m.nextPn ≤ a → List.count a (m.sent.map (·.pn)) = 0 := by
    intro a ha
    apply List.count_eq_zero.mpr
    intro hmem
    simp only [List.mem_map] at hmem
    obtain ⟨p, hp, rfl⟩ := hmem
    have := hm.bound p hp; omega
  have hmem_old : ∀ p ∈ m'.sent, p.pn ∈ m.sent.map (·.pn) ++ out.sent := by
    intro p hp
    apply h.perm.mem_iff.mp
    simp only [List.mem_append, List.mem_map]
    right; right; right; exact ⟨p, hp, rfl⟩
  obtain ⟨hmono, hfresh⟩ := nextPn_mono_of m op m' out h
  refine ⟨h.inv, ?_, ?_, ?_⟩
  · apply List.nodup_iff_count.mpr
    intro a
    have h1 := hcount a
    have h2 := hnd a
    simp only [List.count_append] at h1
    rcases h.sentNew with ⟨e1, _⟩ | ⟨pn, e1, _, e3⟩
    · rw [e1] at h1; simp only [List.count_nil] at h1; omega
    · rw [e1, count_singleton] at h1
      split at h1
      · rename_i e; subst e
        have := hnotin a e3; omega
      · omega
  · intro p hp
    rcases List.mem_append.mp (hmem_old p hp) with h1 | h1
    · simp only [List.mem_map] at h1
      obtain ⟨q, hq, e⟩ := h1
      have := hm.bound q hq
      have e' : q.pn = p.pn := e
      omega
    · exact (hfresh _ h1).2
  · intro p hp
    rcases h.sub p hp with h1 | h1
    · exact hm.ccBytes p h1
    · exact h1

theorem hinv_step (m : Manager) (op : Op) (hm : HInv m) : HInv (step m op).1 :=
  hinv_of_stepOk m op _ _ hm (step_ok m op hm.inv)

theorem hinv_run (ops : List Op) : ∀ (m : Manager), HInv m → HInv (run m ops).1 := by
  induction ops with
  | nil => intro m h; exact h
  | cons op ops ih =>
    intro m h
    simp only [run]
    exact ih _ (hinv_step m op h)

theorem nextPn_run (ops : List Op) : ∀ (m : Manager), HInv m →
    m.nextPn ≤ (run m ops).1.nextPn ∧ ∀ pn ∈ (run m ops).2.sent, m.nextPn ≤ pn ∧ pn < (run m ops).1.nextPn := by
  induction ops with
  | nil => intro m _; exact ⟨Nat.le_refl _, by simp [run]⟩
  | cons op ops ih =>
    intro m h
    obtain ⟨a1, a2⟩ := nextPn_mono_of m op _ _ (step_ok m op h.inv)
    obtain ⟨b1, b2⟩ := ih _ (hinv_step m op h)
    simp only [run]
    refine ⟨by omega, ?_⟩
    intro pn hpn
    rcases List.mem_append.mp hpn with h1 | h1
    · have := a2 pn h1; omega
    · have := b2 pn h1; omega

/-- bookkeeping of a whole history, by counting occurrences of a packet number -/
theorem run_count (ops : List Op) : ∀ (m : Manager), HInv m → ∀ a,
    List.count a (run m ops).2.acked + List.count a (run m ops).2.lost + List.count a (run m ops).2.discarded
      + List.count a ((run m ops).1.sent.map (·.pn))
      = List.count a (m.sent.map (·.pn)) + List.count a (run m ops).2.sent := by
  induction ops with
  | nil => intro m _ a; simp [run]
  | cons op ops ih =>
    intro m h a
    have h1 := List.perm_iff_count.mp (step_ok m op h.inv).perm a
    have h2 := ih _ (hinv_step m op h) a
    simp only [run, List.count_append] at h1 h2 ⊢
    omega

/-- the packet numbers handed out over a history are pairwise distinct and distinct from the ones
    tracked at its start -/
theorem run_sent_count (ops : List Op) : ∀ (m : Manager), HInv m → ∀ a,
    List.count a (m.sent.map (·.pn)) + List.count a (run m ops).2.sent ≤ 1 := by
  induction ops with
  | nil =>
    intro m h a
    simpa [run] using List.nodup_iff_count.mp h.nodup a
  | cons op ops ih =>
    intro m h a
    have hs := step_ok m op h.inv
    have h1 := List.perm_iff_count.mp hs.perm a
    have h2 := ih _ (hinv_step m op h) a
    have h3 := List.nodup_iff_count.mp h.nodup a
    obtain ⟨b1, b2⟩ := nextPn_run ops _ (hinv_step m op h)
    obtain ⟨c1, c2⟩ := nextPn_mono_of m op _ _ hs
    simp only [run, List.count_append] at h1 h2 ⊢
    -- `a` is either below `m.nextPn` (then it was not handed out again) or not tracked at the start
    by_cases hlt : a < (step m op).1.nextPn
    · have : List.count a (run (step m op).1 ops).2.sent = 0 := by
        apply List.count_eq_zero.mpr
        intro hmem; have := (b2 a hmem).1; omega
      rcases hs.sentNew with ⟨e1, _⟩ | ⟨pn, e1, e2, e3⟩
      · rw [e1] at h1 ⊢; simp only [List.count_nil] at h1 ⊢; omega
      · rw [e1, count_singleton] at h1 ⊢
        split at h1
        · rename_i e; subst e
          have : List.count a (m.sent.map (·.pn)) = 0 := by
            apply List.count_eq_zero.mpr
            intro hmem
            simp only [List.mem_map] at hmem
            obtain ⟨p, hp, rfl⟩ := hmem
            have := h.bound p hp; omega
          simp only [if_true]; omega
        · rename_i hne; simp only [hne, if_false]; omega
    · have z1 : List.count a (m.sent.map (·.pn)) = 0 := by
        apply List.count_eq_zero.mpr
        intro hmem
        simp only [List.mem_map] at hmem
        obtain ⟨p, hp, rfl⟩ := hmem
        have := h.bound p hp; omega
      have z2 : List.count a (step m op).2.1.sent = 0 := by
        apply List.count_eq_zero.mpr
        intro hmem; have := (c2 a hmem).2; omega
      have z3 : List.count a ((step m op).1.sent.map (·.pn)) = 0 := by
        apply List.count_eq_zero.mpr
        intro hmem
        simp only [List.mem_map] at hmem
        obtain ⟨p, hp, rfl⟩ := hmem
        have := (hinv_step m op h).bound p hp; omega
      omega

end Quic.Proofs.Lemmas.RecoveryManager
