import QuicModel.Codec.PacketNumber
/-
  Helper lemmas for C08 / C05 (packet numbers): case forms of the table-driven functions, the
  bit-level → arithmetic bridge for `(expected & !mask) | truncated`, the arithmetic normal form
  `decodeArith` of `decode_packet_number`, and the per-window facts (2^8 / 2^16 / 2^24 / 2^32)
  from which the property theorems in `Props/C08PacketNumber.lean` are assembled.
  (The symbolic-width statements are non-linear; each concrete window is linear and `omega`
  decides it.)
-/
namespace Quic.Proofs.PacketNumber
open Quic Quic.Codec.PacketNumber

theorem fromVarint_cases (v : Nat) :
    fromVarint v = if v ≤ 255 then some 0 else if v ≤ 65535 then some 1
      else if v ≤ 16777215 then some 2 else if v ≤ 4294967295 then some 3 else none := by
  simp only [fromVarint, pinnedArms, fromVarintWith]

theorem derive_cases (la pn : Nat) :
    deriveTruncationRange la pn =
      if pn < la then none
      else if 2 * (pn - la) ≤ 255 then some 0
      else if 2 * (pn - la) ≤ 65535 then some 1
      else if 2 * (pn - la) ≤ 16777215 then some 2
      else if 2 * (pn - la) ≤ 4294967295 then some 3
      else none := by
  unfold deriveTruncationRange deriveTruncationRangeWith checkedSub
  rw [show fromVarintWith pinnedArms = fromVarint from rfl]
  by_cases h : pn < la
  · rw [if_neg (by omega), if_pos h]; rfl
  · rw [if_pos (by omega), if_neg h]
    generalize pn - la = d
    simp only [Option.bind_some, checkedMul, varintNewWith]
    by_cases h1 : d * 2 ≤ u64Max
    · simp only [h1, if_true, Option.bind_some]
      by_cases h2 : d * 2 ≤ maxPn
      · simp only [h2, if_true, Option.bind_some, fromVarint_cases]
        rw [Nat.mul_comm]
      · simp only [h2, if_false, Option.bind_none]
        simp only [maxPn] at h2
        repeat' split
        all_goals first | rfl | omega
    · simp only [h1, if_false, Option.bind_none]
      simp only [u64Max] at h1
      repeat' split
      all_goals first | rfl | omega

/-- `PacketNumber::truncate` by cases on the doubled distance -/
theorem truncate_cases (pn la : Nat) :
    truncate pn la =
      if pn < la then none
      else if 2 * (pn - la) ≤ 255 then some ⟨0, pn % 256⟩
      else if 2 * (pn - la) ≤ 65535 then some ⟨1, pn % 65536⟩
      else if 2 * (pn - la) ≤ 16777215 then some ⟨2, pn % 4294967296 % 16777216⟩
      else if 2 * (pn - la) ≤ 4294967295 then some ⟨3, pn % 4294967296⟩
      else none := by
  unfold truncate
  rw [derive_cases]
  by_cases h0 : pn < la
  · simp only [if_pos h0]
  · simp only [if_neg h0]
    by_cases h1 : 2 * (pn - la) ≤ 255
    · simp only [if_pos h1, truncatePacketNumber, Nat.reducePow]
    · simp only [if_neg h1]
      by_cases h2 : 2 * (pn - la) ≤ 65535
      · simp only [if_pos h2, truncatePacketNumber, Nat.reducePow]
      · simp only [if_neg h2]
        by_cases h3 : 2 * (pn - la) ≤ 16777215
        · simp only [if_pos h3, truncatePacketNumber, Nat.reducePow]
        · simp only [if_neg h3]
          by_cases h4 : 2 * (pn - la) ≤ 4294967295
          · simp only [if_pos h4, truncatePacketNumber, Nat.reducePow]
          · simp only [if_neg h4]

/-- `[1, 2, 3, 4].find?` spelled out -/
theorem minimalLen_cases (pn la : Nat) :
    Rfc.PacketNumber.minimalLen pn la =
      if Rfc.PacketNumber.sizeOk 1 pn la then some 1
      else if Rfc.PacketNumber.sizeOk 2 pn la then some 2
      else if Rfc.PacketNumber.sizeOk 3 pn la then some 3
      else if Rfc.PacketNumber.sizeOk 4 pn la then some 4 else none := by
  unfold Rfc.PacketNumber.minimalLen
  simp only [List.find?]
  repeat' split
  all_goals simp_all

/-! ### bit level → arithmetic -/

theorem testBit_high {x n i : Nat} (hx : x < 2 ^ n) (hi : n ≤ i) : x.testBit i = false := by
  apply Nat.testBit_lt_two_pow
  exact Nat.lt_of_lt_of_le hx (Nat.pow_le_pow_right (by decide) hi)

/-- the bit-level form the code uses, `(x & !mask) | t` on `u64` with `mask = 2^k - 1`, equals
    "strip the low k bits and add t" -/
theorem and_not_mask_or (x t k : Nat) (hk : k ≤ 64) (hx : x < 2 ^ 64) (ht : t < 2 ^ k) :
    (x &&& (2 ^ 64 - 1 - (2 ^ k - 1))) ||| t = x / 2 ^ k * 2 ^ k + t := by
  rw [Nat.mul_comm, Nat.two_pow_add_eq_or_of_lt ht]
  congr 1
  apply Nat.eq_of_testBit_eq
  intro i
  have hm : 2 ^ 64 - 1 - (2 ^ k - 1) = 2 ^ 64 - ((2 ^ k - 1) + 1) := by omega
  have hlt : 2 ^ k - 1 < 2 ^ 64 := by
    have : 2 ^ k ≤ 2 ^ 64 := Nat.pow_le_pow_right (by decide) hk
    omega
  rw [Nat.testBit_and, hm, Nat.testBit_two_pow_sub_succ hlt, Nat.testBit_two_pow_sub_one,
    Nat.testBit_two_pow_mul, Nat.testBit_div_two_pow]
  by_cases h1 : i < k
  · simp [h1, Nat.not_le.mpr h1]
  · have h1' : k ≤ i := Nat.le_of_not_lt h1
    by_cases h2 : i < 64
    · simp [h1, h1', h2, Nat.sub_add_cancel h1']
    · have : x.testBit i = false := testBit_high hx (Nat.le_of_not_lt h2)
      simp [h1, h1', h2, this, Nat.sub_add_cancel h1']

theorem candidateBits_eq (e k t : Nat) (hk : k ≤ 64) (he : e < 2 ^ 64) (ht : t < 2 ^ k) :
    candidateBits e (2 ^ k - 1) t = e / 2 ^ k * 2 ^ k + t := by
  unfold candidateBits
  rw [show u64Max = 2 ^ 64 - 1 from by decide]
  exact and_not_mask_or e t k hk he ht

/-! ### arithmetic normal form of `decode_packet_number` -/

/-- `adjustCandidate` without the overflow bookkeeping -/
def adjustArith (mx expected win cand : Nat) : Nat :=
  let hwin := win / 2
  let r := if (hwin ≤ expected ∧ cand ≤ expected - hwin) ∧ cand < 2 ^ 62 - win then cand + win
    else if cand > expected + hwin ∧ cand ≥ win then cand - win
    else cand
  if r ≤ mx then r else mx

/-- none of the unchecked `u64` operations in the second half of `decode_packet_number` can
    overflow: `+= pn_win` only happens below `2^62 - pn_win`, `-= pn_win` only at or above `pn_win` -/
theorem adjust_eq (mx e win c : Nat) (hw : win ≤ 2 ^ 62) (he : e + win / 2 ≤ u64Max) :
    adjustCandidate mx e win c = some (adjustArith mx e win c) := by
  unfold adjustCandidate adjustArith
  by_cases hab : (win / 2 ≤ e ∧ c ≤ e - win / 2) ∧ c < 2 ^ 62 - win
  · have h1 : c + win ≤ u64Max := by simp only [u64Max]; omega
    have hA : (decide (win / 2 ≤ e ∧ c ≤ e - win / 2) && decide (win ≤ 2 ^ 62 ∧ c < 2 ^ 62 - win)) = true := by
      simp only [Bool.and_eq_true, decide_eq_true_eq]; exact ⟨hab.1, hw, hab.2⟩
    simp only [hA, Bool.not_true, Bool.false_and, Bool.false_eq_true, if_false, if_true, checkedAdd, if_pos h1, if_pos hab]
  · have hA : (decide (win / 2 ≤ e ∧ c ≤ e - win / 2) && decide (win ≤ 2 ^ 62 ∧ c < 2 ^ 62 - win)) = false := by
      rw [Bool.eq_false_iff]
      simp only [ne_eq, Bool.and_eq_true, decide_eq_true_eq]
      intro h; exact hab ⟨h.1, h.2.2⟩
    by_cases hcd : c > e + win / 2 ∧ c ≥ win
    · have hC : (decide (e + win / 2 ≤ u64Max ∧ c > e + win / 2) && decide (c ≥ win)) = true := by
        simp only [Bool.and_eq_true, decide_eq_true_eq]; exact ⟨⟨he, hcd.1⟩, hcd.2⟩
      simp only [hA, Bool.not_false, Bool.true_and, hC, Bool.false_eq_true, if_false, if_true, checkedSub,
        if_pos (show win ≤ c from hcd.2), if_neg hab, if_pos hcd]
    · have hC : (decide (e + win / 2 ≤ u64Max ∧ c > e + win / 2) && decide (c ≥ win)) = false := by
        rw [Bool.eq_false_iff]
        simp only [ne_eq, Bool.and_eq_true, decide_eq_true_eq]
        intro h; exact hcd ⟨h.1.2, h.2⟩
      simp only [hA, Bool.not_false, Bool.true_and, hC, Bool.false_eq_true, if_false, if_neg hab, if_neg hcd]

/-- `decode_packet_number` as plain arithmetic on the window size `win = 2^pn_nbits` -/
def decodeArith (largest win v : Nat) : Nat :=
  adjustArith maxPn (largest + 1) win ((largest + 1) / win * win + v)

/-- well-formed `TruncatedPacketNumber`: one of the four variants, payload fits its integer type -/
def WF (t : Truncated) : Prop := t.len ≤ 3 ∧ t.value < 2 ^ bitsize t.len

theorem bitsize_cases {len : Nat} (h : len ≤ 3) :
    bitsize len = 8 ∨ bitsize len = 16 ∨ bitsize len = 24 ∨ bitsize len = 32 := by
  unfold bitsize bytesize; omega

/-- totality of `decode_packet_number` (no overflow in `+ 1`, `1 << n`, `+=`, `-=`) and its
    arithmetic normal form -/
theorem decode_eq_arith (L : Nat) (t : Truncated) (hL : L ≤ maxPn) (ht : WF t) :
    decodePacketNumber L t = some (decodeArith L (2 ^ bitsize t.len) t.value) := by
  obtain ⟨hlen, hv⟩ := ht
  have hk := bitsize_cases hlen
  have he : L + 1 < 2 ^ 64 := by simp only [maxPn] at hL; omega
  have hk64 : bitsize t.len < 64 := by omega
  have hc := candidateBits_eq (L + 1) (bitsize t.len) t.value (by omega) he hv
  unfold decodePacketNumber decodePacketNumberWith decodeArith
  simp only [checkedAdd, shl1]
  rw [if_pos (by simp only [u64Max]; omega), if_pos hk64]
  simp only [hc]
  apply adjust_eq
  · rcases hk with h | h | h | h <;> rw [h] <;> decide
  · simp only [maxPn] at hL
    rcases hk with h | h | h | h <;> rw [h] <;> simp only [u64Max] <;> omega

/-! ### the four concrete windows -/

/-- inside the window `(L + 1 - win/2, L + 1 + win/2]` the low bits determine the number -/
theorem window_8 (pn L : Nat) (hp : pn ≤ maxPn) (hL : L ≤ maxPn)
    (h1 : L + 2 ≤ pn + 128) (h2 : pn ≤ L + 1 + 128) : decodeArith L 256 (pn % 256) = pn := by
  unfold decodeArith adjustArith
  simp only [maxPn] at *
  repeat' split
  all_goals omega

theorem window_16 (pn L : Nat) (hp : pn ≤ maxPn) (hL : L ≤ maxPn)
    (h1 : L + 2 ≤ pn + 32768) (h2 : pn ≤ L + 1 + 32768) : decodeArith L 65536 (pn % 65536) = pn := by
  unfold decodeArith adjustArith
  simp only [maxPn] at *
  repeat' split
  all_goals omega

theorem window_24 (pn L : Nat) (hp : pn ≤ maxPn) (hL : L ≤ maxPn)
    (h1 : L + 2 ≤ pn + 8388608) (h2 : pn ≤ L + 1 + 8388608) :
    decodeArith L 16777216 (pn % 16777216) = pn := by
  unfold decodeArith adjustArith
  simp only [maxPn] at *
  repeat' split
  all_goals omega

theorem window_32 (pn L : Nat) (hp : pn ≤ maxPn) (hL : L ≤ maxPn)
    (h1 : L + 2 ≤ pn + 2147483648) (h2 : pn ≤ L + 1 + 2147483648) :
    decodeArith L 4294967296 (pn % 4294967296) = pn := by
  unfold decodeArith adjustArith
  simp only [maxPn] at *
  repeat' split
  all_goals omega

/-! ### agreement with RFC 9000 Appendix A.3 (over the integers), per window -/

theorem rfc_8 (L v : Nat) (hL : L ≤ maxPn) (hv : v < 256) :
    (decodeArith L 256 v : Int)
      = min (Rfc.PacketNumber.decode L v 8) (Rfc.PacketNumber.maxPn : Int) := by
  unfold decodeArith adjustArith Rfc.PacketNumber.decode Rfc.PacketNumber.maxPn
  simp only [maxPn, Int.reducePow, Nat.reducePow, Nat.reduceSub, Nat.reduceDiv, Int.reduceDiv] at *
  repeat' split
  all_goals omega

theorem rfc_16 (L v : Nat) (hL : L ≤ maxPn) (hv : v < 65536) :
    (decodeArith L 65536 v : Int)
      = min (Rfc.PacketNumber.decode L v 16) (Rfc.PacketNumber.maxPn : Int) := by
  unfold decodeArith adjustArith Rfc.PacketNumber.decode Rfc.PacketNumber.maxPn
  simp only [maxPn, Int.reducePow, Nat.reducePow, Nat.reduceSub, Nat.reduceDiv, Int.reduceDiv] at *
  repeat' split
  all_goals omega

theorem rfc_24 (L v : Nat) (hL : L ≤ maxPn) (hv : v < 16777216) :
    (decodeArith L 16777216 v : Int)
      = min (Rfc.PacketNumber.decode L v 24) (Rfc.PacketNumber.maxPn : Int) := by
  unfold decodeArith adjustArith Rfc.PacketNumber.decode Rfc.PacketNumber.maxPn
  simp only [maxPn, Int.reducePow, Nat.reducePow, Nat.reduceSub, Nat.reduceDiv, Int.reduceDiv] at *
  repeat' split
  all_goals omega

theorem rfc_32 (L v : Nat) (hL : L ≤ maxPn) (hv : v < 4294967296) :
    (decodeArith L 4294967296 v : Int)
      = min (Rfc.PacketNumber.decode L v 32) (Rfc.PacketNumber.maxPn : Int) := by
  unfold decodeArith adjustArith Rfc.PacketNumber.decode Rfc.PacketNumber.maxPn
  simp only [maxPn, Int.reducePow, Nat.reducePow, Nat.reduceSub, Nat.reduceDiv, Int.reduceDiv] at *
  repeat' split
  all_goals omega

/-! ### the window is exact: outside it (and away from the 0 / 2^62 edges) the result differs -/

theorem below_8 (pn L : Nat) (hL : L ≤ maxPn) (h1 : pn + 128 < L + 2) (h2 : pn + 256 ≤ maxPn) :
    decodeArith L 256 (pn % 256) ≠ pn := by
  unfold decodeArith adjustArith
  simp only [maxPn] at *
  repeat' split
  all_goals omega

theorem above_8 (pn L : Nat) (hp : pn ≤ maxPn) (h1 : L + 1 + 128 < pn) (h2 : 256 ≤ pn) :
    decodeArith L 256 (pn % 256) ≠ pn := by
  unfold decodeArith adjustArith
  simp only [maxPn] at *
  repeat' split
  all_goals omega

/-- the reconstructed number always carries the received low bits, unless it was clamped -/
theorem congr_8 (L v : Nat) (hL : L ≤ maxPn) (hv : v < 256) :
    decodeArith L 256 v % 256 = v ∨ (decodeArith L 256 v = maxPn ∧ L = maxPn) := by
  unfold decodeArith adjustArith
  simp only [maxPn] at *
  repeat' split
  all_goals omega

theorem le_max_8 (L v : Nat) : decodeArith L 256 v ≤ maxPn := by
  unfold decodeArith adjustArith
  simp only [maxPn] at *
  repeat' split
  all_goals omega

theorem below_16 (pn L : Nat) (hL : L ≤ maxPn) (h1 : pn + 32768 < L + 2) (h2 : pn + 65536 ≤ maxPn) :
    decodeArith L 65536 (pn % 65536) ≠ pn := by
  unfold decodeArith adjustArith
  simp only [maxPn] at *
  repeat' split
  all_goals omega

theorem above_16 (pn L : Nat) (hp : pn ≤ maxPn) (h1 : L + 1 + 32768 < pn) (h2 : 65536 ≤ pn) :
    decodeArith L 65536 (pn % 65536) ≠ pn := by
  unfold decodeArith adjustArith
  simp only [maxPn] at *
  repeat' split
  all_goals omega

/-- the reconstructed number always carries the received low bits, unless it was clamped -/
theorem congr_16 (L v : Nat) (hL : L ≤ maxPn) (hv : v < 65536) :
    decodeArith L 65536 v % 65536 = v ∨ (decodeArith L 65536 v = maxPn ∧ L = maxPn) := by
  unfold decodeArith adjustArith
  simp only [maxPn] at *
  repeat' split
  all_goals omega

theorem le_max_16 (L v : Nat) : decodeArith L 65536 v ≤ maxPn := by
  unfold decodeArith adjustArith
  simp only [maxPn] at *
  repeat' split
  all_goals omega

theorem below_24 (pn L : Nat) (hL : L ≤ maxPn) (h1 : pn + 8388608 < L + 2) (h2 : pn + 16777216 ≤ maxPn) :
    decodeArith L 16777216 (pn % 16777216) ≠ pn := by
  unfold decodeArith adjustArith
  simp only [maxPn] at *
  repeat' split
  all_goals omega

theorem above_24 (pn L : Nat) (hp : pn ≤ maxPn) (h1 : L + 1 + 8388608 < pn) (h2 : 16777216 ≤ pn) :
    decodeArith L 16777216 (pn % 16777216) ≠ pn := by
  unfold decodeArith adjustArith
  simp only [maxPn] at *
  repeat' split
  all_goals omega

/-- the reconstructed number always carries the received low bits, unless it was clamped -/
theorem congr_24 (L v : Nat) (hL : L ≤ maxPn) (hv : v < 16777216) :
    decodeArith L 16777216 v % 16777216 = v ∨ (decodeArith L 16777216 v = maxPn ∧ L = maxPn) := by
  unfold decodeArith adjustArith
  simp only [maxPn] at *
  repeat' split
  all_goals omega

theorem le_max_24 (L v : Nat) : decodeArith L 16777216 v ≤ maxPn := by
  unfold decodeArith adjustArith
  simp only [maxPn] at *
  repeat' split
  all_goals omega

theorem below_32 (pn L : Nat) (hL : L ≤ maxPn) (h1 : pn + 2147483648 < L + 2) (h2 : pn + 4294967296 ≤ maxPn) :
    decodeArith L 4294967296 (pn % 4294967296) ≠ pn := by
  unfold decodeArith adjustArith
  simp only [maxPn] at *
  repeat' split
  all_goals omega

theorem above_32 (pn L : Nat) (hp : pn ≤ maxPn) (h1 : L + 1 + 2147483648 < pn) (h2 : 4294967296 ≤ pn) :
    decodeArith L 4294967296 (pn % 4294967296) ≠ pn := by
  unfold decodeArith adjustArith
  simp only [maxPn] at *
  repeat' split
  all_goals omega

/-- the reconstructed number always carries the received low bits, unless it was clamped -/
theorem congr_32 (L v : Nat) (hL : L ≤ maxPn) (hv : v < 4294967296) :
    decodeArith L 4294967296 v % 4294967296 = v ∨ (decodeArith L 4294967296 v = maxPn ∧ L = maxPn) := by
  unfold decodeArith adjustArith
  simp only [maxPn] at *
  repeat' split
  all_goals omega

theorem le_max_32 (L v : Nat) : decodeArith L 4294967296 v ≤ maxPn := by
  unfold decodeArith adjustArith
  simp only [maxPn] at *
  repeat' split
  all_goals omega

/-! ### wire form -/

theorem beBytes_length (n v : Nat) : (beBytes n v).length = n := by
  induction n with
  | zero => rfl
  | succ n ih => simp [beBytes, ih]

theorem beVal_beBytes (n v : Nat) : beVal (beBytes n v) = v % 256 ^ n := by
  induction n with
  | zero => simp [beBytes, beVal, Nat.mod_one]
  | succ n ih =>
    simp only [beBytes, beVal, beBytes_length, ih]
    rw [Nat.mod_pow_succ, Nat.mul_comm, Nat.add_comm]

theorem beVal_lt (l : List Nat) (hl : BytesOk l) : beVal l < 256 ^ l.length := by
  induction l with
  | nil => simp [beVal]
  | cons x xs ih =>
    have hx : x < 256 := hl x (by simp)
    have := ih (fun y hy => hl y (by simp [hy]))
    simp only [beVal, List.length_cons, Nat.pow_succ]
    have : x * 256 ^ xs.length ≤ 255 * 256 ^ xs.length := Nat.mul_le_mul_right _ (by omega)
    omega

theorem beBytes_add_mul (n : Nat) : ∀ a c, beBytes n (a * 256 ^ n + c) = beBytes n c := by
  induction n with
  | zero => intros; rfl
  | succ n ih =>
    intro a c
    simp only [beBytes]
    have e : a * 256 ^ (n + 1) = (a * 256) * 256 ^ n := by rw [Nat.pow_succ, Nat.mul_comm (256 ^ n), Nat.mul_assoc]
    rw [e, ih (a * 256) c]
    congr 1
    rw [Nat.add_comm, Nat.add_mul_div_right _ _ (Nat.pow_pos (by decide)), Nat.add_mul_mod_self_right]

theorem beBytes_beVal (l : List Nat) (hl : BytesOk l) : beBytes l.length (beVal l) = l := by
  induction l with
  | nil => rfl
  | cons x xs ih =>
    have hx : x < 256 := hl x (by simp)
    have hxs : BytesOk xs := fun y hy => hl y (by simp [hy])
    have hb := beVal_lt xs hxs
    simp only [List.length_cons, beBytes, beVal]
    rw [beBytes_add_mul, ih hxs]
    congr 1
    rw [Nat.add_comm, Nat.add_mul_div_right _ _ (Nat.pow_pos (by decide)), Nat.div_eq_of_lt hb]
    omega
theorem two_pow_bitsize (len : Nat) : 2 ^ bitsize len = 256 ^ bytesize len := by
  unfold bitsize
  rw [Nat.mul_comm, Nat.pow_mul]

theorem truncatePacketNumber_eq (len pn : Nat) (h : len ≤ 3) :
    truncatePacketNumber len pn = ⟨len, pn % 2 ^ bitsize len⟩ := by
  have : len = 0 ∨ len = 1 ∨ len = 2 ∨ len = 3 := by omega
  rcases this with h | h | h | h <;> subst h <;>
    simp only [truncatePacketNumber, bitsize, bytesize, Nat.reduceAdd, Nat.reduceMul, Nat.reducePow,
      Truncated.mk.injEq, true_and] <;> omega

theorem truncatePacketNumber_wf (len pn : Nat) (h : len ≤ 3) : WF (truncatePacketNumber len pn) := by
  rw [truncatePacketNumber_eq len pn h]
  exact ⟨h, Nat.mod_lt _ (Nat.two_pow_pos _)⟩

end Quic.Proofs.PacketNumber
