import QuicModel.Conn.PtoArmed
import QuicModel.Recovery.Manager
/-
  Lemmas for `pto_armed_inv` (Props/C02Timers.lean): the code's `check_consistency` is an invariant of
  every history of the abstract recovery-manager timer view, and that view's `update_pto_timer` is the
  one of the detailed (differential-tested) `Recovery.Manager` model.
-/
namespace Quic.Proofs.Lemmas.PtoArmed
open Quic.Conn.PtoArmed

/-- fields `ackElicitingInFlight` depends on -/
theorem ae_congr (s s' : State) (h : s'.sent = s.sent) : ackElicitingInFlight s' = ackElicitingInFlight s := by
  simp [ackElicitingInFlight, h]

/-- `update_pto_timer` only touches `ptoTimer` and `ptoUpdatePending` -/
theorem update_fields (s : State) :
    (updatePtoTimer s).sent = s.sent ∧ (updatePtoTimer s).lossTimer = s.lossTimer ∧
    (updatePtoTimer s).ptoUpdatePending = false ∧ (updatePtoTimer s).sentAckEliciting = s.sentAckEliciting ∧
    (updatePtoTimer s).atAmplificationLimit = s.atAmplificationLimit ∧ (updatePtoTimer s).peerValidated = s.peerValidated ∧
    (updatePtoTimer s).applicationSpace = s.applicationSpace ∧ (updatePtoTimer s).handshakeConfirmed = s.handshakeConfirmed ∧
    (updatePtoTimer s).discarded = s.discarded := by
  unfold updatePtoTimer
  simp only
  repeat' split
  all_goals simp

/-- the heart of `pto_armed_inv`: whatever the state, `check_consistency` holds right after
    `update_pto_timer` -/
theorem update_consistent (s : State) : consistent (updatePtoTimer s) = true := by
  have hf := update_fields s
  have hae : ackElicitingInFlight (updatePtoTimer s) = ackElicitingInFlight s := ae_congr _ _ hf.1
  simp only [consistent, timerRequired, armed, hae, hf.2.1, hf.2.2.2.1, hf.2.2.2.2.1, hf.2.2.2.2.2.1, hf.2.2.2.2.2.2.1,
    hf.2.2.2.2.2.2.2.1]
  have hp : (updatePtoTimer s).ptoTimer =
      (!s.lossTimer && !s.atAmplificationLimit && !(s.applicationSpace && !s.handshakeConfirmed) &&
        !( !ackElicitingInFlight s && s.peerValidated)) := by
    unfold updatePtoTimer ackElicitingInFlight
    simp only
    cases h1 : s.lossTimer <;> cases h2 : s.atAmplificationLimit <;> cases h3 : s.applicationSpace <;>
      cases h4 : s.handshakeConfirmed <;> cases h5 : s.sent.any (·.ackEliciting) <;> cases h6 : s.peerValidated <;>
      simp
  rw [hp]
  cases s.lossTimer <;> cases s.atAmplificationLimit <;> cases s.applicationSpace <;> cases s.handshakeConfirmed <;>
    cases ackElicitingInFlight s <;> cases s.peerValidated <;> cases s.sentAckEliciting <;> rfl

/-- the invariant carried through every history -/
structure Inv (s : State) : Prop where
  /-- `check_consistency` (outside a transmission burst) -/
  cons : s.ptoUpdatePending = false → consistent s = true
  /-- an ack-eliciting packet in flight was sent: `time_of_last_ack_eliciting_packet` is set
      (the `.expect(..)` of `update_pto_timer` cannot fire) -/
  aeSent : ackElicitingInFlight s = true → s.sentAckEliciting = true
  /-- the loss timer is only ever armed for a packet that is still tracked -/
  lossHas : s.lossTimer = true → s.sent ≠ []

theorem inv_init (app pv amp : Bool) : Inv (init app pv amp) := by
  refine ⟨fun _ => ?_, ?_, ?_⟩
  · simp [consistent, timerRequired, init, ackElicitingInFlight]
  · simp [init, ackElicitingInFlight]
  · simp [init]

theorem any_filter_imp {α} (l : List α) (p q : α → Bool) (h : (l.filter q).any p = true) : l.any p = true := by
  simp only [List.any_eq_true, List.mem_filter] at h ⊢
  obtain ⟨x, ⟨hx, _⟩, hp⟩ := h
  exact ⟨x, hx, hp⟩

theorem detect_fields (s : State) (d : Detect) :
    (detectAndRemove s d).sent = (s.sent.filter (fun p => !d.lost.contains p.pn)) ∧
    (detectAndRemove s d).sentAckEliciting = s.sentAckEliciting ∧
    (detectAndRemove s d).discarded = s.discarded ∧
    ((detectAndRemove s d).lossTimer = true → (detectAndRemove s d).sent ≠ []) := by
  unfold detectAndRemove
  simp only
  cases hn : d.notLostYet with
  | none => simp
  | some pn =>
    simp only
    split
    · rename_i h
      refine ⟨rfl, rfl, rfl, fun _ => ?_⟩
      intro he
      have he' : s.sent.filter (fun p => !d.lost.contains p.pn) = [] := he
      rw [he'] at h
      simp at h
    · simp

theorem inv_update (s : State) (h2 : ackElicitingInFlight s = true → s.sentAckEliciting = true)
    (h3 : s.lossTimer = true → s.sent ≠ []) : Inv (updatePtoTimer s) := by
  have hf := update_fields s
  refine ⟨fun _ => update_consistent s, ?_, ?_⟩
  · rw [ae_congr _ _ hf.1, hf.2.2.2.1]; exact h2
  · rw [hf.2.1, hf.1]; exact h3

theorem inv_step (s : State) (op : Op) (h : Inv s) (hd : (step s op).discarded = false) : Inv (step s op) := by
  unfold step at hd ⊢
  by_cases hv : op.valid s = true
  · rw [if_pos hv] at hd ⊢
    cases op with
    | send pn ae =>
      cases ae with
      | true =>
        simp only [apply, if_true]
        refine ⟨(fun hp => by cases hp), (fun _ => rfl), ?_⟩
        intro hl; simp
      | false =>
        simp only [apply, Bool.false_eq_true, if_false]
        have hae : ackElicitingInFlight { s with sent := s.sent ++ [{ pn := pn, ackEliciting := false }] } = ackElicitingInFlight s := by
          simp [ackElicitingInFlight]
        refine ⟨fun hp => ?_, ?_, fun _ => by simp⟩
        · have := h.cons hp
          simpa [consistent, timerRequired, armed, hae] using this
        · rw [hae]; exact h.aeSent
    | burstComplete =>
      simp only [apply]
      split
      · exact inv_update s h.aeSent h.lossHas
      · exact h
    | ack set d =>
      simp only [apply]
      split
      · exact h
      · apply inv_update
        · -- ack-eliciting in flight after removal ⇒ before
          have hf := detect_fields { s with sent := s.sent.filter (fun p => !set.contains p.pn) } d
          intro hae
          have e1 : ackElicitingInFlight
              (if (detectAndRemove { s with sent := s.sent.filter (fun p => !set.contains p.pn) } d).peerValidated = true then
                { detectAndRemove { s with sent := s.sent.filter (fun p => !set.contains p.pn) } d with backoffLog2 := 0 }
              else detectAndRemove { s with sent := s.sent.filter (fun p => !set.contains p.pn) } d) =
              ackElicitingInFlight (detectAndRemove { s with sent := s.sent.filter (fun p => !set.contains p.pn) } d) := by
            split <;> rfl
          rw [e1] at hae
          have : ackElicitingInFlight s = true := by
            simp only [ackElicitingInFlight, hf.1] at hae ⊢
            exact any_filter_imp _ _ _ (any_filter_imp _ _ _ hae)
          have hs := h.aeSent this
          split <;> exact hf.2.1.trans hs
        · have hf := detect_fields { s with sent := s.sent.filter (fun p => !set.contains p.pn) } d
          split <;> exact hf.2.2.2
    | timeout expired d =>
      simp only [apply]
      have hf := detect_fields s d
      split
      · split
        · apply inv_update
          · intro hae
            have : ackElicitingInFlight s = true := by
              simp only [ackElicitingInFlight, hf.1] at hae ⊢
              exact any_filter_imp _ _ _ hae
            rw [hf.2.1]; exact h.aeSent this
          · exact hf.2.2.2
        · exact h
      · split
        · apply inv_update
          · exact h.aeSent
          · exact h.lossHas
        · exact h
    | discard => simp [apply] at hd
    | ampLimited =>
      simp only [apply]
      refine ⟨fun _ => ?_, h.aeSent, h.lossHas⟩
      simp [consistent, timerRequired]
    | onAmplificationUnblocked =>
      simp only [apply]
      exact inv_update _ h.aeSent h.lossHas
    | peerValidated =>
      simp only [apply]
      refine ⟨fun hp => ?_, h.aeSent, h.lossHas⟩
      have := h.cons hp
      have hae : ackElicitingInFlight { s with peerValidated := true } = ackElicitingInFlight s := rfl
      simp only [consistent, timerRequired, armed, hae] at this ⊢
      revert this
      cases ackElicitingInFlight s <;> cases s.peerValidated <;> cases s.atAmplificationLimit <;>
        cases s.applicationSpace <;> cases s.handshakeConfirmed <;> cases s.sentAckEliciting <;>
        cases s.lossTimer <;> cases s.ptoTimer <;> simp
    | validatedByOtherSpace =>
      simp only [Op.valid, Bool.and_eq_true, Bool.not_eq_true'] at hv
      simp only [apply]
      refine ⟨fun _ => ?_, h.aeSent, h.lossHas⟩
      simp [consistent, timerRequired, hv.2.1, hv.2.2]
    | handshakeConfirmed =>
      simp only [apply]
      exact inv_update _ h.aeSent h.lossHas
  · rw [if_neg hv]; exact h

theorem step_discarded (s : State) (op : Op) (h : s.discarded = true) : step s op = s := by
  simp [step, Op.valid, h]

theorem run_discarded (ops : List Op) (s : State) (h : s.discarded = true) : run s ops = s := by
  induction ops generalizing s with
  | nil => rfl
  | cons op ops ih => simp only [run]; rw [step_discarded s op h]; exact ih s h

theorem inv_run (ops : List Op) (s : State) (h : Inv s) (hd : (run s ops).discarded = false) : Inv (run s ops) := by
  induction ops generalizing s with
  | nil => exact h
  | cons op ops ih =>
    simp only [run] at hd ⊢
    by_cases hx : (step s op).discarded = true
    · rw [run_discarded ops _ hx] at hd; rw [hx] at hd; cases hd
    · have hx' : (step s op).discarded = false := by cases h' : (step s op).discarded <;> simp_all
      exact ih _ (inv_step s op h hx') hd

/-! ### the same `update_pto_timer` in the detailed model -/
open Quic.Recovery in
/-- timer view of the detailed `Recovery.Manager` model -/
def ofManager (m : Manager.Manager) : State :=
  { sent := m.sent.map (fun p => { pn := p.pn, ackEliciting := p.ackEliciting }),
    lossTimer := m.lossTimer.isSome,
    ptoTimer := m.pto.timer.isSome,
    ptoUpdatePending := m.ptoUpdatePending,
    sentAckEliciting := m.timeOfLastAckEliciting.isSome,
    atAmplificationLimit := (m.paths m.activePath).atAmplificationLimit,
    peerValidated := (m.paths m.activePath).peerValidated,
    applicationSpace := m.space.isApplicationData,
    handshakeConfirmed := m.handshakeConfirmed,
    backoffLog2 := 0,
    discarded := m.closed }

open Quic.Recovery in
theorem ofManager_updatePtoTimer (m : Manager.Manager) (now : Nat) :
    ofManager (Manager.updatePtoTimer m now) = updatePtoTimer (ofManager m) := by
  have hae : ackElicitingInFlight (ofManager m) = Manager.ackElicitingInFlight m := by
    simp [ackElicitingInFlight, ofManager, Manager.ackElicitingInFlight, List.any_map, Function.comp_def]
  unfold Manager.updatePtoTimer updatePtoTimer
  simp only
  have hae' : ackElicitingInFlight { ofManager m with ptoUpdatePending := false } = Manager.ackElicitingInFlight m := by
    rw [← hae]; rfl
  have hae'' : Manager.ackElicitingInFlight { m with ptoUpdatePending := false } = Manager.ackElicitingInFlight m := rfl
  rw [hae', hae'']
  cases h1 : m.lossTimer.isSome <;> cases h2 : (m.paths m.activePath).atAmplificationLimit <;>
    cases h3 : m.space.isApplicationData <;> cases h4 : m.handshakeConfirmed <;>
    cases h5 : Manager.ackElicitingInFlight m <;> cases h6 : (m.paths m.activePath).peerValidated <;>
    simp [ofManager, h1, h2, h3, h4, h6, Pto.cancel, Pto.update]

end Quic.Proofs.Lemmas.PtoArmed
