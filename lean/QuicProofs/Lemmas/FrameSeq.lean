import QuicProofs.Lemmas.FrameRfcMain
/-
  Sequence-level agreement (`impl_eq_rfc_frames`): a packet payload decodes to the same frames under
  the implementation model and under the RFC transcription, a PADDING run counting as that many
  PADDING frames.
-/
namespace Quic.Proofs.Frame
open Quic Quic.Codec Quic.Codec.Frame
open Quic.Rfc.Frame (parseFrameWith parseFieldsWith parseFieldWith parsePairsWith layout interp Field Val parseFrame parseFramesFuel parseFrames)

def isPadding : Frame → Bool
  | .padding _ => true
  | _ => false

macro "not_pad " h:ident : tactic =>
  `(tactic| ((repeat' (res_split $h)); all_goals (simp at $h:ident; rw [← ($h).1]; rfl)))

theorem dec1_notPad (mk : Nat → Frame) (hmk : ∀ x, isPadding (mk x) = false) {b r : List Nat} {f : Frame}
    (h : dec1 mk b = .ok (f, r)) : isPadding f = false := by
  unfold dec1 at h
  repeat (res_split h)
  simp at h; obtain ⟨rfl, _⟩ := h; exact hmk _
theorem dec2_notPad (mk : Nat → Nat → Frame) (hmk : ∀ x y, isPadding (mk x y) = false) {b r : List Nat} {f : Frame}
    (h : dec2 mk b = .ok (f, r)) : isPadding f = false := by
  unfold dec2 at h
  repeat (res_split h)
  simp at h; obtain ⟨rfl, _⟩ := h; exact hmk _ _
theorem dec3_notPad (mk : Nat → Nat → Nat → Frame) (hmk : ∀ x y z, isPadding (mk x y z) = false) {b r : List Nat} {f : Frame}
    (h : dec3 mk b = .ok (f, r)) : isPadding f = false := by
  unfold dec3 at h
  repeat (res_split h)
  simp at h; obtain ⟨rfl, _⟩ := h; exact hmk _ _ _
theorem decStreamLimit_notPad (mk : Nat → Frame) (hmk : ∀ x, isPadding (mk x) = false) {b r : List Nat} {f : Frame}
    (h : decStreamLimit mk b = .ok (f, r)) : isPadding f = false := by
  unfold decStreamLimit at h
  repeat (res_split h)
  simp at h; obtain ⟨rfl, _⟩ := h; exact hmk _
theorem decPath_notPad (mk : List Nat → Frame) (hmk : ∀ x, isPadding (mk x) = false) {b r : List Nat} {f : Frame}
    (h : decPath mk b = .ok (f, r)) : isPadding f = false := by
  unfold decPath at h
  repeat (res_split h)
  simp at h; obtain ⟨rfl, _⟩ := h; exact hmk _
theorem decAck_notPad (tag : Nat) {b r : List Nat} {f : Frame} (h : decAck tag b = .ok (f, r)) : isPadding f = false := by
  unfold decAck at h; not_pad h
theorem decCrypto_notPad {b r : List Nat} {f : Frame} (h : decCrypto b = .ok (f, r)) : isPadding f = false := by
  unfold decCrypto at h; not_pad h
theorem decNewToken_notPad {b r : List Nat} {f : Frame} (h : decNewToken b = .ok (f, r)) : isPadding f = false := by
  unfold decNewToken at h; not_pad h
theorem decStream_notPad (tag : Nat) {b r : List Nat} {f : Frame} (h : decStream tag b = .ok (f, r)) : isPadding f = false := by
  unfold decStream at h; not_pad h
theorem decDatagram_notPad (tag : Nat) {b r : List Nat} {f : Frame} (h : decDatagram tag b = .ok (f, r)) : isPadding f = false := by
  unfold decDatagram at h; not_pad h
theorem decNewConnectionId_notPad {b r : List Nat} {f : Frame} (h : decNewConnectionId b = .ok (f, r)) : isPadding f = false := by
  unfold decNewConnectionId at h; not_pad h
theorem decConnectionClose_notPad (tag : Nat) {b r : List Nat} {f : Frame} (h : decConnectionClose tag b = .ok (f, r)) : isPadding f = false := by
  unfold decConnectionClose at h; not_pad h
theorem decDcTokens_notPad {b r : List Nat} {f : Frame} (h : decDcTokens b = .ok (f, r)) : isPadding f = false := by
  unfold decDcTokens at h; not_pad h
theorem decMtu_notPad {b r : List Nat} {f : Frame} (h : decMtu b = .ok (f, r)) : isPadding f = false := by
  unfold decMtu at h; not_pad h
theorem handleExtension_notPad {b r : List Nat} {f : Frame} (h : handleExtension b = .ok (f, r)) : isPadding f = false := by
  unfold handleExtension at h
  repeat' (res_split h)
  · exact decDcTokens_notPad h
  · exact decMtu_notPad h

/-- only the tag `0x00` yields a PADDING value -/
theorem decodeFrame_notPad {tag : Nat} {t r : List Nat} {f : Frame} (h0 : tag ≠ 0)
    (h : decodeFrame (tag :: t) = .ok (f, r)) : isPadding f = false := by
  unfold decodeFrame at h
  simp only [] at h
  by_cases c0 : 64 ≤ tag
  · rw [if_pos c0] at h; exact handleExtension_notPad h
  rw [if_neg c0] at h
  by_cases c1 : tag = 0
  · rw [if_pos c1] at h; exact absurd c1 h0
  rw [if_neg c1] at h
  by_cases c2 : tag = 1
  · rw [if_pos c2] at h; simp at h; rw [← h.1]; rfl
  rw [if_neg c2] at h
  by_cases c3 : tag = 2 ∨ tag = 3
  · rw [if_pos c3] at h; exact decAck_notPad _ h
  rw [if_neg c3] at h
  by_cases c4 : tag = 4
  · rw [if_pos c4] at h; exact dec3_notPad _ (fun _ _ _ => rfl) h
  rw [if_neg c4] at h
  by_cases c5 : tag = 5
  · rw [if_pos c5] at h; exact dec2_notPad _ (fun _ _ => rfl) h
  rw [if_neg c5] at h
  by_cases c6 : tag = 6
  · rw [if_pos c6] at h; exact decCrypto_notPad h
  rw [if_neg c6] at h
  by_cases c7 : tag = 7
  · rw [if_pos c7] at h; exact decNewToken_notPad h
  rw [if_neg c7] at h
  by_cases c8 : 8 ≤ tag ∧ tag ≤ 15
  · rw [if_pos c8] at h; exact decStream_notPad _ h
  rw [if_neg c8] at h
  by_cases c9 : tag = 16
  · rw [if_pos c9] at h; exact dec1_notPad _ (fun _ => rfl) h
  rw [if_neg c9] at h
  by_cases c10 : tag = 17
  · rw [if_pos c10] at h; exact dec2_notPad _ (fun _ _ => rfl) h
  rw [if_neg c10] at h
  by_cases c11 : tag = 18 ∨ tag = 19
  · rw [if_pos c11] at h; exact decStreamLimit_notPad _ (fun _ => rfl) h
  rw [if_neg c11] at h
  by_cases c12 : tag = 20
  · rw [if_pos c12] at h; exact dec1_notPad _ (fun _ => rfl) h
  rw [if_neg c12] at h
  by_cases c13 : tag = 21
  · rw [if_pos c13] at h; exact dec2_notPad _ (fun _ _ => rfl) h
  rw [if_neg c13] at h
  by_cases c14 : tag = 22 ∨ tag = 23
  · rw [if_pos c14] at h; exact decStreamLimit_notPad _ (fun _ => rfl) h
  rw [if_neg c14] at h
  by_cases c15 : tag = 24
  · rw [if_pos c15] at h; exact decNewConnectionId_notPad h
  rw [if_neg c15] at h
  by_cases c16 : tag = 25
  · rw [if_pos c16] at h; exact dec1_notPad _ (fun _ => rfl) h
  rw [if_neg c16] at h
  by_cases c17 : tag = 26
  · rw [if_pos c17] at h; exact decPath_notPad _ (fun _ => rfl) h
  rw [if_neg c17] at h
  by_cases c18 : tag = 27
  · rw [if_pos c18] at h; exact decPath_notPad _ (fun _ => rfl) h
  rw [if_neg c18] at h
  by_cases c19 : tag = 28 ∨ tag = 29
  · rw [if_pos c19] at h; exact decConnectionClose_notPad _ h
  rw [if_neg c19] at h
  by_cases c20 : tag = 30
  · rw [if_pos c20] at h; simp at h; rw [← h.1]; rfl
  rw [if_neg c20] at h
  by_cases c21 : tag = 48 ∨ tag = 49
  · rw [if_pos c21] at h; exact decDatagram_notPad _ h
  rw [if_neg c21] at h
  exact handleExtension_notPad h

/-- a decoded frame list in RFC terms (`padding n` = `n` PADDING frames) -/
def absFrames : List Frame → Option (List Rfc.Frame.Frame)
  | [] => some []
  | f :: fs =>
    match toRfcList f, absFrames fs with
    | some l, some ls => some (l ++ ls)
    | _, _ => none

def absSeq (x : Except (Err × Nat) (List Frame)) : Option (List Rfc.Frame.Frame) :=
  match x with
  | .ok fs => absFrames fs
  | .error _ => none

theorem parseFieldsWith_bytesOk (fs : List Field) : ∀ (b : List Nat), BytesOk b →
    ∀ vs r, parseFieldsWith D fs b = some (vs, r) → BytesOk r := by
  induction fs with
  | nil => intro b hb vs r h; simp [parseFieldsWith] at h; obtain ⟨_, rfl⟩ := h; exact hb
  | cons f fs ih =>
    intro b hb vs r h
    simp only [parseFieldsWith] at h
    cases h1 : parseFieldWith D f b with
    | none => simp [h1] at h
    | some p =>
      obtain ⟨v, r1⟩ := p
      simp only [h1] at h
      have hb1 := (parseFieldWith_congr f b hb).2 v r1 h1
      cases h2 : parseFieldsWith D fs r1 with
      | none => simp [h2] at h
      | some q =>
        obtain ⟨vs', r'⟩ := q
        simp [h2] at h
        obtain ⟨_, rfl⟩ := h
        exact ih r1 hb1 vs' r' h2

theorem parseFrame_bytesOk {b r : List Nat} {g : Rfc.Frame.Frame} (hb : BytesOk b)
    (h : parseFrame b = some (g, r)) : BytesOk r := by
  unfold parseFrame at h
  rw [parseFrameWith_congr b hb] at h
  unfold parseFrameWith at h
  cases h1 : D b with
  | none => simp [h1] at h
  | some p =>
    obtain ⟨ty, r1⟩ := p
    simp only [h1] at h
    have hb1 := D_bytesOk h1 hb
    split at h
    · simp at h
    · cases h2 : layout ty with
      | none => simp [h2] at h
      | some fields =>
        simp only [h2] at h
        cases h3 : parseFieldsWith D fields r1 with
        | none => simp [h3] at h
        | some q =>
          obtain ⟨vs, rest⟩ := q
          simp only [h3] at h
          cases h4 : interp ty vs with
          | none => simp [h4] at h
          | some f =>
            simp [h4] at h
            obtain ⟨_, rfl⟩ := h
            exact parseFieldsWith_bytesOk fields r1 hb1 vs rest h3

theorem parseFrame_padding (t : List Nat) (hb : BytesOk (0 :: t)) :
    parseFrame (0 :: t) = some (.padding, t) := by
  unfold parseFrame
  rw [parseFrameWith_congr _ hb, parseFrameWith_small 0 t (by decide)]
  simp [layout, rfcRest_nil, interp]

theorem absRes_some {x : Res Frame} {g : Rfc.Frame.Frame} {r : List Nat} (h : absRes x = some (g, r)) :
    ∃ f, x = .ok (f, r) ∧ toRfc f = some g := by
  unfold absRes at h
  cases x with
  | error e => simp at h
  | ok p =>
    obtain ⟨f, r'⟩ := p
    simp only [] at h
    cases h1 : toRfc f with
    | none => simp [h1] at h
    | some g' =>
      simp [h1] at h
      obtain ⟨rfl, rfl⟩ := h
      exact ⟨f, rfl, h1⟩

theorem absRes_none_of_ok {f : Frame} {r : List Nat} (h : absRes (.ok (f, r)) = none) : toRfc f = none := by
  unfold absRes at h
  simp only [] at h
  cases h1 : toRfc f with
  | none => rfl
  | some g => simp [h1] at h

theorem toRfcList_of_toRfc_none {f : Frame} (h : toRfc f = none) : toRfcList f = none := by
  cases f <;> simp [toRfc] at h <;> simp [toRfcList, toRfc]

theorem zeroRun_cons_zero (t : List Nat) : zeroRun (0 :: t) = zeroRun t + 1 := by
  simp [zeroRun]


theorem toRfcList_of_notPad {f : Frame} {g : Rfc.Frame.Frame} (hp : isPadding f = false) (h : toRfc f = some g) :
    toRfcList f = some [g] := by
  cases f <;> simp [isPadding] at hp <;> simp [toRfcList, h]

theorem absFrames_cons_padding (n : Nat) (fs : List Frame) :
    absFrames (.padding (n + 1) :: fs) =
      match absFrames (.padding n :: fs) with
      | some l => some (.padding :: l)
      | none => none := by
  simp only [absFrames, toRfcList]
  cases absFrames fs with
  | none => rfl
  | some ls => simp [List.replicate_succ]

theorem absFrames_padding_zero (fs : List Frame) : absFrames (.padding 0 :: fs) = absFrames fs := by
  simp only [absFrames, toRfcList]
  cases absFrames fs with
  | none => rfl
  | some ls => simp

/-- `absSeq` of "prepend `f` to what the rest decodes to" -/
def consSeq (f : Frame) (x : Except (Err × Nat) (List Frame)) : Except (Err × Nat) (List Frame) :=
  match x with
  | .error (e, k) => .error (e, k + 1)
  | .ok fs => .ok (f :: fs)

theorem decodeFramesWF_cons' (x : Nat) (t : List Nat) :
    decodeFramesWF (x :: t) =
      match decodeFrame (x :: t) with
      | .error e => .error (e, 0)
      | .ok (f, r) => consSeq f (decodeFramesWF r) := by
  rw [decodeFramesWF_cons]
  cases decodeFrame (x :: t) with
  | error e => rfl
  | ok p =>
    obtain ⟨f, r⟩ := p
    simp only [consSeq]
    cases decodeFramesWF r with
    | error q => rfl
    | ok fs => rfl

theorem absSeq_consSeq_padding (n : Nat) (x : Except (Err × Nat) (List Frame)) :
    absSeq (consSeq (.padding (n + 1)) x) =
      match absSeq (consSeq (.padding n) x) with
      | some l => some (.padding :: l)
      | none => none := by
  cases x with
  | error q => rfl
  | ok fs => exact absFrames_cons_padding n fs

theorem absSeq_consSeq_padding_zero (x : Except (Err × Nat) (List Frame)) :
    absSeq (consSeq (.padding 0) x) = absSeq x := by
  cases x with
  | error q => rfl
  | ok fs => exact absFrames_padding_zero fs

theorem decodeFrame_zero (t : List Nat) :
    decodeFrame (0 :: t) = .ok (.padding (zeroRun t + 1), t.drop (zeroRun t)) := by
  simp [decodeFrame, decPadding]

/-- what a payload starting with a zero byte decodes to, in terms of the payload after that byte -/
theorem absSeq_zero_cons (t : List Nat) :
    absSeq (decodeFramesWF (0 :: t)) =
      match absSeq (decodeFramesWF t) with
      | some l => some (.padding :: l)
      | none => none := by
  rw [decodeFramesWF_cons', decodeFrame_zero]
  simp only []
  match t with
  | [] =>
    simp [zeroRun, decodeFramesWF_nil, consSeq, absSeq, absFrames, toRfcList]
  | x :: t' =>
    by_cases hx : x = 0
    · subst hx
      rw [zeroRun_cons_zero, decodeFramesWF_cons' 0 t', decodeFrame_zero]
      simp only [List.drop_succ_cons]
      exact absSeq_consSeq_padding _ _
    · have hz : zeroRun (x :: t') = 0 := zeroRun_of_head _ (by simp [hx])
      rw [hz]
      simp only [List.drop_zero, Nat.zero_add]
      rw [absSeq_consSeq_padding 0, absSeq_consSeq_padding_zero]

theorem frames_agree : ∀ (fuel : Nat) (b : List Nat), b.length ≤ fuel → BytesOk b → b.length < 2 ^ 62 →
    absSeq (decodeFramesWF b) = parseFramesFuel fuel b := by
  intro fuel
  induction fuel with
  | zero =>
    intro b hlen _ _
    match b, hlen with
    | [], _ => simp [decodeFramesWF_nil, absSeq, absFrames, parseFramesFuel]
  | succ fuel ih =>
    intro b hlen hb hl
    match b, hlen, hb, hl with
    | [], _, _, _ => simp [decodeFramesWF_nil, absSeq, absFrames, parseFramesFuel]
    | h :: t, hlen, hb, hl =>
      have hbt : BytesOk t := fun x hx => hb x (List.mem_cons_of_mem _ hx)
      have hlt : t.length ≤ fuel := by simp at hlen; omega
      have hlt2 : t.length < 2 ^ 62 := by simp at hl; omega
      rw [parseFramesFuel]
      by_cases h0 : h = 0
      · subst h0
        rw [parseFrame_padding t hb, absSeq_zero_cons]
        simp only []
        rw [ih t hlt hbt hlt2]
        cases parseFramesFuel fuel t with
        | none => rfl
        | some fs => rfl
      · have hp : ∀ t', h :: t ≠ 0 :: 0 :: t' := by
          intro t' e; simp at e; exact h0 e.1
        have hag := codec_eq_rfc (h :: t) hb hl hp
        rw [decodeFramesWF_cons']
        cases hd : decodeFrame (h :: t) with
        | error e =>
          rw [hd] at hag
          simp only [absRes] at hag
          rw [← hag]
          rfl
        | ok p =>
          obtain ⟨f, r⟩ := p
          rw [hd] at hag
          simp only []
          have hnp := decodeFrame_notPad h0 hd
          have hprog := decodeFrame_progress hd
          cases hf : toRfc f with
          | none =>
            have : absRes (Except.ok (f, r)) = none := by simp [absRes, hf]
            rw [this] at hag
            rw [← hag]
            simp only []
            have hl' := toRfcList_of_toRfc_none hf
            cases decodeFramesWF r with
            | error q => rfl
            | ok fs => simp [consSeq, absSeq, absFrames, hl']
          | some g =>
            have : absRes (Except.ok (f, r)) = some (g, r) := by simp [absRes, hf]
            rw [this] at hag
            rw [← hag]
            simp only []
            have hbr : BytesOk r := parseFrame_bytesOk hb hag.symm
            have hr1 : r.length ≤ fuel := by simp at hlen hprog; omega
            have hr2 : r.length < 2 ^ 62 := by simp at hl hprog; omega
            rw [← ih r hr1 hbr hr2]
            have hl' := toRfcList_of_notPad hnp hf
            cases decodeFramesWF r with
            | error q => rfl
            | ok fs =>
              simp only [consSeq, absSeq, absFrames, hl']
              cases absFrames fs with
              | none => rfl
              | some ls => rfl

end Quic.Proofs.Frame
