import QuicModel.Rfc.RecvViolations
import QuicProofs.Lemmas.RecvFlow
/-
  Helper lemmas for the C04 table theorem: every rejection of `State.onFrame` is justified by a violation the
  frame commits (with a code the RFC permits for it), and each violation class is rejected.
-/
namespace Quic.Proofs.Lemmas.RecvViolations
open Quic.Stream.RecvFlow Quic.Rfc Quic.Proofs.Lemmas.RecvFlow
open Quic.Conn (Space FrameTable)

theorem frameTable_eq_rfc (sp : Space) (t : FrameType) : FrameTable sp t = permitted (packetTypeOf sp) t := by
  cases sp <;> cases t <;> rfl

theorem two60 : (2 : Nat) ^ 60 = maxStreamsMax := by decide
theorem two62 : (2 : Nat) ^ 62 - 1 = maxVarInt := by decide

/-- well-formedness the rejection lemmas need: the manager is not closed, the registry counter is a u32 -/
def Live (s : State) : Prop := s.closed = false ∧ s.nextCidSeq ≤ 4294967296

theorem mem_errorFor_generic (v : Violation) : ErrorCode.protocolViolation ∈ errorFor v := by
  simp [errorFor, generic]

/-! ### decoder level -/

theorem decodeCheck_err {f : Frame} {e : ErrorCode} (h : State.decodeCheck f = .error e) (s : State) (sp : Space) :
    e = .protocolViolation ∧ ∃ v, commits s sp f v := by
  cases f <;> simp only [State.decodeCheck] at h <;> try (cases h; done)
  case maxStreams b v =>
    split at h
    · cases h
    · injection h with h
      exact ⟨h.symm, .maxStreamsTooLarge, b, v, rfl, by rw [two60]; omega⟩
  case streamsBlocked b v =>
    split at h
    · cases h
    · injection h with h
      exact ⟨h.symm, .streamsBlockedTooLarge, b, v, rfl, by rw [two60]; omega⟩
  case newConnectionId seq rpt len =>
    split at h
    · injection h with h
      exact ⟨h.symm, .newConnectionIdRetirePriorTo, seq, rpt, len, rfl, by omega⟩
    · split at h
      · injection h with h
        exact ⟨h.symm, .newConnectionIdLength, seq, rpt, len, rfl, by omega⟩
      · cases h
  case unknown tag =>
    injection h with h
    exact ⟨h.symm, .unknownFrameType, tag, rfl⟩


/-! ### the stream map -/

theorem find?_ext {α : Type} (l : List α) (p q : α → Bool) (h : ∀ x ∈ l, p x = q x) : l.find? p = l.find? q := by
  induction l with
  | nil => rfl
  | cons a t ih =>
    simp only [List.find?_cons, h a (by simp)]
    rw [ih (fun x hx => h x (by simp [hx]))]

theorem lookup_setStream (s : State) (a b : Nat) (st : Stream) :
    (s.setStream a st).lookup b = if b = a then some st else s.lookup b := by
  unfold State.lookup State.setStream
  by_cases h : b = a
  · subst h; simp
  · have hne : ¬ a = b := fun h' => h h'.symm
    simp only [h, if_false, List.find?_cons, hne, decide_false]
    rw [List.find?_filter]
    congr 1
    apply find?_ext
    intro x _
    by_cases hx : x.1 = b
    · simp [hx, h]
    · simp [hx]

@[simp] theorem setStream_isServer (s : State) (a : Nat) (st : Stream) : (s.setStream a st).isServer = s.isServer := rfl
@[simp] theorem setStream_conn (s : State) (a : Nat) (st : Stream) : (s.setStream a st).conn = s.conn := rfl
@[simp] theorem setStream_next (s : State) (a : Nat) (st : Stream) : (s.setStream a st).next = s.next := rfl

theorem insertRange_props (s : State) (sv u : Bool) (start n : Nat) :
    let s' := s.insertRange sv u start n
    s'.isServer = s.isServer ∧ s'.conn = s.conn ∧ s'.next = s.next ∧ s'.remoteBidi = s.remoteBidi
    ∧ s'.remoteUni = s.remoteUni ∧ s'.nextCidSeq = s.nextCidSeq ∧ s'.closed = s.closed
    ∧ s'.wBidiLocal = s.wBidiLocal ∧ s'.wBidiRemote = s.wBidiRemote ∧ s'.wUni = s.wUni := by
  induction n generalizing s start with
  | zero => simp [State.insertRange]
  | succ k ih =>
    simp only [State.insertRange]
    have := ih (s.setStream (mkSid sv u start) (s.newStream (mkSid sv u start))) (start + 1)
    simp only at this
    obtain ⟨a1, a2, a3, a4, a5, a6, a7, a8, a9, a10⟩ := this
    exact ⟨a1, a2, a3, a4, a5, a6, a7, a8, a9, a10⟩

/-- every stream in the map has the send half its id calls for -/
def WFStreams (s : State) : Prop :=
  ∀ sid st, s.lookup sid = some st → st.hasSend = !(sidUni sid && !(decide (sidServer sid = s.isServer)))

theorem wf_setStream_new (s : State) (a : Nat) (h : WFStreams s) : WFStreams (s.setStream a (s.newStream a)) := by
  intro sid st hl
  rw [lookup_setStream] at hl
  split at hl
  · rename_i he; subst he
    injection hl with hl; subst hl
    simp [State.newStream]
  · exact h sid st hl

theorem wf_insertRange (s : State) (sv u : Bool) (start n : Nat) (h : WFStreams s) :
    WFStreams (s.insertRange sv u start n) := by
  induction n generalizing s start with
  | zero => exact h
  | succ k ih =>
    simp only [State.insertRange]
    exact ih _ _ (wf_setStream_new s _ h)

/-- what `openIfNecessary` does, case by case -/
theorem open_cases (s : State) (sid : Nat) (hl : Live s) :
    (∃ s', s.openIfNecessary sid = .ok s' ∧ s'.conn = s.conn ∧ s'.isServer = s.isServer
        ∧ s'.nextCidSeq = s.nextCidSeq ∧ (WFStreams s → WFStreams s'))
    ∨ (s.openIfNecessary sid = .error .streamLimitError ∧ localInitiated s sid = false
        ∧ sidIndex sid ≥ advertisedStreams s sid)
    ∨ (s.openIfNecessary sid = .error .streamStateError ∧ localInitiated s sid = true
        ∧ sidIndex sid ≥ s.next (sidServer sid) (sidUni sid)) := by
  unfold State.openIfNecessary
  simp only
  by_cases hloc : sidServer sid = s.isServer
  · -- locally initiated
    simp only [hloc, ne_eq, not_true_eq_false, if_false]
    by_cases hi : sidIndex sid ≥ s.next s.isServer (sidUni sid)
    · right; right
      simp only [hi, if_true]
      refine ⟨trivial, by simp [localInitiated, hloc], ?_⟩
      first | trivial | (rw [hloc]; exact hi) | exact hi
    · left
      simp only [hi, if_false]
      exact ⟨s, rfl, rfl, rfl, rfl, id⟩
  · simp only [ne_eq, hloc, not_false_eq_true, if_true]
    by_cases hi : sidIndex sid ≥ s.next (sidServer sid) (sidUni sid)
    · simp only [hi, if_true, hl.1, Bool.false_eq_true, if_false]
      by_cases hu : sidUni sid = true
      · simp only [hu, if_true, RemoteInitiated.onRemoteOpen]
        by_cases hlim : sidIndex sid ≥ s.remoteUni.latest
        · right; left
          simp only [hlim, if_true]
          exact ⟨trivial, by simp [localInitiated, hloc], by simp [advertisedStreams, hu, hlim]⟩
        · left
          simp only [hlim, if_false]
          have hp := insertRange_props s (sidServer sid) true (s.next (sidServer sid) true)
            (sidIndex sid + 1 - s.next (sidServer sid) true)
          simp only at hp
          refine ⟨_, rfl, ?_, ?_, ?_, ?_⟩
          · simpa [State.setNext] using hp.2.1
          · simpa [State.setNext] using hp.1
          · simpa [State.setNext] using hp.2.2.2.2.2.1
          · intro hw
            have := wf_insertRange s (sidServer sid) true (s.next (sidServer sid) true)
              (sidIndex sid + 1 - s.next (sidServer sid) true) hw
            intro sid' st hl'
            have h1 := this sid' st (by simpa [State.lookup, State.setNext] using hl')
            simpa [State.setNext, hp.1] using h1
      · have hu' : sidUni sid = false := by cases h : sidUni sid <;> simp_all
        simp only [hu', Bool.false_eq_true, if_false, RemoteInitiated.onRemoteOpen]
        by_cases hlim : sidIndex sid ≥ s.remoteBidi.latest
        · right; left
          simp only [hlim, if_true]
          exact ⟨trivial, by simp [localInitiated, hloc], by simp [advertisedStreams, hu', hlim]⟩
        · left
          simp only [hlim, if_false]
          have hp := insertRange_props s (sidServer sid) false (s.next (sidServer sid) false)
            (sidIndex sid + 1 - s.next (sidServer sid) false)
          simp only at hp
          refine ⟨_, rfl, ?_, ?_, ?_, ?_⟩
          · simpa [State.setNext] using hp.2.1
          · simpa [State.setNext] using hp.1
          · simpa [State.setNext] using hp.2.2.2.2.2.1
          · intro hw
            have := wf_insertRange s (sidServer sid) false (s.next (sidServer sid) false)
              (sidIndex sid + 1 - s.next (sidServer sid) false) hw
            intro sid' st hl'
            have h1 := this sid' st (by simpa [State.lookup, State.setNext] using hl')
            simpa [State.setNext, hp.1] using h1
    · left
      simp only [hi, if_false]
      exact ⟨s, rfl, rfl, rfl, rfl, id⟩


/-! ### why a stream operation fails -/

theorem write_err {b : Buf} {off : Nat} {d : List Nat} {fin : Bool} {x : BufError}
    (h : b.write off d fin = .error x) :
    (x = .outOfRange ∧ off + d.length > maxVarInt)
    ∨ (x = .invalidFin ∧ ((∃ f, b.final = some f ∧ fin = true ∧ off + d.length ≠ f)
        ∨ (b.final = none ∧ fin = true ∧ off + d.length < b.maxRecv)
        ∨ (∃ f, b.final = some f ∧ fin = false ∧ off + d.length > f))) := by
  unfold Buf.write at h
  simp only at h
  split at h
  · rename_i hgt; injection h with h; exact Or.inl ⟨h.symm, hgt⟩
  · split at h
    · rename_i f hf
      split at h
      · cases h
      · rename_i hne; injection h with h
        exact Or.inr ⟨h.symm, Or.inl ⟨f, hf, rfl, hne⟩⟩
    · rename_i hf
      split at h
      · cases h
      · rename_i hlt; injection h with h
        exact Or.inr ⟨h.symm, Or.inr (Or.inl ⟨hf, rfl, by omega⟩)⟩
    · rename_i f hf
      split at h
      · cases h
      · rename_i hgt; injection h with h
        exact Or.inr ⟨h.symm, Or.inr (Or.inr ⟨f, hf, rfl, by omega⟩)⟩
    · cases h

theorem acquireUpTo_err_cases {f : StreamFc} {c : ConnFc} {off : Nat} {e : ErrorCode}
    (h : f.acquireUpTo c off = .error e) :
    e = .flowControlError ∧ (off > f.latest ∨ off - f.acquired > c.latest - c.acquired) := by
  refine ⟨acquireUpTo_err h, ?_⟩
  unfold StreamFc.acquireUpTo ConnFc.acquire ConnFc.remaining at h
  by_cases h1 : off > f.latest
  · exact Or.inl h1
  · by_cases h2 : off - f.acquired > 0
    · by_cases h3 : c.latest - c.acquired < off - f.acquired
      · exact Or.inr h3
      · simp [h1, h2, h3] at h
    · simp [h1, h2] at h

theorem onData_err_cases {r : Recv} {c : ConnFc} {off : Nat} {d : List Nat} {fin : Bool} {e : ErrorCode}
    (h : r.onData c off d fin = .error e) :
    r.state = .receiving ∧
    ( (e = .flowControlError ∧ off + d.length > maxVarInt)
    ∨ (e = .flowControlError ∧ off + d.length > r.fc.latest)
    ∨ (e = .flowControlError ∧ (off + d.length) - r.fc.acquired > c.latest - c.acquired)
    ∨ (e = .finalSizeError ∧ ∃ f, r.buf.final = some f ∧ fin = true ∧ off + d.length ≠ f)
    ∨ (e = .finalSizeError ∧ r.buf.final = none ∧ fin = true ∧ off + d.length < r.buf.maxRecv)
    ∨ (e = .finalSizeError ∧ ∃ f, r.buf.final = some f ∧ off + d.length > f) ) := by
  unfold Recv.onData at h
  split at h
  · rename_i hst
    refine ⟨hst, ?_⟩
    split at h
    · rename_i hgt; injection h with h; exact Or.inl ⟨h.symm, hgt⟩
    · split at h
      · rename_i e' hacq
        injection h with h; subst h
        unfold Recv.onDataAcquire at hacq
        split at hacq
        · obtain ⟨he, hc⟩ := acquireUpTo_err_cases hacq
          rcases hc with hc | hc
          · exact Or.inr (Or.inl ⟨he, hc⟩)
          · exact Or.inr (Or.inr (Or.inl ⟨he, hc⟩))
        · cases hacq
      · split at h
        · rename_i hw
          rcases write_err hw with ⟨_, hgt⟩ | ⟨hx, _⟩
          · omega
          · cases hx
        · rename_i hw
          injection h with h
          rcases write_err hw with ⟨hx, _⟩ | ⟨_, hc⟩
          · cases hx
          · rcases hc with hc | hc | ⟨f, hf, _, hgt⟩
            · exact Or.inr (Or.inr (Or.inr (Or.inl ⟨h.symm, hc⟩)))
            · exact Or.inr (Or.inr (Or.inr (Or.inr (Or.inl ⟨h.symm, hc⟩))))
            · exact Or.inr (Or.inr (Or.inr (Or.inr (Or.inr ⟨h.symm, f, hf, hgt⟩))))
        · cases h
  · cases h

theorem onReset_err_cases {r : Recv} {c : ConnFc} {fs : Nat} {e : ErrorCode}
    (h : r.onReset c fs = .error e) :
    (e = .finalSizeError ∧ ∃ f, r.buf.final = some f ∧ fs ≠ f)
    ∨ (e = .flowControlError ∧ fs > r.fc.latest)
    ∨ (e = .flowControlError ∧ fs - r.fc.acquired > c.latest - c.acquired) := by
  unfold Recv.onReset at h
  split at h
  · cases h
  · cases h
  · split at h
    · rename_i f hf
      split at h
      · rename_i hne; injection h with h; exact Or.inl ⟨h.symm, f, hf, hne⟩
      · split at h <;> cases h
    · split at h
      · rename_i e' ha; injection h with h; subst h
        obtain ⟨he, hc⟩ := acquireUpTo_err_cases ha
        rcases hc with hc | hc
        · exact Or.inr (Or.inl ⟨he, hc⟩)
        · exact Or.inr (Or.inr ⟨he, hc⟩)
      · cases h
  · split at h
    · rename_i e' ha; injection h with h; subst h
      obtain ⟨he, hc⟩ := acquireUpTo_err_cases ha
      rcases hc with hc | hc
      · exact Or.inr (Or.inl ⟨he, hc⟩)
      · exact Or.inr (Or.inr ⟨he, hc⟩)
    · cases h


/-! ### every rejection is justified -/

theorem withStream_err {s : State} {sid : Nat} {g : State → Stream → Except ErrorCode State} {e : ErrorCode}
    (h : s.withStream sid g = .error e) (hl : Live s) :
    (e = .streamLimitError ∧ localInitiated s sid = false ∧ sidIndex sid ≥ advertisedStreams s sid)
    ∨ (e = .streamStateError ∧ localInitiated s sid = true ∧ sidIndex sid ≥ s.next (sidServer sid) (sidUni sid))
    ∨ (∃ s' st, s.openIfNecessary sid = .ok s' ∧ s'.lookup sid = some st ∧ s'.conn = s.conn
        ∧ s'.isServer = s.isServer ∧ (WFStreams s → WFStreams s') ∧ g s' st = .error e) := by
  unfold State.withStream at h
  rcases open_cases s sid hl with ⟨s', ho, h1, h2, _, h4⟩ | ⟨ho, h1, h2⟩ | ⟨ho, h1, h2⟩
  · rw [ho] at h
    simp only at h
    split at h
    · cases h
    · rename_i st hst
      exact Or.inr (Or.inr ⟨s', st, ho, hst, h1, h2, h4, h⟩)
  · rw [ho] at h; injection h with h; exact Or.inl ⟨h.symm, h1, h2⟩
  · rw [ho] at h; injection h with h; exact Or.inr (Or.inl ⟨h.symm, h1, h2⟩)

theorem view_of_open {s s' : State} {sid : Nat} {st : Stream}
    (ho : s.openIfNecessary sid = .ok s') (hs : s'.lookup sid = some st) : view s sid = some st := by
  unfold view; rw [ho]; exact hs

theorem mem_errorFor_specific {v : Violation} {e : ErrorCode} (h : e ∈ specificFor v) : e ∈ errorFor v := by
  simp [errorFor, h]

theorem appFrame_err {s : State} {f : Frame} {e : ErrorCode}
    (h : s.appFrame f = .error e) (hl : Live s) (hw : WFStreams s) :
    ∃ v, commits s .application f v ∧ e ∈ errorFor v := by
  have limitCase : ∀ sid, frameStream f = some sid → localInitiated s sid = false →
      sidIndex sid ≥ advertisedStreams s sid → commits s .application f .streamLimit :=
    fun sid h1 h2 h3 => ⟨rfl, sid, h1, h2, h3⟩
  have stateCase : ∀ sid, frameStream f = some sid → localInitiated s sid = true →
      sidIndex sid ≥ s.next (sidServer sid) (sidUni sid) → commits s .application f .localStreamNotCreated :=
    fun sid h1 h2 h3 => ⟨rfl, sid, h1, h2, h3⟩
  cases f <;> simp only [State.appFrame] at h <;> try (cases h; done)
  case stream sid off d fin =>
    rcases withStream_err h hl with ⟨he, h1, h2⟩ | ⟨he, h1, h2⟩ | ⟨s', st, ho, hs, hc, _, _, hg⟩
    · subst he; exact ⟨_, limitCase sid rfl h1 h2, by decide⟩
    · subst he; exact ⟨_, stateCase sid rfl h1 h2, by decide⟩
    · have hv := view_of_open ho hs
      split at hg
      · rename_i e' hd
        injection hg with hg; subst hg
        obtain ⟨_, hc'⟩ := onData_err_cases hd
        rw [hc] at hc'
        rcases hc' with ⟨he, hx⟩ | ⟨he, hx⟩ | ⟨he, hx⟩ | ⟨he, f0, hf, _, hx⟩ | ⟨he, hf, hfin, hx⟩ | ⟨he, f0, hf, hx⟩
        · subst he
          exact ⟨.streamOffsetOverflow, ⟨rfl, sid, off, d, fin, rfl, by rw [two62]; exact hx⟩, by decide⟩
        · subst he
          exact ⟨.streamDataLimit, ⟨rfl, sid, st, hv, Or.inl ⟨off, d, fin, rfl, hx⟩⟩, by decide⟩
        · subst he
          exact ⟨.connDataLimit, ⟨rfl, sid, st, hv, Or.inl ⟨off, d, fin, rfl, hx⟩⟩, by decide⟩
        · subst he
          rename_i hfin
          subst hfin
          exact ⟨.finalSizeChanged, ⟨rfl, sid, st, f0, hv, hf, Or.inl ⟨off, d, rfl, hx⟩⟩, by decide⟩
        · subst he; subst hfin
          exact ⟨.finalSizeBelowReceived, ⟨rfl, sid, st, hv, hf, Or.inl ⟨off, d, rfl, hx⟩⟩, by decide⟩
        · subst he
          exact ⟨.dataBeyondFinalSize, ⟨rfl, sid, st, f0, hv, hf, off, d, fin, rfl, hx⟩, by decide⟩
      · cases hg
  case resetStream sid fs =>
    rcases withStream_err h hl with ⟨he, h1, h2⟩ | ⟨he, h1, h2⟩ | ⟨s', st, ho, hs, hc, _, _, hg⟩
    · subst he; exact ⟨_, limitCase sid rfl h1 h2, by decide⟩
    · subst he; exact ⟨_, stateCase sid rfl h1 h2, by decide⟩
    · have hv := view_of_open ho hs
      split at hg
      · rename_i e' hd
        injection hg with hg; subst hg
        have hc' := onReset_err_cases hd
        rw [hc] at hc'
        rcases hc' with ⟨he, f0, hf, hx⟩ | ⟨he, hx⟩ | ⟨he, hx⟩
        · subst he
          exact ⟨.finalSizeChanged, ⟨rfl, sid, st, f0, hv, hf, Or.inr ⟨fs, rfl, hx⟩⟩, by decide⟩
        · subst he
          exact ⟨.streamDataLimit, ⟨rfl, sid, st, hv, Or.inr ⟨fs, rfl, hx⟩⟩, by decide⟩
        · subst he
          exact ⟨.connDataLimit, ⟨rfl, sid, st, hv, Or.inr ⟨fs, rfl, hx⟩⟩, by decide⟩
      · cases hg
  case stopSending sid =>
    rcases withStream_err h hl with ⟨he, h1, h2⟩ | ⟨he, h1, h2⟩ | ⟨s', st, _, _, _, _, _, hg⟩
    · subst he; exact ⟨_, limitCase sid rfl h1 h2, by decide⟩
    · subst he; exact ⟨_, stateCase sid rfl h1 h2, by decide⟩
    · cases hg
  case streamDataBlocked sid v =>
    rcases withStream_err h hl with ⟨he, h1, h2⟩ | ⟨he, h1, h2⟩ | ⟨s', st, _, _, _, _, _, hg⟩
    · subst he; exact ⟨_, limitCase sid rfl h1 h2, by decide⟩
    · subst he; exact ⟨_, stateCase sid rfl h1 h2, by decide⟩
    · cases hg
  case maxStreamData sid v =>
    rcases withStream_err h hl with ⟨he, h1, h2⟩ | ⟨he, h1, h2⟩ | ⟨s', st, _, hs, _, hsv, hwf, hg⟩
    · subst he; exact ⟨_, limitCase sid rfl h1 h2, by decide⟩
    · subst he; exact ⟨_, stateCase sid rfl h1 h2, by decide⟩
    · split at hg
      · rename_i hns
        injection hg with hg; subst hg
        have := hwf hw sid st hs
        rw [hsv] at this
        have hsend : st.hasSend = false := by simpa using hns
        rw [hsend] at this
        have hu : sidUni sid = true ∧ ¬ (sidServer sid = s.isServer) := by
          have h' : (sidUni sid && !decide (sidServer sid = s.isServer)) = true := by
            cases hb : (sidUni sid && !decide (sidServer sid = s.isServer))
            · rw [hb] at this; cases this
            · rfl
          simp only [Bool.and_eq_true, Bool.not_eq_true', decide_eq_false_iff_not] at h'
          exact h'
        exact ⟨.frameForReceiveOnlyStream,
          ⟨rfl, sid, rfl, by simp [localInitiated, hu.2], hu.1, Or.inl ⟨v, rfl⟩⟩, by decide⟩
      · cases hg
  case handshakeDone =>
    split at h
    · rename_i hsrv; injection h with h; subst h
      exact ⟨.serverOnlyFrameFromClient, ⟨rfl, hsrv, Or.inl rfl⟩, by decide⟩
    · cases h
  case newToken =>
    split at h
    · rename_i hsrv; injection h with h; subst h
      exact ⟨.serverOnlyFrameFromClient, ⟨rfl, hsrv, Or.inr rfl⟩, by decide⟩
    · cases h
  case retireConnectionId seq dseq =>
    split at h
    · rename_i hbig; injection h with h; subst h
      exact ⟨.retireUnissuedConnectionId, ⟨rfl, seq, dseq, rfl, by have := hl.2; omega⟩, by decide⟩
    · split at h
      · rename_i hge; injection h with h; subst h
        exact ⟨.retireUnissuedConnectionId, ⟨rfl, seq, dseq, rfl, hge⟩, by decide⟩
      · split at h
        · rename_i heq; injection h with h; subst h; subst heq
          exact ⟨.retireCurrentConnectionId, ⟨rfl, seq, rfl⟩, by decide⟩
        · cases h

/-- **soundness of rejections**: whenever the model closes the connection for a frame, the frame commits a
    violation for which the RFC permits exactly that code -/
theorem onFrame_err {s : State} {sp : Space} {f : Frame} {e : ErrorCode}
    (h : s.onFrame sp f = .error e) (hl : Live s) (hw : WFStreams s) :
    ∃ v, commits s sp f v ∧ e ∈ errorFor v := by
  unfold State.onFrame at h
  split at h
  · rename_i e' hd
    injection h with h; subst h
    obtain ⟨he, v, hv⟩ := decodeCheck_err hd s sp
    subst he
    exact ⟨v, hv, mem_errorFor_generic v⟩
  · split at h
    · -- no RFC 9000 type: only `unknown`, which the decoder already rejected
      rename_i hd ht
      cases f <;> simp_all [Frame.type, State.decodeCheck]
    · rename_i t ht
      split at h
      · rename_i hft
        injection h with h; subst h
        refine ⟨.frameNotPermittedInPacket, ⟨t, ht, ?_⟩, by decide⟩
        rw [← frameTable_eq_rfc]; simpa using hft
      · split at h
        · exact appFrame_err h hl hw
        · cases h


/-! ### every (covered) violation is rejected -/

def Rejects (s : State) (sp : Space) (f : Frame) : Prop := ∃ c, s.onFrame sp f = .error c

/-- the streams a peer has opened never exceed the advertised limit -/
def NextLe (s : State) : Prop :=
  s.next (!s.isServer) true ≤ s.remoteUni.latest ∧ s.next (!s.isServer) false ≤ s.remoteBidi.latest

theorem onFrame_app_of_stream {s : State} {f : Frame} {sid : Nat} (h : frameStream f = some sid) :
    s.onFrame .application f = s.appFrame f := by
  cases f <;> simp [frameStream] at h <;> rfl

theorem rejects_decode {s : State} {sp : Space} {f : Frame} {e : ErrorCode} (h : State.decodeCheck f = .error e) :
    Rejects s sp f := by
  refine ⟨e, ?_⟩
  unfold State.onFrame; rw [h]

theorem withStream_view {s : State} {sid : Nat} {st : Stream}
    (hv : view s sid = some st) (hl : Live s) :
    ∃ s', s.openIfNecessary sid = .ok s' ∧ s'.conn = s.conn
      ∧ ∀ g : State → Stream → Except ErrorCode State, s.withStream sid g = g s' st := by
  unfold view at hv
  rcases open_cases s sid hl with ⟨s', ho, h1, _, _, _⟩ | ⟨ho, _, _⟩ | ⟨ho, _, _⟩
  · rw [ho] at hv
    simp only at hv
    refine ⟨s', ho, h1, ?_⟩
    intro g
    unfold State.withStream
    rw [ho]; simp only; rw [hv]
  · rw [ho] at hv; cases hv
  · rw [ho] at hv; cases hv

theorem open_limit {s : State} {sid : Nat} (hl : Live s) (hn : NextLe s) (hloc : localInitiated s sid = false)
    (hi : sidIndex sid ≥ advertisedStreams s sid) : s.openIfNecessary sid = .error .streamLimitError := by
  have hne : ¬ sidServer sid = s.isServer := by simpa [localInitiated] using hloc
  have hsv : sidServer sid = !s.isServer := by
    cases h1 : sidServer sid <;> cases h2 : s.isServer <;> simp_all
  unfold State.openIfNecessary
  simp only [ne_eq, hne, not_false_eq_true, if_true, hl.1, Bool.false_eq_true, if_false]
  unfold advertisedStreams at hi
  by_cases hu : sidUni sid = true
  · have h1 : sidIndex sid ≥ s.next (sidServer sid) (sidUni sid) := by
      rw [hsv, hu]; have := hn.1; simp only [hu, if_true] at hi; omega
    simp only [hu, if_true] at hi
    rw [hu] at h1
    simp [h1, hu, RemoteInitiated.onRemoteOpen, hi]
  · have hu' : sidUni sid = false := by cases h : sidUni sid <;> simp_all
    have h1 : sidIndex sid ≥ s.next (sidServer sid) (sidUni sid) := by
      rw [hsv, hu']; have := hn.2; simp only [hu', Bool.false_eq_true, if_false] at hi; omega
    simp only [hu', Bool.false_eq_true, if_false] at hi
    rw [hu'] at h1
    simp [h1, hu', RemoteInitiated.onRemoteOpen, hi]

theorem open_state {s : State} {sid : Nat} (hloc : localInitiated s sid = true)
    (hi : sidIndex sid ≥ s.next (sidServer sid) (sidUni sid)) : s.openIfNecessary sid = .error .streamStateError := by
  have he : sidServer sid = s.isServer := by simpa [localInitiated] using hloc
  unfold State.openIfNecessary
  rw [he] at hi
  simp only [he, ne_eq, not_true_eq_false, if_false]
  simp [hi]

theorem rejects_of_open_err {s : State} {f : Frame} {sid : Nat} {e : ErrorCode} (hf : frameStream f = some sid)
    (ho : s.openIfNecessary sid = .error e) : Rejects s .application f := by
  refine ⟨e, ?_⟩
  rw [onFrame_app_of_stream hf]
  cases f <;> simp [frameStream] at hf <;> subst hf <;> simp [State.appFrame, State.withStream, ho]

/-- STREAM data on a stream in the `Receiving` state is refused whenever it crosses a limit or contradicts
    the final size -/
theorem onData_rejects {r : Recv} {c : ConnFc} {off : Nat} {d : List Nat} {fin : Bool}
    (hst : r.state = .receiving) (hr : RInv r)
    (hbad : off + d.length > maxVarInt
      ∨ off + d.length > r.fc.latest
      ∨ (off + d.length) - r.fc.acquired > c.latest - c.acquired
      ∨ (∃ f, r.buf.final = some f ∧ fin = true ∧ off + d.length ≠ f)
      ∨ (∃ f, r.buf.final = some f ∧ off + d.length > f)
      ∨ (r.buf.final = none ∧ fin = true ∧ off + d.length < r.buf.maxRecv)) :
    ∃ e, r.onData c off d fin = .error e := by
  obtain ⟨r1, r2, r3, r4, r5, ⟨b1, b2, b3⟩, r7, r8⟩ := hr
  obtain ⟨hs1, hs2⟩ := r7 hst
  cases hres : r.onData c off d fin with
  | error e => exact ⟨e, rfl⟩
  | ok p =>
    exfalso
    unfold Recv.onData at hres
    rw [hst] at hres
    simp only at hres
    split at hres
    · cases hres
    · rename_i hle
      split at hres
      · cases hres
      · rename_i q hacq
        split at hres
        · cases hres
        · cases hres
        · rename_i buf hw
          -- the write succeeded: read off what that means
          have hwrite : (∀ f, r.buf.final = some f → off + d.length ≤ f ∧ (fin = true → off + d.length = f))
              ∧ (r.buf.final = none → fin = true → r.buf.maxRecv ≤ off + d.length) := by
            unfold Buf.write at hw
            simp only at hw
            split at hw
            · cases hw
            · split at hw
              · rename_i f hf
                split at hw
                · rename_i he
                  refine ⟨fun g hg => ?_, fun hn => (by rw [hn] at hf; cases hf)⟩
                  rw [hf] at hg; injection hg with hg; subst hg; exact ⟨(by omega), fun _ => he⟩
                · cases hw
              · rename_i hf
                split at hw
                · rename_i hm
                  exact ⟨fun g hg => (by rw [hf] at hg; cases hg), fun _ _ => hm⟩
                · cases hw
              · rename_i f hf
                split at hw
                · rename_i hge
                  refine ⟨fun g hg => ?_, fun hn => (by rw [hn] at hf; cases hf)⟩
                  rw [hf] at hg; injection hg with hg; subst hg; exact ⟨(by omega), fun h => (by cases h)⟩
                · cases hw
              · rename_i hf
                exact ⟨fun g hg => (by rw [hf] at hg; cases hg), fun _ h => (by cases h)⟩
          -- the acquisition succeeded
          have hacq' : r.buf.final = none → off + d.length ≤ r.fc.latest
              ∧ ¬ ((off + d.length) - r.fc.acquired > c.latest - c.acquired) := by
            intro hn
            unfold Recv.onDataAcquire at hacq
            simp only [hn, Option.isNone_none, if_true] at hacq
            unfold StreamFc.acquireUpTo ConnFc.acquire ConnFc.remaining at hacq
            by_cases h1 : off + d.length > r.fc.latest
            · simp [h1] at hacq
            · by_cases h2 : off + d.length - r.fc.acquired > 0
              · by_cases h3 : c.latest - c.acquired < off + d.length - r.fc.acquired
                · simp [h1, h2, h3] at hacq
                · exact ⟨(by omega), (by omega)⟩
              · exact ⟨(by omega), (by omega)⟩
          rcases hbad with h | h | h | ⟨f, hf, hfin, hne⟩ | ⟨f, hf, hgt⟩ | ⟨hf, hfin, hlt⟩
          · omega
          · cases hfn : r.buf.final with
            | none => have := (hacq' hfn).1; omega
            | some f => have := (hwrite.1 f hfn).1; have := b3 f hfn; omega
          · cases hfn : r.buf.final with
            | none => have := (hacq' hfn).2; omega
            | some f => have := (hwrite.1 f hfn).1; have := b3 f hfn; omega
          · exact hne ((hwrite.1 f hf).2 hfin)
          · have := (hwrite.1 f hf).1; omega
          · have := hwrite.2 hf hfin; omega

theorem onReset_rejects {r : Recv} {c : ConnFc} {fs : Nat}
    (hst : r.state = .receiving) (hr : RInv r)
    (hbad : fs > r.fc.latest ∨ fs - r.fc.acquired > c.latest - c.acquired
      ∨ (∃ f, r.buf.final = some f ∧ fs ≠ f)) :
    ∃ e, r.onReset c fs = .error e := by
  obtain ⟨r1, r2, r3, r4, r5, ⟨b1, b2, b3⟩, r7, r8⟩ := hr
  obtain ⟨hs1, hs2⟩ := r7 hst
  unfold Recv.onReset
  rw [hst]
  simp only
  cases hfn : r.buf.final with
  | some total =>
    simp only
    have := b3 total hfn
    by_cases hne : fs ≠ total
    · exact ⟨.finalSizeError, by simp [hne]⟩
    · exfalso
      have : fs = total := by omega
      rcases hbad with h | h | ⟨f, hf, hne'⟩
      · omega
      · omega
      · rw [hfn] at hf; injection hf with hf; omega
  | none =>
    simp only
    cases ha : r.fc.acquireUpTo c fs with
    | error e => exact ⟨e, rfl⟩
    | ok p =>
      exfalso
      unfold StreamFc.acquireUpTo ConnFc.acquire ConnFc.remaining at ha
      rcases hbad with h | h | ⟨f, hf, _⟩
      · simp [h] at ha
      · by_cases h1 : fs > r.fc.latest
        · simp [h1] at ha
        · have h2 : fs - r.fc.acquired > 0 := by omega
          simp [h1, h2, h] at ha
      · rw [hfn] at hf; cases hf


theorem rejects_stream_data {s : State} {sid off : Nat} {d : List Nat} {fin : Bool} {st : Stream}
    (hl : Live s) (hv : view s sid = some st) (hst : st.recv.state = .receiving) (hr : RInv st.recv)
    (hbad : off + d.length > maxVarInt
      ∨ off + d.length > st.recv.fc.latest
      ∨ (off + d.length) - st.recv.fc.acquired > s.conn.latest - s.conn.acquired
      ∨ (∃ f, st.recv.buf.final = some f ∧ fin = true ∧ off + d.length ≠ f)
      ∨ (∃ f, st.recv.buf.final = some f ∧ off + d.length > f)
      ∨ (st.recv.buf.final = none ∧ fin = true ∧ off + d.length < st.recv.buf.maxRecv)) :
    Rejects s .application (.stream sid off d fin) := by
  obtain ⟨s', _, hc, hws⟩ := withStream_view hv hl
  obtain ⟨e, he⟩ := onData_rejects (c := s'.conn) (off := off) (d := d) (fin := fin) hst hr (by rw [hc]; exact hbad)
  refine ⟨e, ?_⟩
  rw [onFrame_app_of_stream (sid := sid) rfl]
  simp only [State.appFrame]
  rw [hws]; (try simp only); rw [he]

theorem rejects_reset {s : State} {sid fs : Nat} {st : Stream}
    (hl : Live s) (hv : view s sid = some st) (hst : st.recv.state = .receiving) (hr : RInv st.recv)
    (hbad : fs > st.recv.fc.latest ∨ fs - st.recv.fc.acquired > s.conn.latest - s.conn.acquired
      ∨ (∃ f, st.recv.buf.final = some f ∧ fs ≠ f)) :
    Rejects s .application (.resetStream sid fs) := by
  obtain ⟨s', _, hc, hws⟩ := withStream_view hv hl
  obtain ⟨e, he⟩ := onReset_rejects (c := s'.conn) (fs := fs) hst hr (by rw [hc]; exact hbad)
  refine ⟨e, ?_⟩
  rw [onFrame_app_of_stream (sid := sid) rfl]
  simp only [State.appFrame]
  rw [hws]; (try simp only); rw [he]

/-- the shapes of each violation class that the code (hence the model) does reject; the excluded shapes are
    the `_counterexample` theorems of `Props/C04RecvFlow.lean` -/
def Covered (s : State) (f : Frame) : Violation → Prop
  | .streamDataLimit | .connDataLimit | .finalSizeChanged | .dataBeyondFinalSize | .streamOffsetOverflow =>
    ∀ sid, frameStream f = some sid → ∃ st, view s sid = some st ∧ st.recv.state = .receiving ∧ RInv st.recv
  | .finalSizeBelowReceived =>
    (∃ sid o d, f = .stream sid o d true) ∧
    ∀ sid, frameStream f = some sid → ∃ st, view s sid = some st ∧ st.recv.state = .receiving ∧ RInv st.recv
  | .frameForSendOnlyStream =>
    ∀ sid, frameStream f = some sid → sidIndex sid ≥ s.next (sidServer sid) (sidUni sid)
  | .frameForReceiveOnlyStream => ∃ sid v, f = .maxStreamData sid v ∧ (view s sid).isSome = true
  | .connectionIdLimit => False
  | _ => True

theorem covered_rejected {s : State} {sp : Space} {f : Frame} {v : Violation}
    (hl : Live s) (hw : WFStreams s) (hn : NextLe s) (hv : commits s sp f v) (hc : Covered s f v) :
    Rejects s sp f := by
  have app_simple : ∀ {g : Frame} {e : ErrorCode}, State.decodeCheck g = .ok () → (∃ t, g.type = some t ∧ FrameTable .application t = true) →
      s.appFrame g = .error e → Rejects s .application g := by
    intro g e hd ⟨t, ht, hft⟩ ha
    refine ⟨e, ?_⟩
    unfold State.onFrame
    rw [hd]; simp only; rw [ht]; simp only [hft]; exact ha
  cases v with
  | frameNotPermittedInPacket =>
    obtain ⟨t, ht, hp⟩ := hv
    cases hd : State.decodeCheck f with
    | error e => exact rejects_decode hd
    | ok u =>
      refine ⟨.protocolViolation, ?_⟩
      unfold State.onFrame
      rw [hd]; simp only; rw [ht]; simp only
      rw [frameTable_eq_rfc, hp]; rfl
  | unknownFrameType =>
    obtain ⟨tag, rfl⟩ := hv
    exact rejects_decode (e := .protocolViolation) rfl
  | maxStreamsTooLarge =>
    obtain ⟨b, x, rfl, hx⟩ := hv
    rw [two60] at hx
    exact rejects_decode (e := .protocolViolation) (by simp [State.decodeCheck]; omega)
  | streamsBlockedTooLarge =>
    obtain ⟨b, x, rfl, hx⟩ := hv
    rw [two60] at hx
    exact rejects_decode (e := .protocolViolation) (by simp [State.decodeCheck]; omega)
  | newConnectionIdLength =>
    obtain ⟨seq, rpt, len, rfl, hx⟩ := hv
    refine rejects_decode (e := .protocolViolation) ?_
    simp only [State.decodeCheck]
    split
    · rfl
    · split
      · rfl
      · omega
  | newConnectionIdRetirePriorTo =>
    obtain ⟨seq, rpt, len, rfl, hx⟩ := hv
    refine rejects_decode (e := .protocolViolation) ?_
    simp only [State.decodeCheck]
    split
    · rfl
    · omega
  | serverOnlyFrameFromClient =>
    obtain ⟨rfl, hsrv, hf | hf⟩ := hv <;> subst hf
    · exact app_simple (e := .protocolViolation) rfl ⟨_, rfl, by decide⟩ (by simp [State.appFrame, hsrv])
    · exact app_simple (e := .protocolViolation) rfl ⟨_, rfl, by decide⟩ (by simp [State.appFrame, hsrv])
  | retireUnissuedConnectionId =>
    obtain ⟨rfl, seq, d, rfl, hx⟩ := hv
    refine app_simple (e := .protocolViolation) rfl ⟨_, rfl, by decide⟩ ?_
    simp only [State.appFrame]
    split
    · rfl
    · simp
  | retireCurrentConnectionId =>
    obtain ⟨rfl, seq, rfl⟩ := hv
    refine app_simple (e := .protocolViolation) rfl ⟨_, rfl, by decide⟩ ?_
    simp only [State.appFrame]
    split
    · rfl
    · split
      · rfl
      · simp
  | streamLimit =>
    obtain ⟨rfl, sid, hf, hloc, hi⟩ := hv
    exact rejects_of_open_err hf (open_limit hl hn hloc hi)
  | localStreamNotCreated =>
    obtain ⟨rfl, sid, hf, hloc, hi⟩ := hv
    exact rejects_of_open_err hf (open_state hloc hi)
  | frameForSendOnlyStream =>
    obtain ⟨rfl, sid, hf, hloc, _, _⟩ := hv
    exact rejects_of_open_err hf (open_state hloc (hc sid hf))
  | frameForReceiveOnlyStream =>
    obtain ⟨rfl, sid, hf, hloc, hu, _⟩ := hv
    obtain ⟨sid', x, rfl, hsome⟩ := hc
    simp only [frameStream] at hf
    injection hf with hf; subst hf
    cases hvw : view s sid' with
    | none => rw [hvw] at hsome; cases hsome
    | some st =>
      obtain ⟨s', ho, _, hws⟩ := withStream_view hvw hl
      refine ⟨.streamStateError, ?_⟩
      rw [onFrame_app_of_stream (sid := sid') rfl]
      simp only [State.appFrame]
      rw [hws]
      -- the viewed stream has no send half
      rcases open_cases s sid' hl with ⟨s'', ho', _, hsv, _, hwf⟩ | ⟨ho', _, _⟩ | ⟨ho', _, _⟩
      · rw [ho] at ho'; injection ho' with ho'; subst ho'
        have hlk : s'.lookup sid' = some st := by
          unfold view at hvw; rw [ho] at hvw; exact hvw
        have := hwf hw sid' st hlk
        rw [hsv] at this
        have hne : ¬ sidServer sid' = s.isServer := by simpa [localInitiated] using hloc
        simp [this, hu, hne]
      · rw [ho] at ho'; cases ho'
      · rw [ho] at ho'; cases ho'
  | streamOffsetOverflow =>
    obtain ⟨rfl, sid, o, d, fin, rfl, hx⟩ := hv
    obtain ⟨st, hvw, hst, hr⟩ := hc sid rfl
    rw [two62] at hx
    exact rejects_stream_data hl hvw hst hr (Or.inl hx)
  | streamDataLimit =>
    obtain ⟨rfl, sid, st0, hv0, hx⟩ := hv
    rcases hx with ⟨o, d, fin, rfl, hx⟩ | ⟨fs, rfl, hx⟩
    · obtain ⟨st, hvw, hst, hr⟩ := hc sid rfl
      rw [hv0] at hvw; injection hvw with hvw; subst hvw
      exact rejects_stream_data hl hv0 hst hr (Or.inr (Or.inl hx))
    · obtain ⟨st, hvw, hst, hr⟩ := hc sid rfl
      rw [hv0] at hvw; injection hvw with hvw; subst hvw
      exact rejects_reset hl hv0 hst hr (Or.inl hx)
  | connDataLimit =>
    obtain ⟨rfl, sid, st0, hv0, hx⟩ := hv
    rcases hx with ⟨o, d, fin, rfl, hx⟩ | ⟨fs, rfl, hx⟩
    · obtain ⟨st, hvw, hst, hr⟩ := hc sid rfl
      rw [hv0] at hvw; injection hvw with hvw; subst hvw
      exact rejects_stream_data hl hv0 hst hr (Or.inr (Or.inr (Or.inl hx)))
    · obtain ⟨st, hvw, hst, hr⟩ := hc sid rfl
      rw [hv0] at hvw; injection hvw with hvw; subst hvw
      exact rejects_reset hl hv0 hst hr (Or.inr (Or.inl hx))
  | finalSizeChanged =>
    obtain ⟨rfl, sid, st0, known, hv0, hk, hx⟩ := hv
    rcases hx with ⟨o, d, rfl, hx⟩ | ⟨fs, rfl, hx⟩
    · obtain ⟨st, hvw, hst, hr⟩ := hc sid rfl
      rw [hv0] at hvw; injection hvw with hvw; subst hvw
      exact rejects_stream_data hl hv0 hst hr (Or.inr (Or.inr (Or.inr (Or.inl ⟨known, hk, rfl, hx⟩))))
    · obtain ⟨st, hvw, hst, hr⟩ := hc sid rfl
      rw [hv0] at hvw; injection hvw with hvw; subst hvw
      exact rejects_reset hl hv0 hst hr (Or.inr (Or.inr ⟨known, hk, hx⟩))
  | dataBeyondFinalSize =>
    obtain ⟨rfl, sid, st0, known, hv0, hk, o, d, fin, rfl, hx⟩ := hv
    obtain ⟨st, hvw, hst, hr⟩ := hc sid rfl
    rw [hv0] at hvw; injection hvw with hvw; subst hvw
    exact rejects_stream_data hl hv0 hst hr (Or.inr (Or.inr (Or.inr (Or.inr (Or.inl ⟨known, hk, hx⟩)))))
  | finalSizeBelowReceived =>
    obtain ⟨rfl, sid, st0, hv0, hk, hx⟩ := hv
    obtain ⟨⟨sid', o', d', hf'⟩, hc⟩ := hc
    rcases hx with ⟨o, d, rfl, hx⟩ | ⟨fs, rfl, hx⟩
    · obtain ⟨st, hvw, hst, hr⟩ := hc sid rfl
      rw [hv0] at hvw; injection hvw with hvw; subst hvw
      exact rejects_stream_data hl hv0 hst hr (Or.inr (Or.inr (Or.inr (Or.inr (Or.inr ⟨hk, rfl, hx⟩)))))
    · cases hf'
  | connectionIdLimit => exact hc.elim


/-! ### a stream that is referenced for the first time starts with the configured window -/

theorem mkSid_inj {sv u : Bool} {i j : Nat} (h : mkSid sv u i = mkSid sv u j) : i = j := by
  unfold mkSid at h; omega

@[simp] theorem newStream_setStream (s : State) (a : Nat) (st : Stream) (sid : Nat) :
    (s.setStream a st).newStream sid = s.newStream sid := rfl

theorem lookup_insertRange_other (s : State) (sv u : Bool) (start n sid : Nat)
    (h : ∀ j, start ≤ j → j < start + n → mkSid sv u j ≠ sid) :
    (s.insertRange sv u start n).lookup sid = s.lookup sid := by
  induction n generalizing s start with
  | zero => rfl
  | succ k ih =>
    simp only [State.insertRange]
    rw [ih _ (start + 1) (fun j h1 h2 => h j (by omega) (by omega))]
    rw [lookup_setStream]
    have := h start (Nat.le_refl _) (by omega)
    have hne : ¬ sid = mkSid sv u start := fun h' => this h'.symm
    simp [hne]

theorem newStream_insertRange (s : State) (sv u : Bool) (start n sid : Nat) :
    (s.insertRange sv u start n).newStream sid = s.newStream sid := by
  have hp := insertRange_props s sv u start n
  simp only at hp
  obtain ⟨a1, _, _, _, _, _, _, a8, a9, a10⟩ := hp
  simp [State.newStream, State.window, a1, a8, a9, a10]

theorem lookup_insertRange_in (s : State) (sv u : Bool) (start n i : Nat) (h1 : start ≤ i) (h2 : i < start + n) :
    (s.insertRange sv u start n).lookup (mkSid sv u i) = some (s.newStream (mkSid sv u i)) := by
  induction n generalizing s start with
  | zero => omega
  | succ k ih =>
    simp only [State.insertRange]
    by_cases hi : i = start
    · subst hi
      rw [lookup_insertRange_other _ sv u (i + 1) k (mkSid sv u i)
        (fun j hj1 _ hj3 => by have := mkSid_inj hj3; omega)]
      rw [lookup_setStream]; simp
    · rw [ih _ (start + 1) (by omega) (by omega)]
      simp

theorem mkSid_of_sid (sid : Nat) : mkSid (sidServer sid) (sidUni sid) (sidIndex sid) = sid := by
  unfold mkSid sidServer sidUni sidIndex
  by_cases h1 : sid % 2 = 1 <;> by_cases h2 : sid / 2 % 2 = 1 <;> simp [h1, h2] <;> omega

/-- a peer-initiated stream referenced for the first time (within the advertised stream limit) is created
    with the initial limits: the frame meets `newStream sid` -/
theorem view_fresh {s : State} {sid : Nat} (hl : Live s) (hloc : localInitiated s sid = false)
    (hnew : sidIndex sid ≥ s.next (sidServer sid) (sidUni sid)) (hlim : sidIndex sid < advertisedStreams s sid) :
    view s sid = some (s.newStream sid) := by
  have hne : ¬ sidServer sid = s.isServer := by simpa [localInitiated] using hloc
  unfold view State.openIfNecessary
  simp only [ne_eq, hne, not_false_eq_true, if_true, hnew, hl.1, Bool.false_eq_true, if_false]
  unfold advertisedStreams at hlim
  have key : ∀ (s' : State), s' = s.insertRange (sidServer sid) (sidUni sid) (s.next (sidServer sid) (sidUni sid))
      (sidIndex sid + 1 - s.next (sidServer sid) (sidUni sid)) → s'.lookup sid = some (s.newStream sid) := by
    intro s' hs'
    have := lookup_insertRange_in s (sidServer sid) (sidUni sid) (s.next (sidServer sid) (sidUni sid))
      (sidIndex sid + 1 - s.next (sidServer sid) (sidUni sid)) (sidIndex sid) hnew (by omega)
    rw [mkSid_of_sid] at this
    rw [hs']; exact this
  by_cases hu : sidUni sid = true
  · simp only [hu, if_true] at hlim
    have hno : ¬ sidIndex sid ≥ s.remoteUni.latest := by omega
    simp only [hu, if_true, RemoteInitiated.onRemoteOpen, hno, if_false]
    have := key _ rfl
    rw [hu] at this
    simpa [State.lookup, State.setNext] using this
  · have hu' : sidUni sid = false := by cases h : sidUni sid <;> simp_all
    simp only [hu', Bool.false_eq_true, if_false] at hlim
    have hno : ¬ sidIndex sid ≥ s.remoteBidi.latest := by omega
    simp only [hu', Bool.false_eq_true, if_false, RemoteInitiated.onRemoteOpen, hno]
    have := key _ rfl
    rw [hu'] at this
    simpa [State.lookup, State.setNext] using this

theorem newStream_remote_props (s : State) (sid : Nat) (hloc : localInitiated s sid = false)
    (hw : s.window sid ≤ maxVarInt) :
    (s.newStream sid).recv.state = .receiving ∧ (s.newStream sid).recv.fc.latest = s.window sid
    ∧ RInv (s.newStream sid).recv := by
  have hne : ¬ sidServer sid = s.isServer := by simpa [localInitiated] using hloc
  have : (s.newStream sid).recv = Recv.init false (s.window sid) := by
    simp [State.newStream, hne]
  rw [this]
  exact ⟨rfl, rfl, init_inv _ hw false⟩


/-! ### concrete states used by the counterexamples / non-vacuity examples of `Props/C04RecvFlow.lean` -/

/-- a server with client-initiated bidirectional stream 0 on which 4 bytes arrived -/
def exState : State :=
  match (State.init true 1000 100 100 100 10 10).onFrame .application (.stream 0 0 [1, 2, 3, 4] false) with
  | .ok s => s
  | .error _ => State.init true 1000 100 100 100 10 10

/-- `none`: the frame was processed; `some c`: the connection is closed with `c` -/
def outcome (r : Except ErrorCode State) : Option ErrorCode := match r with | .ok _ => none | .error e => some e

/-- a server that opened its unidirectional stream 3 -/
def exStateUni : State :=
  let s := State.init true 1000 100 100 100 10 10
  (s.setStream 3 (s.newStream 3)).setNext true true 1

end Quic.Proofs.Lemmas.RecvViolations
