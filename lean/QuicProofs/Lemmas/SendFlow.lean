import QuicModel.Stream.SendFlow
/-
  Helper lemmas for the C03 theorems about the send-side flow-control model.
-/
namespace Quic.Proofs.SendFlow
open Quic.Stream.SendFlow

/-! ### induction from the right, `run` over appended histories -/

theorem snoc_induction {α : Type} {P : List α → Prop} (nil : P [])
    (snoc : ∀ l a, P l → P (l ++ [a])) (l : List α) : P l := by
  have : ∀ r : List α, P r.reverse := by
    intro r
    induction r with
    | nil => simpa using nil
    | cons a r ih => simpa [List.reverse_cons] using snoc _ a ih
  simpa using this l.reverse

theorem run_append (clamp : Bool) (s : Sys) (a b : List Op) :
    run clamp s (a ++ b) =
      ((run clamp (run clamp s a).1 b).1, (run clamp s a).2 ++ (run clamp (run clamp s a).1 b).2) := by
  induction a generalizing s with
  | nil => simp [run]
  | cons o a ih => simp [run, ih]

theorem run_snoc_state (clamp : Bool) (s : Sys) (a : List Op) (op : Op) :
    (run clamp s (a ++ [op])).1 = (step clamp (run clamp s a).1 op).1 := by
  simp [run_append, run]

/-! ### finite map -/

theorem mem_put {m : Streams} {k : Nat} {v : Stream} {p : Nat × Stream} (h : p ∈ put m k v) :
    p ∈ m ∨ p = (k, v) := by
  induction m with
  | nil => simp [put] at h; exact Or.inr h
  | cons q t ih =>
    obtain ⟨k', v'⟩ := q
    simp only [put] at h
    split at h
    · rcases List.mem_cons.mp h with h | h
      · exact Or.inr h
      · exact Or.inl (List.mem_cons_of_mem _ h)
    · rcases List.mem_cons.mp h with h | h
      · exact Or.inl (h ▸ List.mem_cons_self)
      · rcases ih h with h | h
        · exact Or.inl (List.mem_cons_of_mem _ h)
        · exact Or.inr h

theorem find?_mem {m : Streams} {k : Nat} {v : Stream} (h : find? m k = some v) : (k, v) ∈ m := by
  induction m with
  | nil => simp [find?] at h
  | cons q t ih =>
    obtain ⟨k', v'⟩ := q
    simp only [find?] at h
    split at h
    · rename_i hk; cases h; subst hk; exact List.mem_cons_self
    · exact List.mem_cons_of_mem _ (ih h)

/-- weight of the entry for `k` (0 when absent) -/
def weightAt (g : Stream → Nat) (m : Streams) (k : Nat) : Nat :=
  match find? m k with
  | some v => g v
  | none => 0

/-- replacing / adding the entry for `k` changes a sum over the entries by exactly the difference -/
theorem sum_put (g : Stream → Nat) (m : Streams) (k : Nat) (v : Stream) :
    ((put m k v).map (fun p => g p.2)).sum + weightAt g m k = (m.map (fun p => g p.2)).sum + g v := by
  induction m with
  | nil => simp [put, weightAt, find?]
  | cons q t ih =>
    obtain ⟨k', v'⟩ := q
    simp only [put, weightAt, find?]
    by_cases hk : k' = k
    · simp [hk]; omega
    · simp only [hk, if_false, List.map_cons, List.sum_cons]
      simp only [weightAt] at ih
      omega

theorem sum_le_sum {m : Streams} {g1 g2 : Stream → Nat} (h : ∀ p ∈ m, g1 p.2 ≤ g2 p.2) :
    (m.map (fun p => g1 p.2)).sum ≤ (m.map (fun p => g2 p.2)).sum := by
  induction m with
  | nil => simp
  | cons q t ih =>
    simp only [List.map_cons, List.sum_cons]
    have := h q (List.mem_cons_self)
    have := ih (fun p hp => h p (List.mem_cons_of_mem _ hp))
    omega

/-! ### the pure flow-control functions -/

theorem acquireWindow_spec (c : ConnFc) (d : Nat) :
    (c.acquireWindow d).2 ≤ d ∧ (c.acquireWindow d).2 ≤ c.availableWindow ∧
    (c.acquireWindow d).1.availableWindow = c.availableWindow - (c.acquireWindow d).2 ∧
    (c.acquireWindow d).1.totalAvailableWindow = c.totalAvailableWindow := by
  simp only [ConnFc.acquireWindow]
  refine ⟨?_, ?_, ?_, ?_⟩ <;> first | trivial | rfl | omega

/-- what `try_acquire_connection_window` guarantees -/
theorem tryAcquire_spec (f : StreamFc) (c : ConnFc)
    (hreq : f.acquiredConnectionFlowControllerWindow ≤ f.highestRequestedConnectionFlowControlWindow) :
    let r := tryAcquireConnectionWindow f c
    r.1.maxStreamData = f.maxStreamData ∧
    r.1.highestRequestedConnectionFlowControlWindow = f.highestRequestedConnectionFlowControlWindow ∧
    r.2.totalAvailableWindow = c.totalAvailableWindow ∧
    r.1.acquiredConnectionFlowControllerWindow + r.2.availableWindow =
      f.acquiredConnectionFlowControllerWindow + c.availableWindow ∧
    f.acquiredConnectionFlowControllerWindow ≤ r.1.acquiredConnectionFlowControllerWindow ∧
    r.1.acquiredConnectionFlowControllerWindow ≤ f.highestRequestedConnectionFlowControlWindow ∧
    (f.state = .finished → r.1.state = .finished) := by
  simp only [tryAcquireConnectionWindow]
  split
  · simp; exact hreq
  · split
    · have := acquireWindow_spec c
        (f.highestRequestedConnectionFlowControlWindow - f.acquiredConnectionFlowControllerWindow)
      refine ⟨by simp, by simp, this.2.2.2, ?_, ?_, ?_, ?_⟩
      · simp only []; omega
      · simp only []; omega
      · simp only []; omega
      · intro h; contradiction
    · simp; exact hreq

/-- what `acquire_flow_control_window(end_offset)` guarantees -/
theorem acquire_spec (clamp : Bool) (f : StreamFc) (c : ConnFc) (e : Nat)
    (hreq : f.acquiredConnectionFlowControllerWindow ≤ f.highestRequestedConnectionFlowControlWindow) :
    let r := acquireFlowControlWindow clamp f c e
    r.1.maxStreamData = f.maxStreamData ∧
    r.2.1.totalAvailableWindow = c.totalAvailableWindow ∧
    r.1.acquiredConnectionFlowControllerWindow + r.2.1.availableWindow =
      f.acquiredConnectionFlowControllerWindow + c.availableWindow ∧
    f.acquiredConnectionFlowControllerWindow ≤ r.1.acquiredConnectionFlowControllerWindow ∧
    r.1.acquiredConnectionFlowControllerWindow ≤ r.1.highestRequestedConnectionFlowControlWindow ∧
    (clamp = true → f.highestRequestedConnectionFlowControlWindow ≤ f.maxStreamData →
      r.1.highestRequestedConnectionFlowControlWindow ≤ f.maxStreamData) ∧
    r.2.2 = min r.1.maxStreamData r.1.acquiredConnectionFlowControllerWindow := by
  simp only [acquireFlowControlWindow]
  split
  · simp [StreamFc.availableWindow]; exact hreq
  · -- abbreviations for the intermediate controllers
    generalize hf1 : (if e > f.maxStreamData then
        ({ f with state := FcState.blockedOnStreamWindow, streamDataBlocked := some f.maxStreamData } : StreamFc)
      else { f with state := FcState.ready }) = f1
    have h1 : f1.maxStreamData = f.maxStreamData ∧
        f1.acquiredConnectionFlowControllerWindow = f.acquiredConnectionFlowControllerWindow ∧
        f1.highestRequestedConnectionFlowControlWindow = f.highestRequestedConnectionFlowControlWindow := by
      subst hf1; split <;> simp
    generalize hf2 : ({ f1 with highestRequestedConnectionFlowControlWindow := max (requestedOffset clamp e f.maxStreamData) f1.highestRequestedConnectionFlowControlWindow } : StreamFc) = f2
    have h2 : f2.maxStreamData = f.maxStreamData ∧
        f2.acquiredConnectionFlowControllerWindow = f.acquiredConnectionFlowControllerWindow ∧
        f2.highestRequestedConnectionFlowControlWindow =
          max (requestedOffset clamp e f.maxStreamData) f.highestRequestedConnectionFlowControlWindow := by
      subst hf2; simp [h1]
    have ht := tryAcquire_spec f2 c (by rw [h2.2.1, h2.2.2]; omega)
    simp only [] at ht
    generalize tryAcquireConnectionWindow f2 c = r at ht
    obtain ⟨t1, t2, t3, t4, t5, t6, _⟩ := ht
    have hclampreq : clamp = true → requestedOffset clamp e f.maxStreamData ≤ f.maxStreamData := by
      intro hc; subst hc; simp [requestedOffset]; omega
    split
    · simp only [StreamFc.availableWindow]
      refine ⟨by rw [t1, h2.1], t3, by rw [t4, h2.2.1], by rw [← h2.2.1]; exact t5, by rw [t2]; exact t6, ?_, by simp⟩
      intro hc hle; rw [t2, h2.2.2]; have := hclampreq hc; omega
    · simp only [StreamFc.availableWindow]
      refine ⟨by rw [t1, h2.1], t3, by rw [t4, h2.2.1], by rw [← h2.2.1]; exact t5, by rw [t2]; exact t6, ?_, by simp⟩
      intro hc hle; rw [t2, h2.2.2]; have := hclampreq hc; omega


/-! ### the system invariant -/

theorem grantedData_snoc (w : Nat) (pre : List Op) (op : Op) : grantedData w (pre ++ [op]) =
    (match op with | .maxData v => max (grantedData w pre) v | _ => grantedData w pre) := by
  simp only [grantedData, List.foldl_append, List.foldl_cons, List.foldl_nil]
  cases op <;> rfl

theorem grantedStream_snoc (pre : List Op) (op : Op) (sid : Nat) : grantedStream (pre ++ [op]) sid =
    (match op with
     | .openStream k w => if k = sid then max (grantedStream pre sid) w else grantedStream pre sid
     | .maxStreamData k v => if k = sid then max (grantedStream pre sid) v else grantedStream pre sid
     | _ => grantedStream pre sid) := by
  simp only [grantedStream, List.foldl_append, List.foldl_cons, List.foldl_nil]
  cases op <;> rfl

theorem grantedStream_mono (pre : List Op) (op : Op) (sid : Nat) :
    grantedStream pre sid ≤ grantedStream (pre ++ [op]) sid := by
  rw [grantedStream_snoc]
  cases op <;> simp <;> split <;> omega

/-- per-stream invariant -/
structure Good (clamp : Bool) (pre : List Op) (sid : Nat) (st : Stream) : Prop where
  sentAcq : st.highestSent ≤ st.fc.acquiredConnectionFlowControllerWindow
  sentMsd : st.highestSent ≤ st.fc.maxStreamData
  acqReq : st.fc.acquiredConnectionFlowControllerWindow ≤ st.fc.highestRequestedConnectionFlowControlWindow
  reqMsd : clamp = true → st.fc.highestRequestedConnectionFlowControlWindow ≤ st.fc.maxStreamData
  msdGranted : st.fc.maxStreamData ≤ grantedStream pre sid
  reset : ∀ f, st.resetFinal = some f → f = st.fc.acquiredConnectionFlowControllerWindow

theorem Good.mono {clamp pre sid st} (op : Op) (h : Good clamp pre sid st) : Good clamp (pre ++ [op]) sid st :=
  { h with msdGranted := Nat.le_trans h.msdGranted (grantedStream_mono pre op sid) }

structure Inv (clamp : Bool) (w : Nat) (pre : List Op) (s : Sys) : Prop where
  conserve : sumAcquired s.streams + s.conn.availableWindow = s.conn.totalAvailableWindow
  total : s.conn.totalAvailableWindow = grantedData w pre
  good : ∀ p ∈ s.streams, Good clamp pre p.1 p.2

theorem inv_init (clamp : Bool) (w : Nat) : Inv clamp w [] (init w) := by
  constructor <;> simp [init, sumAcquired, grantedData]

theorem sumAcquired_put (m : Streams) (k : Nat) (v : Stream) :
    sumAcquired (put m k v) + weightAt (fun s => s.fc.acquiredConnectionFlowControllerWindow) m k =
      sumAcquired m + v.fc.acquiredConnectionFlowControllerWindow :=
  sum_put (fun s => s.fc.acquiredConnectionFlowControllerWindow) m k v

/-- replacing the entry of `k` by one that is `Good` keeps every entry `Good` -/
theorem good_put {clamp pre op} {m : Streams} {k : Nat} {v : Stream}
    (h : ∀ p ∈ m, Good clamp pre p.1 p.2) (hv : Good clamp (pre ++ [op]) k v) :
    ∀ p ∈ put m k v, Good clamp (pre ++ [op]) p.1 p.2 := by
  intro p hp
  rcases mem_put hp with hp | rfl
  · exact (h p hp).mono op
  · exact hv

theorem step_inv {clamp w pre s} (op : Op) (h : Inv clamp w pre s) : Inv clamp w (pre ++ [op]) (step clamp s op).1 := by
  cases op with
  | openStream sid iw =>
    simp only [step]
    cases hf : find? s.streams sid with
    | some st => exact ⟨h.conserve, by rw [grantedData_snoc]; exact h.total, fun p hp => (h.good p hp).mono _⟩
    | none =>
      refine ⟨?_, by rw [grantedData_snoc]; exact h.total, ?_⟩
      · have := sumAcquired_put s.streams sid { fc := { maxStreamData := iw } }
        simp only [weightAt, hf] at this
        have hc := h.conserve
        simp only [] at this ⊢
        omega
      · apply good_put h.good
        constructor <;> (try simp [grantedStream_snoc]) <;> (try omega)
  | maxData v =>
    simp only [step]
    refine ⟨?_, ?_, fun p hp => (h.good p hp).mono _⟩
    · have hc := h.conserve
      simp only [ConnFc.onMaxData]
      split
      · exact hc
      · simp only []; omega
    · have ht := h.total
      rw [grantedData_snoc]
      simp only [ConnFc.onMaxData]
      split
      · omega
      · simp only []; omega
  | maxStreamData sid v =>
    simp only [step]
    cases hf : find? s.streams sid with
    | none => exact ⟨h.conserve, by rw [grantedData_snoc]; exact h.total, fun p hp => (h.good p hp).mono _⟩
    | some st =>
      simp only []
      split
      · exact ⟨h.conserve, by rw [grantedData_snoc]; exact h.total, fun p hp => (h.good p hp).mono _⟩
      · have hg : Good clamp pre sid st := h.good (sid, st) (find?_mem hf)
        have hfc : (st.fc.setMaxStreamData v).acquiredConnectionFlowControllerWindow = st.fc.acquiredConnectionFlowControllerWindow ∧
            (st.fc.setMaxStreamData v).highestRequestedConnectionFlowControlWindow = st.fc.highestRequestedConnectionFlowControlWindow ∧
            (st.fc.setMaxStreamData v).maxStreamData = max st.fc.maxStreamData v := by
          simp only [StreamFc.setMaxStreamData]
          split
          · simp; omega
          · split <;> simp <;> omega
        refine ⟨?_, by rw [grantedData_snoc]; exact h.total, ?_⟩
        · have := sumAcquired_put s.streams sid { st with fc := st.fc.setMaxStreamData v }
          simp only [weightAt, hf, hfc.1] at this
          have hc := h.conserve
          simp only [] at this ⊢
          omega
        · apply good_put h.good
          have hm := hg.msdGranted
          constructor
          · simp only [hfc.1]; exact hg.sentAcq
          · simp only [hfc.2.2]; have := hg.sentMsd; omega
          · simp only [hfc.1, hfc.2.1]; exact hg.acqReq
          · intro hc; simp only [hfc.2.1, hfc.2.2]; have := hg.reqMsd hc; omega
          · simp only [hfc.2.2, grantedStream_snoc, if_true]; omega
          · simp only [hfc.1]; exact hg.reset
  | connWindowAvailable sid =>
    simp only [step]
    cases hf : find? s.streams sid with
    | none => exact ⟨h.conserve, by rw [grantedData_snoc]; exact h.total, fun p hp => (h.good p hp).mono _⟩
    | some st =>
      simp only []
      split
      · exact ⟨h.conserve, by rw [grantedData_snoc]; exact h.total, fun p hp => (h.good p hp).mono _⟩
      · rename_i hnr
        have hg : Good clamp pre sid st := h.good (sid, st) (find?_mem hf)
        have ht := tryAcquire_spec st.fc s.conn hg.acqReq
        simp only [] at ht
        obtain ⟨t1, t2, t3, t4, t5, t6, _⟩ := ht
        refine ⟨?_, by rw [grantedData_snoc]; simp only []; rw [t3]; exact h.total, ?_⟩
        · have := sumAcquired_put s.streams sid { st with fc := (tryAcquireConnectionWindow st.fc s.conn).1 }
          simp only [weightAt, hf] at this
          have hc := h.conserve
          simp only [] at this ⊢
          omega
        · apply good_put h.good
          have hm := hg.msdGranted
          constructor
          · simp only []; have := hg.sentAcq; omega
          · simp only [t1]; exact hg.sentMsd
          · simp only [t2]; exact t6
          · intro hc; simp only [t1, t2]; exact hg.reqMsd hc
          · simp only [t1, grantedStream_snoc]; exact hm
          · intro f hff; simp only [] at hff; rw [hff] at hnr; simp at hnr
  | transmit sid a b =>
    simp only [step]
    cases hf : find? s.streams sid with
    | none => exact ⟨h.conserve, by rw [grantedData_snoc]; exact h.total, fun p hp => (h.good p hp).mono _⟩
    | some st =>
      simp only []
      split
      · exact ⟨h.conserve, by rw [grantedData_snoc]; exact h.total, fun p hp => (h.good p hp).mono _⟩
      · rename_i hnr
        have hg : Good clamp pre sid st := h.good (sid, st) (find?_mem hf)
        have ht := acquire_spec clamp st.fc s.conn b hg.acqReq
        simp only [] at ht
        obtain ⟨t1, t2, t3, t4, t5, t6, t7⟩ := ht
        have hm := hg.msdGranted
        have hres : st.resetFinal = none := by
          cases hr : st.resetFinal with
          | none => rfl
          | some f => simp [hr] at hnr
        split
        · refine ⟨?_, by rw [grantedData_snoc]; simp only []; rw [t2]; exact h.total, ?_⟩
          · have := sumAcquired_put s.streams sid { st with fc := (acquireFlowControlWindow clamp st.fc s.conn b).1 }
            simp only [weightAt, hf] at this
            have hc := h.conserve
            simp only [] at this ⊢
            omega
          · apply good_put h.good
            constructor
            · simp only []; have := hg.sentAcq; omega
            · simp only [t1]; exact hg.sentMsd
            · exact t5
            · intro hc; simp only [t1]; exact t6 hc (hg.reqMsd hc)
            · simp only [t1, grantedStream_snoc]; exact hm
            · intro f hff; simp only [hres] at hff; cases hff
        · refine ⟨?_, by rw [grantedData_snoc]; simp only []; rw [t2]; exact h.total, ?_⟩
          · have := sumAcquired_put s.streams sid
              { st with fc := (acquireFlowControlWindow clamp st.fc s.conn b).1,
                        highestSent := max st.highestSent (min b (acquireFlowControlWindow clamp st.fc s.conn b).2.2) }
            simp only [weightAt, hf] at this
            have hc := h.conserve
            simp only [] at this ⊢
            omega
          · apply good_put h.good
            constructor
            · simp only []; have := hg.sentAcq; rw [t7]; omega
            · simp only [t1]; have := hg.sentMsd; rw [t7, t1]; omega
            · exact t5
            · intro hc; simp only [t1]; exact t6 hc (hg.reqMsd hc)
            · simp only [t1, grantedStream_snoc]; exact hm
            · intro f hff; simp only [hres] at hff; cases hff
  | reset sid =>
    simp only [step]
    cases hf : find? s.streams sid with
    | none => exact ⟨h.conserve, by rw [grantedData_snoc]; exact h.total, fun p hp => (h.good p hp).mono _⟩
    | some st =>
      simp only []
      split
      · exact ⟨h.conserve, by rw [grantedData_snoc]; exact h.total, fun p hp => (h.good p hp).mono _⟩
      · have hg : Good clamp pre sid st := h.good (sid, st) (find?_mem hf)
        refine ⟨?_, by rw [grantedData_snoc]; exact h.total, ?_⟩
        · have := sumAcquired_put s.streams sid
            { st with fc := st.fc.finish, resetFinal := some st.fc.acquiredConnectionFlowControllerWindow }
          simp only [weightAt, hf] at this
          have e : st.fc.finish.acquiredConnectionFlowControllerWindow = st.fc.acquiredConnectionFlowControllerWindow := rfl
          simp only [e] at this
          have hc := h.conserve
          simp only [] at this ⊢
          omega
        · apply good_put h.good
          have hm := hg.msdGranted
          constructor <;> simp only [StreamFc.finish]
          · exact hg.sentAcq
          · exact hg.sentMsd
          · exact hg.acqReq
          · exact hg.reqMsd
          · simp only [grantedStream_snoc]; exact hm
          · intro f hff; cases hff; rfl
  | finish sid =>
    simp only [step]
    cases hf : find? s.streams sid with
    | none => exact ⟨h.conserve, by rw [grantedData_snoc]; exact h.total, fun p hp => (h.good p hp).mono _⟩
    | some st =>
      simp only []
      split
      · exact ⟨h.conserve, by rw [grantedData_snoc]; exact h.total, fun p hp => (h.good p hp).mono _⟩
      · have hg : Good clamp pre sid st := h.good (sid, st) (find?_mem hf)
        refine ⟨?_, by rw [grantedData_snoc]; exact h.total, ?_⟩
        · have := sumAcquired_put s.streams sid { st with fc := st.fc.finish }
          simp only [weightAt, hf] at this
          have e : st.fc.finish.acquiredConnectionFlowControllerWindow = st.fc.acquiredConnectionFlowControllerWindow := rfl
          simp only [e] at this
          have hc := h.conserve
          simp only [] at this ⊢
          omega
        · apply good_put h.good
          have hm := hg.msdGranted
          constructor <;> simp only [StreamFc.finish]
          · exact hg.sentAcq
          · exact hg.sentMsd
          · exact hg.acqReq
          · exact hg.reqMsd
          · simp only [grantedStream_snoc]; exact hm
          · exact hg.reset



theorem inv_reach (clamp : Bool) (w : Nat) (pre : List Op) : Inv clamp w pre (stateAfter clamp w pre) := by
  induction pre using snoc_induction with
  | nil => exact inv_init clamp w
  | snoc l a ih =>
    simp only [stateAfter] at ih ⊢
    rw [run_snoc_state]
    exact step_inv a ih

/-- every STREAM frame the step emits is within the stream limit and the acquired connection window -/
theorem frame_out {clamp w pre s} (op : Op) (h : Inv clamp w pre s) {sid a b msd acq : Nat}
    (ho : (step clamp s op).2 = .frame sid a b msd acq) :
    a < b ∧ b ≤ msd ∧ b ≤ acq ∧ msd ≤ grantedStream pre sid := by
  cases op with
  | transmit k x y =>
    simp only [step] at ho
    cases hf : find? s.streams k with
    | none => simp [hf] at ho
    | some st =>
      simp only [hf] at ho
      split at ho
      · cases ho
      · rename_i hnr
        have hg : Good clamp pre k st := h.good (k, st) (find?_mem hf)
        have ht := acquire_spec clamp st.fc s.conn y hg.acqReq
        simp only [] at ht
        obtain ⟨t1, t2, t3, t4, t5, t6, t7⟩ := ht
        split at ho
        · cases ho
        · rename_i hw
          simp only [Out.frame.injEq] at ho
          obtain ⟨rfl, rfl, rfl, rfl, rfl⟩ := ho
          have hm := hg.msdGranted
          rw [t7] at hw ⊢
          rw [t1]
          refine ⟨by omega, by omega, by omega, hm⟩
  | openStream k iw => simp only [step] at ho; split at ho <;> cases ho
  | maxData v => simp [step] at ho
  | maxStreamData k v =>
    simp only [step] at ho
    split at ho
    · cases ho
    · split at ho <;> cases ho
  | connWindowAvailable k =>
    simp only [step] at ho
    split at ho
    · cases ho
    · split at ho <;> cases ho
  | reset k =>
    simp only [step] at ho
    split at ho
    · cases ho
    · split at ho <;> cases ho
  | finish k =>
    simp only [step] at ho
    split at ho
    · cases ho
    · split at ho <;> cases ho

/-- with the clamp (current code) the final size of every RESET_STREAM is within the stream limit -/
theorem reset_out {w pre s} (op : Op) (h : Inv true w pre s) {sid f msd : Nat}
    (ho : (step true s op).2 = .resetFrame sid f msd) :
    f ≤ msd ∧ msd ≤ grantedStream pre sid := by
  cases op with
  | reset k =>
    simp only [step] at ho
    cases hf : find? s.streams k with
    | none => simp [hf] at ho
    | some st =>
      simp only [hf] at ho
      split at ho
      · cases ho
      · simp only [Out.resetFrame.injEq] at ho
        obtain ⟨rfl, rfl, rfl⟩ := ho
        have hg : Good true pre k st := h.good (k, st) (find?_mem hf)
        have := hg.acqReq
        have := hg.reqMsd rfl
        exact ⟨by omega, hg.msdGranted⟩
  | openStream k iw => simp only [step] at ho; split at ho <;> cases ho
  | maxData v => simp [step] at ho
  | maxStreamData k v =>
    simp only [step] at ho
    split at ho
    · cases ho
    · split at ho <;> cases ho
  | connWindowAvailable k =>
    simp only [step] at ho
    split at ho
    · cases ho
    · split at ho <;> cases ho
  | transmit k x y =>
    simp only [step] at ho
    split at ho
    · cases ho
    · split at ho
      · cases ho
      · split at ho <;> cases ho
  | finish k =>
    simp only [step] at ho
    split at ho
    · cases ho
    · split at ho <;> cases ho

/-- Σ of stream lengths on the wire ≤ Σ acquired ≤ total -/
theorem sumSent_le {clamp w pre s} (h : Inv clamp w pre s) : sumSent s.streams ≤ s.conn.totalAvailableWindow := by
  have h1 : sumSent s.streams ≤ sumAcquired s.streams := by
    refine sum_le_sum (m := s.streams)
      (g1 := fun v => match v.resetFinal with | some f => f | none => v.highestSent)
      (g2 := fun v => v.fc.acquiredConnectionFlowControllerWindow) ?_
    intro p hp
    have hg := h.good p hp
    cases hr : p.2.resetFinal with
    | none => simpa [hr] using hg.sentAcq
    | some f => exact Nat.le_of_eq (hg.reset f hr)
  have := h.conserve
  omega



theorem find?_put (m : Streams) (k : Nat) (v : Stream) (x : Nat) :
    find? (put m k v) x = if k = x then some v else find? m x := by
  induction m with
  | nil => simp [put, find?]
  | cons q t ih =>
    obtain ⟨k', v'⟩ := q
    simp only [put]
    by_cases h : k' = k
    · subst h; by_cases hx : k' = x <;> simp [find?, hx]
    · simp only [h, if_false, find?]
      by_cases hx : k' = x
      · subst hx; simp [Ne.symm h]
      · simp [hx, ih]

theorem setMaxStreamData_ge (f : StreamFc) (v : Nat) : f.maxStreamData ≤ (f.setMaxStreamData v).maxStreamData := by
  simp only [StreamFc.setMaxStreamData]
  split
  · exact Nat.le_refl _
  · split <;> simp only [] <;> omega

theorem tryAcquire_limits (f : StreamFc) (c : ConnFc) :
    (tryAcquireConnectionWindow f c).1.maxStreamData = f.maxStreamData ∧
    (tryAcquireConnectionWindow f c).2.totalAvailableWindow = c.totalAvailableWindow := by
  simp only [tryAcquireConnectionWindow]
  split
  · exact ⟨rfl, rfl⟩
  · split
    · exact ⟨rfl, (acquireWindow_spec _ _).2.2.2⟩
    · exact ⟨rfl, rfl⟩

theorem acquire_limits (clamp : Bool) (f : StreamFc) (c : ConnFc) (e : Nat) :
    (acquireFlowControlWindow clamp f c e).1.maxStreamData = f.maxStreamData ∧
    (acquireFlowControlWindow clamp f c e).2.1.totalAvailableWindow = c.totalAvailableWindow := by
  simp only [acquireFlowControlWindow]
  split
  · exact ⟨rfl, rfl⟩
  · generalize hf1 : (if e > f.maxStreamData then
        ({ f with state := FcState.blockedOnStreamWindow, streamDataBlocked := some f.maxStreamData } : StreamFc)
      else { f with state := FcState.ready }) = f1
    have h1 : f1.maxStreamData = f.maxStreamData := by subst hf1; split <;> rfl
    generalize hf2 : ({ f1 with highestRequestedConnectionFlowControlWindow := max (requestedOffset clamp e f.maxStreamData) f1.highestRequestedConnectionFlowControlWindow } : StreamFc) = f2
    have h2 : f2.maxStreamData = f.maxStreamData := by subst hf2; exact h1
    have ht := tryAcquire_limits f2 c
    generalize tryAcquireConnectionWindow f2 c = r at ht
    split
    · exact ⟨by simp only []; rw [ht.1, h2], ht.2⟩
    · exact ⟨by rw [ht.1, h2], ht.2⟩

/-- no step lowers the connection limit or the limit of an existing stream -/
theorem step_limits_mono (clamp : Bool) (s : Sys) (op : Op) :
    s.conn.totalAvailableWindow ≤ (step clamp s op).1.conn.totalAvailableWindow ∧
    ∀ k st, find? s.streams k = some st →
      ∃ st', find? (step clamp s op).1.streams k = some st' ∧ st.fc.maxStreamData ≤ st'.fc.maxStreamData := by
  cases op with
  | openStream sid iw =>
    simp only [step]
    cases hf : find? s.streams sid with
    | some st0 => exact ⟨Nat.le_refl _, fun k st h => ⟨st, h, Nat.le_refl _⟩⟩
    | none =>
      refine ⟨Nat.le_refl _, fun k st h => ?_⟩
      simp only [find?_put]
      by_cases hk : sid = k
      · subst hk; rw [hf] at h; cases h
      · exact ⟨st, by simp [hk, h], Nat.le_refl _⟩
  | maxData v =>
    simp only [step, ConnFc.onMaxData]
    refine ⟨?_, fun k st h => ⟨st, h, Nat.le_refl _⟩⟩
    split
    · exact Nat.le_refl _
    · simp only []; omega
  | maxStreamData sid v =>
    simp only [step]
    cases hf : find? s.streams sid with
    | none => exact ⟨Nat.le_refl _, fun k st h => ⟨st, h, Nat.le_refl _⟩⟩
    | some st0 =>
      simp only []
      split
      · exact ⟨Nat.le_refl _, fun k st h => ⟨st, h, Nat.le_refl _⟩⟩
      · refine ⟨Nat.le_refl _, fun k st h => ?_⟩
        simp only [find?_put]
        by_cases hk : sid = k
        · subst hk; rw [hf] at h; cases h
          exact ⟨_, if_pos rfl, setMaxStreamData_ge _ _⟩
        · exact ⟨st, by simp [hk, h], Nat.le_refl _⟩
  | connWindowAvailable sid =>
    simp only [step]
    cases hf : find? s.streams sid with
    | none => exact ⟨Nat.le_refl _, fun k st h => ⟨st, h, Nat.le_refl _⟩⟩
    | some st0 =>
      simp only []
      split
      · exact ⟨Nat.le_refl _, fun k st h => ⟨st, h, Nat.le_refl _⟩⟩
      · have ht := tryAcquire_limits st0.fc s.conn
        refine ⟨by simp only []; omega, fun k st h => ?_⟩
        simp only [find?_put]
        by_cases hk : sid = k
        · subst hk; rw [hf] at h; cases h
          exact ⟨_, if_pos rfl, by simp only []; omega⟩
        · exact ⟨st, by simp [hk, h], Nat.le_refl _⟩
  | transmit sid a b =>
    simp only [step]
    cases hf : find? s.streams sid with
    | none => exact ⟨Nat.le_refl _, fun k st h => ⟨st, h, Nat.le_refl _⟩⟩
    | some st0 =>
      simp only []
      have ht := acquire_limits clamp st0.fc s.conn b
      split
      · exact ⟨Nat.le_refl _, fun k st h => ⟨st, h, Nat.le_refl _⟩⟩
      · split
        · refine ⟨by simp only []; omega, fun k st h => ?_⟩
          simp only [find?_put]
          by_cases hk : sid = k
          · subst hk; rw [hf] at h; cases h
            exact ⟨_, if_pos rfl, by simp only []; omega⟩
          · exact ⟨st, by simp [hk, h], Nat.le_refl _⟩
        · refine ⟨by simp only []; omega, fun k st h => ?_⟩
          simp only [find?_put]
          by_cases hk : sid = k
          · subst hk; rw [hf] at h; cases h
            exact ⟨_, if_pos rfl, by simp only []; omega⟩
          · exact ⟨st, by simp [hk, h], Nat.le_refl _⟩
  | reset sid =>
    simp only [step]
    cases hf : find? s.streams sid with
    | none => exact ⟨Nat.le_refl _, fun k st h => ⟨st, h, Nat.le_refl _⟩⟩
    | some st0 =>
      simp only []
      split
      · exact ⟨Nat.le_refl _, fun k st h => ⟨st, h, Nat.le_refl _⟩⟩
      · refine ⟨Nat.le_refl _, fun k st h => ?_⟩
        simp only [find?_put]
        by_cases hk : sid = k
        · subst hk; rw [hf] at h; cases h
          exact ⟨_, if_pos rfl, Nat.le_refl _⟩
        · exact ⟨st, by simp [hk, h], Nat.le_refl _⟩
  | finish sid =>
    simp only [step]
    cases hf : find? s.streams sid with
    | none => exact ⟨Nat.le_refl _, fun k st h => ⟨st, h, Nat.le_refl _⟩⟩
    | some st0 =>
      simp only []
      split
      · exact ⟨Nat.le_refl _, fun k st h => ⟨st, h, Nat.le_refl _⟩⟩
      · refine ⟨Nat.le_refl _, fun k st h => ?_⟩
        simp only [find?_put]
        by_cases hk : sid = k
        · subst hk; rw [hf] at h; cases h
          exact ⟨_, if_pos rfl, Nat.le_refl _⟩
        · exact ⟨st, by simp [hk, h], Nat.le_refl _⟩

end Quic.Proofs.SendFlow
