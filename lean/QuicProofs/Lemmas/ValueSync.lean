import QuicModel.Sync.IncrementalValueSync
import QuicModel.Sync.PeriodicSync
/-
  Invariants of the MAX_* (`IncrementalValueSync`) and *_BLOCKED (`PeriodicSync`) retransmission
  state machines, by induction over all operation histories.
-/
namespace Quic.Proofs.Lemmas.ValueSync
open Quic.Sync Quic.Sync.IncrementalValueSync

/-! ### IncrementalValueSync -/

/-- a frame is owed to the peer: requested, lost, or in flight -/
def pending (s : State) : Bool :=
  match s.delivery with
  | .requested _ => true
  | .lost _ => true
  | .inFlight _ _ => true
  | _ => false

/-- the value is "unsynced": it grew by at least `threshold` over what the peer acknowledged -/
def unsynced (s : State) : Prop := s.latest ≠ s.ackdUpTo ∧ s.latest - s.ackdUpTo ≥ s.threshold

/-- structural invariant -/
structure Inv (s : State) : Prop where
  mono : s.ackdUpTo ≤ s.latest
  notReq : s.delivery = .notRequested → ¬ unsynced s
  inFl : ∀ v pn, s.delivery = .inFlight v pn → s.ackdUpTo ≤ v ∧ v ≤ s.latest ∧ (s.latest = v ∨ s.latest - v < s.threshold)

theorem inv_requestDelivery (s : State) (h1 : s.ackdUpTo ≤ s.latest)
    (h3 : ∀ v pn, s.delivery = .inFlight v pn → s.ackdUpTo ≤ v ∧ v ≤ s.latest) :
    Inv (requestDeliveryIfNecessary s) := by
  unfold requestDeliveryIfNecessary
  by_cases hs : shouldSendUpdate s = true
  · rw [if_pos hs]
    exact ⟨h1, (fun h => by cases h), (fun v pn h => by cases h)⟩
  · rw [if_neg hs]
    refine ⟨h1, ?_, ?_⟩
    · intro hd hu
      apply hs
      have h1 := hu.1; have h2 := hu.2
      simp only [shouldSendUpdate, hd, Delivery.isCancelled]
      simp [h1, h2]
    · intro v pn hd
      refine ⟨(h3 v pn hd).1, (h3 v pn hd).2, ?_⟩
      by_cases he : s.latest = v
      · exact Or.inl he
      · right
        apply Nat.lt_of_not_le
        intro hge
        apply hs
        have hne : s.latest ≠ s.ackdUpTo := by
          have := h3 v pn hd; omega
        simp only [shouldSendUpdate, hd, Delivery.isCancelled]
        simp [hne, hge]

theorem inv_new (latest ackd thr : Nat) (h : ackd ≤ latest) : Inv (new latest ackd thr) := by
  unfold new
  apply inv_requestDelivery
  · exact h
  · intro v pn hd; cases hd

theorem step_update_lt (s : State) (v : Nat) (h : v < s.latest) : step s (.update v) = (s, []) := by
  simp [step, update, h]

theorem step_update_ge (s : State) (v : Nat) (h : ¬ v < s.latest) :
    step s (.update v) = (requestDeliveryIfNecessary { s with latest := v }, []) := by
  simp [step, update, h]

theorem step_transmit_no (s : State) (c : Constraint) (w : Option Nat) (h : ¬ (s.delivery.tryTransmit c = true ∧ w.isSome = true)) :
    step s (.transmit c w) = (s, []) := by
  cases w with
  | none => simp [step, onTransmit]
  | some pn =>
    have : s.delivery.tryTransmit c = false := by
      cases ht : s.delivery.tryTransmit c <;> simp_all
    simp [step, onTransmit, this]

theorem step_transmit_yes (s : State) (c : Constraint) (pn : Nat) (h : s.delivery.tryTransmit c = true) :
    step s (.transmit c (some pn)) = ({ s with delivery := .inFlight s.latest pn }, [Event.sent s.latest pn]) := by
  simp [step, onTransmit, h]

theorem step_ack_hit (s : State) (set : List Nat) (v pn : Nat) (hd : s.delivery = .inFlight v pn) (hc : set.contains pn = true) :
    step s (.ack set) = ({ s with ackdUpTo := v, delivery := .notRequested }, [Event.acked set]) := by
  simp only [step, onPacketAck, hd, hc, if_true]

theorem step_ack_miss (s : State) (set : List Nat) (h : ∀ v pn, s.delivery = .inFlight v pn → set.contains pn = false) :
    step s (.ack set) = (s, [Event.acked set]) := by
  simp only [step, onPacketAck]
  cases hd : s.delivery with
  | inFlight v pn => simp only [h v pn hd]; rfl
  | _ => rfl

theorem step_loss_hit (s : State) (set : List Nat) (v pn : Nat) (hd : s.delivery = .inFlight v pn) (hc : set.contains pn = true) :
    step s (.loss set) = ({ s with delivery := .lost s.latest }, []) := by
  simp only [step, onPacketLoss, hd, hc, if_true]

theorem step_loss_miss (s : State) (set : List Nat) (h : ∀ v pn, s.delivery = .inFlight v pn → set.contains pn = false) :
    step s (.loss set) = (s, []) := by
  simp only [step, onPacketLoss]
  cases hd : s.delivery with
  | inFlight v pn => simp only [h v pn hd]; rfl
  | _ => rfl

/-- case analysis for `ack` / `loss`: either the in-flight packet is covered by the set or nothing happens -/
theorem hit_or_miss (s : State) (set : List Nat) :
    (∃ v pn, s.delivery = .inFlight v pn ∧ set.contains pn = true) ∨
    (∀ v pn, s.delivery = .inFlight v pn → set.contains pn = false) := by
  cases hd : s.delivery with
  | inFlight v pn =>
    cases hc : set.contains pn with
    | true => exact Or.inl ⟨v, pn, rfl, hc⟩
    | false => right; intro v' pn' h; cases h; exact hc
  | _ => right; intro v' pn' h; cases h

/-- how `latest_value` evolves -/
theorem step_latest (s : State) (op : Op) :
    (step s op).1.latest = (match op with
      | .update v => if v < s.latest then s.latest else v
      | _ => s.latest) := by
  cases op with
  | update v =>
    by_cases hv : v < s.latest
    · rw [step_update_lt s v hv]; simp [hv]
    · rw [step_update_ge s v hv]
      simp only [hv, if_false, requestDeliveryIfNecessary]
      split <;> rfl
  | transmit c w =>
    by_cases ht : s.delivery.tryTransmit c = true ∧ w.isSome = true
    · obtain ⟨ht, hw⟩ := ht
      cases w with
      | none => cases hw
      | some pn => rw [step_transmit_yes s c pn ht]
    · rw [step_transmit_no s c w ht]
  | ack set =>
    rcases hit_or_miss s set with ⟨v, pn, hd, hc⟩ | hm
    · rw [step_ack_hit s set v pn hd hc]
    · rw [step_ack_miss s set hm]
  | loss set =>
    rcases hit_or_miss s set with ⟨v, pn, hd, hc⟩ | hm
    · rw [step_loss_hit s set v pn hd hc]
    · rw [step_loss_miss s set hm]
  | stop => rfl

theorem inv_step (s : State) (op : Op) (h : Inv s) : Inv (step s op).1 := by
  cases op with
  | update v =>
    by_cases hv : v < s.latest
    · rw [step_update_lt s v hv]; exact h
    · rw [step_update_ge s v hv]
      apply inv_requestDelivery
      · have := h.mono; show s.ackdUpTo ≤ v; omega
      · intro w pn hd
        have := h.inFl w pn hd
        show s.ackdUpTo ≤ w ∧ w ≤ v; omega
  | transmit c w =>
    by_cases ht : s.delivery.tryTransmit c = true ∧ w.isSome = true
    · obtain ⟨ht, hw⟩ := ht
      cases w with
      | none => cases hw
      | some pn =>
        rw [step_transmit_yes s c pn ht]
        exact ⟨h.mono, (fun hd => by cases hd), (fun v pn' hd => by
          cases hd; exact ⟨h.mono, Nat.le_refl _, Or.inl rfl⟩)⟩
    · rw [step_transmit_no s c w ht]; exact h
  | ack set =>
    rcases hit_or_miss s set with ⟨v, pn, hd, hc⟩ | hm
    · rw [step_ack_hit s set v pn hd hc]
      have := h.inFl v pn hd
      refine ⟨this.2.1, ?_, (fun v' pn' hd' => by cases hd')⟩
      intro _ hu
      have h1 : s.latest ≠ v := hu.1
      have h2 : s.latest - v ≥ s.threshold := hu.2
      rcases this.2.2 with e | e <;> omega
    · rw [step_ack_miss s set hm]; exact h
  | loss set =>
    rcases hit_or_miss s set with ⟨v, pn, hd, hc⟩ | hm
    · rw [step_loss_hit s set v pn hd hc]
      exact ⟨h.mono, (fun hd' => by cases hd'), (fun v' pn' hd' => by cases hd')⟩
    · rw [step_loss_miss s set hm]; exact h
  | stop =>
    simp only [step, stopSync]
    refine ⟨h.mono, ?_, ?_⟩
    · intro hd; cases hs : s.delivery <;> simp [hs, Delivery.cancel] at hd
    · intro v pn hd; cases hs : s.delivery <;> simp [hs, Delivery.cancel] at hd

theorem inv_run (ops : List Op) (s : State) (h : Inv s) : Inv (run s ops).1 := by
  induction ops generalizing s with
  | nil => exact h
  | cons op ops ih => simp only [run]; exact ih _ (inv_step s op h)

/-- once cancelled, always cancelled, and nothing is ever sent -/
theorem cancelled_step (s : State) (op : Op) (h : s.delivery.isCancelled = true) :
    (step s op).1.delivery.isCancelled = true ∧ ∀ e ∈ (step s op).2, ∀ v pn, e ≠ Event.sent v pn := by
  obtain ⟨o, hd⟩ : ∃ o, s.delivery = .cancelled o := by
    cases hs : s.delivery <;> simp [hs, Delivery.isCancelled] at h
    exact ⟨_, rfl⟩
  cases op with
  | update v =>
    by_cases hv : v < s.latest
    · rw [step_update_lt s v hv]; exact ⟨h, by simp⟩
    · rw [step_update_ge s v hv]
      simp [requestDeliveryIfNecessary, shouldSendUpdate, hd, Delivery.isCancelled]
  | transmit c w =>
    rw [step_transmit_no s c w (by simp [hd, Delivery.tryTransmit])]; exact ⟨h, by simp⟩
  | ack set =>
    rw [step_ack_miss s set (by intro v pn h'; rw [hd] at h'; cases h')]; exact ⟨h, by simp⟩
  | loss set =>
    rw [step_loss_miss s set (by intro v pn h'; rw [hd] at h'; cases h')]; exact ⟨h, by simp⟩
  | stop => simp [step, stopSync, hd, Delivery.cancel, Delivery.isCancelled]

/-! #### "a value is never reported delivered unless a packet carrying it was acked" -/

/-- the event log `log` contains the transmission of `v` in packet `pn` followed (later) by an ACK
    covering `pn` -/
def SentThenAcked (log : List Event) (v : Nat) : Prop :=
  ∃ pn set l1 l2 l3, log = l1 ++ Event.sent v pn :: l2 ++ Event.acked set :: l3 ∧ set.contains pn = true

/-- ghost invariant relating the state to the event log so far -/
structure LogInv (init : Nat) (s : State) (log : List Event) : Prop where
  ackd : s.ackdUpTo = init ∨ SentThenAcked log s.ackdUpTo
  inFl : ∀ v pn, s.delivery = .inFlight v pn → ∃ l1 l2, log = l1 ++ Event.sent v pn :: l2

theorem SentThenAcked.append {log : List Event} {v : Nat} (h : SentThenAcked log v) (more : List Event) :
    SentThenAcked (log ++ more) v := by
  obtain ⟨pn, set, l1, l2, l3, he, hc⟩ := h
  exact ⟨pn, set, l1, l2, l3 ++ more, by simp [he], hc⟩

theorem logInv_step (init : Nat) (s : State) (log : List Event) (op : Op) (h : LogInv init s log) :
    LogInv init (step s op).1 (log ++ (step s op).2) := by
  have keep : ∀ more, s.ackdUpTo = init ∨ SentThenAcked (log ++ more) s.ackdUpTo := fun more =>
    h.ackd.elim Or.inl (fun x => Or.inr (x.append more))
  have keepF : ∀ more v pn, s.delivery = .inFlight v pn → ∃ l1 l2, log ++ more = l1 ++ Event.sent v pn :: l2 := by
    intro more v pn hd
    obtain ⟨l1, l2, he⟩ := h.inFl v pn hd
    exact ⟨l1, l2 ++ more, by simp [he]⟩
  cases op with
  | update v =>
    by_cases hv : v < s.latest
    · rw [step_update_lt s v hv]; simpa using h
    · rw [step_update_ge s v hv]
      simp only [requestDeliveryIfNecessary, List.append_nil]
      split
      · exact ⟨h.ackd, (fun w pn hd => by cases hd)⟩
      · exact ⟨h.ackd, (fun w pn hd => h.inFl w pn hd)⟩
  | transmit c w =>
    by_cases ht : s.delivery.tryTransmit c = true ∧ w.isSome = true
    · obtain ⟨ht, hw⟩ := ht
      cases w with
      | none => cases hw
      | some pn =>
        rw [step_transmit_yes s c pn ht]
        refine ⟨keep _, ?_⟩
        intro v pn' hd
        cases hd
        exact ⟨log, [], rfl⟩
    · rw [step_transmit_no s c w ht]; simpa using h
  | ack set =>
    rcases hit_or_miss s set with ⟨v, pn, hd, hc⟩ | hm
    · rw [step_ack_hit s set v pn hd hc]
      obtain ⟨l1, l2, he⟩ := h.inFl v pn hd
      exact ⟨Or.inr ⟨pn, set, l1, l2, [], by simp [he], hc⟩, (fun v' pn' hd' => by cases hd')⟩
    · rw [step_ack_miss s set hm]
      exact ⟨keep _, (fun v' pn' hd' => keepF _ v' pn' hd')⟩
  | loss set =>
    rcases hit_or_miss s set with ⟨v, pn, hd, hc⟩ | hm
    · rw [step_loss_hit s set v pn hd hc]
      exact ⟨by simpa using h.ackd, (fun v' pn' hd' => by cases hd')⟩
    · rw [step_loss_miss s set hm]; simpa using h
  | stop =>
    simp only [step, stopSync, List.append_nil]
    refine ⟨h.ackd, ?_⟩
    intro v pn hd'; cases hs : s.delivery <;> simp [hs, Delivery.cancel] at hd'

theorem logInv_run (init : Nat) (ops : List Op) (s : State) (log : List Event) (h : LogInv init s log) :
    LogInv init (run s ops).1 (log ++ (run s ops).2) := by
  induction ops generalizing s log with
  | nil => simpa [run] using h
  | cons op ops ih =>
    simp only [run]
    have := ih _ _ (logInv_step init s log op h)
    simpa [List.append_assoc] using this

/-! #### quiescence once the latest value is acknowledged -/

/-- nothing owed: synced and idle (or cancelled) -/
def Quiet (s : State) : Prop :=
  (s.delivery = .notRequested ∧ s.latest = s.ackdUpTo) ∨ s.delivery.isCancelled = true

theorem quiet_step (s : State) (op : Op) (h : Quiet s) (hop : ∀ v, op = .update v → v ≤ s.latest) :
    Quiet (step s op).1 ∧ ∀ e ∈ (step s op).2, ∀ v pn, e ≠ Event.sent v pn := by
  rcases h with ⟨hd, hl⟩ | hc
  · cases op with
    | update v =>
      have hv := hop v rfl
      by_cases hlt : v < s.latest
      · rw [step_update_lt s v hlt]; exact ⟨Or.inl ⟨hd, hl⟩, by simp⟩
      · have : v = s.latest := by omega
        subst this
        rw [step_update_ge s _ hlt]
        have : requestDeliveryIfNecessary { s with latest := s.latest } = s := by
          simp [requestDeliveryIfNecessary, shouldSendUpdate, hd, hl, Delivery.isCancelled]
        rw [this]; exact ⟨Or.inl ⟨hd, hl⟩, by simp⟩
    | transmit c w =>
      rw [step_transmit_no s c w (by simp [hd, Delivery.tryTransmit])]; exact ⟨Or.inl ⟨hd, hl⟩, by simp⟩
    | ack set =>
      rw [step_ack_miss s set (by intro v pn h'; rw [hd] at h'; cases h')]; exact ⟨Or.inl ⟨hd, hl⟩, by simp⟩
    | loss set =>
      rw [step_loss_miss s set (by intro v pn h'; rw [hd] at h'; cases h')]; exact ⟨Or.inl ⟨hd, hl⟩, by simp⟩
    | stop => exact ⟨Or.inr (by simp [step, stopSync, hd, Delivery.cancel, Delivery.isCancelled]), by simp [step]⟩
  · have := cancelled_step s op hc
    exact ⟨Or.inr this.1, this.2⟩

/-! ### PeriodicSync -/
namespace Periodic
open Quic.Sync.PeriodicSync

def inFlight (d : Delivery) : Bool :=
  match d with
  | .inFlight _ _ => true
  | _ => false

def isDelivered (d : Delivery) : Bool :=
  match d with
  | .delivered _ => true
  | _ => false

/-- once delivery was requested (and not stopped) the machine is never idle: a frame is waiting for
    (re)transmission, in flight, or the re-send timer is armed; and an acknowledged BLOCKED frame
    always leaves the re-send timer armed -/
structure PInv (s : PeriodicSync.State) : Prop where
  idle : s.active = false → (s.delivery = .notRequested ∨ s.delivery.isCancelled = true) ∧ s.timer = none
  active : s.active = true → s.delivery.hasInterest = true ∨ inFlight s.delivery = true ∨ s.timer.isSome = true
  delivered : isDelivered s.delivery = true → s.timer.isSome = true
  backoff : 1 ≤ s.backoff ∧ s.backoff ≤ U16_MAX

theorem pinv_new : PInv PeriodicSync.new :=
  ⟨by simp [PeriodicSync.new], by simp [PeriodicSync.new], by simp [PeriodicSync.new, isDelivered],
   by simp [PeriodicSync.new, INITIAL_BACKOFF, U16_MAX]⟩

theorem PInv.act {s : PeriodicSync.State} (h : PInv s)
    (hd : ¬ (s.delivery = .notRequested ∨ s.delivery.isCancelled = true) ∨ s.timer ≠ none) : s.active = true := by
  cases ha : s.active with
  | true => rfl
  | false =>
    have := h.idle ha
    rcases hd with hd | hd
    · exact absurd this.1 hd
    · exact absurd this.2 hd

theorem pinv_step (s : PeriodicSync.State) (op : PeriodicSync.Op) (h : PInv s) : PInv (PeriodicSync.step s op).1 := by
  have hb := h.backoff
  have hb' : 1 ≤ min (s.backoff * 2) U16_MAX ∧ min (s.backoff * 2) U16_MAX ≤ U16_MAX := by
    simp only [U16_MAX] at hb ⊢; omega
  cases op with
  | request v =>
    simp only [PeriodicSync.step]
    by_cases hv : v < s.latest
    · simpa [hv] using h
    · simp only [hv, if_false, requestDelivery]
      cases hd : s.delivery with
      | notRequested => exact ⟨by simp, fun _ => Or.inl rfl, by simp [isDelivered], hb⟩
      | cancelled o => exact ⟨by simp, fun _ => Or.inl rfl, by simp [isDelivered], hb⟩
      | requested w => exact ⟨by simp, fun _ => Or.inl (by simp [Delivery.hasInterest]), by simp [isDelivered], hb⟩
      | lost w => exact ⟨by simp, fun _ => Or.inl (by simp [Delivery.hasInterest]), by simp [isDelivered], hb⟩
      | inFlight w pn => exact ⟨by simp, fun _ => Or.inr (Or.inl (by simp [inFlight])), by simp [isDelivered], hb⟩
      | delivered w =>
        have := h.delivered (by simp [hd, isDelivered])
        exact ⟨by simp, fun _ => Or.inr (Or.inr this), fun _ => this, hb⟩
  | skip now =>
    simp only [PeriodicSync.step, skipDelivery]
    cases hd : s.delivery with
    | requested w =>
      have ha := h.act (Or.inl (by simp [hd, Delivery.isCancelled]))
      exact ⟨by simp [updateTimer, doubleBackoff, ha], fun _ => Or.inr (Or.inr rfl), by simp [updateTimer, doubleBackoff, isDelivered],
        by simpa [updateTimer, doubleBackoff] using hb'⟩
    | lost w =>
      have ha := h.act (Or.inl (by simp [hd, Delivery.isCancelled]))
      exact ⟨by simp [updateTimer, doubleBackoff, ha], fun _ => Or.inr (Or.inr rfl), by simp [updateTimer, doubleBackoff, isDelivered],
        by simpa [updateTimer, doubleBackoff] using hb'⟩
    | delivered w =>
      have ha := h.act (Or.inl (by simp [hd, Delivery.isCancelled]))
      exact ⟨by simp [updateTimer, doubleBackoff, ha], fun _ => Or.inr (Or.inr rfl), fun _ => rfl,
        by simpa [updateTimer, doubleBackoff] using hb'⟩
    | notRequested => simpa [hd] using h
    | inFlight w pn => simpa [hd] using h
    | cancelled o => simpa [hd] using h
  | timeout now =>
    simp only [PeriodicSync.step, onTimeout]
    by_cases he : timerExpired s now = true
    · simp only [he, if_true]
      have ha : s.active = true := h.act (Or.inr (by
        intro hn; simp [timerExpired, hn] at he))
      exact ⟨by simp [ha], fun _ => Or.inl rfl, by simp [isDelivered], hb⟩
    · simpa [he] using h
  | stop =>
    simp only [PeriodicSync.step, PeriodicSync.stopSync]
    refine ⟨fun _ => ⟨Or.inr ?_, rfl⟩, by simp, ?_, by simp [INITIAL_BACKOFF, U16_MAX]⟩
    · cases hs : s.delivery <;> simp [Delivery.cancel, Delivery.isCancelled]
    · intro hd; cases hs : s.delivery <;> simp [hs, Delivery.cancel, isDelivered] at hd
  | ack set =>
    simp only [PeriodicSync.step, PeriodicSync.onPacketAck]
    cases hd : s.delivery with
    | inFlight w pn =>
      by_cases hc : set.contains pn = true
      · simp only [hc, if_true]
        have ha := h.act (Or.inl (by simp [hd, Delivery.isCancelled]))
        exact ⟨by simp [updateTimer, ha], fun _ => Or.inr (Or.inr rfl), fun _ => rfl, by simpa [updateTimer] using hb⟩
      · simp only [hc]; exact h
    | _ => simpa [hd] using h
  | loss set =>
    simp only [PeriodicSync.step, PeriodicSync.onPacketLoss]
    cases hd : s.delivery with
    | inFlight w pn =>
      by_cases hc : set.contains pn = true
      · simp only [hc, if_true]
        have ha := h.act (Or.inl (by simp [hd, Delivery.isCancelled]))
        exact ⟨by simp [ha], fun _ => Or.inl rfl, by simp [isDelivered], hb⟩
      · simp only [hc]; exact h
    | _ => simpa [hd] using h
  | transmit c w now =>
    simp only [PeriodicSync.step, PeriodicSync.onTransmit]
    by_cases ht : s.delivery.tryTransmit c = true
    · cases w with
      | none => simpa [ht] using h
      | some pn =>
        simp only [ht, if_true]
        have ha : s.active = true := h.act (Or.inl (by
          intro hn; rcases hn with hn | hn
          · simp [hn, Delivery.tryTransmit] at ht
          · cases hs : s.delivery <;> simp [hs, Delivery.isCancelled, Delivery.tryTransmit] at hn ht))
        exact ⟨by simp [doubleBackoff, ha], fun _ => Or.inr (Or.inl rfl), by simp [doubleBackoff, isDelivered],
          by simpa [doubleBackoff] using hb'⟩
    · cases w <;> simpa [ht] using h
  | setPeriod p =>
    simp only [PeriodicSync.step, updateSyncPeriod]
    exact ⟨h.idle, h.active, h.delivered, hb⟩

theorem pinv_run (ops : List PeriodicSync.Op) (s : PeriodicSync.State) (h : PInv s) : PInv (PeriodicSync.run s ops) := by
  induction ops generalizing s with
  | nil => exact h
  | cons op ops ih => exact ih _ (pinv_step s op h)

end Periodic

end Quic.Proofs.Lemmas.ValueSync
