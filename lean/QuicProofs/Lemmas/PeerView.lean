import QuicModel.Rfc.PeerView
/-
  Facts about the RFC reference `Rfc.PeerView` (observe / check / step / run) used by C13.
-/
namespace Quic.Proofs.PeerView
open Quic.Rfc.PeerView

theorem find_none_iff (v : View) (q : Nat) : v.find q = none ↔ q ∉ v.seqs := by
  unfold View.find View.seqs
  rw [List.find?_eq_none]
  simp only [List.mem_map, not_exists, not_and]
  constructor
  · intro h e he heq
    exact h e he (by simp [heq])
  · intro h e he
    simp only [beq_iff_eq]
    intro heq
    exact h e he heq

theorem find_some_mem (v : View) (q : Nat) {e} (h : v.find q = some e) : e ∈ v.issued ∧ e.1 = q := by
  unfold View.find at h
  have h1 := List.mem_of_find?_eq_some h
  have h2 := List.find?_some h
  exact ⟨h1, by simpa using h2⟩

@[simp] theorem observe_rxRetire_seqs (v : View) (q : Nat) : (observe v (.rxRetire q)).seqs = v.seqs := rfl
@[simp] theorem observe_rxRetire_maxRpt (v : View) (q : Nat) : (observe v (.rxRetire q)).maxRpt = v.maxRpt := rfl
@[simp] theorem observe_rxRetire_retired (v : View) (q : Nat) : (observe v (.rxRetire q)).retired = q :: v.retired := rfl
@[simp] theorem observe_rxRetire_issued (v : View) (q : Nat) : (observe v (.rxRetire q)).issued = v.issued := rfl

theorem filter_sublist_of_imp {α : Type} (l : List α) (p q : α → Bool) (h : ∀ a, p a = true → q a = true) :
    (l.filter p).Sublist (l.filter q) := by
  induction l with
  | nil => simp
  | cons a rest ih =>
    simp only [List.filter_cons]
    by_cases hp : p a = true
    · simp only [hp, h a hp, if_true]
      exact ih.cons₂ a
    · have hp' : p a = false := by simpa using hp
      by_cases hq : q a = true
      · simp only [hp', hq, if_true, Bool.false_eq_true, if_false]
        exact ih.cons a
      · have hq' : q a = false := by simpa using hq
        simp only [hp', hq', Bool.false_eq_true, if_false]
        exact ih

theorem active_rxRetire_sublist (v : View) (q : Nat) : (observe v (.rxRetire q)).active.Sublist v.active := by
  show (v.seqs.filter (fun s => decide (v.maxRpt ≤ s) && !((q :: v.retired).contains s))).Sublist
       (v.seqs.filter (fun s => decide (v.maxRpt ≤ s) && !(v.retired.contains s)))
  apply filter_sublist_of_imp
  intro s
  simp only [Bool.and_eq_true, decide_eq_true_eq, Bool.not_eq_true', List.contains_cons, Bool.or_eq_false_iff]
  intro h
  exact ⟨h.1, h.2.2⟩

theorem observe_tx (v : View) (f : Frame) : observe v (.txNcid f) =
    match v.find f.seq with
    | some _ => { v with maxRpt := max v.maxRpt f.rpt }
    | none => { v with issued := v.issued ++ [(f.seq, f.cid, some f.token)], nextSeq := max v.nextSeq (f.seq + 1),
                       maxRpt := max v.maxRpt f.rpt } := rfl

theorem observe_tx_retired (v : View) (f : Frame) : (observe v (.txNcid f)).retired = v.retired := by
  rw [observe_tx]; split <;> rfl

theorem observe_tx_limit (v : View) (f : Frame) : (observe v (.txNcid f)).limit = v.limit := by
  rw [observe_tx]; split <;> rfl

theorem observe_tx_peerIssued (v : View) (f : Frame) : (observe v (.txNcid f)).peerIssued = v.peerIssued := by
  rw [observe_tx]; split <;> rfl

theorem observe_tx_maxRpt (v : View) (f : Frame) : (observe v (.txNcid f)).maxRpt = max v.maxRpt f.rpt := by
  rw [observe_tx]; split <;> rfl

theorem observe_tx_seqs_mem (v : View) (f : Frame) (q : Nat) :
    q ∈ (observe v (.txNcid f)).seqs ↔ q ∈ v.seqs ∨ q = f.seq := by
  rw [observe_tx]
  split
  · next e he =>
    have := find_some_mem v f.seq he
    simp only [View.seqs]
    constructor
    · intro h; exact Or.inl h
    · rintro (h | h)
      · exact h
      · subst h
        exact List.mem_map.mpr ⟨e, this.1, this.2⟩
  · simp [View.seqs]

theorem observe_tx_seqs_nodup (v : View) (f : Frame) (h : v.seqs.Nodup) : (observe v (.txNcid f)).seqs.Nodup := by
  rw [observe_tx]
  split
  · exact h
  · next hn =>
    have := (find_none_iff v f.seq).mp hn
    simp only [View.seqs, List.map_append, List.map_cons, List.map_nil]
    rw [List.nodup_append]
    refine ⟨h, by simp, ?_⟩
    intro a ha b hb
    simp only [List.mem_singleton] at hb
    subst hb
    intro e; subst e; exact this ha

/-- frames of one `on_transmit` call: all carry the same Retire Prior To -/
theorem foldl_tx (fs : List Frame) (r : Nat) (hr : ∀ f ∈ fs, f.rpt = r) (v : View) :
    let v' := (fs.map Ev.txNcid).foldl observe v
    v'.retired = v.retired ∧ (fs = [] → v' = v) ∧ (fs ≠ [] → v'.maxRpt = max v.maxRpt r) ∧
    (v.seqs.Nodup → v'.seqs.Nodup) ∧ (∀ q, q ∈ v'.seqs ↔ q ∈ v.seqs ∨ q ∈ fs.map (·.seq)) := by
  induction fs generalizing v with
  | nil => simp
  | cons f rest ih =>
    have hf : f.rpt = r := hr f (by simp)
    have ih' := ih (fun g hg => hr g (by simp [hg])) (observe v (.txNcid f))
    simp only [List.map_cons, List.foldl_cons] at ih' ⊢
    obtain ⟨h1, h2, h3, h4, h5⟩ := ih'
    refine ⟨by rw [h1, observe_tx_retired], by simp, ?_, ?_, ?_⟩
    · intro _
      by_cases hrest : rest = []
      · subst hrest
        simp only [List.map_nil, List.foldl_nil]
        rw [observe_tx_maxRpt, hf]
      · rw [h3 hrest, observe_tx_maxRpt, hf]
        omega
    · intro hn
      exact h4 (observe_tx_seqs_nodup v f hn)
    · intro q
      rw [h5 q, observe_tx_seqs_mem]
      simp only [List.mem_cons, List.mem_map]
      constructor
      · rintro ((h | h) | h)
        · exact Or.inl h
        · exact Or.inr (Or.inl h)
        · exact Or.inr (Or.inr h)
      · rintro (h | h | h)
        · exact Or.inl (Or.inl h)
        · exact Or.inl (Or.inr h)
        · exact Or.inr h

theorem active_nodup (v : View) (h : v.seqs.Nodup) : v.active.Nodup := by
  unfold View.active
  exact h.sublist List.filter_sublist

theorem mem_active (v : View) (q : Nat) : q ∈ v.active ↔ q ∈ v.seqs ∧ v.maxRpt ≤ q ∧ q ∉ v.retired := by
  unfold View.active
  simp [List.mem_filter]


/-! ### soundness of the trace acceptor: a declarative reading of C13 over positions of the trace -/

/-- the peer's active_connection_id_limit in force after the events `pre` (2 when never declared, RFC 9000 §18.2) -/
def limitIn (pre : List Ev) : Nat :=
  pre.foldl (fun l e => match e with | .tp x => x | _ => l) 2

/-- `q` is a sequence number the endpoint has made known in `es` (handshake id or NEW_CONNECTION_ID) -/
def IssuedIn (es : List Ev) (q : Nat) : Prop :=
  (∃ c t, Ev.hs q c t ∈ es) ∨ (∃ g, Ev.txNcid g ∈ es ∧ g.seq = q)

/-- what C13 demands of the event `e` performed after the events `pre` -/
def Good (pre : List Ev) : Ev → Prop
  | .txNcid f =>
    -- never asks to retire ids beyond the one it is issuing (§19.15)
    f.rpt ≤ f.seq ∧
    -- the same sequence number always names the same id and token
    (∀ g, Ev.txNcid g ∈ pre → g.seq = f.seq → g.cid = f.cid ∧ g.token = f.token) ∧
    -- distinct sequence numbers: distinct ids and distinct stateless-reset tokens (also w.r.t. the handshake ids)
    (∀ g, Ev.txNcid g ∈ pre → g.seq ≠ f.seq → g.cid ≠ f.cid ∧ g.token ≠ f.token) ∧
    (∀ q c t, Ev.hs q c t ∈ pre → q ≠ f.seq → c ≠ f.cid ∧ t ≠ some f.token) ∧
    -- consecutive sequence numbers: everything below was issued before
    (∀ q, q < f.seq → IssuedIn pre q) ∧
    -- §5.1.1: any set of issued, not-yet-retired ids that are not below an announced Retire Prior To
    -- (this frame's included) fits into the peer's limit
    (∀ L : List Nat, L.Nodup →
      (∀ q ∈ L, IssuedIn (pre ++ [Ev.txNcid f]) q ∧ (∀ g, Ev.txNcid g ∈ pre ++ [Ev.txNcid f] → g.rpt ≤ q) ∧
                Ev.rxRetire q ∉ pre) →
      L.length ≤ limitIn pre)
  | .txRetire q d =>
    -- retires only what the peer issued, never the id the carrying packet is addressed to (§19.16)
    ∃ c, (Ev.hsPeer q c ∈ pre ∨ ∃ g, Ev.rxNcid g ∈ pre ∧ g.seq = q ∧ g.cid = c) ∧ d ≠ some c
  | _ => True

/-- the property of a whole trace -/
def Holds (es : List Ev) : Prop := ∀ pre e post, es = pre ++ e :: post → Good pre e

/-- how the reference view relates to the events it has seen -/
structure Rel (pre : List Ev) (v : View) : Prop where
  issuedOf : ∀ e ∈ v.issued, (Ev.hs e.1 e.2.1 e.2.2 ∈ pre) ∨ (∃ f, Ev.txNcid f ∈ pre ∧ e = (f.seq, f.cid, some f.token))
  framesIn : ∀ f, Ev.txNcid f ∈ pre → (f.seq, f.cid, some f.token) ∈ v.issued
  hsIn : ∀ q c t, Ev.hs q c t ∈ pre → (q, c, t) ∈ v.issued
  seqsNodup : v.seqs.Nodup
  closed : ∀ q, q ∈ v.seqs ↔ q < v.nextSeq
  cidsNodup : v.cids.Nodup
  tokensNodup : v.tokens.Nodup
  rptAll : ∀ f, Ev.txNcid f ∈ pre → f.rpt ≤ v.maxRpt
  rptWitness : v.maxRpt = 0 ∨ ∃ g, Ev.txNcid g ∈ pre ∧ g.rpt = v.maxRpt
  retiredIff : ∀ q, q ∈ v.retired ↔ Ev.rxRetire q ∈ pre
  limitEq : v.limit = limitIn pre
  peerOf : ∀ x ∈ v.peerIssued, (Ev.hsPeer x.1 x.2 ∈ pre) ∨ (∃ f, Ev.rxNcid f ∈ pre ∧ x = (f.seq, f.cid))

theorem rel_nil : Rel [] {} := by
  refine ⟨by simp, by simp, by simp, by simp [View.seqs], by simp [View.seqs], by simp [View.cids],
    by simp [View.tokens], by simp, Or.inl rfl, by simp, rfl, by simp⟩

theorem limitIn_snoc (pre : List Ev) (e : Ev) :
    limitIn (pre ++ [e]) = match e with | .tp x => x | _ => limitIn pre := by
  simp only [limitIn, List.foldl_append, List.foldl_cons, List.foldl_nil]

theorem nodup_map_inj {α β : Type} (g : α → β) (l : List α) (h : (l.map g).Nodup) (a b : α) (ha : a ∈ l) (hb : b ∈ l)
    (hab : g a = g b) : a = b := by
  induction l with
  | nil => cases ha
  | cons x rest ih =>
    simp only [List.map_cons, List.nodup_cons, List.mem_map, not_exists, not_and] at h
    rcases List.mem_cons.mp ha with ha1 | ha1
    · rcases List.mem_cons.mp hb with hb1 | hb1
      · rw [ha1, hb1]
      · exact absurd (by rw [← ha1]; exact hab.symm) (h.1 b hb1)
    · rcases List.mem_cons.mp hb with hb1 | hb1
      · exact absurd (by rw [← hb1]; exact hab) (h.1 a ha1)
      · exact ih h.2 ha1 hb1

theorem nodup_filterMap_inj {α β : Type} (g : α → Option β) (l : List α) (h : (l.filterMap g).Nodup) (a b : α) (t : β)
    (ha : a ∈ l) (hb : b ∈ l) (hga : g a = some t) (hgb : g b = some t) : a = b := by
  induction l with
  | nil => cases ha
  | cons x rest ih =>
    rcases List.mem_cons.mp ha with ha1 | ha1
    · rcases List.mem_cons.mp hb with hb1 | hb1
      · rw [ha1, hb1]
      · subst ha1
        simp only [List.filterMap_cons, hga, List.nodup_cons, List.mem_filterMap, not_exists, not_and] at h
        exact absurd hgb (h.1 b hb1)
    · rcases List.mem_cons.mp hb with hb1 | hb1
      · subst hb1
        simp only [List.filterMap_cons, hgb, List.nodup_cons, List.mem_filterMap, not_exists, not_and] at h
        exact absurd hga (h.1 a ha1)
      · apply ih _ ha1 hb1
        simp only [List.filterMap_cons] at h
        split at h
        · exact h
        · exact (List.nodup_cons.mp h).2


theorem mem_snoc_ne {pre : List Ev} {e x : Ev} (hne : x ≠ e) : x ∈ pre ++ [e] ↔ x ∈ pre := by
  simp only [List.mem_append, List.mem_singleton]
  constructor
  · rintro (h | h)
    · exact h
    · exact absurd h hne
  · exact Or.inl

/-- events that leave the issuer-side part of the view alone -/
theorem rel_other {pre : List Ev} {v v' : View} {e : Ev} (h : Rel pre v)
    (hi : v'.issued = v.issued) (hn : v'.nextSeq = v.nextSeq) (hm : v'.maxRpt = v.maxRpt)
    (hhs : ∀ q c t, e ≠ Ev.hs q c t) (htx : ∀ f, e ≠ Ev.txNcid f)
    (hret : ∀ q, q ∈ v'.retired ↔ Ev.rxRetire q ∈ pre ++ [e])
    (hlim : v'.limit = limitIn (pre ++ [e]))
    (hpeer : ∀ x ∈ v'.peerIssued, (Ev.hsPeer x.1 x.2 ∈ pre ++ [e]) ∨ (∃ f, Ev.rxNcid f ∈ pre ++ [e] ∧ x = (f.seq, f.cid))) :
    Rel (pre ++ [e]) v' := by
  have hs : v'.seqs = v.seqs := by simp [View.seqs, hi]
  have hc : v'.cids = v.cids := by simp [View.cids, hi]
  have ht : v'.tokens = v.tokens := by simp [View.tokens, hi]
  refine ⟨?_, ?_, ?_, by rw [hs]; exact h.seqsNodup, by rw [hs, hn]; exact h.closed, by rw [hc]; exact h.cidsNodup,
    by rw [ht]; exact h.tokensNodup, ?_, ?_, hret, hlim, hpeer⟩
  · intro x hx
    rw [hi] at hx
    rcases h.issuedOf x hx with h1 | ⟨f, h1, h2⟩
    · exact Or.inl (List.mem_append_left _ h1)
    · exact Or.inr ⟨f, List.mem_append_left _ h1, h2⟩
  · intro f hf
    rw [hi]
    exact h.framesIn f ((mem_snoc_ne (htx f).symm).mp hf)
  · intro q c t hq
    rw [hi]
    exact h.hsIn q c t ((mem_snoc_ne (hhs q c t).symm).mp hq)
  · intro f hf
    rw [hm]
    exact h.rptAll f ((mem_snoc_ne (htx f).symm).mp hf)
  · rw [hm]
    rcases h.rptWitness with h1 | ⟨g, h1, h2⟩
    · exact Or.inl h1
    · exact Or.inr ⟨g, List.mem_append_left _ h1, h2⟩

theorem rel_step_other {pre : List Ev} {v : View} (h : Rel pre v) (e : Ev)
    (hhs : ∀ q c t, e ≠ Ev.hs q c t) (htx : ∀ f, e ≠ Ev.txNcid f) : Rel (pre ++ [e]) (observe v e) := by
  cases e with
  | hs q c t => exact absurd rfl (hhs q c t)
  | txNcid f => exact absurd rfl (htx f)
  | tp l =>
    refine rel_other h rfl rfl rfl hhs htx ?_ ?_ ?_
    · intro q
      rw [mem_snoc_ne (by intro h; cases h)]
      exact h.retiredIff q
    · rw [limitIn_snoc]; rfl
    · intro x hx
      rcases h.peerOf x hx with h1 | ⟨f, h1, h2⟩
      · exact Or.inl (List.mem_append_left _ h1)
      · exact Or.inr ⟨f, List.mem_append_left _ h1, h2⟩
  | rxRetire q0 =>
    refine rel_other h rfl rfl rfl hhs htx ?_ ?_ ?_
    · intro q
      simp only [observe, List.mem_cons, List.mem_append, Ev.rxRetire.injEq, List.not_mem_nil, or_false]
      rw [h.retiredIff q]
      constructor
      · rintro (h1 | h1)
        · exact Or.inr h1
        · exact Or.inl h1
      · rintro (h1 | h1)
        · exact Or.inr h1
        · exact Or.inl h1
    · rw [limitIn_snoc]; exact h.limitEq
    · intro x hx
      rcases h.peerOf x hx with h1 | ⟨f, h1, h2⟩
      · exact Or.inl (List.mem_append_left _ h1)
      · exact Or.inr ⟨f, List.mem_append_left _ h1, h2⟩
  | hsPeer q0 c0 =>
    refine rel_other h rfl rfl rfl hhs htx ?_ ?_ ?_
    · intro q
      rw [mem_snoc_ne (by intro h; cases h)]
      exact h.retiredIff q
    · rw [limitIn_snoc]; exact h.limitEq
    · intro x hx
      simp only [observe, List.mem_append, List.mem_singleton] at hx
      rcases hx with hx | hx
      · rcases h.peerOf x hx with h1 | ⟨f, h1, h2⟩
        · exact Or.inl (List.mem_append_left _ h1)
        · exact Or.inr ⟨f, List.mem_append_left _ h1, h2⟩
      · subst hx
        exact Or.inl (by simp)
  | rxNcid f0 =>
    refine rel_other h rfl rfl rfl hhs htx ?_ ?_ ?_
    · intro q
      rw [mem_snoc_ne (by intro h; cases h)]
      exact h.retiredIff q
    · rw [limitIn_snoc]; exact h.limitEq
    · intro x hx
      simp only [observe, List.mem_append, List.mem_singleton] at hx
      rcases hx with hx | hx
      · rcases h.peerOf x hx with h1 | ⟨f, h1, h2⟩
        · exact Or.inl (List.mem_append_left _ h1)
        · exact Or.inr ⟨f, List.mem_append_left _ h1, h2⟩
      · subst hx
        exact Or.inr ⟨f0, by simp, rfl⟩
  | txRetire q0 d0 =>
    refine rel_other h rfl rfl rfl hhs htx ?_ ?_ ?_
    · intro q
      rw [mem_snoc_ne (by intro h; cases h)]
      exact h.retiredIff q
    · rw [limitIn_snoc]; exact h.limitEq
    · intro x hx
      rcases h.peerOf x hx with h1 | ⟨f, h1, h2⟩
      · exact Or.inl (List.mem_append_left _ h1)
      · exact Or.inr ⟨f, List.mem_append_left _ h1, h2⟩


theorem issued_push {pre : List Ev} {v : View} (h : Rel pre v) (q : Nat) (c : List Nat) (t : Option (List Nat))
    (hq : q = v.nextSeq) (hc : c ∉ v.cids) (ht : ∀ tk, t = some tk → tk ∉ v.tokens) :
    ((v.issued ++ [(q, c, t)]).map (·.1)).Nodup ∧
    (∀ x, x ∈ (v.issued ++ [(q, c, t)]).map (·.1) ↔ x < max v.nextSeq (q + 1)) ∧
    ((v.issued ++ [(q, c, t)]).map (·.2.1)).Nodup ∧
    ((v.issued ++ [(q, c, t)]).filterMap (·.2.2)).Nodup := by
  have hmax : max v.nextSeq (q + 1) = q + 1 := by rw [hq]; omega
  refine ⟨?_, ?_, ?_, ?_⟩
  · simp only [List.map_append, List.map_cons, List.map_nil]
    rw [List.nodup_append]
    refine ⟨h.seqsNodup, by simp, ?_⟩
    intro a ha b hb
    simp only [List.mem_singleton] at hb
    subst hb
    have := (h.closed a).mp ha
    omega
  · intro x
    simp only [List.map_append, List.map_cons, List.map_nil, List.mem_append, List.mem_singleton, hmax]
    have := h.closed x
    simp only [View.seqs] at this
    rw [this]; omega
  · simp only [List.map_append, List.map_cons, List.map_nil]
    rw [List.nodup_append]
    refine ⟨h.cidsNodup, by simp, ?_⟩
    intro a ha b hb
    simp only [List.mem_singleton] at hb
    subst hb
    intro e; subst e; exact hc ha
  · simp only [List.filterMap_append]
    rw [List.nodup_append]
    refine ⟨h.tokensNodup, ?_, ?_⟩
    · cases t <;> simp
    · intro a ha b hb
      cases t with
      | none => simp at hb
      | some tk =>
        simp only [List.filterMap_cons, List.filterMap_nil, List.mem_singleton] at hb
        subst hb
        intro e; subst e; exact ht a rfl ha

theorem rel_step_hs {pre : List Ev} {v : View} (h : Rel pre v) (q : Nat) (c : List Nat) (t : Option (List Nat))
    (hchk : check v (.hs q c t) = none) : Rel (pre ++ [.hs q c t]) (observe v (.hs q c t)) := by
  simp only [check] at hchk
  split at hchk
  · cases hchk
  · next hq =>
    split at hchk
    · cases hchk
    · next hc =>
      split at hchk
      · cases hchk
      · next ht =>
        have hq' : q = v.nextSeq := by simpa using hq
        have hc' : c ∉ v.cids := by simpa using hc
        have ht' : ∀ tk, t = some tk → tk ∉ v.tokens := by
          intro tk htk; subst htk; simpa [View.tokenKnown] using ht
        obtain ⟨p1, p2, p3, p4⟩ := issued_push h q c t hq' hc' ht'
        refine ⟨?_, ?_, ?_, p1, p2, p3, p4, ?_, ?_, ?_, ?_, ?_⟩
        · intro x hx
          simp only [observe, List.mem_append, List.mem_singleton] at hx
          rcases hx with hx | hx
          · rcases h.issuedOf x hx with h1 | ⟨f, h1, h2⟩
            · exact Or.inl (List.mem_append_left _ h1)
            · exact Or.inr ⟨f, List.mem_append_left _ h1, h2⟩
          · subst hx; exact Or.inl (by simp)
        · intro f hf
          simp only [observe]
          exact List.mem_append_left _ (h.framesIn f ((mem_snoc_ne (by intro h; cases h)).mp hf))
        · intro q' c' t' hh
          simp only [observe, List.mem_append, List.mem_singleton] at hh ⊢
          rcases hh with hh | hh
          · exact Or.inl (h.hsIn q' c' t' hh)
          · cases hh; exact Or.inr rfl
        · intro f hf
          exact h.rptAll f ((mem_snoc_ne (by intro h; cases h)).mp hf)
        · rcases h.rptWitness with h1 | ⟨g, h1, h2⟩
          · exact Or.inl h1
          · exact Or.inr ⟨g, List.mem_append_left _ h1, h2⟩
        · intro q'
          rw [mem_snoc_ne (by intro h; cases h)]
          exact h.retiredIff q'
        · rw [limitIn_snoc]; exact h.limitEq
        · intro x hx
          rcases h.peerOf x hx with h1 | ⟨f, h1, h2⟩
          · exact Or.inl (List.mem_append_left _ h1)
          · exact Or.inr ⟨f, List.mem_append_left _ h1, h2⟩


/-- what an accepted NEW_CONNECTION_ID frame looks like in the view -/
theorem check_tx_cases {v : View} {f : Frame} (hchk : check v (.txNcid f) = none) :
    f.rpt ≤ f.seq ∧ (observe v (.txNcid f)).active.length ≤ v.limit ∧
    ((∃ e, v.find f.seq = some e ∧ e.2.1 = f.cid ∧ e.2.2 = some f.token) ∨
     (v.find f.seq = none ∧ f.seq = v.nextSeq ∧ f.cid ∉ v.cids ∧ f.token ∉ v.tokens)) := by
  simp only [check] at hchk
  split at hchk
  · cases hchk
  · next hrpt =>
    split at hchk
    · next q c t hfind =>
      split at hchk
      · cases hchk
      · next hsame =>
        split at hchk
        · next hlim =>
          refine ⟨by omega, hlim, Or.inl ⟨(q, c, t), hfind, ?_, ?_⟩⟩
          · simp only [not_or, Decidable.not_not] at hsame
            exact hsame.1
          · simp only [not_or, Decidable.not_not] at hsame
            exact hsame.2
        · cases hchk
    · next hfind =>
      split at hchk
      · cases hchk
      · next hseq =>
        split at hchk
        · cases hchk
        · next hc =>
          split at hchk
          · cases hchk
          · next ht =>
            split at hchk
            · next hlim =>
              exact ⟨by omega, hlim, Or.inr ⟨hfind, by simpa using hseq, by simpa using hc, by simpa using ht⟩⟩
            · cases hchk

theorem rel_step_tx {pre : List Ev} {v : View} (h : Rel pre v) (f : Frame)
    (hchk : check v (.txNcid f) = none) : Rel (pre ++ [.txNcid f]) (observe v (.txNcid f)) := by
  obtain ⟨_, _, hcase⟩ := check_tx_cases hchk
  have hrptAll : ∀ g, Ev.txNcid g ∈ pre ++ [Ev.txNcid f] → g.rpt ≤ max v.maxRpt f.rpt := by
    intro g hg
    simp only [List.mem_append, List.mem_singleton, Ev.txNcid.injEq] at hg
    rcases hg with hg | hg
    · exact Nat.le_trans (h.rptAll g hg) (Nat.le_max_left _ _)
    · subst hg; exact Nat.le_max_right _ _
  have hrptW : max v.maxRpt f.rpt = 0 ∨ ∃ g, Ev.txNcid g ∈ pre ++ [Ev.txNcid f] ∧ g.rpt = max v.maxRpt f.rpt := by
    by_cases hle : f.rpt ≤ v.maxRpt
    · have : max v.maxRpt f.rpt = v.maxRpt := Nat.max_eq_left hle
      rw [this]
      rcases h.rptWitness with h1 | ⟨g, h1, h2⟩
      · exact Or.inl h1
      · exact Or.inr ⟨g, List.mem_append_left _ h1, h2⟩
    · have : max v.maxRpt f.rpt = f.rpt := Nat.max_eq_right (by omega)
      rw [this]
      exact Or.inr ⟨f, by simp, rfl⟩
  have hretd : ∀ q, q ∈ v.retired ↔ Ev.rxRetire q ∈ pre ++ [Ev.txNcid f] := by
    intro q
    rw [mem_snoc_ne (by intro h; cases h)]
    exact h.retiredIff q
  have hpeer : ∀ x ∈ v.peerIssued, (Ev.hsPeer x.1 x.2 ∈ pre ++ [Ev.txNcid f]) ∨
      (∃ g, Ev.rxNcid g ∈ pre ++ [Ev.txNcid f] ∧ x = (g.seq, g.cid)) := by
    intro x hx
    rcases h.peerOf x hx with h1 | ⟨g, h1, h2⟩
    · exact Or.inl (List.mem_append_left _ h1)
    · exact Or.inr ⟨g, List.mem_append_left _ h1, h2⟩
  have hlimit : v.limit = limitIn (pre ++ [Ev.txNcid f]) := by rw [limitIn_snoc]; exact h.limitEq
  rw [observe_tx]
  rcases hcase with ⟨e, hfind, hcid, htok⟩ | ⟨hfind, hseq, hc, ht⟩
  · -- retransmission
    have hmem := find_some_mem v f.seq hfind
    rw [hfind]
    refine ⟨?_, ?_, ?_, h.seqsNodup, h.closed, h.cidsNodup, h.tokensNodup, hrptAll, hrptW, hretd, hlimit, hpeer⟩
    · intro x hx
      rcases h.issuedOf x hx with h1 | ⟨g, h1, h2⟩
      · exact Or.inl (List.mem_append_left _ h1)
      · exact Or.inr ⟨g, List.mem_append_left _ h1, h2⟩
    · intro g hg
      simp only [List.mem_append, List.mem_singleton, Ev.txNcid.injEq] at hg
      rcases hg with hg | hg
      · exact h.framesIn g hg
      · subst hg
        obtain ⟨q, c, t⟩ := e
        simp only at hcid htok hmem
        obtain ⟨hm1, hm2⟩ := hmem
        subst hcid htok hm2
        exact hm1
    · intro q c t hh
      exact h.hsIn q c t ((mem_snoc_ne (by intro h; cases h)).mp hh)
  · rw [hfind]
    obtain ⟨p1, p2, p3, p4⟩ := issued_push h f.seq f.cid (some f.token) hseq hc (by intro tk htk; cases htk; exact ht)
    refine ⟨?_, ?_, ?_, p1, p2, p3, p4, hrptAll, hrptW, hretd, hlimit, hpeer⟩
    · intro x hx
      simp only [List.mem_append, List.mem_singleton] at hx
      rcases hx with hx | hx
      · rcases h.issuedOf x hx with h1 | ⟨g, h1, h2⟩
        · exact Or.inl (List.mem_append_left _ h1)
        · exact Or.inr ⟨g, List.mem_append_left _ h1, h2⟩
      · subst hx; exact Or.inr ⟨f, by simp, rfl⟩
    · intro g hg
      simp only [List.mem_append, List.mem_singleton, Ev.txNcid.injEq] at hg ⊢
      rcases hg with hg | hg
      · exact Or.inl (h.framesIn g hg)
      · subst hg; exact Or.inr rfl
    · intro q c t hh
      simp only [List.mem_append]
      exact Or.inl (h.hsIn q c t ((mem_snoc_ne (by intro h; cases h)).mp hh))


theorem issuedIn_of_seqs {pre : List Ev} {v : View} (h : Rel pre v) (q : Nat) (hq : q ∈ v.seqs) : IssuedIn pre q := by
  simp only [View.seqs, List.mem_map] at hq
  obtain ⟨e, he, rfl⟩ := hq
  rcases h.issuedOf e he with h1 | ⟨g, h1, h2⟩
  · exact Or.inl ⟨e.2.1, e.2.2, h1⟩
  · exact Or.inr ⟨g, h1, by rw [h2]⟩

theorem seqs_of_issuedIn {pre : List Ev} {v : View} (h : Rel pre v) (q : Nat) (hq : IssuedIn pre q) : q ∈ v.seqs := by
  simp only [View.seqs, List.mem_map]
  rcases hq with ⟨c, t, h1⟩ | ⟨g, h1, h2⟩
  · exact ⟨(q, c, t), h.hsIn q c t h1, rfl⟩
  · exact ⟨(g.seq, g.cid, some g.token), h.framesIn g h1, h2⟩

theorem good_tx {pre : List Ev} {v : View} (h : Rel pre v) (f : Frame) (hchk : check v (.txNcid f) = none) :
    Good pre (.txNcid f) := by
  have hrel' := rel_step_tx h f hchk
  obtain ⟨hrpt, hlim, hcase⟩ := check_tx_cases hchk
  -- entries of the view with equal sequence numbers / ids / tokens coincide
  have hseqInj : ∀ a b, a ∈ v.issued → b ∈ v.issued → a.1 = b.1 → a = b :=
    fun a b ha hb hab => nodup_map_inj (fun x : Nat × List Nat × Option (List Nat) => x.1) v.issued h.seqsNodup a b ha hb hab
  have hcidInj : ∀ a b, a ∈ v.issued → b ∈ v.issued → a.2.1 = b.2.1 → a = b :=
    fun a b ha hb hab => nodup_map_inj (fun x : Nat × List Nat × Option (List Nat) => x.2.1) v.issued h.cidsNodup a b ha hb hab
  have htokInj : ∀ a b t, a ∈ v.issued → b ∈ v.issued → a.2.2 = some t → b.2.2 = some t → a = b :=
    fun a b t ha hb h1 h2 => nodup_filterMap_inj (fun x : Nat × List Nat × Option (List Nat) => x.2.2) v.issued h.tokensNodup a b t ha hb h1 h2
  refine ⟨hrpt, ?_, ?_, ?_, ?_, ?_⟩
  · -- same sequence number
    intro g hg hseq
    have hgi := h.framesIn g hg
    rcases hcase with ⟨e, hfind, hcid, htok⟩ | ⟨hfind, _, _, _⟩
    · have hmem := find_some_mem v f.seq hfind
      have := hseqInj _ _ hgi hmem.1 (by simp [hseq, hmem.2])
      obtain ⟨q, c, t⟩ := e
      simp only [Prod.mk.injEq] at this
      simp only at hcid htok
      refine ⟨by rw [this.2.1, hcid], ?_⟩
      have h3 := this.2.2
      rw [htok] at h3
      exact Option.some.inj h3
    · have : g.seq ∈ v.seqs := List.mem_map.mpr ⟨_, hgi, rfl⟩
      rw [hseq] at this
      exact absurd this ((find_none_iff v f.seq).mp hfind)
  · -- distinct sequence numbers
    intro g hg hseq
    have hgi := h.framesIn g hg
    rcases hcase with ⟨e, hfind, hcid, htok⟩ | ⟨_, _, hc, ht⟩
    · have hmem := find_some_mem v f.seq hfind
      constructor
      · intro hcc
        have := hcidInj _ _ hgi hmem.1 (by simp [hcc, hcid])
        have h1 : g.seq = e.1 := by rw [← this]
        exact hseq (h1.trans hmem.2)
      · intro htt
        have := htokInj _ _ f.token hgi hmem.1 (by simp [htt]) htok
        have h1 : g.seq = e.1 := by rw [← this]
        exact hseq (h1.trans hmem.2)
    · constructor
      · intro hcc
        apply hc
        simp only [View.cids, List.mem_map]
        exact ⟨_, hgi, hcc⟩
      · intro htt
        apply ht
        simp only [View.tokens, List.mem_filterMap]
        exact ⟨_, hgi, by simp [htt]⟩
  · -- w.r.t. the handshake ids
    intro q c t hh hseq
    have hgi := h.hsIn q c t hh
    rcases hcase with ⟨e, hfind, hcid, htok⟩ | ⟨_, _, hc, ht⟩
    · have hmem := find_some_mem v f.seq hfind
      constructor
      · intro hcc
        have := hcidInj _ _ hgi hmem.1 (by simp [hcc, hcid])
        have h1 : q = e.1 := by rw [← this]
        exact hseq (h1.trans hmem.2)
      · intro htt
        have := htokInj _ _ f.token hgi hmem.1 (by simp [htt]) htok
        have h1 : q = e.1 := by rw [← this]
        exact hseq (h1.trans hmem.2)
    · constructor
      · intro hcc
        apply hc
        simp only [View.cids, List.mem_map]
        exact ⟨_, hgi, hcc⟩
      · intro htt
        apply ht
        simp only [View.tokens, List.mem_filterMap]
        exact ⟨_, hgi, by simp [htt]⟩
  · -- consecutive
    intro q hq
    apply issuedIn_of_seqs h
    rw [h.closed]
    rcases hcase with ⟨e, hfind, _, _⟩ | ⟨_, hseq, _, _⟩
    · have hmem := find_some_mem v f.seq hfind
      have : f.seq ∈ v.seqs := List.mem_map.mpr ⟨e, hmem.1, hmem.2⟩
      have := (h.closed f.seq).mp this
      omega
    · omega
  · -- the limit
    intro L hL hall
    refine Nat.le_trans ?_ (Nat.le_trans hlim (Nat.le_of_eq h.limitEq))
    apply List.Nodup.length_le_of_subset hL
    intro q hq
    obtain ⟨hiss, hge, hnr⟩ := hall q hq
    rw [mem_active]
    refine ⟨seqs_of_issuedIn hrel' q hiss, ?_, ?_⟩
    · rcases hrel'.rptWitness with h0 | ⟨g, hg, hgr⟩
      · rw [h0]; exact Nat.zero_le _
      · rw [← hgr]; exact hge g hg
    · rw [observe_tx_retired, h.retiredIff]
      exact hnr

theorem good_retire {pre : List Ev} {v : View} (h : Rel pre v) (q : Nat) (d : Option (List Nat))
    (hchk : check v (.txRetire q d) = none) : Good pre (.txRetire q d) := by
  simp only [check] at hchk
  split at hchk
  · cases hchk
  · next q' c hfind =>
    split at hchk
    · cases hchk
    · next hne =>
      have hmem := List.mem_of_find?_eq_some hfind
      have hq : q' = q := by simpa using List.find?_some hfind
      subst hq
      refine ⟨c, ?_, hne⟩
      rcases h.peerOf _ hmem with h1 | ⟨g, h1, h2⟩
      · exact Or.inl h1
      · simp only [Prod.mk.injEq] at h2
        exact Or.inr ⟨g, h1, h2.1.symm, h2.2.symm⟩

theorem rel_step {pre : List Ev} {v v' : View} (h : Rel pre v) (e : Ev) (hs : step v e = .ok v') :
    Rel (pre ++ [e]) v' ∧ Good pre e := by
  unfold step at hs
  split at hs
  · cases hs
  · next hchk =>
    cases hs
    cases e with
    | tp l => exact ⟨rel_step_other h _ (by intro _ _ _ h; cases h) (by intro _ h; cases h), trivial⟩
    | hs q c t => exact ⟨rel_step_hs h q c t hchk, trivial⟩
    | txNcid f => exact ⟨rel_step_tx h f hchk, good_tx h f hchk⟩
    | rxRetire q => exact ⟨rel_step_other h _ (by intro _ _ _ h; cases h) (by intro _ h; cases h), trivial⟩
    | hsPeer q c => exact ⟨rel_step_other h _ (by intro _ _ _ h; cases h) (by intro _ h; cases h), trivial⟩
    | rxNcid f => exact ⟨rel_step_other h _ (by intro _ _ _ h; cases h) (by intro _ h; cases h), trivial⟩
    | txRetire q d =>
      exact ⟨rel_step_other h _ (by intro _ _ _ h; cases h) (by intro _ h; cases h), good_retire h q d hchk⟩

theorem run_good {pre : List Ev} {v v' : View} (h : Rel pre v) (es : List Ev) (hr : run v es = .ok v') :
    ∀ p1 e p2, es = p1 ++ e :: p2 → Good (pre ++ p1) e := by
  induction es generalizing pre v with
  | nil => intro p1 e p2 h; simp at h
  | cons e0 rest ih =>
    unfold run at hr
    split at hr
    · next v1 hstep =>
      obtain ⟨hrel, hgood⟩ := rel_step h e0 hstep
      intro p1 e p2 heq
      cases p1 with
      | nil =>
        simp only [List.nil_append, List.cons.injEq] at heq
        rw [← heq.1, List.append_nil]; exact hgood
      | cons x p1' =>
        simp only [List.cons_append, List.cons.injEq] at heq
        have := ih hrel hr p1' e p2 heq.2
        rw [← heq.1]
        simpa [List.append_assoc] using this
    · cases hr

end Quic.Proofs.PeerView
