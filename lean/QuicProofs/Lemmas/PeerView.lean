import QuicModel.Rfc.PeerView
/-
  Facts about the RFC reference `Rfc.PeerView` (observe / check / step / run) used by C13.
-/
namespace Quic.Proofs.PeerView
open Quic.Rfc.PeerView

theorem find_none_iff (v : View) (q : Nat) : v.find q = none ↔ q ∉ v.seqs := by
  unfold View.find View.seqs
  rw [List.find?_eq_none]
  simp only [List.mem_map, not_exists, not_and]
  constructor
  · intro h e he heq
    exact h e he (by simp [heq])
  · intro h e he
    simp only [beq_iff_eq]
    intro heq
    exact h e he heq

theorem find_some_mem (v : View) (q : Nat) {e} (h : v.find q = some e) : e ∈ v.issued ∧ e.1 = q := by
  unfold View.find at h
  have h1 := List.mem_of_find?_eq_some h
  have h2 := List.find?_some h
  exact ⟨h1, by simpa using h2⟩

@[simp] theorem observe_rxRetire_seqs (v : View) (q : Nat) : (observe v (.rxRetire q)).seqs = v.seqs := rfl
@[simp] theorem observe_rxRetire_maxRpt (v : View) (q : Nat) : (observe v (.rxRetire q)).maxRpt = v.maxRpt := rfl
@[simp] theorem observe_rxRetire_retired (v : View) (q : Nat) : (observe v (.rxRetire q)).retired = q :: v.retired := rfl
@[simp] theorem observe_rxRetire_issued (v : View) (q : Nat) : (observe v (.rxRetire q)).issued = v.issued := rfl

theorem filter_sublist_of_imp {α : Type} (l : List α) (p q : α → Bool) (h : ∀ a, p a = true → q a = true) :
    (l.filter p).Sublist (l.filter q) := by
  induction l with
  | nil => simp
  | cons a rest ih =>
    simp only [List.filter_cons]
    by_cases hp : p a = true
    · simp only [hp, h a hp, if_true]
      exact ih.cons₂ a
    · have hp' : p a = false := by simpa using hp
      by_cases hq : q a = true
      · simp only [hp', hq, if_true, Bool.false_eq_true, if_false]
        exact ih.cons a
      · have hq' : q a = false := by simpa using hq
        simp only [hp', hq', Bool.false_eq_true, if_false]
        exact ih

theorem active_rxRetire_sublist (v : View) (q : Nat) : (observe v (.rxRetire q)).active.Sublist v.active := by
  show (v.seqs.filter (fun s => decide (v.maxRpt ≤ s) && !((q :: v.retired).contains s))).Sublist
       (v.seqs.filter (fun s => decide (v.maxRpt ≤ s) && !(v.retired.contains s)))
  apply filter_sublist_of_imp
  intro s
  simp only [Bool.and_eq_true, decide_eq_true_eq, Bool.not_eq_true', List.contains_cons, Bool.or_eq_false_iff]
  intro h
  exact ⟨h.1, h.2.2⟩

theorem observe_tx (v : View) (f : Frame) : observe v (.txNcid f) =
    match v.find f.seq with
    | some _ => { v with maxRpt := max v.maxRpt f.rpt }
    | none => { v with issued := v.issued ++ [(f.seq, f.cid, some f.token)], nextSeq := max v.nextSeq (f.seq + 1),
                       maxRpt := max v.maxRpt f.rpt } := rfl

theorem observe_tx_retired (v : View) (f : Frame) : (observe v (.txNcid f)).retired = v.retired := by
  rw [observe_tx]; split <;> rfl

theorem observe_tx_limit (v : View) (f : Frame) : (observe v (.txNcid f)).limit = v.limit := by
  rw [observe_tx]; split <;> rfl

theorem observe_tx_peerIssued (v : View) (f : Frame) : (observe v (.txNcid f)).peerIssued = v.peerIssued := by
  rw [observe_tx]; split <;> rfl

theorem observe_tx_maxRpt (v : View) (f : Frame) : (observe v (.txNcid f)).maxRpt = max v.maxRpt f.rpt := by
  rw [observe_tx]; split <;> rfl

theorem observe_tx_seqs_mem (v : View) (f : Frame) (q : Nat) :
    q ∈ (observe v (.txNcid f)).seqs ↔ q ∈ v.seqs ∨ q = f.seq := by
  rw [observe_tx]
  split
  · next e he =>
    have := find_some_mem v f.seq he
    simp only [View.seqs]
    constructor
    · intro h; exact Or.inl h
    · rintro (h | h)
      · exact h
      · subst h
        exact List.mem_map.mpr ⟨e, this.1, this.2⟩
  · simp [View.seqs]

theorem observe_tx_seqs_nodup (v : View) (f : Frame) (h : v.seqs.Nodup) : (observe v (.txNcid f)).seqs.Nodup := by
  rw [observe_tx]
  split
  · exact h
  · next hn =>
    have := (find_none_iff v f.seq).mp hn
    simp only [View.seqs, List.map_append, List.map_cons, List.map_nil]
    rw [List.nodup_append]
    refine ⟨h, by simp, ?_⟩
    intro a ha b hb
    simp only [List.mem_singleton] at hb
    subst hb
    intro e; subst e; exact this ha

/-- frames of one `on_transmit` call: all carry the same Retire Prior To -/
theorem foldl_tx (fs : List Frame) (r : Nat) (hr : ∀ f ∈ fs, f.rpt = r) (v : View) :
    let v' := (fs.map Ev.txNcid).foldl observe v
    v'.retired = v.retired ∧ (fs = [] → v' = v) ∧ (fs ≠ [] → v'.maxRpt = max v.maxRpt r) ∧
    (v.seqs.Nodup → v'.seqs.Nodup) ∧ (∀ q, q ∈ v'.seqs ↔ q ∈ v.seqs ∨ q ∈ fs.map (·.seq)) := by
  induction fs generalizing v with
  | nil => simp
  | cons f rest ih =>
    have hf : f.rpt = r := hr f (by simp)
    have ih' := ih (fun g hg => hr g (by simp [hg])) (observe v (.txNcid f))
    simp only [List.map_cons, List.foldl_cons] at ih' ⊢
    obtain ⟨h1, h2, h3, h4, h5⟩ := ih'
    refine ⟨by rw [h1, observe_tx_retired], by simp, ?_, ?_, ?_⟩
    · intro _
      by_cases hrest : rest = []
      · subst hrest
        simp only [List.map_nil, List.foldl_nil]
        rw [observe_tx_maxRpt, hf]
      · rw [h3 hrest, observe_tx_maxRpt, hf]
        omega
    · intro hn
      exact h4 (observe_tx_seqs_nodup v f hn)
    · intro q
      rw [h5 q, observe_tx_seqs_mem]
      simp only [List.mem_cons, List.mem_map]
      constructor
      · rintro ((h | h) | h)
        · exact Or.inl h
        · exact Or.inr (Or.inl h)
        · exact Or.inr (Or.inr h)
      · rintro (h | h | h)
        · exact Or.inl (Or.inl h)
        · exact Or.inl (Or.inr h)
        · exact Or.inr h

theorem active_nodup (v : View) (h : v.seqs.Nodup) : v.active.Nodup := by
  unfold View.active
  exact h.sublist List.filter_sublist

theorem mem_active (v : View) (q : Nat) : q ∈ v.active ↔ q ∈ v.seqs ∧ v.maxRpt ≤ q ∧ q ∉ v.retired := by
  unfold View.active
  simp [List.mem_filter]

end Quic.Proofs.PeerView
