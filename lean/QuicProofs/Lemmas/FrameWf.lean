import QuicProofs.Lemmas.Frame
/- every value `Codec.decodeFrame` returns satisfies `WF` (decoder range ⊆ WF; with the round-trip
   theorems: = WF) -/
namespace Quic.Proofs.Frame
open Quic Quic.Codec Quic.Codec.Frame

theorem dec1_wf (mk : Nat → Frame) (hmk : ∀ x, V x → WF (mk x)) {b r : List Nat} {f : Frame}
    (h : dec1 mk b = .ok (f, r)) : WF f := by
  unfold dec1 at h
  repeat' (res_split h)
  rename_i x r1 h1
  simp at h; rw [← h.1]; exact hmk _ (decVar_len h1).2

theorem dec2_wf (mk : Nat → Nat → Frame) (hmk : ∀ x y, V x → V y → WF (mk x y)) {b r : List Nat} {f : Frame}
    (h : dec2 mk b = .ok (f, r)) : WF f := by
  unfold dec2 at h
  repeat' (res_split h)
  rename_i x r1 h1 _ y r2 h2
  simp at h; rw [← h.1]; exact hmk _ _ (decVar_len h1).2 (decVar_len h2).2

theorem dec3_wf (mk : Nat → Nat → Nat → Frame) (hmk : ∀ x y z, V x → V y → V z → WF (mk x y z)) {b r : List Nat} {f : Frame}
    (h : dec3 mk b = .ok (f, r)) : WF f := by
  unfold dec3 at h
  repeat' (res_split h)
  rename_i x r1 h1 _ y r2 h2 _ z r3 h3
  simp at h; rw [← h.1]; exact hmk _ _ _ (decVar_len h1).2 (decVar_len h2).2 (decVar_len h3).2

theorem decStreamLimit_wf (mk : Nat → Frame) (hmk : ∀ x, x ≤ maxStreamsBound → WF (mk x)) {b r : List Nat} {f : Frame}
    (h : decStreamLimit mk b = .ok (f, r)) : WF f := by
  unfold decStreamLimit at h
  repeat' (res_split h)
  rename_i x r1 h1 hle
  simp at h; rw [← h.1]; exact hmk _ hle

theorem decCrypto_wf {b r : List Nat} {f : Frame} (h : decCrypto b = .ok (f, r)) : WF f := by
  unfold decCrypto at h
  repeat' (res_split h)
  rename_i x r1 h1 _ d r2 h2
  simp at h; rw [← h.1]
  exact ⟨(decVar_len h1).2, (decSliceVar_len h2).2⟩

theorem decNewToken_wf {b r : List Nat} {f : Frame} (h : decNewToken b = .ok (f, r)) : WF f := by
  unfold decNewToken at h
  repeat' (res_split h)
  rename_i d r2 h2 hne
  simp at h; rw [← h.1]
  refine ⟨?_, (decSliceVar_len h2).2⟩
  intro e; simp [e] at hne

theorem decPath_wf (mk : List Nat → Frame) (hmk : ∀ d, d.length = pathDataLen → WF (mk d)) {b r : List Nat} {f : Frame}
    (h : decPath mk b = .ok (f, r)) : WF f := by
  unfold decPath at h
  repeat' (res_split h)
  rename_i d r1 h1
  simp at h; rw [← h.1]; exact hmk _ (decSlice_len h1).2

theorem decNewConnectionId_wf {b r : List Nat} {f : Frame} (h : decNewConnectionId b = .ok (f, r)) : WF f := by
  unfold decNewConnectionId at h
  repeat' (res_split h)
  rename_i seq r1 h1 _ rpt r2 h2 hlt _ len r3 h3 hlen _ cid r4 h4 _ tok r5 h5
  simp at h; rw [← h.1]
  have := (decSlice_len h4).2
  have := (decSlice_len h5).2
  simp only [WF]
  refine ⟨(decVar_len h1).2, by omega, by omega, by omega, by omega⟩

theorem decConnectionClose_wf (tag : Nat) {b r : List Nat} {f : Frame} (h : decConnectionClose tag b = .ok (f, r)) : WF f := by
  unfold decConnectionClose at h
  res_split h
  rename_i code r1 h1
  res_split h
  rename_i ft r2 h2
  res_split h
  rename_i reason r3 h3
  simp at h; rw [← h.1]
  simp only [WF]
  refine ⟨(decVar_len h1).2, ?_, ?_⟩
  · by_cases ht : tag = 28
    · simp only [ht, if_true] at h2
      res_split h2
      rename_i x r' hx
      simp at h2; rw [← h2.1]; exact (decVar_len hx).2
    · simp only [ht, if_false] at h2
      simp at h2; rw [← h2.1]; trivial
  · by_cases he : reason = []
    · simp [he, OptAll]
    · simp [he, OptAll]; exact (decSliceVar_len h3).2

theorem decDcTokens_wf {b r : List Nat} {f : Frame} (h : decDcTokens b = .ok (f, r)) : WF f := by
  unfold decDcTokens at h
  repeat' (res_split h)
  rename_i count r1 h1 hz hm hl
  simp at h; rw [← h.1]
  simp only [WF, List.length_take, resetTokenLen, dcMaxCount] at *
  omega

theorem decMtu_wf {b r : List Nat} {f : Frame} (hb : BytesOk b) (h : decMtu b = .ok (f, r)) : WF f := by
  unfold decMtu at h
  res_split h
  rename_i m r0 hm
  unfold decU16 at hm
  res_split hm
  rename_i s r1 h1
  simp at h; rw [← h.1]
  simp at hm
  rw [← hm.1]
  unfold decSlice at h1
  split at h1
  · simp at h1
  · simp at h1
    match b, hb with
    | x :: y :: t, hb =>
      have hx := hb x (by simp); have hy := hb y (by simp)
      rw [← h1.1]
      simp [WF, beVal]; omega
    | [_], _ => simp at *
    | [], _ => simp at *

theorem decStream_wf (tag : Nat) {b r : List Nat} {f : Frame} (hl : b.length ≤ VarInt.maxValue)
    (h : decStream tag b = .ok (f, r)) : WF f := by
  unfold decStream at h
  res_split h
  rename_i sid r1 h1
  res_split h
  rename_i off r2 h2
  have l1 := decVar_len h1
  have ho : V off ∧ r2.length ≤ r1.length := by
    by_cases ht : tag / 4 % 2 = 1
    · simp only [ht, if_true] at h2
      have := decVar_len h2
      exact ⟨this.2, by omega⟩
    · simp only [ht, if_false] at h2
      simp at h2; rw [← h2.1, ← h2.2]; exact ⟨Nat.zero_le _, Nat.le_refl _⟩
  split at h
  · simp at h; rw [← h.1]
    exact ⟨l1.2, ho.1, by unfold V; omega⟩
  · res_split h
    rename_i d r3 h3
    simp at h; rw [← h.1]
    exact ⟨l1.2, ho.1, (decSliceVar_len h3).2⟩

theorem decDatagram_wf (tag : Nat) {b r : List Nat} {f : Frame} (hl : b.length ≤ VarInt.maxValue)
    (h : decDatagram tag b = .ok (f, r)) : WF f := by
  unfold decDatagram at h
  split at h
  · simp at h; rw [← h.1]; exact hl
  · res_split h
    rename_i d r3 h3
    simp at h; rw [← h.1]
    exact (decSliceVar_len h3).2

/-- what the range iterator yields is descending, disjoint and non-adjacent, starting at `largest` -/
theorem ackIter_wf : ∀ (n L : Nat) (buf : List Nat) {rs : List (Nat × Nat)} {r : List Nat},
    ackIter (n + 1) L buf = some (rs, r) → ∃ s rs', rs = (s, L) :: rs' ∧ s ≤ L ∧ RangesBelow s rs' := by
  intro n
  induction n with
  | zero =>
    intro L buf rs r h
    rw [ackIter] at h
    split at h
    · simp at h
    · split at h
      · simp at h
      · simp at h
        exact ⟨_, [], h.1.symm, by omega, trivial⟩
  | succ n ih =>
    intro L buf rs r h
    rw [ackIter] at h
    split at h
    · simp at h
    · rename_i ackRange buf1 h1
      split at h
      · simp at h
      · simp only [Nat.add_one_ne_zero, if_false] at h
        split at h
        · simp at h
        · rename_i gap buf2 h2
          split at h
          · simp at h
          · split at h
            · simp at h
            · split at h
              · simp at h
              · rename_i rs' r' h3
                obtain ⟨s', rs'', e, hs, hb⟩ := ih _ _ h3
                simp at h
                refine ⟨_, rs', h.1.symm, by omega, ?_⟩
                rw [e]
                exact ⟨hs, by omega, hb⟩

theorem decAck_wf (tag : Nat) {b r : List Nat} {f : Frame} (h : decAck tag b = .ok (f, r)) : WF f := by
  unfold decAck at h
  res_split h
  rename_i largest r1 h1
  res_split h
  rename_i delay r2 h2
  res_split h
  rename_i ranges r3 h3
  have hr : AckRangesWF ranges := by
    unfold decAckRanges at h3
    res_split h3
    rename_i count r' hc
    split at h3
    · simp at h3
    · rename_i hcount
      res_split h3
      rename_i rs rest hi
      simp at h3
      rw [← h3.1]
      obtain ⟨s, rs', e, hs, hb⟩ := ackIter_wf _ _ _ hi
      have hlen := (ackIter_len _ _ _ hi).2
      rw [e]
      rw [e] at hlen
      simp at hlen
      exact ⟨hs, (decVar_len h1).2, hb, by omega⟩
  split at h
  · res_split h
    rename_i ecn r4 h4
    simp at h; rw [← h.1]
    refine ⟨(decVar_len h2).2, hr, ?_⟩
    unfold decEcn at h4
    repeat' (res_split h4)
    rename_i a ra ha _ b' rb hb _ c rc hc
    simp at h4; rw [← h4.1]
    exact ⟨(decVar_len ha).2, (decVar_len hb).2, (decVar_len hc).2⟩
  · simp at h; rw [← h.1]
    exact ⟨(decVar_len h2).2, hr, trivial⟩

theorem bytesOk_of_decVar {b r : List Nat} {v : Nat} (h : decVar b = .ok (v, r)) (hb : BytesOk b) : BytesOk r := by
  unfold decVar at h
  split at h
  · rename_i v' r' h'
    simp at h
    obtain ⟨_, n, _, _, hr⟩ := Proofs.C05.decode_consumes b r' v' h'
    rw [← h.2, hr]
    exact fun x hx => hb x (List.mem_of_mem_drop hx)
  · simp at h

theorem handleExtension_wf {b r : List Nat} {f : Frame} (hb : BytesOk b) (h : handleExtension b = .ok (f, r)) : WF f := by
  unfold handleExtension at h
  res_split h
  rename_i tag r1 h1
  have hb1 := bytesOk_of_decVar h1 hb
  split at h
  · exact decDcTokens_wf h
  · split at h
    · exact decMtu_wf hb1 h
    · simp at h

/-- every value the decoder returns is well-formed (so `WF` is exactly the decoder's range, and a
    decoded frame can always be re-encoded without the encoder panicking) -/
theorem decodeFrame_wf {b r : List Nat} {f : Frame} (hb : BytesOk b) (hl : b.length < 2 ^ 62)
    (h : decodeFrame b = .ok (f, r)) : WF f := by
  unfold decodeFrame at h
  match b, hb, hl, h with
  | [], _, _, h => simp at h
  | tag :: t, hb, hl, h =>
    simp only [] at h
    have hlt : t.length ≤ VarInt.maxValue := by simp [VarInt.maxValue] at hl ⊢; omega
    by_cases c0 : 64 ≤ tag
    · rw [if_pos c0] at h; exact handleExtension_wf hb h
    rw [if_neg c0] at h
    by_cases c1 : tag = 0
    · rw [if_pos c1] at h; simp [decPadding] at h; rw [← h.1]; simp [WF]
    rw [if_neg c1] at h
    by_cases c2 : tag = 1
    · rw [if_pos c2] at h; simp at h; rw [← h.1]; trivial
    rw [if_neg c2] at h
    by_cases c3 : tag = 2 ∨ tag = 3
    · rw [if_pos c3] at h; exact decAck_wf _ h
    rw [if_neg c3] at h
    by_cases c4 : tag = 4
    · rw [if_pos c4] at h; exact dec3_wf Frame.resetStream (fun _ _ _ a b c => ⟨a, b, c⟩) h
    rw [if_neg c4] at h
    by_cases c5 : tag = 5
    · rw [if_pos c5] at h; exact dec2_wf Frame.stopSending (fun _ _ a b => ⟨a, b⟩) h
    rw [if_neg c5] at h
    by_cases c6 : tag = 6
    · rw [if_pos c6] at h; exact decCrypto_wf h
    rw [if_neg c6] at h
    by_cases c7 : tag = 7
    · rw [if_pos c7] at h; exact decNewToken_wf h
    rw [if_neg c7] at h
    by_cases c8 : 8 ≤ tag ∧ tag ≤ 15
    · rw [if_pos c8] at h; exact decStream_wf _ hlt h
    rw [if_neg c8] at h
    by_cases c9 : tag = 16
    · rw [if_pos c9] at h; exact dec1_wf Frame.maxData (fun _ a => a) h
    rw [if_neg c9] at h
    by_cases c10 : tag = 17
    · rw [if_pos c10] at h; exact dec2_wf Frame.maxStreamData (fun _ _ a b => ⟨a, b⟩) h
    rw [if_neg c10] at h
    by_cases c11 : tag = 18 ∨ tag = 19
    · rw [if_pos c11] at h; exact decStreamLimit_wf (Frame.maxStreams (decide (tag = 18))) (fun _ a => a) h
    rw [if_neg c11] at h
    by_cases c12 : tag = 20
    · rw [if_pos c12] at h; exact dec1_wf Frame.dataBlocked (fun _ a => a) h
    rw [if_neg c12] at h
    by_cases c13 : tag = 21
    · rw [if_pos c13] at h; exact dec2_wf Frame.streamDataBlocked (fun _ _ a b => ⟨a, b⟩) h
    rw [if_neg c13] at h
    by_cases c14 : tag = 22 ∨ tag = 23
    · rw [if_pos c14] at h; exact decStreamLimit_wf (Frame.streamsBlocked (decide (tag = 22))) (fun _ a => a) h
    rw [if_neg c14] at h
    by_cases c15 : tag = 24
    · rw [if_pos c15] at h; exact decNewConnectionId_wf h
    rw [if_neg c15] at h
    by_cases c16 : tag = 25
    · rw [if_pos c16] at h; exact dec1_wf Frame.retireConnectionId (fun _ a => a) h
    rw [if_neg c16] at h
    by_cases c17 : tag = 26
    · rw [if_pos c17] at h; exact decPath_wf Frame.pathChallenge (fun _ a => a) h
    rw [if_neg c17] at h
    by_cases c18 : tag = 27
    · rw [if_pos c18] at h; exact decPath_wf Frame.pathResponse (fun _ a => a) h
    rw [if_neg c18] at h
    by_cases c19 : tag = 28 ∨ tag = 29
    · rw [if_pos c19] at h; exact decConnectionClose_wf _ h
    rw [if_neg c19] at h
    by_cases c20 : tag = 30
    · rw [if_pos c20] at h; simp at h; rw [← h.1]; trivial
    rw [if_neg c20] at h
    by_cases c21 : tag = 48 ∨ tag = 49
    · rw [if_pos c21] at h; exact decDatagram_wf _ hlt h
    rw [if_neg c21] at h
    exact handleExtension_wf hb h

end Quic.Proofs.Frame
