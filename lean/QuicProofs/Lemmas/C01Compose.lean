import QuicModel.Stream.DataSender
import QuicModel.Data.RefBufSpec
import QuicProofs.Lemmas.DataSender
/-
  Helper lemmas for the end-to-end composition of C01: what the data sender put on the wire
  (`Quic.Stream.DataSender`) is `Consistent` with the bytes the sending application wrote, in the
  vocabulary of the receiver-side theorems (`Quic.Data.RefBuf`), and `written` is exactly the
  concatenation of the pushes the sender accepted.
-/
namespace Quic.Proofs.C01Compose
open Quic.Stream.DataSender
open Quic.Proofs.DataSender

variable {F : Type}

/-- a STREAM frame of the sender as it arrives at the receiver -/
def toRef (fr : Frame) : Quic.Data.RefBuf.Frame := ⟨fr.off, fr.data, fr.fin⟩

/-- every frame of any history is consistent with the FINAL `written`: it carries `written`'s
    bytes at its offset, does not reach beyond `|written|`, and a FIN ends exactly at `|written|` -/
theorem frames_consistent_ref (ops : FlowOps F) (fc : F) (hist : List (Op (F := F))) (fr : Frame)
    (h : fr ∈ allFrames (run ops (initStream fc) hist).2) :
    Quic.Data.RefBuf.Consistent (run ops (initStream fc) hist).1.sender.written (toRef fr) := by
  have hi := ok_init fc
  have ⟨_, h2, _⟩ := run_spec ops hist _ _ hi.1 hi.2
  have hs := h2.slice fr (by simpa using h)
  refine ⟨hs.1, hs.2, fun hfin => ?_⟩
  exact (h2.fin fr (by simpa using h) hfin).1

/-! ### `written` = the pushes accepted while the stream was open -/

/-- the stream still accepts data: not reset, sender in state `Sending` -/
def IsOpen (st : SendStream F) : Prop := st.resetSent = false ∧ st.sender.state = .sending

instance (st : SendStream F) : Decidable (IsOpen st) := by unfold IsOpen; infer_instance

/-- the bytes of the pushes that precede the first `finish` / `reset` of a history -/
def acceptedPushes : List (Op (F := F)) → List Nat
  | [] => []
  | .push d :: rest => d ++ acceptedPushes rest
  | .finish :: _ => []
  | .reset :: _ => []
  | _ :: rest => acceptedPushes rest

theorem ack_sending (ops : FlowOps F) (s : Sender F) (lo hi : Nat) (h : s.state = .sending) :
    (onPacketAck ops s lo hi).state = .sending := by
  have e1 : (ackRemove s lo hi).1.state = .sending := by
    simp only [ackRemove]; split <;> simp [h, State.onAck]
  have e2 : ∀ s' : Sender F, (ackRelease s').state = s'.state := by
    intro s'; simp only [ackRelease]; split
    · simp only [Sender.release]; split <;> rfl
    · rfl
  have e3 : ∀ s' : Sender F, s'.state = .sending → (ackFinish ops s').state = .sending := by
    intro s' hs'; simp only [ackFinish]; split
    · rename_i hc; rw [hs'] at hc; simp at hc
    · exact hs'
  simp only [onPacketAck]
  split
  · exact e3 _ (by rw [e2]; exact e1)
  · exact e3 _ e1

theorem loss_sending (ops : FlowOps F) (s : Sender F) (lo hi : Nat) (h : s.state = .sending) :
    (onPacketLoss ops s lo hi).state = .sending := by
  simp only [onPacketLoss]
  split
  · split <;> simp [h, State.onLoss]
  · simp [h, State.onLoss]

theorem sameKind_sending {a b : State} (h : SameKind a b) (ha : a = .sending) : b = .sending := by
  rcases h with rfl | ⟨f, f', rfl, _⟩
  · exact ha
  · cases ha

/-- one step: how `written` and openness evolve -/
theorem step_written (ops : FlowOps F) (st : SendStream F) (op : Op (F := F)) (hok : Ok st) :
    (IsOpen st →
      (step ops st op).1.sender.written = st.sender.written ++ (match op with | .push d => d | _ => []) ∧
      (IsOpen (step ops st op).1 ↔ (match op with | .finish => False | .reset => False | _ => True))) ∧
    (¬ IsOpen st → (step ops st op).1.sender.written = st.sender.written ∧ ¬ IsOpen (step ops st op).1) := by
  rcases hok with ⟨hr, hcan, hnp⟩ | ⟨hr, hinv⟩
  · -- reset: nothing changes any more
    refine ⟨fun ho => by simp [IsOpen, hr] at ho, fun _ => ?_⟩
    cases op with
    | push d => simp [step, hr, IsOpen]
    | finish => simp [step, hr, IsOpen]
    | transmit pn cap cr ct => simp [step, hr, IsOpen]
    | reset => simp [step, hr, IsOpen]
    | ack lo hi => exact ⟨(cancelled_ack ops st.sender lo hi hcan).2.2, by simp [step, IsOpen, hr]⟩
    | loss lo hi => exact ⟨(cancelled_loss ops st.sender lo hi hcan).2.2, by simp [step, IsOpen, hr]⟩
    | flow f => simp [step, hr, IsOpen]
  · cases op with
    | push d =>
      have he : step ops st (.push d) = ({ st with sender := push st.sender d }, .frames []) := by simp [step, hr]
      rw [he]
      constructor
      · intro ho
        have hs := ho.2
        refine ⟨?_, ?_⟩
        · simp only [push, hs]
          by_cases hd : d = []
          · simp [hd]
          · simp [hd]
        · simp only [IsOpen, hr, (push_spec st.sender d hinv).2.1, hs]; simp
      · intro hno
        have hs : st.sender.state ≠ .sending := fun h => hno ⟨hr, h⟩
        refine ⟨by simp [push, hs], ?_⟩
        simp only [IsOpen, (push_spec st.sender d hinv).2.1]; exact fun h => hs h.2
    | finish =>
      have he : step ops st .finish = ({ st with sender := finish st.sender }, .frames []) := by simp [step, hr]
      rw [he]
      constructor
      · intro ho
        refine ⟨by simp [finish, ho.2], ?_⟩
        simp [IsOpen, finish, ho.2]
      · intro hno
        have hs : st.sender.state ≠ .sending := fun h => hno ⟨hr, h⟩
        exact ⟨by simp [finish, hs], by simp [IsOpen, finish, hs]⟩
    | transmit pn cap cr ct =>
      have ⟨_, h2, h3, _⟩ := onTransmit_spec ops st.sender pn cap cr ct hinv
      have he : step ops st (.transmit pn cap cr ct) =
          ({ st with sender := (onTransmit ops st.sender pn cap cr ct).1 }, .frames (onTransmit ops st.sender pn cap cr ct).2) := by
        simp [step, hr]
      rw [he]
      constructor
      · intro ho
        exact ⟨by simp [h2], by simp [IsOpen, hr, sameKind_sending h3 ho.2]⟩
      · intro hno
        refine ⟨h2, fun ho => hno ⟨hr, ?_⟩⟩
        have := h3.progress.1
        exact Classical.byContradiction (fun hn => this hn ho.2)
    | ack lo hi =>
      have ⟨_, h2, h3⟩ := onPacketAck_spec ops st.sender lo hi hinv
      have he : step ops st (.ack lo hi) = ({ st with sender := onPacketAck ops st.sender lo hi }, .frames []) := rfl
      rw [he]
      constructor
      · intro ho
        exact ⟨by simp [h2], by simp [IsOpen, hr, ack_sending ops st.sender lo hi ho.2]⟩
      · intro hno
        refine ⟨h2, fun ho => hno ⟨hr, ?_⟩⟩
        exact Classical.byContradiction (fun hn => h3.1 hn ho.2)
    | loss lo hi =>
      have ⟨_, h2, h3⟩ := onPacketLoss_spec ops st.sender lo hi hinv
      have he : step ops st (.loss lo hi) = ({ st with sender := onPacketLoss ops st.sender lo hi }, .frames []) := rfl
      rw [he]
      constructor
      · intro ho
        exact ⟨by simp [h2], by simp [IsOpen, hr, loss_sending ops st.sender lo hi ho.2]⟩
      · intro hno
        refine ⟨h2, fun ho => hno ⟨hr, ?_⟩⟩
        exact Classical.byContradiction (fun hn => h3.1 hn ho.2)
    | reset =>
      constructor
      · intro ho
        have hnf : st.sender.state ≠ .finished := by rw [ho.2]; simp
        have he : step ops st .reset = ({ sender := stopSending ops st.sender, resetSent := true }, .resetStream) := by
          simp [step, hr, hnf]
        rw [he]
        exact ⟨by simp [stopSending, hnf], by simp [IsOpen]⟩
      · intro hno
        by_cases hfin : st.sender.state = .finished
        · have he : step ops st .reset = (st, .frames []) := by simp [step, hr, hfin]
          rw [he]; exact ⟨rfl, hno⟩
        · have he : step ops st .reset = ({ sender := stopSending ops st.sender, resetSent := true }, .resetStream) := by
            simp [step, hr, hfin]
          rw [he]
          exact ⟨by simp [stopSending, hfin], by simp [IsOpen]⟩
    | flow f =>
      have he : step ops st (.flow f) = ({ st with sender := { st.sender with fc := f } }, .frames []) := rfl
      rw [he]
      exact ⟨fun ho => ⟨by simp, by simpa [IsOpen] using ho⟩, fun hno => ⟨rfl, by simpa [IsOpen] using hno⟩⟩

/-- `written` after a history, from any reachable stream state -/
theorem run_written (ops : FlowOps F) (hist : List (Op (F := F))) : ∀ (st : SendStream F), Ok st →
    (run ops st hist).1.sender.written =
      st.sender.written ++ (if IsOpen st then acceptedPushes hist else []) := by
  induction hist with
  | nil => intro st _; simp [run, acceptedPushes]
  | cons op rest ih =>
    intro st hok
    have hl : LogOk st [] := ⟨by simp, by simp⟩
    have hok' := (step_spec ops st op [] hok hl).1
    have hs := step_written ops st op hok
    have := ih _ hok'
    simp only [run]
    rw [this]
    by_cases ho : IsOpen st
    · have ⟨h1, h2⟩ := hs.1 ho
      rw [h1, if_pos ho]
      cases op with
      | push d => rw [if_pos (h2.mpr trivial)]; simp [acceptedPushes]
      | finish => rw [if_neg (fun h => h2.mp h)]; simp [acceptedPushes]
      | reset => rw [if_neg (fun h => h2.mp h)]; simp [acceptedPushes]
      | transmit pn cap cr ct => rw [if_pos (h2.mpr trivial)]; simp [acceptedPushes]
      | ack lo hi => rw [if_pos (h2.mpr trivial)]; simp [acceptedPushes]
      | loss lo hi => rw [if_pos (h2.mpr trivial)]; simp [acceptedPushes]
      | flow f => rw [if_pos (h2.mpr trivial)]; simp [acceptedPushes]
    · have ⟨h1, h2⟩ := hs.2 ho
      rw [h1, if_neg ho, if_neg h2]

end Quic.Proofs.C01Compose
