import QuicModel.Conn.TpAuthWire
import QuicProofs.Props.C14TransportParams
/-
  Helper lemmas for QuicProofs/Props/C14TpAuthWire.lean: the connection-ID fields of a decoded parameter struct
  read back on the parsed items of the block.
-/
namespace Quic.Proofs.C14
open Quic Quic.Codec Quic.Codec.TransportParams Quic.Proofs.TransportParams Quic.Conn.TpAuth
open Quic.Rfc.TransportParams (parseItems)
open Quic.Rfc.TpAuth (authenticItems valuesOf)

theorem valuesOf_cons_ne (i id : Nat) (v : List Nat) (t : List (Nat × List Nat)) (h : i ≠ id) :
    valuesOf ((i, v) :: t) id = valuesOf t id := by
  have : (i == id) = false := by simpa using h
  simp [valuesOf, this]

theorem valuesOf_cons_eq (id : Nat) (v : List Nat) (t : List (Nat × List Nat)) :
    valuesOf ((id, v) :: t) id = v :: valuesOf t id := by
  simp [valuesOf]

/-- a parameter id occurs in a parsed block not at all, exactly once, or (at least) twice -/
theorem valuesOf_cases (id : Nat) : ∀ l : List (Nat × List Nat),
    (valuesOf l id = [] ∧ ∀ it ∈ l, it.1 ≠ id) ∨
    (∃ v, valuesOf l id = [v] ∧ (id, v) ∈ l) ∨
    (∃ a b c v1 v2, l = a ++ (id, v1) :: (b ++ (id, v2) :: c))
  | [] => .inl ⟨rfl, fun _ h => nomatch h⟩
  | (i, v) :: t => by
    rcases valuesOf_cases id t with ⟨hn, ha⟩ | ⟨w, ho, hm⟩ | ⟨a, b, c, v1, v2, hd⟩
    · by_cases h : i = id
      · subst h
        exact .inr (.inl ⟨v, by rw [valuesOf_cons_eq, hn], List.mem_cons_self ..⟩)
      · refine .inl ⟨by rw [valuesOf_cons_ne _ _ _ _ h, hn], ?_⟩
        intro it hit
        rcases List.mem_cons.mp hit with rfl | hit
        · exact h
        · exact ha it hit
    · by_cases h : i = id
      · subst h
        obtain ⟨b, c, hbc⟩ := List.append_of_mem hm
        exact .inr (.inr ⟨[], b, c, v, w, by rw [hbc]; rfl⟩)
      · exact .inr (.inl ⟨w, by rw [valuesOf_cons_ne _ _ _ _ h, ho], List.mem_cons_of_mem _ hm⟩)
    · exact .inr (.inr ⟨(i, v) :: a, b, c, v1, v2, by rw [hd]; rfl⟩)

/-- a connection-ID field (`Option<…ConnectionId>`, no default) of the decoded struct is `None` iff the block has no
    item with its id and `Some v` iff it has exactly one, with value bytes `v` (two make the decoder fail) -/
theorem cidOf_eq_wire (role : Role) (blk : List Nat) (hb : BytesOk blk) (ps : Params) (its : List (Nat × List Nat))
    (hp : parseItems blk.length blk = some its) (hd : decodeParameters pinnedFields role blk = .ok ps)
    (id : Nat) (f : Field) (m : Nat) (hf : findField pinnedFields id = some f) (hc : f.codec = .cid m)
    (hdf : f.default = none) :
    (cidOf ps id).toList = valuesOf its id := by
  have hfid := (findField_some hf).2
  rcases valuesOf_cases id its with ⟨hnil, habs⟩ | ⟨v, hone, hmem⟩ | ⟨a, b, c, v1, v2, hdup⟩
  · have hget := tp_defaults pinnedFields role blk hb ps its f hp hd (by intro it hit; rw [hfid]; exact habs it hit)
    rw [hdf] at hget
    unfold TransportParams.get at hget
    rw [hfid] at hget
    have hl : lookupId ps id = none := by
      cases hl : lookupId ps id with
      | none => rfl
      | some x => rw [hl] at hget; cases hget
    rw [hnil]; unfold cidOf; rw [hl]; rfl
  · obtain ⟨w, hdec, _, hget⟩ := tp_values_exact pinnedFields role blk hb ps its id v f hp hd hmem hf
    rw [hc] at hdec
    simp only [decodeValue] at hdec
    split at hdec
    · injection hdec with hdec
      subst hdec
      unfold TransportParams.get at hget
      rw [hfid] at hget
      have hl : lookupId ps id = some (.bytes v) := by
        cases hl : lookupId ps id with
        | none => rw [hl, hdf] at hget; cases hget
        | some x => rw [hl] at hget; exact hget
      rw [hone]; unfold cidOf; rw [hl]; rfl
    · cases hdec
  · exfalso
    have hacc : accepts pinnedFields role blk = true := by unfold accepts; rw [hd]; rfl
    rw [accepts_eq_items pinnedFields role blk hb, hp, hdup] at hacc
    simp only at hacc
    rw [itemsOk_duplicate pinnedFields role id (by rw [hf]; rfl) a b c v1 v2 []] at hacc
    cases hacc

/-- §7.3 on the decoded fields = §7.3 on the items, when the fields are what the items say -/
theorem authentic_eq_items (role : Role) (h : Handshake) (p : PeerCids) (its : List (Nat × List Nat))
    (h1 : p.iscid.toList = valuesOf its 0x0f) (h2 : p.odcid.toList = valuesOf its 0x00)
    (h3 : p.rscid.toList = valuesOf its 0x10) :
    Rfc.TpAuth.authentic role h p = authenticItems role h its := by
  unfold Rfc.TpAuth.authentic authenticItems
  rw [← h1, ← h2, ← h3]
  have e1 : ∀ (o : Option (List Nat)) (x : List Nat), decide (o = some x) = decide (o.toList = [x]) := by
    intro o x; cases o <;> simp
  have e2 : ∀ (o q : Option (List Nat)), decide (o = q) = decide (o.toList = q.toList) := by
    intro o q; cases o <;> cases q <;> simp
  cases role <;> simp only [e1, e2]

end Quic.Proofs.C14
