import QuicModel.Stream.OpenIds
namespace Quic.Proofs.OpenIds
open Quic.Stream.OpenIds

/-- invariant: `n` streams were opened so far, their ids were `base, base+4, …`; the next id is
    `base + 4·n`; never more streams than the largest limit received (`g`) -/
structure Inv (base g : Nat) (c : Ctl) : Prop where
  next : ∀ id, c.nextStreamId = some id → id = base + 4 * c.openedStreams
  within : c.openedStreams ≤ c.peerCumulativeStreamLimit
  limit : c.peerCumulativeStreamLimit ≤ g
  closed : c.closedStreams ≤ c.openedStreams

theorem step_inv {base g : Nat} {c : Ctl} (op : Op) (h : Inv base g c) :
    Inv base (match op with | .maxStreams v => max g v | _ => g) (step c op).1 ∧
    (∀ id, (step c op).2 = some id →
       id = base + 4 * c.openedStreams ∧ c.openedStreams + 1 ≤ g ∧
       (step c op).1.openedStreams = c.openedStreams + 1 ∧
       c.openedStreams - c.closedStreams + 1 ≤ c.maxLocalLimit) ∧
    ((step c op).2 = none → (step c op).1.openedStreams = c.openedStreams) ∧
    c.peerCumulativeStreamLimit ≤ (step c op).1.peerCumulativeStreamLimit := by
  have ⟨h1, h2, h3, h4⟩ := h
  cases op with
  | maxStreams v =>
    simp only [step, Ctl.onMaxStreams]
    split
    · exact ⟨⟨h1, h2, by omega, h4⟩, by simp, by simp, by omega⟩
    · exact ⟨⟨h1, by simp only []; omega, by simp only []; omega, h4⟩, by simp, by simp, by simp only []; omega⟩
  | closeStream =>
    simp only [step, Ctl.onCloseStream]
    split
    · exact ⟨⟨h1, h2, h3, by simp only []; omega⟩, by simp, by simp, by simp⟩
    · exact ⟨⟨h1, h2, h3, h4⟩, by simp, by simp, by simp⟩
  | openStream =>
    simp only [step, Ctl.pollOpen]
    cases hn : c.nextStreamId with
    | none => exact ⟨⟨by simp [hn], h2, h3, h4⟩, by simp, by simp, by simp⟩
    | some fid =>
      simp only []
      split
      · exact ⟨⟨by simpa [hn] using h1, h2, h3, h4⟩, by simp, by simp, by simp⟩
      · rename_i hcap
        simp only [Ctl.availableStreamCapacity, Ctl.peerCapacity, Ctl.openStreamCount] at hcap
        have hfid := h1 fid hn
        refine ⟨⟨?_, by simp only []; omega, h3, by simp only []; omega⟩, ?_, by simp, by simp⟩
        · intro id hid
          simp only [nextOfType] at hid
          split at hid
          · simp only [Option.some.injEq] at hid; simp only []; omega
          · cases hid
        · intro id hid
          simp only [Option.some.injEq] at hid
          subst hid
          refine ⟨hfid, by omega, rfl, by omega⟩


theorem grantedStreams_cons (g : Nat) (op : Op) (rest : List Op) :
    grantedStreams g (op :: rest) = grantedStreams (match op with | .maxStreams v => max g v | _ => g) rest := by
  simp only [grantedStreams, List.foldl_cons]
  cases op <;> rfl

/-- the invariant holds after every history, with the largest limit received as bound -/
theorem run_inv {base : Nat} (ops : List Op) : ∀ {g : Nat} {c : Ctl}, Inv base g c →
    Inv base (grantedStreams g ops) (run c ops).1 := by
  induction ops with
  | nil => intro g c h; simpa [run, grantedStreams] using h
  | cons op rest ih =>
    intro g c h
    rw [grantedStreams_cons]
    simp only [run]
    exact ih (step_inv op h).1

/-- number of streams opened = number of ids handed out -/
theorem run_opened {base : Nat} (ops : List Op) : ∀ {g : Nat} {c : Ctl}, Inv base g c →
    (run c ops).1.openedStreams = c.openedStreams + (openedIds c ops).length := by
  induction ops with
  | nil => intro g c h; simp [run, openedIds]
  | cons op rest ih =>
    intro g c h
    have hs := step_inv op h
    have := ih hs.1
    simp only [run, openedIds, List.filterMap_cons] at this ⊢
    cases ho : (step c op).2 with
    | none => simp only [id]; rw [this, hs.2.2.1 ho]
    | some i => simp only [id, List.length_cons]; rw [this, (hs.2.1 i ho).2.2.1]; omega

/-- the ids handed out are exactly `base + 4·n`, `base + 4·(n+1)`, … -/
theorem run_ids {base : Nat} (ops : List Op) : ∀ {g : Nat} {c : Ctl}, Inv base g c →
    openedIds c ops = (List.range (openedIds c ops).length).map (fun i => base + 4 * (c.openedStreams + i)) := by
  induction ops with
  | nil => intro g c h; simp [run, openedIds]
  | cons op rest ih =>
    intro g c h
    have hs := step_inv op h
    have := ih hs.1
    simp only [openedIds, run, List.filterMap_cons] at this ⊢
    cases ho : (step c op).2 with
    | none =>
      simp only [id]
      rw [hs.2.2.1 ho] at this
      exact this
    | some i =>
      simp only [id, List.length_cons, List.range_succ_eq_map, List.map_cons, List.map_map]
      have hi := hs.2.1 i ho
      rw [hi.2.2.1] at this
      rw [this]
      congr 1
      · simpa using hi.1
      · simp only [List.length_map, List.length_range]
        apply List.map_congr_left
        intro a _
        simp only [Function.comp]
        omega

theorem inv_init (server bidi : Bool) (l m0 : Nat) :
    Inv (initialId server bidi) m0 (init server bidi l m0) := by
  constructor <;> simp [init]

end Quic.Proofs.OpenIds
