import QuicProofs.Lemmas.SpscInv
/-
  C17 helper lemmas: the invariant `Inv` is preserved by the close / drop_contents steps of either
  side under the pinned orderings (or the step reports use-after-free of the shared header).
-/
namespace Quic.Sync.Spsc
open Quic.Sync.Ra

theorem rmw_some {m m' : Mem} {V V' : View} {o : Ord} {l tag : Nat} {f : Nat → Nat} {last : Msg}
    (h : rmw m V o l f tag = some (last, m', V')) :
    (∃ rest, m.hist l = last :: rest) ∧
    V' = (if o.isAcq then V.join last.view else V).setAtm l (m.hist l).length ∧
    m' = pushMsg m l ⟨f last.val, tag, (m.hist l).length, (if o.isRel then V' else View.bot).join last.view⟩ := by
  unfold rmw at h
  split at h
  · simp at h
  · rename_i l0 rest heq
    simp only [Option.some.injEq, Prod.mk.injEq] at h
    obtain ⟨h1, h2, h3⟩ := h
    subst h1
    refine ⟨⟨rest, heq⟩, ?_, ?_⟩
    · rw [← h3, heq]
    · rw [← h2, ← h3, heq]

theorem Pc.quiet_facts {pc : Pc} (h : pc.quiet = true) :
    pc.running = false ∧ pc.dropping = false ∧ pc.predrop = false ∧ pc.inSlice = false ∧
    pc ≠ .dcTail ∧ pc ≠ .dcTake ∧ pc ≠ .dcHead := by
  cases pc <;> simp_all

theorem inv_wake2 {s s' : Sys} {sd : Side} (inv : Inv s) (h : step pinned s (.wake2 sd) = some s') :
    s' = { s with fail := some .useAfterFree } ∨ Inv s' := by
  have nf := inv.nofail
  simp only [step, nf, Option.isSome_none, Bool.false_eq_true, if_false, pinned] at h
  cases sd
  · simp only [Sys.loc, Sys.setLoc] at h
    split at h
    case h_2 => simp at h
    rename_i w hpc
    split at h
    · left; simp only [failWith, Option.some.injEq] at h; exact h.symm
    right
    simp only [Option.some.injEq] at h; subst h
    cases w
    · constructor
      inv_same inv
      inv_pc inv
    · constructor
      inv_same inv
      inv_pc inv
  · simp only [Sys.loc, Sys.setLoc] at h
    split at h
    case h_2 => simp at h
    rename_i w hpc
    split at h
    · left; simp only [failWith, Option.some.injEq] at h; exact h.symm
    right
    simp only [Option.some.injEq] at h; subst h
    cases w
    · constructor
      inv_same inv
      inv_pc inv
    · constructor
      inv_same inv
      inv_pc inv

theorem inv_swap_sender {s s' : Sys} (inv : Inv s) (h : step pinned s (.swap .sender) = some s') :
    s' = { s with fail := some .useAfterFree } ∨ Inv s' := by
  have nf := inv.nofail
  simp only [step, nf, Option.isSome_none, Bool.false_eq_true, if_false, pinned, Sys.loc, Sys.view,
    Sys.setLoc, Sys.setView, closeTag] at h
  split at h
  case h_2 => simp at h
  rename_i hpc
  split at h
  · left; simp only [failWith, Option.some.injEq] at h; exact h.symm
  split at h
  · simp at h
  rename_i last mem V hrmw
  obtain ⟨⟨rest, hh⟩, hV, hmem⟩ := rmw_some hrmw
  simp only [Ord.isAcq, Ord.isRel, if_true] at hV hmem
  have hlast : last ∈ s.mem.hist OPEN := by rw [hh]; simp
  have hrun : s.p.pc.running = true := by rw [hpc]; rfl
  have hVatH : V.atm HEAD = max (s.pv.atm HEAD) (last.view.atm HEAD) := by rw [hV]; rfl
  have hVatT : V.atm TAIL = max (s.pv.atm TAIL) (last.view.atm TAIL) := by rw [hV]; rfl
  have hVna : ∀ c, V.na c = max (s.pv.na c) (last.view.na c) := by intro c; rw [hV]; rfl
  have hl0 := inv.v0m OPEN last hlast
  have i1 := inv.pv_mono V (by omega) (by omega)
    (by intro c; have := inv.v0p c; have := hl0 c; rw [hVna]; omega)
    (by intro c e; have := hl0 c; rw [hVna]; omega)
  have hnq : s.p.pc.quiet = false := by rw [hpc]; rfl
  have hcnd : s.c.pc.dropping = false := by
    cases hd : s.c.pc.dropping
    · rfl
    · have := inv.dropC hd; rw [hnq] at this; cases this
  right
  simp only [Option.some.injEq] at h
  subst hmem
  by_cases hv0 : last.val = 0
  · -- the receiver closed first: we are the second closer
    have hcr : s.c.pc.running = false := by
      rcases inv.hO last hlast with ⟨_, h0⟩ | ⟨_, _, h1⟩ | ⟨_, _, h2⟩
      · exact absurd hv0 h0
      · rw [hrun] at h1; cases h1
      · exact h2
    have htag : last.tag = 2 := by
      rcases inv.hO last hlast with ⟨_, h0⟩ | ⟨_, _, h1⟩ | ⟨h2, _, _⟩
      · exact absurd hv0 h0
      · rw [hrun] at h1; cases h1
      · exact h2
    have hcq := Pc.quiet_of_stopped hcr hcnd
    have hb : (last.val != 0) = false := by simp [hv0]
    rw [hb] at h; subst h
    constructor
    inv_same i1
    case hOnn => simp
    case hOne => intro l r heq hne; simp at heq; rw [← heq.1] at hne; simp at hne
    case hO =>
      intro m hm
      simp at hm ⊢
      rcases hm with rfl | hm
      · simp
      · rcases inv.hO m hm with h0 | ⟨_, _, h1⟩ | h2
        · exact .inl h0
        · rw [hrun] at h1; cases h1
        · exact .inr (.inr h2)
    case hOx =>
      intro m hm ht
      simp at hm
      rcases hm with rfl | hm
      · simp at ht
      · exact inv.hOx m hm ht
    case v0m =>
      intro l m hm c
      simp at hm
      by_cases hl : l = OPEN
      · simp [hl] at hm
        rcases hm with rfl | hm
        · have a := i1.v0p c; have b := hl0 c; dsimp only at a
          show max (V.na c) (last.view.na c) ≤ s.mem.stamp c
          exact Nat.max_le.mpr ⟨a, b⟩
        · exact inv.v0m OPEN m hm c
      · simp [hl] at hm; exact inv.v0m l m hm c
    case dropP => intro _; exact hcq
    case dropC => intro hd; dsimp only at hd; rw [hcnd] at hd; cases hd
    case dropP0 => intro _; exact inv.dropRp hrun
    case hHx =>
      intro _ m hm hle
      dsimp only at hm hle ⊢
      exact inv.hOx last hlast htag m hm (by omega)
    case pS1 => intro _; exact inv.pS1 (by rw [hpc]; rfl)
    inv_pc i1
  · -- we are the first closer
    have hb : (last.val != 0) = true := by simp [hv0]
    rw [hb] at h; subst h
    constructor
    inv_same i1
    case hOnn => simp
    case hOne => intro l r heq hne; simp at heq; rw [← heq.1] at hne; simp at hne
    case hO =>
      intro m hm
      simp at hm ⊢
      rcases hm with rfl | hm
      · simp
      · rcases inv.hO m hm with h0 | ⟨_, _, h1⟩ | h2
        · exact .inl h0
        · rw [hrun] at h1; cases h1
        · exact .inr (.inr h2)
    case hOx =>
      intro m hm ht
      simp at hm
      rcases hm with rfl | hm
      · simp at ht
      · exact inv.hOx m hm ht
    case v0m =>
      intro l m hm c
      simp at hm
      by_cases hl : l = OPEN
      · simp [hl] at hm
        rcases hm with rfl | hm
        · have a := i1.v0p c; have b := hl0 c; dsimp only at a
          show max (V.na c) (last.view.na c) ≤ s.mem.stamp c
          exact Nat.max_le.mpr ⟨a, b⟩
        · exact inv.v0m OPEN m hm c
      · simp [hl] at hm; exact inv.v0m l m hm c
    case pS1 => intro _; exact inv.pS1 (by rw [hpc]; rfl)
    inv_pc i1

theorem inv_swap_receiver {s s' : Sys} (inv : Inv s) (h : step pinned s (.swap .receiver) = some s') :
    s' = { s with fail := some .useAfterFree } ∨ Inv s' := by
  have nf := inv.nofail
  simp only [step, nf, Option.isSome_none, Bool.false_eq_true, if_false, pinned, Sys.loc, Sys.view,
    Sys.setLoc, Sys.setView, closeTag] at h
  split at h
  case h_2 => simp at h
  rename_i hpc
  split at h
  · left; simp only [failWith, Option.some.injEq] at h; exact h.symm
  split at h
  · simp at h
  rename_i last mem V hrmw
  obtain ⟨⟨rest, hh⟩, hV, hmem⟩ := rmw_some hrmw
  simp only [Ord.isAcq, Ord.isRel, if_true] at hV hmem
  have hlast : last ∈ s.mem.hist OPEN := by rw [hh]; simp
  have hrun : s.c.pc.running = true := by rw [hpc]; rfl
  have hVatH : V.atm HEAD = max (s.cv.atm HEAD) (last.view.atm HEAD) := by rw [hV]; rfl
  have hVatT : V.atm TAIL = max (s.cv.atm TAIL) (last.view.atm TAIL) := by rw [hV]; rfl
  have hVna : ∀ c, V.na c = max (s.cv.na c) (last.view.na c) := by intro c; rw [hV]; rfl
  have hl0 := inv.v0m OPEN last hlast
  have i1 := inv.cv_mono V (by omega) (by omega)
    (by intro c; have := inv.v0c c; have := hl0 c; rw [hVna]; omega)
    (by intro c e; have := hl0 c; rw [hVna]; omega)
  have hnq : s.c.pc.quiet = false := by rw [hpc]; rfl
  have hpnd : s.p.pc.dropping = false := by
    cases hd : s.p.pc.dropping
    · rfl
    · have := inv.dropP hd; rw [hnq] at this; cases this
  have hox : ∀ h ∈ s.mem.hist HEAD, (V.join last.view).atm HEAD ≤ h.ts → h.tag = s.c.gPrev := by
    intro h hh hle
    have : V.atm HEAD ≤ (V.join last.view).atm HEAD := by simp [View.join]; omega
    exact inv.hHc h hh (by omega)
  right
  simp only [Option.some.injEq] at h
  subst hmem
  by_cases hv0 : last.val = 0
  · have hpr : s.p.pc.running = false := by
      rcases inv.hO last hlast with ⟨_, h0⟩ | ⟨_, _, h1⟩ | ⟨_, _, h2⟩
      · exact absurd hv0 h0
      · exact h1
      · rw [hrun] at h2; cases h2
    have hpq := Pc.quiet_of_stopped hpr hpnd
    have hb : (last.val != 0) = false := by simp [hv0]
    rw [hb] at h; subst h
    constructor
    inv_same i1
    case hOnn => simp
    case hOne => intro l r heq hne; simp at heq; rw [← heq.1] at hne; simp at hne
    case hO =>
      intro m hm
      simp at hm ⊢
      rcases hm with rfl | hm
      · simp
      · rcases inv.hO m hm with h0 | h1 | ⟨_, _, h2⟩
        · exact .inl h0
        · exact .inr (.inl h1)
        · rw [hrun] at h2; cases h2
    case hOx =>
      intro m hm ht
      simp at hm
      rcases hm with rfl | hm
      · exact hox
      · exact inv.hOx m hm ht
    case v0m =>
      intro l m hm c
      simp at hm
      by_cases hl : l = OPEN
      · simp [hl] at hm
        rcases hm with rfl | hm
        · have a := i1.v0c c; have b := hl0 c; dsimp only at a
          show max (V.na c) (last.view.na c) ≤ s.mem.stamp c
          exact Nat.max_le.mpr ⟨a, b⟩
        · exact inv.v0m OPEN m hm c
      · simp [hl] at hm; exact inv.v0m l m hm c
    case dropC => intro _; exact hpq
    case dropP => intro hd; dsimp only at hd; rw [hpnd] at hd; cases hd
    case dropC0 => intro _; exact inv.dropRc hrun
    case cS1 => intro _; exact inv.cS1 (by rw [hpc]; rfl)
    case ch6 => intro _; exact inv.ch6 hnq
    case v2 => intro _; exact i1.v2 hnq
    inv_pc i1
  · have hb : (last.val != 0) = true := by simp [hv0]
    rw [hb] at h; subst h
    constructor
    inv_same i1
    case hOnn => simp
    case hOne => intro l r heq hne; simp at heq; rw [← heq.1] at hne; simp at hne
    case hO =>
      intro m hm
      simp at hm ⊢
      rcases hm with rfl | hm
      · simp
      · rcases inv.hO m hm with h0 | h1 | ⟨_, _, h2⟩
        · exact .inl h0
        · exact .inr (.inl h1)
        · rw [hrun] at h2; cases h2
    case hOx =>
      intro m hm ht
      simp at hm
      rcases hm with rfl | hm
      · exact hox
      · exact inv.hOx m hm ht
    case v0m =>
      intro l m hm c
      simp at hm
      by_cases hl : l = OPEN
      · simp [hl] at hm
        rcases hm with rfl | hm
        · have a := i1.v0c c; have b := hl0 c; dsimp only at a
          show max (V.na c) (last.view.na c) ≤ s.mem.stamp c
          exact Nat.max_le.mpr ⟨a, b⟩
        · exact inv.v0m OPEN m hm c
      · simp [hl] at hm; exact inv.v0m l m hm c
    case dropP => intro hd; dsimp only at hd; rw [hpnd] at hd; cases hd
    case cS1 => intro _; exact inv.cS1 (by rw [hpc]; rfl)
    inv_pc i1

end Quic.Sync.Spsc
