import QuicModel.Stream.RecvFlow
/-
  Helper lemmas for C04: invariants of the receive-side flow controllers and their preservation by every
  operation of `Quic.Stream.RecvFlow`.
-/
namespace Quic.Proofs.Lemmas.RecvFlow
open Quic.Stream.RecvFlow
open Quic.Rfc (ErrorCode)

/-! ### sums over the streams of a connection -/

def sumBy (f : Recv → Nat) : List Recv → Nat
  | [] => 0
  | r :: rs => f r + sumBy f rs

theorem sumBy_append (f : Recv → Nat) (l₁ l₂ : List Recv) : sumBy f (l₁ ++ l₂) = sumBy f l₁ + sumBy f l₂ := by
  induction l₁ with
  | nil => simp [sumBy]
  | cons a t ih => simp [sumBy, ih]; omega

theorem sumBy_set (f : Recv → Nat) (l : List Recv) (i : Nat) (r x : Recv) (h : l[i]? = some r) :
    sumBy f (l.set i x) + f r = sumBy f l + f x := by
  induction l generalizing i with
  | nil => simp at h
  | cons a t ih =>
    cases i with
    | zero => simp at h; subst h; simp [sumBy]; omega
    | succ j =>
      simp at h
      have := ih j h
      simp [sumBy]; omega

theorem sumBy_le_of_mem (f g : Recv → Nat) (l : List Recv) (hle : ∀ x ∈ l, g x ≤ f x) (r : Recv) (hr : r ∈ l) :
    sumBy g l + f r ≤ sumBy f l + g r := by
  induction l with
  | nil => simp at hr
  | cons a t ih =>
    have hsub : sumBy g t ≤ sumBy f t := by
      clear ih hr
      induction t with
      | nil => simp [sumBy]
      | cons b u ihu =>
        have h1 := hle b (by simp)
        have h2 := ihu (fun x hx => hle x (by
          rcases List.mem_cons.mp hx with h | h
          · simp [h]
          · simp [h]))
        simp [sumBy]; omega
    rcases List.mem_cons.mp hr with h | h
    · subst h; simp [sumBy]; omega
    · have h1 := hle a (by simp)
      have h2 := ih (fun x hx => hle x (by simp [hx])) h
      simp [sumBy]; omega

theorem sumBy_congr (f g : Recv → Nat) (l : List Recv) (h : ∀ x ∈ l, f x = g x) : sumBy f l = sumBy g l := by
  induction l with
  | nil => rfl
  | cons a t ih =>
    simp only [sumBy]
    rw [h a (by simp), ih (fun x hx => h x (by simp [hx]))]

theorem sumBy_add (f g : Recv → Nat) (l : List Recv) : sumBy (fun r => f r + g r) l = sumBy f l + sumBy g l := by
  induction l with
  | nil => rfl
  | cons a t ih => simp only [sumBy, ih]; omega

/-- connection credit a stream has given back: what the application consumed, or — once the stream was reset
    and its buffer dropped — everything it had been credited -/
def creditUsed (r : Recv) : Nat := if r.state = .reset then r.fc.released else r.appRead

theorem sumBy_mono (f g : Recv → Nat) (l : List Recv) (hle : ∀ x ∈ l, g x ≤ f x) : sumBy g l ≤ sumBy f l := by
  induction l with
  | nil => simp [sumBy]
  | cons a t ih =>
    have h1 := hle a (by simp)
    have h2 := ih (fun x hx => hle x (by simp [hx]))
    simp [sumBy]; omega


/-! ### invariants -/

def ConnInv (c : ConnFc) : Prop :=
  c.consumed ≤ c.acquired ∧ c.acquired ≤ c.latest ∧ c.latest ≤ c.consumed + c.desired ∧ c.latest ≤ maxVarInt

def BufInv (b : Buf) : Prop :=
  (∀ c ∈ b.chunks, c.1 + c.2.length ≤ b.maxRecv) ∧ b.start ≤ b.maxRecv ∧ (∀ f, b.final = some f → f ≤ b.maxRecv)

def RInv (r : Recv) : Prop :=
  r.fc.released ≤ r.fc.acquired ∧ r.fc.acquired ≤ r.fc.latest ∧ r.fc.latest ≤ r.fc.released + r.fc.desired
  ∧ r.fc.latest ≤ maxVarInt
  ∧ ((r.state = .reset → r.fc.stopped = true) ∧ (r.state ≠ .reset → r.fc.released = r.appRead))
  ∧ BufInv r.buf
  ∧ (r.state = .receiving → r.buf.start = r.fc.released ∧ r.buf.maxRecv ≤ r.fc.acquired)
  ∧ r.buffered + r.fc.released ≤ r.fc.acquired

theorem bufInv_empty : BufInv Buf.empty := by
  simp [BufInv, Buf.empty]

theorem advance_le (ch : List (Nat × List Nat)) (m cur : Nat)
    (h : ∀ c ∈ ch, c.1 + c.2.length ≤ m) (hc : cur ≤ m) : Buf.advance cur ch ≤ m := by
  unfold Buf.advance
  induction ch generalizing cur with
  | nil => simpa using hc
  | cons a t ih =>
    simp only [List.foldl_cons]
    apply ih _ (fun c hc' => h c (List.mem_cons_of_mem _ hc'))
    split
    · exact h a (by simp)
    · exact hc

theorem iter_le (n : Nat) (ch : List (Nat × List Nat)) (m cur : Nat)
    (h : ∀ c ∈ ch, c.1 + c.2.length ≤ m) (hc : cur ≤ m) : Buf.iter n cur ch ≤ m := by
  induction n generalizing cur with
  | zero => simpa [Buf.iter] using hc
  | succ k ih => simp only [Buf.iter]; exact ih _ (advance_le ch m cur h hc)

theorem totalReceived_le (b : Buf) (hb : BufInv b) : b.totalReceived ≤ b.maxRecv :=
  iter_le _ _ _ _ hb.1 hb.2.1

theorem bufInv_push {b : Buf} {off : Nat} {d : List Nat} (hb : BufInv b) (fin' : Option Nat)
    (hf : ∀ f, fin' = some f → f ≤ max b.maxRecv (off + d.length)) :
    BufInv { b with final := fin', maxRecv := max b.maxRecv (off + d.length), chunks := b.chunks ++ [(off, d)] } := by
  obtain ⟨h1, h2, _⟩ := hb
  refine ⟨?_, ?_, hf⟩
  · intro c hc
    simp only [List.mem_append, List.mem_singleton] at hc
    rcases hc with hc | hc
    · have := h1 c hc; simp only; omega
    · subst hc; simp only; omega
  · simp only; omega

theorem write_ok {b b' : Buf} {off : Nat} {d : List Nat} {fin : Bool}
    (h : b.write off d fin = .ok b') (hb : BufInv b) :
    BufInv b' ∧ b'.start = b.start ∧ b'.maxRecv = max b.maxRecv (off + d.length)
      ∧ off + d.length ≤ maxVarInt ∧ (∀ f, b.final = some f → b'.maxRecv = b.maxRecv) := by
  have h3 := hb.2.2
  unfold Buf.write at h
  simp only at h
  split at h
  · cases h
  · rename_i hle
    split at h
    · -- fin, final known
      rename_i f hfin
      split at h
      · rename_i he
        injection h with h; subst h
        refine ⟨bufInv_push hb _ ?_, rfl, rfl, by omega, ?_⟩
        · intro g hg; have := h3 g hg; omega
        · intro g hg; have := h3 g hg; simp only; rw [hfin] at hg; injection hg with hg; omega
      · cases h
    · rename_i hfin
      split at h
      · injection h with h; subst h
        refine ⟨bufInv_push hb _ ?_, rfl, rfl, by omega, ?_⟩
        · intro g hg; injection hg with hg; omega
        · intro g hg; rw [hfin] at hg; cases hg
      · cases h
    · rename_i f hfin
      split at h
      · rename_i he
        injection h with h; subst h
        refine ⟨bufInv_push hb _ ?_, rfl, rfl, by omega, ?_⟩
        · intro g hg; have := h3 g hg; omega
        · intro g hg; have := h3 g hg; simp only; rw [hfin] at hg; injection hg with hg; omega
      · cases h
    · rename_i hfin
      injection h with h; subst h
      refine ⟨bufInv_push hb _ ?_, rfl, rfl, by omega, ?_⟩
      · intro g hg; have := h3 g hg; omega
      · intro g hg; rw [hfin] at hg; cases hg


/-! ### the flow controllers -/

theorem acquireUpTo_ok {f f' : StreamFc} {c c' : ConnFc} {off : Nat}
    (h : f.acquireUpTo c off = .ok (f', c')) (hc : ConnInv c) :
    f'.latest = f.latest ∧ f'.desired = f.desired ∧ f'.released = f.released ∧ f'.stopped = f.stopped
    ∧ off ≤ f.latest ∧ f'.acquired = f.acquired + (off - f.acquired)
    ∧ c'.acquired + f.acquired = c.acquired + f'.acquired
    ∧ c'.latest = c.latest ∧ c'.consumed = c.consumed ∧ c'.desired = c.desired ∧ c'.acquired ≤ c'.latest := by
  obtain ⟨hc1, hc2, hc3, hc4⟩ := hc
  unfold StreamFc.acquireUpTo ConnFc.acquire ConnFc.remaining at h
  by_cases h1 : off > f.latest
  · simp [h1] at h
  · by_cases h2 : off - f.acquired > 0
    · by_cases h3 : c.latest - c.acquired < off - f.acquired
      · simp [h1, h2, h3] at h
      · simp [h1, h2, h3] at h
        obtain ⟨hf, hc'⟩ := h
        subst hf; subst hc'
        refine ⟨rfl, rfl, rfl, rfl, ?_, rfl, ?_, rfl, rfl, rfl, ?_⟩ <;> (try simp only) <;> omega
    · simp [h1, h2] at h
      obtain ⟨hf, hc'⟩ := h
      subst hf; subst hc'
      refine ⟨rfl, rfl, rfl, rfl, ?_, ?_, ?_, rfl, rfl, rfl, ?_⟩ <;> omega

theorem acquireUpTo_err {f : StreamFc} {c : ConnFc} {off : Nat} {e : ErrorCode}
    (h : f.acquireUpTo c off = .error e) : e = .flowControlError := by
  unfold StreamFc.acquireUpTo ConnFc.acquire at h
  by_cases h1 : off > f.latest
  · simp [h1] at h; exact h.symm
  · by_cases h2 : off - f.acquired > 0
    · by_cases h3 : c.remaining < off - f.acquired
      · simp [h1, h2, h3] at h; exact h.symm
      · simp [h1, h2, h3] at h
    · simp [h1, h2] at h

theorem satAdd_le (a b : Nat) : satAdd a b ≤ a + b ∧ satAdd a b ≤ maxVarInt := by
  unfold satAdd; omega

theorem satAdd_ge (a b x : Nat) (h1 : x ≤ a + b) (h2 : x ≤ maxVarInt) : x ≤ satAdd a b := by
  unfold satAdd; omega

/-- what the conclusion of every stream operation looks like -/
structure StepOk (r : Recv) (c : ConnFc) (r' : Recv) (c' : ConnFc) : Prop where
  rinv : RInv r'
  cinv : ConnInv c'
  desired : c'.desired = c.desired
  acq : c'.acquired + r.fc.acquired = c.acquired + r'.fc.acquired
  rel : c'.consumed + r.fc.released = c.consumed + r'.fc.released
  rdes : r'.fc.desired = r.fc.desired
  app : r.appRead ≤ r'.appRead

theorem stepOk_refl {r : Recv} {c : ConnFc} (hr : RInv r) (hc : ConnInv c) : StepOk r c r c :=
  ⟨hr, hc, rfl, rfl, rfl, rfl, Nat.le_refl _⟩


/-! ### ReceiveStream operations preserve the invariants -/

theorem onDataFinish_props (r : Recv) (fc : StreamFc) (buf : Buf) (fin : Bool) :
    let r' := r.onDataFinish fc buf fin
    r'.appRead = r.appRead ∧ r'.fc.latest = fc.latest ∧ r'.fc.desired = fc.desired ∧ r'.fc.acquired = fc.acquired
    ∧ r'.fc.released = fc.released ∧ (r'.fc.stopped = false → fc.stopped = false)
    ∧ ((r'.state = .receiving ∧ r'.buf = buf) ∨ (r'.state = .dataRead ∧ r'.buf = Buf.empty)) := by
  unfold Recv.onDataFinish
  cases fin <;> cases hf : buf.final <;> simp
  · split <;> simp

theorem onData_ok {r r' : Recv} {c c' : ConnFc} {off : Nat} {d : List Nat} {fin : Bool}
    (h : r.onData c off d fin = .ok (r', c')) (hr : RInv r) (hc : ConnInv c) : StepOk r c r' c' := by
  unfold Recv.onData at h
  split at h
  · rename_i hst
    split at h
    · cases h
    · rename_i hend
      split at h
      · cases h
      · rename_i p hacq
        split at h
        · cases h
        · cases h
        · rename_i buf hw
          injection h with h; injection h with h1 h2; subst h1; subst h2
          obtain ⟨r1, r2, r3, r4, r5, r6, r7, r8⟩ := hr
          have hw' := write_ok hw r6
          obtain ⟨w1, w2, w3, w4, w5⟩ := hw'
          have hst' := r7 hst
          have hp := onDataFinish_props r p.1 buf fin
          simp only at hp
          obtain ⟨p1, p2, p3, p4, p5, p6, p7⟩ := hp
          -- what the acquisition did
          have hA : p.1.latest = r.fc.latest ∧ p.1.desired = r.fc.desired ∧ p.1.released = r.fc.released
              ∧ (p.1.stopped = r.fc.stopped) ∧ r.fc.acquired ≤ p.1.acquired ∧ p.1.acquired ≤ r.fc.latest
              ∧ buf.maxRecv ≤ p.1.acquired
              ∧ p.2.acquired + r.fc.acquired = c.acquired + p.1.acquired
              ∧ p.2.latest = c.latest ∧ p.2.consumed = c.consumed ∧ p.2.desired = c.desired ∧ p.2.acquired ≤ p.2.latest := by
            unfold Recv.onDataAcquire at hacq
            split at hacq
            · have := acquireUpTo_ok (f' := p.1) (c' := p.2) (by simpa using hacq) hc
              obtain ⟨a1, a2, a3, a4, a5, a6, a7, a8, a9, a10, a11⟩ := this
              refine ⟨a1, a2, a3, a4, ?_, ?_, ?_, a7, a8, a9, a10, a11⟩ <;> omega
            · rename_i hsome
              injection hacq with hacq; subst hacq
              simp only
              obtain ⟨hc1, hc2, hc3, hc4⟩ := hc
              have : ∃ f, r.buf.final = some f := by
                cases hf : r.buf.final with
                | none => simp [hf] at hsome
                | some f => exact ⟨f, rfl⟩
              obtain ⟨f, hf⟩ := this
              have := w5 f hf
              refine ⟨trivial, trivial, trivial, trivial, ?_, ?_, ?_, trivial, trivial, trivial, trivial, ?_⟩ <;> omega
          obtain ⟨a1, a2, a3, a4, a5, a6, a7, a8, a9, a10, a11, a12⟩ := hA
          obtain ⟨hc1, hc2, hc3, hc4⟩ := hc
          refine ⟨⟨?_, ?_, ?_, ?_, ?_, ?_, ?_, ?_⟩, ⟨?_, ?_, ?_, ?_⟩, a11, ?_, ?_, ?_, ?_⟩
          · omega
          · omega
          · omega
          · omega
          · have hne : r.state ≠ .reset := by rw [hst]; intro h; cases h
            have := r5.2 hne
            constructor
            · intro hs; rcases p7 with ⟨h, _⟩ | ⟨h, _⟩ <;> rw [h] at hs <;> cases hs
            · intro _; omega
          · rcases p7 with ⟨_, hb⟩ | ⟨_, hb⟩ <;> rw [hb]
            · exact w1
            · exact bufInv_empty
          · intro hs
            rcases p7 with ⟨_, hb⟩ | ⟨hd, _⟩
            · rw [hb]; omega
            · rw [hd] at hs; cases hs
          · unfold Recv.buffered
            rcases p7 with ⟨_, hb⟩ | ⟨_, hb⟩ <;> rw [hb]
            · omega
            · simp [Buf.empty]; omega
          · omega
          · omega
          · omega
          · omega
          · omega
          · omega
          · omega
          · omega
  · injection h with h; injection h with h1 h2; subst h1; subst h2
    exact stepOk_refl hr hc

theorem onData_err {r : Recv} {c : ConnFc} {off : Nat} {d : List Nat} {fin : Bool} {e : ErrorCode}
    (h : r.onData c off d fin = .error e) : e = .flowControlError ∨ e = .finalSizeError := by
  unfold Recv.onData at h
  split at h
  · split at h
    · injection h with h; exact Or.inl h.symm
    · split at h
      · rename_i e' hacq
        injection h with h; subst h
        unfold Recv.onDataAcquire at hacq
        split at hacq
        · exact Or.inl (acquireUpTo_err hacq)
        · cases hacq
      · split at h
        · injection h with h; exact Or.inl h.symm
        · injection h with h; exact Or.inr h.symm
        · cases h
  · cases h


/-- `doReset` seen from the controllers it is given -/
theorem doReset_ok (r : Recv) (fc : StreamFc) (c : ConnFc)
    (h1 : fc.released ≤ fc.acquired) (h2 : fc.acquired ≤ fc.latest) (h3 : fc.latest ≤ fc.released + fc.desired)
    (h4 : fc.latest ≤ maxVarInt) (hc : ConnInv c) (H : c.consumed + fc.acquired ≤ c.acquired + fc.released) :
    let p := r.doReset fc c
    RInv p.1 ∧ ConnInv p.2 ∧ p.2.desired = c.desired ∧ p.2.acquired = c.acquired
    ∧ p.2.consumed + fc.released = c.consumed + p.1.fc.released ∧ p.1.fc.acquired = fc.acquired
    ∧ p.1.fc.desired = fc.desired ∧ p.1.appRead = r.appRead := by
  obtain ⟨hc1, hc2, hc3, hc4⟩ := hc
  simp only [Recv.doReset, StreamFc.releaseOutstanding, StreamFc.release, ConnFc.release]
  have s1 := satAdd_le (fc.released + (fc.acquired - fc.released)) fc.desired
  have s2 := satAdd_ge (fc.released + (fc.acquired - fc.released)) fc.desired fc.latest (by omega) h4
  have s3 := satAdd_le (c.consumed + (fc.acquired - fc.released)) c.desired
  have s4 := satAdd_ge (c.consumed + (fc.acquired - fc.released)) c.desired c.latest (by omega) hc4
  refine ⟨⟨?_, ?_, ?_, ?_, ⟨fun _ => rfl, fun h => absurd rfl h⟩, bufInv_empty, ?_, ?_⟩, ⟨?_, ?_, ?_, ?_⟩, ?_, ?_, ?_, ?_, ?_, ?_⟩
  all_goals (try simp only [Recv.buffered, Buf.empty])
  all_goals (first | trivial | omega | (intro h; cases h))

theorem onReset_ok {r r' : Recv} {c c' : ConnFc} {fs : Nat}
    (h : r.onReset c fs = .ok (r', c')) (hr : RInv r) (hc : ConnInv c)
    (H : c.consumed + r.fc.acquired ≤ c.acquired + r.fc.released) : StepOk r c r' c' := by
  have hr' := hr
  obtain ⟨r1, r2, r3, r4, r5, r6, r7, r8⟩ := hr
  have viaAcquire : ∀ (fc1 : StreamFc) (c1 : ConnFc), r.fc.acquireUpTo c fs = .ok (fc1, c1) →
      StepOk r c (r.doReset fc1 c1).1 (r.doReset fc1 c1).2 := by
    intro fc1 c1 ha
    obtain ⟨a1, a2, a3, a4, a5, a6, a7, a8, a9, a10, a11⟩ := acquireUpTo_ok ha hc
    obtain ⟨hc1, hc2, hc3, hc4⟩ := hc
    have hd := doReset_ok r fc1 c1 (by omega) (by omega) (by omega) (by omega)
      ⟨by omega, by omega, by omega, by omega⟩ (by omega)
    simp only at hd
    obtain ⟨d1, d2, d3, d4, d5, d6, d7, d8⟩ := hd
    exact ⟨d1, d2, by omega, by omega, by omega, by omega, by omega⟩
  unfold Recv.onReset at h
  split at h
  · injection h with h; injection h with h1 h2; subst h1; subst h2; exact stepOk_refl hr' hc
  · injection h with h; injection h with h1 h2; subst h1; subst h2; exact stepOk_refl hr' hc
  · split at h
    · split at h
      · cases h
      · split at h
        · injection h with h; injection h with h1 h2; subst h1; subst h2; exact stepOk_refl hr' hc
        · injection h with h
          have e1 : r' = (r.doReset r.fc c).1 := by rw [h]
          have e2 : c' = (r.doReset r.fc c).2 := by rw [h]
          subst e1; subst e2
          have hd := doReset_ok r r.fc c r1 r2 r3 r4 hc H
          simp only at hd
          obtain ⟨d1, d2, d3, d4, d5, d6, d7, d8⟩ := hd
          exact ⟨d1, d2, d3, by omega, by omega, d7, by omega⟩
    · split at h
      · cases h
      · rename_i fc1 c1 ha
        injection h with h
        have e1 : r' = (r.doReset fc1 c1).1 := by rw [h]
        have e2 : c' = (r.doReset fc1 c1).2 := by rw [h]
        subst e1; subst e2
        exact viaAcquire fc1 c1 ha
  · split at h
    · cases h
    · rename_i fc1 c1 ha
      injection h with h
      have e1 : r' = (r.doReset fc1 c1).1 := by rw [h]
      have e2 : c' = (r.doReset fc1 c1).2 := by rw [h]
      subst e1; subst e2
      exact viaAcquire fc1 c1 ha

theorem onReset_err {r : Recv} {c : ConnFc} {fs : Nat} {e : ErrorCode}
    (h : r.onReset c fs = .error e) : e = .flowControlError ∨ e = .finalSizeError := by
  unfold Recv.onReset at h
  split at h
  · cases h
  · cases h
  · split at h
    · split at h
      · injection h with h; exact Or.inr h.symm
      · split at h <;> cases h
    · split at h
      · rename_i e' ha; injection h with h; subst h; exact Or.inl (acquireUpTo_err ha)
      · cases h
  · split at h
    · rename_i e' ha; injection h with h; subst h; exact Or.inl (acquireUpTo_err ha)
    · cases h

theorem read_ok (r : Recv) (c : ConnFc) (n : Nat) (hr : RInv r) (hc : ConnInv c)
    (H : c.consumed + r.fc.acquired ≤ c.acquired + r.fc.released) :
    StepOk r c (r.read c n).1 (r.read c n).2 := by
  have hr' := hr
  obtain ⟨r1, r2, r3, r4, r5, r6, r7, r8⟩ := hr
  unfold Recv.read
  split
  · rename_i hst
    obtain ⟨hs1, hs2⟩ := r7 hst
    have htot := totalReceived_le r.buf r6
    obtain ⟨hc1, hc2, hc3, hc4⟩ := hc
    have hk : min n r.buf.readable ≤ r.buf.maxRecv - r.buf.start := by
      unfold Buf.readable; omega
    generalize min n r.buf.readable = k at hk
    obtain ⟨b1, b2, b3⟩ := r6
    have s1 := satAdd_le (r.fc.released + k) r.fc.desired
    have s2 := satAdd_ge (r.fc.released + k) r.fc.desired r.fc.latest (by omega) r4
    have s3 := satAdd_le (c.consumed + k) c.desired
    have s4 := satAdd_ge (c.consumed + k) c.desired c.latest (by omega) hc4
    have hbuf : BufInv { r.buf with start := r.buf.start + k } := ⟨b1, by simp only; omega, b3⟩
    have happ := r5.2 (by rw [hst]; intro h; cases h)
    simp only [StreamFc.release, ConnFc.release]
    split
    · split
      · refine ⟨⟨?_, ?_, ?_, ?_, ?_, bufInv_empty, ?_, ?_⟩, ⟨?_, ?_, ?_, ?_⟩, rfl, ?_, ?_, rfl, ?_⟩
        all_goals (try simp only [Recv.buffered, Buf.empty])
        all_goals (first | omega | (intro h; cases h) | (constructor <;> intro h <;> first | cases h | omega))
      · refine ⟨⟨?_, ?_, ?_, ?_, ?_, hbuf, ?_, ?_⟩, ⟨?_, ?_, ?_, ?_⟩, rfl, ?_, ?_, rfl, ?_⟩
        all_goals (try simp only [Recv.buffered])
        all_goals (first | omega | (intro h; constructor <;> omega) | (constructor <;> intro h <;> first | cases h | omega))
    · refine ⟨⟨?_, ?_, ?_, ?_, ?_, hbuf, ?_, ?_⟩, ⟨?_, ?_, ?_, ?_⟩, rfl, ?_, ?_, rfl, ?_⟩
      all_goals (try simp only [Recv.buffered])
      all_goals (first | omega | (intro h; constructor <;> omega) | (constructor <;> intro h <;> first | cases h | omega))
  · exact stepOk_refl hr' hc

theorem stop_ok (r : Recv) (c : ConnFc) (hr : RInv r) (hc : ConnInv c) : StepOk r c r.stop c := by
  have hr' := hr
  obtain ⟨r1, r2, r3, r4, r5, r6, r7, r8⟩ := hr
  unfold Recv.stop
  split
  · split
    · rename_i hst _
      have happ := r5.2 (by rw [hst]; intro h; cases h)
      refine ⟨⟨r1, r2, r3, r4, ⟨fun h => (by cases h), fun _ => happ⟩, r6, ?_, r8⟩, hc, rfl, rfl, rfl, rfl, Nat.le_refl _⟩
      intro h; cases h
    · rename_i hst _
      have happ := r5.2 (by rw [hst]; intro h; cases h)
      refine ⟨⟨r1, r2, r3, r4, ⟨fun h => (by cases h), fun _ => happ⟩, bufInv_empty, ?_, ?_⟩, hc, rfl, rfl, rfl, rfl, Nat.le_refl _⟩
      · intro h; cases h
      · simp only [Recv.buffered, Buf.empty]; omega
  · exact stepOk_refl hr' hc

theorem init_inv (w : Nat) (hw : w ≤ maxVarInt) (closed : Bool) : RInv (Recv.init closed w) := by
  unfold Recv.init
  cases closed <;> simp [RInv, StreamFc.init, Recv.buffered, Buf.empty, hw, BufInv]

theorem connInit_inv (w : Nat) (hw : w ≤ maxVarInt) : ConnInv (ConnFc.init w) := by
  simp [ConnInv, ConnFc.init, hw]


/-! ### the whole receive side of a connection -/

def SysInv (w : Nat) (s : Sys) : Prop :=
  ConnInv s.conn ∧ s.conn.desired = w ∧ (∀ r ∈ s.streams, RInv r)
  ∧ s.conn.acquired = sumBy (fun r => r.fc.acquired) s.streams
  ∧ s.conn.consumed = sumBy (fun r => r.fc.released) s.streams

theorem sysInv_init (w : Nat) (hw : w ≤ maxVarInt) : SysInv w (Sys.init w) := by
  refine ⟨connInit_inv w hw, rfl, ?_, rfl, rfl⟩
  intro r hr; simp [Sys.init] at hr

theorem room_of_inv {w : Nat} {s : Sys} (hs : SysInv w s) {i : Nat} {r : Recv} (hi : s.streams[i]? = some r) :
    RInv r ∧ s.conn.consumed + r.fc.acquired ≤ s.conn.acquired + r.fc.released := by
  obtain ⟨_, _, h3, h4, h5⟩ := hs
  have hmem : r ∈ s.streams := List.mem_of_getElem? hi
  refine ⟨h3 r hmem, ?_⟩
  have := sumBy_le_of_mem (fun r => r.fc.acquired) (fun r => r.fc.released) s.streams
    (fun x hx => (h3 x hx).1) r hmem
  omega

theorem sysInv_set {w : Nat} {s : Sys} (hs : SysInv w s) {i : Nat} {r r' : Recv} {c' : ConnFc}
    (hi : s.streams[i]? = some r) (hok : StepOk r s.conn r' c') (cl : Option ErrorCode) :
    SysInv w { conn := c', streams := s.streams.set i r', closed := cl } := by
  obtain ⟨h1, h2, h3, h4, h5⟩ := hs
  refine ⟨hok.cinv, by rw [hok.desired]; exact h2, ?_, ?_, ?_⟩
  · intro x hx
    rcases List.mem_or_eq_of_mem_set hx with h | h
    · exact h3 x h
    · subst h; exact hok.rinv
  · have := sumBy_set (fun r => r.fc.acquired) s.streams i r r' hi
    have := hok.acq
    simp only at *
    omega
  · have := sumBy_set (fun r => r.fc.released) s.streams i r r' hi
    have := hok.rel
    simp only at *
    omega

theorem sysInv_step {w : Nat} {s : Sys} (hs : SysInv w s) (op : Op) : SysInv w (s.step op) := by
  unfold Sys.step
  split
  · exact hs
  · cases op with
    | openStream w' =>
      simp only
      split
      · rename_i hw'
        obtain ⟨h1, h2, h3, h4, h5⟩ := hs
        refine ⟨h1, h2, ?_, ?_, ?_⟩
        · intro x hx
          simp only [List.mem_append, List.mem_singleton] at hx
          rcases hx with h | h
          · exact h3 x h
          · subst h; exact init_inv w' hw' false
        · simp only [sumBy_append, sumBy, Recv.init, StreamFc.init]; simpa using h4
        · simp only [sumBy_append, sumBy, Recv.init, StreamFc.init]; simpa using h5
      · exact hs
    | data i off d fin =>
      simp only
      split
      · exact hs
      · rename_i r hi
        split
        · obtain ⟨h1, h2, h3, h4, h5⟩ := hs
          exact ⟨h1, h2, h3, h4, h5⟩
        · rename_i r' c' hok
          have hroom := room_of_inv hs hi
          exact sysInv_set hs hi (onData_ok hok hroom.1 hs.1) _
    | resetStream i fs =>
      simp only
      split
      · exact hs
      · rename_i r hi
        split
        · obtain ⟨h1, h2, h3, h4, h5⟩ := hs
          exact ⟨h1, h2, h3, h4, h5⟩
        · rename_i r' c' hok
          have hroom := room_of_inv hs hi
          exact sysInv_set hs hi (onReset_ok hok hroom.1 hs.1 hroom.2) _
    | read i n =>
      simp only
      split
      · exact hs
      · rename_i r hi
        have hroom := room_of_inv hs hi
        exact sysInv_set hs hi (read_ok r s.conn n hroom.1 hs.1 hroom.2) _
    | stop i =>
      simp only
      split
      · exact hs
      · rename_i r hi
        have hroom := room_of_inv hs hi
        exact sysInv_set hs hi (stop_ok r s.conn hroom.1 hs.1) _

theorem sysInv_run {w : Nat} {s : Sys} (hs : SysInv w s) (ops : List Op) : SysInv w (s.run ops) := by
  unfold Sys.run
  induction ops generalizing s with
  | nil => exact hs
  | cons op t ih => exact ih (sysInv_step hs op)

end Quic.Proofs.Lemmas.RecvFlow
