import QuicProofs.Lemmas.Frame
/-
  Helper lemmas for `impl_eq_rfc_frame` (C05): the implementation model `Codec.decodeFrame`, seen
  through the abstraction `toRfc`, computes the same partial function as the RFC transcription
  `Rfc.Frame.parseFrame`. Both sides are normalised into chains of `obind (D b) fun v r => …` over
  the same variable-length-integer decoder `D`; a second step (`parseFrameWith_congr`) replaces
  `D` by the RFC varint parser on in-range bytes.
-/
namespace Quic.Proofs.Frame
open Quic Quic.Codec Quic.Codec.Frame
open Quic.Rfc.Frame (parseFrameWith parseFieldsWith parseFieldWith parsePairsWith layout interp Field Val)

/-- forget the error class, view the value through `toRfc` -/
def absRes (x : Res Frame) : Option (Rfc.Frame.Frame × List Nat) :=
  match x with
  | .ok (f, r) =>
    match toRfc f with
    | some g => some (g, r)
    | none => none
  | .error _ => none

abbrev D := VarInt.decode

def andThen {α β : Type} (x : Res α) (k : α → List Nat → Res β) : Res β :=
  match x with
  | .error e => .error e
  | .ok (a, r) => k a r

def obind {α β : Type} (o : Option (α × List Nat)) (k : α → List Nat → Option β) : Option β :=
  match o with
  | none => none
  | some (a, r) => k a r

macro "and_then_eq" : tactic =>
  `(tactic| (simp only [andThen]; repeat' split
             all_goals first | (simp_all; done) | (simp_all; omega) | omega))

theorem dec1_eq (mk : Nat → Frame) (b : List Nat) : dec1 mk b = andThen (decVar b) fun x r => .ok (mk x, r) := by
  unfold dec1; and_then_eq
theorem dec2_eq (mk : Nat → Nat → Frame) (b : List Nat) :
    dec2 mk b = andThen (decVar b) fun x r => andThen (decVar r) fun y r => .ok (mk x y, r) := by
  unfold dec2; and_then_eq
theorem dec3_eq (mk : Nat → Nat → Nat → Frame) (b : List Nat) :
    dec3 mk b = andThen (decVar b) fun x r => andThen (decVar r) fun y r => andThen (decVar r) fun z r => .ok (mk x y z, r) := by
  unfold dec3; and_then_eq

theorem absRes_andThen_decVar (b : List Nat) (k : Nat → List Nat → Res Frame) :
    absRes (andThen (decVar b) k) = obind (D b) fun x r => absRes (k x r) := by
  unfold decVar andThen obind D
  cases VarInt.decode b with
  | none => simp [absRes]
  | some p => rfl

theorem absRes_ok (f : Frame) (r : List Nat) :
    absRes (.ok (f, r)) = match toRfc f with | some g => some (g, r) | none => none := rfl

/-- the RFC side: remaining fields `fs`, values read so far `acc` -/
def rfcRest (ty : Nat) (acc : List Val) (fs : List Field) (b : List Nat) : Option (Rfc.Frame.Frame × List Nat) :=
  match parseFieldsWith D fs b with
  | none => none
  | some (vs, rest) =>
    match interp ty (acc ++ vs) with
    | none => none
    | some f => some (f, rest)

theorem rfcRest_nil (ty : Nat) (acc : List Val) (b : List Nat) :
    rfcRest ty acc [] b = match interp ty acc with | none => none | some f => some (f, b) := by
  simp [rfcRest, parseFieldsWith]

theorem rfcRest_int (ty : Nat) (acc : List Val) (fs : List Field) (b : List Nat) :
    rfcRest ty acc (.int :: fs) b = obind (D b) fun v r => rfcRest ty (acc ++ [.int v]) fs r := by
  unfold rfcRest obind
  simp only [parseFieldsWith, parseFieldWith]
  cases D b with
  | none => rfl
  | some p =>
    obtain ⟨v, r⟩ := p
    simp only []
    cases parseFieldsWith D fs r with
    | none => rfl
    | some q => obtain ⟨vs, rest⟩ := q; simp

theorem parseFrameWith_small (h : Nat) (t : List Nat) (hh : h < 64) :
    parseFrameWith D (h :: t) =
      match layout h with
      | none => none
      | some fields => rfcRest h [] fields t := by
  unfold parseFrameWith
  have : D (h :: t) = some (h, t) := by
    unfold D
    rw [Proofs.C05.decode_tag0 h t (by omega), Nat.mod_eq_of_lt hh]
  rw [this]
  simp only []
  rw [if_neg]
  · rfl
  · simp [Rfc.VarInt.minimalLen]; omega


theorem decStreamLimit_eq (mk : Nat → Frame) (b : List Nat) :
    decStreamLimit mk b = andThen (decVar b) fun v r => if v ≤ maxStreamsBound then .ok (mk v, r) else .error .maxStreams := by
  unfold decStreamLimit; and_then_eq
theorem decCrypto_eq (b : List Nat) :
    decCrypto b = andThen (decVar b) fun off r => andThen (decSliceVar r) fun d r => .ok (.crypto off d, r) := by
  unfold decCrypto; and_then_eq
theorem decNewToken_eq (b : List Nat) :
    decNewToken b = andThen (decSliceVar b) fun tok r => if tok.isEmpty then .error .emptyToken else .ok (.newToken tok, r) := by
  unfold decNewToken; and_then_eq
theorem decPath_eq (mk : List Nat → Frame) (b : List Nat) :
    decPath mk b = andThen (decSlice pathDataLen b) fun d r => .ok (mk d, r) := by
  unfold decPath; and_then_eq
theorem decNewConnectionId_eq (b : List Nat) :
    decNewConnectionId b = andThen (decVar b) fun seq r => andThen (decVar r) fun rpt r =>
      if seq < rpt then .error .retirePriorTo else andThen (decU8 r) fun len r =>
        if len < cidLenMin ∨ cidLenMax < len then .error .cidLen else
          andThen (decSlice len r) fun cid r => andThen (decSlice resetTokenLen r) fun tok r =>
            .ok (.newConnectionId seq rpt cid tok, r) := by
  unfold decNewConnectionId; and_then_eq

theorem absRes_andThen_decSliceVar (b : List Nat) (k : List Nat → List Nat → Res Frame) :
    absRes (andThen (decSliceVar b) k) =
      obind (D b) fun n r => if r.length < n then none else absRes (k (r.take n) (r.drop n)) := by
  unfold decSliceVar decVar decSlice andThen obind D
  cases VarInt.decode b with
  | none => simp [absRes]
  | some p =>
    obtain ⟨n, r⟩ := p
    simp only []
    by_cases h : r.length < n
    · simp [h, absRes]
    · simp [h]

theorem absRes_andThen_decSlice (n : Nat) (b : List Nat) (k : List Nat → List Nat → Res Frame) :
    absRes (andThen (decSlice n b) k) = if b.length < n then none else absRes (k (b.take n) (b.drop n)) := by
  unfold decSlice
  by_cases h : b.length < n
  · simp [h, andThen, absRes]
  · simp [h, andThen]

theorem absRes_andThen_decU8 (b : List Nat) (k : Nat → List Nat → Res Frame) :
    absRes (andThen (decU8 b) k) = match b with | [] => none | x :: r => absRes (k x r) := by
  unfold decU8 andThen
  cases b <;> simp [absRes]

theorem absRes_ite_error (c : Prop) [Decidable c] (e : Err) (x : Res Frame) :
    absRes (if c then .error e else x) = if c then none else absRes x := by
  split <;> simp [absRes]

theorem absRes_ite_error' (c : Prop) [Decidable c] (e : Err) (x : Res Frame) :
    absRes (if c then x else .error e) = if c then absRes x else none := by
  split <;> simp [absRes]

theorem rfcRest_lenBytes (ty : Nat) (acc : List Val) (fs : List Field) (b : List Nat) :
    rfcRest ty acc (.lenBytes :: fs) b =
      obind (D b) fun n r => if r.length < n then none else rfcRest ty (acc ++ [.bytes (r.take n)]) fs (r.drop n) := by
  unfold rfcRest obind
  simp only [parseFieldsWith, parseFieldWith]
  cases D b with
  | none => rfl
  | some p =>
    obtain ⟨n, r⟩ := p
    simp only []
    by_cases h : r.length < n
    · simp [h]
    · simp only [h, if_false]
      cases parseFieldsWith D fs (r.drop n) with
      | none => rfl
      | some q => obtain ⟨vs, rest⟩ := q; simp

theorem rfcRest_fixedBytes (ty : Nat) (acc : List Val) (n : Nat) (fs : List Field) (b : List Nat) :
    rfcRest ty acc (.fixedBytes n :: fs) b =
      if b.length < n then none else rfcRest ty (acc ++ [.bytes (b.take n)]) fs (b.drop n) := by
  unfold rfcRest
  simp only [parseFieldsWith, parseFieldWith]
  by_cases h : b.length < n
  · simp [h]
  · simp only [h, if_false]
    cases parseFieldsWith D fs (b.drop n) with
    | none => rfl
    | some q => obtain ⟨vs, rest⟩ := q; simp

theorem rfcRest_restBytes (ty : Nat) (acc : List Val) (fs : List Field) (b : List Nat) :
    rfcRest ty acc (.restBytes :: fs) b = rfcRest ty (acc ++ [.bytes b]) fs [] := by
  unfold rfcRest
  simp only [parseFieldsWith, parseFieldWith]
  cases parseFieldsWith D fs [] with
  | none => rfl
  | some q => obtain ⟨vs, rest⟩ := q; simp

theorem rfcRest_len8Bytes (ty : Nat) (acc : List Val) (fs : List Field) (b : List Nat) :
    rfcRest ty acc (.len8Bytes :: fs) b =
      match b with
      | [] => none
      | n :: r => if r.length < n then none else rfcRest ty (acc ++ [.bytes (r.take n)]) fs (r.drop n) := by
  unfold rfcRest
  simp only [parseFieldsWith, parseFieldWith]
  cases b with
  | nil => rfl
  | cons n r =>
    simp only []
    by_cases h : r.length < n
    · simp [h]
    · simp only [h, if_false]
      cases parseFieldsWith D fs (r.drop n) with
      | none => rfl
      | some q => obtain ⟨vs, rest⟩ := q; simp


theorem decStream_eq (tag : Nat) (b : List Nat) :
    decStream tag b = andThen (decVar b) fun sid r =>
      andThen (if tag / 4 % 2 = 1 then decVar r else .ok (0, r)) fun off r =>
        if tag / 2 % 2 = 0 then .ok (.stream sid off true (decide (tag % 2 = 1)) r, [])
        else andThen (decSliceVar r) fun d r => .ok (.stream sid off false (decide (tag % 2 = 1)) d, r) := by
  unfold decStream; and_then_eq

theorem decDatagram_eq (tag : Nat) (b : List Nat) :
    decDatagram tag b = if tag % 2 = 0 then .ok (.datagram true b, [])
      else andThen (decSliceVar b) fun d r => .ok (.datagram false d, r) := by
  unfold decDatagram; and_then_eq

theorem decConnectionClose_eq (tag : Nat) (b : List Nat) :
    decConnectionClose tag b = andThen (decVar b) fun code r =>
      andThen (if tag = 28 then andThen (decVar r) fun ft r => .ok (some ft, r) else .ok (none, r)) fun ft r =>
        andThen (decSliceVar r) fun reason r =>
          .ok (.connectionClose code ft (if reason.isEmpty then none else some reason), r) := by
  unfold decConnectionClose andThen
  cases decVar b with
  | error e => rfl
  | ok p =>
    obtain ⟨code, r⟩ := p
    simp only []
    by_cases h : tag = 28
    · simp only [h, if_true]
      cases decVar r with
      | error e => rfl
      | ok q =>
        obtain ⟨ft, r'⟩ := q
        simp only []
        cases decSliceVar r' with
        | error e => rfl
        | ok q' => rfl
    · simp only [h, if_false]
      cases decSliceVar r with
      | error e => rfl
      | ok q' => rfl

theorem andThen_ok {α β : Type} (a : α) (r : List Nat) (k : α → List Nat → Res β) :
    andThen (.ok (a, r)) k = k a r := rfl

theorem andThen_assoc {α β γ : Type} (x : Res α) (k : α → List Nat → Res β) (k' : β → List Nat → Res γ) :
    andThen (andThen x k) k' = andThen x fun a r => andThen (k a r) k' := by
  unfold andThen
  cases x with
  | error e => rfl
  | ok p => rfl

theorem obind_congr {α β : Type} (o : Option (α × List Nat)) (k1 k2 : α → List Nat → Option β)
    (h : ∀ a r, k1 a r = k2 a r) : obind o k1 = obind o k2 := by
  cases o with
  | none => rfl
  | some p => exact h p.1 p.2

theorem bound_eq : maxStreamsBound = Rfc.Frame.streamLimitBound := by decide

/-- the simp set that normalises both sides of one concrete frame type -/
macro "agree_simp" : tactic =>
  `(tactic| simp [decodeFrame, dec1_eq, dec2_eq, dec3_eq, decStreamLimit_eq, decCrypto_eq, decNewToken_eq,
      decStream_eq, decDatagram_eq, decPath_eq, decNewConnectionId_eq, decConnectionClose_eq,
      andThen_ok, andThen_assoc, absRes_andThen_decVar, absRes_andThen_decSliceVar, absRes_andThen_decSlice,
      absRes_andThen_decU8, absRes_ite_error, absRes_ite_error', absRes_ok, layout, rfcRest_int,
      rfcRest_lenBytes, rfcRest_fixedBytes, rfcRest_restBytes, rfcRest_len8Bytes, rfcRest_nil, interp, toRfc,
      pathDataLen, resetTokenLen, bound_eq])

end Quic.Proofs.Frame
