import QuicModel.Conn.CloseSender
namespace Quic.Proofs.CloseSender
open Quic.Conn.CloseSender

/-- transmissions that are already "paid for": the pending one and an armed debounce timer -/
def owed : State → Nat
  | .closing _ l t => (if t = .transmitting then 1 else 0) + (if l.debounceArmed then 1 else 0)
  | _ => 0

def packetOf : State → Option Nat
  | .closing p _ _ => some p
  | _ => none

/-- invariant relating what was sent (`n` packets, all equal to the stored packet) to what was received (`d`) -/
structure Inv (s : State) (out : List Nat) (d : Nat) : Prop where
  budget : s ≠ .idle → out.length + owed s ≤ 1 + d
  idle : s = .idle → out = []
  same : ∀ p, packetOf s = some p → ∀ q ∈ out, q = p
  closedSame : s = .closed → ∀ q ∈ out, ∀ q' ∈ out, q = q'

theorem onDatagramReceived_armed (l : Limiter) :
    (if l.onDatagramReceived.debounceArmed then 1 else 0) ≤ (if l.debounceArmed then 1 else 0) + 1 := by
  simp only [Limiter.onDatagramReceived]
  split <;> (try split) <;> simp_all

theorem step_inv {s : State} {out : List Nat} {d : Nat} (op : Op) (h : Inv s out d) :
    Inv (step s op).1 (out ++ ((step s op).2.map (fun p => [p])).getD [])
      (d + if op = .datagramReceived then 1 else 0) := by
  obtain ⟨hb, hi, hs, hc⟩ := h
  cases s with
  | idle =>
    have ho := hi rfl
    subst ho
    cases op <;> simp only [step] <;> constructor <;> simp [owed, packetOf]
  | closed =>
    have hb' := hb (by simp)
    cases op <;> simp only [step] <;> refine ⟨fun _ => ?_, by simp, by simp [packetOf], fun _ => ?_⟩ <;>
      first
      | (simp [owed] at hb' ⊢; omega)
      | (simpa using hc rfl)
  | closing p l t =>
    have hb' := hb (by simp)
    have hs' := hs p rfl
    cases op with
    | close q =>
      simp only [step]
      exact ⟨fun _ => by simpa using hb', by simp, by simpa [packetOf] using hs', by simp⟩
    | datagramReceived =>
      simp only [step]
      refine ⟨fun _ => ?_, by simp, by simpa [packetOf] using hs', by simp⟩
      have := onDatagramReceived_armed l
      simp only [owed, Option.map, Option.getD, List.append_nil, if_true] at hb' ⊢
      omega
    | debounceExpired =>
      simp only [step]
      split
      · rename_i ha
        refine ⟨fun _ => ?_, by simp, by simpa [packetOf] using hs', by simp⟩
        simp only [owed, ha, if_true, Option.map, Option.getD, List.append_nil] at hb' ⊢
        simp; omega
      · exact ⟨fun _ => by simpa using hb', by simp, by simpa [packetOf] using hs', by simp⟩
    | closeTimerExpired =>
      simp only [step]
      refine ⟨fun _ => by simp [owed] at hb' ⊢; omega, by simp, by simp [packetOf], fun _ => ?_⟩
      intro q hq q' hq'
      simp at hq hq'
      rw [hs' q hq, hs' q' hq']
    | transmit =>
      cases t with
      | idle =>
        simp only [step]
        exact ⟨fun _ => by simpa using hb', by simp, by simpa [packetOf] using hs', by simp⟩
      | transmitting =>
        simp only [step]
        refine ⟨fun _ => ?_, by simp, ?_, by simp⟩
        · simp [owed] at hb' ⊢; omega
        · intro p' hp' q hq
          simp [packetOf] at hp'
          subst hp'
          simp at hq
          rcases hq with hq | hq
          · exact hs' q hq
          · exact hq


theorem run_inv (ops : List Op) : ∀ (s : State) (out : List Nat) (d : Nat), Inv s out d →
    Inv (run s ops).1 (out ++ (run s ops).2.filterMap id) (d + (ops.filter (· == .datagramReceived)).length) := by
  induction ops with
  | nil => intro s out d h; simpa [run] using h
  | cons op rest ih =>
    intro s out d h
    have h1 := step_inv op h
    have h2 := ih _ _ _ h1
    simp only [run, List.filterMap_cons, List.filter_cons]
    cases hso : (step s op).2 with
    | none =>
      simp only [hso, Option.map, Option.getD, List.append_nil] at h2
      by_cases hop : op = .datagramReceived
      · subst hop; simp only [if_true] at h2; simpa [Nat.add_assoc, Nat.add_comm 1] using h2
      · have : (op == Op.datagramReceived) = false := by simpa using hop
        simp only [hop, if_false, Nat.add_zero] at h2
        simpa [this] using h2
    | some q =>
      simp only [hso, Option.map, Option.getD] at h2
      by_cases hop : op = .datagramReceived
      · subst hop; simp only [if_true] at h2; simpa [Nat.add_assoc, Nat.add_comm 1, List.append_assoc] using h2
      · have : (op == Op.datagramReceived) = false := by simpa using hop
        simp only [hop, if_false, Nat.add_zero] at h2
        simpa [this, List.append_assoc] using h2

theorem inv_idle : Inv .idle [] 0 := by constructor <;> simp [packetOf]

end Quic.Proofs.CloseSender
