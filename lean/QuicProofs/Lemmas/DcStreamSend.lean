import QuicModel.Dc.StreamSend
/-
  Helper lemmas for C20 (sender skeleton `Dc.StreamSend`): the invariant `SI` — every stored and
  every emitted segment is consistent with the written string, `max_sent_offset` together with the
  queued application transmissions covers exactly the written string, `DataSent` implies the final
  size is fixed and reached, the flow offset and the written length stay within the peer's MAX_DATA —
  holds initially and is preserved by every operation.
-/
namespace Quic.Proofs.DcStreamSendLemmas
open Quic.Data.RefBuf (Frame Consistent)
open Quic.Dc.StreamSend

/-! ### consistency of frames -/

/-- a segment is fine w.r.t. the written string `w` and the "application finished" flag -/
def Good (w : List Nat) (fw : Bool) (f : Frame) : Prop :=
  Consistent w f ∧ (f.fin = true → fw = true)

theorem take_drop_append (w a : List Nat) (off len : Nat) (h : off + len ≤ w.length) :
    ((w ++ a).drop off).take len = (w.drop off).take len := by
  rw [List.drop_append_of_le_length (by omega)]
  rw [List.take_append_of_le_length (by simp; omega)]

/-- a segment without FIN stays fine when more is written -/
theorem good_extend {w : List Nat} {f : Frame} (h : Good w false f) (a : List Nat) (fw : Bool) :
    Good (w ++ a) fw f := by
  obtain ⟨⟨hd, he, hf⟩, hfin⟩ := h
  have hnf : f.fin = false := by
    cases hff : f.fin
    · rfl
    · have := hfin hff; cases this
  refine ⟨⟨?_, ?_, ?_⟩, ?_⟩
  · rw [take_drop_append _ _ _ _ he]; exact hd
  · simp only [List.length_append]; omega
  · intro hh; rw [hnf] at hh; cases hh
  · intro hh; rw [hnf] at hh; cases hh

/-- the "application finished" flag may be raised -/
theorem good_fin {w : List Nat} {fw : Bool} {f : Frame} (h : Good w fw f) : Good w true f :=
  ⟨h.1, fun _ => rfl⟩

theorem cut_good (mss : Nat) (hm : 1 ≤ mss) (fin : Bool) :
    ∀ (fuel : Nat) (pre d : List Nat), d.length < fuel →
      ∀ f ∈ cut mss fuel pre.length d fin, Good (pre ++ d) fin f := by
  intro fuel
  induction fuel with
  | zero => intro pre d h; omega
  | succ n ih =>
    intro pre d hlen f hf
    unfold cut at hf
    split at hf
    · simp only [List.mem_singleton] at hf
      subst hf
      refine ⟨⟨?_, ?_, ?_⟩, ?_⟩
      · simp [List.drop_left']
      · simp [Frame.end_]
      · intro _; simp [Frame.end_]
      · intro h; exact h
    · rename_i hgt
      rcases List.mem_cons.mp hf with hf | hf
      · subst hf
        have hl : (d.take mss).length = mss := by simp; omega
        refine ⟨⟨?_, ?_, ?_⟩, ?_⟩
        · simp only [hl]
          rw [List.drop_left' rfl]
        · simp only [Frame.end_, hl, List.length_append]; omega
        · intro h; cases h
        · intro h; cases h
      · have hpre : pre.length + mss = (pre ++ d.take mss).length := by simp; omega
        rw [hpre] at hf
        have := ih (pre ++ d.take mss) (d.drop mss) (by simp; omega) f hf
        rwa [List.append_assoc, List.take_append_drop] at this

theorem foldl_max_init (l : List Nat) (a b : Nat) : l.foldl max (max a b) = max b (l.foldl max a) := by
  induction l generalizing a with
  | nil => simp [Nat.max_comm]
  | cons x xs ih =>
    simp only [List.foldl_cons]
    rw [show max (max a b) x = max (max a x) b by omega]
    exact ih _

theorem foldl_max_ge (l : List Nat) (a : Nat) : a ≤ l.foldl max a := by
  induction l generalizing a with
  | nil => exact Nat.le_refl _
  | cons x xs ih => exact Nat.le_trans (Nat.le_max_left a x) (ih _)

theorem foldl_max_le {l : List Nat} {a B : Nat} (ha : a ≤ B) (h : ∀ x ∈ l, x ≤ B) : l.foldl max a ≤ B := by
  induction l generalizing a with
  | nil => exact ha
  | cons x xs ih =>
    exact ih (Nat.max_le.mpr ⟨ha, h x List.mem_cons_self⟩) (fun y hy => h y (List.mem_cons_of_mem _ hy))

theorem cut_cover (mss : Nat) (hm : 1 ≤ mss) (fin : Bool) :
    ∀ (fuel off : Nat) (d : List Nat) (a : Nat), d.length < fuel →
      ((cut mss fuel off d fin).map Frame.end_).foldl max a = max a (off + d.length) := by
  intro fuel
  induction fuel with
  | zero => intro off d a h; omega
  | succ n ih =>
    intro off d a hlen
    unfold cut
    split
    · simp [Frame.end_]
    · rename_i hgt
      simp only [List.map_cons, List.foldl_cons, Frame.end_]
      have hl : (d.take mss).length = mss := by simp; omega
      rw [hl, ih (off + mss) (d.drop mss) _ (by simp; omega)]
      simp only [List.length_drop]
      omega

theorem number_snd (n : Nat) (fs : List Frame) : (number n fs).map (·.2) = fs := by
  induction fs generalizing n with
  | nil => rfl
  | cons f fs ih => simp [number, ih]

theorem number_ends (n : Nat) (fs : List Frame) :
    (number n fs).map (fun pf => pf.2.end_) = fs.map Frame.end_ := by
  induction fs generalizing n with
  | nil => rfl
  | cons f fs ih => simp [number, ih]

theorem mem_number {n : Nat} {fs : List Frame} {pf : Nat × Frame} (h : pf ∈ number n fs) : pf.2 ∈ fs := by
  have : pf.2 ∈ (number n fs).map (·.2) := List.mem_map_of_mem h
  rwa [number_snd] at this

/-! ### the invariant -/

/-- `max_sent_offset` joined with the ends of the queued application transmissions -/
def coverEnd (s : Send) : Nat := (s.pending.map (fun pf => pf.2.end_)).foldl max s.maxSentOffset

structure SI (s : Send) (em : List Wire) : Prop where
  pend : ∀ pf ∈ s.pending, Good s.written s.finWritten pf.2
  sentS : ∀ pf ∈ s.sentStream, Good s.written s.finWritten pf.2
  sentR : ∀ p ∈ s.sentRecovery, p.2.2 = true → Good s.written s.finWritten p.2.1
  live : ∀ f ∈ s.live, Good s.written s.finWritten f
  retx : ∀ f ∈ s.retransmissions, Good s.written s.finWritten f
  emitted : ∀ wr ∈ em, Good s.written s.finWritten wr.frame
  cover : coverEnd s = s.written.length
  dataSent : s.state = .dataSent → s.finWritten = true ∧ s.maxSentOffset = s.written.length
  flow : s.flowOffset ≤ s.maxData ∧ s.written.length ≤ s.maxData

/-- the invariant on traces -/
def SInv (t : Trace) : Prop := SI t.send t.emitted

theorem SI.maxSent_le {s : Send} {em : List Wire} (h : SI s em) : s.maxSentOffset ≤ s.written.length := by
  rw [← h.cover]; exact foldl_max_ge _ _

theorem si_init (remoteMaxData localSendMaxData cwnd : Nat) : SI (init remoteMaxData localSendMaxData cwnd) [] := by
  refine ⟨?_, ?_, ?_, ?_, ?_, ?_, rfl, ?_, ?_⟩ <;> simp [init]
  omega

theorem sinv_init (remoteMaxData localSendMaxData cwnd : Nat) :
    SInv ⟨init remoteMaxData localSendMaxData cwnd, []⟩ := si_init _ _ _

/-! ### write -/

theorem write_within_flow (s : Send) (data : List Nat) (fin : Bool) (mss : Nat) :
    ∀ wr ∈ (write s data fin mss).2.1, wr.frame.end_ ≤ s.flowOffset ∧ wr.recovery = false := by
  intro wr hw
  unfold write at hw
  simp only at hw
  split at hw
  · cases hw
  · split at hw
    · cases hw
    · split at hw
      · cases hw
      · split at hw
        · cases hw
        · split at hw
          · cases hw
          · rename_i hnerr hnfin hflow hcred hlen
            simp only [List.mem_map] at hw
            obtain ⟨pf, hpf, rfl⟩ := hw
            have hmem := mem_number hpf
            have hg := cut_good (max mss 1) (Nat.le_max_right _ _)
              (fin && decide (min data.length (s.flowOffset - s.written.length) = data.length))
              (min data.length (s.flowOffset - s.written.length) + 1) s.written
              (data.take (min data.length (s.flowOffset - s.written.length))) (by simp) pf.2 hmem
            have he := hg.1.2.1
            simp only [List.length_append, List.length_take] at he
            refine ⟨?_, rfl⟩
            show pf.2.end_ ≤ s.flowOffset
            omega

theorem write_si {s : Send} {em : List Wire} (h : SI s em) (data : List Nat) (fin : Bool) (mss : Nat) :
    SI (write s data fin mss).1 (em ++ (write s data fin mss).2.1) := by
  unfold write
  simp only
  split
  · simpa using h
  · split
    · simpa using h
    · split
      · simpa using h
      · split
        · simpa using h
        · split
          · simpa using h
          · rename_i hnerr hnfin hflow hcred hlen
            have hfw : s.finWritten = false := by simpa using hnfin
            -- abbreviations
            generalize hL : min data.length (s.flowOffset - s.written.length) = len at *
            generalize hF : (fin && decide (len = data.length)) = fin' at *
            have hcutgood := cut_good (max mss 1) (Nat.le_max_right _ _) fin' (len + 1) s.written (data.take len)
              (by simp; omega)
            have hold : ∀ f, Good s.written s.finWritten f → Good (s.written ++ data.take len) fin' f := by
              intro f hf; rw [hfw] at hf; exact good_extend hf _ _
            refine ⟨?_, ?_, ?_, ?_, ?_, ?_, ?_, ?_, ?_⟩
            · intro pf hpf
              simp only [List.mem_append] at hpf
              rcases hpf with hpf | hpf
              · exact hold _ (h.pend pf hpf)
              · exact hcutgood _ (mem_number hpf)
            · intro pf hpf; exact hold _ (h.sentS pf hpf)
            · intro p hp hr; exact hold _ (h.sentR p hp hr)
            · intro f hf; exact hold _ (h.live f hf)
            · intro f hf; exact hold _ (h.retx f hf)
            · intro wr hwr
              simp only [List.mem_append, List.mem_map] at hwr
              rcases hwr with hwr | ⟨pf, hpf, rfl⟩
              · exact hold _ (h.emitted wr hwr)
              · exact hcutgood _ (mem_number hpf)
            · have hc := h.cover
              unfold coverEnd at hc ⊢
              simp only [List.map_append, List.foldl_append, hc]
              rw [number_ends, cut_cover (max mss 1) (Nat.le_max_right _ _) fin' _ _ _ _ (by simp; omega)]
              simp only [List.length_append, List.length_take]
              omega
            · intro hs
              have := (h.dataSent hs).1
              rw [hfw] at this; cases this
            · refine ⟨h.flow.1, ?_⟩
              simp only [List.length_append, List.length_take]
              have := h.flow.1
              omega

/-! ### on_transmit_segment and the state machine -/

theorem segState_dataSent (st : SState) (f : Frame) (h : segState st f = .dataSent) :
    st = .dataSent ∨ f.fin = true := by
  unfold segState at h
  cases hf : f.fin
  · left
    simp only [hf, Bool.false_eq_true, if_false] at h
    revert h; cases st <;> simp [SState.onSendStream]
  · right; rfl

theorem foldl_segState_dataSent (fs : List Frame) (st : SState) (h : fs.foldl segState st = .dataSent) :
    st = .dataSent ∨ ∃ f ∈ fs, f.fin = true := by
  induction fs generalizing st with
  | nil => exact Or.inl h
  | cons f fs ih =>
    rcases ih _ h with h' | ⟨g, hg, hfin⟩
    · rcases segState_dataSent st f h' with h'' | h''
      · exact Or.inl h''
      · exact Or.inr ⟨f, List.mem_cons_self, h''⟩
    · exact Or.inr ⟨g, List.mem_cons_of_mem _ hg, hfin⟩

/-- one more transmission of a good segment keeps the core of the invariant -/
theorem onTransmitSegment_core {s : Send} {em : List Wire} (h : SI s em) (f : Frame)
    (hf : Good s.written s.finWritten f) :
    coverEnd (onTransmitSegment s f) = s.written.length ∧
    ((onTransmitSegment s f).state = .dataSent → s.finWritten = true ∧ (onTransmitSegment s f).maxSentOffset = s.written.length) := by
  have hend : f.end_ ≤ s.written.length := hf.1.2.1
  have hm := h.maxSent_le
  constructor
  · unfold coverEnd onTransmitSegment
    simp only
    rw [foldl_max_init]
    have := h.cover
    unfold coverEnd at this
    rw [this]; omega
  · intro hs
    simp only [onTransmitSegment] at hs ⊢
    rcases segState_dataSent _ _ hs with h' | h'
    · have := h.dataSent h'
      exact ⟨this.1, by omega⟩
    · have h1 := hf.2 h'
      have h2 := hf.1.2.2 h'
      exact ⟨h1, by omega⟩

/-! ### the worker's operations -/

theorem load_si {s : Send} {em : List Wire} (h : SI s em) : SI (load s) em := by
  have hcov := h.cover
  unfold coverEnd at hcov
  have hmax : ((s.pending.map (·.2)).map Frame.end_).foldl max s.maxSentOffset = s.written.length := by
    rw [List.map_map]; exact hcov
  refine ⟨?_, ?_, ?_, ?_, ?_, ?_, ?_, ?_, ?_⟩
  · intro pf hpf; simp [load] at hpf
  · intro pf hpf
    simp only [load, List.mem_append] at hpf
    rcases hpf with hpf | hpf
    · exact h.sentS pf hpf
    · exact h.pend pf hpf
  · intro p hp hr; exact h.sentR p hp hr
  · intro f hf
    simp only [load, List.mem_append, List.mem_map] at hf
    rcases hf with hf | ⟨pf, hpf, rfl⟩
    · exact h.live f hf
    · exact h.pend pf hpf
  · intro f hf; exact h.retx f hf
  · exact h.emitted
  · simp only [coverEnd, load, List.map_nil, List.foldl_nil]
    exact hmax
  · intro hs
    simp only [load] at hs ⊢
    refine ⟨?_, hmax⟩
    rcases foldl_segState_dataSent _ _ hs with h' | ⟨f, hf, hfin⟩
    · exact (h.dataSent h').1
    · simp only [List.mem_map] at hf
      obtain ⟨pf, hpf, rfl⟩ := hf
      exact (h.pend pf hpf).2 hfin
  · exact h.flow

theorem cleanUp_si {s : Send} {em : List Wire} (h : SI s em) : SI (cleanUp s) em := by
  refine ⟨h.pend, ?_, ?_, ?_, ?_, h.emitted, h.cover, h.dataSent, h.flow⟩ <;> simp [cleanUp]

theorem tryFinish_si {s : Send} {em : List Wire} (h : SI s em) : SI (tryFinish s) em := by
  unfold tryFinish
  split
  · exact h
  · split
    · exact h
    · split
      · rename_i st hst
        apply cleanUp_si
        refine ⟨h.pend, h.sentS, h.sentR, h.live, h.retx, h.emitted, h.cover, ?_, h.flow⟩
        intro hs
        simp only at hs
        subst hs
        revert hst
        cases s.state <;> simp [SState.onRecvAllAcks]
      · exact h

theorem ack_si {s : Send} {em : List Wire} (h : SI s em) (recovery : Bool) (lo hi : Nat) :
    SI (ack s recovery lo hi) em := by
  unfold ack
  apply tryFinish_si
  refine ⟨h.pend, ?_, ?_, ?_, ?_, h.emitted, h.cover, h.dataSent, h.flow⟩
  · intro pf hpf
    simp only at hpf
    split at hpf
    · exact h.sentS pf hpf
    · exact h.sentS pf (List.mem_filter.mp hpf).1
  · intro p hp hr
    simp only at hp
    split at hp
    · exact h.sentR p (List.mem_filter.mp hp).1 hr
    · exact h.sentR p hp hr
  · intro f hf; exact h.live f (List.mem_filter.mp hf).1
  · intro f hf; exact h.retx f (List.mem_filter.mp hf).1

theorem detectLost_si {s : Send} {em : List Wire} (h : SI s em) (recovery : Bool) (maxAcked : Nat) :
    SI (detectLost s recovery maxAcked) em := by
  unfold detectLost
  split
  · exact h
  · refine ⟨h.pend, ?_, ?_, h.live, ?_, h.emitted, h.cover, h.dataSent, h.flow⟩
    · intro pf hpf
      simp only at hpf
      split at hpf
      · exact h.sentS pf hpf
      · exact h.sentS pf (List.mem_filter.mp hpf).1
    · intro p hp hr
      simp only at hp
      split at hp
      · exact h.sentR p (List.mem_filter.mp hp).1 hr
      · exact h.sentR p hp hr
    · intro f hf
      simp only [List.mem_append, List.mem_map, List.mem_filter] at hf
      rcases hf with hf | ⟨p, ⟨hp, _⟩, rfl⟩
      · exact h.retx f hf
      · rcases hp with hp | ⟨q, ⟨hq, hqr⟩, rfl⟩
        · split at hp
          · cases hp
          · exact h.sentS p (List.mem_filter.mp hp).1
        · split at hq
          · exact h.sentR q (List.mem_filter.mp hq).1 hqr
          · cases hq

theorem makeProbes_si {s : Send} {em : List Wire} (h : SI s em) : SI (makeProbes s) em := by
  unfold makeProbes
  split
  · exact h
  · rename_i first rest heq
    split
    · exact h
    · refine ⟨h.pend, h.sentS, h.sentR, h.live, ?_, h.emitted, h.cover, h.dataSent, h.flow⟩
      intro f hf
      simp only [List.mem_append, List.mem_map, List.mem_replicate] at hf
      rcases hf with hf | ⟨pf, hpf, rfl⟩ | ⟨_, rfl⟩
      · exact h.retx f hf
      · exact h.sentS pf (List.mem_of_mem_take hpf)
      · exact h.sentS first (by rw [heq]; exact List.mem_cons_self)

/-- re-sending a good segment -/
theorem retransmitOne_si {s : Send} {em : List Wire} (h : SI s em) (f : Frame)
    (hf : Good s.written s.finWritten f) :
    SI (retransmitOne s f).1 (em ++ [(retransmitOne s f).2]) := by
  have hcore := onTransmitSegment_core (s := { s with recoveryPn := s.recoveryPn + 1 }) (em := em)
    ⟨h.pend, h.sentS, h.sentR, h.live, h.retx, h.emitted, h.cover, h.dataSent, h.flow⟩ f hf
  unfold retransmitOne
  refine ⟨h.pend, h.sentS, ?_, h.live, h.retx, ?_, ?_, ?_, h.flow⟩
  · intro p hp hr
    simp only [onTransmitSegment, List.mem_append, List.mem_singleton] at hp
    rcases hp with hp | rfl
    · exact h.sentR p hp hr
    · exact hf
  · intro wr hwr
    simp only [List.mem_append, List.mem_singleton] at hwr
    rcases hwr with hwr | rfl
    · exact h.emitted wr hwr
    · exact hf
  · exact hcore.1
  · intro hs
    exact hcore.2 hs

theorem retransmit_si : ∀ (budget : Nat) {s : Send} {em : List Wire}, SI s em →
    SI (retransmit budget s).1 (em ++ (retransmit budget s).2) := by
  intro budget
  induction budget with
  | zero => intro s em h; simpa [retransmit] using h
  | succ n ih =>
    intro s em h
    unfold retransmit
    split
    · simpa using h
    · rename_i f rest heq
      have hf : Good s.written s.finWritten f := h.retx f (by rw [heq]; exact List.mem_cons_self)
      have h' : SI { s with retransmissions := rest } em :=
        ⟨h.pend, h.sentS, h.sentR, h.live, fun g hg => h.retx g (by rw [heq]; exact List.mem_cons_of_mem _ hg),
          h.emitted, h.cover, h.dataSent, h.flow⟩
      have h1 := retransmitOne_si h' f hf
      have h2 := ih h1
      simpa [List.append_assoc] using h2

/-- a PTO probe is good: empty, at `max_sent_offset`, FIN only in `DataSent` -/
theorem probe_good {s : Send} {em : List Wire} (h : SI s em) :
    Good s.written s.finWritten ⟨s.maxSentOffset, [], decide (s.state = .dataSent)⟩ := by
  have hm := h.maxSent_le
  refine ⟨⟨by simp, by simp [Frame.end_]; exact hm, ?_⟩, ?_⟩
  · intro hfin
    simp only [decide_eq_true_eq] at hfin
    simp [Frame.end_, (h.dataSent hfin).2]
  · intro hfin
    simp only [decide_eq_true_eq] at hfin
    exact (h.dataSent hfin).1

theorem probeOne_si {s : Send} {em : List Wire} (h : SI s em) :
    SI (probeOne s).1 (em ++ [(probeOne s).2]) := by
  have hf := probe_good h
  have hcore := onTransmitSegment_core (s := { s with recoveryPn := s.recoveryPn + 1 }) (em := em)
    ⟨h.pend, h.sentS, h.sentR, h.live, h.retx, h.emitted, h.cover, h.dataSent, h.flow⟩ _ hf
  unfold probeOne
  refine ⟨h.pend, h.sentS, ?_, h.live, h.retx, ?_, ?_, ?_, h.flow⟩
  · intro p hp hr
    simp only [onTransmitSegment, List.mem_append, List.mem_singleton] at hp
    rcases hp with hp | rfl
    · exact h.sentR p hp hr
    · cases hr
  · intro wr hwr
    simp only [List.mem_append, List.mem_singleton] at hwr
    rcases hwr with hwr | rfl
    · exact h.emitted wr hwr
    · exact hf
  · exact hcore.1
  · intro hs
    exact hcore.2 hs

theorem probes_si : ∀ (fuel : Nat) {s : Send} {em : List Wire}, SI s em →
    SI (probes fuel s).1 (em ++ (probes fuel s).2) := by
  intro fuel
  induction fuel with
  | zero => intro s em h; simpa [probes] using h
  | succ n ih =>
    intro s em h
    unfold probes
    split
    · simpa using h
    · have h1 := probeOne_si h
      have h2 := ih h1
      simpa [List.append_assoc] using h2

theorem transmit_si {s : Send} {em : List Wire} (h : SI s em) (budget : Nat) :
    SI (transmit s budget).1 (em ++ (transmit s budget).2) := by
  unfold transmit
  simp only
  split
  · have h0 : SI (makeProbes { s with recoveryPn := s.recoveryPn + 1 }) em :=
      makeProbes_si ⟨h.pend, h.sentS, h.sentR, h.live, h.retx, h.emitted, h.cover, h.dataSent, h.flow⟩
    rw [← List.append_assoc]
    exact probes_si _ (retransmit_si budget h0)
  · rw [← List.append_assoc]
    exact probes_si _ (retransmit_si budget h)

theorem detach_si {s : Send} {em : List Wire} (h : SI s em) : SI (detach s) em := by
  have hl := load_si h
  have hpend : (load s).pending = [] := rfl
  have hmax : (load s).maxSentOffset = (load s).written.length := by
    have := hl.cover
    unfold coverEnd at this
    rw [hpend] at this
    simpa using this
  unfold detach
  have hfin : SI { load s with finWritten := true } em :=
    ⟨fun pf hpf => good_fin (hl.pend pf hpf), fun pf hpf => good_fin (hl.sentS pf hpf),
      fun p hp hr => good_fin (hl.sentR p hp hr), fun f hf => good_fin (hl.live f hf),
      fun f hf => good_fin (hl.retx f hf), fun wr hwr => good_fin (hl.emitted wr hwr), hl.cover,
      fun _ => ⟨rfl, hmax⟩, hl.flow⟩
  simp only
  split
  · refine ⟨hfin.pend, hfin.sentS, hfin.sentR, hfin.live, hfin.retx, hfin.emitted, hfin.cover, ?_, hfin.flow⟩
    intro _; exact ⟨rfl, hmax⟩
  · exact hfin

theorem fail_si {s : Send} {em : List Wire} (h : SI s em) : SI (fail s) em := by
  unfold fail
  split
  · exact h
  · have hc : SI (cleanUp { s with error := true, state := s.state.onQueueReset }) em := by
      apply cleanUp_si
      refine ⟨h.pend, h.sentS, h.sentR, h.live, h.retx, h.emitted, h.cover, ?_, h.flow⟩
      intro hs
      simp only at hs
      revert hs
      cases s.state <;> simp [SState.onQueueReset]
    exact ⟨hc.pend, hc.sentS, hc.sentR, hc.live, hc.retx, hc.emitted, hc.cover, hc.dataSent, hc.flow⟩

/-! ### every operation, every history -/

theorem step_si {s : Send} {em : List Wire} (h : SI s em) (op : Op) :
    SI (step s op).1 (em ++ (step s op).2) := by
  cases op with
  | write d fin mss => exact write_si h d fin mss
  | load => simpa [step] using load_si h
  | ack r lo hi => simpa [step] using ack_si h r lo hi
  | detectLost r m => simpa [step] using detectLost_si h r m
  | maxData v =>
    simp only [step, List.append_nil]
    refine ⟨h.pend, h.sentS, h.sentR, h.live, h.retx, h.emitted, h.cover, h.dataSent, ?_⟩
    have := h.flow
    simp only
    omega
  | cca c b =>
    simp only [step, List.append_nil]
    exact ⟨h.pend, h.sentS, h.sentR, h.live, h.retx, h.emitted, h.cover, h.dataSent, h.flow⟩
  | release =>
    simp only [step, List.append_nil]
    refine ⟨h.pend, h.sentS, h.sentR, h.live, h.retx, h.emitted, h.cover, h.dataSent, ?_, h.flow.2⟩
    simp only [computeFlowOffset, flowCombine, remoteOffset]
    omega
  | releaseMax =>
    simp only [step, List.append_nil]
    refine ⟨h.pend, h.sentS, h.sentR, h.live, h.retx, h.emitted, h.cover, h.dataSent, ?_, h.flow.2⟩
    have := h.flow.1
    simp only [computeFlowOffset, flowCombine, remoteOffset]
    omega
  | timeout n =>
    simp only [step, List.append_nil]
    exact ⟨h.pend, h.sentS, h.sentR, h.live, h.retx, h.emitted, h.cover, h.dataSent, h.flow⟩
  | transmit b => exact transmit_si h b
  | detach => simpa [step] using detach_si h
  | fail => simpa [step] using fail_si h

theorem sinv_step {t : Trace} (h : SInv t) (op : Op) : SInv (t.step op) := step_si h op

theorem sinv_foldl {t : Trace} (h : SInv t) (ops : List Op) : SInv (ops.foldl Trace.step t) := by
  induction ops generalizing t with
  | nil => exact h
  | cons op ops ih => exact ih (sinv_step h op)

theorem sinv_run {s0 : Send} (h : SInv ⟨s0, []⟩) (ops : List Op) : SInv (run s0 ops) :=
  sinv_foldl h ops

end Quic.Proofs.DcStreamSendLemmas
