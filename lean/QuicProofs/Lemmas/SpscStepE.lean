import QuicProofs.Lemmas.SpscStepD
/-
  C17 helper lemmas: the invariant `Inv` is preserved by the `drop_contents` steps (loads of both
  indices and the takes of the remaining filled slots) of either side.
-/
namespace Quic.Sync.Spsc
open Quic.Sync.Ra

theorem inv_dLoadHead_sender {s s' : Sys} {ts : Nat} (inv : Inv s)
    (h : step pinned s (.dLoadHead .sender ts) = some s') : s' = { s with fail := some .useAfterFree } ∨ Inv s' := by
  have nf := inv.nofail
  simp only [step, nf, Option.isSome_none, Bool.false_eq_true, if_false, pinned, Sys.loc, Sys.view,
    Sys.setLoc, Sys.setView] at h
  split at h
  case h_2 => simp at h
  rename_i hpc
  split at h
  · left; simp only [failWith, Option.some.injEq] at h; exact h.symm
  split at h
  · simp at h
  rename_i m hr
  have i1 := inv.pLoad (o := .acquire) hr
  obtain ⟨hm, hts⟩ := readable_some hr
  obtain ⟨hval, htag, _⟩ := inv.hH m hm
  have hge := inv.hHp m hm hts
  have hdrop : s.p.pc.dropping = true := by rw [hpc]; rfl
  have hcq := inv.dropP hdrop
  obtain ⟨_, _, _, hcs, _, _, _⟩ := Pc.quiet_facts hcq
  have hex := inv.hHx hdrop m hm hts
  have hg := inv.cS1 hcs
  have hd0 := inv.dropP0 (by rw [hpc]; rfl)
  have hdl : s.dropped.length = 0 := by rw [hd0]; rfl
  right
  simp only [Option.some.injEq, if_true] at h; subst h
  constructor
  inv_same i1
  case ch1 => exact htag
  case ch7 => have := inv.ch7; dsimp only; omega
  case pA2 => intro _; dsimp only; exact ⟨by rw [hval, hex, hg, hdl]; rfl, by rw [hex, hg, hdl]; rfl⟩
  case hHp =>
    intro h' hh' hle
    dsimp only at hle ⊢
    exact inv.hHmono m hm h' hh' (Nat.le_trans (afterLoad_atm_self _ _ _ _) hle)
  case v1 =>
    intro c
    dsimp only
    rcases i1.v1 c with ⟨j, h1, h2, h3⟩ | h
    · by_cases hj : m.tag ≤ j
      · exact .inl ⟨j, hj, h2, h3⟩
      · right
        dsimp only at h1 h2 h3
        have e := inv.mH m hm j (by omega) (by have := inv.ch7; omega)
        have l1 := afterLoad_acq_na_ge s.pv HEAD m c
        have l2 := i1.v0p c
        dsimp only at l2
        subst h3
        omega
    · exact .inr h
  inv_pc i1

theorem inv_dLoadHead_receiver {s s' : Sys} {ts : Nat} (inv : Inv s)
    (h : step pinned s (.dLoadHead .receiver ts) = some s') : s' = { s with fail := some .useAfterFree } ∨ Inv s' := by
  have nf := inv.nofail
  simp only [step, nf, Option.isSome_none, Bool.false_eq_true, if_false, pinned, Sys.loc, Sys.view,
    Sys.setLoc, Sys.setView] at h
  split at h
  case h_2 => simp at h
  rename_i hpc
  split at h
  · left; simp only [failWith, Option.some.injEq] at h; exact h.symm
  split at h
  · simp at h
  rename_i m hr
  have i1 := inv.cLoad (o := .acquire) hr
  obtain ⟨hm, hts⟩ := readable_some hr
  obtain ⟨hval, htag, _⟩ := inv.hH m hm
  have hex := inv.hHc m hm hts
  have hg := inv.cS1 (by rw [hpc]; rfl)
  have hd0 := inv.dropC0 (by rw [hpc]; rfl)
  have hdl : s.dropped.length = 0 := by rw [hd0]; rfl
  right
  simp only [Option.some.injEq] at h
  have hne : (Side.receiver = Side.sender) = False := by simp
  simp only [hne, if_false] at h
  subst h
  constructor
  inv_same i1
  case cA2 => intro _; dsimp only; rw [hval, hex, hg, hdl]; rfl
  inv_pc i1

theorem inv_dLoadTail_sender {s s' : Sys} {ts : Nat} (inv : Inv s)
    (h : step pinned s (.dLoadTail .sender ts) = some s') : s' = { s with fail := some .useAfterFree } ∨ Inv s' := by
  have nf := inv.nofail
  simp only [step, nf, Option.isSome_none, Bool.false_eq_true, if_false, pinned, Sys.loc, Sys.view,
    Sys.setLoc, Sys.setView] at h
  split at h
  case h_2 => simp at h
  rename_i hpc
  split at h
  · left; simp only [failWith, Option.some.injEq] at h; exact h.symm
  split at h
  · simp at h
  rename_i m hr
  have i1 := inv.pLoad (o := .acquire) hr
  obtain ⟨hm, hts⟩ := readable_some hr
  obtain ⟨hval, htag, _⟩ := inv.hT m hm
  have hex := inv.hTp m hm hts
  have hg := inv.pS1 (by rw [hpc]; rfl)
  obtain ⟨hhead, _⟩ := inv.pA2 hpc
  right
  simp only [Option.some.injEq] at h
  have hne : (Side.sender = Side.receiver) = False := by simp
  simp only [hne, if_false] at h
  subst h
  constructor
  inv_same i1
  case pA3 => intro _; dsimp only; exact ⟨hhead, by rw [hval, hex, hg]⟩
  inv_pc i1

theorem inv_dLoadTail_receiver {s s' : Sys} {ts : Nat} (inv : Inv s)
    (h : step pinned s (.dLoadTail .receiver ts) = some s') : s' = { s with fail := some .useAfterFree } ∨ Inv s' := by
  have nf := inv.nofail
  simp only [step, nf, Option.isSome_none, Bool.false_eq_true, if_false, pinned, Sys.loc, Sys.view,
    Sys.setLoc, Sys.setView] at h
  split at h
  case h_2 => simp at h
  rename_i hpc
  split at h
  · left; simp only [failWith, Option.some.injEq] at h; exact h.symm
  split at h
  · simp at h
  rename_i m hr
  have i1 := inv.cLoad (o := .acquire) hr
  obtain ⟨hm, hts⟩ := readable_some hr
  obtain ⟨hval, htag, _⟩ := inv.hT m hm
  have hge := inv.hTc m hm hts
  have hnq : s.c.pc.quiet = false := by rw [hpc]; rfl
  have hhead := inv.cA2 hpc
  right
  simp only [Option.some.injEq, if_true] at h; subst h
  constructor
  inv_same i1
  case ch4 => exact htag
  case ch6 => intro hq; have := inv.ch6 hnq; dsimp only; omega
  case ch8 => have := inv.ch8; dsimp only; omega
  case cA3 => intro _; exact ⟨hhead, hval⟩
  case hTc =>
    intro h' hh' hle
    dsimp only at hle ⊢
    exact inv.hTmono m hm h' hh' (Nat.le_trans (afterLoad_atm_self _ _ _ _) hle)
  case v2 =>
    intro hq c
    dsimp only
    rcases i1.v2 hnq c with ⟨j, h1, h2, h3⟩ | h
    · by_cases hj : m.tag ≤ j
      · exact .inl ⟨j, hj, h2, h3⟩
      · right
        dsimp only at h1 h2 h3
        have e := inv.mT m hm j (by have := inv.ch6 hnq; omega) (by omega)
        have l1 := afterLoad_acq_na_ge s.cv TAIL m c
        have l2 := i1.v0c c
        dsimp only at l2
        subst h3
        omega
    · exact .inr h
  inv_pc i1

set_option hygiene false in
/-- the bookkeeping shared by both `drop_contents` takes: slot `nt % cap` (named by `hhead`) is taken,
    `dropped` grows by `v` -/
macro "dTake_common" : tactic => `(tactic| (
  case ch3 => simp; omega
  case cellF =>
    intro j h1 h2
    simp at h1
    dsimp only at h2 ⊢
    have n := hne j (by omega) h2
    rw [hhead, if_neg n]
    exact inv.cellF j (by omega) h2
  case cellE =>
    intro c
    simp
    by_cases hc : c = hd
    · right; simp [hc]
    · rcases inv.cellE c with ⟨j, h1, h2, h3⟩ | h
      · left
        refine ⟨j, ?_, h2, h3⟩
        rcases Nat.lt_or_ge (s.popped.length + s.dropped.length) j with hh | hh
        · omega
        · exfalso; apply hc; rw [← h3, hhead]; congr 1; omega
      · right; simp [hc, h]
  case fifo =>
    have f := inv.fifo
    simp
    rw [← Nat.add_assoc, List.take_succ, hvv, ← f]; simp
  case v0m => intro l m hm c; have := inv.v0m l m hm c; simp; split <;> simp_all <;> omega
  case mT =>
    intro m hm j h1 h2
    simp at h1
    dsimp only at h2 hm ⊢
    have := inv.mT m hm j (by omega) h2
    have := (inv.hT m hm).2.1
    have := hne j (by omega) (by omega)
    simp [hhead, *]
  case mH =>
    intro m hm j h1 h2
    dsimp only at h1 h2 hm ⊢
    have := inv.mH m hm j h1 h2
    have := (inv.hH m hm).2.1
    have : j % s.cap ≠ (s.popped.length + s.dropped.length) % s.cap := mod_ne_of_lt (by omega) (by omega)
    simp [hhead, *]))

theorem inv_dTake_receiver {s s' : Sys} (inv : Inv s)
    (h : step pinned s (.dTake .receiver) = some s') : s' = { s with fail := some .useAfterFree } ∨ Inv s' := by
  have nf := inv.nofail
  simp only [step, nf, Option.isSome_none, Bool.false_eq_true, if_false, pinned, Sys.loc, Sys.view,
    Sys.setLoc, Sys.setView] at h
  split at h
  case h_2 => simp at h
  rename_i hpc
  split at h
  · left; simp only [failWith, Option.some.injEq] at h; exact h.symm
  right
  have hnq : s.c.pc.quiet = false := by rw [hpc]; rfl
  have hdrop : s.c.pc.dropping = true := by rw [hpc]; rfl
  have hpq := inv.dropC hdrop
  obtain ⟨hpr, hpd, hppd, _, hp1, hp2, _⟩ := Pc.quiet_facts hpq
  obtain ⟨hhead, htail⟩ := inv.cA3 hpc
  have c1 := inv.ch1; have c2 := inv.ch2; have c3 := inv.ch3; have c4 := inv.ch4; have c5 := inv.ch5
  have c6 := inv.ch6 hnq; have c7 := inv.ch7; have c8 := inv.ch8
  split at h
  · -- nothing left: deallocate
    simp only [Option.some.injEq] at h; subst h
    constructor
    inv_same inv
    case cS1 => intro _; exact inv.cS1 (by rw [hpc]; rfl)
    inv_pc inv
  rename_i hneq
  have hlt : s.popped.length + s.dropped.length < s.c.gPeer := by
    rcases Nat.lt_or_ge (s.popped.length + s.dropped.length) s.c.gPeer with h | h
    · exact h
    · exfalso; apply hneq; rw [hhead, htail]; congr 1; omega
  have hne : ∀ j, s.popped.length + s.dropped.length < j → j < s.pushed.length →
      j % s.cap ≠ (s.popped.length + s.dropped.length) % s.cap :=
    fun j h1 h2 => (mod_ne_of_lt h1 (by omega)).symm
  have hcell := inv.cellF (s.popped.length + s.dropped.length) (by omega) (by omega)
  rw [← hhead] at hcell
  have hsome : s.pushed[s.popped.length + s.dropped.length]? = some s.pushed[s.popped.length + s.dropped.length] :=
    List.getElem?_eq_getElem (by omega)
  split at h
  · rename_i hna
    exfalso
    have := naAccess_none hna
    rcases inv.v2 hnq s.c.head with ⟨j, hj1, hj2, hj3⟩ | hv
    · rw [hhead] at hj3
      exact absurd hj3 (hne j (by omega) hj2)
    · exact this hv
  · rename_i hna
    exfalso
    obtain ⟨_, hold, _, _⟩ := naAccess_some hna
    rw [hcell, hsome] at hold; simp at hold
  · rename_i v mem cv hna
    obtain ⟨hv, hold, hmem, hcv⟩ := naAccess_some hna
    have hvv : s.pushed[s.popped.length + s.dropped.length]? = some v := by rw [← hcell, ← hold]
    simp only [Option.some.injEq] at h
    subst h hmem hcv
    generalize hhd : s.c.head = hd at *
    constructor
    inv_same inv
    dTake_common
    case ch6 => intro _; simp; omega
    case cA3 => intro _; simp [hhead, htail, wrapAdd_mod, Nat.add_assoc]
    case cA1 => intro h; simp [hpc] at h
    case cA2 => intro h; simp [hpc] at h
    case pA2 => intro h; exact absurd h hp1
    case pA3 => intro h; exact absurd h hp2
    case dropRc => intro h; simp [hpc] at h
    case dropRp => intro h; dsimp only at h; rw [hpr] at h; cases h
    case dropP0 => intro h; dsimp only at h; rw [hppd] at h; cases h
    case dropC0 => intro h; simp [hpc] at h
    case v0p => intro c; have := inv.v0p c; simp; split <;> simp_all <;> omega
    case v0c => intro c; have := inv.v0c c; simp [View.setNa]; split <;> simp_all <;> omega
    case v1 =>
      intro c
      simp
      by_cases hc : c = hd
      · left; exact ⟨s.popped.length + s.dropped.length, by omega, by omega, by rw [hc, hhead]⟩
      · rcases inv.v1 c with ⟨j, h1, h2, h3⟩ | h
        · left; exact ⟨j, h1, by omega, h3⟩
        · right; simp [hc, h]
    case v2 =>
      intro hq c
      simp [View.setNa]
      by_cases hc : c = hd
      · right; simp [hc]
      · rcases inv.v2 hnq c with h | h
        · left; exact h
        · right; simp [hc, h]

theorem inv_dTake_sender {s s' : Sys} (inv : Inv s)
    (h : step pinned s (.dTake .sender) = some s') : s' = { s with fail := some .useAfterFree } ∨ Inv s' := by
  have nf := inv.nofail
  simp only [step, nf, Option.isSome_none, Bool.false_eq_true, if_false, pinned, Sys.loc, Sys.view,
    Sys.setLoc, Sys.setView] at h
  split at h
  case h_2 => simp at h
  rename_i hpc
  split at h
  · left; simp only [failWith, Option.some.injEq] at h; exact h.symm
  right
  have hdrop : s.p.pc.dropping = true := by rw [hpc]; rfl
  have hcq := inv.dropP hdrop
  obtain ⟨hcr, hcd, hcpd, _, hc1, hc2, _⟩ := Pc.quiet_facts hcq
  obtain ⟨hhead, htail⟩ := inv.pA3 hpc
  have c1 := inv.ch1; have c2 := inv.ch2; have c3 := inv.ch3; have c4 := inv.ch4; have c5 := inv.ch5
  have c7 := inv.ch7; have c8 := inv.ch8
  split at h
  · simp only [Option.some.injEq] at h; subst h
    constructor
    inv_same inv
    case pS1 => intro _; exact inv.pS1 (by rw [hpc]; rfl)
    inv_pc inv
  rename_i hneq
  have hlt : s.popped.length + s.dropped.length < s.pushed.length := by
    rcases Nat.lt_or_ge (s.popped.length + s.dropped.length) s.pushed.length with h | h
    · exact h
    · exfalso; apply hneq; rw [hhead, htail]; congr 1; omega
  have hne : ∀ j, s.popped.length + s.dropped.length < j → j < s.pushed.length →
      j % s.cap ≠ (s.popped.length + s.dropped.length) % s.cap :=
    fun j h1 h2 => (mod_ne_of_lt h1 (by omega)).symm
  have hcell := inv.cellF (s.popped.length + s.dropped.length) (by omega) (by omega)
  rw [← hhead] at hcell
  have hsome : s.pushed[s.popped.length + s.dropped.length]? = some s.pushed[s.popped.length + s.dropped.length] :=
    List.getElem?_eq_getElem (by omega)
  split at h
  · rename_i hna
    exfalso
    have := naAccess_none hna
    rcases inv.v1 s.p.head with ⟨j, hj1, hj2, hj3⟩ | hv
    · rw [hhead] at hj3
      exact absurd hj3 (mod_ne_of_lt hj2 (by omega))
    · exact this hv
  · rename_i hna
    exfalso
    obtain ⟨_, hold, _, _⟩ := naAccess_some hna
    rw [hcell, hsome] at hold; simp at hold
  · rename_i v mem pv hna
    obtain ⟨hv, hold, hmem, hpv⟩ := naAccess_some hna
    have hvv : s.pushed[s.popped.length + s.dropped.length]? = some v := by rw [← hcell, ← hold]
    simp only [Option.some.injEq] at h
    subst h hmem hpv
    generalize hhd : s.p.head = hd at *
    constructor
    inv_same inv
    dTake_common
    case ch6 => intro hq; dsimp only at hq; rw [hcq] at hq; cases hq
    case pA3 => intro _; simp [hhead, htail, wrapAdd_mod, Nat.add_assoc]
    case pA1 => intro h; simp [hpc] at h
    case pA2 => intro h; simp [hpc] at h
    case cA2 => intro h; exact absurd h hc1
    case cA3 => intro h; exact absurd h hc2
    case dropRc => intro h; dsimp only at h; rw [hcr] at h; cases h
    case dropRp => intro h; simp [hpc] at h
    case dropP0 => intro h; simp [hpc] at h
    case dropC0 => intro h; dsimp only at h; rw [hcpd] at h; cases h
    case v0p => intro c; have := inv.v0p c; simp [View.setNa]; split <;> simp_all <;> omega
    case v0c => intro c; have := inv.v0c c; simp; split <;> simp_all <;> omega
    case v1 =>
      intro c
      simp [View.setNa]
      by_cases hc : c = hd
      · right; simp [hc]
      · rcases inv.v1 c with ⟨j, h1, h2, h3⟩ | h
        · left; exact ⟨j, h1, by omega, h3⟩
        · right; simp [hc, h]
    case v2 => intro hq; dsimp only at hq; rw [hcq] at hq; cases hq

end Quic.Sync.Spsc
