import QuicProofs.Lemmas.SpscStepP
import QuicProofs.Lemmas.SpscStepC
import QuicProofs.Lemmas.SpscStepE
/-
  C17 helper lemmas: the invariant holds initially and along every schedule of the RA machine.
-/
namespace Quic.Sync.Spsc
open Quic.Sync.Ra

theorem inv_init {cap : Nat} (hc : 2 ≤ cap) : Inv (init cap) := by
  constructor <;> simp [init, Mem.init, Local.init, View.bot, hc]
  all_goals first
    | omega
    | decide
    | (intro l; split <;> simp)
    | skip

/-- one step under the pinned orderings: either the header was used after free (nothing else changes),
    or the invariant is re-established -/
theorem step_inv {s s' : Sys} {a : Act} (inv : Inv s) (h : step pinned s a = some s') :
    s' = { s with fail := some .useAfterFree } ∨ Inv s' := by
  cases a with
  | pLoadOpen ts => exact inv_pLoadOpen inv h
  | pLoadHead ts => exact inv_pLoadHead inv h
  | pPush v => exact inv_pPush inv h
  | pRelease => exact inv_pRelease inv h
  | cLoadTail ts => exact inv_cLoadTail inv h
  | cLoadOpen ts => exact inv_cLoadOpen inv h
  | cLoadTail2 ts => exact inv_cLoadTail2 inv h
  | cPop => exact inv_cPop inv h
  | cRelease => exact inv_cRelease inv h
  | swap sd => cases sd; exact inv_swap_sender inv h; exact inv_swap_receiver inv h
  | wake2 sd => exact inv_wake2 inv h
  | dLoadHead sd ts => cases sd; exact inv_dLoadHead_sender inv h; exact inv_dLoadHead_receiver inv h
  | dLoadTail sd ts => cases sd; exact inv_dLoadTail_sender inv h; exact inv_dLoadTail_receiver inv h
  | dTake sd => cases sd; exact inv_dTake_sender inv h; exact inv_dTake_receiver inv h

theorem step_of_failed {o : Orderings} {s : Sys} {a : Act} {f : Fail} (h : s.fail = some f) : step o s a = none := by
  simp [step, h]

/-- along every schedule: the final state satisfies the invariant, or it is an invariant state in
    which the only thing that happened afterwards is a use of the freed header -/
theorem run_inv {s0 s : Sys} (acts : List Act) (inv : Inv s0) (h : run pinned s0 acts = some s) :
    Inv s ∨ ∃ t, Inv t ∧ s = { t with fail := some .useAfterFree } := by
  induction acts generalizing s0 with
  | nil => simp [run] at h; subst h; exact .inl inv
  | cons a as ih =>
    simp only [run] at h
    split at h
    · simp at h
    · rename_i s1 hs
      rcases step_inv inv hs with e | i1
      · cases as with
        | nil => simp [run] at h; subst h; exact .inr ⟨s0, inv, e⟩
        | cons b bs =>
          simp only [run] at h
          rw [step_of_failed (f := .useAfterFree) (by rw [e])] at h
          simp at h
      · exact ih i1 h

end Quic.Sync.Spsc

namespace Quic.Sync.Spsc
open Quic.Sync.Ra

/-! ### sequentially consistent runs: every load reads the newest message -/

def newestTs (s : Sys) (l : Nat) : Nat :=
  match s.mem.hist l with
  | m :: _ => m.ts
  | [] => 0

def Act.scOk (s : Sys) : Act → Bool
  | .pLoadOpen ts => ts == newestTs s OPEN
  | .cLoadOpen ts => ts == newestTs s OPEN
  | .pLoadHead ts => ts == newestTs s HEAD
  | .dLoadHead _ ts => ts == newestTs s HEAD
  | .cLoadTail ts => ts == newestTs s TAIL
  | .cLoadTail2 ts => ts == newestTs s TAIL
  | .dLoadTail _ ts => ts == newestTs s TAIL
  | _ => true

/-- a schedule under sequentially consistent memory (interleaving semantics, no stale reads) -/
def runSC (o : Orderings) : Sys → List Act → Option Sys
  | s, [] => some s
  | s, a :: as =>
    if a.scOk s then
      match step o s a with
      | none => none
      | some s' => runSC o s' as
    else none

theorem runSC_run {o : Orderings} {s s' : Sys} (acts : List Act) (h : runSC o s acts = some s') :
    run o s acts = some s' := by
  induction acts generalizing s with
  | nil => simpa [runSC, run] using h
  | cons a as ih =>
    simp only [runSC] at h
    split at h
    · simp only [run]
      split at h
      · simp at h
      · rename_i s1 hs; rw [hs]; exact ih h
    · simp at h

/-- outcome of a schedule from the initial state -/
def failOf (o : Orderings) (cap : Nat) (acts : List Act) : Option Fail :=
  match run o (init cap) acts with
  | some s => s.fail
  | none => none

end Quic.Sync.Spsc
