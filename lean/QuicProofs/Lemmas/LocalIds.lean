import QuicModel.Conn.LocalIds
/-
  Helper lemmas for C13: invariants of the transcribed `LocalIdRegistry` (+ shared mapper) over all
  operation histories. Property theorems are in `QuicProofs/Props/C13ConnectionIds.lean`.
-/
namespace Quic.Proofs.LocalIds
open Quic.Conn.LocalIds Quic.Rfc.PeerView

/-! ### the finite map -/

theorem mapGet_cons (m : List (Cid × Nat)) (a : Cid) (o : Nat) (c : Cid) :
    mapGet ((a, o) :: m) c = if a = c then some o else mapGet m c := by
  unfold mapGet
  by_cases h : a = c <;> simp [h]

theorem mapGet_remove_ne (m : List (Cid × Nat)) (a c : Cid) (h : a ≠ c) :
    mapGet (mapRemove m a) c = mapGet m c := by
  induction m with
  | nil => simp [mapRemove, mapGet]
  | cons e m ih =>
    obtain ⟨x, o⟩ := e
    unfold mapRemove at ih ⊢
    by_cases hx : x = a
    · subst hx
      simp only [List.filter_cons, beq_self_eq_true, Bool.not_true, Bool.false_eq_true, if_false]
      rw [ih, mapGet_cons]; simp [h]
    · have : (x == a) = false := by simp [hx]
      simp only [List.filter_cons, this, Bool.not_false, if_true]
      rw [mapGet_cons, mapGet_cons, ih]

theorem mapGet_remove_self (m : List (Cid × Nat)) (a : Cid) : mapGet (mapRemove m a) a = none := by
  induction m with
  | nil => simp [mapRemove, mapGet]
  | cons e m ih =>
    obtain ⟨x, o⟩ := e
    unfold mapRemove at ih ⊢
    by_cases hx : x = a
    · subst hx
      simpa [List.filter_cons] using ih
    · have : (x == a) = false := by simp [hx]
      simp only [List.filter_cons, this, Bool.not_false, if_true]
      rw [mapGet_cons]; simp [hx, ih]

theorem mapTryInsert_some {m m' : List (Cid × Nat)} {a : Cid} {o : Nat} (h : mapTryInsert m a o = some m') :
    mapGet m a = none ∧ m' = (a, o) :: m := by
  unfold mapTryInsert at h
  split at h
  · cases h
  · next hn => exact ⟨hn, by cases h; rfl⟩

/-! ### `updateFirst` -/

theorem updateFirst_spec (p : IdInfo → Bool) (f : IdInfo → IdInfo) (ids : List IdInfo) {x : IdInfo} {ids' : List IdInfo}
    (h : updateFirst p f ids = some (x, ids')) :
    ∃ pre post, ids = pre ++ x :: post ∧ ids' = pre ++ f x :: post ∧ p x = true := by
  induction ids generalizing ids' with
  | nil => simp [updateFirst] at h
  | cons i rest ih =>
    unfold updateFirst at h
    split at h
    · next hp => cases h; exact ⟨[], rest, rfl, rfl, hp⟩
    · split at h
      · next y r hr =>
        cases h
        obtain ⟨pre, post, h1, h2, h3⟩ := ih hr
        exact ⟨i :: pre, post, by simp [h1], by simp [h2], h3⟩
      · cases h

theorem updateFirst_none (p : IdInfo → Bool) (f : IdInfo → IdInfo) (ids : List IdInfo)
    (h : updateFirst p f ids = none) : ∀ i ∈ ids, p i = false := by
  induction ids with
  | nil => simp
  | cons i rest ih =>
    unfold updateFirst at h
    split at h
    · cases h
    · next hp =>
      split at h
      · cases h
      · next hr =>
        intro j hj
        cases hj with
        | head => simpa using hp
        | tail _ hj => exact ih hr j hj

/-! ### `transmitLoop` -/

theorem transmitLoop_map_seq (rpt : Nat) (c : Constraint) (pn : Nat) (ids : List IdInfo) (room : Nat) :
    (transmitLoop rpt c pn ids room).1.map (·.seq) = ids.map (·.seq) := by
  induction ids generalizing room with
  | nil => simp [transmitLoop]
  | cons i rest ih =>
    unfold transmitLoop
    split
    · cases room with
      | zero => simp [ih]
      | succ r => simp [ih]
    · simp [ih]

theorem transmitLoop_map_id (rpt : Nat) (c : Constraint) (pn : Nat) (ids : List IdInfo) (room : Nat) :
    (transmitLoop rpt c pn ids room).1.map (·.id) = ids.map (·.id) := by
  induction ids generalizing room with
  | nil => simp [transmitLoop]
  | cons i rest ih =>
    unfold transmitLoop
    split
    · cases room with
      | zero => simp [ih]
      | succ r => simp [ih]
    · simp [ih]


/-! ### structural invariant -/

structure Inv1 (s : State) : Prop where
  sorted : (s.ids.map (·.seq)).Pairwise (· < ·)
  below : ∀ q ∈ s.ids.map (·.seq), q < s.nextSeq
  idsNodup : (s.ids.map (·.id)).Nodup
  mapOwn : ∀ c ∈ s.ids.map (·.id), mapGet s.map c = some s.internalId
  rptLe : s.retirePriorTo ≤ s.nextSeq

theorem Inv1.of_same_keys {s s' : State} (h : Inv1 s)
    (hseq : s'.ids.map (·.seq) = s.ids.map (·.seq)) (hid : s'.ids.map (·.id) = s.ids.map (·.id))
    (hn : s'.nextSeq = s.nextSeq) (hm : s'.map = s.map) (hi : s'.internalId = s.internalId)
    (hr : s'.retirePriorTo ≤ s.nextSeq) : Inv1 s' := by
  refine ⟨?_, ?_, ?_, ?_, ?_⟩
  · rw [hseq]; exact h.sorted
  · rw [hseq, hn]; exact h.below
  · rw [hid]; exact h.idsNodup
  · rw [hid, hm, hi]; exact h.mapOwn
  · rw [hn]; exact hr

theorem updateFirst_map_seq (p : IdInfo → Bool) (f : IdInfo → IdInfo) (hf : ∀ i, (f i).seq = i.seq)
    (ids : List IdInfo) {x : IdInfo} {ids' : List IdInfo} (h : updateFirst p f ids = some (x, ids')) :
    ids'.map (·.seq) = ids.map (·.seq) := by
  obtain ⟨pre, post, h1, h2, _⟩ := updateFirst_spec p f ids h
  subst h1 h2; simp [hf]

theorem updateFirst_map_id (p : IdInfo → Bool) (f : IdInfo → IdInfo) (hf : ∀ i, (f i).id = i.id)
    (ids : List IdInfo) {x : IdInfo} {ids' : List IdInfo} (h : updateFirst p f ids = some (x, ids')) :
    ids'.map (·.id) = ids.map (·.id) := by
  obtain ⟨pre, post, h1, h2, _⟩ := updateFirst_spec p f ids h
  subst h1 h2; simp [hf]

theorem foldl_rpt_le (ids : List IdInfo) (now n r : Nat) (hr : r ≤ n) (hb : ∀ i ∈ ids, i.seq < n) :
    ids.foldl (fun r i => if i.isRetireReady now then max r (i.seq + 1) else r) r ≤ n := by
  induction ids generalizing r with
  | nil => simpa
  | cons i rest ih =>
    simp only [List.foldl_cons]
    apply ih
    · have := hb i (by simp)
      split
      · exact Nat.max_le.mpr ⟨hr, this⟩
      · exact hr
    · intro j hj; exact hb j (by simp [hj])

theorem foldl_rpt_ge (ids : List IdInfo) (now r : Nat) :
    r ≤ ids.foldl (fun r i => if i.isRetireReady now then max r (i.seq + 1) else r) r := by
  induction ids generalizing r with
  | nil => simp
  | cons i rest ih =>
    simp only [List.foldl_cons]
    refine Nat.le_trans ?_ (ih _)
    split
    · exact Nat.le_max_left _ _
    · exact Nat.le_refl _

theorem foldl_rpt_mem (ids : List IdInfo) (now r : Nat) (i : IdInfo) (hi : i ∈ ids) (hr : i.isRetireReady now = true) :
    i.seq + 1 ≤ ids.foldl (fun r i => if i.isRetireReady now then max r (i.seq + 1) else r) r := by
  induction ids generalizing r with
  | nil => cases hi
  | cons j rest ih =>
    simp only [List.foldl_cons]
    cases hi with
    | head =>
      refine Nat.le_trans ?_ (foldl_rpt_ge rest now _)
      simp only [hr, if_true]
      exact Nat.le_max_right _ _
    | tail _ h => exact ih _ h

theorem mapGet_foldl_remove (gone : List IdInfo) (m : List (Cid × Nat)) (c : Cid)
    (h : ∀ g ∈ gone, g.id ≠ c) : mapGet (gone.foldl (fun m i => mapRemove m i.id) m) c = mapGet m c := by
  induction gone generalizing m with
  | nil => rfl
  | cons g rest ih =>
    simp only [List.foldl_cons]
    rw [ih _ (fun x hx => h x (by simp [hx])), mapGet_remove_ne _ _ _ (h g (by simp))]

theorem mem_map_id_filter_disjoint (ids : List IdInfo) (P : IdInfo → Bool) (hn : (ids.map (·.id)).Nodup)
    (g k : IdInfo) (hg : g ∈ ids.filter P) (hk : k ∈ ids.filter (fun i => !P i)) : g.id ≠ k.id := by
  induction ids with
  | nil => simp at hg
  | cons i rest ih =>
    simp only [List.map_cons, List.nodup_cons, List.mem_map, not_exists, not_and] at hn
    simp only [List.filter_cons] at hg hk
    by_cases hp : P i = true
    · simp only [hp, if_true, Bool.not_true, Bool.false_eq_true, if_false] at hg hk
      cases hg with
      | head => intro e; exact hn.1 k (List.mem_filter.mp hk).1 e.symm
      | tail _ hg => exact ih hn.2 hg hk
    · have hp' : P i = false := by simpa using hp
      simp only [hp', Bool.false_eq_true, if_false, Bool.not_false, if_true] at hg hk
      cases hk with
      | head => intro e; exact hn.1 g (List.mem_filter.mp hg).1 e
      | tail _ hk => exact ih hn.2 hg hk

end Quic.Proofs.LocalIds
