import QuicModel.Conn.LocalIds
import QuicProofs.Lemmas.PeerView
/-
  Helper lemmas for C13: invariants of the transcribed `LocalIdRegistry` (+ shared mapper) over all
  operation histories. Property theorems are in `QuicProofs/Props/C13ConnectionIds.lean`.
-/
namespace Quic.Proofs.LocalIds
open Quic.Conn.LocalIds
open Quic.Rfc.PeerView (Frame Ev View observe)

/-! ### the finite map -/

theorem mapGet_cons (m : List (Cid × Nat)) (a : Cid) (o : Nat) (c : Cid) :
    mapGet ((a, o) :: m) c = if a = c then some o else mapGet m c := by
  unfold mapGet
  by_cases h : a = c <;> simp [h]

theorem mapGet_remove_ne (m : List (Cid × Nat)) (a c : Cid) (h : a ≠ c) :
    mapGet (mapRemove m a) c = mapGet m c := by
  induction m with
  | nil => simp [mapRemove, mapGet]
  | cons e m ih =>
    obtain ⟨x, o⟩ := e
    unfold mapRemove at ih ⊢
    by_cases hx : x = a
    · subst hx
      simp only [List.filter_cons, beq_self_eq_true, Bool.not_true, Bool.false_eq_true, if_false]
      rw [ih, mapGet_cons]; simp [h]
    · have : (x == a) = false := by simp [hx]
      simp only [List.filter_cons, this, Bool.not_false, if_true]
      rw [mapGet_cons, mapGet_cons, ih]

theorem mapGet_remove_self (m : List (Cid × Nat)) (a : Cid) : mapGet (mapRemove m a) a = none := by
  induction m with
  | nil => simp [mapRemove, mapGet]
  | cons e m ih =>
    obtain ⟨x, o⟩ := e
    unfold mapRemove at ih ⊢
    by_cases hx : x = a
    · subst hx
      simpa [List.filter_cons] using ih
    · have : (x == a) = false := by simp [hx]
      simp only [List.filter_cons, this, Bool.not_false, if_true]
      rw [mapGet_cons]; simp [hx, ih]

theorem mapTryInsert_some {m m' : List (Cid × Nat)} {a : Cid} {o : Nat} (h : mapTryInsert m a o = some m') :
    mapGet m a = none ∧ m' = (a, o) :: m := by
  unfold mapTryInsert at h
  split at h
  · cases h
  · next hn => exact ⟨hn, by cases h; rfl⟩

/-! ### `updateFirst` -/

theorem updateFirst_spec (p : IdInfo → Bool) (f : IdInfo → IdInfo) (ids : List IdInfo) {x : IdInfo} {ids' : List IdInfo}
    (h : updateFirst p f ids = some (x, ids')) :
    ∃ pre post, ids = pre ++ x :: post ∧ ids' = pre ++ f x :: post ∧ p x = true := by
  induction ids generalizing ids' with
  | nil => simp [updateFirst] at h
  | cons i rest ih =>
    unfold updateFirst at h
    split at h
    · next hp => cases h; exact ⟨[], rest, rfl, rfl, hp⟩
    · split at h
      · next y r hr =>
        cases h
        obtain ⟨pre, post, h1, h2, h3⟩ := ih hr
        exact ⟨i :: pre, post, by simp [h1], by simp [h2], h3⟩
      · cases h

theorem updateFirst_none (p : IdInfo → Bool) (f : IdInfo → IdInfo) (ids : List IdInfo)
    (h : updateFirst p f ids = none) : ∀ i ∈ ids, p i = false := by
  induction ids with
  | nil => simp
  | cons i rest ih =>
    unfold updateFirst at h
    split at h
    · cases h
    · next hp =>
      split at h
      · cases h
      · next hr =>
        intro j hj
        cases hj with
        | head => simpa using hp
        | tail _ hj => exact ih hr j hj

/-! ### `transmitLoop` -/

theorem transmitLoop_map_seq (rpt : Nat) (c : Constraint) (pn : Nat) (ids : List IdInfo) (room : Nat) :
    (transmitLoop rpt c pn ids room).1.map (·.seq) = ids.map (·.seq) := by
  induction ids generalizing room with
  | nil => simp [transmitLoop]
  | cons i rest ih =>
    unfold transmitLoop
    split
    · cases room with
      | zero => simp [ih]
      | succ r => simp [ih]
    · simp [ih]

theorem transmitLoop_map_id (rpt : Nat) (c : Constraint) (pn : Nat) (ids : List IdInfo) (room : Nat) :
    (transmitLoop rpt c pn ids room).1.map (·.id) = ids.map (·.id) := by
  induction ids generalizing room with
  | nil => simp [transmitLoop]
  | cons i rest ih =>
    unfold transmitLoop
    split
    · cases room with
      | zero => simp [ih]
      | succ r => simp [ih]
    · simp [ih]


/-! ### structural invariant -/

structure Inv1 (s : State) : Prop where
  sorted : (s.ids.map (·.seq)).Pairwise (· < ·)
  below : ∀ q ∈ s.ids.map (·.seq), q < s.nextSeq
  idsNodup : (s.ids.map (·.id)).Nodup
  mapOwn : ∀ c ∈ s.ids.map (·.id), mapGet s.map c = some s.internalId
  rptLe : s.retirePriorTo ≤ s.nextSeq

theorem Inv1.of_same_keys {s s' : State} (h : Inv1 s)
    (hseq : s'.ids.map (·.seq) = s.ids.map (·.seq)) (hid : s'.ids.map (·.id) = s.ids.map (·.id))
    (hn : s'.nextSeq = s.nextSeq) (hm : s'.map = s.map) (hi : s'.internalId = s.internalId)
    (hr : s'.retirePriorTo ≤ s.nextSeq) : Inv1 s' := by
  refine ⟨?_, ?_, ?_, ?_, ?_⟩
  · rw [hseq]; exact h.sorted
  · rw [hseq, hn]; exact h.below
  · rw [hid]; exact h.idsNodup
  · rw [hid, hm, hi]; exact h.mapOwn
  · rw [hn]; exact hr

theorem updateFirst_map_seq (p : IdInfo → Bool) (f : IdInfo → IdInfo) (hf : ∀ i, (f i).seq = i.seq)
    (ids : List IdInfo) {x : IdInfo} {ids' : List IdInfo} (h : updateFirst p f ids = some (x, ids')) :
    ids'.map (·.seq) = ids.map (·.seq) := by
  obtain ⟨pre, post, h1, h2, _⟩ := updateFirst_spec p f ids h
  subst h1 h2; simp [hf]

theorem updateFirst_map_id (p : IdInfo → Bool) (f : IdInfo → IdInfo) (hf : ∀ i, (f i).id = i.id)
    (ids : List IdInfo) {x : IdInfo} {ids' : List IdInfo} (h : updateFirst p f ids = some (x, ids')) :
    ids'.map (·.id) = ids.map (·.id) := by
  obtain ⟨pre, post, h1, h2, _⟩ := updateFirst_spec p f ids h
  subst h1 h2; simp [hf]

theorem foldl_rpt_le (ids : List IdInfo) (now n r : Nat) (hr : r ≤ n) (hb : ∀ i ∈ ids, i.seq < n) :
    ids.foldl (fun r i => if i.isRetireReady now then max r (i.seq + 1) else r) r ≤ n := by
  induction ids generalizing r with
  | nil => simpa
  | cons i rest ih =>
    simp only [List.foldl_cons]
    apply ih
    · have := hb i (by simp)
      split
      · exact Nat.max_le.mpr ⟨hr, this⟩
      · exact hr
    · intro j hj; exact hb j (by simp [hj])

theorem foldl_rpt_ge (ids : List IdInfo) (now r : Nat) :
    r ≤ ids.foldl (fun r i => if i.isRetireReady now then max r (i.seq + 1) else r) r := by
  induction ids generalizing r with
  | nil => simp
  | cons i rest ih =>
    simp only [List.foldl_cons]
    refine Nat.le_trans ?_ (ih _)
    split
    · exact Nat.le_max_left _ _
    · exact Nat.le_refl _

theorem foldl_rpt_mem (ids : List IdInfo) (now r : Nat) (i : IdInfo) (hi : i ∈ ids) (hr : i.isRetireReady now = true) :
    i.seq + 1 ≤ ids.foldl (fun r i => if i.isRetireReady now then max r (i.seq + 1) else r) r := by
  induction ids generalizing r with
  | nil => cases hi
  | cons j rest ih =>
    simp only [List.foldl_cons]
    cases hi with
    | head =>
      refine Nat.le_trans ?_ (foldl_rpt_ge rest now _)
      simp only [hr, if_true]
      exact Nat.le_max_right _ _
    | tail _ h => exact ih _ h

theorem mapGet_foldl_remove (gone : List IdInfo) (m : List (Cid × Nat)) (c : Cid)
    (h : ∀ g ∈ gone, g.id ≠ c) : mapGet (gone.foldl (fun m i => mapRemove m i.id) m) c = mapGet m c := by
  induction gone generalizing m with
  | nil => rfl
  | cons g rest ih =>
    simp only [List.foldl_cons]
    rw [ih _ (fun x hx => h x (by simp [hx])), mapGet_remove_ne _ _ _ (h g (by simp))]

theorem mem_map_id_filter_disjoint (ids : List IdInfo) (P : IdInfo → Bool) (hn : (ids.map (·.id)).Nodup)
    (g k : IdInfo) (hg : g ∈ ids.filter P) (hk : k ∈ ids.filter (fun i => !P i)) : g.id ≠ k.id := by
  induction ids with
  | nil => simp at hg
  | cons i rest ih =>
    simp only [List.map_cons, List.nodup_cons, List.mem_map, not_exists, not_and] at hn
    simp only [List.filter_cons] at hg hk
    by_cases hp : P i = true
    · simp only [hp, if_true, Bool.not_true, Bool.false_eq_true, if_false] at hg hk
      cases hg with
      | head => intro e; exact hn.1 k (List.mem_filter.mp hk).1 e.symm
      | tail _ hg => exact ih hn.2 hg hk
    · have hp' : P i = false := by simpa using hp
      simp only [hp', Bool.false_eq_true, if_false, Bool.not_false, if_true] at hg hk
      cases hk with
      | head => intro e; exact hn.1 g (List.mem_filter.mp hg).1 e
      | tail _ hk => exact ih hn.2 hg hk


/-! ### case analysis of the operations -/

theorem register_cases (s : State) (id : Cid) (e : Option Nat) (t : Token) :
    ((registerConnectionId s id e t).1 = s ∧ (registerConnectionId s id e t).2 ≠ .ok) ∨
    (∃ m, mapTryInsert s.map id s.internalId = some m ∧ (∀ i ∈ s.ids, i.id ≠ id) ∧
          activeIdCount s < s.limit ∧ (∀ i ∈ s.ids, i.token ≠ t) ∧
          registerConnectionId s id e t = (registerOk s id e t m, .ok)) := by
  unfold registerConnectionId
  split
  · left; simp
  · next h1 =>
    split
    · left; simp
    · next h2 =>
      split
      · left; simp
      · next h3 =>
        split
        · left; simp
        · next m hm =>
          split
          · left; simp
          · split
            · left; simp
            · right
              refine ⟨m, hm, ?_, ?_, ?_, rfl⟩
              · intro i hi hid
                apply h1
                simp only [List.any_eq_true]
                exact ⟨i, hi, by simp [hid]⟩
              · simpa using h2
              · intro i hi hid
                apply h3
                simp only [List.any_eq_true]
                exact ⟨i, hi, by simp [hid]⟩

theorem onRetire_cases (s : State) (seq : Nat) (dcid : Cid) (rtt now : Nat) :
    ((onRetireConnectionId s seq dcid rtt now).1 = s ∧ (onRetireConnectionId s seq dcid rtt now).2 ≠ .ok) ∨
    ((onRetireConnectionId s seq dcid rtt now).1 =
        { s with events := s.events ++ [.rxRetire seq], view := observe s.view (.rxRetire seq) } ∧
      (∀ i ∈ s.ids, retirable seq i = false)) ∨
    (∃ pre x post, s.ids = pre ++ x :: post ∧ retirable seq x = true ∧
      (onRetireConnectionId s seq dcid rtt now).1 =
        { s with ids := pre ++ { x with status := .pendingRemoval (now + rtt * rttMultiplier) } :: post,
                 events := s.events ++ [.rxRetire seq], view := observe s.view (.rxRetire seq) }) := by
  unfold onRetireConnectionId
  split
  · left; simp
  · split
    · next info ids h =>
      obtain ⟨pre, post, h1, h2, h3⟩ := updateFirst_spec _ _ _ h
      split
      · left; simp
      · right; right
        exact ⟨pre, info, post, h1, h3, by simp [h2]⟩
    · next h =>
      right; left
      exact ⟨rfl, updateFirst_none _ _ _ h⟩

theorem retireHandshake_cases (s : State) :
    retireHandshakeConnectionId s = s ∨
    (∃ pre x post, s.ids = pre ++ x :: post ∧ x.seq = 0 ∧ x.isRetired = false ∧
      retireHandshakeConnectionId s =
        { s with ids := pre ++ x.retire x.retirementTime :: post, retirePriorTo := max s.retirePriorTo (x.seq + 1) }) := by
  unfold retireHandshakeConnectionId
  split
  · next h ids hu =>
    obtain ⟨pre, post, h1, h2, h3⟩ := updateFirst_spec _ _ _ hu
    right
    refine ⟨pre, h, post, h1, ?_, ?_, by simp [h2]⟩
    · simp only [Bool.and_eq_true, beq_iff_eq] at h3; exact h3.1
    · simp only [Bool.and_eq_true, Bool.not_eq_true'] at h3; exact h3.2
  · left; rfl

/-! ### Inv1 is preserved -/

theorem inv1_register {s : State} (h : Inv1 s) (id : Cid) (e : Option Nat) (t : Token) :
    Inv1 (registerConnectionId s id e t).1 := by
  rcases register_cases s id e t with ⟨h1, _⟩ | ⟨m, hm, hid, _, _, heq⟩
  · rw [h1]; exact h
  · rw [heq]
    obtain ⟨hnone, hm'⟩ := mapTryInsert_some hm
    subst hm'
    refine ⟨?_, ?_, ?_, ?_, ?_⟩
    · simp only [registerOk, List.map_append, List.map_cons, List.map_nil]
      rw [List.pairwise_append]
      refine ⟨h.sorted, by simp, ?_⟩
      intro a ha b hb
      simp only [List.mem_singleton] at hb
      subst hb
      exact h.below a ha
    · simp only [registerOk, List.map_append, List.map_cons, List.map_nil, List.mem_append, List.mem_singleton]
      intro q hq
      rcases hq with hq | hq
      · have := h.below q hq; omega
      · omega
    · simp only [registerOk, List.map_append, List.map_cons, List.map_nil]
      rw [List.nodup_append]
      refine ⟨h.idsNodup, by simp, ?_⟩
      intro a ha b hb
      simp only [List.mem_singleton] at hb
      subst hb
      simp only [List.mem_map] at ha
      obtain ⟨i, hi, rfl⟩ := ha
      exact hid i hi
    · simp only [registerOk, List.map_append, List.map_cons, List.map_nil, List.mem_append, List.mem_singleton]
      intro c hc
      rw [mapGet_cons]
      rcases hc with hc | hc
      · have hne : id ≠ c := by
          simp only [List.mem_map] at hc
          obtain ⟨i, hi, rfl⟩ := hc
          exact fun e => hid i hi e.symm
        simp [hne, h.mapOwn c hc]
      · simp [hc]
    · have := h.rptLe
      simp only [registerOk]; omega

theorem inv1_onRetire {s : State} (h : Inv1 s) (seq : Nat) (dcid : Cid) (rtt now : Nat) :
    Inv1 (onRetireConnectionId s seq dcid rtt now).1 := by
  rcases onRetire_cases s seq dcid rtt now with ⟨h1, _⟩ | ⟨h1, _⟩ | ⟨pre, x, post, hs, _, h1⟩
  · rw [h1]; exact h
  · rw [h1]; exact h.of_same_keys rfl rfl rfl rfl rfl h.rptLe
  · rw [h1]
    exact h.of_same_keys (by simp [hs]) (by simp [hs]) rfl rfl rfl h.rptLe

theorem inv1_onHandshakeConfirmed {s : State} (h : Inv1 s) : Inv1 (onHandshakeConfirmed s) := by
  unfold onHandshakeConfirmed
  split
  · rcases retireHandshake_cases s with h1 | ⟨pre, x, post, hs, hx, _, h1⟩
    · rw [h1]; exact h
    · rw [h1]
      refine h.of_same_keys (by simp [hs, IdInfo.retire]) (by simp [hs, IdInfo.retire]) rfl rfl rfl ?_
      have : x.seq < s.nextSeq := h.below x.seq (by simp [hs])
      have := h.rptLe
      simp only
      exact Nat.max_le.mpr ⟨by omega, by omega⟩
  · exact h

theorem inv1_onTransmit {s : State} (h : Inv1 s) (c : Constraint) (pn room : Nat) :
    Inv1 (onTransmit s c pn room) := by
  unfold onTransmit
  split
  · exact h
  · exact h.of_same_keys (transmitLoop_map_seq _ _ _ _ _) (transmitLoop_map_id _ _ _ _ _) rfl rfl rfl h.rptLe

theorem onAck_seq (set : List Nat) (i : IdInfo) : (i.onAck set).seq = i.seq := by
  unfold IdInfo.onAck; split <;> (try split) <;> rfl
theorem onAck_id (set : List Nat) (i : IdInfo) : (i.onAck set).id = i.id := by
  unfold IdInfo.onAck; split <;> (try split) <;> rfl
theorem onLoss_seq (set : List Nat) (i : IdInfo) : (i.onLoss set).seq = i.seq := by
  unfold IdInfo.onLoss; split <;> (try split) <;> rfl
theorem onLoss_id (set : List Nat) (i : IdInfo) : (i.onLoss set).id = i.id := by
  unfold IdInfo.onLoss; split <;> (try split) <;> rfl
theorem retireIfReady_seq (now : Nat) (i : IdInfo) : (i.retireIfReady now).seq = i.seq := by
  unfold IdInfo.retireIfReady; split <;> rfl
theorem retireIfReady_id (now : Nat) (i : IdInfo) : (i.retireIfReady now).id = i.id := by
  unfold IdInfo.retireIfReady; split <;> rfl

theorem map_seq_of (g : IdInfo → IdInfo) (hg : ∀ i, (g i).seq = i.seq) (ids : List IdInfo) :
    (ids.map g).map (·.seq) = ids.map (·.seq) := by
  simp only [List.map_map]; apply List.map_congr_left; intro i _; exact hg i

theorem map_id_of (g : IdInfo → IdInfo) (hg : ∀ i, (g i).id = i.id) (ids : List IdInfo) :
    (ids.map g).map (·.id) = ids.map (·.id) := by
  simp only [List.map_map]; apply List.map_congr_left; intro i _; exact hg i

theorem inv1_onPacketAck {s : State} (h : Inv1 s) (set : List Nat) : Inv1 (onPacketAck s set) := by
  unfold onPacketAck
  split
  · exact h
  · exact h.of_same_keys (map_seq_of _ (onAck_seq set) _) (map_id_of _ (onAck_id set) _) rfl rfl rfl h.rptLe

theorem inv1_onPacketLoss {s : State} (h : Inv1 s) (set : List Nat) : Inv1 (onPacketLoss s set) := by
  unfold onPacketLoss
  split
  · exact h
  · exact h.of_same_keys (map_seq_of _ (onLoss_seq set) _) (map_id_of _ (onLoss_id set) _) rfl rfl rfl h.rptLe

theorem inv1_unregisterExpired {s : State} (h : Inv1 s) (now : Nat) : Inv1 (unregisterExpiredIds s now) := by
  unfold unregisterExpiredIds
  have hsub : (s.ids.filter (fun i => !i.isExpired now)).map (·.seq) |>.Sublist (s.ids.map (·.seq)) :=
    (List.filter_sublist (l := s.ids)).map _
  have hsubid : (s.ids.filter (fun i => !i.isExpired now)).map (·.id) |>.Sublist (s.ids.map (·.id)) :=
    (List.filter_sublist (l := s.ids)).map _
  refine ⟨h.sorted.sublist hsub, fun q hq => h.below q (hsub.subset hq), h.idsNodup.sublist hsubid, ?_, h.rptLe⟩
  intro c hc
  simp only [List.mem_map] at hc
  obtain ⟨k, hk, rfl⟩ := hc
  simp only
  rw [mapGet_foldl_remove]
  · exact h.mapOwn k.id (List.mem_map.mpr ⟨k, (List.mem_filter.mp hk).1, rfl⟩)
  · intro g hg
    exact mem_map_id_filter_disjoint s.ids (fun i => i.isExpired now) h.idsNodup g k hg hk

theorem inv1_onTimeout {s : State} (h : Inv1 s) (now : Nat) : Inv1 (onTimeout s now) := by
  unfold onTimeout
  split
  · split
    · apply inv1_unregisterExpired
      refine h.of_same_keys (map_seq_of _ (retireIfReady_seq now) _) (map_id_of _ (retireIfReady_id now) _) rfl rfl rfl ?_
      apply foldl_rpt_le _ _ _ _ h.rptLe
      intro i hi
      exact h.below i.seq (List.mem_map.mpr ⟨i, hi, rfl⟩)
    · exact h
  · exact h

theorem inv1_step (p : Nat) {s : State} (h : Inv1 s) (op : Op) : Inv1 (step p s op).1 := by
  cases op with
  | setLimit => exact h.of_same_keys rfl rfl rfl rfl rfl h.rptLe
  | register id e t => exact inv1_register h id e t
  | onRetire seq dcid rtt now => exact inv1_onRetire h seq dcid rtt now
  | onTimeout now => exact inv1_onTimeout h now
  | onTransmit c pn room => exact inv1_onTransmit h c pn room
  | onPacketAck set => exact inv1_onPacketAck h set
  | onPacketLoss set => exact inv1_onPacketLoss h set
  | onHandshakeConfirmed => exact inv1_onHandshakeConfirmed h
  | envInsert id owner =>
    simp only [step]
    split
    · exact h
    · split
      · next m hm =>
        obtain ⟨hnone, hm'⟩ := mapTryInsert_some hm
        subst hm'
        refine ⟨h.sorted, h.below, h.idsNodup, ?_, h.rptLe⟩
        intro c hc
        have := h.mapOwn c hc
        simp only
        rw [mapGet_cons]
        have hne : id ≠ c := by
          intro e; subst e; rw [hnone] at this; cases this
        simp [hne, this]
      · exact h
  | envRemove id =>
    simp only [step]
    split
    · exact h
    · next hne =>
      refine ⟨h.sorted, h.below, h.idsNodup, ?_, h.rptLe⟩
      intro c hc
      have := h.mapOwn c hc
      simp only
      rw [mapGet_remove_ne]
      · exact this
      · intro e; subst e; exact hne this

theorem inv1_run (p : Nat) {s : State} (h : Inv1 s) (ops : List Op) : Inv1 (run p s ops) := by
  induction ops generalizing s with
  | nil => exact h
  | cons op ops ih => exact ih (inv1_step p h op)


/-! ### the frames written by `on_transmit` -/

/-- the NEW_CONNECTION_ID frames `transmitLoop` writes -/
def transmitFrames (rpt : Nat) (c : Constraint) : List IdInfo → Nat → List Frame
  | [], _ => []
  | i :: rest, room =>
    if i.transmissionInterest.canTransmit c then
      match room with
      | r + 1 => { seq := i.seq, rpt := rpt, cid := i.id, token := i.token } :: transmitFrames rpt c rest r
      | 0 => transmitFrames rpt c rest 0
    else transmitFrames rpt c rest room

theorem transmitLoop_events (rpt : Nat) (c : Constraint) (pn : Nat) (ids : List IdInfo) (room : Nat) :
    (transmitLoop rpt c pn ids room).2 = (transmitFrames rpt c ids room).map Ev.txNcid := by
  induction ids generalizing room with
  | nil => simp [transmitLoop, transmitFrames]
  | cons i rest ih =>
    unfold transmitLoop transmitFrames
    split
    · cases room with
      | zero => simp [ih]
      | succ r => simp [ih]
    · simp [ih]

theorem canTransmit_counts (i : IdInfo) (c : Constraint) (h : i.transmissionInterest.canTransmit c = true) :
    i.status = .pendingIssuance ∨ i.status = .pendingReissue := by
  unfold IdInfo.transmissionInterest at h
  split at h
  · left; assumption
  · right; assumption
  · cases c <;> simp [Interest.canTransmit] at h

theorem transmitFrames_mem (rpt : Nat) (c : Constraint) (ids : List IdInfo) (room : Nat) (f : Frame)
    (hf : f ∈ transmitFrames rpt c ids room) :
    ∃ i ∈ ids, f = { seq := i.seq, rpt := rpt, cid := i.id, token := i.token } ∧
      (i.status = .pendingIssuance ∨ i.status = .pendingReissue) := by
  induction ids generalizing room with
  | nil => simp [transmitFrames] at hf
  | cons i rest ih =>
    unfold transmitFrames at hf
    split at hf
    · next hc =>
      cases room with
      | zero =>
        obtain ⟨j, hj, h⟩ := ih 0 hf
        exact ⟨j, by simp [hj], h⟩
      | succ r =>
        simp only [List.mem_cons] at hf
        rcases hf with rfl | hf
        · exact ⟨i, by simp, rfl, canTransmit_counts i c hc⟩
        · obtain ⟨j, hj, h⟩ := ih r hf
          exact ⟨j, by simp [hj], h⟩
    · obtain ⟨j, hj, h⟩ := ih room hf
      exact ⟨j, by simp [hj], h⟩

/-- sequence numbers of the ids that count towards the limit -/
def countedSeqs (ids : List IdInfo) : List Nat := (ids.filter IdInfo.countsTowardsLimit).map (·.seq)

theorem countedSeqs_length (s : State) : (countedSeqs s.ids).length = activeIdCount s := by
  simp [countedSeqs, activeIdCount]

theorem counts_of_status {i : IdInfo} (h : i.status = .pendingIssuance ∨ i.status = .pendingReissue ∨
    (∃ pn, i.status = .pendingAcknowledgement pn) ∨ i.status = .active) : i.countsTowardsLimit = true := by
  unfold IdInfo.countsTowardsLimit IdInfo.isRetired
  rcases h with h | h | ⟨pn, h⟩ | h <;> simp [h]

theorem transmitLoop_countedSeqs (rpt : Nat) (c : Constraint) (pn : Nat) (ids : List IdInfo) (room : Nat) :
    countedSeqs (transmitLoop rpt c pn ids room).1 = countedSeqs ids := by
  induction ids generalizing room with
  | nil => simp [transmitLoop]
  | cons i rest ih =>
    unfold transmitLoop
    split
    · next hc =>
      have hi : i.countsTowardsLimit = true := by
        rcases canTransmit_counts i c hc with h | h
        · exact counts_of_status (Or.inl h)
        · exact counts_of_status (Or.inr (Or.inl h))
      cases room with
      | zero =>
        have := ih 0
        simp only [countedSeqs] at this ⊢
        simp [List.filter_cons, hi, this]
      | succ r =>
        have := ih r
        have hpa : IdInfo.countsTowardsLimit { i with status := Status.pendingAcknowledgement pn } = true :=
          counts_of_status (Or.inr (Or.inr (Or.inl ⟨pn, rfl⟩)))
        simp only [countedSeqs] at this ⊢
        simp [List.filter_cons, hi, hpa, this]
    · have := ih room
      simp only [countedSeqs] at this ⊢
      simp only [List.filter_cons]
      split <;> simp [this]

theorem countedSeqs_map_eq (ids : List IdInfo) (g : IdInfo → IdInfo)
    (hc : ∀ i, (g i).countsTowardsLimit = i.countsTowardsLimit) (hs : ∀ i, (g i).seq = i.seq) :
    countedSeqs (ids.map g) = countedSeqs ids := by
  induction ids with
  | nil => rfl
  | cons i rest ih =>
    simp only [countedSeqs] at ih ⊢
    simp only [List.map_cons, List.filter_cons, hc]
    split <;> simp [ih, hs]


/-! ### the limit invariant: what the peer may count never exceeds the registry's count -/

open Quic.Proofs.PeerView in
structure Inv2 (p : Nat) (s : State) : Prop where
  count : activeIdCount s ≤ s.limit
  limitVal : s.limit = 1 ∨ s.limit = min maxActiveConnectionIdLimit p
  viewRpt : s.view.maxRpt ≤ s.retirePriorTo
  viewBelow : ∀ q ∈ s.view.seqs, q < s.nextSeq
  viewNodup : s.view.seqs.Nodup
  /-- every id the peer knows is still counted by the registry, or below retire_prior_to, or retired by the peer -/
  cover : ∀ q ∈ s.view.seqs, q ∈ countedSeqs s.ids ∨ q < s.retirePriorTo ∨ q ∈ s.view.retired
  viewCount : s.view.active.length ≤ s.limit

theorem active_le_counted (v : View) (ids : List IdInfo) (hn : v.seqs.Nodup)
    (h : ∀ q ∈ v.seqs, v.maxRpt ≤ q → q ∉ v.retired → q ∈ countedSeqs ids) :
    v.active.length ≤ (countedSeqs ids).length := by
  apply List.Nodup.length_le_of_subset (Quic.Proofs.PeerView.active_nodup v hn)
  intro q hq
  rw [Quic.Proofs.PeerView.mem_active] at hq
  exact h q hq.1 hq.2.1 hq.2.2

theorem countedSeqs_append (a b : List IdInfo) : countedSeqs (a ++ b) = countedSeqs a ++ countedSeqs b := by
  simp [countedSeqs]

theorem countedSeqs_cons (i : IdInfo) (l : List IdInfo) :
    countedSeqs (i :: l) = if i.countsTowardsLimit then i.seq :: countedSeqs l else countedSeqs l := by
  simp only [countedSeqs, List.filter_cons]
  split <;> simp

theorem countedSeqs_update_length_le (pre post : List IdInfo) (x x' : IdInfo) (h : x'.countsTowardsLimit = false) :
    (countedSeqs (pre ++ x' :: post)).length ≤ (countedSeqs (pre ++ x :: post)).length := by
  simp only [countedSeqs_append, countedSeqs_cons, h, List.length_append, Bool.false_eq_true, if_false]
  split <;> simp

theorem countedSeqs_snoc_length (l : List IdInfo) (n : IdInfo) (h : n.countsTowardsLimit = true) :
    (countedSeqs (l ++ [n])).length = (countedSeqs l).length + 1 := by
  simp [countedSeqs_append, countedSeqs_cons, h, countedSeqs]

theorem countedSeqs_update_mem (pre post : List IdInfo) (x x' : IdInfo) (h : x'.countsTowardsLimit = false) (q : Nat)
    (hq : q ∈ countedSeqs (pre ++ x :: post)) (hne : q ≠ x.seq) : q ∈ countedSeqs (pre ++ x' :: post) := by
  simp only [countedSeqs_append, countedSeqs_cons, h, List.mem_append] at hq ⊢
  rcases hq with hq | hq
  · exact Or.inl hq
  · right
    split at hq
    · simp only [List.mem_cons] at hq
      rcases hq with hq | hq
      · exact absurd hq hne
      · simpa using hq
    · simpa using hq

theorem inv2_register {p : Nat} {s : State} (h : Inv2 p s) (id : Cid) (e : Option Nat) (t : Token) :
    Inv2 p (registerConnectionId s id e t).1 := by
  rcases register_cases s id e t with ⟨h1, _⟩ | ⟨m, _, _, hlt, _, heq⟩
  · rw [h1]; exact h
  · rw [heq]
    refine ⟨?_, h.limitVal, h.viewRpt, ?_, h.viewNodup, ?_, h.viewCount⟩
    · have h2 := countedSeqs_length (registerOk s id e t m)
      rw [← h2]
      have h3 := countedSeqs_length s
      simp only [registerOk]
      rw [countedSeqs_snoc_length _ _ (counts_of_status (Or.inl rfl))]
      omega
    · intro q hq
      have := h.viewBelow q hq
      simp only [registerOk]; omega
    · intro q hq
      rcases h.cover q hq with hc | hc | hc
      · left
        simp only [registerOk, countedSeqs_append, List.mem_append]
        exact Or.inl hc
      · exact Or.inr (Or.inl hc)
      · exact Or.inr (Or.inr hc)

theorem inv2_setLimit {p : Nat} (hp : 1 ≤ p) {s : State} (h : Inv2 p s) :
    Inv2 p (setActiveConnectionIdLimit s p) := by
  have hle : s.limit ≤ min maxActiveConnectionIdLimit p := by
    rcases h.limitVal with h1 | h1
    · rw [h1]; simp only [maxActiveConnectionIdLimit]; omega
    · rw [h1]; exact Nat.le_refl _
  exact ⟨Nat.le_trans h.count hle, Or.inr rfl, h.viewRpt, h.viewBelow, h.viewNodup, h.cover, Nat.le_trans h.viewCount hle⟩

theorem inv2_onRetire {p : Nat} {s : State} (h : Inv2 p s) (seq : Nat) (dcid : Cid) (rtt now : Nat) :
    Inv2 p (onRetireConnectionId s seq dcid rtt now).1 := by
  rcases onRetire_cases s seq dcid rtt now with ⟨h1, _⟩ | ⟨h1, _⟩ | ⟨pre, x, post, hs, hx, h1⟩
  · rw [h1]; exact h
  · rw [h1]
    refine ⟨h.count, h.limitVal, h.viewRpt, h.viewBelow, h.viewNodup, ?_, ?_⟩
    · intro q hq
      rcases h.cover q hq with hc | hc | hc
      · exact Or.inl hc
      · exact Or.inr (Or.inl hc)
      · exact Or.inr (Or.inr (by simp [hc]))
    · exact Nat.le_trans (Quic.Proofs.PeerView.active_rxRetire_sublist s.view seq).length_le h.viewCount
  · rw [h1]
    have hxs : x.seq = seq := by
      simp only [retirable, Bool.and_eq_true, beq_iff_eq] at hx; exact hx.2
    have hnc : IdInfo.countsTowardsLimit { x with status := Status.pendingRemoval (now + rtt * rttMultiplier) } = false := by
      simp [IdInfo.countsTowardsLimit, IdInfo.isRetired]
    refine ⟨?_, h.limitVal, h.viewRpt, h.viewBelow, h.viewNodup, ?_, ?_⟩
    · have h0 := h.count
      rw [← countedSeqs_length] at h0 ⊢
      rw [hs] at h0
      exact Nat.le_trans (countedSeqs_update_length_le pre post x _ hnc) h0
    · intro q hq
      rcases h.cover q hq with hc | hc | hc
      · by_cases hqs : q = seq
        · exact Or.inr (Or.inr (by simp [hqs]))
        · left
          rw [hs] at hc
          exact countedSeqs_update_mem pre post x _ hnc q hc (by rw [hxs]; exact hqs)
      · exact Or.inr (Or.inl hc)
      · exact Or.inr (Or.inr (by simp [hc]))
    · exact Nat.le_trans (Quic.Proofs.PeerView.active_rxRetire_sublist s.view seq).length_le h.viewCount


theorem inv2_onHandshakeConfirmed {p : Nat} {s : State} (h : Inv2 p s) : Inv2 p (onHandshakeConfirmed s) := by
  unfold onHandshakeConfirmed
  split
  · rcases retireHandshake_cases s with h1 | ⟨pre, x, post, hs, hx, _, h1⟩
    · rw [h1]; exact h
    · rw [h1]
      have hnc : (x.retire x.retirementTime).countsTowardsLimit = false := by
        simp [IdInfo.retire, IdInfo.countsTowardsLimit, IdInfo.isRetired]
      refine ⟨?_, h.limitVal, ?_, h.viewBelow, h.viewNodup, ?_, h.viewCount⟩
      · have h0 := h.count
        rw [← countedSeqs_length] at h0 ⊢
        rw [hs] at h0
        exact Nat.le_trans (countedSeqs_update_length_le pre post x _ hnc) h0
      · exact Nat.le_trans h.viewRpt (Nat.le_max_left _ _)
      · intro q hq
        rcases h.cover q hq with hc | hc | hc
        · by_cases hqs : q = x.seq
          · right; left
            simp only
            have : x.seq + 1 ≤ max s.retirePriorTo (x.seq + 1) := Nat.le_max_right _ _
            omega
          · left
            rw [hs] at hc
            exact countedSeqs_update_mem pre post x _ hnc q hc hqs
        · right; left
          simp only
          have : s.retirePriorTo ≤ max s.retirePriorTo (x.seq + 1) := Nat.le_max_left _ _
          omega
        · exact Or.inr (Or.inr hc)
  · exact h

theorem onAck_counts (set : List Nat) (i : IdInfo) : (i.onAck set).countsTowardsLimit = i.countsTowardsLimit := by
  unfold IdInfo.onAck
  split
  · next pn hst =>
    split
    · simp [IdInfo.countsTowardsLimit, IdInfo.isRetired, hst]
    · rfl
  · rfl

theorem onLoss_counts (set : List Nat) (i : IdInfo) : (i.onLoss set).countsTowardsLimit = i.countsTowardsLimit := by
  unfold IdInfo.onLoss
  split
  · next pn hst =>
    split
    · simp [IdInfo.countsTowardsLimit, IdInfo.isRetired, hst]
    · rfl
  · rfl

theorem inv2_onPacketAck {p : Nat} {s : State} (h : Inv2 p s) (set : List Nat) : Inv2 p (onPacketAck s set) := by
  unfold onPacketAck
  split
  · exact h
  · have hcs := countedSeqs_map_eq s.ids (IdInfo.onAck set) (onAck_counts set) (onAck_seq set)
    refine ⟨?_, h.limitVal, h.viewRpt, h.viewBelow, h.viewNodup, ?_, h.viewCount⟩
    · have h0 := h.count
      rw [← countedSeqs_length] at h0 ⊢
      simp only [hcs]; exact h0
    · intro q hq
      simp only [hcs]
      exact h.cover q hq

theorem inv2_onPacketLoss {p : Nat} {s : State} (h : Inv2 p s) (set : List Nat) : Inv2 p (onPacketLoss s set) := by
  unfold onPacketLoss
  split
  · exact h
  · have hcs := countedSeqs_map_eq s.ids (IdInfo.onLoss set) (onLoss_counts set) (onLoss_seq set)
    refine ⟨?_, h.limitVal, h.viewRpt, h.viewBelow, h.viewNodup, ?_, h.viewCount⟩
    · have h0 := h.count
      rw [← countedSeqs_length] at h0 ⊢
      simp only [hcs]; exact h0
    · intro q hq
      simp only [hcs]
      exact h.cover q hq

theorem inv2_onTransmit {p : Nat} {s : State} (h1 : Inv1 s) (h : Inv2 p s) (c : Constraint) (pn room : Nat) :
    Inv2 p (onTransmit s c pn room) := by
  unfold onTransmit
  split
  · exact h
  · have hcs := transmitLoop_countedSeqs s.retirePriorTo c pn s.ids room
    have hev := transmitLoop_events s.retirePriorTo c pn s.ids room
    have hfr : ∀ f ∈ transmitFrames s.retirePriorTo c s.ids room, f.rpt = s.retirePriorTo := by
      intro f hf
      obtain ⟨i, _, rfl, _⟩ := transmitFrames_mem _ _ _ _ f hf
      rfl
    have hfold := Quic.Proofs.PeerView.foldl_tx (transmitFrames s.retirePriorTo c s.ids room) s.retirePriorTo hfr s.view
    simp only at hfold
    obtain ⟨hret, hnil, hmax, hnd, hmem⟩ := hfold
    simp only
    rw [hev]
    have hcover : ∀ q ∈ ((transmitFrames s.retirePriorTo c s.ids room).map Ev.txNcid |>.foldl observe s.view).seqs,
        q ∈ countedSeqs s.ids ∨ q < s.retirePriorTo ∨ q ∈ s.view.retired := by
      intro q hq
      rcases (hmem q).mp hq with hq | hq
      · exact h.cover q hq
      · left
        simp only [List.mem_map] at hq
        obtain ⟨f, hf, rfl⟩ := hq
        obtain ⟨i, hi, rfl, hst⟩ := transmitFrames_mem _ _ _ _ f hf
        simp only [countedSeqs, List.mem_map, List.mem_filter]
        refine ⟨i, ⟨hi, ?_⟩, rfl⟩
        rcases hst with hst | hst
        · exact counts_of_status (Or.inl hst)
        · exact counts_of_status (Or.inr (Or.inl hst))
    refine ⟨?_, h.limitVal, ?_, ?_, hnd h.viewNodup, ?_, ?_⟩
    · have h0 := h.count
      rw [← countedSeqs_length] at h0 ⊢
      simp only [hcs]; exact h0
    · by_cases hne : transmitFrames s.retirePriorTo c s.ids room = []
      · rw [hnil hne]; exact h.viewRpt
      · rw [hmax hne]; exact Nat.max_le.mpr ⟨h.viewRpt, Nat.le_refl _⟩
    · intro q hq
      rcases (hmem q).mp hq with hq | hq
      · exact h.viewBelow q hq
      · simp only [List.mem_map] at hq
        obtain ⟨f, hf, rfl⟩ := hq
        obtain ⟨i, hi, rfl, _⟩ := transmitFrames_mem _ _ _ _ f hf
        exact h1.below i.seq (List.mem_map.mpr ⟨i, hi, rfl⟩)
    · intro q hq
      simp only [hcs, hret]
      exact hcover q hq
    · by_cases hne : transmitFrames s.retirePriorTo c s.ids room = []
      · rw [hnil hne]; exact h.viewCount
      · refine Nat.le_trans ?_ h.count
        rw [← countedSeqs_length]
        apply active_le_counted _ _ (hnd h.viewNodup)
        intro q hq hge hnr
        rw [hmax hne] at hge
        rw [hret] at hnr
        rcases hcover q hq with hc | hc | hc
        · exact hc
        · have : s.retirePriorTo ≤ max s.view.maxRpt s.retirePriorTo := Nat.le_max_right _ _
          omega
        · exact absurd hc hnr


theorem retireIfReady_counts_imp (now : Nat) (i : IdInfo) :
    (i.retireIfReady now).countsTowardsLimit = true → i.countsTowardsLimit = true := by
  unfold IdInfo.retireIfReady
  split
  · simp [IdInfo.retire, IdInfo.countsTowardsLimit, IdInfo.isRetired]
  · exact id

theorem countedSeqs_retire_sub (ids : List IdInfo) (now : Nat) :
    ∀ q ∈ countedSeqs (ids.map (IdInfo.retireIfReady now)), q ∈ countedSeqs ids := by
  intro q hq
  simp only [countedSeqs, List.mem_map, List.mem_filter] at hq ⊢
  obtain ⟨j, ⟨⟨i, hi, rfl⟩, hc⟩, rfl⟩ := hq
  exact ⟨i, ⟨hi, retireIfReady_counts_imp now i hc⟩, (retireIfReady_seq now i).symm⟩

theorem countedSeqs_retire_length (ids : List IdInfo) (now : Nat) :
    (countedSeqs (ids.map (IdInfo.retireIfReady now))).length ≤ (countedSeqs ids).length := by
  induction ids with
  | nil => simp [countedSeqs]
  | cons i rest ih =>
    simp only [List.map_cons, countedSeqs_cons]
    by_cases h : (i.retireIfReady now).countsTowardsLimit = true
    · simp only [h, retireIfReady_counts_imp now i h, if_true, List.length_cons]
      omega
    · have h' : (i.retireIfReady now).countsTowardsLimit = false := by simpa using h
      simp only [h', Bool.false_eq_true, if_false]
      split
      · simp only [List.length_cons]; omega
      · exact ih

theorem expired_not_counted (i : IdInfo) (now : Nat) (h : i.isExpired now = true) : i.countsTowardsLimit = false := by
  unfold IdInfo.isExpired IdInfo.removalTime at h
  unfold IdInfo.countsTowardsLimit IdInfo.isRetired
  split at h
  · next hs => split at hs <;> simp_all
  · cases h

theorem countedSeqs_filter_notExpired (ids : List IdInfo) (now : Nat) :
    countedSeqs (ids.filter (fun i => !i.isExpired now)) = countedSeqs ids := by
  induction ids with
  | nil => rfl
  | cons i rest ih =>
    simp only [List.filter_cons]
    by_cases h : i.isExpired now = true
    · simp only [h, Bool.not_true, Bool.false_eq_true, if_false, countedSeqs_cons, expired_not_counted i now h, ih]
    · have h' : i.isExpired now = false := by simpa using h
      simp only [h', Bool.not_false, if_true, countedSeqs_cons, ih]

theorem inv2_onTimeout {p : Nat} {s : State} (h : Inv2 p s) (now : Nat) : Inv2 p (onTimeout s now) := by
  unfold onTimeout
  split
  · split
    · unfold unregisterExpiredIds
      simp only
      refine ⟨?_, h.limitVal, ?_, h.viewBelow, h.viewNodup, ?_, h.viewCount⟩
      · have h0 := h.count
        rw [← countedSeqs_length] at h0 ⊢
        simp only [countedSeqs_filter_notExpired]
        exact Nat.le_trans (countedSeqs_retire_length s.ids now) h0
      · exact Nat.le_trans h.viewRpt (foldl_rpt_ge _ _ _)
      · intro q hq
        simp only [countedSeqs_filter_notExpired]
        rcases h.cover q hq with hc | hc | hc
        · simp only [countedSeqs, List.mem_map, List.mem_filter] at hc
          obtain ⟨i, ⟨hi, hcnt⟩, rfl⟩ := hc
          by_cases hr : i.isRetireReady now = true
          · right; left
            have := foldl_rpt_mem s.ids now s.retirePriorTo i hi hr
            omega
          · left
            simp only [countedSeqs, List.mem_map, List.mem_filter]
            refine ⟨i.retireIfReady now, ⟨⟨i, hi, rfl⟩, ?_⟩, retireIfReady_seq now i⟩
            unfold IdInfo.retireIfReady
            simp [hr, hcnt]
        · right; left
          exact Nat.lt_of_lt_of_le hc (foldl_rpt_ge _ _ _)
        · exact Or.inr (Or.inr hc)
    · exact h
  · exact h

theorem inv2_step {p : Nat} (hp : 1 ≤ p) {s : State} (h1 : Inv1 s) (h : Inv2 p s) (op : Op) :
    Inv2 p (Quic.Conn.LocalIds.step p s op).1 := by
  cases op with
  | setLimit => exact inv2_setLimit hp h
  | register id e t => exact inv2_register h id e t
  | onRetire seq dcid rtt now => exact inv2_onRetire h seq dcid rtt now
  | onTimeout now => exact inv2_onTimeout h now
  | onTransmit c pn room => exact inv2_onTransmit h1 h c pn room
  | onPacketAck set => exact inv2_onPacketAck h set
  | onPacketLoss set => exact inv2_onPacketLoss h set
  | onHandshakeConfirmed => exact inv2_onHandshakeConfirmed h
  | envInsert id owner =>
    simp only [Quic.Conn.LocalIds.step]
    split
    · exact h
    · split
      · exact ⟨h.count, h.limitVal, h.viewRpt, h.viewBelow, h.viewNodup, h.cover, h.viewCount⟩
      · exact h
  | envRemove id =>
    simp only [Quic.Conn.LocalIds.step]
    split
    · exact h
    · exact ⟨h.count, h.limitVal, h.viewRpt, h.viewBelow, h.viewNodup, h.cover, h.viewCount⟩

theorem inv12_run {p : Nat} (hp : 1 ≤ p) {s : State} (h1 : Inv1 s) (h2 : Inv2 p s) (ops : List Op) :
    Inv1 (run p s ops) ∧ Inv2 p (run p s ops) := by
  induction ops generalizing s with
  | nil => exact ⟨h1, h2⟩
  | cons op ops ih => exact ih (inv1_step p h1 op) (inv2_step hp h1 h2 op)

/-! ### the initial state (`LocalIdRegistry::new`) -/

theorem new_spec {iid : Nat} {m : List (Cid × Nat)} {hid : Cid} {e : Option Nat} {t : Token} {rot : Bool} {s : State}
    (h : new iid m hid e t rot = some s) :
    ∃ m', mapTryInsert m hid iid = some m' ∧
      s = { emptyState iid m' rot with
            nextSeq := 1,
            ids := [{ id := hid, seq := 0, retirementTime := e.map (fun x => x - expirationBuffer), token := t, status := .active }],
            events := [.hs 0 hid (some t)], view := observe {} (.hs 0 hid (some t)), registered := [(0, hid, t)] } := by
  unfold new at h
  rcases register_cases (emptyState iid m rot) hid e t with ⟨h1, _⟩ | ⟨m', hm, _, _, _, heq⟩
  · rw [h1] at h; simp [emptyState] at h
  · rw [heq] at h
    simp only [registerOk, emptyState, List.nil_append] at h
    refine ⟨m', hm, ?_⟩
    cases h
    rfl

theorem inv_new {p : Nat} {iid : Nat} {m : List (Cid × Nat)} {hid : Cid} {e : Option Nat} {t : Token} {rot : Bool} {s : State}
    (h : new iid m hid e t rot = some s) : Inv1 s ∧ Inv2 p s := by
  obtain ⟨m', hm, rfl⟩ := new_spec h
  obtain ⟨_, rfl⟩ := mapTryInsert_some hm
  constructor
  · refine ⟨by simp, by simp, by simp, ?_, by simp [emptyState]⟩
    intro c hc
    simp only [List.map_cons, List.map_nil, List.mem_singleton] at hc
    subst hc
    simp [mapGet_cons, emptyState]
  · refine ⟨by simp [activeIdCount, IdInfo.countsTowardsLimit, IdInfo.isRetired, emptyState], Or.inl rfl, ?_, ?_, ?_, ?_, ?_⟩
    · simp [observe]
    · simp [observe, View.seqs]
    · simp [observe, View.seqs]
    · intro q hq
      simp only [observe, View.seqs, List.nil_append, List.map_cons, List.map_nil, List.mem_singleton] at hq
      subst hq
      left
      simp [countedSeqs, IdInfo.countsTowardsLimit, IdInfo.isRetired]
    · simp [observe, View.active, View.seqs, emptyState]


/-! ### ghost invariant: every frame carries what the generator offered for that sequence number -/

/-- the id can never be (re)transmitted again -/
def settled (i : IdInfo) : Bool :=
  match i.status with
  | .active | .pendingRetirementConfirmation _ | .pendingRemoval _ => true
  | _ => false

structure Inv3 (s : State) : Prop where
  regSorted : (s.registered.map (·.1)).Pairwise (· < ·)
  regBelow : ∀ r ∈ s.registered, r.1 < s.nextSeq
  idsReg : ∀ i ∈ s.ids, ∃ t, (i.seq, i.id, t) ∈ s.registered ∧ (i.token = t ∨ settled i = true)
  framesReg : ∀ f ∈ emitted s, (f.seq, f.cid, f.token) ∈ s.registered

theorem framesOf_append (a b : List Ev) : framesOf (a ++ b) = framesOf a ++ framesOf b := by
  simp [framesOf, List.filterMap_append]

theorem framesOf_tx (fs : List Frame) : framesOf (fs.map Ev.txNcid) = fs := by
  induction fs with
  | nil => rfl
  | cons f rest ih =>
    simp only [framesOf] at ih
    simp [framesOf, ih]

theorem framesOf_rxRetire (q : Nat) : framesOf [Ev.rxRetire q] = [] := rfl

theorem Inv3.of_ids {s s' : State} (h : Inv3 s) (hr : s'.registered = s.registered) (hn : s'.nextSeq = s.nextSeq)
    (he : emitted s' = emitted s)
    (hi : ∀ i' ∈ s'.ids, ∃ i ∈ s.ids, i'.seq = i.seq ∧ i'.id = i.id ∧
      ((i'.token = i.token ∧ (settled i = true → settled i' = true)) ∨ settled i' = true)) : Inv3 s' := by
  refine ⟨by rw [hr]; exact h.regSorted, by rw [hr, hn]; exact h.regBelow, ?_, by rw [he, hr]; exact h.framesReg⟩
  intro i' hi'
  obtain ⟨i, him, hs, hid, htok⟩ := hi i' hi'
  obtain ⟨t, ht, hor⟩ := h.idsReg i him
  refine ⟨t, by rw [hr, hs, hid]; exact ht, ?_⟩
  rcases htok with ⟨h1, h2⟩ | h1
  · rcases hor with hor | hor
    · exact Or.inl (h1.trans hor)
    · exact Or.inr (h2 hor)
  · exact Or.inr h1

theorem inv3_register {s : State} (h : Inv3 s) (id : Cid) (e : Option Nat) (t : Token) :
    Inv3 (registerConnectionId s id e t).1 := by
  rcases register_cases s id e t with ⟨h1, _⟩ | ⟨m, _, _, _, _, heq⟩
  · rw [h1]; exact h
  · rw [heq]
    refine ⟨?_, ?_, ?_, ?_⟩
    · simp only [registerOk, List.map_append, List.map_cons, List.map_nil]
      rw [List.pairwise_append]
      refine ⟨h.regSorted, by simp, ?_⟩
      intro a ha b hb
      simp only [List.mem_singleton] at hb
      subst hb
      simp only [List.mem_map] at ha
      obtain ⟨r, hr, rfl⟩ := ha
      exact h.regBelow r hr
    · simp only [registerOk, List.mem_append, List.mem_singleton]
      intro r hr
      rcases hr with hr | hr
      · have := h.regBelow r hr; omega
      · subst hr; simp
    · simp only [registerOk, List.mem_append, List.mem_singleton]
      intro i hi
      rcases hi with hi | hi
      · obtain ⟨t', ht', hor⟩ := h.idsReg i hi
        exact ⟨t', Or.inl ht', hor⟩
      · subst hi
        exact ⟨t, Or.inr rfl, Or.inl rfl⟩
    · intro f hf
      have : emitted (registerOk s id e t m) = emitted s := rfl
      rw [this] at hf
      simp only [registerOk, List.mem_append]
      exact Or.inl (h.framesReg f hf)

theorem inv3_onRetire {s : State} (h : Inv3 s) (seq : Nat) (dcid : Cid) (rtt now : Nat) :
    Inv3 (onRetireConnectionId s seq dcid rtt now).1 := by
  rcases onRetire_cases s seq dcid rtt now with ⟨h1, _⟩ | ⟨h1, _⟩ | ⟨pre, x, post, hs, _, h1⟩
  · rw [h1]; exact h
  · rw [h1]
    refine h.of_ids rfl rfl ?_ ?_
    · show framesOf (s.events ++ [Ev.rxRetire seq]) = framesOf s.events
      rw [framesOf_append, framesOf_rxRetire, List.append_nil]
    · intro i hi; exact ⟨i, hi, rfl, rfl, Or.inl ⟨rfl, id⟩⟩
  · rw [h1]
    refine h.of_ids rfl rfl ?_ ?_
    · show framesOf (s.events ++ [Ev.rxRetire seq]) = framesOf s.events
      rw [framesOf_append, framesOf_rxRetire, List.append_nil]
    · intro i hi
      simp only [List.mem_append, List.mem_cons] at hi
      rcases hi with hi | hi | hi
      · exact ⟨i, by simp [hs, hi], rfl, rfl, Or.inl ⟨rfl, id⟩⟩
      · subst hi
        exact ⟨x, by simp [hs], rfl, rfl, Or.inr rfl⟩
      · exact ⟨i, by simp [hs, hi], rfl, rfl, Or.inl ⟨rfl, id⟩⟩

theorem inv3_onHandshakeConfirmed {s : State} (h : Inv3 s) : Inv3 (onHandshakeConfirmed s) := by
  unfold onHandshakeConfirmed
  split
  · rcases retireHandshake_cases s with h1 | ⟨pre, x, post, hs, _, _, h1⟩
    · rw [h1]; exact h
    · rw [h1]
      refine h.of_ids rfl rfl rfl ?_
      intro i hi
      simp only [List.mem_append, List.mem_cons] at hi
      rcases hi with hi | hi | hi
      · exact ⟨i, by simp [hs, hi], rfl, rfl, Or.inl ⟨rfl, id⟩⟩
      · subst hi
        exact ⟨x, by simp [hs], rfl, rfl, Or.inr rfl⟩
      · exact ⟨i, by simp [hs, hi], rfl, rfl, Or.inl ⟨rfl, id⟩⟩
  · exact h

theorem inv3_onPacketAck {s : State} (h : Inv3 s) (set : List Nat) : Inv3 (onPacketAck s set) := by
  unfold onPacketAck
  split
  · exact h
  · refine h.of_ids rfl rfl rfl ?_
    intro i' hi'
    simp only [List.mem_map] at hi'
    obtain ⟨i, hi, rfl⟩ := hi'
    refine ⟨i, hi, onAck_seq set i, onAck_id set i, ?_⟩
    unfold IdInfo.onAck
    split
    · split
      · exact Or.inr rfl
      · exact Or.inl ⟨rfl, id⟩
    · exact Or.inl ⟨rfl, id⟩

theorem inv3_onPacketLoss {s : State} (h : Inv3 s) (set : List Nat) : Inv3 (onPacketLoss s set) := by
  unfold onPacketLoss
  split
  · exact h
  · refine h.of_ids rfl rfl rfl ?_
    intro i' hi'
    simp only [List.mem_map] at hi'
    obtain ⟨i, hi, rfl⟩ := hi'
    refine ⟨i, hi, onLoss_seq set i, onLoss_id set i, ?_⟩
    unfold IdInfo.onLoss
    split
    · next pn hst =>
      split
      · refine Or.inl ⟨rfl, ?_⟩
        intro hset; simp [settled, hst] at hset
      · exact Or.inl ⟨rfl, id⟩
    · exact Or.inl ⟨rfl, id⟩

theorem inv3_onTimeout {s : State} (h : Inv3 s) (now : Nat) : Inv3 (onTimeout s now) := by
  unfold onTimeout
  split
  · split
    · unfold unregisterExpiredIds
      refine h.of_ids rfl rfl rfl ?_
      intro i' hi'
      simp only [List.mem_filter, List.mem_map] at hi'
      obtain ⟨⟨i, hi, rfl⟩, _⟩ := hi'
      refine ⟨i, hi, retireIfReady_seq now i, retireIfReady_id now i, ?_⟩
      unfold IdInfo.retireIfReady
      split
      · exact Or.inr rfl
      · exact Or.inl ⟨rfl, id⟩
    · exact h
  · exact h

/-- what `transmitLoop` does to each id -/
theorem transmitLoop_ids (rpt : Nat) (c : Constraint) (pn : Nat) (ids : List IdInfo) (room : Nat) :
    ∀ i' ∈ (transmitLoop rpt c pn ids room).1, ∃ i ∈ ids, i'.seq = i.seq ∧ i'.id = i.id ∧ i'.token = i.token ∧
      i'.retirementTime = i.retirementTime ∧
      (i' = i ∨ ((i.status = .pendingIssuance ∨ i.status = .pendingReissue) ∧ i'.status = .pendingAcknowledgement pn)) := by
  induction ids generalizing room with
  | nil => simp [transmitLoop]
  | cons i rest ih =>
    unfold transmitLoop
    split
    · next hc =>
      cases room with
      | zero =>
        intro i' hi'
        simp only [List.mem_cons] at hi'
        rcases hi' with rfl | hi'
        · exact ⟨i', by simp, rfl, rfl, rfl, rfl, Or.inl rfl⟩
        · obtain ⟨j, hj, hh⟩ := ih 0 i' hi'
          exact ⟨j, by simp [hj], hh⟩
      | succ r =>
        intro i' hi'
        simp only [List.mem_cons] at hi'
        rcases hi' with rfl | hi'
        · exact ⟨i, by simp, rfl, rfl, rfl, rfl, Or.inr ⟨canTransmit_counts i c hc, rfl⟩⟩
        · obtain ⟨j, hj, hh⟩ := ih r i' hi'
          exact ⟨j, by simp [hj], hh⟩
    · intro i' hi'
      simp only [List.mem_cons] at hi'
      rcases hi' with rfl | hi'
      · exact ⟨i', by simp, rfl, rfl, rfl, rfl, Or.inl rfl⟩
      · obtain ⟨j, hj, hh⟩ := ih room i' hi'
        exact ⟨j, by simp [hj], hh⟩

theorem inv3_onTransmit {s : State} (h : Inv3 s) (c : Constraint) (pn room : Nat) :
    Inv3 (onTransmit s c pn room) := by
  unfold onTransmit
  split
  · exact h
  · have hev := transmitLoop_events s.retirePriorTo c pn s.ids room
    refine ⟨h.regSorted, h.regBelow, ?_, ?_⟩
    · intro i' hi'
      obtain ⟨i, hi, hs, hid, htok, _, hst⟩ := transmitLoop_ids _ _ _ _ _ i' hi'
      obtain ⟨t, ht, hor⟩ := h.idsReg i hi
      refine ⟨t, by rw [hs, hid]; exact ht, ?_⟩
      rcases hst with rfl | ⟨hst, _⟩
      · exact hor
      · rcases hor with hor | hor
        · exact Or.inl (htok.trans hor)
        · rcases hst with hst | hst <;> simp [settled, hst] at hor
    · intro f hf
      have hf' : f ∈ framesOf (s.events ++ (transmitLoop s.retirePriorTo c pn s.ids room).2) := hf
      rw [framesOf_append, hev, framesOf_tx] at hf'
      have hf := hf'
      simp only [List.mem_append] at hf
      rcases hf with hf | hf
      · exact h.framesReg f hf
      · obtain ⟨i, hi, rfl, hst⟩ := transmitFrames_mem _ _ _ _ f hf
        obtain ⟨t, ht, hor⟩ := h.idsReg i hi
        rcases hor with hor | hor
        · simp only [hor]; exact ht
        · rcases hst with hst | hst <;> simp [settled, hst] at hor

theorem inv3_step (p : Nat) {s : State} (h : Inv3 s) (op : Op) : Inv3 (Quic.Conn.LocalIds.step p s op).1 := by
  cases op with
  | setLimit => exact h.of_ids rfl rfl rfl (fun i hi => ⟨i, hi, rfl, rfl, Or.inl ⟨rfl, id⟩⟩)
  | register id e t => exact inv3_register h id e t
  | onRetire seq dcid rtt now => exact inv3_onRetire h seq dcid rtt now
  | onTimeout now => exact inv3_onTimeout h now
  | onTransmit c pn room => exact inv3_onTransmit h c pn room
  | onPacketAck set => exact inv3_onPacketAck h set
  | onPacketLoss set => exact inv3_onPacketLoss h set
  | onHandshakeConfirmed => exact inv3_onHandshakeConfirmed h
  | envInsert id owner =>
    simp only [Quic.Conn.LocalIds.step]
    split
    · exact h
    · split
      · exact h.of_ids rfl rfl rfl (fun i hi => ⟨i, hi, rfl, rfl, Or.inl ⟨rfl, fun x => x⟩⟩)
      · exact h
  | envRemove id =>
    simp only [Quic.Conn.LocalIds.step]
    split
    · exact h
    · exact h.of_ids rfl rfl rfl (fun i hi => ⟨i, hi, rfl, rfl, Or.inl ⟨rfl, fun x => x⟩⟩)

theorem inv3_run (p : Nat) {s : State} (h : Inv3 s) (ops : List Op) : Inv3 (run p s ops) := by
  induction ops generalizing s with
  | nil => exact h
  | cons op ops ih => exact ih (inv3_step p h op)

theorem inv3_new {iid : Nat} {m : List (Cid × Nat)} {hid : Cid} {e : Option Nat} {t : Token} {rot : Bool} {s : State}
    (h : new iid m hid e t rot = some s) : Inv3 s := by
  obtain ⟨m', _, rfl⟩ := new_spec h
  refine ⟨by simp, by simp, ?_, by simp [emitted, framesOf]⟩
  intro i hi
  simp only [List.mem_singleton] at hi
  subst hi
  exact ⟨t, by simp, Or.inl rfl⟩

/-- a list sorted strictly by the first component has at most one entry per key -/
theorem sorted_fst_unique {β : Type} (l : List (Nat × β)) (h : (l.map (·.1)).Pairwise (· < ·))
    (a b : Nat × β) (ha : a ∈ l) (hb : b ∈ l) (hab : a.1 = b.1) : a = b := by
  induction l with
  | nil => cases ha
  | cons x rest ih =>
    simp only [List.map_cons, List.pairwise_cons, List.mem_map] at h
    cases ha with
    | head =>
      cases hb with
      | head => rfl
      | tail _ hb =>
        have := h.1 b.1 ⟨b, hb, rfl⟩
        omega
    | tail _ ha =>
      cases hb with
      | head =>
        have := h.1 a.1 ⟨a, ha, rfl⟩
        omega
      | tail _ hb => exact ih h.2 ha hb


/-! ### ghost synchronisation: `view` is `events` seen through `Rfc.PeerView.observe`; frames never carry a
    Retire Prior To above the registry's -/

structure Inv4 (s : State) : Prop where
  viewSync : s.view = s.events.foldl observe {}
  framesRpt : ∀ f ∈ emitted s, f.rpt ≤ s.retirePriorTo

theorem Inv4.of_same {s s' : State} (h : Inv4 s) (he : s'.events = s.events) (hv : s'.view = s.view)
    (hr : s.retirePriorTo ≤ s'.retirePriorTo) : Inv4 s' := by
  refine ⟨by rw [hv, he]; exact h.viewSync, ?_⟩
  intro f hf
  have : f ∈ emitted s := by
    show f ∈ framesOf s.events
    rw [← he]; exact hf
  exact Nat.le_trans (h.framesRpt f this) hr

theorem Inv4.rxRetire {s s' : State} (h : Inv4 s) (q : Nat) (he : s'.events = s.events ++ [.rxRetire q])
    (hv : s'.view = observe s.view (.rxRetire q)) (hr : s'.retirePriorTo = s.retirePriorTo) : Inv4 s' := by
  refine ⟨?_, ?_⟩
  · rw [hv, he, List.foldl_append, ← h.viewSync]; rfl
  · intro f hf
    have : f ∈ emitted s := by
      have hf' : f ∈ framesOf s'.events := hf
      rw [he, framesOf_append, framesOf_rxRetire, List.append_nil] at hf'
      exact hf'
    rw [hr]; exact h.framesRpt f this

theorem inv4_step (p : Nat) {s : State} (h : Inv4 s) (op : Op) : Inv4 (Quic.Conn.LocalIds.step p s op).1 := by
  cases op with
  | setLimit => exact h.of_same rfl rfl (Nat.le_refl _)
  | register id e t =>
    rcases register_cases s id e t with ⟨h1, _⟩ | ⟨m, _, _, _, _, heq⟩
    · simp only [Quic.Conn.LocalIds.step]; rw [h1]; exact h
    · simp only [Quic.Conn.LocalIds.step]; rw [heq]; exact h.of_same rfl rfl (Nat.le_refl _)
  | onRetire seq dcid rtt now =>
    simp only [Quic.Conn.LocalIds.step]
    rcases onRetire_cases s seq dcid rtt now with ⟨h1, _⟩ | ⟨h1, _⟩ | ⟨pre, x, post, hs, _, h1⟩
    · rw [h1]; exact h
    · rw [h1]; exact h.rxRetire seq rfl rfl rfl
    · rw [h1]; exact h.rxRetire seq rfl rfl rfl
  | onTimeout now =>
    simp only [Quic.Conn.LocalIds.step, onTimeout]
    split
    · split
      · exact h.of_same rfl rfl (foldl_rpt_ge _ _ _)
      · exact h
    · exact h
  | onTransmit c pn room =>
    simp only [Quic.Conn.LocalIds.step, onTransmit]
    split
    · exact h
    · refine ⟨?_, ?_⟩
      · simp only [List.foldl_append]
        rw [← h.viewSync]
      · intro f hf
        have hf' : f ∈ framesOf (s.events ++ (transmitLoop s.retirePriorTo c pn s.ids room).2) := hf
        rw [framesOf_append, transmitLoop_events, framesOf_tx] at hf'
        simp only [List.mem_append] at hf'
        rcases hf' with hf' | hf'
        · exact h.framesRpt f hf'
        · obtain ⟨i, _, rfl, _⟩ := transmitFrames_mem _ _ _ _ f hf'
          exact Nat.le_refl _
  | onPacketAck set =>
    simp only [Quic.Conn.LocalIds.step, onPacketAck]
    split
    · exact h
    · exact h.of_same rfl rfl (Nat.le_refl _)
  | onPacketLoss set =>
    simp only [Quic.Conn.LocalIds.step, onPacketLoss]
    split
    · exact h
    · exact h.of_same rfl rfl (Nat.le_refl _)
  | onHandshakeConfirmed =>
    simp only [Quic.Conn.LocalIds.step, onHandshakeConfirmed]
    split
    · rcases retireHandshake_cases s with h1 | ⟨pre, x, post, hs, _, _, h1⟩
      · rw [h1]; exact h
      · rw [h1]; exact h.of_same rfl rfl (Nat.le_max_left _ _)
    · exact h
  | envInsert id owner =>
    simp only [Quic.Conn.LocalIds.step]
    split
    · exact h
    · split
      · exact h.of_same rfl rfl (Nat.le_refl _)
      · exact h
  | envRemove id =>
    simp only [Quic.Conn.LocalIds.step]
    split
    · exact h
    · exact h.of_same rfl rfl (Nat.le_refl _)

theorem inv4_run (p : Nat) {s : State} (h : Inv4 s) (ops : List Op) : Inv4 (run p s ops) := by
  induction ops generalizing s with
  | nil => exact h
  | cons op ops ih => exact ih (inv4_step p h op)

theorem inv4_new {iid : Nat} {m : List (Cid × Nat)} {hid : Cid} {e : Option Nat} {t : Token} {rot : Bool} {s : State}
    (h : new iid m hid e t rot = some s) : Inv4 s := by
  obtain ⟨m', _, rfl⟩ := new_spec h
  exact ⟨rfl, by simp [emitted, framesOf]⟩


/-! ### registrations carry consecutive sequence numbers -/

theorem registered_seqs_step (p : Nat) {s : State} (h : s.registered.map (·.1) = List.range s.nextSeq) (op : Op) :
    (Quic.Conn.LocalIds.step p s op).1.registered.map (·.1) = List.range (Quic.Conn.LocalIds.step p s op).1.nextSeq := by
  cases op with
  | setLimit => exact h
  | register id e t =>
    rcases register_cases s id e t with ⟨h1, _⟩ | ⟨m, _, _, _, _, heq⟩
    · simp only [Quic.Conn.LocalIds.step]; rw [h1]; exact h
    · simp only [Quic.Conn.LocalIds.step]; rw [heq]
      simp only [registerOk, List.map_append, List.map_cons, List.map_nil, h, List.range_succ]
  | onRetire seq dcid rtt now =>
    simp only [Quic.Conn.LocalIds.step]
    rcases onRetire_cases s seq dcid rtt now with ⟨h1, _⟩ | ⟨h1, _⟩ | ⟨pre, x, post, hs, _, h1⟩ <;> (rw [h1]; exact h)
  | onTimeout now =>
    simp only [Quic.Conn.LocalIds.step, onTimeout]
    split
    · split
      · exact h
      · exact h
    · exact h
  | onTransmit c pn room =>
    simp only [Quic.Conn.LocalIds.step, onTransmit]
    split <;> exact h
  | onPacketAck set =>
    simp only [Quic.Conn.LocalIds.step, onPacketAck]
    split <;> exact h
  | onPacketLoss set =>
    simp only [Quic.Conn.LocalIds.step, onPacketLoss]
    split <;> exact h
  | onHandshakeConfirmed =>
    simp only [Quic.Conn.LocalIds.step, onHandshakeConfirmed]
    split
    · rcases retireHandshake_cases s with h1 | ⟨pre, x, post, hs, _, _, h1⟩ <;> (rw [h1]; exact h)
    · exact h
  | envInsert id owner =>
    simp only [Quic.Conn.LocalIds.step]
    split
    · exact h
    · split <;> exact h
  | envRemove id =>
    simp only [Quic.Conn.LocalIds.step]
    split <;> exact h

theorem registered_seqs_run (p : Nat) {s : State} (h : s.registered.map (·.1) = List.range s.nextSeq) (ops : List Op) :
    (run p s ops).registered.map (·.1) = List.range (run p s ops).nextSeq := by
  induction ops generalizing s with
  | nil => exact h
  | cons op ops ih => exact ih (registered_seqs_step p h op)

end Quic.Proofs.LocalIds
