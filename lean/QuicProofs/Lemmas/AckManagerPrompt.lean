import QuicProofs.Lemmas.AckManager
/-
  Ghost bookkeeping and step lemmas for the promptness half of C08:
  "every ack-eliciting packet it processes is acknowledged promptly (within the advertised
   max_ack_delay plus scheduling granularity, immediately when it arrives out of order)".

  The ghost state `G` carries, next to the model state, the list `pend` of processed ack-eliciting
  packets `(pn, arrival time)` that no ACK frame transmitted since covers, and `clock`, the latest time
  any operation carried. `PromptInv` is the invariant; `prompt_step` shows one operation keeps it
  under three per-step hypotheses:
    `TimeOk`      time does not run backwards (environment);
    `NoEviction`  `insert_packet_number` reports `Ok` (no range is dropped for the `ack_ranges_limit`);
    `NoCutoff`    an acknowledged ACK-carrying packet does not cut off a pending packet number
                  (RFC 9000 §13.2.4 rule in `on_packet_ack`).
-/
namespace Quic.Proofs.AckMgr
open Quic.Conn.AckManager Quic.Data.IvSet Quic.Data.IvSpec Quic.Data Quic.Proofs.IvLemmas Quic.Proofs.AckLemmas
open Quic.Proofs

/-- `pn` lies in one of the ranges of an ACK frame -/
def coveredBy (rs : List Interval) (pn : Nat) : Bool := rs.any (fun r => decide (r.lo ≤ pn) && decide (pn ≤ r.hi))

theorem coveredBy_iff (rs : List Interval) (pn : Nat) : coveredBy rs pn = true ↔ Mem rs pn := by
  unfold coveredBy Mem inIv
  simp only [List.any_eq_true, Bool.and_eq_true, decide_eq_true_eq]

structure G where
  s : State
  /-- processed ack-eliciting packets `(pn, arrival)` not yet covered by an ACK frame transmitted since -/
  pend : List (Nat × Nat)
  /-- the latest time seen -/
  clock : Nat

def ginit (c : Settings) : G := ⟨init c, [], 0⟩

/-- the time an operation carries -/
def opTime : Op → Option Nat
  | .processed p => some p.now
  | .transmit _ _ now _ _ _ _ => some now
  | .timeout now => some now
  | _ => none

def pendAfter (pend : List (Nat × Nat)) : Op → Out → List (Nat × Nat)
  | .processed p, _ => if p.ackEliciting then (p.pn, p.now) :: pend else pend
  | _, .frame f _ => pend.filter (fun e => !coveredBy f.ranges e.1)
  | _, _ => pend

def clockAfter (clock : Nat) (op : Op) : Nat :=
  match opTime op with
  | some t => max clock t
  | none => clock

def gstep (g : G) (op : Op) : Option G :=
  match step g.s op with
  | some r => some ⟨r.1, pendAfter g.pend op r.2, clockAfter g.clock op⟩
  | none => none

def grun : G → List Op → Option G
  | g, [] => some g
  | g, op :: rest =>
    match gstep g op with
    | some g' => grun g' rest
    | none => none

/-- a per-step hypothesis holds along the whole history -/
def AllSteps (P : G → Op → Prop) : G → List Op → Prop
  | _, [] => True
  | g, op :: rest => P g op ∧ ∀ g', gstep g op = some g' → AllSteps P g' rest

/-- time does not run backwards -/
def TimeOk (g : G) (op : Op) : Prop := ∀ t, opTime op = some t → g.clock ≤ t

/-- `insert_packet_number` reports `Ok`: nothing is dropped for the range limit -/
def NoEviction (g : G) (op : Op) : Prop :=
  ∀ p, op = .processed p → (AckRanges.insertPn g.s.ackRanges p.pn).2 = .ok

/-- the §13.2.4 cut-off of `on_packet_ack` does not reach a pending packet number -/
def NoCutoff (g : G) (op : Op) : Prop :=
  ∀ a r, op = .packetAck a → (g.s.ackElicitingTransmissions.onUpdate a).2 = some r → ∀ e ∈ g.pend, r.hi < e.1

/-- what the property asks for one pending packet `e = (pn, arrival)`: it is still going to be
    acknowledged (`pn ∈ ack_ranges`, transmission not `Disabled`) and either the manager forces a
    transmission (`Active`) or the delay timer is armed no later than `arrival + max_ack_delay` -/
def PendOK (c : Settings) (s : State) (e : Nat × Nat) : Prop :=
  Mem s.ackRanges.ivs e.1 ∧ s.transmissionState ≠ .disabled ∧
  (s.transmissionState.isActive = true ∨ ∃ d, s.ackDelayTimer = some d ∧ d ≤ e.2 + c.maxAckDelay)

structure PromptInv (c : Settings) (g : G) : Prop where
  settings : g.s.ackSettings = c
  ranges : Inv c.ackRangesLimit g.s.ackRanges
  /-- an armed delay timer was armed at `arrival + max_ack_delay` of some earlier arrival -/
  timer : ∀ d, g.s.ackDelayTimer = some d → ∃ t, t ≤ g.clock ∧ d = t + c.maxAckDelay
  pend : ∀ e ∈ g.pend, PendOK c g.s e

theorem promptInv_init (c : Settings) (hL : 1 ≤ c.ackRangesLimit) : PromptInv c (ginit c) :=
  ⟨rfl, Inv.new _ hL, fun d h => by simp [ginit, init] at h, fun e h => by simp [ginit] at h⟩

-- ---------------------------------------------------------------------------------------------
-- PendOK through the stages of `on_processed_packet`

theorem pendOK_onTimeout (c : Settings) (s : State) (t : Nat) (e : Nat × Nat) (h : PendOK c s e) :
    PendOK c (onTimeout s t) e := by
  obtain ⟨hm, hne, hd⟩ := h
  unfold onTimeout
  split
  · exact ⟨hm, activate_ne_disabled _ hne, Or.inl (activate_active _ hne)⟩
  · exact ⟨hm, hne, hd⟩

theorem pendOK_procSchedule (c : Settings) (s : State) (p : Processed) (a b : Bool) (e : Nat × Nat)
    (h : PendOK c s e) : PendOK c (procSchedule s p a b) e := by
  obtain ⟨hm, hne, hd⟩ := h
  unfold procSchedule
  split
  · split
    · exact ⟨hm, activate_ne_disabled _ hne, Or.inl (activate_active _ hne)⟩
    · split
      · rename_i hnone
        refine ⟨hm, hne, ?_⟩
        rcases hd with hd | ⟨d, hd, _⟩
        · exact Or.inl hd
        · rw [hd] at hnone; cases hnone
      · exact ⟨hm, hne, hd⟩
  · exact ⟨hm, hne, hd⟩

theorem procInsert_state (s : State) (p : Processed) :
    (procInsert s p).transmissionState = s.transmissionState.onUpdate (AckRanges.insertPn s.ackRanges p.pn).1 := rfl

theorem pendOK_procInsert (c : Settings) (L : Nat) (s : State) (p : Processed) (e : Nat × Nat)
    (hinv : Inv L s.ackRanges) (hok : (AckRanges.insertPn s.ackRanges p.pn).2 = .ok)
    (h : PendOK c s e) : PendOK c (procInsert s p) e := by
  obtain ⟨hm, hne, hd⟩ := h
  have hex := C16.ackranges_insert_ok_exact L s.ackRanges p.pn p.pn hinv (Nat.le_refl _) hok
  have hne' := insertPn_nonempty L s.ackRanges p.pn hinv
  refine ⟨?_, ?_, ?_⟩
  · rw [procInsert_ranges]; exact (hex e.1).2 (Or.inl hm)
  · rw [procInsert_state]; exact onUpdate_ne_disabled _ _ hne'
  · rcases hd with hd | hd
    · exact Or.inl (by rw [procInsert_state]; exact onUpdate_active _ _ hne' hd)
    · exact Or.inr hd

theorem procSchedule_state_ne (s : State) (p : Processed) (a b : Bool) (h : s.transmissionState ≠ .disabled) :
    (procSchedule s p a b).transmissionState ≠ .disabled := by
  unfold procSchedule
  repeat' split
  all_goals first | exact activate_ne_disabled _ h | exact h

/-- the new packet itself: after the scheduling stage it is `Active` or timed -/
theorem pendOK_new (c : Settings) (s : State) (p : Processed) (a b : Bool) (clock : Nat)
    (hset : s.ackSettings = c) (hae : p.ackEliciting = true) (hm : Mem s.ackRanges.ivs p.pn)
    (hne : s.transmissionState ≠ .disabled) (hclk : clock ≤ p.now)
    (htimer : ∀ d, s.ackDelayTimer = some d → ∃ t, t ≤ clock ∧ d = t + c.maxAckDelay) :
    PendOK c (procSchedule s p a b) (p.pn, p.now) := by
  refine ⟨by simpa using hm, procSchedule_state_ne s p a b hne, ?_⟩
  unfold procSchedule
  rw [if_pos hae]
  split
  · exact Or.inl (activate_active _ hne)
  · split
    · exact Or.inr ⟨_, rfl, by rw [hset]; exact Nat.le_refl _⟩
    · rename_i hsome
      cases ht : s.ackDelayTimer with
      | none => rw [ht] at hsome; exact absurd rfl hsome
      | some d =>
        obtain ⟨t, htc, hdt⟩ := htimer d ht
        exact Or.inr ⟨d, rfl, by simp only; omega⟩

theorem timer_onTimeout (s : State) (t d : Nat) (h : (onTimeout s t).ackDelayTimer = some d) : s.ackDelayTimer = some d := by
  unfold onTimeout at h
  split at h
  · cases h
  · exact h

theorem timer_procSchedule (s : State) (p : Processed) (a b : Bool) (d : Nat)
    (h : (procSchedule s p a b).ackDelayTimer = some d) :
    s.ackDelayTimer = some d ∨ (p.ackEliciting = true ∧ d = p.now + s.ackSettings.maxAckDelay) := by
  unfold procSchedule at h
  split at h
  · rename_i hae
    split at h
    · exact Or.inl h
    · split at h
      · simp only [Option.some.injEq] at h; exact Or.inr ⟨hae, h.symm⟩
      · exact Or.inl h
  · exact Or.inl h

theorem coveredBy_all (s : State) (x : Nat) (h : Mem s.ackRanges.ivs x) :
    coveredBy (AckRanges.ackRanges s.ackRanges) x = true := by
  rw [coveredBy_iff]; unfold AckRanges.ackRanges; exact (mem_reverse _ _).2 h

-- ---------------------------------------------------------------------------------------------
-- one operation

theorem prompt_step (c : Settings) (g g' : G) (op : Op) (hinv : PromptInv c g)
    (htime : TimeOk g op) (hev : NoEviction g op) (hcut : NoCutoff g op) (h : gstep g op = some g') :
    PromptInv c g' := by
  obtain ⟨hset, hr, htm, hp⟩ := hinv
  unfold gstep at h
  cases hs : step g.s op with
  | none => rw [hs] at h; cases h
  | some r =>
    rw [hs] at h
    simp only [Option.some.injEq] at h
    subst h
    have hr' := step_inv _ g.s op r hr hs
    have hset' : r.1.ackSettings = c := by rw [(step_ranges g.s op r hs).2, hset]
    cases op with
    | processed p =>
      simp only [step, Option.some.injEq] at hs
      subst hs
      have hclk : g.clock ≤ p.now := htime p.now rfl
      have hok := hev p rfl
      have hex := C16.ackranges_insert_ok_exact _ g.s.ackRanges p.pn p.pn hr (Nat.le_refl _) hok
      refine ⟨hset', hr', ?_, ?_⟩
      · intro d hd
        simp only [onProcessedPacket] at hd
        have hd := timer_onTimeout _ _ _ hd
        rcases timer_procSchedule _ _ _ _ _ hd with hd | ⟨_, hd⟩
        · rw [procInsert_timer] at hd
          obtain ⟨t, ht, hdt⟩ := htm d hd
          exact ⟨t, by simp only [clockAfter, opTime]; omega, hdt⟩
        · rw [procInsert_settings, hset] at hd
          exact ⟨p.now, by simp only [clockAfter, opTime]; omega, hd⟩
      · intro e he
        simp only [onProcessedPacket]
        apply pendOK_onTimeout
        simp only [pendAfter] at he
        have hold : ∀ e ∈ g.pend, PendOK c (procSchedule (procInsert g.s p) p
            (orderedLargest g.s.ackRanges p.pn).1 (orderedLargest g.s.ackRanges p.pn).2) e :=
          fun e he => pendOK_procSchedule c _ p _ _ e (pendOK_procInsert c _ g.s p e hr hok (hp e he))
        split at he
        · rename_i hae
          rcases List.mem_cons.1 he with rfl | he
          · apply pendOK_new c _ p _ _ g.clock (by rw [procInsert_settings, hset]) hae
            · rw [procInsert_ranges]; exact (hex p.pn).2 (Or.inr ⟨Nat.le_refl _, Nat.le_refl _⟩)
            · rw [procInsert_state]; exact onUpdate_ne_disabled _ _ (insertPn_nonempty _ _ _ hr)
            · exact hclk
            · intro d hd; rw [procInsert_timer] at hd; exact htm d hd
          · exact hold e he
        · exact hold e he
    | transmit cn m now own fits ae pf =>
      simp only [step, transmit] at hs
      cases hf : onTransmit g.s cn m now fits with
      | none =>
        rw [hf] at hs
        simp only [Option.some.injEq] at hs
        subst hs
        refine ⟨hset, hr, ?_, ?_⟩
        · intro d hd
          obtain ⟨t, ht, hdt⟩ := htm d hd
          exact ⟨t, by simp only [clockAfter, opTime]; omega, hdt⟩
        · intro e he; exact hp e (by simpa [pendAfter] using he)
      | some f =>
        rw [hf] at hs
        simp only at hs
        cases hc : onTransmitComplete g.s cn own ae pf with
        | none => rw [hc] at hs; cases hs
        | some r' =>
          rw [hc] at hs
          simp only [Option.some.injEq] at hs
          subst hs
          have hfl := onTransmitComplete_fields g.s cn own ae pf r' hc
          have hfr := (onTransmit_frame g.s cn m now fits f hf).1
          refine ⟨hset', hr', ?_, ?_⟩
          · intro d hd; rw [hfl.2.2.1] at hd; cases hd
          · intro e he
            simp only [pendAfter, List.mem_filter, Bool.not_eq_true'] at he
            have := coveredBy_all g.s e.1 (hp e he.1).1
            rw [hfr, this] at he
            exact absurd he.2 (by simp)
    | packetAck a =>
      simp only [step] at hs
      rcases onPacketAck_char _ g.s a hr with ⟨rg, hu, hlo, hpa⟩ | ⟨_, hpa⟩
      · rw [hpa] at hs
        simp only [Option.some.injEq] at hs
        subst hs
        refine ⟨hset', hr', ?_, ?_⟩
        · intro d hd; exact htm d hd
        · intro e he
          simp only [pendAfter] at he
          obtain ⟨hm, hne, hd⟩ := hp e he
          refine ⟨?_, hne, hd⟩
          have hlt := hcut a rg rfl hu e he
          simp only
          rw [remSpec_mem _ _ _ hr.2.2.1 (by omega)]
          exact ⟨hm, by unfold inIv; omega⟩
      · rw [hpa] at hs
        simp only [Option.some.injEq] at hs
        subst hs
        exact ⟨hset', hr', fun d hd => htm d hd, fun e he => hp e (by simpa [pendAfter] using he)⟩
    | packetLoss a =>
      simp only [step, Option.some.injEq] at hs
      subst hs
      refine ⟨hset', hr', ?_, ?_⟩
      · intro d hd; rw [onPacketLoss_timer] at hd; exact htm d hd
      · intro e he
        simp only [pendAfter] at he
        obtain ⟨hm, hne, hd⟩ := hp e he
        unfold onPacketLoss
        split
        · have hne2 := activate_ne_disabled _ (onUpdate_ne_disabled g.s.transmissionState _ (isEmpty_false_of_mem hm))
          exact ⟨hm, hne2, Or.inl (activate_active _ (onUpdate_ne_disabled g.s.transmissionState _ (isEmpty_false_of_mem hm)))⟩
        · exact ⟨hm, hne, hd⟩
    | timeout now =>
      simp only [step, Option.some.injEq] at hs
      subst hs
      refine ⟨hset', hr', ?_, ?_⟩
      · intro d hd
        obtain ⟨t, ht, hdt⟩ := htm d (timer_onTimeout _ _ _ hd)
        exact ⟨t, by simp only [clockAfter, opTime]; omega, hdt⟩
      · intro e he
        simp only [pendAfter] at he
        exact pendOK_onTimeout c _ _ e (hp e he)

theorem prompt_run (c : Settings) (ops : List Op) (g g' : G) (hinv : PromptInv c g)
    (htime : AllSteps TimeOk g ops) (hev : AllSteps NoEviction g ops) (hcut : AllSteps NoCutoff g ops)
    (h : grun g ops = some g') : PromptInv c g' := by
  induction ops generalizing g with
  | nil => simp only [grun, Option.some.injEq] at h; subst h; exact hinv
  | cons op rest ih =>
    simp only [grun] at h
    cases hg : gstep g op with
    | none => rw [hg] at h; cases h
    | some g1 =>
      rw [hg] at h
      exact ih g1 (prompt_step c g g1 op hinv htime.1 hev.1 hcut.1 hg) (htime.2 g1 hg) (hev.2 g1 hg) (hcut.2 g1 hg) h

-- ---------------------------------------------------------------------------------------------
-- executable twins of the per-step hypotheses (used to discharge them on concrete histories)

/-- executable twin of `TimeOk` -/
def timeOkB (g : G) (op : Op) : Bool :=
  match opTime op with
  | some t => decide (g.clock ≤ t)
  | none => true

def noEvictionB (g : G) (op : Op) : Bool :=
  match op with
  | .processed p => (AckRanges.insertPn g.s.ackRanges p.pn).2 == .ok
  | _ => true

def noCutoffB (g : G) (op : Op) : Bool :=
  match op with
  | .packetAck a =>
    match (g.s.ackElicitingTransmissions.onUpdate a).2 with
    | some r => g.pend.all (fun e => decide (r.hi < e.1))
    | none => true
  | _ => true

def allStepsB (pB : G → Op → Bool) : G → List Op → Bool
  | _, [] => true
  | g, op :: rest =>
    pB g op && (match gstep g op with
      | some g' => allStepsB pB g' rest
      | none => true)

theorem allSteps_of_B (P : G → Op → Prop) (pB : G → Op → Bool) (hp : ∀ g op, pB g op = true → P g op)
    (ops : List Op) (g : G) (h : allStepsB pB g ops = true) : AllSteps P g ops := by
  induction ops generalizing g with
  | nil => trivial
  | cons op rest ih =>
    simp only [allStepsB, Bool.and_eq_true] at h
    refine ⟨hp g op h.1, fun g' hg => ih g' ?_⟩
    have := h.2
    rw [hg] at this
    exact this

theorem timeOk_of_B (g : G) (op : Op) (h : timeOkB g op = true) : TimeOk g op := by
  intro t ht
  unfold timeOkB at h
  rw [ht] at h
  simpa using h

theorem noEviction_of_B (g : G) (op : Op) (h : noEvictionB g op = true) : NoEviction g op := by
  intro p hp
  subst hp
  simpa [noEvictionB] using h

theorem noCutoff_of_B (g : G) (op : Op) (h : noCutoffB g op = true) : NoCutoff g op := by
  intro a r ha hr e he
  subst ha
  simp only [noCutoffB, hr, List.all_eq_true, decide_eq_true_eq] at h
  exact h e he

theorem wf_of_wfB : ∀ (l : List Interval), wfB l = true → WF l := by
  intro l
  induction l with
  | nil => intro _; exact WF.nil
  | cons a rest ih =>
    intro h
    cases rest with
    | nil =>
      simp only [wfB, decide_eq_true_eq] at h
      exact ⟨by simpa using h, by simp⟩
    | cons b rest' =>
      simp only [wfB, Bool.and_eq_true, decide_eq_true_eq] at h
      have hw := ih h.2
      refine WF.cons h.1.1 hw ?_
      intro c hc
      rcases List.mem_cons.1 hc with rfl | hc
      · exact h.1.2
      · have := hw.head_lt c hc
        have := hw.head_valid
        omega

end Quic.Proofs.AckMgr
