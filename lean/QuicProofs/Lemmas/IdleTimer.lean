import QuicModel.Conn.IdleTimer
/-
  Helper definitions (the RFC 9000 §10.1 reference reading of "restart instant") and lemmas for the
  idle-timer theorems of `Props/C02Timers.lean`.
-/
namespace Quic.Proofs.Lemmas.IdleTimer
open Quic.Conn.IdleTimer

/-- RFC 9000 §10.1: "the negotiated value, but at least three probe timeouts" (ms; the PTO in µs,
    truncated to whole ms as the code does) -/
def effectiveMs (idleMs ptoUs : Nat) : Nat := max idleMs (3 * (ptoUs / 1000))

/-- no packet is processed in this part of the history -/
def NoProcessed (ops : List Op) : Prop := ∀ t p, Op.processed t p ∉ ops

/-- the first ack-eliciting transmission of a history: `(time, PTO at that instant)` -/
def firstAeSend : List Op → Option (Nat × Nat)
  | [] => none
  | .sentAckEliciting t p :: _ => some (t, p)
  | _ :: ops => firstAeSend ops

/-- RFC 9000 §10.1: "An endpoint restarts its idle timer when a packet from its peer is received
    and processed successfully.  An endpoint also restarts its idle timer when sending an
    ack-eliciting packet if no other ack-eliciting packets have been sent since last receiving and
    processing a packet."  After `processed t p` followed by `post` (no further processed packet)
    the restart instant is the first ack-eliciting send of `post`, else `t`. -/
def restartOf (t p : Nat) (post : List Op) : Nat × Nat := (firstAeSend post).getD (t, p)

theorem step_idleMs (s : State) (op : Op) : (step s op).idleMs = s.idleMs := by
  unfold step
  split
  · rfl
  · cases op with
    | processed t p => simp only [processed]; split <;> rfl
    | sentAckEliciting t p =>
      simp only [sentAckEliciting]
      split
      · split <;> rfl
      · rfl
    | timeout t => simp only [timeout]; split <;> rfl

theorem run_idleMs (ops : List Op) (s : State) : (run s ops).idleMs = s.idleMs := by
  induction ops generalizing s with
  | nil => rfl
  | cons op ops ih => simp only [run]; rw [ih, step_idleMs]

theorem step_expired (s : State) (op : Op) (h : s.expired = true) : step s op = s := by
  simp [step, h]

theorem run_expired (ops : List Op) (s : State) (h : s.expired = true) : run s ops = s := by
  induction ops generalizing s with
  | nil => rfl
  | cons op ops ih => simp only [run]; rw [step_expired s op h]; exact ih s h

theorem run_append (a b : List Op) (s : State) : run s (a ++ b) = run (run s a) b := by
  induction a generalizing s with
  | nil => rfl
  | cons op a ih => simp only [List.cons_append, run]; exact ih _

/-- a timeout either closes the connection (expired) or changes nothing -/
theorem timeout_cases (s : State) (t : Nat) :
    ((timeout s t).1 = s ∧ (timeout s t).2 = false) ∨ ((timeout s t).1.expired = true ∧ (timeout s t).2 = true) := by
  unfold timeout
  split
  · right; exact ⟨rfl, rfl⟩
  · left; exact ⟨rfl, rfl⟩

/-- after the first ack-eliciting send the deadline is frozen until the next processed packet -/
theorem frozen (post : List Op) (s : State) (D : Nat) (hnp : NoProcessed post)
    (hr : s.resetOnSend = false) (hd : s.deadline = some D) (hlive : (run s post).expired = false) :
    (run s post).deadline = some D := by
  induction post generalizing s with
  | nil => exact hd
  | cons op post ih =>
    have hnp' : NoProcessed post := fun t p h => hnp t p (List.mem_cons_of_mem _ h)
    simp only [run] at hlive ⊢
    by_cases hx : s.expired = true
    · rw [step_expired s op hx] at hlive ⊢
      rw [run_expired post s hx] at hlive
      rw [hx] at hlive; cases hlive
    · have hx' : s.expired = false := by cases h : s.expired <;> simp_all
      cases op with
      | processed t p => exact absurd List.mem_cons_self (hnp t p)
      | sentAckEliciting t p =>
        have : step s (.sentAckEliciting t p) = s := by simp [step, hx', sentAckEliciting, hr]
        rw [this] at hlive ⊢
        exact ih s hnp' hr hd hlive
      | timeout t =>
        have hs : step s (.timeout t) = (timeout s t).1 := by simp [step, hx']
        rcases timeout_cases s t with ⟨h1, _⟩ | ⟨h1, _⟩
        · rw [hs, h1] at hlive ⊢
          exact ih s hnp' hr hd hlive
        · rw [hs] at hlive
          rw [run_expired post _ h1] at hlive
          rw [h1] at hlive; cases hlive

/-- between a processed packet and the first ack-eliciting send -/
theorem afterProcessed (post : List Op) (s : State) (idle t p : Nat) (hnp : NoProcessed post)
    (hi : s.idleMs = some idle) (hr : s.resetOnSend = true)
    (hd : s.deadline = some (t + effectiveMs idle p * 1000)) (hlive : (run s post).expired = false) :
    (run s post).deadline =
      some ((restartOf t p post).1 + effectiveMs idle (restartOf t p post).2 * 1000) := by
  induction post generalizing s with
  | nil => simpa [restartOf, firstAeSend, run] using hd
  | cons op post ih =>
    have hnp' : NoProcessed post := fun t p h => hnp t p (List.mem_cons_of_mem _ h)
    simp only [run] at hlive ⊢
    by_cases hx : s.expired = true
    · rw [step_expired s op hx] at hlive
      rw [run_expired post s hx] at hlive
      rw [hx] at hlive; cases hlive
    · have hx' : s.expired = false := by cases h : s.expired <;> simp_all
      cases op with
      | processed t' p' => exact absurd List.mem_cons_self (hnp t' p')
      | sentAckEliciting t' p' =>
        have hs : step s (.sentAckEliciting t' p') =
            { s with resetOnSend := false, deadline := some (t' + effectiveMs idle p' * 1000) } := by
          simp [step, hx', sentAckEliciting, hr, duration, hi, arm, effectiveMs, PTO_MULTIPLIER]
        rw [hs] at hlive ⊢
        have := frozen post _ (t' + effectiveMs idle p' * 1000) hnp' rfl rfl hlive
        simpa [restartOf, firstAeSend] using this
      | timeout t' =>
        have hs : step s (.timeout t') = (timeout s t').1 := by simp [step, hx']
        rcases timeout_cases s t' with ⟨h1, _⟩ | ⟨h1, _⟩
        · rw [hs, h1] at hlive ⊢
          have := ih s hnp' hi hr hd hlive
          simpa [restartOf, firstAeSend] using this
        · rw [hs] at hlive
          rw [run_expired post _ h1] at hlive
          rw [h1] at hlive; cases hlive

/-- "armed or already reported": preserved by every step once established (idle timeout enabled) -/
def ArmedOrExpired (s : State) : Prop := s.expired = true ∨ s.deadline.isSome = true

theorem step_armedOrExpired (s : State) (op : Op) (h : ArmedOrExpired s) : ArmedOrExpired (step s op) := by
  rcases h with h | h
  · rw [step_expired s op h]; exact Or.inl h
  · by_cases hx : s.expired = true
    · rw [step_expired s op hx]; exact Or.inl hx
    · have hx' : s.expired = false := by cases h : s.expired <;> simp_all
      cases op with
      | processed t p =>
        right; simp only [step, hx', processed]
        cases hd : duration s.idleMs p <;> simp [h]
      | sentAckEliciting t p =>
        right; simp only [step, hx', sentAckEliciting]
        cases hr : s.resetOnSend <;> simp [h]
        cases hd : duration s.idleMs p <;> simp [h]
      | timeout t =>
        have hs : step s (.timeout t) = (timeout s t).1 := by simp [step, hx']
        rcases timeout_cases s t with ⟨h1, _⟩ | ⟨h1, _⟩
        · rw [hs, h1]; exact Or.inr h
        · rw [hs]; exact Or.inl h1

theorem run_armedOrExpired (ops : List Op) (s : State) (h : ArmedOrExpired s) : ArmedOrExpired (run s ops) := by
  induction ops generalizing s with
  | nil => exact h
  | cons op ops ih => exact ih _ (step_armedOrExpired s op h)

theorem processed_armedOrExpired (s : State) (idle t p : Nat) (hi : s.idleMs = some idle) :
    ArmedOrExpired (step s (.processed t p)) := by
  by_cases hx : s.expired = true
  · rw [step_expired s _ hx]; exact Or.inl hx
  · have hx' : s.expired = false := by cases h : s.expired <;> simp_all
    right; simp [step, hx', processed, duration, hi]

/-- nothing arms the idle timer before the first processed packet -/
theorem unarmed (ops : List Op) (s : State) (hnp : NoProcessed ops)
    (hd : s.deadline = none) (hr : s.resetOnSend = false) (hx : s.expired = false) :
    (run s ops).deadline = none ∧ (run s ops).resetOnSend = false ∧ (run s ops).expired = false := by
  induction ops generalizing s with
  | nil => exact ⟨hd, hr, hx⟩
  | cons op ops ih =>
    have hnp' : NoProcessed ops := fun t p h => hnp t p (List.mem_cons_of_mem _ h)
    simp only [run]
    cases op with
    | processed t p => exact absurd List.mem_cons_self (hnp t p)
    | sentAckEliciting t p =>
      have : step s (.sentAckEliciting t p) = s := by simp [step, hx, sentAckEliciting, hr]
      rw [this]; exact ih s hnp' hd hr hx
    | timeout t =>
      have : step s (.timeout t) = s := by simp [step, hx, timeout, isExpired, hd]
      rw [this]; exact ih s hnp' hd hr hx

end Quic.Proofs.Lemmas.IdleTimer
