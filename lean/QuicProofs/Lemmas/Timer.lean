import QuicModel.Time.Timer
namespace Quic.Proofs.Lemmas.Timer
open Quic.Time.Timer

theorem fold_spec (ts : List Timer) : ∀ acc : Option Nat,
    (ts.foldl onTimer acc = none ↔ acc = none ∧ ∀ t ∈ ts, t = none) ∧
    (∀ m, ts.foldl onTimer acc = some m →
      (acc = some m ∨ some m ∈ ts) ∧ (∀ d, acc = some d → m ≤ d) ∧ ∀ d, some d ∈ ts → m ≤ d) := by
  induction ts with
  | nil => intro acc; simp; intro m h; subst h; exact ⟨rfl, fun d hd => by cases hd; exact Nat.le_refl _⟩
  | cons t ts ih =>
    intro acc
    have h := ih (onTimer acc t)
    simp only [List.foldl_cons]
    cases acc <;> cases t <;> simp [onTimer] at h ⊢ <;> grind

end Quic.Proofs.Lemmas.Timer
