import QuicModel.Conn.Amplification
import QuicModel.Conn.StatelessReset
/-
  Helper lemmas for C11: the accounting invariants of the saturating allowance counter and the
  range of `gen_range_biased`.
-/
namespace Quic.Proofs.Lemmas.Amplification
open Quic.Conn.Amplification

/-- accounting invariant: allowance + sent never exceeds the credit plus the forgotten debt -/
def Inv (p : Path) : Prop :=
  match p.state with
  | .validated => True
  | .limited a => a + p.sent ≤ p.mult * p.recv + p.forgiven

theorem credit_le (m b : Nat) : credit m b ≤ m * b := by
  unfold credit asU32 satMulUsize
  split
  · rw [Nat.mul_comm m b]; exact Nat.mod_le _ _
  · rename_i h
    have : usizeMax % 4294967296 ≤ usizeMax := Nat.mod_le _ _
    rw [Nat.mul_comm m b]; omega

theorem satAdd32_le (a c : Nat) : satAdd32 a c ≤ a + c := by
  unfold satAdd32; split <;> omega

theorem asU32_of_lt (n : Nat) (h : n ≤ u32Max) : asU32 n = n := by
  unfold asU32 u32Max at *; omega

theorem inv_init (m : Nat) : Inv (newServer m) := by
  simp [Inv, newServer]

/-- what `send` means on a limited path with positive allowance -/
theorem step_send_limited (p : Path) (a n : Nat) (hs : p.state = .limited a) (ha : a ≠ 0) (hn : n ≠ 0) :
    step p (.send n) = { p with state := .limited (a - asU32 n), sent := p.sent + n,
                                forgiven := p.forgiven + (n - a) } := by
  simp [step, canTransmit, atAmplificationLimit, onBytesTransmitted, hs, ha, hn]

theorem step_send_at_limit (p : Path) (n : Nat) (h : atAmplificationLimit p = true) :
    step p (.send n) = p := by
  simp [step, canTransmit, h]

theorem step_send_zero (p : Path) : step p (.send 0) = p := by
  simp [step, onBytesTransmitted]

theorem step_mult (p : Path) (op : Op) : (step p op).mult = p.mult := by
  cases op with
  | recv n => simp [step, onBytesReceived]
  | send n =>
    simp only [step]
    split
    · unfold onBytesTransmitted
      split
      · rfl
      · split
        · rfl
        · split <;> rfl
    · rfl
  | validate => rfl

theorem inv_step (p : Path) (op : Op) (d : Nat) (hd : d ≤ u32Max)
    (hop : sendsLe d [op] = true) (h : Inv p) : Inv (step p op) := by
  cases op with
  | recv b =>
    unfold Inv at *
    cases hs : p.state with
    | validated => simp [step, onBytesReceived, hs]
    | limited a =>
      rw [hs] at h
      simp only [step, onBytesReceived, hs]
      have h1 := satAdd32_le a (credit p.mult b)
      have h2 := credit_le p.mult b
      have : p.mult * (p.recv + b) = p.mult * p.recv + p.mult * b := Nat.mul_add _ _ _
      simp only at h
      omega
  | validate => simp [Inv, step, onValidated]
  | send n =>
    have hn : n ≤ d := by simpa [sendsLe] using hop
    cases hs : p.state with
    | validated =>
      have : (step p (.send n)).state = .validated := by
        simp only [step, canTransmit, atAmplificationLimit, hs, onBytesTransmitted]
        by_cases h0 : n = 0 <;> simp [h0, hs]
      simp [Inv, this]
    | limited a =>
      by_cases ha : a = 0
      · rw [step_send_at_limit p n (by simp [atAmplificationLimit, hs, ha])]; exact h
      · by_cases h0 : n = 0
        · subst h0; rw [step_send_zero]; exact h
        · rw [step_send_limited p a n hs ha h0]
          unfold Inv at *
          rw [hs] at h
          simp only at h ⊢
          rw [asU32_of_lt n (by omega)]
          omega

theorem sendsLe_cons (d : Nat) (op : Op) (ops : List Op) :
    sendsLe d (op :: ops) = (sendsLe d [op] && sendsLe d ops) := by
  simp [sendsLe]

theorem inv_states (d : Nat) (hd : d ≤ u32Max) (ops : List Op) :
    ∀ p, Inv p → sendsLe d ops = true → ∀ q ∈ states p ops, Inv q := by
  induction ops with
  | nil => intro p hp _ q hq; simp [states] at hq; subst hq; exact hp
  | cons op rest ih =>
    intro p hp hs q hq
    rw [sendsLe_cons] at hs
    simp only [Bool.and_eq_true] at hs
    simp only [states, List.mem_cons] at hq
    rcases hq with rfl | hq
    · exact hp
    · exact ih (step p op) (inv_step p op d hd hs.1 hp) hs.2 q hq

/- ---------------------------------------------------------------------------------------
   "quiet" histories: nothing is received once an overshoot has happened -/

/-- every `recv` of the history happens in a state that has not forgotten any debt yet -/
def quiet : Path → List Op → Bool
  | _, [] => true
  | p, op :: rest =>
    (match op with
     | .recv _ => p.forgiven == 0
     | _ => true) && quiet (step p op) rest

/-- invariant of quiet histories -/
def QInv (d : Nat) (p : Path) : Prop :=
  match p.state with
  | .validated => True
  | .limited a => (p.forgiven = 0 ∧ a + p.sent ≤ p.mult * p.recv) ∨ (p.forgiven ≠ 0 ∧ a = 0 ∧ p.sent < p.mult * p.recv + d)

theorem qinv_init (d m : Nat) : QInv d (newServer m) := by
  simp [QInv, newServer]

theorem qinv_step (p : Path) (op : Op) (d : Nat) (hd : d ≤ u32Max)
    (hop : sendsLe d [op] = true) (hq : quiet p [op] = true) (h : QInv d p) : QInv d (step p op) := by
  cases op with
  | recv b =>
    have hf : p.forgiven = 0 := by simpa [quiet] using hq
    unfold QInv at *
    cases hs : p.state with
    | validated => simp [step, onBytesReceived, hs]
    | limited a =>
      rw [hs] at h
      simp only [step, onBytesReceived, hs]
      have h1 := satAdd32_le a (credit p.mult b)
      have h2 := credit_le p.mult b
      have : p.mult * (p.recv + b) = p.mult * p.recv + p.mult * b := Nat.mul_add _ _ _
      simp only at h
      left
      refine ⟨hf, ?_⟩
      rcases h with ⟨_, h⟩ | ⟨hne, _, _⟩
      · omega
      · exact absurd hf hne
  | validate => simp [QInv, step, onValidated]
  | send n =>
    have hn : n ≤ d := by simpa [sendsLe] using hop
    cases hs : p.state with
    | validated =>
      have : (step p (.send n)).state = .validated := by
        simp only [step, canTransmit, atAmplificationLimit, hs, onBytesTransmitted]
        by_cases h0 : n = 0 <;> simp [h0, hs]
      simp [QInv, this]
    | limited a =>
      by_cases ha : a = 0
      · rw [step_send_at_limit p n (by simp [atAmplificationLimit, hs, ha])]; exact h
      · by_cases h0 : n = 0
        · subst h0; rw [step_send_zero]; exact h
        · rw [step_send_limited p a n hs ha h0]
          unfold QInv at *
          rw [hs] at h
          simp only at h ⊢
          rw [asU32_of_lt n (by omega)]
          rcases h with ⟨hf, h⟩ | ⟨_, h0', _⟩
          · by_cases hle : n ≤ a
            · left; omega
            · right; omega
          · exact absurd h0' ha

theorem quiet_cons (p : Path) (op : Op) (ops : List Op) :
    quiet p (op :: ops) = (quiet p [op] && quiet (step p op) ops) := by
  simp [quiet]

theorem qinv_states (d : Nat) (hd : d ≤ u32Max) (ops : List Op) :
    ∀ p, QInv d p → sendsLe d ops = true → quiet p ops = true → ∀ q ∈ states p ops, QInv d q := by
  induction ops with
  | nil => intro p hp _ _ q hq; simp [states] at hq; subst hq; exact hp
  | cons op rest ih =>
    intro p hp hs hqu q hq
    rw [sendsLe_cons] at hs
    rw [quiet_cons] at hqu
    simp only [Bool.and_eq_true] at hs hqu
    simp only [states, List.mem_cons] at hq
    rcases hq with rfl | hq
    · exact hp
    · exact ih (step p op) (qinv_step p op d hd hs.1 hqu.1 hp) hs.2 hqu.2 q hq

theorem states_mult (ops : List Op) : ∀ p, ∀ q ∈ states p ops, q.mult = p.mult := by
  induction ops with
  | nil => intro p q hq; simp [states] at hq; subst hq; rfl
  | cons op rest ih =>
    intro p q hq
    simp only [states, List.mem_cons] at hq
    rcases hq with rfl | hq
    · rfl
    · rw [ih (step p op) q hq, step_mult]

/- ---------------------------------------------------------------------------------------
   stateless reset: range of the biased draw -/
open Quic.Conn.StatelessReset in
theorem genRangeBiased_range (r lo hi : Nat) (h : lo ≤ hi) :
    lo ≤ genRangeBiased r lo hi ∧ genRangeBiased r lo hi ≤ hi := by
  unfold genRangeBiased
  split
  · rename_i he
    have : lo = hi := by simpa using he
    omega
  · simp only
    split
    · have : r % (hi - lo + 1) < hi - lo + 1 := Nat.mod_lt _ (by omega)
      omega
    · have : r % Quic.Conn.StatelessReset.usizeMax < Quic.Conn.StatelessReset.usizeMax :=
        Nat.mod_lt _ (by unfold Quic.Conn.StatelessReset.usizeMax; omega)
      omega

end Quic.Proofs.Lemmas.Amplification
