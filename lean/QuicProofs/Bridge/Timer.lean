import QuicModel.Time.Timer
import QuicModel.Recovery.Pacer
import QuicModel.Generated.Timer
/-
  Tie G for the timer / pacer part: the functions tools/extractors/timer.py TRANSLATED from /repo's
  current source are the ones the C02Timer theorems are proved about.
-/
namespace Quic.Proofs.Bridge.Timer
open Quic

theorem granularity_eq : Generated.Timer.granularityUs = Time.Timer.granularityUs := by decide
theorem has_elapsed_eq : ∀ a b, Generated.Timer.hasElapsed a b = Time.Timer.hasElapsed a b := fun _ _ => rfl
theorem timer_shape : Generated.Timer.timerShape = true := by decide
theorem on_timer_eq : ∀ q t, Generated.Timer.onTimer q t = Time.Timer.onTimer q t := by
  intro q t; cases q <;> cases t <;> rfl
theorem next_expiration_shape : Generated.Timer.nextExpirationShape = true := by decide

theorem n_eq : Generated.Timer.nRatio = Recovery.Pacer.nRatio := by decide
theorem slow_start_n_eq : Generated.Timer.slowStartN = Recovery.Pacer.slowStartN := by decide
theorem initial_interval_eq : Generated.Timer.initialIntervalNs = Recovery.Pacer.initialIntervalNs := by decide
theorem minimum_pacing_rtt_eq : Generated.Timer.minimumPacingRttNs = Recovery.Pacer.minimumPacingRttNs := by decide
theorem max_burst_eq : Generated.Timer.maxBurstPackets = Recovery.Pacer.maxBurstPackets := by decide
theorem kibibyte_shift_eq : Generated.Timer.kibibyteShift = Recovery.Pacer.kibibyteShift := by decide
theorem pacing_disabled_eq : ∀ srtt, Generated.Timer.pacingDisabled srtt = decide (srtt < Recovery.Pacer.minimumPacingRttNs) :=
  fun _ => rfl
theorem advance_eq : ∀ nx iv now, Generated.Timer.advance nx iv now = Nat.max (nx + iv) now := fun _ _ _ => rfl
theorem pacer_shape : Generated.Timer.pacerShape = true := by decide

end Quic.Proofs.Bridge.Timer
