import QuicModel.Data.RefBuf
import QuicModel.Generated.Reassembler
/-
  Tie G for the reassembly buffer: what tools/extractors/reassembler.py read from /repo *now*
  equals the pinned values/conditions that `Data.RefBuf` (and the C16/C01 theorems) use.
  A semantic edit of a constant, of a table row or of an `ensure!` comparison breaks these.
-/
namespace Quic.Proofs.Bridge.Reassembler
open Quic.Data.RefBuf
namespace G
export Quic.Generated.Reassembler (minBufferAllocationSize unknownFinalIsU64Max maxOffset allocTable allocHit
  alignIsFloorMultiple handleReaderFinShape finKnownOk finNewOk dataKnownOk skipShape skipFinalOk
  requestNewChecksEnd requestFinalIsEnd writeReaderOrder readingCompleteIsFinalEqStart writingCompleteIsTotalEqFinal)
end G

theorem max_offset_eq : G.maxOffset = maxOffset := by decide
theorem max_offset_is_2_62_minus_1 : G.maxOffset = 2 ^ 62 - 1 := by decide
theorem unknown_final_not_an_offset : G.unknownFinalIsU64Max = true := by decide

theorem min_alloc_eq : G.minBufferAllocationSize = minAlloc := by decide
theorem alloc_table_eq : G.allocTable = allocTable := by decide
theorem alloc_hit_eq (offset m : Nat) : G.allocHit offset m = decide (offset ≥ m) := rfl
theorem align_eq : G.alignIsFloorMultiple = true := by decide

theorem handle_reader_fin_shape : G.handleReaderFinShape = true := by decide
theorem fin_known_eq (a e : Nat) : G.finKnownOk a e = finKnownOk a e := rfl
theorem fin_new_eq (m f : Nat) : G.finNewOk m f = finNewOk m f := rfl
theorem data_known_eq (e b : Nat) : G.dataKnownOk e b = dataKnownOk e b := rfl

theorem skip_shape : G.skipShape = true := by decide
theorem skip_final_eq (f n : Nat) : G.skipFinalOk f n = skipFinalOk f n := rfl

theorem request_new_checks_end : G.requestNewChecksEnd = true := by decide
theorem request_final_is_end : G.requestFinalIsEnd = true := by decide
theorem write_reader_order : G.writeReaderOrder = true := by decide
theorem reading_complete_def : G.readingCompleteIsFinalEqStart = true := by decide
theorem writing_complete_def : G.writingCompleteIsTotalEqFinal = true := by decide

end Quic.Proofs.Bridge.Reassembler
