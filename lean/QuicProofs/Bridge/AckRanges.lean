import QuicModel.Data.AckRanges
import QuicModel.Generated.AckRanges
/-
  Tie G for the range sets: what tools/extractors/ack_ranges.py reads from /repo *now* equals the
  values / comparison shapes the models in QuicModel.Data.{IntervalSet,AckRanges} transcribe and the
  C16 theorems are proved about. A one-token edit (`>`→`>=`, `+ 1` dropped, `<`→`<=`, 10→9, 16→15)
  makes the corresponding `rfl` fail.
-/
namespace Quic.Proofs.Bridge.AckRanges
open Quic.Generated.AckRanges

/-- `Ranges::default()` uses the limit the model's `default` uses -/
theorem default_limit_eq : recommendedRangesLimit = Quic.Data.AckRanges.defaultLimit := rfl
theorem default_is_recommended : defaultIsRecommended = true := rfl
/-- `if min < pn_range.start()` — modelled by `AckRanges.minBelow mn lo` -/
theorem evict_cmp_eq : evictCmp = ("<", "start") := rfl
theorem evict_else_eq : evictElsePutsMinBack = true := rfl
/-- `limit.get() > prev_len` — modelled by `IvSet.underLimit` -/
theorem insert_under_limit_eq : insertUnderLimitCmp = ">" := rfl
/-- `l.get() > ranges.len() + 1`, `unwrap_or(true)` — modelled by `canPush` in `IvSet.removeAt` -/
theorem remove_can_push_eq : removeCanPush = (">", 1, true) := rfl
/-- `interval_len() < 16` — modelled by `IvSet.indexFor` / `linearScanBelow` -/
theorem index_for_eq : indexForLinear = ("<", Quic.Data.IvSet.linearScanBelow) := rfl
/-- `self.start <= other.end_exclusive()` — modelled by `Interval.shouldCoalesce` -/
theorem should_coalesce_eq : shouldCoalesce = ("<=", "end_exclusive") := rfl

end Quic.Proofs.Bridge.AckRanges
