import QuicModel.Dc.Packets
import QuicModel.Dc.SecretMap
import QuicModel.Generated.DcPackets
import QuicModel.Generated.DcReplay
/-
  Tie G for C18: what tools/extractors/dc_packets.py read from /repo *now* equals the pinned
  constants / shapes the C18 theorems are proved about. A changed mask, tag value, tag length,
  AAD argument, dropped length check, reordered `authenticate` or changed eviction guard breaks `decide`.
-/
namespace Quic.Proofs.Bridge.DcPackets
open Quic.Dc.Packets
open Quic.Generated.DcPackets

theorem stream_tag_eq :
    [streamHasSourceQueueId, streamIsRecovery, streamHasControlData, streamHasFinalOffset, streamHasAppHeader,
      streamKeyPhase, streamMin, streamMax, streamBase]
    = [StreamTag.hasSourceQueueId, StreamTag.isRecovery, StreamTag.hasControlData, StreamTag.hasFinalOffset,
        StreamTag.hasAppHeader, StreamTag.keyPhase, StreamTag.min, StreamTag.max, StreamTag.base] := by decide

theorem datagram_tag_eq :
    [datagramAckEliciting, datagramIsConnected, datagramHasAppHeader, datagramKeyPhase, datagramMin, datagramMax,
      datagramBase]
    = [DatagramTag.ackEliciting, DatagramTag.isConnected, DatagramTag.hasAppHeader, DatagramTag.keyPhase,
        DatagramTag.min, DatagramTag.max, DatagramTag.base] := by decide

theorem control_tag_eq :
    [controlHasSourceQueueId, controlIsStream, controlHasAppHeader, controlMin, controlMax, controlBase]
    = [ControlTag.hasSourceQueueId, ControlTag.isStream, ControlTag.hasAppHeader, ControlTag.min, ControlTag.max,
        ControlTag.base] := by decide

theorem secret_tag_eq :
    [secretUnknownPathSecret, secretStaleKey, secretReplayDetected, secretHasQueueId]
    = [SecretTag.unknownPathSecret, SecretTag.staleKey, SecretTag.replayDetected, SecretTag.hasQueueId] := by decide

theorem secret_tag_shape_eq :
    [secretTagAcceptsTwo, secretDispatchMasksQueueBit, secretDecoderTakesTagLen, upsTokenCompare, secretAuthVerifiesHeader]
    = [true, true, true, true, true] := by decide

/-- every tag length is 16 and the secret-control packets fit their 64-byte buffer -/
theorem tag_len_eq :
    [secretTagLen, aeadTagLen, streamMacTagLen, secretMaxPacketSize]
    = [tagLen, tagLen, tagLen, 1 + credIdLen + 1 + 8 + 8 + tagLen + 14] := by decide

theorem secret_mac_tag_len_eq : secretMacTagLenIsSecretTagLen = true := by decide

/-- the tag dispatcher: short packets only; the reserved values are exactly those no kind claims -/
theorem dispatch_eq : longPacketBit :: reservedTags = [128, 99, 103, 104, 127] := by decide

/-- AEAD associated data is the whole header on seal, open and open-in-place; HMAC verification
    covers the header and refuses tags of the wrong length; key phase one is refused -/
theorem aad_eq : aadArgs = ["header", "header", "header"] := by decide

theorem crypto_shape_eq :
    [verifyChecksTagLen, verifyComparesHmacOfHeader, openRefusesKeyPhaseOne] = [true, true, true] := by decide

theorem wire_eq :
    [wireVersion, Quic.Generated.DcPackets.maxQueueId, streamIdMasks.1, streamIdMasks.2]
    = [0, Quic.Dc.Packets.maxQueueId, 2, 1] := by decide

/-- the handlers authenticate before any effect, against the key / token of the entry named by the
    packet; eviction needs `age > 10 s` outside `cfg(test)` -/
theorem handlers_eq :
    [staleKeyAuthBeforeUpdate, replayAuthBeforeHandshake, upsAuthBeforeEffects, upsAuthUsesEntryToken,
      staleKeyUsesEntryControlKey, replayUsesEntryControlKey]
    = [true, true, true, true, true, true] := by decide

theorem eviction_guard_eq : evictionGuard = (">", 10) := by decide

/-- StaleKey is applied with `fetch_max` (shared with C19's extractor) -/
theorem stale_key_fetch_max : Quic.Generated.DcReplay.staleKey = ("fetch_max", "*min_key_id") := by decide

end Quic.Proofs.Bridge.DcPackets
