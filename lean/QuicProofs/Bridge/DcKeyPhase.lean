import QuicModel.Dc.KeyPhase
import QuicModel.Generated.DcKeyPhase
/-
  Tie G for C18 (key-phase wrappers): what tools/extractors/dc_keyphase.py reads from /repo *now* equals the
  source shape `QuicModel.Dc.KeyPhase` transcribes. Moving `needs_update.store(true)` in front of the AEAD
  open / dedup check in either decrypt function, dropping a `?`, replacing another slot in `update()`, not
  clearing the flag, another record budget or comparison make these fail to elaborate.
-/
namespace Quic.Proofs.Bridge.DcKeyPhase
open Quic.Dc.KeyPhase

/-- copying path: the flag is raised only after `opener.decrypt(..)?` and `on_decrypt_success(..)?` -/
theorem decrypt_order_eq : Quic.Generated.DcKeyPhase.decryptOrder = pinnedDecryptOrder := by decide

/-- in-place path: the same -/
theorem decrypt_in_place_order_eq : Quic.Generated.DcKeyPhase.decryptInPlaceOrder = pinnedDecryptOrder := by decide

theorem decrypt_slots_eq : Quic.Generated.DcKeyPhase.decryptSlots = pinnedSlots := by decide

theorem decrypt_in_place_slots_eq : Quic.Generated.DcKeyPhase.decryptInPlaceSlots = pinnedSlots := by decide

theorem update_order_eq : Quic.Generated.DcKeyPhase.updateOrder = pinnedUpdateOrder := by decide

theorem once_decrypt_order_eq : Quic.Generated.DcKeyPhase.onceDecryptOrder = pinnedOnceOrder := by decide

theorem once_decrypt_in_place_order_eq : Quic.Generated.DcKeyPhase.onceDecryptInPlaceOrder = pinnedOnceOrder := by decide

theorem new_shape : Quic.Generated.DcKeyPhase.newIsCurrentThenNext = true := rfl

theorem on_decrypt_success_shape : Quic.Generated.DcKeyPhase.onDecryptSuccessIsDedupCheck = true := rfl

theorem dedup_shape : Quic.Generated.DcKeyPhase.dedupIsOnceCell = true := rfl

theorem max_records_eq (d : Bool) : Quic.Generated.DcKeyPhase.maxRecords d = maxRecords d := by cases d <;> rfl

theorem sealer_needs_update_eq (s : Sealer) (m : Nat) :
    Quic.Generated.DcKeyPhase.sealerNeedsUpdate s.encryptedRecords m = s.needsUpdate m := rfl

/-- RFC 9001 §6.6: 2^23 packets for AES-GCM; the update is enqueued 2^16 packets early -/
theorem limits_eq : Quic.Generated.DcKeyPhase.limit = 2 ^ 23 ∧ Quic.Generated.DcKeyPhase.threshold = 2 ^ 16
    ∧ Quic.Generated.DcKeyPhase.testMaxRecords = 4096 := by decide

theorem seal_update_order_eq : Quic.Generated.DcKeyPhase.sealUpdateOrder = pinnedSealUpdateOrder := by decide

theorem encrypt_shape : Quic.Generated.DcKeyPhase.encryptCountsOne = true := rfl

theorem open_with_order_eq : Quic.Generated.DcKeyPhase.openWithOrder = pinnedWithOrder := by decide

theorem seal_with_order_eq : Quic.Generated.DcKeyPhase.sealWithOrder = pinnedWithOrder := by decide

theorem sealer_update_closure_shape : Quic.Generated.DcKeyPhase.sealerUpdatesOnlyWhenReliable = true := rfl

end Quic.Proofs.Bridge.DcKeyPhase
