import QuicModel.Dc.StreamRecv
import QuicModel.Dc.StreamSend
import QuicModel.Generated.DcStream
/-
  Tie G for C20: what tools/extractors/dc_stream.py read from /repo *now*
  (dc/s2n-quic-dc/src/stream/{send,recv}/state.rs, recv/error.rs, stream.rs,
  quic/s2n-quic-core/src/{dc/testing.rs, buffer/reassembler.rs}) equals the pinned shape that the
  skeletons `Quic.Dc.StreamSend` / `Quic.Dc.StreamRecv` transcribe and the C20 theorems are proved
  about. A semantic edit of the Rust text (a `max` for a `min`, a dropped duplicate check, an idle
  timer that is no longer armed, another loss threshold …) breaks one of these lemmas.
-/
namespace Quic.Proofs.Bridge.DcStream
open Quic.Generated.DcStream

/-- the idle timeout the simulation runs with is the crate default, and it is the number the
    python oracle bounds "fails within its idle timeout" with (tools/gen/dc_stream_sim.py IDLE_MS) -/
theorem idle_timeout_eq : defaultIdleTimeoutMs = 30000 ∧ testIdleTimeoutMs = 30000 := by decide

/-- the MTU range of the property: dc accepts datagrams up to 2^15 bytes -/
theorem max_datagram_size_eq : maxDatagramSize = 2 ^ 15 := by decide

/-- `cca_offset.min(local_offset).min(remote_offset)` -/
theorem flow_combine_eq : flowCombine = Quic.Dc.StreamSend.flowCombine := by
  funext cca loc remote; rfl

/-- the three operands of `flow_offset` are the ones the skeleton computes -/
theorem flow_operands_eq : flowRemoteIsMaxData = true ∧ flowCcaShape = true ∧ flowLocalShape = true := by decide

/-- MAX_DATA is only ever raised (`StreamSend.step … (.maxData v)` takes the max) -/
theorem max_data_monotone_eq : maxDataRaiseCmp = "<" := by decide

/-- `detect_lost_packets`: packets at or below `max − 2` are lost (`StreamSend.detectLost`) -/
theorem loss_threshold_eq : lossPacketThreshold = 2 := by decide

/-- PTO constants that bound how long a sender keeps probing before its idle timer fires -/
theorem pto_constants_eq : maxPtoBackoff = 1024 ∧ minPtoPeriodMs = 2 := by decide

/-- probes carry no payload, `max_sent_offset`, and a final offset exactly in `DataSent`
    (`StreamSend.probeOne`); retransmissions re-send the stored segment (`StreamSend.retransmitOne`);
    `on_transmit_segment` as in `StreamSend.onTransmitSegment` -/
theorem sender_transmission_shape_eq :
    probeShape = true ∧ retransmitShape = true ∧ retransmitCopyShape = true ∧ transmitSegmentShape = true ∧
    senderIdleArms = true := by decide

/-- `State::new` arms the idle timer (`StreamRecv.init`), `update_idle_timer` re-arms it at
    `now + idle_timeout` (`StreamRecv.updateIdleTimer`) -/
theorem recv_idle_armed_eq : recvNewArmsIdle = true ∧ recvUpdateIdleSets = true := by decide

/-- an accepted packet re-arms the idle timer in `Recv | SizeKnown` or at offset 0 (`StreamRecv.armIdle`) -/
theorem recv_idle_update_cond_eq :
    recvIdleUpdateCond = "matches!(self.state, Receiver::Recv | Receiver::SizeKnown) || packet.stream_offset() == VarInt::ZERO" := by
  decide

/-- `on_timeout` / `poll_idle_timer` as in `StreamRecv.onTimeout` / `onIdleExpired` -/
theorem recv_timeout_shape_eq : recvTimeoutShape = true ∧ recvPollIdleShape = true := by decide

/-- a stream transport (TCP) that closes while the receiver still expects data — before OR after the final size is
    known — is reported as `TruncatedTransport` (the reader must not hang or see a clean end) -/
theorem recv_transport_close_shape_eq : recvTransportCloseShape = true := by decide

/-- the duplicate filter is consulted first (`StreamRecv.onCleartext` starts with `dedupe`) -/
theorem recv_dedupe_eq : recvDedupe = true ∧ recvDedupeBeforeIdle = true := by decide

/-- flow control check and "authenticate before resetting" (`StreamRecv.onStreamPacketImpl`),
    `check_error` (`StreamRecv.checkError`) -/
theorem recv_packet_shape_eq : recvMaxDataShape = true ∧ recvAuthBeforeReset = true ∧ recvCheckErrorShape = true := by decide

/-- `Error::is_fatal`: the kinds `StreamRecv.ErrKind.isFatal` treats as non fatal (credential and
    stream mismatches are not events of the skeleton) -/
theorem non_fatal_kinds_eq :
    nonFatalKinds = ["Decode", "Crypto", "Duplicate", "CredentialMismatch", "StreamMismatch"] := by decide

/-- the reassembler's fallible-reader rollback (`StreamRecv.onStreamPacketImpl`: a failed
    authentication leaves the buffer unchanged) -/
theorem reassembler_rollback_eq : reasmRollback = true ∧ reasmEmptyReaderStillReads = true := by decide

end Quic.Proofs.Bridge.DcStream
