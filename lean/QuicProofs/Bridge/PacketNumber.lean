import QuicModel.Codec.PacketNumber
import QuicModel.Generated.PacketNumber
/-
  Tie G for packet numbers: what tools/extractors/packet_number.py read from /repo *now* equals
  the pinned values / functions the C08 and C05 packet-number theorems are proved about.
  A semantic edit (`<=` → `<`, another threshold, swapped `+=`/`-=`, dropped `!ab`, swapped
  arguments of `derive_truncation_range`, a different cast width) breaks one of these lemmas.
-/
namespace Quic.Proofs.Bridge.PacketNumber
open Quic.Codec.PacketNumber

/-- `PacketNumberLenValue::from_varint` arms: thresholds 2^8-1 … 2^32-1 → U8 … U32 -/
theorem from_varint_arms_eq : Quic.Generated.PacketNumber.fromVarintArms = pinnedArms := by decide
theorem from_varint_default_eq : Quic.Generated.PacketNumber.fromVarintDefaultNone = true := by decide
theorem variants_eq : Quic.Generated.PacketNumber.variants = ["U8", "U16", "U24", "U32"] := by decide

/-- the generated table drives the model's `from_varint` to the same function -/
theorem from_varint_fn_eq (v : Nat) :
    fromVarintWith Quic.Generated.PacketNumber.fromVarintArms v = fromVarint v := by
  rw [from_varint_arms_eq]; rfl

/-- `from_packet_tag`: `tag & 0b11`, arms `k => variant k` -/
theorem len_mask_eq : Quic.Generated.PacketNumber.lenMask = lenMask := by decide
theorem tag_arms_eq :
    Quic.Generated.PacketNumber.tagArms = [0, 1, 2, 3].map (fun k => (k, fromPacketTag k)) := by decide
theorem into_tag_eq : Quic.Generated.PacketNumber.intoTagIsDiscriminant = true := by decide

/-- `bytesize = discriminant + 1`, `bitsize = bytesize * 8` -/
theorem size_params_eq :
    ∀ len, (len + Quic.Generated.PacketNumber.sizeParams.1 = bytesize len) ∧
      (bytesize len * Quic.Generated.PacketNumber.sizeParams.2 = bitsize len) := by
  intro len; exact ⟨rfl, rfl⟩

/-- `truncate_packet_number`: `as u8` / `as u16` / `u24::new_truncated(_ as u32)` / `as u32` -/
theorem truncate_casts_eq :
    Quic.Generated.PacketNumber.truncateCasts = [(0, 8, 8), (1, 16, 16), (2, 32, 24), (3, 32, 32)] := by decide
theorem u24_bits_eq : Quic.Generated.PacketNumber.u24TruncateBits = 24 := by decide
theorem truncate_casts_fn_eq (v : Nat) :
    Quic.Generated.PacketNumber.truncateCasts.map
        (fun (x : Nat × Nat × Nat) => (⟨x.1, v % 2 ^ x.2.1 % 2 ^ x.2.2⟩ : Truncated))
      = [0, 1, 2, 3].map (fun len => truncatePacketNumber len v) := by
  rw [truncate_casts_eq]
  simp [truncatePacketNumber]

/-- `derive_truncation_range`: `pn.checked_sub(la)` → `checked_mul(2)` → `VarInt::new` → `from_varint` -/
theorem derive_chain_eq :
    Quic.Generated.PacketNumber.deriveChain =
      ["checked_sub packet_number largest_acknowledged_packet_number", "checked_mul 2", "varint_new", "from_varint"] := by
  decide
theorem truncate_call_eq : Quic.Generated.PacketNumber.truncateCallOk = true := by decide
theorem next_prev_eq : Quic.Generated.PacketNumber.nextPrevStep = (1, 1) := by decide

/-- `decode_packet_number`, second half: the translated statements are the model's function -/
theorem adjust_candidate_eq :
    Quic.Generated.PacketNumber.adjustCandidate = adjustCandidate := by
  funext mx expected win candidate
  rfl

/-- `decode_packet_number`, first half: `+ 1`, `1 << nbits`, `/ 2`, `- 1`, `(e & !m) | t` -/
theorem decode_prefix_eq : Quic.Generated.PacketNumber.decodePrefix = (1, 1, 2, 1) := by decide
theorem candidate_form_eq : Quic.Generated.PacketNumber.candidateIsAndNotOr = true := by decide
theorem clamp_eq : Quic.Generated.PacketNumber.clampToVarIntMax = true := by decide

/-- the 2^62 bound -/
theorem max_pn_eq : Quic.Generated.PacketNumber.maxPn = maxPn := by decide
theorem max_pn_eq_rfc : Quic.Generated.PacketNumber.maxPn = Quic.Rfc.PacketNumber.maxPn := by decide

end Quic.Proofs.Bridge.PacketNumber
