import QuicModel.Conn.CloseSender
import QuicModel.Generated.CloseSender
/-
  Tie G for C12 (close sender): what tools/extractors/close_sender.py read from
  quic/s2n-quic-transport/src/connection/close_sender.rs *now* still has the shape `Conn.CloseSender` was
  transcribed from. The type is private to s2n-quic-transport (no differential run); its observable behaviour is
  tied by the end-to-end traces (tie T: the wire-level close-copy oracle and the `send-trace` acceptor).
-/
namespace Quic.Proofs.Bridge.CloseSender
open Quic.Generated.CloseSender Quic.Conn.CloseSender

/-- `Limiter`: ignored while debouncing; `factor` datagrams arm the debounce timer for one rtt and double `factor`;
    saturating `u8` counters starting at (1, 0) -/
theorem limiter_shape : limiterOnDatagramShape = true ∧ limiterOnTimeoutShape = true ∧
    limiterDefaults = (({} : Limiter).factor, ({} : Limiter).received) ∧ counterMax = satAdd 255 255 := by decide

/-- `State::on_timeout`: only the close timer ends the state and only an expired debounce timer asks for a
    transmission; `write_payload` sends the stored packet and returns to `Idle` (one copy per arming); `close`
    starts with one transmission due and a fresh limiter; interest exactly while `Closing + Transmitting` -/
theorem state_shape : stateOnTimeoutShape = true ∧ stateOnDatagramShape = true ∧ closeShape = true ∧
    writePayloadShape = true ∧ interestShape = true ∧ transmissionWriteSites = (3, 1) := by decide

/-- the connection feeds the limiter with the active path's latest rtt, from one place -/
theorem driven_by_connection : connDrivesLimiter = true ∧ connDatagramSites = 1 := by decide

end Quic.Proofs.Bridge.CloseSender
