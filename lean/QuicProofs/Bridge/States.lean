import QuicModel.Generated.States
/-
  Tie G for the `event!` machines: the macro of quic/s2n-quic-core/src/state.rs still has the shape `Quic.State.step`
  transcribes (first matching arm, single assignment, NoOp iff exactly ONE arm and already in its target), every machine was
  found, and dc's `send::State::try_finish` still refuses `on_recv_all_acks` once an error was recorded.
  (The machines themselves are not pinned: the C20States theorems are stated about the generated definitions.)
-/
namespace Quic.Proofs.Bridge.States
open Quic.Generated.States

theorem macro_noop_rule : noOpArms = 1 := by decide
theorem macro_first_match : macroFirstMatch = true := by decide
theorem macro_event_arms_in_order : macroEventPassesArmsInOrder = true := by decide
theorem macro_is_matches : macroIsMatches = true := by decide
theorem dc_try_finish_guards_error : dcTryFinishGuardsError = true := by decide

/-- every machine was extracted (a failed extraction leaves the empty state list) and starts where the Rust `#[default]` says -/
theorem machines_found :
    Sender.State.all.length = 7 ∧ Receiver.State.all.length = 6 ∧ DcSendWorker.State.all.length = 4 ∧
    DcRecvWorker.State.all.length = 7 ∧ DcHandshake.State.all.length = 5 ∧ DcManager.State.all.length = 6 := by decide

theorem defaults :
    Sender.init = some .Ready ∧ Receiver.init = some .Recv ∧ DcSendWorker.init = some .Acking ∧
    DcRecvWorker.init = some .Cooldown ∧ DcHandshake.init = none ∧ DcManager.init = none := by decide

end Quic.Proofs.Bridge.States
