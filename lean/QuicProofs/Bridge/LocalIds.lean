import QuicModel.Conn.LocalIds
import QuicModel.Generated.LocalIds
/-
  Tie G for C13 (local connection-id registry): Retire Prior To only ever moves forward. The two assignments of
  `retire_prior_to` in local_id_registry.rs (`on_timeout` for an expiring id, `retire_handshake_connection_id`) both take
  the `max` with the current value, exactly as `Conn.LocalIds.onTimeout` / `retireHandshakeId` do. Without the `max`, ids that
  expire out of sequence-number order move it backwards and an id that was already retired locally is no longer covered:
  the peer then holds more unretired ids than its active_connection_id_limit (`unretired_le_peer_limit` needs the `max`).
-/
namespace Quic.Proofs.Bridge.LocalIds
open Quic.Generated.LocalIds

theorem retire_prior_to_only_grows : retirePriorToAssignments =
    ["self.retire_prior_to.max(id_info.sequence_number+1)", "self.retire_prior_to.max(handshake_id_info.sequence_number+1)"] := by decide

end Quic.Proofs.Bridge.LocalIds
