import QuicModel.Conn.LocalIds
import QuicModel.Generated.LocalIds
/-
  Tie G for C13 (local connection-id registry): Retire Prior To only ever moves forward. The two assignments of
  `retire_prior_to` in local_id_registry.rs (`on_timeout` for an expiring id, `retire_handshake_connection_id`) both take
  the `max` with the current value, exactly as `Conn.LocalIds.onTimeout` / `retireHandshakeId` do. Without the `max`, ids that
  expire out of sequence-number order move it backwards and an id that was already retired locally is no longer covered:
  the peer then holds more unretired ids than its active_connection_id_limit (`unretired_le_peer_limit` needs the `max`).
-/
namespace Quic.Proofs.Bridge.LocalIds
open Quic.Generated.LocalIds

theorem retire_prior_to_only_grows : retirePriorToAssignments =
    ["self.retire_prior_to.max(id_info.sequence_number+1)", "self.retire_prior_to.max(handshake_id_info.sequence_number+1)"] := by decide

/-- After repair f182fcd the frame field is capped at the frame's own sequence number, so no frame carries
    `retire_prior_to > sequence_number` whatever the lifetimes are (RFC 9000 §19.15). MODEL NOTE: `Conn.LocalIds` still
    writes the registry's value uncapped — its limit theorem (`unretired_le_peer_limit`) is proved through "every frame
    carries the registry's Retire Prior To", and `retire_prior_to_le_seq_partial` / `emitted_rpt_le_seq_counterexample`
    describe exactly the behaviour that the repair removes. For the capped field the clause is checked on every real
    trace by the RFC-side oracle and the `cid-trace` acceptor (rule `retire-prior-to`), with per-id lifetimes in the
    scenarios; this lemma pins the capped form so that losing the cap is reported. -/
theorem frame_retire_prior_to_capped : frameRetirePriorTo = "self.retire_prior_to.min(id_info.sequence_number).into()" := by decide

end Quic.Proofs.Bridge.LocalIds
