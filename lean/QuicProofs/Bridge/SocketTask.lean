import QuicModel.Sync.SocketTask
import QuicModel.Generated.SocketTask
/-
  Tie G for C17 (socket tasks): both exits of `poll` in task/tx.rs and task/rx.rs deliver the deferred wake-up, every
  `release_no_wake` sets `pending_wake`, and the `Poll::Pending` arm is the only early `return Poll::Pending`.
-/
namespace Quic.Proofs.Bridge.SocketTask
open Quic.Generated.SocketTask Quic.Sync.SocketTask

theorem tx_shape : (⟨txWakeInPendingArm, txWakeAfterLoop⟩ : Shape) = pinned ∧ txWakeSites = (1, 1, 1) := by decide
theorem rx_shape : (⟨rxWakeInPendingArm, rxWakeAfterLoop⟩ : Shape) = pinned ∧ rxWakeSites = (1, 1, 1) := by decide

end Quic.Proofs.Bridge.SocketTask
