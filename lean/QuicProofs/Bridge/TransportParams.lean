import QuicModel.Codec.TransportParams
import QuicModel.Generated.TransportParams
import QuicModel.Rfc.TransportParams
/-
  Tie G for transport parameters: the table tools/extractors/transport_params.py read from /repo
  *now* (IDs, DisabledParameter-in-client-type, CodecValue types, validator operator + constant,
  defaults, connection-id minimum lengths, order of checks in `decode_parameters`) equals the table
  the C14/C05 theorems are about.  A semantic edit (`<=`→`<`, `20`→`21`, a dropped validator, a
  swapped ID, reordered checks) makes `decide` fail.

  `fields_eq` currently pins the operator of `MaxAckDelay::validate` as found at the pinned commit
  (`<=`, finding F1) through `pinnedKnobs`.
  -- AFTER-FIX: when the one-token fix `<=` → `<` lands in /repo, change `pinnedKnobs` in
  -- QuicModel/Codec/TransportParams.lean to ⟨false, true, 4, 0⟩ (nothing else); `fields_eq` then
  -- ties the code to the model for which `C14.tp_accept_iff_rfc_except` has one deviation less.
-/
namespace Quic.Proofs.Bridge.TransportParams
open Quic.Codec.TransportParams

def cmp? : String → Option Cmp
  | "lt" => some .lt | "le" => some .le | "gt" => some .gt | "ge" => some .ge
  | _ => none

def codec? : String × Nat → Option ValueCodec
  | ("varint", _) => some .varint
  | ("u8", _) => some .u8
  | ("unit", _) => some .unit
  | ("token", _) => some .token
  | ("dcVersions", _) => some .dcVersions
  | ("cid", n) => some (.cid n)
  | ("preferredAddress", n) => some (.preferredAddress n)
  | _ => none

def default? : String × Nat → Option (Option Value)
  | ("none", _) => some none
  | ("versions", _) => some (some (.versions []))
  | ("int", n) => some (some (.int n))
  | _ => none

/-- integer comparisons of a validator; the structural `!self.is_unspecified()` check of
    PreferredAddress is part of the `.preferredAddress` codec's `validate` and is bridged separately -/
def checks? (l : List (String × Nat)) : Option (List (Cmp × Nat)) :=
  (l.filter (fun c => c.1 != "specified")).mapM (fun c => (cmp? c.1).map (fun o => (o, c.2)))

def conv (r : String × Nat × Bool × (String × Nat) × List (String × Nat) × (String × Nat)) : Option Field :=
  match codec? r.2.2.2.1, checks? r.2.2.2.2.1, default? r.2.2.2.2.2 with
  | some c, some ch, some d => some ⟨r.1, r.2.1, r.2.2.1, c, ch, d⟩
  | _, _, _ => none

theorem fields_eq : Quic.Generated.TransportParams.fields.map conv = pinnedFields.map some := by decide

/-- exactly the preferred_address validator is the structural "at least one address specified" check -/
theorem specified_check_eq :
    Quic.Generated.TransportParams.fields.map (fun r => r.2.2.2.2.1.any (fun c => c.1 == "specified"))
      = pinnedFields.map (fun f => match f.codec with | .preferredAddress _ => true | _ => false) := by decide

theorem arm_shape_eq :
    Quic.Generated.TransportParams.armShape = ["enabled", "duplicate", "decode", "validate", "skip"] := by decide
theorem disabled_eq : Quic.Generated.TransportParams.disabledParameterIsNotEnabled = true := by decide
theorem fill_eq : Quic.Generated.TransportParams.valueMustFillDeclaredLength = true := by decide
theorem varints_eq : Quic.Generated.TransportParams.idAndLengthAreVarInts = true := by decide
theorem omit_default_eq : Quic.Generated.TransportParams.encoderOmitsDefault = true := by decide
theorem cid_max_eq : Quic.Generated.TransportParams.cidMaxLen = 20 := by decide
theorem cid_range_eq : Quic.Generated.TransportParams.cidRangeCheckIsMinToMaxInclusive = true := by decide
theorem dc_versions_max_eq : Quic.Generated.TransportParams.dcVersionsMaxLen = 4 := by decide

/-! ### the Lean RFC table vs the offline RFC text (/repo/specs/…/rfc9000/18.2.toml) -/

open Quic.Rfc.TransportParams in
/-- names and ids of `Rfc.TransportParams.rfc9000` are the `name (0xNN):` definitions of §18.2, in order -/
theorem rfc_params_eq :
    rfc9000.map (fun r => (r.name, r.id)) = Quic.Generated.TransportParams.rfcParams := by decide

open Quic.Rfc.TransportParams in
/-- the numbers of the normative sentences are the bounds/defaults of the table rows:
    default 3 / "above 20 invalid"; default 25 / "2^14 or greater invalid"; default 65527 / "below 1200 invalid";
    "at least 2" / default 2; "a sequence of 16 bytes" -/
theorem rfc_numbers_eq :
    Quic.Generated.TransportParams.rfcNumbers =
      (match lookupIn rfc9000 0x0a, lookupIn rfc9000 0x0b, lookupIn rfc9000 0x03, lookupIn rfc9000 0x0e, lookupIn rfc9000 0x02 with
       | some ⟨_, _, .integer _ adeHi, some adeD, _⟩, some ⟨_, _, .integer _ madHi, some madD, _⟩,
         some ⟨_, _, .integer udpLo _, some udpD, _⟩, some ⟨_, _, .integer acidLo _, some acidD, _⟩,
         some ⟨_, _, .bytes n, _, _⟩ =>
         [("ack_delay_exponent.default", adeD), ("ack_delay_exponent.above_invalid", adeHi),
          ("max_ack_delay.default", madD), ("max_ack_delay.pow2_or_greater_invalid", Nat.log2 (madHi + 1)),
          ("max_udp_payload_size.default", udpD), ("max_udp_payload_size.below_invalid", udpLo),
          ("active_connection_id_limit.at_least", acidLo), ("active_connection_id_limit.default", acidD),
          ("stateless_reset_token.bytes", n)]
       | _, _, _, _, _ => []) := by decide

open Quic.Rfc.TransportParams in
/-- max_ack_delay's upper bound is exactly 2^14 - 1 (not merely something with log2 = 14) -/
theorem rfc_max_ack_delay_bound :
    (lookupIn rfc9000 0x0b).map (fun r => r.kind) = some (.integer 0 (2 ^ 14 - 1)) := by decide

open Quic.Rfc.TransportParams in
theorem rfc_server_only_eq :
    (rfc9000.filter (fun r => r.serverOnly)).map (fun r => r.name)
      = ["original_destination_connection_id", "stateless_reset_token", "preferred_address", "retry_source_connection_id"]
    ∧ Quic.Generated.TransportParams.rfcServerOnly
      = ["original_destination_connection_id", "preferred_address", "retry_source_connection_id", "stateless_reset_token"] := by
  decide

end Quic.Proofs.Bridge.TransportParams
