import QuicModel.Codec.TransportParams
import QuicModel.Generated.TransportParams
/-
  Tie G for transport parameters: the table tools/extractors/transport_params.py read from /repo
  *now* (IDs, DisabledParameter-in-client-type, CodecValue types, validator operator + constant,
  defaults, connection-id minimum lengths, order of checks in `decode_parameters`) equals the table
  the C14/C05 theorems are about.  A semantic edit (`<=`→`<`, `20`→`21`, a dropped validator, a
  swapped ID, reordered checks) makes `decide` fail.

  `fields_eq` currently pins the operator of `MaxAckDelay::validate` as found at the pinned commit
  (`<=`, finding F1) through `pinnedKnobs`.
  -- AFTER-FIX: when the one-token fix `<=` → `<` lands in /repo, change `pinnedKnobs` in
  -- QuicModel/Codec/TransportParams.lean to ⟨false, true, 4, 0⟩ (nothing else); `fields_eq` then
  -- ties the code to the model for which `C14.tp_accept_iff_rfc_except` has one deviation less.
-/
namespace Quic.Proofs.Bridge.TransportParams
open Quic.Codec.TransportParams

def cmp? : String → Option Cmp
  | "lt" => some .lt | "le" => some .le | "gt" => some .gt | "ge" => some .ge
  | _ => none

def codec? : String × Nat → Option ValueCodec
  | ("varint", _) => some .varint
  | ("u8", _) => some .u8
  | ("unit", _) => some .unit
  | ("token", _) => some .token
  | ("dcVersions", _) => some .dcVersions
  | ("cid", n) => some (.cid n)
  | ("preferredAddress", n) => some (.preferredAddress n)
  | _ => none

def default? : String × Nat → Option (Option Value)
  | ("none", _) => some none
  | ("versions", _) => some (some (.versions []))
  | ("int", n) => some (some (.int n))
  | _ => none

/-- integer comparisons of a validator; the structural `!self.is_unspecified()` check of
    PreferredAddress is part of the `.preferredAddress` codec's `validate` and is bridged separately -/
def checks? (l : List (String × Nat)) : Option (List (Cmp × Nat)) :=
  (l.filter (fun c => c.1 != "specified")).mapM (fun c => (cmp? c.1).map (fun o => (o, c.2)))

def conv (r : String × Nat × Bool × (String × Nat) × List (String × Nat) × (String × Nat)) : Option Field :=
  match codec? r.2.2.2.1, checks? r.2.2.2.2.1, default? r.2.2.2.2.2 with
  | some c, some ch, some d => some ⟨r.1, r.2.1, r.2.2.1, c, ch, d⟩
  | _, _, _ => none

theorem fields_eq : Quic.Generated.TransportParams.fields.map conv = pinnedFields.map some := by decide

/-- exactly the preferred_address validator is the structural "at least one address specified" check -/
theorem specified_check_eq :
    Quic.Generated.TransportParams.fields.map (fun r => r.2.2.2.2.1.any (fun c => c.1 == "specified"))
      = pinnedFields.map (fun f => match f.codec with | .preferredAddress _ => true | _ => false) := by decide

theorem arm_shape_eq :
    Quic.Generated.TransportParams.armShape = ["enabled", "duplicate", "decode", "validate", "skip"] := by decide
theorem disabled_eq : Quic.Generated.TransportParams.disabledParameterIsNotEnabled = true := by decide
theorem fill_eq : Quic.Generated.TransportParams.valueMustFillDeclaredLength = true := by decide
theorem varints_eq : Quic.Generated.TransportParams.idAndLengthAreVarInts = true := by decide
theorem omit_default_eq : Quic.Generated.TransportParams.encoderOmitsDefault = true := by decide
theorem cid_max_eq : Quic.Generated.TransportParams.cidMaxLen = 20 := by decide
theorem cid_range_eq : Quic.Generated.TransportParams.cidRangeCheckIsMinToMaxInclusive = true := by decide
theorem dc_versions_max_eq : Quic.Generated.TransportParams.dcVersionsMaxLen = 4 := by decide

end Quic.Proofs.Bridge.TransportParams
