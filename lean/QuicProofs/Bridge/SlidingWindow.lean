import QuicModel.Data.SlidingWindow
import QuicModel.Data.PnMap
import QuicModel.Generated.SlidingWindow
/-
  Tie G for the duplicate window and the packet-number map: what tools/extractors/sliding_window.py
  read from /repo *now* equals the pinned values/guards the C16 theorems are proved about.
  A semantic edit of WINDOW_WIDTH, of a guard (`>=`/`<`), of a shift amount or of one of the
  pinned statements makes one of these lemmas fail.
-/
namespace Quic.Proofs.Bridge.SlidingWindow
open Quic.Data.SlidingWindow
namespace G
export Quic.Generated.SlidingWindow (windowBits windowWidth positionArms rightEdgeDelta leftGuard
  distanceIsRightMinusPn rightDeltaIsPnMinusRight shiftGuard fullMaskDelta removedIsNotWindowAndMask
  shiftIsCheckedShlOrZero resetBranch rightEdgeReplaced withinDuplicateTest emptySetsRightEdge
  insertLeftTooOld setBitOffset checkArms checkBitOffset evictedShiftAndWidth mapDefaultCapacity
  mapIsEmptyIsIndexEqLen mapInsertPrecondition mapInsertOrUpdatePrecondition mapIndexArithmetic
  mapPnIndex mapResizeDoubling mapRemoveBounds mapRemoveRangeCases mapRemoveRangeOverlapTest
  mapInsertOrUpdateEnd)
end G

theorem window_bits_eq : G.windowBits = windowBits := by decide
theorem window_width_eq : G.windowWidth = windowWidth := by decide
theorem max_is_all_ones : windowMax + 1 = 2 ^ G.windowBits := by decide

/-- `window_position`: arm order/targets, the `Some(0)` literal, the `Left` guard as a function -/
theorem position_arms_eq : G.positionArms = ["RightEdge", "Left", "Within", "Right"] := by decide
theorem right_edge_delta_eq : G.rightEdgeDelta = 0 := by decide
theorem left_guard_eq : G.leftGuard = leftGuard := by
  funext d; rfl
theorem distances_eq : (G.distanceIsRightMinusPn && G.rightDeltaIsPnMinusRight) = true := by decide

/-- `insert_with_evicted_inner` -/
theorem shift_guard_eq : G.shiftGuard = shiftGuard := by
  funext d; rfl
theorem full_mask_delta_eq : G.fullMaskDelta = 128 := by decide
theorem set_bit_offset_eq : ∀ d, d - G.setBitOffset.1 = d - 1 ∧ 1 <<< (d - G.setBitOffset.2) = bitOf d := by
  intro d; exact ⟨rfl, rfl⟩
theorem insert_statements_eq :
    (G.removedIsNotWindowAndMask && G.shiftIsCheckedShlOrZero && G.resetBranch && G.rightEdgeReplaced
      && G.withinDuplicateTest && G.emptySetsRightEdge && G.insertLeftTooOld) = true := by decide

/-- `check` -/
theorem check_arms_eq : G.checkArms = ["TooOld", "Duplicate", "Duplicate"] := by decide
theorem check_bit_offset_eq : ∀ d, 1 <<< (d - G.checkBitOffset) = bitOf d := by intro d; rfl

/-- `EvictedSet::next` -/
theorem evicted_eq : G.evictedShiftAndWidth = (1, windowWidth) := by decide

/-- packet-number map -/
theorem map_default_capacity_eq : G.mapDefaultCapacity = Quic.Data.PnMap.defaultCapacity := by decide
theorem map_statements_eq :
    (G.mapIsEmptyIsIndexEqLen && G.mapInsertPrecondition && G.mapInsertOrUpdatePrecondition
      && G.mapIndexArithmetic && G.mapPnIndex && G.mapResizeDoubling && G.mapRemoveBounds
      && G.mapRemoveRangeCases && G.mapRemoveRangeOverlapTest && G.mapInsertOrUpdateEnd) = true := by decide

end Quic.Proofs.Bridge.SlidingWindow
