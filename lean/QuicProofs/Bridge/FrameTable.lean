import QuicModel.Stream.RecvFlow
import QuicModel.Generated.FrameTable
/-
  Tie G for C04: what tools/extractors/frame_table.py read from /repo *now* equals the pinned facts the model
  `Quic.Stream.RecvFlow` / `Quic.Conn.FrameTable` transcribes.  An edit of a comparison (`>` -> `>=`), of an
  error constant (FLOW_CONTROL_ERROR -> ...), of the per-space handler set (a space starts to accept
  HANDSHAKE_DONE ...), of a decoder bound or of the advertised-value formula breaks a `decide` below.
-/
namespace Quic.Proofs.Bridge.FrameTable
open Quic.Conn Quic.Stream.RecvFlow
open Quic.Generated.FrameTable
open Quic.Rfc (ErrorCode)

/-! ### frames per space -/
theorem overrides_eq :
    overrides = [("initial", pinnedOverrides .initial), ("handshake", pinnedOverrides .handshake),
                 ("application", pinnedOverrides .application)] := by decide

theorem closeTagOnly_eq :
    closeTagOnly = [("initial", (pinnedCloseTagOnly .initial).map (·, "PROTOCOL_VIOLATION")),
                    ("handshake", (pinnedCloseTagOnly .handshake).map (·, "PROTOCOL_VIOLATION")),
                    ("application", none)] := by decide

theorem dispatch_eq : dispatch = Pinned.dispatch := by decide
theorem inlineFrames_eq : inlineFrames = ["Padding", "Ping"] := by decide
theorem required_eq : required = ["ack", "connection_close", "crypto"] := by decide
theorem defaultAccepting_eq : defaultAccepting = ["mtu_probing_complete"] := by decide
theorem defaultRejecting_eq :
    defaultRejecting = Pinned.defaultRejecting.map (·, "PROTOCOL_VIOLATION") := by decide
theorem roleChecks_eq :
    roleChecks = [("handshake_done", "PROTOCOL_VIOLATION"), ("new_token", "PROTOCOL_VIOLATION")] := by decide

/-- the model's handler names are the ones the dispatch really uses -/
theorem handlerOf_in_dispatch :
    ∀ t ∈ Quic.Rfc.FrameType.all, ∀ h, handlerOf t = some h → (dispatch.map (·.2)).contains h = true := by decide

/-- every handler is either required, rejecting by default or accepting by default -/
theorem handlers_partition :
    (dispatch.map (·.2)).all (fun h => required.contains h || (defaultRejecting.map (·.1)).contains h
      || defaultAccepting.contains h) = true := by decide

/-! ### checks: comparison and error constant -/
theorem checkStreamWindow_eq : checkStreamWindow = Pinned.checkStreamWindow := by decide
theorem checkConnWindow_eq : checkConnWindow = Pinned.checkConnWindow := by decide
theorem checkDataOverflow_eq : checkDataOverflow = Pinned.checkDataOverflow := by decide
theorem checkOutOfRange_eq : checkOutOfRange = Pinned.checkOutOfRange := by decide
theorem checkInvalidFin_eq : checkInvalidFin = Pinned.checkInvalidFin := by decide
theorem checkResetFinalSize_eq : checkResetFinalSize = Pinned.checkResetFinalSize := by decide
theorem checkStreamLimit_eq : checkStreamLimit = Pinned.checkStreamLimit := by decide
theorem checkLocalUnopened_eq : checkLocalUnopened = Pinned.checkLocalUnopened := by decide
theorem checkMaxStreamDataRecvOnly_eq : checkMaxStreamDataRecvOnly = Pinned.checkMaxStreamDataRecvOnly := by decide
theorem checkRetireSeq_eq : checkRetireSeq = Pinned.checkRetireSeq := by decide
theorem checkRetireDcid_eq : checkRetireDcid = Pinned.checkRetireDcid := by decide
theorem retireErrorCode_eq : retireErrorCode = Pinned.retireErrorCode := by decide
theorem decoderErrorCode_eq : decoderErrorCode = Pinned.decoderErrorCode := by decide
theorem ncidRetireInvariant_eq : ncidRetireInvariant = Pinned.ncidRetireInvariant := by decide
theorem ncidLenRange_eq : ncidLenRange = Pinned.ncidLenRange := by decide
theorem maxStreamsDecoderBound_eq : maxStreamsDecoderBound = maxStreamsMax := by decide
theorem streamsBlockedDecoderBound_eq : streamsBlockedDecoderBound = maxStreamsMax := by decide
theorem maxStreamsMaxValue_eq : maxStreamsMaxValue = maxStreamsMax := by decide

/-! ### formulas of the advertised values -/
theorem advertise_formulas :
    streamAdvertiseIsReleasedPlusDesired = true ∧ connAdvertiseIsConsumedPlusDesired = true
    ∧ releaseOutstandingIsAcquiredMinusReleased = true ∧ streamDesiredIsInitialWindow = true
    ∧ connDesiredIsInitialWindow = true ∧ maxStreamsIsSyncedPlusLimitPlusRefillCapped = true := by decide

/-! ### the numeric codes of `impl_errors!` are RFC 9000 §20.1's -/
theorem errorCodes_eq :
    errorCodes.map (fun p => (Pinned.codeOfName p.1).map ErrorCode.toNat) = errorCodes.map (fun p => some p.2) := by decide

/-! ### the model uses the pinned comparisons and constants -/
theorem model_stream_window (f : StreamFc) (c : ConnFc) (off : Nat) :
    Pinned.checkStreamWindow = (">", "FLOW_CONTROL_ERROR")
    ∧ (off > f.latest → f.acquireUpTo c off = .error .flowControlError) := by
  refine ⟨rfl, fun h => ?_⟩
  simp [StreamFc.acquireUpTo, h]

theorem model_conn_window (c : ConnFc) (n : Nat) :
    Pinned.checkConnWindow = ("<", "FLOW_CONTROL_ERROR")
    ∧ (c.latest - c.acquired < n → c.acquire n = .error .flowControlError) := by
  refine ⟨rfl, fun h => ?_⟩
  simp [ConnFc.acquire, ConnFc.remaining, h]

theorem model_stream_limit (r : RemoteInitiated) (idx : Nat) :
    Pinned.checkStreamLimit = (">=", "STREAM_LIMIT_ERROR")
    ∧ (idx ≥ r.latest → r.onRemoteOpen idx = .error .streamLimitError) := by
  refine ⟨rfl, fun h => ?_⟩
  simp [RemoteInitiated.onRemoteOpen, h]

theorem model_advertise (f : StreamFc) (c : ConnFc) (n : Nat) :
    (f.release c n).1.latest = satAdd (f.released + n) f.desired
    ∧ (f.release c n).2.latest = satAdd (c.consumed + n) c.desired := ⟨rfl, rfl⟩

end Quic.Proofs.Bridge.FrameTable
