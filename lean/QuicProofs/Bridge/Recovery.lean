import QuicModel.Recovery.Loss
import QuicModel.Recovery.Rtt
import QuicModel.Recovery.Pto
import QuicModel.Generated.Recovery
/-
  Tie G for C09: the Lean text that tools/extractors/recovery.py translated from /repo's Rust
  source *now* equals the hand-written model the C09 theorems are proved about.  A semantic edit
  of the Rust functions (`<` ↔ `<=`, a dropped `max`, another constant or weight, a swapped
  branch) changes the generated definitions and these proofs stop checking.
-/
namespace Quic.Proofs.Bridge.Recovery
open Quic.Recovery
namespace G
export Quic.Generated.Recovery (K_PACKET_THRESHOLD DEFAULT_INITIAL_RTT MIN_RTT ZERO_DURATION K_GRANULARITY
  K_PERSISTENT_CONGESTION_THRESHOLD hasElapsed detect weightedAverage newWithMaxAckDelay rttvar4x updateRtt
  calculateBasePtoMicros ptoPeriod persistentCongestionThreshold lossTimeThreshold onPersistentCongestion)
end G

theorem k_packet_threshold_eq : G.K_PACKET_THRESHOLD = Loss.K_PACKET_THRESHOLD := by decide
theorem default_initial_rtt_eq : G.DEFAULT_INITIAL_RTT = Rtt.DEFAULT_INITIAL_RTT := by decide
theorem min_rtt_eq : G.MIN_RTT = Rtt.MIN_RTT := by decide
theorem zero_duration_eq : G.ZERO_DURATION = Rtt.ZERO_DURATION := by decide
theorem k_granularity_eq : G.K_GRANULARITY = Rtt.K_GRANULARITY ∧ G.K_GRANULARITY = Time.K_GRANULARITY_NS := by decide
theorem k_persistent_congestion_threshold_eq :
    G.K_PERSISTENT_CONGESTION_THRESHOLD = Rtt.K_PERSISTENT_CONGESTION_THRESHOLD := by decide
theorem granularity_us_eq : Rtt.u64 (G.K_GRANULARITY / 1000) = Time.K_GRANULARITY_US := by decide
theorem new_uses_zero_mad : Quic.Generated.Recovery.newUsesZeroMaxAckDelay = true := by decide
theorem timestamp_add_truncates : Quic.Generated.Recovery.timestampAddTruncatesToMicros = true := by decide

/-- `Timestamp::has_elapsed` -/
theorem hasElapsed_eq : G.hasElapsed = Time.hasElapsed := by
  funext s n
  simp only [Quic.Generated.Recovery.hasElapsed, Time.hasElapsed, granularity_us_eq]

/-- `loss::detect` -/
theorem detect_eq : G.detect = Loss.detect := by
  funext thr sent k pn la now
  simp only [Quic.Generated.Recovery.detect, Loss.detect, hasElapsed_eq]

theorem weightedAverage_eq : G.weightedAverage = Rtt.weightedAverage := by
  funext a b w
  rfl

theorem newWithMaxAckDelay_eq : G.newWithMaxAckDelay = Rtt.newWithMaxAckDelay := by
  funext m i
  simp only [Quic.Generated.Recovery.newWithMaxAckDelay, Rtt.newWithMaxAckDelay, min_rtt_eq]

theorem rttvar4x_eq : G.rttvar4x = Rtt.rttvar4x := by
  funext r
  rfl

/-- `RttEstimator::update_rtt` -/
theorem updateRtt_eq : G.updateRtt = Rtt.updateRtt := by
  funext r ad s ts conf sp
  cases conf <;> cases sp <;>
    simp [Quic.Generated.Recovery.updateRtt, Rtt.updateRtt, Rtt.finishUpdate, Rtt.applyAdjusted, weightedAverage_eq, min_rtt_eq,
      zero_duration_eq, Rtt.Space.isInitial, Rtt.ZERO_DURATION] <;>
    (repeat' split) <;> simp_all

theorem calculateBasePtoMicros_eq : G.calculateBasePtoMicros = Rtt.calculateBasePtoMicros := by
  funext r b sp
  cases sp <;>
    simp [Quic.Generated.Recovery.calculateBasePtoMicros, Rtt.calculateBasePtoMicros, rttvar4x_eq, k_granularity_eq.1,
      Rtt.Space.isApplicationData]

theorem ptoPeriod_eq : G.ptoPeriod = Rtt.ptoPeriod := by
  funext r b sp
  simp only [Quic.Generated.Recovery.ptoPeriod, Rtt.ptoPeriod, calculateBasePtoMicros_eq, k_granularity_eq.1]

theorem persistentCongestionThreshold_eq : G.persistentCongestionThreshold = Rtt.persistentCongestionThreshold := by
  funext r
  simp only [Quic.Generated.Recovery.persistentCongestionThreshold, Rtt.persistentCongestionThreshold, rttvar4x_eq,
    k_granularity_eq.1, k_persistent_congestion_threshold_eq]

theorem lossTimeThreshold_eq : G.lossTimeThreshold = Rtt.lossTimeThreshold := by
  funext r
  simp only [Quic.Generated.Recovery.lossTimeThreshold, Rtt.lossTimeThreshold, k_granularity_eq.1]

theorem onPersistentCongestion_eq : G.onPersistentCongestion = Rtt.onPersistentCongestion := by
  funext r
  rfl

/-- `Pto` tokens -/
theorem pto_probe_counts : Quic.Generated.Recovery.ptoProbeCounts = (2, 1) := by decide
theorem pto_timeout_guarded : Quic.Generated.Recovery.ptoTimeoutGuardedByTimer = true := by decide
theorem pto_on_transmit_arms : Quic.Generated.Recovery.ptoOnTransmitArms = true := by decide
theorem pto_update_sets : Quic.Generated.Recovery.ptoUpdateSetsBasePlusPeriod = true := by decide
theorem timer_expired_uses_has_elapsed : Quic.Generated.Recovery.timerExpiredUsesHasElapsed = true := by decide

end Quic.Proofs.Bridge.Recovery
