import QuicModel.Conn.KeyChain
import QuicModel.Generated.KeyChain
/-
  Tie G for the C15 key chain: what tools/extractors/keychain.py read from /repo *now*
    * every cipher suite of s2n-quic-crypto feeds HKDF the RFC 8446 §7.1 HkdfLabel of
      "quic key" / "quic iv" / "quic hp" / "quic ku" with the lengths RFC 9001 §5.1, §5.4.1, §6.1
      prescribe (the key-update label as long as the suite's hash: the next secret replaces the
      current one), computed here independently from the label text;
    * the key-update code has the shape the chain assumption (`ChainOK`) relies on: the next
      secret is expanded from the CURRENT secret, key and iv from the NEW secret, both directions
      are updated, the client seals with the client secret, and the rustls provider stores the
      ADVANCED secrets in the derived key.
  A semantic edit (wrong label, wrong length, derive from the wrong secret, clone instead of
  update, swapped directions) makes these fail to elaborate.
-/
namespace Quic.Proofs.Bridge.KeyChain
open Quic.Conn.KeyChain

def lab (n : String) : Option (List Nat) := (Quic.Generated.KeyChain.labels.find? (fun x => x.1 == n)).map (·.2)

def digestLen : String → Option Nat
  | "HKDF_SHA256" => some 32
  | "HKDF_SHA384" => some 48
  | _ => none

def aeadOf : String → Option String
  | "TLS_AES_128_GCM_SHA256" => some "AES_128_GCM"
  | "TLS_AES_256_GCM_SHA384" => some "AES_256_GCM"
  | "TLS_CHACHA20_POLY1305_SHA256" => some "CHACHA20_POLY1305"
  | _ => none

/-- one `impl_cipher_suite!` invocation follows RFC 9001 -/
def suiteOk (x : String × String × String × Nat × String × String × String × String) : Bool :=
  match x with
  | (name, digest, aead, klen, kl, il, hl, ul) =>
    match rfcLabels name, suiteParams name, digestLen digest with
    | some (k, i, h, u), some (hashLen, keyLen), some d =>
      d == hashLen && klen == keyLen && aeadOf name == some aead &&
        lab kl == some k && lab il == some i && lab hl == some h && lab ul == some u
    | _, _, _ => false

theorem suites_follow_rfc9001 :
    (Quic.Generated.KeyChain.suites.map (·.1)) =
        ["TLS_AES_128_GCM_SHA256", "TLS_AES_256_GCM_SHA384", "TLS_CHACHA20_POLY1305_SHA256"] ∧
      Quic.Generated.KeyChain.suites.all suiteOk = true := by decide

/-- the HkdfLabel encoder reproduces the byte strings RFC 9001 Appendix A.1 prints -/
theorem hkdfLabel_rfc9001_a1 :
    hkdfLabel 16 quicKey = [0x00, 0x10, 0x0e, 0x74, 0x6c, 0x73, 0x31, 0x33, 0x20, 0x71, 0x75, 0x69, 0x63, 0x20, 0x6b, 0x65, 0x79, 0x00] ∧
      hkdfLabel 12 quicIv = [0x00, 0x0c, 0x0d, 0x74, 0x6c, 0x73, 0x31, 0x33, 0x20, 0x71, 0x75, 0x69, 0x63, 0x20, 0x69, 0x76, 0x00] ∧
      hkdfLabel 16 quicHp = [0x00, 0x10, 0x0d, 0x74, 0x6c, 0x73, 0x31, 0x33, 0x20, 0x71, 0x75, 0x69, 0x63, 0x20, 0x68, 0x70, 0x00] := by
  decide

theorem key_update_code_shape :
    Quic.Generated.KeyChain.suiteUpdate = true ∧ Quic.Generated.KeyChain.suiteKeyFromSecret = true ∧
      Quic.Generated.KeyChain.pairDirections = true ∧ Quic.Generated.KeyChain.pairUpdate = true ∧
      Quic.Generated.KeyChain.negotiatedUpdate = true ∧ Quic.Generated.KeyChain.oneRttDerive = true ∧
      Quic.Generated.KeyChain.rustlsDerive = true := by decide

end Quic.Proofs.Bridge.KeyChain
