import QuicModel.Conn.KeySet
import QuicModel.Generated.KeySet
/-
  Tie G for C15: what tools/extractors/keyset.py read from /repo *now* equals the pinned definitions
  the C15 theorems are proved about. A semantic edit (`>=` -> `>`, dropped `saturating_sub`, another
  window / limit) makes these fail to elaborate.
-/
namespace Quic.Proofs.Bridge.KeySet
open Quic.Conn.KeySet

theorem expired_eq (g e l : Nat) : Quic.Generated.KeySet.expired e l = Slot.expired ⟨g, e, l⟩ := rfl

theorem needs_update_eq (g e l w : Nat) : Quic.Generated.KeySet.needsUpdate e l w = Slot.needsUpdate ⟨g, e, l⟩ w := rfl

theorem integrity_reached_eq (f l : Nat) : Quic.Generated.KeySet.integrityReached f l = integrityReached f l := rfl

theorem timer_expired_eq (d n : Nat) : Quic.Generated.KeySet.timerExpired d n = timerExpired d n := rfl

theorem generation_max_eq : 2 ^ Quic.Generated.KeySet.generationBits - 1 = generationMax := by decide

theorem key_update_window_eq : Quic.Generated.KeySet.keyUpdateWindow = 10000 := rfl

/-- RFC 9001 §6.6 / Appendix B: AES-GCM 2^23 / 2^52, ChaCha20-Poly1305 (2^62) / 2^36 -/
theorem cipher_limits_eq :
    Quic.Generated.KeySet.cipherLimits =
      [("TLS_AES_128_GCM_SHA256", 2 ^ 23, 2 ^ 52), ("TLS_AES_256_GCM_SHA384", 2 ^ 23, 2 ^ 52),
       ("TLS_CHACHA20_POLY1305_SHA256", 2 ^ 62, 2 ^ 36)] := by decide

/-- the production window lies strictly inside every suite's confidentiality limit, so a key update
    is initiated (`needs_update`) at least 2 packets before `expired` -/
theorem window_inside_every_limit :
    ∀ x ∈ Quic.Generated.KeySet.cipherLimits,
      2 ≤ Quic.Generated.KeySet.keyUpdateWindow ∧ Quic.Generated.KeySet.keyUpdateWindow + 2 ≤ x.2.1 := by decide

end Quic.Proofs.Bridge.KeySet
