import QuicModel.Conn.Wakers
import QuicModel.Generated.TxWake
/-
  Tie G for C02 (write waiter, reset paths): the wake guards of `on_internal_reset` / `on_stop_sending`, translated from /repo's
  text (tools/extractors/tx_wake.py), are the ones of the model (`WriteWaiter.onInternalReset` wakes whatever `init_reset`
  answered; `WriteWaiter.onStopSending` wakes iff the reset was initiated by the frame), for all arguments; the statement shapes
  of the reset acknowledgement, of the reset+flush request and of `init_reset` / `wake` are the pinned ones.
-/
namespace Quic.Proofs.Bridge.TxWake
open Quic.Generated.TxWake Quic.Conn.Wakers Quic.Conn.Wakers.WriteWaiter

theorem internal_reset_always_wakes (initiated : Bool) : internalResetWakes initiated = true := by
  cases initiated <;> rfl

theorem stop_sending_wakes_iff_initiated (initiated : Bool) : stopSendingWakes initiated = initiated := by
  cases initiated <;> rfl

/-- the model's handlers are the translated guards -/
theorem model_internal_reset_eq (s : State) :
    onInternalReset s = (if internalResetWakes (initReset s true).2 then wake (initReset s true).1 else ((initReset s true).1, false)) := by
  rw [internal_reset_always_wakes]; rfl

theorem model_stop_sending_eq (s : State) :
    onStopSending s = (if stopSendingWakes (initReset s false).2 then wake (initReset s false).1 else ((initReset s false).1, false)) := by
  rw [stop_sending_wakes_iff_initiated]; rfl

theorem shape : internalResetWakesSource = true ∧ stopSendingWakesSource = true ∧ resetAckWakes = true ∧ resetFlushParks = true ∧
    initResetNotNecessaryWhenReset = true ∧ wakeTakesWaiter = true := by decide

end Quic.Proofs.Bridge.TxWake
