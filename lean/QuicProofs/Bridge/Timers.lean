import QuicModel.Conn.IdleTimer
import QuicModel.Conn.PtoArmed
import QuicModel.Sync.PeriodicSync
import QuicModel.Generated.Timers
/-
  Tie G for C02: what tools/extractors/timers.py read from /repo *now* equals the pinned shapes the C02
  theorems are proved about.  A semantic edit (3 → 2 probe timeouts, `max` → `min`, a dropped restart of the idle
  timer, a changed / added / removed guard of `update_pto_timer`, `value_ackd_up_to` assigned outside
  `on_packet_ack`, …) breaks a `decide` here.
-/
namespace Quic.Proofs.Bridge.Timers
open Quic.Generated.Timers

/-- `get_idle_timer_duration`: `max(negotiated, 3 · PTO)` in whole milliseconds, PTO = application-space PTO -/
theorem idle_multiplier_eq : idlePtoMultiplier = Quic.Conn.IdleTimer.PTO_MULTIPLIER := by decide
theorem idle_combinator_is_max : idleCombinator = 1 := by decide
theorem idle_millis_arithmetic : idleMillisArithmetic = true ∧ idlePtoIsApplicationPto = true := by decide

/-- the two restart rules and the expiry report, and nothing else writes the idle timer -/
theorem idle_restart_rules : processedRestartsIdle = true ∧ sendRestartsIdleOnce = true ∧ sendHookPerBurst = true ∧
    idleTimerWriteSites = (1, 2) ∧ idleExpiryReported = true := by decide

/-- defaults: 30 s idle timeout; 10 s handshake duration, armed at creation and reported (what covers the
    "no packet processed yet" gap of `idle_not_armed_before_first_processed_packet`) -/
theorem idle_default_eq : maxIdleTimeoutDefaultMs = Quic.Conn.IdleTimer.DEFAULT_MAX_IDLE_TIMEOUT_MS := by decide
theorem handshake_duration_default_eq :
    maxHandshakeDurationDefaultSecs = Quic.Conn.IdleTimer.MAX_HANDSHAKE_DURATION_DEFAULT_SECS ∧ handshakeDurationReported = true := by decide

/-- `update_pto_timer`: the four guards in this order, each `cancel(); return`, then arm -/
theorem update_pto_guards_eq : updatePtoGuards = Quic.Conn.PtoArmed.UPDATE_PTO_GUARDS ∧
    updatePtoGuardsCancel = [true, true, true, true] ∧ updatePtoArms = true := by decide

/-- `check_consistency` and the timers it counts; the PTO expiry and the burst end re-arm -/
theorem check_consistency_eq : timerRequiredSteps = Quic.Conn.PtoArmed.TIMER_REQUIRED_STEPS ∧ consistencyAsserted = true ∧
    armedTimerIsLossElsePto = true ∧ ptoExpiryDoublesAndRearms = true ∧ burstCompleteUpdates = true := by decide

/-- `IncrementalValueSync`: `value_ackd_up_to` is assigned in `on_packet_ack` only; loss re-requests the latest
    value; a transmission writes the latest value and records the packet -/
theorem value_sync_shape : ivsAckdAssignments = [0, 0, 0, 0, 0, 1, 0, 0, 1] ∧ ivsAckShape = true ∧ ivsLossShape = true ∧
    ivsTransmitShape = true ∧ ivsShouldSendShape = true := by decide

/-- `PeriodicSync` -/
theorem periodic_sync_shape : periodicDefaults = (Quic.Sync.PeriodicSync.DEFAULT_SYNC_PERIOD_US / 1000, Quic.Sync.PeriodicSync.INITIAL_BACKOFF) ∧
    periodicShape = true := by decide

end Quic.Proofs.Bridge.Timers
