import QuicModel.Conn.Amplification
import QuicModel.Conn.StatelessReset
import QuicModel.Conn.VersionNeg
import QuicModel.Conn.InitialPadding
import QuicModel.Generated.Amplification
/-
  Tie G for C11: what tools/extractors/amplification.py reads from /repo *now* equals the pinned
  constants / comparison operators / statement shapes the C11 models transcribe. A semantic edit
  (multiplier 3 -> 4, `saturating_sub(1)` -> `(0)`, `< 1200` -> `<= 1199`/`< 1100`, Version Negotiation
  arm no longer returning Ok, a padding assignment removed) makes one of these fail to elaborate.
-/
namespace Quic.Proofs.Bridge.Amplification
open Quic.Conn
namespace G
export Quic.Generated.Amplification (multiplier limitsDefaultUsesMultiplier managerPassesLimitsMultiplier minimumMaxDatagramSize
  counterIsSaturatingU32 serverStartsLimitedAtZero recvAddsSaturatingMulAsU32 recvUnblockedIsWasAndNotNow sendSubtractsAsU32
  sendAssertsNotLimited validatedNeverLimited limitCmp handshakePacketValidates constraintChecksLimitFirst canTransmitRequiresNotLimited
  minLenWithoutTagParts minLenAddsTag tokenLen maxLenSub noneCmp bitsRangeIsMinMaxMinusToken bitsDrawIsGenRangeBiased firstByteTag
  genRangeBiasedShape dispatchBufferIsMinDatagram supportedVersions vnMinLenCmp vnNeverForVn vnClientForwards vnInitialArm vnZeroRttArm
  vnOtherKindsForwarded vnQueueGuard serverInitialMinCmp padSpaceSelection padTargetIsRemainingCapacity
  serverNonElicitingInitialCancelsPadding datagramLenCounted clampBeforeWrite minimumPacketLenPlus minimumPayloadLenFromPacketLen)
end G

/- the allowance counter -/
theorem multiplier_eq : G.multiplier = Amplification.multiplier := by decide
theorem multiplier_wiring : (G.limitsDefaultUsesMultiplier && G.managerPassesLimitsMultiplier) = true := by decide
theorem min_datagram_eq : G.minimumMaxDatagramSize = Amplification.minimumMaxDatagramSize
    ∧ G.minimumMaxDatagramSize = VersionNeg.minimumMaxDatagramSize := by decide
theorem counter_shape : (G.counterIsSaturatingU32 && G.serverStartsLimitedAtZero && G.recvAddsSaturatingMulAsU32
    && G.recvUnblockedIsWasAndNotNow && G.sendSubtractsAsU32 && G.sendAssertsNotLimited && G.validatedNeverLimited
    && G.handshakePacketValidates && G.constraintChecksLimitFirst && G.canTransmitRequiresNotLimited) = true := by decide
/-- `at_amplification_limit` is `tx_allowance == 0` -/
theorem limit_cmp_eq : G.limitCmp = ("==", 0) := by decide

/- stateless reset -/
theorem sreset_min_len_eq :
    G.minLenWithoutTagParts = [StatelessReset.tagByteLen, StatelessReset.packetNumberMaxLen, StatelessReset.connectionIdMaxLen, 1]
    ∧ G.minLenAddsTag = true ∧ G.tokenLen = StatelessReset.tokenLen := by decide
/-- `max_len = trigger.saturating_sub(1).min(buf)` and `if max_len < min_len { None }` -/
theorem sreset_max_len_eq : G.maxLenSub = 1 ∧ G.noneCmp = "<" := by decide
theorem sreset_max_len_fn (trig buf : Nat) : min (trig - G.maxLenSub) buf = StatelessReset.maxLen trig buf := rfl
theorem sreset_draw_shape : (G.bitsRangeIsMinMaxMinusToken && G.bitsDrawIsGenRangeBiased && G.genRangeBiasedShape
    && G.dispatchBufferIsMinDatagram) = true := by decide
theorem sreset_first_byte_eq : G.firstByteTag = (64, 2) := by decide
theorem sreset_first_byte_fn (b0 : Nat) : b0 / 2 ^ G.firstByteTag.2 % 64 + G.firstByteTag.1 = StatelessReset.firstByte b0 := rfl

/- version negotiation -/
theorem vn_supported_eq : G.supportedVersions = VersionNeg.supportedVersions := by decide
/-- `if payload_len < MINIMUM_MAX_DATAGRAM_SIZE { return Err }` -/
theorem vn_min_len_eq : G.vnMinLenCmp = ("<", VersionNeg.minimumMaxDatagramSize) := by decide
theorem vn_table_shape : (G.vnNeverForVn && G.vnClientForwards && G.vnInitialArm && G.vnZeroRttArm && G.vnOtherKindsForwarded
    && G.vnQueueGuard) = true := by decide

/- Initial datagrams -/
/-- `if datagram.payload_len < 1200 { PROTOCOL_VIOLATION }` -/
theorem server_initial_min_eq : G.serverInitialMinCmp = ("<", 1200) := by decide
theorem padding_shape : (G.padSpaceSelection && G.padTargetIsRemainingCapacity && G.serverNonElicitingInitialCancelsPadding
    && G.datagramLenCounted && G.clampBeforeWrite && G.minimumPayloadLenFromPacketLen) = true := by decide
theorem minimum_packet_len_eq (m : Option Nat) (tag : Nat) :
    max (m.getD 0) (StatelessReset.minIndistinguishablePacketLen tag + G.minimumPacketLenPlus) = InitialPadding.minimumPacketLen m tag := rfl

end Quic.Proofs.Bridge.Amplification
