import QuicModel.Path.Mtu
import QuicModel.Generated.Mtu
/-
  Tie G for the path-MTU controller: constants and the comparison conditions translated from /repo's current
  `path/mtu.rs` equal the ones of the model the C02 theorems talk about. Editing an operator / constant in the
  Rust source changes the generated definition and breaks the lemma.
-/
namespace Quic.Proofs.Bridge.Mtu
open Quic.Path.Mtu
namespace G
export Quic.Generated.Mtu (maxProbes ethernetMtu probeThreshold blackHoleThreshold blackHoleCoolOffSecs pmtuRaiseTimerSecs
  minimumMaxDatagramSize udpHeaderLen ipv4MinHeaderLen ipv6MinHeaderLen defaultMaxMtu)
end G

theorem consts_eq :
    Quic.Generated.Mtu.maxProbes = MAX_PROBES ∧ Quic.Generated.Mtu.ethernetMtu = ETHERNET_MTU ∧
    Quic.Generated.Mtu.probeThreshold = PROBE_THRESHOLD ∧ Quic.Generated.Mtu.blackHoleThreshold = BLACK_HOLE_THRESHOLD ∧
    Quic.Generated.Mtu.blackHoleCoolOffSecs * 1000000 = BLACK_HOLE_COOL_OFF_US ∧
    Quic.Generated.Mtu.pmtuRaiseTimerSecs * 1000000 = PMTU_RAISE_TIMER_US ∧
    Quic.Generated.Mtu.minimumMaxDatagramSize = MINIMUM_MAX_DATAGRAM_SIZE ∧ Quic.Generated.Mtu.udpHeaderLen = UDP_HEADER_LEN ∧
    Quic.Generated.Mtu.ipv4MinHeaderLen = IPV4_MIN_HEADER_LEN ∧ Quic.Generated.Mtu.ipv6MinHeaderLen = IPV6_MIN_HEADER_LEN ∧
    Quic.Generated.Mtu.defaultMaxMtu = DEFAULT_MAX_MTU := by decide

theorem shapes_eq :
    Quic.Generated.Mtu.minimumMtuIsSumWithMinHeader = true ∧ Quic.Generated.Mtu.defaultsAreMinimum = true ∧
    Quic.Generated.Mtu.maxDatagramSizeShape = true ∧ Quic.Generated.Mtu.raiseTimerFromProbeTime = true ∧
    Quic.Generated.Mtu.coolOffFromNow = true ∧ Quic.Generated.Mtu.blackHoleFallsBackToBase = true ∧
    Quic.Generated.Mtu.probeLossLowersMaxProbe = true ∧ Quic.Generated.Mtu.probeAckRaisesMtu = true ∧
    Quic.Generated.Mtu.armResetsMaxProbe = true ∧ Quic.Generated.Mtu.newSearchResetsCount = true ∧
    Quic.Generated.Mtu.txCountsProbe = true ∧ Quic.Generated.Mtu.initialProbedMinMaxUdp = true := by decide

theorem above_eq (c : Ctl) : Quic.Generated.Mtu.aboveCond c.probed c.plpmtu PROBE_THRESHOLD = c.above := rfl
theorem next_probe_size_eq (a b : Nat) : Quic.Generated.Mtu.nextProbeSize a b = nextProbeSize a b := rfl
theorem black_hole_cond_eq (c : Ctl) :
    Quic.Generated.Mtu.blackHoleCond c.bh BLACK_HOLE_THRESHOLD = decide (c.bh > BLACK_HOLE_THRESHOLD) := rfl
theorem probe_lost_cond_eq (c : Ctl) :
    Quic.Generated.Mtu.probeLostCond c.probeCount MAX_PROBES = decide (c.probeCount = MAX_PROBES) := rfl
theorem ack_reset_cond_eq (c : Ctl) (pn bytes : Nat) :
    Quic.Generated.Mtu.ackResetCond bytes c.plpmtu pn c.largestAcked
      = (decide (bytes ≥ c.plpmtu) && newerThanAcked c.largestAcked pn) := by
  unfold Quic.Generated.Mtu.ackResetCond newerThanAcked; cases c.largestAcked <;> rfl
theorem loss_count_cond_eq (c : Ctl) (pn bytes : Nat) (burst : Bool) :
    Quic.Generated.Mtu.lossCountCond c.base c.plpmtu bytes pn c.largestAcked burst = c.lossCounts pn bytes burst := by
  unfold Quic.Generated.Mtu.lossCountCond Ctl.lossCounts newerThanAcked; cases c.largestAcked <;> rfl
theorem early_ack_cond_eq (bytes base : Nat) : Quic.Generated.Mtu.earlyAckCond bytes base = decide (bytes > base) := rfl
theorem capacity_cond_eq (cap probed : Nat) : Quic.Generated.Mtu.capacityCond cap probed = decide (cap < probed) := rfl
theorem try_from_eq (v : Nat) : tryFrom v = if Quic.Generated.Mtu.tryFromRejects v MINIMUM_MTU then none else some v := by
  unfold tryFrom Quic.Generated.Mtu.tryFromRejects; by_cases h : v < MINIMUM_MTU <;> simp [h]
theorem is_valid_eq (c : Config) : Quic.Generated.Mtu.isValid c.base c.initial c.max = c.isValid := rfl
theorem initial_above_ethernet_eq (i : Nat) :
    Quic.Generated.Mtu.initialAboveEthernet i ETHERNET_MTU PROBE_THRESHOLD = decide (i > ETHERNET_MTU - PROBE_THRESHOLD) := rfl
theorem init_early_eq (p b : Nat) : Quic.Generated.Mtu.initEarly p b = decide (p > b) := rfl
theorem init_complete_eq (i b : Nat) :
    Quic.Generated.Mtu.initComplete i b PROBE_THRESHOLD = decide (i - b < PROBE_THRESHOLD) := rfl

end Quic.Proofs.Bridge.Mtu
