import QuicModel.Recovery.Cubic
import QuicModel.Recovery.Bbr
import QuicModel.Recovery.SendGate
import QuicModel.Generated.Congestion
/-
  Tie G for C10: what tools/extractors/congestion.py read from /repo *now* equals the constants,
  comparison operators and guard shapes the skeletons (Recovery.Cubic / Recovery.Bbr /
  Recovery.SendGate) and the C10 theorems are written for. Operators: `<` 0, `<=` 1, `>` 2, `>=` 3.
-/
namespace Quic.Proofs.Bridge.Congestion
open Quic.Generated.Congestion Quic.Recovery

/-! constants -/
/-- `BETA_CUBIC = 0.7`; what `C10.cubic_loss_never_increases` needs of it is `β < 1` -/
theorem beta_cubic_eq : betaCubic = (7, 10) := by decide
theorem beta_cubic_lt_one : betaCubic.1 < betaCubic.2 := by decide
theorem cubic_c_eq : cubicC = (2, 5) := by decide
theorem max_cwnd_multipliers_eq : slowStartMaxCwndMultiplier = (2, 1) ∧ maxCwndMultiplier = (3, 2) := by decide
theorem cubic_min_window_eq : cubicMinWindowPackets = Cubic.minWindowPackets := by decide
theorem bbr_min_window_eq : bbrMinPipeCwndPackets = Bbr.minPipeCwndPackets := by decide
/-- the product `MIN_PIPE_CWND_PACKETS * max_datagram_size` is computed in 16 bits (`Bbr.mdsOverflows`) -/
theorem bbr_min_window_bits_eq : 2 ^ bbrMinWindowProductBits - 1 = Bbr.u16Max := by decide
theorem cubic_initial_window_eq :
    cubicInitialWindow = (Cubic.initialWindowPackets, Cubic.initialWindowLimit, Cubic.initialWindowLimitPackets) := by decide
theorem bbr_initial_window_eq :
    bbrInitialWindow = (Bbr.initialWindowPackets, Bbr.initialWindowLimit, Bbr.initialWindowLimitPackets) := by decide

/-! `is_congestion_limited` -/
theorem cubic_limited_cmp_eq : cubicLimitedCmp = 0 := by decide
theorem bbr_limited_cmp_eq : bbrLimitedCmp = 0 := by decide
theorem cubic_is_congestion_limited_eq : cubicIsCongestionLimited = SendGate.isCongestionLimited := by
  funext c b m; rfl
theorem bbr_is_congestion_limited_eq : bbrIsCongestionLimited = SendGate.isCongestionLimited := by
  funext c b m; rfl
theorem cubic_model_limited (s : Cubic.State) :
    Cubic.isCongestionLimited s = cubicIsCongestionLimited s.w s.inflight s.mds := rfl
theorem bbr_model_limited (s : Bbr.State) :
    Bbr.isCongestionLimited s = bbrIsCongestionLimited s.cwnd s.inflight s.mds := rfl

/-! CUBIC guards -/
/-- `(MAX_BURST_MULTIPLIER, >=, 2, >)` of `is_congestion_window_under_utilized` -/
theorem under_utilized_eq : underUtilized = (Cubic.maxBurstMultiplier, 3, 2, 2) := by decide
theorem cubic_sent_sets_under_utilized : cubicSentSetsUnderUtilized = true := by decide
theorem cubic_ack_under_utilized_returns : cubicAckUnderUtilizedReturns = true := by decide
/-- recovery ends on `newest_acked_time_sent > recovery_start_time` -/
theorem cubic_recovery_exit_cmp_eq : cubicRecoveryExitCmp = 2 := by decide
theorem cubic_max_cwnd_floored : cubicMaxCwndFloored = true := by decide
/-- early return on `congestion_window >= max_cwnd` -/
theorem cubic_at_max_cmp_eq : cubicAtMaxCmp = 3 := by decide
theorem cubic_slow_start_capped : cubicSlowStartCapped = true := by decide
theorem cubic_recovery_arm_empty : cubicRecoveryArmEmpty = true := by decide
theorem cubic_avoidance_capped : cubicAvoidanceCapped = true := by decide
theorem cubic_recovery_check : cubicRecoveryCheck = true := by decide
theorem cubic_event_enters_recovery : cubicEventEntersRecovery = true := by decide
theorem cubic_decrease_floored : cubicDecreaseFloored = true := by decide
theorem cubic_lost_subtracts : cubicLostSubtracts = true := by decide
theorem cubic_persistent_collapses : cubicPersistentCollapses = true := by decide
theorem cubic_mtu_floored : cubicMtuFloored = true := by decide

/-! BBR write sites -/
/-- exactly the three assignments modelled in `Recovery.Bbr` (plus the constructor) -/
theorem bbr_cwnd_write_sites_eq : bbrCwndWriteSites = 3 := by decide
theorem bbr_set_cwnd_clamped : bbrSetCwndClamped = true := by decide
/-- the variant of the growing write in `set_cwnd` the model is pinned to is the one in the source:
    `cwnd += newly_acked as u32` (false, see `C10.bbr_set_cwnd_overflow_counterexample`) or
    `cwnd = cwnd.saturating_add(newly_acked as u32)` (true, `C10.bbr_no_overflow`) -/
theorem bbr_growth_variant_eq : bbrGrowthSaturating = Bbr.saturatingGrowth := by decide
theorem bbr_bound_floored : bbrBoundFloored = true := by decide
theorem bbr_restore_is_max : bbrRestoreIsMax = true := by decide
theorem bbr_save_is_max : bbrSaveIsMax = true := by decide
theorem bbr_mtu_floored : bbrMtuFloored = true := by decide
theorem bbr_lost_subtracts : bbrLostSubtracts = true := by decide
theorem bbr_probe_rtt_cwnd_floored : bbrProbeRttCwndFloored = true := by decide

/-! send gate -/
theorem send_gate_shape : sendGateShape = true := by decide
theorem constraint_order_eq :
    constraintOrder = [SendGate.Constraint.none, .retransmissionOnly, .congestionLimited, .amplificationLimited].map SendGate.Constraint.rank := by
  decide
theorem can_transmit_shape : canTransmitShape = true := by decide

end Quic.Proofs.Bridge.Congestion
