import QuicModel.Dc.ReplayWindow
import QuicModel.Dc.KeyIds
import QuicModel.Generated.DcReplay
/-
  Tie G for C19: what tools/extractors/dc_replay.py read from /repo *now*
  (receiver.rs / sender.rs: constants, sentinel, comparison operators, the atomic operations used)
  equals the pinned shape that `Quic.Dc.ReplayWindow` / `Quic.Dc.KeyIds` transcribe and the C19
  theorems are proved about. A semantic edit of the Rust text breaks one of these `decide`s.
-/
namespace Quic.Proofs.Bridge.DcReplay
open Quic.Generated.DcReplay

theorem window_eq : window = Quic.Dc.ReplayWindow.WINDOW := by decide
/-- `BitArr!(for WINDOW)` stores whole words: the bitset really has exactly WINDOW bits -/
theorem seen_len_eq : seenIsWindowBits = true ∧ seenLen = Quic.Dc.ReplayWindow.WINDOW := by decide
theorem init_len_eq : Quic.Dc.ReplayWindow.init.seen.length = seenLen := by
  show (List.replicate Quic.Dc.ReplayWindow.WINDOW false).length = seenLen
  rw [List.length_replicate]; decide
theorem sentinel_eq : sentinel = 2 ^ 64 - 1 := by decide
/-- `if identity.key_id == KeyId::MAX { return Err(Unknown) }` as in `preAuthentication` -/
theorem pre_check_eq : preCheck = ("==", "Unknown") := by decide
/-- pre-check first, then lock, then load / store of the maximum: the sequential model applies -/
theorem post_prologue_eq : postCallsPre = true ∧ maxAccessedUnderLock = true ∧ storesNewMax = true := by decide
theorem new_max_eq : newMax = ("==", 0, "max") := by decide
theorem delta_eq : delta = ("new_max", "-", "previous_max") := by decide
/-- `if delta > seen.len() { fill(false) } else { shift_end(delta) }` -/
theorem shift_eq : shift = (">", "fill", "false", "shift_end") := by decide
theorem index_eq : index = ("new_max", "-", "key_id", "Unknown") := by decide
/-- `if *entry { AlreadyExists } else set(true); Ok` / `get_mut` out of range => Unknown -/
theorem test_and_set_eq : testAndSet = ("", "AlreadyExists", "true", "Unknown") := by decide
theorem min_unseen_eq : minUnseen = ("wrapping_add", 1, "MAX") := by decide

theorem sender_start_eq : senderStart = Quic.Dc.KeyIds.init := by decide
/-- `fetch_update(|c| VarInt::try_from(c + 1).ok().filter(|id| *id != VarInt::MAX))`, previous value returned -/
theorem next_key_id_eq : nextKeyId = ("fetch_update", "+", 1, "!=", "MAX") ∧ nextReturnsPrevious = true := by decide
/-- `fetch_max(*min_key_id)` with no adjustment -/
theorem stale_key_eq : staleKey = ("fetch_max", "*min_key_id") := by decide

end Quic.Proofs.Bridge.DcReplay
