import QuicModel.Compose.Auth
import QuicModel.Compose.PacketLayout
import QuicModel.Generated.Auth
import QuicModel.Generated.KeySet
/-
  Tie G for C06: what tools/extractors/auth.py read from /repo *now* — the order of the
  security-relevant calls of the receive path in space/{application,handshake,initial}.rs,
  space/mod.rs, connection_impl.rs, connection_trait.rs, endpoint/mod.rs, the stateless-reset token
  map, and the packet-protection layout constants / shapes of s2n-quic-core/src/crypto and
  s2n-quic-crypto — equals what `Compose.Auth` and `Compose.PacketLayout` transcribe.
  A reordering (window insert before the decryption result is used, a dropped `is_duplicate`),
  another AAD slice, a nonce without the packet number, a token lookup among local tokens or a
  changed constant breaks `decide` here.
-/
namespace Quic.Proofs.Bridge.Auth
open Quic.Compose Quic.Generated.Auth

/-! the pipeline order, per space -/
theorem validate_order_app : validateOrderApp = Auth.pinnedValidateOrder := by decide
theorem validate_order_handshake : validateOrderHandshake = Auth.pinnedValidateOrder := by decide
theorem validate_order_initial : validateOrderInitial = Auth.pinnedValidateOrder := by decide

theorem duplicate_is_window_check :
    isDuplicateCallsApp = Auth.pinnedIsDuplicateCalls ∧ isDuplicateCallsHandshake = Auth.pinnedIsDuplicateCalls ∧
    isDuplicateCallsInitial = Auth.pinnedIsDuplicateCalls ∧
    (isDuplicateIffErrApp && isDuplicateIffErrHandshake && isDuplicateIffErrInitial) = true := by decide

theorem duplicate_returns_other_on_decoded_pn :
    (duplicateReturnsOtherApp && duplicateReturnsOtherHandshake && duplicateReturnsOtherInitial &&
     duplicatePnIsUnprotectedApp && duplicatePnIsUnprotectedHandshake && duplicatePnIsUnprotectedInitial) = true := by
  decide

theorem on_processed_order :
    onProcessedOrderApp = Auth.pinnedOnProcessedOrder ∧ onProcessedOrderHandshake = Auth.pinnedOnProcessedOrder ∧
    onProcessedOrderInitial = Auth.pinnedOnProcessedOrder := by decide

theorem window_insert_sites :
    windowInsertSitesApp = Auth.pinnedWindowInsertSites ∧ windowInsertSitesHandshake = Auth.pinnedWindowInsertSites ∧
    windowInsertSitesInitial = Auth.pinnedWindowInsertSites := by decide

theorem cleartext_order : cleartextOrder = Auth.pinnedCleartextOrder := by decide

theorem conn_order :
    connOrderShort = Auth.pinnedConnOrder ∧ connOrderHandshake = Auth.pinnedConnOrder ∧
    connOrderInitial = Auth.pinnedConnOrder := by decide

/-! failed authentication: error classification, integrity limit, stateless reset -/
theorem reset_check_only_on_decrypt_error :
    resetCheckArms = Auth.pinnedResetCheckArms ∧ processingErrorArms = 3 ∧ protectionErrorMapsTo = "DecryptError" := by
  decide

theorem integrity_guard (f l : Nat) : Quic.Generated.KeySet.integrityReached f l = decide (f ≥ l) := rfl

theorem reset_token_is_peer_trailer :
    resetTokenIsTrailer = true ∧ resetLenAlias = true ∧
    resetLookup = "remove_internal_connection_id_by_stateless_reset_token" ∧ resetLookupReadsMap = true ∧
    resetMapInserts = Auth.pinnedResetMapInserts ∧ resetTokenLen = Auth.resetTokenLen ∧ resetTokenCtEq = true := by
  decide

/-! packet protection layout -/
theorem tag_len_eq : tagLen = PacketLayout.tagLen := by decide
theorem max_pn_len_eq : maxPnLen = PacketLayout.maxPnLen := by decide
theorem hp_consts_eq :
    hpConsts = (PacketLayout.hpMaskLen, PacketLayout.longHeaderTag, PacketLayout.longHeaderMask, PacketLayout.shortHeaderMask) := by
  decide
theorem cipher_suites_eq : cipherSuites = PacketLayout.pinnedCipherSuites := by decide

theorem sample_and_unprotect_shape :
    (sampleShape && unprotectShape && removeHpShape && maskFromTagShape && xorMaskShape) = true := by decide

theorem aad_is_whole_header :
    (decryptAadIsWholeHeader && encryptAadIsWholeHeader && suiteDecryptShape && suiteEncryptShape) = true ∧
    aadSplit = PacketLayout.pinnedAadSplit := by decide

theorem nonce_is_iv_xor_pn : nonceShape = PacketLayout.pinnedNonceShape ∧ noncePnType = "u64" := by decide

theorem min_indistinguishable_expr : minIndistinguishableExpr = PacketLayout.pinnedMinIndistinguishableExpr := by decide

end Quic.Proofs.Bridge.Auth
