import QuicModel.Dc.SendQueue
import QuicModel.Generated.DcSendQueue
/-
  Tie G for the C20 send-queue component: what tools/extractors/dc_sendqueue.py read from /repo *now*
  (dc/s2n-quic-dc/src/stream/send/queue.rs, dc/s2n-quic-dc/src/msg/segment.rs) equals the pinned shape
  that `Quic.Dc.SendQueue` transcribes and the theorems of QuicProofs.Props.C20SendQueue are proved about.
  `segment.offset = n` for `+=`, `>` for `>=` in the pop condition, a dropped `accepted_len -= accepted`,
  a batch built from part of the queue … break one of these lemmas.
-/
namespace Quic.Proofs.Bridge.DcSendQueue
open Quic.Generated.DcSendQueue

/-- `segment.offset += remaining`: the translated update is the model's -/
theorem advance_offset_eq : advanceOffset = Quic.Dc.SendQueue.advanceOffset := by
  funext o r; rfl

/-- a segment is popped iff its remaining slice fits into what the socket accepted (`checked_sub` is `Some`) -/
theorem pop_fits_eq : popFits = Quic.Dc.SendQueue.popFits := by
  funext l r; rfl

/-- `consume_segments` loop shape, `as_slice`, `Message::push` (offset 0, at the back) -/
theorem consume_shape_eq : consumeShape = true ∧ asSliceShape = true ∧ pushShape = true := by decide

/-- `push_buffer` records the credit after the closure succeeded; `poll_flush` flushes first and then reports
    `min(limit, accepted_len)`, subtracting it; an empty queue is Ready and stream sockets take the stream path -/
theorem credit_shape_eq : pushBufferShape = true ∧ pollFlushShape = true ∧ dispatchShape = true := by decide

/-- `poll_flush_segments_stream`: whole-queue batch, one `poll_send`, Ok/Err/Pending arms as in `flushStream` -/
theorem stream_loop_shape_eq : streamLoopShape = true := by decide

/-- `msg::segment` limits and the batch rules of `Batch::new` (`batchGo`) -/
theorem batch_limits_eq :
    maxTotal = Quic.Dc.SendQueue.maxTotal ∧ maxCount = Quic.Dc.SendQueue.maxCount ∧ batchShape = true := by decide

end Quic.Proofs.Bridge.DcSendQueue
