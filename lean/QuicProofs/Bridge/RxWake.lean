import QuicModel.Conn.Wakers
import QuicModel.Generated.RxWake
/-
  Tie G for C02 (stream read waiter): the watermark expressions of `ReceiveStream::on_data` (wake test) and
  `ReceiveStream::poll_request` (park test), translated from /repo's text by tools/extractors/rx_wake.py, equal the tests of the
  hand-written model `Quic.Conn.Wakers.ReadWaiter` FOR ALL arguments; the two sites use the same threshold; the flow-controller
  watermark is half the desired window.  A rewrite that keeps the value (`a.min(b)` ↔ `b.min(a)`) keeps these theorems.
-/
namespace Quic.Proofs.Bridge.RxWake
open Quic.Generated.RxWake Quic.Conn.Wakers Quic.Conn.Wakers.ReadWaiter

theorem wake_threshold_eq (low fcwm : Nat) : wakeThreshold low fcwm = min low fcwm := by
  unfold wakeThreshold; omega

theorem poll_threshold_eq (low fcwm : Nat) : pollThreshold low fcwm = min fcwm low := by
  unfold pollThreshold; omega

/-- the two cooperating sites agree: the reader parks exactly while `on_data` would not wake it (for a non-empty buffer) -/
theorem wake_and_poll_thresholds_agree (low fcwm : Nat) : wakeThreshold low fcwm = pollThreshold low fcwm := by
  unfold wakeThreshold pollThreshold; omega

theorem fc_watermark_eq (window : Nat) : fcWatermark window = window / 2 := by
  unfold fcWatermark; omega

/-- the model's wake test is the translated one -/
theorem model_ready_eq (s : State) (lw : Nat) :
    ready s lw = (decide (len s > 0) && decide (len s ≥ wakeThreshold lw s.fcWatermark)) := by
  rw [wake_threshold_eq]; rfl

theorem shape : wakeRequiresData = true ∧ parkStoresRequestLow = true ∧ parkOnShortBuffer = true ∧ parkOnEmptyPop = true ∧
    wakeSitesOfReadWaiter = 1 := by decide

end Quic.Proofs.Bridge.RxWake
