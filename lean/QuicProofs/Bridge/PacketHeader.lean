import QuicModel.Codec.PacketHeader
import QuicModel.Generated.PacketHeader
/-
  Tie G for packet headers: what tools/extractors/packet_header.py read from /repo *now* equals the
  pinned constants and decode-site table the C05 packet-header theorems are proved about.  A semantic
  edit (a tag macro, `<=` → `<`, a decoder switched between `decode_checked_range` and the validated
  readers, the version peek removed, the Retry tag length, the token length prefix) breaks `decide`.
-/
namespace Quic.Proofs.Bridge.PacketHeader
open Quic.Codec.PacketHeader
namespace G
export Quic.Generated.PacketHeader (shortTag vnTag initialTag zeroRttTag handshakeTag retryTag dispatchShift dispatchArms
  longPacketPeeksVersion vnGuardIsEq maxDcidLen maxDcidLenCmp maxScidLen maxScidLenCmp dcidLenPrefix scidLenPrefix
  tagAndVersionTypes decodeDcidValidates decodeScidValidates decodeShortDcidValidates checkedRangeIsPlain rangeValidatorsUseLen
  headerDecoderSkips finishLongShape finishShortShape cidSites initialTokenLenPrefix initialFieldOrder longDecodersFinishLong
  integrityTagLen retryShape vnVersion vnShape vnEncodingTag shortEncodingTag spinBitMask keyPhaseMask usizeValidatorCmp
  shortDcidUsesValidatorLen)
end G

theorem short_tag_eq : G.shortTag = (shortTagLo, shortTagHi) := by decide
theorem vn_tag_eq : G.vnTag = (vnTagLo, vnTagHi) := by decide
theorem long_tags_eq :
    (G.initialTag, G.zeroRttTag, G.handshakeTag, G.retryTag) = (initialTag, zeroRttTag, handshakeTag, retryTag) := by decide
/-- `match tag >> 4` = `tag / 16` -/
theorem dispatch_shift_eq : 2 ^ G.dispatchShift = 16 := by decide
theorem dispatch_arms_eq :
    G.dispatchArms = [("short_tag", "ProtectedShort"), ("version_negotiation_no_fixed_bit_tag", "VersionNegotiationGuarded"),
      ("initial_tag", "ProtectedInitial"), ("zero_rtt_tag", "ProtectedZeroRtt"), ("handshake_tag", "ProtectedHandshake"),
      ("retry_tag", "ProtectedRetry"), ("_", "InvalidPacket")] := by decide
theorem version_peek_eq : (G.longPacketPeeksVersion, G.vnGuardIsEq) = (true, true) := by decide
theorem cid_limits_eq :
    (G.maxDcidLen, G.maxDcidLenCmp, G.maxScidLen, G.maxScidLenCmp) = (maxDcidLen, "le", maxScidLen, "le") := by decide
theorem len_prefixes_eq :
    (G.dcidLenPrefix, G.scidLenPrefix, G.initialTokenLenPrefix, G.tagAndVersionTypes) = ("u8", "u8", "VarInt", ("u8", "u32")) := by decide
/-- which reader each long-header decoder calls for DCID / SCID -/
theorem cid_sites_eq : G.cidSites = cidSites := by decide
theorem readers_eq :
    (G.decodeDcidValidates, G.decodeScidValidates, G.decodeShortDcidValidates, G.checkedRangeIsPlain, G.rangeValidatorsUseLen)
      = (true, true, true, true, true) := by decide
theorem header_decoder_eq :
    (G.headerDecoderSkips, G.finishLongShape, G.finishShortShape, G.longDecodersFinishLong) = ((true, true), true, true, true) := by decide
theorem initial_field_order_eq :
    G.initialFieldOrder = ["destination_connection_id", "source_connection_id", "token"] := by decide
theorem retry_eq : (G.integrityTagLen, G.retryShape) = (integrityTagLen, true) := by decide
theorem vn_eq : (G.vnVersion, G.vnShape, G.vnEncodingTag) = (vnVersion, true, vnEncodingTag) := by decide
theorem short_eq :
    (G.shortEncodingTag, G.spinBitMask, G.keyPhaseMask, G.usizeValidatorCmp, G.shortDcidUsesValidatorLen)
      = (shortEncodingTag, spinBitMask, keyPhaseMask, "ge", true) := by decide

end Quic.Proofs.Bridge.PacketHeader
