import QuicModel.Sync.Tables
import QuicModel.Generated.SyncOrderings
/-
  Tie G for C17: the memory ORDERING of every atomic operation and the ORDER of the
  synchronisation-relevant calls, as read from /repo's source text on this run, equal the pinned values
  the C17 theorems are proved about. Weakening an ordering, dropping a wake-up or moving `register`
  after the re-check changes the generated table, so one of these `decide`s stops elaborating: an
  OBLIGATION breaks (it is not a hypothesis of the theorems).
-/
namespace Quic.Proofs.Bridge.SyncOrderings
open Quic.Sync Quic.Sync.Tables

def expected : List Row := [
  ("sync/spsc/state.rs", "acquire_capacity", "open", "load", "Acquire"),
  ("sync/spsc/state.rs", "acquire_capacity", "head", "load", "Acquire"),
  ("sync/spsc/state.rs", "acquire_filled", "tail", "load", "Acquire"),
  ("sync/spsc/state.rs", "acquire_filled", "open", "load", "Acquire"),
  ("sync/spsc/state.rs", "acquire_filled", "tail", "load", "Acquire"),
  ("sync/spsc/state.rs", "persist_head", "head", "store", "Release"),
  ("sync/spsc/state.rs", "persist_tail", "tail", "store", "Release"),
  ("sync/spsc/state.rs", "close", "open", "swap", "SeqCst"),
  ("sync/spsc/state.rs", "drop_contents", "head", "load", "Acquire"),
  ("sync/spsc/state.rs", "drop_contents", "tail", "load", "Acquire"),
  ("sync/spsc/state.rs", "fmt", "head", "load", "Relaxed"),
  ("sync/spsc/state.rs", "fmt", "tail", "load", "Relaxed"),
  ("sync/spsc/state.rs", "fmt", "open", "load", "Relaxed"),
  ("sync/cursor.rs", "acquire_producer", "consumer", "load", "Acquire"),
  ("sync/cursor.rs", "release_producer", "producer", "fetch_add", "Release"),
  ("sync/cursor.rs", "acquire_consumer", "producer", "load", "Acquire"),
  ("sync/cursor.rs", "release_consumer", "consumer", "fetch_add", "Release"),
  ("sync/worker.rs", "poll_acquire", "remaining", "swap", "Acquire"),
  ("sync/worker.rs", "poll_acquire", "senders", "load", "Acquire"),
  ("sync/worker.rs", "submit", "remaining", "fetch_add", "Release"),
  ("sync/worker.rs", "drop", "senders", "fetch_sub", "Release"),
  ("sync/atomic_waker.rs", "is_open", "is_open", "load", "Acquire"),
  ("sync/atomic_waker.rs", "drop", "is_open", "store", "Release")]

/-- every atomic operation of the four files carries the ordering the proofs assume -/
theorem orderings_ok : Quic.Generated.SyncOrderings.table = expected := by decide

/-- … and the table instantiates the `Orderings` parameter of the spsc step programs to `Spsc.pinned` -/
theorem spsc_orderings_ok : ofTable Quic.Generated.SyncOrderings.table = some Spsc.pinned := by decide

/-- `acquire_capacity` / `acquire_filled` / `drop_contents` perform their loads in the transcribed order -/
theorem spsc_call_order_ok :
    callsOf Quic.Generated.SyncOrderings.calls "sync/spsc/state.rs" "acquire_capacity" = ["load:open", "load:head"] ∧
    callsOf Quic.Generated.SyncOrderings.calls "sync/spsc/state.rs" "acquire_filled" = ["load:tail", "load:open", "load:tail"] ∧
    callsOf Quic.Generated.SyncOrderings.calls "sync/spsc/state.rs" "drop_contents" = ["load:head", "load:tail", "dealloc"] ∧
    callsOf Quic.Generated.SyncOrderings.calls "sync/spsc/state.rs" "close" = ["wake", "swap", "wake", "drop_contents"] := by
  decide

/-- every waiting function is check ; register ; check -/
theorem waiters_ok :
    waiterFns.map (fun f => waiterOf (callsOf Quic.Generated.SyncOrderings.calls f.1 f.2))
      = waiterFns.map (fun _ => Waker.waiterPinned) := by decide

/-- `worker::Receiver::poll_acquire` is check ; register ; check ; check ; check -/
theorem worker_waiter_ok :
    workerWaiter Quic.Generated.SyncOrderings.calls = [.check, .register, .check, .check, .check] := by decide

/-- every notifying function still performs a wake after its atomic write -/
theorem notifiers_ok :
    notifierFns.map (fun f => Waker.pend false (notifierOf (callsOf Quic.Generated.SyncOrderings.calls f.1 f.2)))
      = notifierFns.map (fun _ => true) := by decide

/-- the concrete notifier programs -/
theorem notifier_programs_ok :
    notifierFns.map (fun f => notifierOf (callsOf Quic.Generated.SyncOrderings.calls f.1 f.2))
      = [Waker.notifyPinned, Waker.notifyPinned, Waker.closePinned, Waker.notifyPinned, Waker.notifyPinned,
         Waker.notifyPinned] := by decide

end Quic.Proofs.Bridge.SyncOrderings
