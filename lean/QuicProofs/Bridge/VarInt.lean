import QuicModel.Codec.VarInt
import QuicModel.Generated.VarInt
/-
  Tie G for varints: what tools/extract.py read from /repo *now* equals the pinned values the
  C05 theorems are proved about. A semantic edit of the table / masks / guard breaks `decide`.
-/
namespace Quic.Proofs.Bridge.VarInt
open Quic.Codec.VarInt

theorem table_eq :
    Quic.Generated.VarInt.table.map (fun r => (⟨r.1, r.2.1, r.2.2.1, r.2.2.2⟩ : Row)) = pinnedTable := by decide

theorem init_eq : Quic.Generated.VarInt.initEntry = (3, 8, 0, 62) := by decide
theorem row_update_eq : Quic.Generated.VarInt.rowUpdate = (62, 1, 62) := by decide
theorem format_eq : Quic.Generated.VarInt.formatIsShiftOrTag = true := by decide

theorem decode_arms_eq :
    Quic.Generated.VarInt.decodeArms = [0, 1, 2, 3].map (fun t => (t, widthOf t, pinnedMaskBits.getD t 0)) := by decide
theorem decode_dispatch_eq : Quic.Generated.VarInt.decodeDispatch = (6, 3) := by decide
theorem max_eq : Quic.Generated.VarInt.maxValue = maxValue := by decide

end Quic.Proofs.Bridge.VarInt
