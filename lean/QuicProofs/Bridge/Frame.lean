import QuicModel.Codec.Frame
import QuicModel.Generated.Frame
/-
  Tie G for frames: the tag table of the `frames!` macro, the dispatch ranges, the decoder bounds
  and the constants read from /repo *now* equal the pinned values `Codec.Frame.decodeFrame` is
  written with (and the C05 frame theorems are proved about). A changed tag / bound / comparison /
  check order breaks `decide`.
-/
namespace Quic.Proofs.Bridge.Frame
open Quic.Codec.Frame

theorem tags_eq : Quic.Generated.Frame.tags = pinnedTags := by decide
theorem extension_modules_eq :
    Quic.Generated.Frame.extensionModules = ["dc_stateless_reset_tokens", "mtu_probing_complete"] := by decide
theorem extension_first_byte_eq : Quic.Generated.Frame.extensionFirstByte = (64, 255) := by decide
theorem unknown_is_invalid_frame : Quic.Generated.Frame.unknownFrameIsInvalidFrame = true := by decide
theorem max_streams_bound_eq : Quic.Generated.Frame.maxStreamsBound = maxStreamsBound := by decide
theorem streams_blocked_bound_eq : Quic.Generated.Frame.streamsBlockedBound = maxStreamsBound := by decide
theorem cid_len_bounds_eq : Quic.Generated.Frame.cidLenBounds = (cidLenMin, cidLenMax) := by decide
theorem retire_prior_to_le_seq : Quic.Generated.Frame.retirePriorToLeSeq = true := by decide
theorem reset_token_len_eq : Quic.Generated.Frame.resetTokenLen = resetTokenLen := by decide
theorem nci_decode_order_eq :
    Quic.Generated.Frame.nciDecodeOrder =
      ["retire_prior_to <= sequence_number", "buffer.decode::<u8>()", "contains(&connection_id_len)",
       "decode_slice(connection_id_len", "decode_slice(STATELESS_RESET_TOKEN_LEN"] := by decide
theorem path_data_len_eq : Quic.Generated.Frame.pathDataLen = pathDataLen := by decide
theorem dc_max_count_eq : Quic.Generated.Frame.dcMaxCount = dcMaxCount := by decide
theorem dc_tag_eq : Quic.Generated.Frame.dcTagConst = dcTag := by decide
theorem mtu_tag_eq : Quic.Generated.Frame.mtuTagConst = mtuTag := by decide
/-- STREAM_TAG, OFF, LEN, FIN; DATAGRAM_TAG, LEN -/
theorem stream_bits_eq : Quic.Generated.Frame.streamBits = [8, 4, 2, 1, 48, 1] := by decide
theorem sub_tags_eq : Quic.Generated.Frame.subTags = [2, 3, 18, 19, 22, 23, 28, 29] := by decide

/-! expression shapes the model transcribes (a changed constant / comparison / field order makes
    the regular expression of tools/extractors/frame.py fail and the item `false`) -/
theorem ack_decode_shape : Quic.Generated.Frame.ackDecodeShape = true := by decide
theorem ack_encode_shape : Quic.Generated.Frame.ackEncodeShape = true := by decide
theorem stream_shape : Quic.Generated.Frame.streamDecodeShape = true := by decide
theorem datagram_shape : Quic.Generated.Frame.datagramShape = true := by decide
theorem connection_close_shape : Quic.Generated.Frame.connectionCloseShape = true := by decide
theorem new_token_shape : Quic.Generated.Frame.newTokenShape = true := by decide
theorem padding_shape : Quic.Generated.Frame.paddingShape = true := by decide
theorem dc_tokens_shape : Quic.Generated.Frame.dcTokensShape = true := by decide

end Quic.Proofs.Bridge.Frame
