import QuicModel.Rfc.FrameClasses
import QuicModel.Generated.FrameClasses
/-
  Tie G for the frame classification tables: what the Rust `impl AckElicitable` /
  `impl CongestionControlled` blocks say NOW equals the RFC 9002 §2 table for every frame type.
-/
namespace Quic.Proofs.Bridge.FrameClasses
open Quic.Rfc.FrameClasses

theorem ack_eliciting_eq_rfc :
    Quic.Generated.FrameClasses.ackEliciting = allFrames.map (fun f => (f, ackEliciting f)) := by decide

theorem congestion_controlled_eq :
    Quic.Generated.FrameClasses.congestionControlled = allFrames.map (fun f => (f, congestionControlled f)) := by decide

end Quic.Proofs.Bridge.FrameClasses
