import QuicModel.Conn.IdMapper
import QuicModel.Generated.CidMapper
/-
  Tie G for C13 (routing, peer ids of known paths): what tools/extractors/cid_mapper.py reads from /repo *now*
  equals what `Conn.IdMapper` transcribes. Consulting `initial_id_map` before `local_id_map` in
  `lookup_internal_connection_id` (a reordering no single-connection scenario can notice), attaching the wrong
  `Classification`, consulting the initial map on a client, or dropping the write-back of the freshly consumed peer
  connection id in `path::Manager::update_active_path` makes one of these fail to elaborate.
-/
namespace Quic.Proofs.Bridge.CidMapper
open Quic.Conn
namespace G
export Quic.Generated.CidMapper (lookupOrder fallbackInsideOrElse classificationOf initialMapServerOnly lookupShapeExact
  initialIdMinLen knownPathRetiredIdReplaced knownPathWritesBackPeerId activePathRetiredIdReplaced)
end G

/-- `local_id_map` is consulted first, `initial_id_map` second -/
theorem lookup_order_eq : G.lookupOrder = IdMapper.lookupOrder.map IdMapper.Source.code := by decide
/-- the second map only when the first answered `None`; Local / Initial classification; servers only -/
theorem lookup_shape : (G.fallbackInsideOrElse && G.initialMapServerOnly && G.lookupShapeExact) = true
    ∧ G.classificationOf = [(1, 1), (2, 2)] := by decide
theorem initial_id_min_len_eq : G.initialIdMinLen = IdMapper.initialIdMinLen := by decide
/-- known path with a retired peer id: a new id is consumed and stored on that path; the active path's retired id is replaced at once -/
theorem known_path_peer_id : (G.knownPathRetiredIdReplaced && G.knownPathWritesBackPeerId && G.activePathRetiredIdReplaced) = true := by decide

end Quic.Proofs.Bridge.CidMapper
