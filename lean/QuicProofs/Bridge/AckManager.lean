import QuicModel.Conn.AckManager
import QuicModel.Generated.AckManager
/-
  Tie G for the ACK half of C08: what tools/extractors/ack_manager.py reads from /repo *now* equals the
  constants, comparison shapes and statement orders that `Quic.Conn.AckManager` transcribes and the C08
  theorems are proved about. A one-token edit (10 -> 9, `>=` -> `>`, a dropped `should_activate |=` term,
  `now + max_ack_delay` -> `now + max_ack_delay * 2`, `..=` -> `..`, a dropped `.rev()`, the insert moved
  before the frame loop) makes the corresponding `rfl` fail.
-/
namespace Quic.Proofs.Bridge.AckManager
open Quic.Generated.AckManager
open Quic.Conn.AckManager

/-- `let packet_tolerance = 10;` — `packetTolerance`, compared with `>=` in `shouldActivate` -/
theorem packet_tolerance_eq : Quic.Generated.AckManager.packetTolerance = Quic.Conn.AckManager.packetTolerance := rfl

/-- the five activation terms of `shouldActivate`, in order, starting from `false` -/
theorem activation_terms_eq : activationTerms =
    ["!is_largest", "!is_ordered", "processed_packet.datagram.ecn.congestion_experienced()",
     "self.processed_packets_since_transmission >= packet_tolerance",
     "processed_packet.path_challenge_on_active_path"] := rfl
theorem activation_init_eq : activationInit = "false" := rfl

/-- `orderedLargest`: `pn == max.next()?`, `pn > max`, default `(true, true)` -/
theorem ordered_largest_eq : orderedLargestDefs = ["packet_number == max_value.next()?", "packet_number > max_value", "true,true"] := rfl

/-- `onProcessedPacket` = `onTimeout ∘ procSchedule ∘ procInsert` with `orderedLargest` taken before the insert -/
theorem processed_order_eq : processedOrder = ["orderedLargest", "insert", "ecn", "onUpdate", "count", "largestAt", "schedule", "poll"] := rfl

/-- `procSchedule`: armed only when not armed, with `now + max_ack_delay` -/
theorem timer_arm_eq : timerArm = ("!self.ack_delay_timer.is_armed()", "now + self.ack_settings.max_ack_delay") := rfl
theorem processed_poll_eq : processedPollActivates = true := rfl

/-- `on_processed_packet` has no early exit: a packet whose insertion evicted the lowest range (it WAS stored) still
    updates the transmission state, the activation rule and the ack-delay timer, as `onProcessedPacket` does -/
theorem processed_packet_runs_to_the_end : processedEarlyExits = 0 := by decide

/-- "process → insert": the only place that adds to an `ack_ranges` field is `on_processed_packet`, which the
    packet spaces call from `fn on_processed_packet`, which `handle_cleartext_payload` calls once, after
    the frame loop and the `frames == 0` check -/
theorem insert_only_when_processed : insertCallSites = (1, true) ∧ processedAfterFrames = true ∧ spacesNotifyInOnProcessed = true :=
  ⟨rfl, rfl, rfl⟩

/-- `newRetransmissions`: `interval_len / 2 + spread / 10`, `min 10` -/
theorem scales_eq : scales = (intervalScale, rangeScale, maxRetransmissions) := rfl
theorem budget_eq : budgetStatements =
    ["0", "ack_ranges.interval_len() / INTERVAL_SCALE", "ack_ranges.spread() / RANGE_SCALE", "new_retransmissions.min(MAX_RETRANSMISSIONS)"] := rfl

/-- `TxState.onUpdate` -/
theorem update_eq : updateEmptyDisables = true ∧ updateArms =
    ["Self::Active { retransmissions } => *retransmissions = new_retransmissions;",
     "Self::Passive { retransmissions } => *retransmissions = new_retransmissions;",
     "Self::Disabled => *self = AckTransmissionState::Passive { retransmissions: new_retransmissions, };"] := ⟨rfl, rfl⟩

/-- `TxState.shouldTransmit` (the decision table `C08.ack_state_machine_table`) -/
theorem should_transmit_arms_eq : shouldTransmitArms =
    ["_ if !has_ranges => false", "_ if !mode.is_normal() => true", "Self::Disabled => false",
     "Self::Passive { .. } => constraint.can_transmit() || constraint.can_retransmit()", "Self::Active { .. } => true"] := rfl

/-- `TxState.activate`, `TxState.onTransmit`, `forcedInterest` -/
theorem state_steps_eq : activatePassiveOnly = true ∧ onTransmitStep = 1 ∧ interestForcedWhenActive = true := ⟨rfl, rfl, rfl⟩

/-- `onTransmit` / `onTransmitComplete` -/
theorem transmit_eq : transmitWritesAllRanges = true ∧
    completeOrder = ["cancel", "largestAcked", "record", "stateOnTransmit", "resetCount"] ∧ pingCmp = ">=" ∧
    recordsLargestAcked = true := ⟨rfl, rfl, rfl, rfl⟩

/-- the §13.2.4 cut-off: `on_packet_ack` removes `pn_zero ..= largest_received_packet_number_acked` of the
    acknowledged transmission (`Transmission.ackRange`, `TxSet.onUpdate`, `onPacketAck`) -/
theorem cutoff_eq : cutoffRange = ("pn_zero", "..=", "self.largest_received_packet_number_acked") ∧
    packetAckRemovesRange = true ∧ setUpdateShape = (true, true, true) ∧ setTransmitShape = true := ⟨rfl, rfl, rfl, rfl⟩

/-- `onPacketLoss`, `onTimeout` -/
theorem loss_timeout_eq : lossUpdatesThenActivates = true ∧ timeoutActivates = true := ⟨rfl, rfl⟩

/-- `AckRanges.ackRanges` = reversed interval list -/
theorem descending_eq : ackRangesDescending = true := rfl

/-- `Settings.recommended` / `Settings.early`, `init` -/
theorem settings_eq : defaultMaxAckDelayUs = Settings.recommended.maxAckDelay ∧
    recommended = (Settings.recommended.ackDelayExponent, Settings.recommended.ackElicitationInterval, Settings.recommended.ackRangesLimit) ∧
    early = (Settings.early.maxAckDelay, Settings.early.ackDelayExponent) ∧ rangesLimitFromSettings = true := ⟨rfl, rfl, rfl, rfl⟩

/-- `timerExpired`: `expiration < now + K_GRANULARITY` -/
theorem granularity_eq : granularity = (granularityUs, "<") := rfl

end Quic.Proofs.Bridge.AckManager
