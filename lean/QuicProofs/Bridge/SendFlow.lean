import QuicModel.Stream.SendFlow
import QuicModel.Stream.OpenIds
import QuicModel.Generated.SendFlow
/-
  Tie G for send-side flow control: the expressions tools/extractors/send_flow.py translated from
  /repo's CURRENT text equal the hand-written model the C03 theorems are about. Reverting the
  `fix:` (requesting `end_offset` instead of `end_offset.min(self.max_stream_data)`), dropping
  the "ignore non-increasing" guards of MAX_DATA / MAX_STREAM_DATA / MAX_STREAMS, or changing a
  comparison breaks the corresponding lemma.
-/
namespace Quic.Proofs.Bridge.SendFlow
open Quic.Stream.SendFlow
open Quic.Generated

/-- the connection window is requested for `end_offset.min(self.max_stream_data)` (the clamp of
    the current code, `clampRequest = true` in the model) -/
theorem requested_eq (e m : Nat) : SendFlow.requestedOffset e m = requestedOffset true e m := by
  simp [SendFlow.requestedOffset, requestedOffset]

/-- and the same clamped value decides `BlockedOnConnectionWindow` -/
theorem conn_blocked_eq (e m a : Nat) :
    SendFlow.connBlocked e m a = decide (requestedOffset true e m > a) := by
  simp [SendFlow.connBlocked, requestedOffset]

theorem stream_blocked_eq (e m : Nat) : SendFlow.streamBlocked e m = decide (e > m) := rfl

theorem available_window_eq (f : StreamFc) :
    SendFlow.availableWindow f.maxStreamData f.acquiredConnectionFlowControllerWindow = f.availableWindow := rfl

/-- `set_max_stream_data` ignores frames that do not increase the limit -/
theorem max_stream_data_eq (f : StreamFc) (v : Nat) :
    (f.setMaxStreamData v).maxStreamData =
      if SendFlow.maxStreamDataIgnored v f.maxStreamData then f.maxStreamData else v := by
  simp only [StreamFc.setMaxStreamData, SendFlow.maxStreamDataIgnored]
  by_cases h : v ≤ f.maxStreamData
  · simp [h]
  · simp only [h, if_false, decide_false]
    split <;> rfl

theorem missing_window_eq (f : StreamFc) :
    SendFlow.missingConnectionWindow f.highestRequestedConnectionFlowControlWindow f.acquiredConnectionFlowControllerWindow
      = f.highestRequestedConnectionFlowControlWindow - f.acquiredConnectionFlowControllerWindow := rfl

theorem reset_final_size_eq : SendFlow.resetFinalSizeIsAcquiredWindow = true := by decide

theorem acquire_window_eq (c : ConnFc) (d : Nat) :
    (c.acquireWindow d).2 = SendFlow.acquireResult c.availableWindow d ∧
    SendFlow.acquireSubtractsResult = true ∧
    (c.acquireWindow d).1.availableWindow = c.availableWindow - SendFlow.acquireResult c.availableWindow d :=
  ⟨rfl, by decide, rfl⟩

/-- `on_max_data` ignores frames that do not increase the limit; otherwise total := value,
    available += value − total -/
theorem on_max_data_eq (c : ConnFc) (v : Nat) :
    c.onMaxData v =
      if SendFlow.maxDataIgnored c.totalAvailableWindow v then c
      else { totalAvailableWindow := SendFlow.maxDataNewTotal v,
             availableWindow := c.availableWindow + SendFlow.maxDataIncrement c.totalAvailableWindow v,
             dataBlocked := none } := by
  simp only [ConnFc.onMaxData, SendFlow.maxDataIgnored, SendFlow.maxDataNewTotal, SendFlow.maxDataIncrement]
  by_cases h : c.totalAvailableWindow ≥ v <;> simp [h]

theorem max_data_adds_increment : SendFlow.maxDataAddsIncrement = true := by decide

open Quic.Stream.OpenIds in
theorem on_max_streams_eq (c : Ctl) (v : Nat) :
    (c.onMaxStreams v).peerCumulativeStreamLimit =
      if SendFlow.maxStreamsIgnored c.peerCumulativeStreamLimit v then c.peerCumulativeStreamLimit else v := by
  simp only [Ctl.onMaxStreams, SendFlow.maxStreamsIgnored]
  by_cases h : c.peerCumulativeStreamLimit ≥ v <;> simp [h]

open Quic.Stream.OpenIds in
theorem open_capacity_eq (c : Ctl) :
    SendFlow.peerCapacity c.peerCumulativeStreamLimit c.openedStreams = c.peerCapacity ∧
    SendFlow.availableStreamCapacity c.maxLocalLimit c.openStreamCount c.peerCapacity = c.availableStreamCapacity ∧
    SendFlow.openBlocked c.availableStreamCapacity = decide (c.availableStreamCapacity < 1) :=
  ⟨rfl, rfl, rfl⟩

end Quic.Proofs.Bridge.SendFlow
