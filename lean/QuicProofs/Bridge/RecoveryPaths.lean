import QuicModel.Generated.RecoveryPaths
/-
  Tie G for C09 (bytes in flight per path): what tools/extractors/recovery_paths.py reads from /repo *now*: every
  acknowledged / lost packet is credited to the congestion controller of the path it was sent on, with its own size
  (the per-path reconciliation of tools/e2e.py `o_c09` is the executable twin; it only sees a path while it is current).
-/
namespace Quic.Proofs.Bridge.RecoveryPaths
namespace G
export Quic.Generated.RecoveryPaths (ackLoopTakesSendingPathAndOwnSize ackCurrentPathSumsOwnSizes ackOtherPathCreditsOwnSize
  ackCurrentPathCreditedOnce lossCreditsSendingPathOwnSize)
end G

theorem ack_credit_shape : (G.ackLoopTakesSendingPathAndOwnSize && G.ackCurrentPathSumsOwnSizes && G.ackOtherPathCreditsOwnSize
    && G.ackCurrentPathCreditedOnce) = true := by decide
theorem loss_credit_shape : G.lossCreditsSendingPathOwnSize = true := by decide

end Quic.Proofs.Bridge.RecoveryPaths
