import QuicProofs.Lemmas.DcReplay
/-
  C19 — dc: a key ID is accepted at most once and issued at most once.

  Receiver (`Quic.Dc.ReplayWindow`, transcription of receiver.rs). CONCURRENCY ASSUMPTION:
  `post_authentication` performs its pre-check on its argument only and then runs entirely under
  `self.seen.lock()` (the load and the store of `max_seen_key_id` are inside the critical section;
  tools/extractors/dc_replay.py re-checks that order on every run). Hence every concurrent
  history of `post_authentication` calls is a sequential history in lock-acquisition order, and the
  theorems below, which quantify over ALL finite sequences of key ids, cover every schedule, every
  reordering and every replay. Trusted: `std::sync::Mutex` mutual exclusion; `bitvec`'s
  `shift_end` / `fill` / `get_mut` behave as documented (`shiftEnd`).

  Sender (`Quic.Dc.KeyIds`, transcription of sender.rs). The state is one `AtomicU64`; `next_key_id`
  (`fetch_update`) and `update_for_stale_key` (`fetch_max`) are single atomic read-modify-writes,
  which are totally ordered by the location's modification order. A concurrent execution with any
  number of threads is therefore a *list* of `Step`s (each labelled with its thread); the theorems
  quantify over all such lists and all StaleKey values.

  All theorems are by induction over arbitrary histories (no bound on length or id size).
-/
namespace Quic.Proofs.C19
open Quic.Dc.ReplayWindow Quic.Proofs.DcReplay

/-! ## receiver: replay window -/

/-- Refinement, one step: if the window state `s` represents the reference state `sp` (set of
    accepted ids + highest accepted id; `Rel` is the abstraction relation — the window forgets ids
    more than 896 below the maximum, so the abstraction goes through a relation, not a function),
    then one `post_authentication` call is exactly one step of the reference with the same verdict. -/
theorem replay_window_refines_spec (s : State) (sp : Spec) (k : Nat) (h : Rel s sp) :
    Rel (postAuthentication s k).1 (sp.step k).1 ∧ isOk (postAuthentication s k).2 = (sp.step k).2 :=
  rel_step s sp k h

/-- Refinement, whole histories: after ANY sequence of calls the window represents the reference
    state whose set is "the ids answered Ok so far" and whose max is the highest of them. -/
theorem replay_window_refines_spec_run (ks : List Nat) :
    Rel (runState init ks) ⟨acceptedIds init [] ks, highest (acceptedIds init [] ks)⟩ := by
  obtain ⟨hr, ha⟩ := rel_run init Spec.init ks rel_init
  have hi := specInv_run Spec.init ks specInv_init
  have ha' : acceptedIds init [] ks = (Spec.init.runState ks).accepted := ha
  rw [ha', ← hi.max_eq]
  exact hr

/-- EXACTNESS. After any history `ks`, the next call with id `k` is answered `Ok` if and only if
    `k` is not the reserved maximum, `k` was not answered `Ok` before, and `k` is above — or less
    than 896 below — the highest id answered `Ok` so far (or nothing was accepted yet). -/
theorem replay_exact (ks : List Nat) (k : Nat) :
    isOk (postAuthentication (runState init ks) k).2 = true ↔
      k ≠ 4611686018427387903 ∧ k ∉ acceptedIds init [] ks ∧
        (highest (acceptedIds init [] ks) = none ∨
          ∃ m, highest (acceptedIds init [] ks) = some m ∧ (k > m ∨ m - k < 896)) := by
  have hr := replay_window_refines_spec_run ks
  rw [(rel_step _ _ k hr).2]
  have hiff := accepts_iff ⟨acceptedIds init [] ks, highest (acceptedIds init [] ks)⟩ k
  by_cases hacc : Spec.accepts ⟨acceptedIds init [] ks, highest (acceptedIds init [] ks)⟩ k = true
  · rw [step_accept _ k hacc]
    simp only [true_iff]
    exact hiff.1 hacc
  · rw [step_reject _ k hacc]
    simp only [Bool.false_eq_true, false_iff]
    intro h; exact hacc (hiff.2 h)

/-- AT MOST ONCE. In any history: if `k` is answered `Ok` after the prefix `pre`, then — whatever
    calls `mid` happen in between (reordering, replays, other threads) — offering `k` again is
    not answered `Ok`. -/
theorem replay_at_most_once (pre mid : List Nat) (k : Nat)
    (h : isOk (postAuthentication (runState init pre) k).2 = true) :
    isOk (postAuthentication (runState init (pre ++ k :: mid)) k).2 = false := by
  obtain ⟨hr, _⟩ := rel_run init Spec.init pre rel_init
  have hs := rel_step _ _ k hr
  rw [hs.2] at h
  have hacc : (Spec.init.runState pre).accepts k = true := by
    by_cases hacc : (Spec.init.runState pre).accepts k = true
    · exact hacc
    · rw [step_reject _ k hacc] at h; cases h
  have hmem : k ∈ ((Spec.init.runState pre).step k).1.accepted := by
    rw [step_accept _ k hacc]; exact List.mem_cons_self
  obtain ⟨hr2, _⟩ := rel_run init Spec.init (pre ++ k :: mid) rel_init
  rw [(rel_step _ _ k hr2).2]
  have hmem2 : k ∈ (Spec.init.runState (pre ++ k :: mid)).accepted := by
    rw [spec_runState_append]
    exact accepted_mono _ mid k hmem
  have hrej : ¬ (Spec.init.runState (pre ++ k :: mid)).accepts k = true := by
    rw [accepts_iff]; intro ⟨_, hn, _⟩; exact hn hmem2
  rw [step_reject _ k hrej]

/-- AT MOST ONCE, multiset form: the list of ids answered `Ok` in a history (one entry per `Ok`
    answer) never contains an id twice. -/
theorem replay_accepted_nodup (ks : List Nat) : (acceptedIds init [] ks).Nodup := by
  obtain ⟨_, ha⟩ := rel_run init Spec.init ks rel_init
  have ha' : acceptedIds init [] ks = (Spec.init.runState ks).accepted := ha
  rw [ha']
  exact (specInv_run Spec.init ks specInv_init).nodup

/-- ERROR KINDS. `AlreadyExists` ("definitely seen") is returned exactly for ids that were answered
    `Ok` before and are still inside the window; every other refusal (reserved id, too old) is
    `Unknown`. -/
theorem replay_error_kinds (ks : List Nat) (k : Nat) :
    (postAuthentication (runState init ks) k).2 = .error .alreadyExists ↔
      k ≠ 4611686018427387903 ∧ k ∈ acceptedIds init [] ks ∧
        ∃ m, highest (acceptedIds init [] ks) = some m ∧ m - k < 896 :=
  post_already_iff _ _ k (replay_window_refines_spec_run ks)

/-- the reserved maximum id is never accepted, in any state whatsoever -/
theorem replay_max_id_never_accepted (s : State) :
    postAuthentication s 4611686018427387903 = (s, .error .unknown) := post_max s

/-- window edge, concretely: with highest accepted id 1000, id 105 (895 below) is accepted and
    id 104 (896 below) is not — the same on the real code (tools/gen/replay_window.py FIXED). -/
example : isOk (postAuthentication (runState init [1000]) 105).2 = true ∧
    isOk (postAuthentication (runState init [1000]) 104).2 = false := by
  constructor
  · rw [replay_exact]; decide +kernel
  · have := replay_exact [1000] 104
    cases h : isOk (postAuthentication (runState init [1000]) 104).2
    · rfl
    · exfalso
      have h2 := this.1 h
      revert h2; decide +kernel

/-- non-vacuity of `replay_at_most_once`: id 7 IS accepted after the history [900, 5] -/
example : isOk (postAuthentication (runState init [900, 5]) 7).2 = true := by
  rw [replay_exact]; decide +kernel

/-! ## sender: key-id counter -/

open Quic.Dc.KeyIds Quic.Proofs.DcKeyIds

/-- UNIQUENESS. In every interleaving of atomic `next_key_id` / `update_for_stale_key` steps by
    any number of threads, from any counter value, the ids handed out are strictly increasing in
    linearisation order — also across StaleKey (`fetch_max`) steps. -/
theorem keyids_strictly_increasing (c : Nat) (ss : List Step) :
    (issued c ss).Pairwise (· < ·) := by
  induction ss generalizing c with
  | nil => exact List.Pairwise.nil
  | cons s ss ih =>
    rw [issued_cons]
    cases hs : (step c s).2 with
    | none => exact ih _
    | some id =>
      obtain ⟨h1, h2, _⟩ := step_some c s id hs
      refine List.Pairwise.cons ?_ (ih _)
      intro x hx
      have := issued_ge _ ss x hx
      omega

/-- UNIQUENESS (headline form). For every interleaving `ss` of atomic steps by any number of
    threads, with arbitrary StaleKey values, starting from ANY counter value: the ids handed out
    are strictly increasing in linearisation order and hence pairwise distinct — no key id (so no
    key/nonce pair) is ever issued twice. -/
theorem keyids_unique (c : Nat) (ss : List Step) :
    (issued c ss).Pairwise (· < ·) ∧ (issued c ss).Nodup := by
  have h := keyids_strictly_increasing c ss
  exact ⟨h, h.imp (fun hlt => Nat.ne_of_lt hlt)⟩

/-- each thread sees a strictly increasing subsequence of the issued ids -/
theorem keyids_per_thread_increasing (t c : Nat) (ss : List Step) :
    (issuedTo t c ss).Pairwise (· < ·) ∧ (issuedTo t c ss).Sublist (issued c ss) := by
  have hsub : (issuedTo t c ss).Sublist (issued c ss) := by
    induction ss generalizing c with
    | nil => exact List.Sublist.slnil
    | cons s ss ih =>
      rw [issued_cons]
      show (match (step c s).2 with
        | some id => if s.tid = t then id :: issuedTo t (step c s).1 ss else issuedTo t (step c s).1 ss
        | none => issuedTo t (step c s).1 ss).Sublist _
      cases hs : (step c s).2 with
      | none => exact ih _
      | some id =>
        by_cases ht : s.tid = t
        · simp only [ht, if_true]; exact (ih _).cons_cons _
        · simp only [ht, if_false]; exact (ih _).cons _
  exact ⟨(keyids_strictly_increasing c ss).sublist hsub, hsub⟩

/-- NO WRAP. Every id handed out is at most 2^62 − 3: the reserved maximum 2^62 − 1 is never issued
    and the counter cannot run past the 62-bit id space … -/
theorem keyids_no_wrap (c : Nat) (ss : List Step) : ∀ x ∈ issued c ss, x + 2 < 4611686018427387904 := by
  induction ss generalizing c with
  | nil => intro x hx; cases hx
  | cons s ss ih =>
    intro x hx
    rw [issued_cons] at hx
    cases hs : (step c s).2 with
    | none => rw [hs] at hx; exact ih _ x hx
    | some id =>
      rw [hs] at hx
      obtain ⟨h1, _, h3⟩ := step_some c s id hs
      simp only [List.mem_cons] at hx
      rcases hx with hx | hx
      · unfold varIntMax at h3; omega
      · exact ih _ x hx

/-- … and the counter itself stays ≤ 2^62 − 1 as long as the StaleKey values are VarInts, so the
    `current + 1` inside `fetch_update` never overflows the u64. -/
theorem keyids_counter_bounded (c : Nat) (ss : List Step) (hc : c ≤ varIntMax)
    (hv : ∀ t v, Step.stale t v ∈ ss → v ≤ varIntMax) : runState c ss ≤ varIntMax := by
  induction ss generalizing c with
  | nil => exact hc
  | cons s ss ih =>
    apply ih
    · cases s with
      | next t =>
        show (next c).1 ≤ varIntMax
        rcases next_cases c with ⟨h1, h2⟩ | ⟨_, h2⟩ <;> rw [h2] <;> simp only <;> omega
      | stale t v =>
        show max c v ≤ varIntMax
        have := hv t v List.mem_cons_self
        exact Nat.max_le.2 ⟨hc, this⟩
    · intro t v hm; exact hv t v (List.mem_cons_of_mem _ hm)

/-- StaleKey is honoured: after `update_for_stale_key(v)` every id issued later is ≥ v. -/
theorem keyids_stale_respected (c t v : Nat) (ss : List Step) :
    ∀ x ∈ issued c (Step.stale t v :: ss), v ≤ x := by
  intro x hx
  have : x ∈ issued (staleKey c v) ss := hx
  have h := issued_ge _ ss x this
  have : v ≤ staleKey c v := Nat.le_max_right _ _
  omega

/-- non-vacuity: two threads and a StaleKey in between really issue ids -/
example : issued Quic.Dc.KeyIds.init [.next 0, .next 1, .stale 2 10, .next 0, .stale 2 3, .next 1] = [0, 1, 10, 11] := by
  decide

/-- the counter refuses (the Rust code panics) instead of handing out 2^62 − 2 … or wrapping -/
example : next 4611686018427387902 = (4611686018427387902, none) ∧
    next 4611686018427387901 = (4611686018427387902, some 4611686018427387901) := by
  decide

/-! ## receiver and sender together: StaleKey resynchronisation -/

/-- the id a receiver advertises in a StaleKey packet is above every id it has accepted -/
theorem replay_min_unseen_above_accepted (ks : List Nat) (hks : ∀ k ∈ ks, k ≤ 4611686018427387903) :
    ∀ x ∈ acceptedIds init [] ks, x < minimumUnseenKeyId (runState init ks) := by
  intro x hx
  have hr := replay_window_refines_spec_run ks
  obtain ⟨_, ha⟩ := rel_run init Spec.init ks rel_init
  have ha' : acceptedIds init [] ks = (Spec.init.runState ks).accepted := ha
  have hinv := specInv_run Spec.init ks specInv_init
  obtain ⟨m, hm, hxm⟩ := hr.le_max x hx
  have hm' : highest (acceptedIds init [] ks) = some m := hm
  have hmem := highest_mem _ m hm'
  have hmks : m ∈ ks := by
    rcases accepted_subset init [] ks m hmem with h | h
    · cases h
    · exact h
  have hmle := hks m hmks
  have hmne : m ≠ keyIdMax := by
    intro he; apply hinv.no_max; rw [← ha', ← he]; exact hmem
  have hms : (runState init ks).maxSeen = some m := by rw [hr.max_eq]; exact hm
  unfold minimumUnseenKeyId
  rw [hms]
  unfold keyIdMax at *
  simp only
  split <;> omega

/-- RESYNCHRONISATION IS SAFE AND EFFECTIVE. Let a receiver have processed any history `ks`, and
    let the sender apply the StaleKey value the receiver advertises (`minimum_unseen_key_id`) at
    any point of any interleaving. Then every id the sender hands out afterwards is one the
    receiver (in that state) accepts: it is not reserved, was never accepted, and lies above the
    receiver's maximum. -/
theorem stale_resync_fresh (ks : List Nat) (hks : ∀ k ∈ ks, k ≤ 4611686018427387903)
    (c t : Nat) (ss : List Step) :
    ∀ x ∈ issued c (Step.stale t (minimumUnseenKeyId (runState init ks)) :: ss),
      isOk (postAuthentication (runState init ks) x).2 = true := by
  intro x hx
  have hge := keyids_stale_respected c t _ ss x hx
  have hnw := keyids_no_wrap c _ x hx
  have habove := replay_min_unseen_above_accepted ks hks
  rw [replay_exact]
  refine ⟨by omega, ?_, ?_⟩
  · intro hmem; have := habove x hmem; omega
  · cases hh : highest (acceptedIds init [] ks) with
    | none => exact Or.inl rfl
    | some m =>
      right
      refine ⟨m, rfl, Or.inl ?_⟩
      have := habove m (highest_mem _ m hh)
      omega

/-- non-vacuity: after the receiver saw [5, 900, 7], StaleKey carries 901 and the sender, wherever
    its counter was, continues with 901, 902 -/
example : issued 3 [.stale 0 901, .next 1, .next 2] = [901, 902] := by decide

end Quic.Proofs.C19
