import QuicProofs.Lemmas.IdMapper
/-
  C13 — "every datagram addressed to any of its unretired IDs is delivered to the connection the ID was issued for",
  the part that involves MORE THAN ONE connection of an endpoint: `ConnectionIdMapper::lookup_internal_connection_id`
  consults the map of issued ids (`local_id_map`) before the map of client-chosen original Destination Connection IDs
  (`initial_id_map`, remote-controlled content). Model: `Conn.IdMapper`; the consultation order is re-read from the
  source by tie G (`Bridge.CidMapper.lookup_order_eq`).
-/
namespace Quic.Proofs.C13
open Quic.Conn Quic.Conn.IdMapper
open Quic.Conn.LocalIds (Cid mapGet mapTryInsert mapRemove)
open Quic.Proofs.IdMapper (run_initial_ops_localMap)

/-- **lookup_issued_id_ignores_initial_map**: an id present in the map of issued ids is routed to its owner, whatever
    the initial-id map contains (any endpoint type, any client-chosen original DCIDs of other connections). -/
theorem lookup_issued_id_ignores_initial_map (s : State) (id : Cid) (owner : Nat)
    (h : mapGet s.localMap id = some owner) :
    lookup s id = some (owner, Classification.issued) := by
  simp [lookup, lookupOrder, lookupIn, consult, h]

/-- the same statement with the initial-id map made explicit: replacing both directions of `initial_id_map` (and the
    endpoint type) by ANYTHING does not change where an issued id is routed -/
theorem lookup_issued_id_indep (s : State) (id : Cid) (owner : Nat) (srv : Bool) (i2n : List (Cid × Nat)) (n2i : List (Nat × Cid))
    (h : mapGet s.localMap id = some owner) :
    lookup { s with isServer := srv, initToInt := i2n, intToInit := n2i } id = lookup s id := by
  rw [lookup_issued_id_ignores_initial_map s id owner h]
  exact lookup_issued_id_ignores_initial_map _ id owner h

/-- non-vacuity: the issued id `[1..8]` of connection 0 is ALSO the original DCID a second client chose (connection 1) -/
example : lookup { isServer := true, localMap := [([1, 2, 3, 4, 5, 6, 7, 8], 0)], initToInt := [([1, 2, 3, 4, 5, 6, 7, 8], 1)],
                   intToInit := [(1, [1, 2, 3, 4, 5, 6, 7, 8])] } [1, 2, 3, 4, 5, 6, 7, 8] = some (0, Classification.issued) := by decide

/-- **swapped_lookup_order_counterexample**: the statement is about the ORDER. With the two maps consulted the other
    way round, the same state routes connection 0's issued id to the stranger's connection 1. -/
theorem swapped_lookup_order_counterexample :
    ∃ (s : State) (id : Cid) (owner : Nat), mapGet s.localMap id = some owner ∧
      lookupIn [.initialMap, .localMap] s id ≠ some (owner, Classification.issued) :=
  ⟨{ isServer := true, localMap := [([1, 2, 3, 4, 5, 6, 7, 8], 0)], initToInt := [([1, 2, 3, 4, 5, 6, 7, 8], 1)],
     intToInit := [(1, [1, 2, 3, 4, 5, 6, 7, 8])] }, [1, 2, 3, 4, 5, 6, 7, 8], 0, by decide, by decide⟩

/-- the initial-id map is a fallback only: ids that were not issued, on a server, long enough to be an `InitialId` -/
theorem lookup_fallback (s : State) (id : Cid) (h : mapGet s.localMap id = none) :
    lookup s id = if s.isServer && decide (initialIdMinLen ≤ id.length)
                  then (mapGet s.initToInt id).map (fun o => (o, Classification.initial)) else none := by
  by_cases hc : (s.isServer && decide (initialIdMinLen ≤ id.length)) = true
  · cases hm : mapGet s.initToInt id <;> simp [lookup, lookupOrder, lookupIn, consult, h, hc, hm]
  · simp [lookup, lookupOrder, lookupIn, consult, h, hc]

/-- a client never answers from the initial-id map -/
theorem lookup_client (s : State) (id : Cid) (hc : s.isServer = false) :
    lookup s id = (mapGet s.localMap id).map (fun o => (o, Classification.issued)) := by
  cases h : mapGet s.localMap id with
  | some o => simp [lookup_issued_id_ignores_initial_map s id o h]
  | none => simp [lookup_fallback s id h, hc]

/-! ### over histories: what other connections do to the initial-id map never re-routes an issued id -/

/-- **issued_id_routed_after_any_initial_traffic**: once an id is registered for `owner`, ANY sequence of first
    Initials of other connections (`try_insert_initial_id` with client-chosen ids — including that very id) and
    initial-id removals leaves it routed to `owner`. -/
theorem issued_id_routed_after_any_initial_traffic (s : State) (id : Cid) (owner : Nat) (ops : List Op)
    (hreg : mapGet s.localMap id = some owner) (hops : ∀ op ∈ ops, op.isInitialOp = true) :
    lookup (run s ops) id = some (owner, Classification.issued) := by
  apply lookup_issued_id_ignores_initial_map
  rw [run_initial_ops_localMap s ops hops]
  exact hreg

/-- non-vacuity: a second client's first Initial carries connection 0's issued id; the entry IS in the initial map, the lookup ignores it -/
example :
    let s := run { isServer := true } [.insertLocal [1, 2, 3, 4, 5, 6, 7, 8] 0, .insertInitial [1, 2, 3, 4, 5, 6, 7, 8] 1]
    mapGet s.initToInt [1, 2, 3, 4, 5, 6, 7, 8] = some 1 ∧ lookup s [1, 2, 3, 4, 5, 6, 7, 8] = some (0, Classification.issued) := by decide

/-- registering an id that is free in the issued map routes it to the registrant at once, even when a stranger's
    connection already sits on it in the initial-id map (the order "second client first, NEW_CONNECTION_ID later") -/
theorem insertLocal_routes (s : State) (id : Cid) (owner : Nat) (hfree : mapGet s.localMap id = none) :
    lookup (step s (.insertLocal id owner)) id = some (owner, Classification.issued) := by
  apply lookup_issued_id_ignores_initial_map
  have hstep : (step s (.insertLocal id owner)).localMap = (id, owner) :: s.localMap := by
    simp only [step, mapTryInsert, hfree]
  rw [hstep]
  simp [mapGet]

example :
    let s := run { isServer := true } [.insertInitial [1, 2, 3, 4, 5, 6, 7, 8] 1, .insertLocal [1, 2, 3, 4, 5, 6, 7, 8] 0]
    lookup s [1, 2, 3, 4, 5, 6, 7, 8] = some (0, Classification.issued) := by decide

end Quic.Proofs.C13
