import QuicProofs.Lemmas.AckTrace
/-
  C08 (ACK half), tie T: soundness of the `ack-trace` acceptor (`Quic.Drivers.AckTrace`). The acceptor
  replays what a REAL endpoint did (tools/e2e_ops_ack.py) through the `AckManager` model in relational
  mode. The theorem says what an `ok` answer is worth: whenever the acceptor accepts a transmission,
  every packet number in its ACK ranges was the packet number of an earlier `rx` op — for every op
  sequence whatsoever (also malformed / adversarial ones, whatever was answered before).
-/
namespace Quic.Proofs.C08
open Quic.Conn.AckManager Quic.Data.IvSet Quic.Data.IvSpec Quic.Drivers.AckTrace Quic.Proofs.AckTraceLemmas

/-- one accepted `tx`: after ANY op prefix `pre`, if the acceptor answers `ok` to a transmission with
    ACK ranges `obs`, every acknowledged packet number was received (`rx`) in `pre` -/
theorem accepted_tx_acks_only_processed (pre : List TOp) (t own : Nat) (ae : Bool) (obs : List Interval) (m : Mode)
    (hok : (accept (accRun Acc.init pre) (.tx t own ae (some obs) m)).2.isOk = true) :
    ∀ x, Mem obs x → RxIn pre x := by
  intro x hx
  have hinv := accRun_inv pre Acc.init (fun _ => False) (fun s hs => by simp [Acc.init] at hs)
  rcases accept_tx_ok (accRun Acc.init pre) t own ae obs m hinv hok x hx with h | h
  · exact absurd h id
  · exact h

/-- a trace accepted throughout: every pn in any `tx` ACK range was the pn of an earlier `rx` op -/
theorem accepted_trace_acks_only_processed (ops : List TOp)
    (hall : ∀ ans ∈ acceptAll Acc.init ops, ans.isOk = true)
    (pre : List TOp) (t own : Nat) (ae : Bool) (obs : List Interval) (m : Mode) (post : List TOp)
    (hsplit : ops = pre ++ .tx t own ae (some obs) m :: post) :
    ∀ x, Mem obs x → RxIn pre x := by
  apply accepted_tx_acks_only_processed pre t own ae obs m
  apply hall
  rw [hsplit]
  exact acceptAll_mem pre _ post Acc.init

/-- non-vacuity: a small accepted trace (in-order packet, delayed ACK at the timer deadline, a
    reordered packet acknowledged at once) … -/
def sampleTrace : List TOp :=
  [ .cfg 25000 10, .rx 0 1 true false false, .rx 1000 2 true false false,
    .tx 25000 0 false (some [⟨1, 2⟩]) .normal, .rx 30000 5 true false false,
    .tx 30000 1 false (some [⟨5, 5⟩, ⟨1, 2⟩]) .normal ]

example : (acceptAll Acc.init sampleTrace).all Ans.isOk = true := by decide +kernel

/-- … and the acceptor rejects an ACK naming a packet number that was never received, an ACK that does
    not start at the largest range, and a packet without ACK frame while the model is `Active` -/
example : (accept (accRun Acc.init (sampleTrace.take 3)) (.tx 25000 0 false (some [⟨1, 3⟩]) .normal)).2 = .err "ack-unprocessed" := by
  decide +kernel
example : (accept (accRun Acc.init (sampleTrace.take 5)) (.tx 30000 1 false (some [⟨1, 2⟩]) .normal)).2 = .err "ack-not-from-top" := by
  decide +kernel
example : (accept (accRun Acc.init (sampleTrace.take 5)) (.tx 30000 1 true none .normal)).2 = .err "forced-ack-omitted" := by
  decide +kernel

end Quic.Proofs.C08
