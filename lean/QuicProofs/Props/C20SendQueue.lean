import QuicModel.Dc.SendQueue
import QuicProofs.Lemmas.DcSendQueue
/-
  C20 — "Over s2n-quic-dc streams, on both the UDP and the TCP transport, the bytes one application reads are
  exactly the bytes the other wrote, in order and complete at end of stream …".

  This file is the TCP half's missing link: the application-side SEND QUEUE
  (dc/s2n-quic-dc/src/stream/send/queue.rs, model `Quic.Dc.SendQueue`). Over TCP there is no recovery layer
  above the socket: the sealed packets are a byte stream, and whatever this queue hands to `poll_send` is what
  the peer's decoder sees. So byte-exactness of the stream needs, for EVERY sequence of pushes and EVERY
  behaviour of the socket (short writes of any sizes, Pending, in any interleaving with pushes):

    sendq_exact                   pushed = accepted-by-the-socket ++ still-pending        (nothing twice, nothing skipped)
    sendq_prefix / sendq_complete accepted is a prefix of pushed; the whole of it once the queue reports empty
    sendq_ready_means_flushed     `poll_flush` reports Ready(credit) only when everything queued so far has been
                                  accepted by the socket, and the credit is `min limit accepted_len`
    sendq_credit_conserved        credit recorded by `push_buffer` = credit reported + credit still held
    sendq_pending_only_if_told    `poll_flush` gives up with Pending only after the socket answered Pending
    sendq_error_failstop          a socket error is returned to the caller, the queue and its credit are dropped,
                                  and what the socket accepted up to then is still a prefix of what was pushed
    sendq_offsets_in_range        every queued segment keeps `offset < len <= u16::MAX` (no empty iovec is left at
                                  the front, the u16 offset never wraps, `debug_assert`s of consume_segments hold)
    sendq_first_segment_offered   a non-empty queue always offers (at least) the rest of its first segment
    sendq_seeded_counterexample   the variant `segment.offset = n` (for `+=`) breaks sendq_prefix on a 5-byte segment
                                  written in three pieces — the second consecutive short write inside one segment

  Datagram sockets (`poll_flush_segments_datagram`) are modelled (`flushDgram`) and differentially tested, and
  `dgram_whole_segments` states what holds there: only whole segments are offered, in queue order, each at most
  once; delivery is the recovery layer's business (C20DcStream), not this queue's.

  LEVEL: the model is a transcription tied to the code by D (harness/vh-dc `dc_sendqueue` drives the REAL Queue against
  a scripted mock socket; queue contents incl. offsets are compared after every op) and G
  (tools/extractors/dc_sendqueue.py -> Bridge.DcSendQueue). Outside: the kernel's TCP, the sealing of packets
  (`Message::push` callers), wakers.
-/
namespace Quic.Proofs.C20
open Quic.Dc.SendQueue
open Quic.Proofs.DcSendQueueLemmas

/-- EXACT — for every history of pushes and flushes, every iovec limit `cap`, and every behaviour of the socket
    that is not an error (short writes of any size incl. 0, Pending, exhausted scripts, in any interleaving with
    pushes): the concatenation of all pushed segments is what the socket accepted so far followed by exactly
    what is still queued — nothing is handed to the socket twice, nothing is skipped, nothing is reordered. -/
theorem sendq_exact (cap : Nat) (ops : List Op) (he : ∀ op ∈ ops, op.errorFree = true) :
    (run cap {} ops).pushed = (run cap {} ops).sent ++ (run cap {} ops).q.pending :=
  (sendq_inv_run cap ops {} sendq_inv_init he).exact

/-- PREFIX — what the socket accepted is a prefix of what was pushed -/
theorem sendq_prefix (cap : Nat) (ops : List Op) (he : ∀ op ∈ ops, op.errorFree = true) :
    (run cap {} ops).sent <+: (run cap {} ops).pushed :=
  ⟨_, (sendq_exact cap ops he).symm⟩

/-- COMPLETE — once the queue reports `is_empty()`, the socket has accepted everything that was pushed -/
theorem sendq_complete (cap : Nat) (ops : List Op) (he : ∀ op ∈ ops, op.errorFree = true)
    (hempty : (run cap {} ops).q.isEmpty = true) :
    (run cap {} ops).sent = (run cap {} ops).pushed := by
  have h := sendq_exact cap ops he
  have : (run cap {} ops).q.segments = [] := by simpa [Queue.isEmpty] using hempty
  rw [h]; simp [Queue.pending, this, pendingOf]

/-- CREDIT CONSERVATION — the application bytes `push_buffer` took responsibility for are those already reported
    back by `poll_flush` plus those still held in `accepted_len`: none invented, none lost -/
theorem sendq_credit_conserved (cap : Nat) (ops : List Op) (he : ∀ op ∈ ops, op.errorFree = true) :
    (run cap {} ops).creditIn = (run cap {} ops).creditOut + (run cap {} ops).q.acceptedLen :=
  (sendq_inv_run cap ops {} sendq_inv_init he).credit

/-- CREDIT ONLY WHEN FLUSHED — after any error-free history, a `poll_flush` that reports `Ready(k)` has an empty
    queue, the socket has accepted EVERYTHING pushed so far, and `k = min limit accepted_len` (which it subtracts) -/
theorem sendq_ready_means_flushed (cap : Nat) (ops : List Op) (he : ∀ op ∈ ops, op.errorFree = true)
    (limit : Nat) (script : List Answer) (hs : script.all (fun a => !a.isError) = true) (k : Nat)
    (hr : (pollFlushStream cap (run cap {} ops).q limit script).2.1 = .ready k) :
    let t := run cap {} ops
    let t' := step cap t (.flush limit script)
    t'.q.segments = [] ∧ t'.sent = t'.pushed ∧ k = min limit t.q.acceptedLen ∧
      t'.q.acceptedLen = t.q.acceptedLen - k := by
  intro t t'
  have hinv : SendqInv t' := sendq_inv_step cap t _ (sendq_inv_run cap ops {} sendq_inv_init he) hs
  obtain ⟨_, hacc, hready, _, _, _⟩ := flushStream_split cap script t.q
  have hne := flushStream_no_err cap t.q script hs
  obtain ⟨ho, hk, hacc'⟩ := finish_ready _ _ _ _ hr
  have hseg : t'.q.segments = [] := by
    simp only [t', step, pollFlushStream, finish_segments]; exact hready ho
  refine ⟨hseg, ?_, ?_, ?_⟩
  · have := hinv.exact
    rw [this]; simp [Queue.pending, hseg, pendingOf]
  · rw [hk, hacc hne]
  · simp only [t', step, pollFlushStream]
    rw [hacc', hacc hne]

/-- PENDING ONLY IF TOLD — `poll_flush` returns Pending only when a `poll_send` of this very call was answered
    Pending (it keeps draining after every short write) -/
theorem sendq_pending_only_if_told (cap : Nat) (q : Queue) (limit : Nat) (script : List Answer)
    (h : (pollFlushStream cap q limit script).2.1 = .pending) :
    ∃ c ∈ (pollFlushStream cap q limit script).2.2, c.answer = .pending := by
  obtain ⟨_, _, _, _, _, hp⟩ := flushStream_split cap script q
  exact hp ((finish_pending _ _ _).mp h)

/-- FAIL-STOP — if some `poll_send` of a flush is answered with an error, `poll_flush` returns the error, the queue
    and its credit are dropped (`segments.clear(); accepted_len = 0`), and what the socket accepted up to and
    including that flush is still a prefix of what was pushed (the peer sees a truncated, never a corrupted stream) -/
theorem sendq_error_failstop (cap : Nat) (ops : List Op) (he : ∀ op ∈ ops, op.errorFree = true)
    (limit : Nat) (script : List Answer)
    (herr : ∃ c ∈ (pollFlushStream cap (run cap {} ops).q limit script).2.2, c.answer.isError = true) :
    let t := run cap {} ops
    let t' := step cap t (.flush limit script)
    (pollFlushStream cap t.q limit script).2.1 = .err ∧ t'.q = { segments := [], acceptedLen := 0 } ∧
      t'.sent <+: t'.pushed := by
  intro t t'
  have hinv := sendq_inv_run cap ops {} sendq_inv_init he
  obtain ⟨⟨rest, hsplit, _⟩, _, _, hclr, herrc, _⟩ := flushStream_split cap script t.q
  have ho : (flushStream cap t.q script).2.1 = .err := herrc.mpr herr
  refine ⟨((finish_err _ limit _).1).mpr ho, ?_, ?_⟩
  · simp only [t', step, pollFlushStream]
    rw [(finish_err _ limit _).2 ho]; exact hclr ho
  · refine ⟨rest, ?_⟩
    simp only [t', step, pollFlushStream]
    have := hinv.exact
    simp only [Queue.pending] at this hsplit
    rw [this, hsplit, List.append_assoc]

/-- the pushes of a history only queue real packets: non-empty, at most `u16::MAX` bytes (`packet_len: u16`) -/
def Op.segsOk : Op → Prop
  | .push segs _ _ => ∀ p ∈ segs, 0 < p.2.length ∧ p.2.length ≤ u16Max
  | .flush _ _ => True

/-- OFFSETS IN RANGE — in every history (socket errors included) every queued segment satisfies
    `offset < buffer.len() <= u16::MAX`: the partially written segment at the front always has bytes left
    (`debug_assert!(!segment.as_slice().is_empty())`), and `offset += n as u16` never wraps -/
theorem sendq_offsets_in_range (cap : Nat) (ops : List Op) (hs : ∀ op ∈ ops, Op.segsOk op) :
    ∀ s ∈ (run cap {} ops).q.segments, s.offset < s.buffer.length ∧ s.buffer.length ≤ u16Max := by
  suffices h : ∀ (ops : List Op) (t : Trace), WF t.q.segments → (∀ op ∈ ops, Op.segsOk op) → WF (run cap t ops).q.segments from
    h ops {} (fun s hs => by cases hs) hs
  intro ops
  induction ops with
  | nil => intro t h _; exact h
  | cons op ops ih =>
    intro t h hs
    refine ih _ ?_ (fun o ho => hs o (List.mem_cons_of_mem _ ho))
    have hop := hs op (List.mem_cons_self ..)
    cases op with
    | push segs consumed ok =>
      intro s hsm
      simp only [step, pushBuffer, List.mem_append] at hsm
      rcases hsm with hsm | hsm
      · exact h s hsm
      · simp only [mkSegments, List.mem_map] at hsm
        obtain ⟨p, hp, rfl⟩ := hsm
        exact hop p hp
    | flush limit script =>
      have := flushStream_wf cap script t.q h
      simp only [step, pollFlushStream, finish_segments]
      exact this

/-- the remaining-byte check of `consume_segments` (`debug_assert_eq!(remaining, 0)`): a socket that accepts no more
    than it was offered never leaves `remaining` bytes unaccounted for -/
theorem sendq_consume_no_overrun (segs : List Segment) (n : Nat) (h : n ≤ (pendingOf segs).length) :
    (consumeLoop n segs).2 = 0 ∧ pendingOf (consumeLoop n segs).1 = (pendingOf segs).drop n :=
  ⟨(consumeLoop_pending segs n h).2, (consumeLoop_pending segs n h).1⟩

/-- FIRST SEGMENT OFFERED — on a stream socket a non-empty queue always offers the rest of its first segment
    (so a socket that accepts what it is offered makes progress in every call when segments are non-empty) -/
theorem sendq_first_segment_offered (cap : Nat) (seg : Segment) (rest : List Segment) :
    ∃ more, buildBatch true cap (seg :: rest) = seg.asSlice :: more :=
  buildBatch_stream_head cap seg rest

/-! ### the seeded variant is refuted -/

/-- COUNTEREXAMPLE for the variant `segment.offset = n` (instead of `+=`): one 5-byte segment, socket accepts
    2 bytes, then 1 byte, then the rest. The second short write sets `offset = 1` instead of 3, so bytes
    `02 03` are handed to the socket a second time: the accepted bytes are no prefix of the pushed bytes.
    The same history on the real model is exact. -/
theorem sendq_seeded_counterexample :
    let q := pushBuffer {} [(2, [1, 2, 3, 4, 5])] 5 true
    let script := [Answer.accept 2, Answer.accept 1, Answer.accept 9]
    sentOf (Seeded.pollFlushStream maxCount q 100 script).2.2 = [1, 2, 3, 2, 3, 4, 5] ∧
      ¬ (sentOf (Seeded.pollFlushStream maxCount q 100 script).2.2 <+: [1, 2, 3, 4, 5]) ∧
      sentOf (pollFlushStream maxCount q 100 script).2.2 = [1, 2, 3, 4, 5] ∧
      (pollFlushStream maxCount q 100 script).2.1 = .ready 5 := by
  refine ⟨by decide, ?_, by decide, by decide⟩
  have h : sentOf (Seeded.pollFlushStream maxCount (pushBuffer {} [(2, [1, 2, 3, 4, 5])] 5 true) 100
      [Answer.accept 2, Answer.accept 1, Answer.accept 9]).2.2 = [1, 2, 3, 2, 3, 4, 5] := by decide
  rw [h]
  decide

/-- a single short write does not expose the seeded variant (offset 0 + n = n): it takes the SECOND consecutive
    short write inside the same segment — which is why the generator of tie D produces such histories -/
theorem sendq_seeded_needs_two_short_writes :
    let q := pushBuffer {} [(2, [1, 2, 3, 4, 5])] 5 true
    sentOf (Seeded.pollFlushStream maxCount q 100 [Answer.accept 2, Answer.accept 9]).2.2 = [1, 2, 3, 4, 5] := by
  decide

/-! ### datagram sockets -/

/-- WHOLE SEGMENTS (datagram path) — with all offsets 0 (nothing is ever partially written on a datagram socket),
    one `poll_flush_segments_datagram` offers only whole queued segments, in queue order, each at most once:
    the queue before = the segments offered in the calls ++ the queue after. (Segments offered in a call the
    socket answered with Pending or an error are dropped all the same: UDP delivery is the recovery layer's job.) -/
theorem dgram_whole_segments (cap : Nat) (script : List Answer) :
    ∀ (q : Queue) (maxSeg gso : Nat), (∀ s ∈ q.segments, s.offset = 0) →
      let r := flushDgram cap q maxSeg gso script
      q.segments.map (·.buffer) = (r.2.2.2.map (·.offered)).flatten ++ r.1.segments.map (·.buffer) ∧
        (∀ s ∈ r.1.segments, s.offset = 0) := by
  have key : ∀ (q : Queue) (maxSeg : Nat), (∀ s ∈ q.segments, s.offset = 0) →
      q.segments.map (·.buffer) = buildBatch false cap (q.segments.take maxSeg) ++
        (q.segments.drop (buildBatch false cap (q.segments.take maxSeg)).length).map (·.buffer) ∧
      (∀ s ∈ q.segments.drop (buildBatch false cap (q.segments.take maxSeg)).length, s.offset = 0) := by
    intro q maxSeg h0
    obtain ⟨k, hk⟩ := buildBatch_take false cap (q.segments.take maxSeg)
    have hslice : ∀ l : List Segment, (∀ s ∈ l, s.offset = 0) → l.map Segment.asSlice = l.map (·.buffer) := by
      intro l hl
      apply List.map_congr_left
      intro s hs
      simp [Segment.asSlice, hl s hs]
    have hlen : (buildBatch false cap (q.segments.take maxSeg)).length = min k (min maxSeg q.segments.length) := by
      rw [hk]; simp
    refine ⟨?_, fun s hs => h0 s (List.mem_of_mem_drop hs)⟩
    rw [hlen, hk, List.take_take]
    rw [hslice _ (fun s hs => h0 s (List.mem_of_mem_take hs))]
    rw [← List.map_append]
    congr 1
    have : List.take (min k maxSeg) q.segments = List.take (min k (min maxSeg q.segments.length)) q.segments := by
      rw [List.take_eq_take_iff]; omega
    rw [this, List.take_append_drop]
  induction script with
  | nil =>
    intro q maxSeg gso h0
    simp only [flushDgram]
    split
    · exact ⟨by simp, h0⟩
    · obtain ⟨a, b⟩ := key q maxSeg h0
      exact ⟨by simpa using a, b⟩
  | cons a script ih =>
    intro q maxSeg gso h0
    simp only [flushDgram]
    split
    · exact ⟨by simp, h0⟩
    · obtain ⟨ha, hb⟩ := key q maxSeg h0
      cases a with
      | pending => exact ⟨by simpa using ha, hb⟩
      | error e => exact ⟨by simpa using ha, hb⟩
      | accept n =>
        simp only []
        obtain ⟨ia, ib⟩ := ih { q with segments := q.segments.drop (buildBatch false cap (q.segments.take maxSeg)).length } maxSeg gso hb
        refine ⟨?_, ib⟩
        simp only [List.map_cons, List.flatten_cons, List.append_assoc]
        rw [← ia]
        exact ha

/-! ### non-vacuity: concrete histories the theorems speak about -/

/-- three segments; short writes inside a segment (2 then 1 then 1), across a boundary, exactly at a boundary, a
    Pending in between, a push between short writes — error-free, ends with an empty queue and all credit reported -/
def sendqDemo : List Op :=
  [ .push [(2, [1, 2, 3, 4, 5]), (2, [6, 7, 8, 9, 10])] 8 true,
    .flush 100 [.accept 2, .accept 1, .pending],
    .flush 100 [.accept 1, .accept 0],
    .push [(1, [11, 12, 13])] 3 true,
    .flush 4 [.accept 1, .accept 5, .accept 2, .accept 100],
    .flush 100 [] ]

example : ∀ op ∈ sendqDemo, op.errorFree = true := by decide
example : ∀ op ∈ sendqDemo, Op.segsOk op := by
  intro op h
  simp only [sendqDemo, List.mem_cons, List.mem_nil_iff, or_false] at h
  rcases h with rfl | rfl | rfl | rfl | rfl | rfl <;> simp [Op.segsOk, u16Max]
example : (run maxCount {} sendqDemo).sent = [1, 2, 3, 4, 5, 6, 7, 8, 9, 10, 11, 12, 13] := by decide
example : (run maxCount {} sendqDemo).results = [.pending, .pending, .ready 4, .ready 7] := by decide
example : (run maxCount {} sendqDemo).q.isEmpty = true := by decide
/-- in the middle of the demo the front segment is partially written: offset 3 after the short writes 2 + 1 -/
example : (run maxCount {} (sendqDemo.take 2)).q.segments.map (·.offset) = [3, 0] := by decide
/-- `sendq_ready_means_flushed` is not vacuous: the third flush of the demo reports Ready(4) with limit 4 < credit 11 -/
example : (pollFlushStream maxCount (run maxCount {} (sendqDemo.take 4)).q 4
    [.accept 1, .accept 5, .accept 2, .accept 100]).2.1 = .ready 4 := by decide
/-- `sendq_error_failstop` is not vacuous -/
example : ∃ c ∈ (pollFlushStream maxCount (run maxCount {} (sendqDemo.take 1)).q 100 [.accept 3, .error false]).2.2,
    c.answer.isError = true := by decide
/-- `dgram_whole_segments` is not vacuous: 3 queued datagrams, GSO batch of 2, second call Pending drops the third -/
example :
    let q := pushBuffer {} [(2, [1, 2]), (2, [3, 4]), (2, [5, 6])] 6 true
    (∀ s ∈ q.segments, s.offset = 0) ∧
      (pollFlushDgram maxCount q 2 100 [.accept 0, .pending]).2.2.2.map (·.offered) = [[[1, 2], [3, 4]], [[5, 6]]] ∧
      (pollFlushDgram maxCount q 2 100 [.accept 0, .pending]).1.segments = [] := by decide

end Quic.Proofs.C20
