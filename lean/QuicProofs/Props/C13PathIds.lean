import QuicProofs.Lemmas.PathIds
/-
  C13 / RFC 9000 §5.1.2 ("Upon receipt of an increased Retire Prior To field, the peer MUST stop using the corresponding
  connection IDs"): which peer connection id addresses the packets of which path (`Conn.PathIds` over the transcribed
  `PeerIdRegistry`).

  * packets on the ACTIVE path are never addressed to an id the peer asked to retire — for every history of new paths,
    migrations (also back to known paths), NEW_CONNECTION_ID frames and transmissions (`active_path_packets_unretired`)
  * the same statement for ALL packets is FALSE of the code: a path-validation probe on a non-active path is addressed to
    the id stored with that path, which `on_new_connection_id` does not replace (`inactive_path_probe_retired_id_counterexample`;
    observed on the real endpoints by tools/e2e_c13mig.py `o_c13_dcid`, signature e2e:c13:dcid-retired:path-validation-probe)
  * dropping the write-back in `update_active_path` breaks the first statement (`no_write_back_counterexample`); the
    write-back is pinned in the source by tie G (Bridge.CidMapper.known_path_peer_id)
-/
namespace Quic.Proofs.C13
open Quic.Conn Quic.Conn.PathIds
open Quic.Proofs.PathIds (hasActive_isActive pathInv_run pathInv_init)

/-- **active_path_packets_unretired**: in every history (paths created by peer migrations with or without a change of
    the destination id, migrations to new and back to known paths, NEW_CONNECTION_ID frames with any Retire Prior To,
    transmissions at any moment) every packet built for the ACTIVE path is addressed to an id the registry still has
    active, i.e. one the peer has not asked to retire; and the active path's id is such an id at every moment. -/
theorem active_path_packets_unretired (peerId : PeerIds.Cid) (rot : Bool) (ops : List Op) :
    let s := run true (init peerId rot) ops
    PeerIds.isActive s.reg s.reg.activeCid = true ∧ ∀ x ∈ s.sent, x.onActive = true → x.unretired = true :=
  let h := pathInv_run (pathInv_init peerId rot) ops
  ⟨hasActive_isActive h.reg.act, h.sentOk⟩

/-- the history of the end-to-end witness: the client moves A -> B before its NEW_CONNECTION_ID (Retire Prior To 1)
    arrives, later moves back to A -/
def witnessOps : List Op :=
  [.newPath false, .switchTo 1, .onNewConnectionId [0xb1] 1 1 [1], .onNewConnectionId [0xb2] 2 1 [2], .send 1, .send 0,
   .switchTo 0, .send 0]

/-- non-vacuity of `active_path_packets_unretired`: the witness history sends on the active path three times (the last
    time on the re-activated path A, whose retired id 0xa0 was replaced by 0xb2) -/
example : (run true (init [0xa0] false) witnessOps).sent.filter (·.onActive) =
    [⟨1, [0xb1], true, true⟩, ⟨0, [0xb2], true, true⟩] := by decide

/-- **all_packets_unretired_counterexample** (full strength "no packet at all is addressed to an id below a processed
    Retire Prior To" is FALSE of the code): after the peer retired sequence number 0, the path-validation probe on the
    non-active path A is still addressed to it. -/
theorem inactive_path_probe_retired_id_counterexample :
    ∃ ops, ∃ x ∈ (run true (init [0xa0] false) ops).sent, x.onActive = false ∧ x.unretired = false :=
  ⟨witnessOps, ⟨0, [0xa0], false, false⟩, by decide, rfl, rfl⟩

/-- **no_write_back_counterexample**: without the store `self[new_path_id].peer_connection_id = peer_connection_id`
    in `update_active_path` the re-activated path A keeps the retired id: packets on the ACTIVE path go to it. -/
theorem no_write_back_counterexample :
    ∃ ops, ∃ x ∈ (run false (init [0xa0] false) ops).sent, x.onActive = true ∧ x.unretired = false :=
  ⟨witnessOps, ⟨0, [0xa0], true, false⟩, by decide, rfl, rfl⟩

end Quic.Proofs.C13
