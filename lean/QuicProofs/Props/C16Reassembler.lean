import QuicModel.Data.RefBufSpec
import QuicProofs.Lemmas.RefBuf
/-
  C16 part 3 (stream reassembly buffer): property theorems about `Data.RefBuf`, the reference
  model of `s2n_quic_core::buffer::Reassembler`, for ALL histories of API calls
  (`Op = write off data fin | pop watermark? | skip n | reset`), by induction over the history.

  Vocabulary (QuicModel/Data/RefBufSpec.lean): `trace ops` is the run of a history from the
  empty buffer together with its ghost history since the last `reset`: `accepted` (the writes
  the buffer accepted, arrival order), `reads` (concatenation of everything handed out),
  `skips` (offset ranges discarded by `skip`). `firstWriter accepted i` is the byte of the
  first accepted write that covers offset `i`.

  Tie to the code: differential run `reassembler` (vh-core, real `Reassembler`) + the bridge
  `QuicProofs.Bridge.Reassembler` for constants and `ensure!` conditions. A real single
  `pop_watermarked(w)` that hands out `k` bytes is `Op.pop (some k)` (`refbuf_chunk_is_pop`).
-/
namespace Quic.Proofs.C16
open Quic.Data.RefBuf Quic.Proofs.RefBufLemmas

/-- the ghost run and the plain run of the model agree -/
theorem refbuf_trace_buf (ops : List Op) : (trace ops).buf = run init ops := trace_buf ops

/-- INVARIANT, every history: nothing is held below `consumed` or at/above the highest offset
    seen, `consumed ≤ maxRecv ≤ finalSize` (when known) `≤ 2^62-1`. -/
theorem refbuf_inv (ops : List Op) : Inv (run init ops) := inv_run inv_init ops

/-- the invariant is inductive (holds from ANY state satisfying it, not only reachable ones) -/
theorem refbuf_inv_step (s : RefBuf) (h : Inv s) (op : Op) : Inv (step s op).1 := inv_step h op

/-- EXACTLY ONCE, IN ORDER, UNALTERED — every history: the concatenation of all bytes ever
    handed out equals the first-writer-wins map of the accepted writes on the offsets
    `[0, consumed)` that were not skipped, in increasing offset order. -/
theorem refbuf_reads_are_written (ops : List Op) :
    (trace ops).reads.map some
      = ((List.range (trace ops).buf.consumed).filter (fun i => !inRanges (trace ops).skips i)).map
          (firstWriter (trace ops).accepted) :=
  (tinv_trace ops).reads

/-- without skips: the bytes read are the written bytes of offsets `0, 1, …, consumed-1` -/
theorem refbuf_reads_are_written_noskip (ops : List Op) (h : (trace ops).skips = []) :
    (trace ops).reads.map some = (List.range (trace ops).buf.consumed).map (firstWriter (trace ops).accepted) := by
  have := refbuf_reads_are_written ops
  rw [h] at this
  have hf : (List.range (trace ops).buf.consumed).filter (fun i => !inRanges [] i)
      = List.range (trace ops).buf.consumed := List.filter_eq_self.mpr (by simp [inRanges])
  rw [hf] at this
  exact this

/-- the offsets read are strictly increasing: no offset is handed out twice or out of order -/
theorem refbuf_read_offsets_increasing (ops : List Op) :
    ((trace ops).readOffsets).Pairwise (· < ·) := by
  unfold Trace.readOffsets
  exact List.Pairwise.filter _ List.pairwise_lt_range

/-- one byte handed out per non-skipped offset below `consumed` -/
theorem refbuf_reads_length (ops : List Op) :
    (trace ops).reads.length = (trace ops).readOffsets.length := by
  have := congrArg List.length (refbuf_reads_are_written ops)
  simpa [Trace.readOffsets] using this

/-- what is still held is exactly the first-writer-wins map at and above `consumed`
    (overlapping / duplicate / inconsistent later writes never replace a held byte, and a
    skip or read never disturbs what lies above it) -/
theorem refbuf_holds_first_writer (ops : List Op) (i : Nat) (h : (trace ops).buf.consumed ≤ i) :
    byteAt (trace ops).buf i = firstWriter (trace ops).accepted i :=
  (tinv_trace ops).stored i h

/-- a read hands out exactly the contiguous next bytes: `n = min watermark len` bytes, byte
    `j` of the chunk is the held byte of offset `consumed + j`, `consumed` advances by `n`,
    nothing else changes -/
theorem refbuf_pop_contiguous (s : RefBuf) (w : Option Nat) :
    let n := match w with | some w => min w (len s) | none => len s
    (pop s w).2.length = n ∧
    (∀ j, j < n → (pop s w).2[j]? = byteAt s (s.consumed + j)) ∧
    (pop s w).1.consumed = s.consumed + n ∧
    (pop s w).1.finalSize = s.finalSize ∧ (pop s w).1.maxRecv = s.maxRecv ∧
    (∀ i, byteAt (pop s w).1 i = if i < s.consumed + n then none else byteAt s i) := by
  have hn : (match w with | some w => min w (len s) | none => len s) = popCount s w := rfl
  simp only [hn, pop_eq]
  exact ⟨take_out_length s _ (popCount_le s w), fun j hj => take_out_get s _ j (popCount_le s w) hj,
    rfl, rfl, rfl, fun i => byteAt_take s _ i⟩

/-- a single real chunk of `k` bytes is the read with watermark `k` -/
theorem refbuf_chunk_is_pop (s : RefBuf) (w : Option Nat) (k : Nat) (r : RefBuf × List Nat)
    (h : popChunk s w k = some r) : r = pop s (some k) := by
  have hpc : popChunk s w k
      = if (k = 0 ∧ popCount s w = 0) ∨ (1 ≤ k ∧ k ≤ popCount s w) then some (take s k) else none := rfl
  rw [hpc] at h
  by_cases hk : (k = 0 ∧ popCount s w = 0) ∨ (1 ≤ k ∧ k ≤ popCount s w)
  · simp only [hk, if_true, Option.some.injEq] at h
    subst h
    rw [pop_eq]
    have hle := popCount_le s w
    have : popCount s (some k) = k := by
      simp only [popCount]
      omega
    rw [this]
  · simp [hk] at h

/-- `len` is exactly the length of the contiguous run of held bytes starting at `consumed` -/
theorem refbuf_len_exact (s : RefBuf) :
    (∀ i, s.consumed ≤ i → i < s.consumed + len s → (byteAt s i).isSome) ∧
    byteAt s (s.consumed + len s) = none :=
  ⟨fun i h1 h2 => len_spec_lt s i h1 h2, len_spec_end s⟩

/-- REJECTED ⇒ UNCHANGED: an operation that reports an error leaves the buffer as it was -/
theorem refbuf_error_unchanged (s : RefBuf) (op : Op) (e : Err) (h : (step s op).2 = .err e) :
    (step s op).1 = s := by
  cases op with
  | write off d fin =>
    simp only [step] at h ⊢
    cases hw : write s off d fin with
    | ok s' => rw [hw] at h; cases h
    | error e' => rfl
  | pop w => simp [step] at h
  | skip n =>
    simp only [step] at h ⊢
    cases hw : skip s n with
    | ok s' => rw [hw] at h; cases h
    | error e' => rfl
  | reset => simp [step] at h

/-- REJECTS EXACTLY (state form): `OutOfRange` iff the write would end beyond 2^62-1;
    `InvalidFin` iff it fits and contradicts the final size (a FIN at another offset than the
    known final size, data beyond the known final size, or a first FIN below the highest
    offset seen); `ReaderError` never. -/
theorem refbuf_rejects_exactly (s : RefBuf) (off : Nat) (d : List Nat) (fin : Bool) :
    (write s off d fin = .error .outOfRange ↔ off + d.length > maxOffset) ∧
    (write s off d fin = .error .invalidFin ↔
        off + d.length ≤ maxOffset ∧
        (match s.finalSize with
         | some f => if fin then off + d.length ≠ f else f < off + d.length
         | none => fin = true ∧ off + d.length < s.maxRecv)) ∧
    write s off d fin ≠ .error .readerError := by
  have hr : rejectsFin s (off + d.length) fin ↔
      (match s.finalSize with
       | some f => if fin then off + d.length ≠ f else f < off + d.length
       | none => fin = true ∧ off + d.length < s.maxRecv) := Iff.rfl
  rw [← hr, write_eq]
  by_cases h1 : off + d.length > maxOffset
  · simp [h1]; omega
  · by_cases h2 : rejectsFin s (off + d.length) fin
    · simp [h1, h2]; omega
    · simp [h1, h2]

/-- an accepted write: same `consumed`, the final size is set by a FIN, `maxRecv` is raised to
    the end of the write, and exactly the bytes not yet held (and not below `consumed`) are added -/
theorem refbuf_write_accepted (s s' : RefBuf) (off : Nat) (d : List Nat) (fin : Bool)
    (h : write s off d fin = .ok s') :
    s'.consumed = s.consumed ∧
    s'.finalSize = (if fin then some (off + d.length) else s.finalSize) ∧
    s'.maxRecv = max s.maxRecv (off + d.length) ∧
    ∀ i, byteAt s' i = if i < s.consumed then none else (byteAt s i).or (Frame.byteAt ⟨off, d, fin⟩ i) := by
  obtain ⟨_, _, hc, hf, hm, _⟩ := write_ok_fields h
  exact ⟨hc, hf, hm, fun i => byteAt_write h i⟩

/-- REJECTS EXACTLY (history form): after any history, a write is rejected iff it would end
    beyond 2^62-1, or a FIN was accepted earlier and the write contradicts that final size, or
    it is a first FIN below an offset the history has already seen (end of an accepted write,
    including empty ones, or the target of a skip). -/
theorem refbuf_rejects_exactly_history (ops : List Op) (off : Nat) (d : List Nat) (fin : Bool) :
    (∃ e, write (trace ops).buf off d fin = .error e) ↔
      (off + d.length > maxOffset ∨
       (match (trace ops).established with
        | some f => if fin then off + d.length ≠ f else f < off + d.length
        | none => fin = true ∧ off + d.length < (trace ops).highest)) := by
  have ht := tinv_trace ops
  rw [← ht.final_eq, ← ht.maxRecv_eq, write_eq]
  have hr : rejectsFin (trace ops).buf (off + d.length) fin ↔
      (match (trace ops).buf.finalSize with
       | some f => if fin then off + d.length ≠ f else f < off + d.length
       | none => fin = true ∧ off + d.length < (trace ops).buf.maxRecv) := Iff.rfl
  rw [← hr]
  by_cases h1 : off + d.length > maxOffset
  · simp [h1]
  · by_cases h2 : rejectsFin (trace ops).buf (off + d.length) fin
    · simp [h1, h2]
    · simp [h1, h2]

/-- `skip` is refused exactly when it would pass 2^62-1 (`OutOfRange`) or a known final size
    (`InvalidFin`); a zero-length skip is a no-op; an accepted skip discards everything below
    the new `consumed`, keeps everything above, and counts as an offset seen -/
theorem refbuf_skip_exactly (s : RefBuf) (n : Nat) :
    (n = 0 → skip s n = .ok s) ∧
    (skip s n = .error .outOfRange ↔ n ≠ 0 ∧ s.consumed + n > maxOffset) ∧
    (skip s n = .error .invalidFin ↔ n ≠ 0 ∧ s.consumed + n ≤ maxOffset ∧ ∃ f, s.finalSize = some f ∧ f < s.consumed + n) ∧
    (∀ s', n ≠ 0 → skip s n = .ok s' →
        s'.consumed = s.consumed + n ∧ s'.finalSize = s.finalSize ∧ s'.maxRecv = max s.maxRecv (s.consumed + n) ∧
        ∀ i, byteAt s' i = if i < s.consumed + n then none else byteAt s i) := by
  have hp : skipPastFinal s n ↔ ∃ f, s.finalSize = some f ∧ f < s.consumed + n := by
    unfold skipPastFinal
    cases s.finalSize <;> simp
  refine ⟨fun h => by subst h; exact skip_zero s, ?_, ?_, ?_⟩
  · rw [skip_eq]
    by_cases h0 : n = 0
    · simp [h0]
    · by_cases h1 : s.consumed + n > maxOffset
      · simp [h0, h1]
      · by_cases h2 : skipPastFinal s n <;> simp [h0, h1, h2]
  · rw [skip_eq, ← hp]
    by_cases h0 : n = 0
    · simp [h0]
    · by_cases h1 : s.consumed + n > maxOffset
      · simp [h0, h1]
        intro h; omega
      · by_cases h2 : skipPastFinal s n <;> simp [h0, h1, h2] <;> omega
  · intro s' h0 h
    obtain ⟨_, _, rfl⟩ := skip_ok_fields h h0
    refine ⟨rfl, rfl, rfl, fun i => ?_⟩
    exact byteAt_take s n i

/-- SIZES, every history: `total_received = consumed + len`; `len` is exactly the contiguous
    run; `consumed ≤ total_received ≤ highest offset seen ≤ final size`; `is_empty ⇔ len = 0`;
    reading complete ⇒ writing complete and nothing left to read; writing complete ⇔ the final
    size is known and every byte from `consumed` up to it is held. -/
theorem refbuf_sizes (ops : List Op) :
    let s := run init ops
    totalReceivedLen s = consumedLen s + len s ∧
    byteAt s (totalReceivedLen s) = none ∧
    totalReceivedLen s ≤ s.maxRecv ∧
    (∀ f, s.finalSize = some f → totalReceivedLen s ≤ f) ∧
    (isEmpty s = true ↔ len s = 0) ∧
    (isReadingComplete s = true → isWritingComplete s = true ∧ len s = 0) ∧
    (isWritingComplete s = true ↔
      ∃ f, s.finalSize = some f ∧ ∀ i, s.consumed ≤ i → i < f → (byteAt s i).isSome) := by
  intro s
  have hi : Inv s := refbuf_inv ops
  have htot : totalReceivedLen s = s.consumed + len s := rfl
  have hle : totalReceivedLen s ≤ s.maxRecv := by
    rw [htot]
    by_cases hl : len s = 0
    · have := hi.consumed_le; omega
    · have := (hi.stored_lt (s.consumed + len s - 1) (len_spec_lt s _ (by omega) (by omega))).2
      omega
  have hfin : ∀ f, s.finalSize = some f → totalReceivedLen s ≤ f := fun f hf => by
    have := hi.final_ge f hf; omega
  refine ⟨rfl, len_spec_end s, hle, hfin, ?_, ?_, ?_⟩
  · simp [isEmpty, len]
  · intro hrc
    have hf : s.finalSize = some s.consumed := by simpa [isReadingComplete] using hrc
    have h1 := hi.final_ge _ hf
    have h2 := hi.consumed_le
    constructor
    · simp only [isWritingComplete, hf]
      simp; omega
    · omega
  · constructor
    · intro hwc
      unfold isWritingComplete at hwc
      cases hf : s.finalSize with
      | none => simp [hf] at hwc
      | some f =>
        simp only [hf, beq_iff_eq] at hwc
        exact ⟨f, rfl, fun i h1 h2 => len_spec_lt s i h1 (by omega)⟩
    · rintro ⟨f, hf, hall⟩
      simp only [isWritingComplete, hf, beq_iff_eq]
      have h1 := hfin f hf
      by_cases h2 : totalReceivedLen s < f
      · have := hall (totalReceivedLen s) (by omega) h2
        have e := len_spec_end s
        rw [← htot] at e
        rw [e] at this
        simp at this
      · omega

/-- the cursors are functions of the history: `maxRecv` is the highest offset seen, the final
    size is the end of the first accepted FIN -/
theorem refbuf_cursors_history (ops : List Op) :
    (trace ops).buf.maxRecv = (trace ops).highest ∧ (trace ops).buf.finalSize = (trace ops).established :=
  ⟨(tinv_trace ops).maxRecv_eq, (tinv_trace ops).final_eq⟩

/-! ### non-vacuity: concrete histories -/

/-- overlapping, nested, duplicate and INCONSISTENT writes: the first writer wins, the bytes
    come out once and in order; a skip removes its range from what is read -/
example :
    (trace [.write 2 [12, 13] false, .write 0 [0, 1, 99, 98, 4] false, .write 1 [77, 77] false,
            .pop (some 1), .pop none]).reads = [0, 1, 12, 13, 4] := by decide

example :
    let t := trace [.write 0 [0, 1, 2, 3, 4, 5] false, .pop (some 2), .skip 2, .write 3 [9, 9, 9, 9] true, .pop none]
    t.reads = [0, 1, 4, 5, 9] ∧ t.skips = [(2, 4)] ∧ t.buf.consumed = 7 ∧ isReadingComplete t.buf = true := by decide

/-- every rejection rule fires on a reachable state, and accepted neighbours exist -/
example : step (run init [.write 0 [1, 2, 3] true]) (.write 3 [] true) = (run init [.write 0 [1, 2, 3] true], .done) := by decide
example : (step (run init [.write 0 [1, 2, 3] true]) (.write 2 [] true)).2 = .err .invalidFin := by decide
example : (step (run init [.write 0 [1, 2, 3] true]) (.write 3 [4] false)).2 = .err .invalidFin := by decide
example : (step (run init [.write 5 [] false]) (.write 4 [] true)).2 = .err .invalidFin := by decide
example : (step (run init [.skip 5]) (.write 4 [] true)).2 = .err .invalidFin := by decide
example : (step (run init [.write 5 [] false]) (.write 2 [7, 7, 7] true)).2 = .done := by decide
example : (step init (.write maxOffset [1] false)).2 = .err .outOfRange := by decide
example : (step init (.write maxOffset [] true)).2 = .done := by decide
example : (step (run init [.write 0 [1, 2, 3] true]) (.skip 4)).2 = .err .invalidFin := by decide
example : (step (run init [.skip maxOffset]) (.skip 1)).2 = .err .outOfRange := by decide
/-- a write entirely below `consumed` is accepted, stores nothing, but still counts for the final size -/
example :
    let s := run init [.write 0 [1, 2, 3, 4] false, .pop none, .write 1 [9, 9] false]
    s.segs = [] ∧ s.consumed = 4 ∧ (step s (.write 0 [1, 2] true)).2 = .err .invalidFin := by decide

end Quic.Proofs.C16
