import QuicProofs.Lemmas.IntervalSet
/-
  C16 (range sets, part 1): `IntervalSet` — quic/s2n-quic-core/src/interval_set — "always contains
  exactly the elements a plain reference set would after the same operations".

  Model: `Quic.Data.IvSet` (scan+apply transcription of insert.rs / remove.rs, binary search, …).
  Reference: `Quic.Data.IvSpec` — `Mem l x` (x belongs to some stored interval), `inIv r x`
  (x belongs to the operand range) and the normal form `WF` (every interval valid; sorted, disjoint
  and NON-ADJACENT: every earlier interval ends more than one below every later one).
  All statements are for arbitrary well-formed sets (hence, by `ivset_wf_preserved`, for the state
  after ANY operation sequence starting from the empty set), arbitrary limits and arbitrary operands.
-/
namespace Quic.Proofs.C16
open Quic.Data.IvSet Quic.Data.IvSpec Quic.Proofs.IvLemmas

-- ---------------------------------------------------------------------------------------------
-- insert / insert_front

/-- a successful `insert` keeps the normal form and the limit -/
theorem ivset_insert_wf (s s' : IvSet) (r : Interval) (hwf : WF s.ivs) (hr : r.lo ≤ r.hi)
    (h : s.insert r = .ok s') : WF s'.ivs ∧ s'.limit = s.limit := by
  rcases insert_char s r hwf hr with ⟨h1, _⟩ | ⟨h1, _⟩
  · rw [h1] at h; cases h; exact ⟨insSpec_wf _ _ hwf hr, rfl⟩
  · rw [h1] at h; cases h

/-- a successful `insert` yields exactly the union -/
theorem ivset_insert_mem (s s' : IvSet) (r : Interval) (hwf : WF s.ivs) (hr : r.lo ≤ r.hi)
    (h : s.insert r = .ok s') (x : Nat) : Mem s'.ivs x ↔ Mem s.ivs x ∨ inIv r x := by
  rcases insert_char s r hwf hr with ⟨h1, _⟩ | ⟨h1, _⟩
  · rw [h1] at h; cases h; exact insSpec_mem _ _ x hwf hr
  · rw [h1] at h; cases h

/-- `insert` fails only with `LimitExceeded` (never the modelled index panic) and exactly when: the set is
    non-empty, the range neither overlaps nor is adjacent to any stored interval (a NEW interval is
    needed) and the set already holds `limit` or more intervals. The model's `insert` returns no
    state on failure — the Rust function does not touch `self.intervals` before returning `Err`
    (`apply` checks `ensure_can_insert` first), i.e. the set is unchanged. -/
theorem ivset_insert_limit (s : IvSet) (r : Interval) (hwf : WF s.ivs) (hr : r.lo ≤ r.hi) :
    (∃ e, s.insert r = .error e) ↔ InsertLimitHit s r := by
  rcases insert_char s r hwf hr with ⟨h1, hn⟩ | ⟨h1, hy⟩
  · constructor
    · rintro ⟨e, he⟩; rw [h1] at he; cases he
    · exact fun h => absurd h hn
  · exact ⟨fun _ => hy, fun _ => ⟨_, h1⟩⟩

theorem ivset_insert_error_is_limit (s : IvSet) (r : Interval) (e : Error) (hwf : WF s.ivs) (hr : r.lo ≤ r.hi)
    (h : s.insert r = .error e) : e = .limitExceeded := by
  rcases insert_char s r hwf hr with ⟨h1, _⟩ | ⟨h1, _⟩
  · rw [h1] at h; cases h
  · rw [h1] at h; cases h; rfl

/-- the number of intervals grows by at most one, and only within the limit -/
theorem ivset_insert_len (s s' : IvSet) (r : Interval) (hwf : WF s.ivs) (hr : r.lo ≤ r.hi)
    (h : s.insert r = .ok s') :
    s'.ivs.length ≤ s.ivs.length + 1 ∧
    (s.ivs ≠ [] → s'.ivs.length = s.ivs.length + 1 → ∀ L, s.limit = some L → s'.ivs.length ≤ L) := by
  rcases insert_char s r hwf hr with ⟨h1, hn⟩ | ⟨h1, _⟩
  · rw [h1] at h; cases h
    refine ⟨insSpec_length_le _ _, ?_⟩
    intro hne hlen L hL
    simp only at hlen ⊢
    have hiso := (insSpec_length_succ_iff s.ivs r hwf hr).1 hlen
    by_cases hle : L ≤ s.ivs.length
    · exact absurd ⟨hne, hiso, L, hL, hle⟩ hn
    · omega
  · rw [h1] at h; cases h

/-- `insert_front` is `insert` with the scan hint 0: same result on every well-formed set -/
theorem ivset_insert_front_eq (s : IvSet) (r : Interval) (hwf : WF s.ivs) (hr : r.lo ≤ r.hi) :
    s.insertFront r = s.insert r := by
  rcases insert_char s r hwf hr with ⟨h1, hn⟩ | ⟨h1, hy⟩ <;>
  rcases insertFront_char s r hwf hr with ⟨h2, hn2⟩ | ⟨h2, hy2⟩
  · rw [h1, h2]
  · exact absurd hy2 hn
  · exact absurd hy hn2
  · rw [h1, h2]

-- ---------------------------------------------------------------------------------------------
-- remove

/-- a successful `remove` keeps the normal form and yields exactly the set difference — including
    the split case that needs one more interval -/
theorem ivset_remove_mem (s s' : IvSet) (r : Interval) (hwf : WF s.ivs) (hr : r.lo ≤ r.hi)
    (h : s.remove r = (s', .ok ())) :
    WF s'.ivs ∧ s'.limit = s.limit ∧ ∀ x, Mem s'.ivs x ↔ Mem s.ivs x ∧ ¬ inIv r x := by
  rcases remove_char s r hwf hr with ⟨h1, _⟩ | ⟨h1, _⟩
  · rw [h1] at h; cases h
    exact ⟨remSpec_wf _ _ hwf hr, rfl, fun x => remSpec_mem _ _ x hwf hr⟩
  · rw [h1] at h; cases h

/-- `remove` fails only with `LimitExceeded`, leaves the set UNCHANGED, and fails exactly when the
    range lies strictly inside one stored interval (a split is needed) and `limit ≤ interval_len + 1`.
    (Note the asymmetry with `insert`, which may fill the set up to `limit` intervals.) -/
theorem ivset_remove_limit (s : IvSet) (r : Interval) (hwf : WF s.ivs) (hr : r.lo ≤ r.hi) :
    ((∃ s' e, s.remove r = (s', .error e)) ↔ RemoveLimitHit s r) ∧
    (∀ s' e, s.remove r = (s', .error e) → s' = s ∧ e = .limitExceeded) := by
  rcases remove_char s r hwf hr with ⟨h1, hn⟩ | ⟨h1, hy⟩
  · refine ⟨⟨?_, fun h => absurd h hn⟩, ?_⟩
    · rintro ⟨s', e, he⟩; rw [h1] at he; cases he
    · intro s' e he; rw [h1] at he; cases he
  · refine ⟨⟨fun _ => hy, fun _ => ⟨_, _, h1⟩⟩, ?_⟩
    intro s' e he; rw [h1] at he; cases he; exact ⟨rfl, rfl⟩

/-- the split case really occurs and really needs one more interval -/
theorem ivset_remove_split_len (s s' : IvSet) (r : Interval) (hwf : WF s.ivs) (hr : r.lo ≤ r.hi)
    (h : s.remove r = (s', .ok ())) :
    s'.ivs.length ≤ s.ivs.length + 1 ∧ (¬ Splits s.ivs r → s'.ivs.length ≤ s.ivs.length) ∧
    (Splits s.ivs r → ∀ L, s.limit = some L → s.ivs.length + 1 < L) := by
  rcases remove_char s r hwf hr with ⟨h1, hn⟩ | ⟨h1, _⟩
  · rw [h1] at h; cases h
    refine ⟨remSpec_length_le _ _, remSpec_length_le_of_not_splits _ _, ?_⟩
    intro hs L hL
    by_cases hle : L ≤ s.ivs.length + 1
    · exact absurd ⟨hs, L, hL, hle⟩ hn
    · omega
  · rw [h1] at h; cases h

-- ---------------------------------------------------------------------------------------------
-- pop_min, min_value, max_value, contains

/-- `pop_min` removes exactly the lowest interval: everything that remains lies more than one above it -/
theorem ivset_pop_min (s : IvSet) (hwf : WF s.ivs) :
    (s.ivs = [] → s.popMin = (s, none)) ∧
    (∀ s' b, s.popMin = (s', some b) →
      s.ivs = b :: s'.ivs ∧ s'.limit = s.limit ∧ WF s'.ivs ∧
      (∀ x, Mem s'.ivs x ↔ Mem s.ivs x ∧ ¬ inIv b x) ∧
      (∀ x, Mem s'.ivs x → b.hi + 1 < x) ∧ (∀ x, Mem s.ivs x → b.lo ≤ x)) := by
  constructor
  · intro h; simp [IvSet.popMin, h]
  · intro s' b h
    unfold IvSet.popMin at h
    split at h
    · cases h
    · rename_i b' rest heq
      simp only [Prod.mk.injEq, Option.some.injEq] at h
      obtain ⟨rfl, rfl⟩ := h
      rw [heq] at hwf
      have hlt : ∀ x, Mem rest x → b'.hi + 1 < x := by
        rintro x ⟨c, hc, hx⟩; have := hwf.head_lt c hc; unfold inIv at hx; omega
      refine ⟨heq, rfl, hwf.tail, ?_, hlt, ?_⟩
      · intro x
        rw [heq, mem_cons]
        constructor
        · intro hx; exact ⟨Or.inr hx, by have := hlt x hx; unfold inIv; omega⟩
        · rintro ⟨hx | hx, hn⟩
          · exact absurd hx hn
          · exact hx
      · intro x hx; rw [heq] at hx; exact hwf.mem_ge_head hx

/-- `contains` (the binary search of `binary_search_with`) decides membership -/
theorem ivset_contains_iff (s : IvSet) (v : Nat) (hwf : WF s.ivs) : s.contains v = true ↔ Mem s.ivs v :=
  contains_iff s.limit s.ivs v hwf

/-- `min_value` is the least element -/
theorem ivset_min_value (s : IvSet) (hwf : WF s.ivs) :
    (s.minValue = none ↔ s.ivs = []) ∧
    (∀ m, s.minValue = some m → Mem s.ivs m ∧ ∀ x, Mem s.ivs x → m ≤ x) := by
  unfold IvSet.minValue
  cases h : s.ivs with
  | nil => simp
  | cons b rest =>
    rw [h] at hwf
    simp only [List.head?_cons, Option.map_some, reduceCtorEq, Option.some.injEq]
    refine ⟨by simp, ?_⟩
    rintro m rfl
    exact ⟨⟨b, List.mem_cons_self .., ⟨Nat.le_refl _, hwf.head_valid⟩⟩, fun x hx => hwf.mem_ge_head hx⟩

/-- `max_value` is the greatest element -/
theorem ivset_max_value (s : IvSet) (hwf : WF s.ivs) :
    (s.maxValue = none ↔ s.ivs = []) ∧
    (∀ m, s.maxValue = some m → Mem s.ivs m ∧ ∀ x, Mem s.ivs x → x ≤ m) := by
  unfold IvSet.maxValue
  rcases List.eq_nil_or_concat s.ivs with h | ⟨p, b, h⟩
  · simp [h]
  · rw [h] at hwf ⊢
    simp only [List.concat_eq_append] at hwf ⊢
    simp only [List.getLast?_append, List.getLast?_singleton, Option.some_or, Option.map_some, reduceCtorEq, false_iff,
      Option.some.injEq]
    refine ⟨by simp, ?_⟩
    rintro m rfl
    obtain ⟨hp, hb, hlt⟩ := hwf.of_append
    have hbv : b.lo ≤ b.hi := hb.1 b (List.mem_singleton.2 rfl)
    refine ⟨⟨b, by simp, ⟨hbv, Nat.le_refl _⟩⟩, ?_⟩
    rintro x ⟨c, hc, hx⟩
    rcases List.mem_append.1 hc with hc | hc
    · have := hlt c hc b (List.mem_singleton.2 rfl); unfold inIv at hx; omega
    · rw [List.mem_singleton.1 hc] at hx; exact hx.2

/-- `iter()` yields exactly the elements of the set, in strictly ascending order (hence each once),
    and `count()` is their number -/
theorem ivset_iter_count (s : IvSet) (hwf : WF s.ivs) :
    (∀ x, x ∈ s.values ↔ Mem s.ivs x) ∧ s.values.Pairwise (· < ·) ∧ s.count = s.values.length :=
  ⟨fun x => values_mem s.ivs x, values_sorted s.ivs hwf, count_eq_length s.ivs hwf.1⟩

/-- against the PLAIN reference set (a sorted duplicate-free `List Nat`, insert/remove done element
    by element — `IvSpec.refInsert` / `refRemove`): what `iter()` yields after a successful insert /
    remove is literally the reference list after the same operation -/
theorem ivset_insert_refines_plain_set (s s' : IvSet) (r : Interval) (hwf : WF s.ivs) (hr : r.lo ≤ r.hi)
    (h : s.insert r = .ok s') : s'.values = refInsert s.values r.lo r.hi := by
  have hwf' := (ivset_insert_wf s s' r hwf hr h).1
  obtain ⟨h1, h2⟩ := refInsert_spec s.values r.lo r.hi (values_sorted s.ivs hwf)
  refine sorted_ext _ _ (values_sorted s'.ivs hwf') h1 ?_
  intro x
  rw [h2 x, (ivset_iter_count s' hwf').1 x, (ivset_iter_count s hwf).1 x, ivset_insert_mem s s' r hwf hr h x]
  rfl

theorem ivset_remove_refines_plain_set (s s' : IvSet) (r : Interval) (hwf : WF s.ivs) (hr : r.lo ≤ r.hi)
    (h : s.remove r = (s', .ok ())) : s'.values = refRemove s.values r.lo r.hi := by
  obtain ⟨hwf', _, hm⟩ := ivset_remove_mem s s' r hwf hr h
  obtain ⟨h1, h2⟩ := refRemove_spec s.values r.lo r.hi (values_sorted s.ivs hwf)
  refine sorted_ext _ _ (values_sorted s'.ivs hwf') h1 ?_
  intro x
  rw [h2 x, (ivset_iter_count s' hwf').1 x, (ivset_iter_count s hwf).1 x, hm x]
  rfl

-- ---------------------------------------------------------------------------------------------
-- union / difference (`set_operation`: one scan per interval of `other`, each scan starting at the
-- index the previous one returned)

/-- `union`: on success exactly the union; in every case (also when the limit stops it half-way, which
    is the only possible failure) the result is well-formed, keeps everything of `self` and contains
    nothing but elements of `self` and `other` -/
theorem ivset_union_mem (s other : IvSet) (hs : WF s.ivs) (ho : WF other.ivs) :
    WF (s.union other).1.ivs ∧ (s.union other).1.limit = s.limit ∧
    ((s.union other).2 = .ok () → ∀ x, Mem (s.union other).1.ivs x ↔ Mem s.ivs x ∨ Mem other.ivs x) ∧
    (∀ x, Mem s.ivs x → Mem (s.union other).1.ivs x) ∧
    (∀ x, Mem (s.union other).1.ivs x → Mem s.ivs x ∨ Mem other.ivs x) ∧
    ((s.union other).2 = .ok () ∨ (s.union other).2 = .error .limitExceeded) := by
  obtain ⟨h1, h2, h3, h4, h5, h6⟩ := union_spec s other hs ho
  refine ⟨h1, h2, ?_, h3, h4, h6⟩
  intro hok x
  constructor
  · exact h4 x
  · rintro (h | h)
    · exact h3 x h
    · exact h5 hok x h

/-- `difference`: on success exactly the set difference; in every case the result is well-formed, a
    subset of `self`, and keeps everything of `self` that is not in `other` -/
theorem ivset_difference_mem (s other : IvSet) (hs : WF s.ivs) (ho : WF other.ivs) :
    WF (s.difference other).1.ivs ∧ (s.difference other).1.limit = s.limit ∧
    ((s.difference other).2 = .ok () → ∀ x, Mem (s.difference other).1.ivs x ↔ Mem s.ivs x ∧ ¬ Mem other.ivs x) ∧
    (∀ x, Mem (s.difference other).1.ivs x → Mem s.ivs x) ∧
    (∀ x, Mem s.ivs x → ¬ Mem other.ivs x → Mem (s.difference other).1.ivs x) ∧
    ((s.difference other).2 = .ok () ∨ (s.difference other).2 = .error .limitExceeded) := by
  obtain ⟨h1, h2, h3, h4, h5, h6⟩ := difference_spec s other hs ho
  refine ⟨h1, h2, ?_, h3, h4, h6⟩
  intro hok x
  constructor
  · intro h; exact ⟨h3 x h, h5 hok x h⟩
  · rintro ⟨h, hn⟩; exact h4 x h hn

/-- `intersection` (the in-place `intersection::apply` with its `split_off_a!` bookkeeping): exactly the
    set intersection, in normal form. `mx` is the maximum of the integer type (`u64::MAX`,
    `VarInt::MAX`): the second `step_up_saturating` of `split_off_a!` can saturate there, which the
    model reproduces. The limit is IGNORED by this operation (see the example below). -/
theorem ivset_intersection_mem (mx : Nat) (s other : IvSet) (hs : WF s.ivs) (ho : WF other.ivs)
    (hmx : ∀ c ∈ s.ivs, c.hi ≤ mx) :
    WF (s.intersection mx other).ivs ∧ (s.intersection mx other).limit = s.limit ∧
    ∀ x, Mem (s.intersection mx other).ivs x ↔ Mem s.ivs x ∧ Mem other.ivs x :=
  ⟨(intersectApply_spec mx s.ivs other.ivs hs ho hmx).1, rfl, (intersectApply_spec mx s.ivs other.ivs hs ho hmx).2⟩

/-- `intersection` can leave MORE intervals than the limit allows (one interval cut by three) -/
theorem ivset_intersection_ignores_limit :
    (IvSet.intersection 18446744073709551615 ⟨some 1, [⟨0, 10⟩]⟩ ⟨none, [⟨1, 1⟩, ⟨3, 3⟩, ⟨5, 5⟩]⟩)
      = ⟨some 1, [⟨1, 1⟩, ⟨3, 3⟩, ⟨5, 5⟩]⟩ := by rfl

/-- the saturating corner of `split_off_a!` at the type's maximum -/
example : (IvSet.intersection 255 ⟨none, [⟨250, 255⟩]⟩ ⟨none, [⟨252, 254⟩]⟩) = ⟨none, [⟨252, 254⟩]⟩ := by rfl

-- ---------------------------------------------------------------------------------------------
-- every operation sequence

/-- the public mutating operations -/
inductive Op where
  | insert (r : Interval)
  | insertFront (r : Interval)
  | remove (r : Interval)
  | popMin
  | clear
  | setLimit (n : Nat)
  | removeLimit

/-- one operation (invalid ranges are rejected by `Interval::from_range_bounds` before anything
    happens; failed operations leave the set as the model returns it) -/
def step (s : IvSet) : Op → IvSet
  | .insert r => if r.lo ≤ r.hi then (match s.insert r with | .ok s' => s' | .error _ => s) else s
  | .insertFront r => if r.lo ≤ r.hi then (match s.insertFront r with | .ok s' => s' | .error _ => s) else s
  | .remove r => if r.lo ≤ r.hi then (s.remove r).1 else s
  | .popMin => s.popMin.1
  | .clear => s.clear
  | .setLimit n => s.setLimit n
  | .removeLimit => s.removeLimit

theorem ivset_step_wf (s : IvSet) (op : Op) (hwf : WF s.ivs) : WF (step s op).ivs := by
  cases op with
  | insert r =>
    simp only [step]
    split
    · rename_i hr
      split
      · rename_i s' h; exact (ivset_insert_wf s s' r hwf hr h).1
      · exact hwf
    · exact hwf
  | insertFront r =>
    simp only [step]
    split
    · rename_i hr
      rw [ivset_insert_front_eq s r hwf hr]
      split
      · rename_i s' h; exact (ivset_insert_wf s s' r hwf hr h).1
      · exact hwf
    · exact hwf
  | remove r =>
    simp only [step]
    split
    · rename_i hr
      rcases remove_char s r hwf hr with ⟨h1, _⟩ | ⟨h1, _⟩
      · rw [h1]; exact remSpec_wf _ _ hwf hr
      · rw [h1]; exact hwf
    · exact hwf
  | popMin =>
    simp only [step, IvSet.popMin]
    split
    · exact hwf
    · rename_i b rest heq; rw [heq] at hwf; exact hwf.tail
  | clear => exact WF.nil
  | setLimit n => exact hwf
  | removeLimit => exact hwf

/-- the normal form (sorted, disjoint, NON-ADJACENT, `lo ≤ hi`) holds after every operation sequence,
    from every well-formed start (in particular from the empty set, with or without a limit) -/
theorem ivset_wf_preserved (ops : List Op) (s : IvSet) (hwf : WF s.ivs) : WF (ops.foldl step s).ivs := by
  induction ops generalizing s with
  | nil => exact hwf
  | cons op rest ih => exact ih _ (ivset_step_wf s op hwf)

theorem ivset_wf_from_empty (ops : List Op) (limit : Option Nat) : WF (ops.foldl step ⟨limit, []⟩).ivs :=
  ivset_wf_preserved ops _ WF.nil

-- ---------------------------------------------------------------------------------------------
-- non-vacuity and concrete witnesses

example : WF [⟨1, 3⟩, ⟨5, 5⟩, ⟨9, 12⟩] := by
  refine ⟨by decide, ?_⟩
  simp [List.pairwise_cons]

/-- insert that merges three intervals (overlap left, adjacency right) at limit 3 -/
example : IvSet.insert ⟨some 3, [⟨1, 3⟩, ⟨5, 5⟩, ⟨9, 12⟩]⟩ ⟨2, 8⟩ = .ok ⟨some 3, [⟨1, 12⟩]⟩ := by rfl
/-- a new disjoint interval at the limit is refused -/
example : IvSet.insert ⟨some 3, [⟨1, 3⟩, ⟨5, 5⟩, ⟨9, 12⟩]⟩ ⟨7, 7⟩ = .error .limitExceeded := by rfl
/-- union of interleaved sets through the threaded scan hints -/
example : IvSet.union ⟨none, [⟨1, 3⟩, ⟨9, 12⟩]⟩ ⟨none, [⟨0, 0⟩, ⟨4, 5⟩, ⟨11, 20⟩]⟩ = (⟨none, [⟨0, 5⟩, ⟨9, 20⟩]⟩, .ok ()) := by rfl
/-- difference that splits, trims and deletes -/
example : IvSet.difference ⟨none, [⟨1, 9⟩, ⟨12, 14⟩, ⟨20, 20⟩]⟩ ⟨none, [⟨3, 4⟩, ⟨8, 12⟩, ⟨19, 30⟩]⟩
    = (⟨none, [⟨1, 2⟩, ⟨5, 7⟩, ⟨13, 14⟩]⟩, .ok ()) := by rfl
/-- the split -/
example : IvSet.remove ⟨some 5, [⟨1, 3⟩, ⟨5, 5⟩, ⟨9, 12⟩]⟩ ⟨10, 10⟩ = (⟨some 5, [⟨1, 3⟩, ⟨5, 5⟩, ⟨9, 9⟩, ⟨11, 12⟩]⟩, .ok ()) := by rfl
example : RemoveLimitHit ⟨some 2, [⟨1, 9⟩]⟩ ⟨5, 5⟩ := ⟨⟨⟨1, 9⟩, by simp, by decide, by decide⟩, 2, rfl, by decide⟩

/-- the conservative asymmetry of `IntervalSet::remove` observed on the real code: with limit 2 a set
    holding ONE interval refuses a split (which would end at exactly 2 = limit intervals), whereas
    `insert` happily fills the set up to 2 intervals -/
theorem ivset_remove_split_at_limit_witness :
    IvSet.remove ⟨some 2, [⟨1, 9⟩]⟩ ⟨5, 5⟩ = (⟨some 2, [⟨1, 9⟩]⟩, .error .limitExceeded) ∧
    IvSet.insert ⟨some 2, [⟨1, 4⟩]⟩ ⟨6, 9⟩ = .ok ⟨some 2, [⟨1, 4⟩, ⟨6, 9⟩]⟩ := ⟨by rfl, by rfl⟩

end Quic.Proofs.C16
