import QuicModel.Data.IntervalSet
namespace Quic.Proofs.C16
open Quic.Data.IvSet Quic.Data.IvSpec

/-- the conservative asymmetry of `IntervalSet::remove` observed on the real code: with limit 2 a set
    holding ONE interval refuses a split (which would end at exactly 2 = limit intervals) -/
theorem ivset_remove_split_at_limit_witness :
    (IvSet.remove ⟨some 2, [⟨1, 9⟩]⟩ ⟨5, 5⟩) = (⟨some 2, [⟨1, 9⟩]⟩, .error .limitExceeded) := by rfl

end Quic.Proofs.C16
