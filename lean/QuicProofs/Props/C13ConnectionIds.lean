import QuicProofs.Lemmas.LocalIds
import QuicProofs.Lemmas.LocalIdsMono
import QuicProofs.Lemmas.PeerIds
import QuicProofs.Lemmas.PeerView
/-
  C13 — connection IDs are issued, routed and retired consistently.

  Models: `Conn.LocalIds` (LocalIdRegistry + shared mapper), `Conn.PeerIds` (PeerIdRegistry + active path id),
  reference `Rfc.PeerView` (RFC 9000 §5.1.1/§5.1.2/§19.15/§19.16, what the peer is entitled to see).
  All theorems about the registries quantify over EVERY operation history (`run p s0 ops`, `ops` arbitrary) from
  the constructor; `p` is the peer's `active_connection_id_limit` transport parameter (≥ 2 by §18.2).

  Full-strength statements that are FALSE of the transcribed code are kept as proved counterexamples
  (`…_counterexample`) next to the `…_partial` statement that does hold.
-/
namespace Quic.Proofs.C13
open Quic.Conn Quic.Rfc.PeerView
open Quic.Proofs.LocalIds Quic.Proofs.PeerView

/-- a registry state reachable from `LocalIdRegistry::new` by any history of operations -/
def Reachable (p : Nat) (s : LocalIds.State) : Prop :=
  ∃ iid m hid e t rot s0 ops, LocalIds.new iid m hid e t rot = some s0 ∧ s = LocalIds.run p s0 ops

theorem reachable_invs {p : Nat} (hp : 1 ≤ p) {s : LocalIds.State} (h : Reachable p s) :
    Inv1 s ∧ Inv2 p s ∧ Inv3 s ∧ Inv4 s ∧ s.registered.map (·.1) = List.range s.nextSeq := by
  obtain ⟨iid, m, hid, e, t, rot, s0, ops, hnew, rfl⟩ := h
  obtain ⟨h1, h2⟩ := inv_new (p := p) hnew
  obtain ⟨r1, r2⟩ := inv12_run hp h1 h2 ops
  refine ⟨r1, r2, inv3_run p (inv3_new hnew) ops, inv4_run p (inv4_new hnew) ops, ?_⟩
  apply registered_seqs_run
  obtain ⟨m', _, rfl⟩ := new_spec hnew
  rfl

/-- the ghost `view` is exactly the RFC reference view of the wire-level events emitted so far -/
theorem view_is_rfc_view {p : Nat} (hp : 1 ≤ p) {s : LocalIds.State} (h : Reachable p s) :
    s.view = s.events.foldl observe {} := (reachable_invs hp h).2.2.2.1.viewSync

/-- **unretired_le_peer_limit** (RFC 9000 §5.1.1 counting): at every moment of every history the ids the peer may
    count — known to it (handshake id or emitted in a NEW_CONNECTION_ID frame), not below the largest Retire
    Prior To announced, and not retired by a RETIRE_CONNECTION_ID the endpoint has processed — number at most
    `min 3 p`, hence at most the peer's `active_connection_id_limit`. -/
theorem unretired_le_peer_limit {p : Nat} (hp : 2 ≤ p) {s : LocalIds.State} (h : Reachable p s) :
    s.view.active.length ≤ min 3 p ∧ s.view.active.length ≤ p := by
  obtain ⟨_, h2, _⟩ := reachable_invs (by omega) h
  have hc := h2.viewCount
  rcases h2.limitVal with hl | hl
  · rw [hl] at hc
    constructor <;> omega
  · rw [hl] at hc
    simp only [LocalIds.maxActiveConnectionIdLimit] at hc
    constructor <;> omega

/-- non-vacuity: a history in which three ids are outstanding against a peer limit of 8 (the cap 3 is reached) -/
example : ∃ s, Reachable 8 s ∧ s.view.active.length = 3 := by
  refine ⟨LocalIds.run 8 ((LocalIds.new 7 [] [0xaa] none [1] false).get (by decide))
    [.setLimit, .register [0xbb] none [2], .register [0xcc] none [3], .onTransmit .none 5 4], ?_, by decide⟩
  exact ⟨7, [], [0xaa], none, [1], false, _, _, by simp, rfl⟩

/-- **retire_prior_to_le_next_seq**: the registry never asks to retire beyond what it has registered, and no frame
    carries a Retire Prior To above the registry's or a sequence number that was not registered. -/
theorem retire_prior_to_le_next_seq {p : Nat} (hp : 1 ≤ p) {s : LocalIds.State} (h : Reachable p s) :
    s.retirePriorTo ≤ s.nextSeq ∧ ∀ f ∈ LocalIds.emitted s, f.rpt ≤ s.retirePriorTo ∧ f.seq < s.nextSeq := by
  obtain ⟨h1, _, h3, h4, _⟩ := reachable_invs hp h
  refine ⟨h1.rptLe, fun f hf => ⟨h4.framesRpt f hf, ?_⟩⟩
  exact h3.regBelow _ (h3.framesReg f hf)

/-- **retire_prior_to_le_seq_partial** ("never asks to retire IDs beyond the one it is issuing", RFC 9000 §19.15):
    in every history whose registrations respect "lifetimes do not shrink" (`Admissible`: the expiration handed to
    `register_connection_id` is not earlier than that of any id still registered — what a `connection_id::Generator`
    with a constant `lifetime()` produces), every NEW_CONNECTION_ID frame has `retire_prior_to ≤ sequence_number`.
    Without that hypothesis the statement is false (next theorem), hence `_partial`. -/
theorem retire_prior_to_le_seq_partial {p : Nat} {iid : Nat} {m : List (LocalIds.Cid × Nat)} {hid : LocalIds.Cid}
    {e : Option Nat} {t : LocalIds.Token} {rot : Bool} {s0 : LocalIds.State}
    (hnew : LocalIds.new iid m hid e t rot = some s0) (ops : List LocalIds.Op) (hadm : Admissible p s0 ops) :
    ∀ f ∈ LocalIds.emitted (LocalIds.run p s0 ops), f.rpt ≤ f.seq :=
  (inv5_run p (inv_new (p := p) hnew).1 (inv5_new hnew) ops hadm).framesOk

/-- non-vacuity: an admissible history with a rotation and an expiry that emits frames with Retire Prior To 1 and 3 -/
example : Admissible 3 ((LocalIds.new 7 [] [0xaa] (some 60000000) [1] true).get (by decide))
    [.setLimit, .register [0xbb] (some 60000000) [2], .onHandshakeConfirmed, .onTransmit .none 5 4,
     .onTimeout 30000000, .register [0xcc] (some 90000000) [3], .onTransmit .none 6 4] ∧
    (LocalIds.emitted (LocalIds.run 3 ((LocalIds.new 7 [] [0xaa] (some 60000000) [1] true).get (by decide))
    [.setLimit, .register [0xbb] (some 60000000) [2], .onHandshakeConfirmed, .onTransmit .none 5 4,
     .onTimeout 30000000, .register [0xcc] (some 90000000) [3], .onTransmit .none 6 4])).map (fun f => (f.seq, f.rpt))
      = [(1, 1), (2, 2)] := by
  refine ⟨?_, by decide⟩
  simp only [Admissible, MonoOk, and_true, true_and]
  decide

/-- The full clause "never asks to retire IDs beyond the one it is issuing" (`retire_prior_to ≤ seq` in every
    NEW_CONNECTION_ID frame, RFC 9000 §19.15) is FALSE of the registry when the expirations it is given are not
    monotone in the sequence number (a `connection_id::Generator` whose `lifetime()` shrinks): the expiry of a
    younger id pushes `retire_prior_to` past an older id that still waits for its first transmission. -/
theorem emitted_rpt_le_seq_counterexample :
    ∃ s, Reachable 3 s ∧ ∃ f ∈ LocalIds.emitted s, f.seq < f.rpt := by
  refine ⟨LocalIds.run 3 ((LocalIds.new 7 [] [0xaa] none [1] false).get (by decide))
    [.setLimit, .register [0xbb] none [2], .register [0xcc] (some 60000000) [3], .onTimeout 30000000,
     .onTransmit .none 5 4], ⟨7, [], [0xaa], none, [1], false, _, _, by simp, rfl⟩, ?_⟩
  exact ⟨{ seq := 1, rpt := 3, cid := [0xbb], token := [2] }, by decide, by decide⟩

/-- **issued_ids_and_tokens_distinct**. Every frame carries exactly the (sequence number, id, token) triple the
    registry accepted for that sequence number, so (a) frames with the same sequence number are identical in id and
    token (retransmissions), and (b) GIVEN distinct generator outputs — the ids, resp. tokens, accepted by
    `register_connection_id` over the whole history are pairwise distinct — frames with different sequence
    numbers carry different ids, resp. different tokens. -/
theorem issued_ids_and_tokens_distinct {p : Nat} (hp : 1 ≤ p) {s : LocalIds.State} (h : Reachable p s) :
    (∀ f ∈ LocalIds.emitted s, ∀ g ∈ LocalIds.emitted s, f.seq = g.seq → f.cid = g.cid ∧ f.token = g.token) ∧
    ((s.registered.map (·.2.1)).Nodup →
      ∀ f ∈ LocalIds.emitted s, ∀ g ∈ LocalIds.emitted s, f.seq ≠ g.seq → f.cid ≠ g.cid) ∧
    ((s.registered.map (·.2.2)).Nodup →
      ∀ f ∈ LocalIds.emitted s, ∀ g ∈ LocalIds.emitted s, f.seq ≠ g.seq → f.token ≠ g.token) := by
  obtain ⟨_, _, h3, _, _⟩ := reachable_invs hp h
  refine ⟨?_, ?_, ?_⟩
  · intro f hf g hg hseq
    have := sorted_fst_unique s.registered h3.regSorted _ _ (h3.framesReg f hf) (h3.framesReg g hg) hseq
    simp only [Prod.mk.injEq] at this
    exact ⟨this.2.1, this.2.2⟩
  · intro hn f hf g hg hseq hcid
    have := nodup_map_inj (fun x : Nat × LocalIds.Cid × LocalIds.Token => x.2.1) s.registered hn _ _
      (h3.framesReg f hf) (h3.framesReg g hg) hcid
    simp only [Prod.mk.injEq] at this
    exact hseq this.1
  · intro hn f hf g hg hseq htok
    have := nodup_map_inj (fun x : Nat × LocalIds.Cid × LocalIds.Token => x.2.2) s.registered hn _ _
      (h3.framesReg f hf) (h3.framesReg g hg) htok
    simp only [Prod.mk.injEq] at this
    exact hseq this.1

/-- the registry's own duplicate check: the ids registered at any moment are pairwise distinct, whatever it is
    offered (`ConnectionIdInUse`) -/
theorem registered_ids_distinct {p : Nat} (hp : 1 ≤ p) {s : LocalIds.State} (h : Reachable p s) :
    (s.ids.map (·.id)).Nodup := (reachable_invs hp h).1.idsNodup

/-- … but that check only sees the ids still registered: an id that was removed is accepted again, so distinctness
    over the whole connection does rest on the generator (hypothesis of `issued_ids_and_tokens_distinct`). -/
theorem reissue_after_removal_counterexample :
    ∃ s, Reachable 2 s ∧ ∃ f ∈ LocalIds.emitted s, ∃ g ∈ LocalIds.emitted s, f.seq ≠ g.seq ∧ f.cid = g.cid := by
  refine ⟨LocalIds.run 2 ((LocalIds.new 7 [] [0xaa] none [1] false).get (by decide))
    [.setLimit, .register [0xbb] (some 60000000) [2], .onTransmit .none 5 4, .onPacketAck [5], .onTimeout 30000000,
     .onTimeout 60000000, .register [0xbb] none [3], .onTransmit .none 6 4],
     ⟨7, [], [0xaa], none, [1], false, _, _, by simp, rfl⟩, ?_⟩
  exact ⟨{ seq := 1, rpt := 0, cid := [0xbb], token := [2] }, by decide,
         { seq := 2, rpt := 2, cid := [0xbb], token := [3] }, by decide, by decide, rfl⟩

/-- **issued_seq_consecutive_partial**: the sequence numbers the registry assigns are exactly 0, 1, 2, … in
    registration order, and every NEW_CONNECTION_ID frame carries one of them (with its registered id and token).
    Full strength ("the frames' sequence numbers are consecutive on the wire") is false, see the counterexample. -/
theorem issued_seq_consecutive_partial {p : Nat} (hp : 1 ≤ p) {s : LocalIds.State} (h : Reachable p s) :
    s.registered.map (·.1) = List.range s.nextSeq ∧
    ∀ f ∈ LocalIds.emitted s, (f.seq, f.cid, f.token) ∈ s.registered := by
  obtain ⟨_, _, h3, _, h5⟩ := reachable_invs hp h
  exact ⟨h5, h3.framesReg⟩

/-- An id that is retired by its expiration timer (or by the peer) BEFORE its NEW_CONNECTION_ID frame was ever written
    is never announced; the next id is announced with a gap in the sequence numbers (covered by its Retire Prior
    To). Needs an id that cannot be transmitted for `lifetime − 30 s`. -/
theorem issued_seq_consecutive_counterexample :
    ∃ s, Reachable 2 s ∧ LocalIds.emitted s = [{ seq := 2, rpt := 2, cid := [0xcc], token := [3] }] := by
  refine ⟨LocalIds.run 2 ((LocalIds.new 7 [] [0xaa] none [1] false).get (by decide))
    [.setLimit, .register [0xbb] (some 60000000) [2], .onTimeout 30000000, .register [0xcc] (some 200000000) [3],
     .onTransmit .none 5 4], ⟨7, [], [0xaa], none, [1], false, _, _, by simp, rfl⟩, by decide⟩

/-- **routing_sound**: as a finite-map invariant of the shared mapper — every registered id resolves to the
    issuing connection, whatever other connections do to the map; in particular every id the peer knows, has not
    retired, and has not been asked to retire (`seq ≥ retire_prior_to`) is registered and routable. -/
theorem routing_sound {p : Nat} (hp : 1 ≤ p) {s : LocalIds.State} (h : Reachable p s) :
    (∀ i ∈ s.ids, LocalIds.lookup s i.id = some s.internalId) ∧
    (∀ q ∈ s.view.seqs, q ∉ s.view.retired → s.retirePriorTo ≤ q →
      ∃ i ∈ s.ids, i.seq = q ∧ LocalIds.lookup s i.id = some s.internalId) := by
  obtain ⟨h1, h2, _⟩ := reachable_invs hp h
  have hmap : ∀ i ∈ s.ids, LocalIds.lookup s i.id = some s.internalId :=
    fun i hi => h1.mapOwn i.id (List.mem_map.mpr ⟨i, hi, rfl⟩)
  refine ⟨hmap, ?_⟩
  intro q hq hnr hge
  rcases h2.cover q hq with hc | hc | hc
  · simp only [countedSeqs, List.mem_map, List.mem_filter] at hc
    obtain ⟨i, ⟨hi, _⟩, rfl⟩ := hc
    exact ⟨i, hi, rfl, hmap i hi⟩
  · omega
  · exact absurd hc hnr

/-- The property text asks for more: routing of every id the peer has not RETIRED. That is FALSE of the code: an id
    whose retirement the endpoint requested through Retire Prior To is unregistered 30 s (`EXPIRATION_BUFFER`)
    later even when the peer never sent RETIRE_CONNECTION_ID (e.g. the NEW_CONNECTION_ID frames were lost);
    datagrams still addressed to it are no longer routed (RFC 9000 §5.1.1: "MUST accept packets that carry this
    connection ID … until its peer invalidates the connection ID via a RETIRE_CONNECTION_ID frame"). -/
theorem routing_expired_unconfirmed_counterexample :
    ∃ s, Reachable 2 s ∧ (1 ∈ s.view.seqs ∧ 1 ∉ s.view.retired) ∧ LocalIds.lookup s [0xbb] = none ∧
      ∃ f ∈ LocalIds.emitted s, f.seq = 1 ∧ f.cid = [0xbb] := by
  refine ⟨LocalIds.run 2 ((LocalIds.new 7 [] [0xaa] none [1] false).get (by decide))
    [.setLimit, .register [0xbb] (some 60000000) [2], .onTransmit .none 5 4, .onPacketAck [5], .onTimeout 30000000,
     .onTimeout 60000000], ⟨7, [], [0xaa], none, [1], false, _, _, by simp, rfl⟩, by decide, by decide, ?_⟩
  exact ⟨{ seq := 1, rpt := 0, cid := [0xbb], token := [2] }, by decide, rfl, rfl⟩

/-- a state of the PeerIdRegistry (with the active path's destination id) reachable by any history -/
def PeerReachable (s : PeerIds.State) : Prop := ∃ c rot ops, s = PeerIds.run (PeerIds.init c rot) ops

/-- **retires_only_issued** and **no_retire_in_packet_addressed_to_it**: every RETIRE_CONNECTION_ID frame the
    endpoint writes names a (sequence number, connection id) pair the peer really issued (handshake id or an
    accepted NEW_CONNECTION_ID frame), and the packet carrying it is addressed to a different connection id. -/
theorem retires_only_issued {s : PeerIds.State} (h : PeerReachable s) :
    ∀ q d, Ev.txRetire q d ∈ s.events →
      ∃ c, (q, c) ∈ Quic.Proofs.PeerIds.peerPairs s.events ∧ d ≠ some c := by
  obtain ⟨c, rot, ops, rfl⟩ := h
  exact (Quic.Proofs.PeerIds.pinv_run (Quic.Proofs.PeerIds.pinv_init c rot) ops).base.retiresOk

/-- non-vacuity: handshake-id rotation really produces a RETIRE_CONNECTION_ID for sequence number 0, sent to the new id -/
example : ∃ s, PeerReachable s ∧ Ev.txRetire 0 (some [0xbb]) ∈ s.events := by
  refine ⟨PeerIds.run (PeerIds.init [0xaa] true) [.onNewConnectionId [0xbb] 1 0 [9], .onTransmit 0 3 4],
    ⟨[0xaa], true, _, rfl⟩, by decide⟩

/-- **accepted_trace_satisfies_C13**: soundness of the trace acceptor (component `cid-trace`). If the reference
    view accepts every event of an endpoint's wire-level trace, then the trace has the property, stated over
    positions of the trace without reference to the acceptor's state (`Quic.Proofs.PeerView.Good`): Retire Prior
    To ≤ sequence number, equal sequence numbers ⇒ equal id and token, different ⇒ different ids and different
    tokens (handshake ids included), consecutive sequence numbers, any set of unretired ids that respects the
    announced Retire Prior To values fits into the peer's limit, and RETIRE_CONNECTION_ID names an id the peer
    issued which is not the destination of the carrying packet. -/
theorem accepted_trace_satisfies_C13 (es : List Ev) (h : accepts es = true) : Holds es := by
  unfold accepts at h
  split at h
  · next v hv =>
    intro pre e post heq
    have := run_good rel_nil es hv pre e post heq
    simpa using this
  · cases h

/-- non-vacuity: a trace with a retransmission, a retirement and a rotation is accepted -/
example : accepts [.tp 2, .hs 0 [0xaa] none, .hsPeer 0 [0x11], .txNcid ⟨1, 0, [0xbb], [2]⟩, .txNcid ⟨1, 0, [0xbb], [2]⟩,
    .rxRetire 0, .txNcid ⟨2, 1, [0xcc], [3]⟩, .rxNcid ⟨1, 1, [0x22], [7]⟩, .txRetire 0 (some [0x22])] = true := by decide

/-- … and each rule really rejects: limit exceeded, gap, duplicate id, Retire Prior To beyond the sequence number -/
example : accepts [.tp 2, .hs 0 [0xaa] none, .txNcid ⟨1, 0, [0xbb], [2]⟩, .txNcid ⟨2, 0, [0xcc], [3]⟩] = false := by decide
example : accepts [.tp 2, .hs 0 [0xaa] none, .txNcid ⟨2, 0, [0xbb], [2]⟩] = false := by decide
example : accepts [.tp 2, .hs 0 [0xaa] none, .txNcid ⟨1, 0, [0xaa], [2]⟩] = false := by decide
example : accepts [.tp 2, .hs 0 [0xaa] none, .txNcid ⟨1, 2, [0xbb], [2]⟩] = false := by decide

end Quic.Proofs.C13
