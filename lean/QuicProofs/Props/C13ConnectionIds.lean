import QuicProofs.Lemmas.LocalIds
namespace Quic.Proofs.C13
open Quic.Conn.LocalIds

end Quic.Proofs.C13
