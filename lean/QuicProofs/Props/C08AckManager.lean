import QuicProofs.Lemmas.AckManagerPrompt
/-
  C08 (ACK half): "Every ACK frame an endpoint sends acknowledges only packet numbers it has actually
  received and successfully processed in that packet-number space, and every ack-eliciting packet it
  processes is acknowledged promptly (within the advertised max_ack_delay plus scheduling granularity,
  immediately when it arrives out of order) for as long as the endpoint is allowed to send."

  Model: `Quic.Conn.AckManager` — the transcription of `AckManager`, `AckTransmissionState`,
  `ack::transmission::Set`, the delay `Timer` (quic/s2n-quic-transport/src/ack/*, s2n-quic-core/src/ack/*)
  on top of the `ack::Ranges` / `IntervalSet` models of C16. Theorems are over ALL operation histories
  (`processed`, `transmit`, `packetAck`, `packetLoss`, `timeout` in any order with any arguments).

  Soundness half: `ack_sound`, `ack_ranges_descending_wf`, `ackmgr_no_panic` — hold unconditionally.
  Promptness half: the full-strength invariant `AckPromptFull` is FALSE of the code in two ways, both
  proved on concrete histories —
    * `ack_evicted_never_acked_counterexample`: more than `ack_ranges_limit` (10) ranges: the lowest
      range is evicted and that packet is never acknowledged (RFC 9000 §13.2.3 allows limiting ranges;
      the property text does not carve it out);
    * `ack_below_cutoff_never_acked_counterexample` (finding F8): `on_packet_ack` drops every range up to
      the largest-acknowledged of an ACK frame the peer has acknowledged, including a reordered packet
      processed after that frame was sent (RFC 9000 §13.2.4 allows it; the property text does not) —
  and `ack_prompt_inv_partial` proves it under exactly the two corresponding hypotheses.
-/
namespace Quic.Proofs.C08
open Quic.Conn.AckManager Quic.Data.IvSet Quic.Data.IvSpec Quic.Data Quic.Proofs.AckLemmas Quic.Proofs.AckMgr
open Quic.Proofs

-- ---------------------------------------------------------------------------------------------
-- soundness

/-- the packet numbers that were arguments of a `processed` operation of the history -/
def ProcessedIn (ops : List Op) (x : Nat) : Prop := ∃ p, Op.processed p ∈ ops ∧ p.pn = x

/-- SOUND: after ANY history `pre` from a fresh `AckManager`, every packet number in the ranges of an
    ACK frame the next operation emits was the packet number of an earlier `processed` operation
    (goes through `C16.ackranges_sound_run`: the manager only ever inserts processed packet numbers) -/
theorem ack_sound (c : Settings) (hL : 1 ≤ c.ackRangesLimit) (pre : List Op) (op : Op)
    (r : State × List Out) (s' : State) (f : AckFrame) (ping : Bool)
    (hrun : run (init c) pre = some r) (hstep : step r.1 op = some (s', .frame f ping)) :
    ∀ x, Mem f.ranges x → ProcessedIn pre x := by
  intro x hx
  rw [(step_frame r.1 op s' f ping hstep).1] at hx
  unfold AckRanges.ackRanges at hx
  rw [mem_reverse] at hx
  rcases sound_from c.ackRangesLimit (init c) (Inv.new _ hL) pre r hrun x hx with h | h
  · exact absurd h (IvLemmas.mem_nil x)
  · exact h

/-- descending, pairwise disjoint and non-adjacent, every range valid -/
def DescWF (l : List Interval) : Prop :=
  (∀ b ∈ l, b.lo ≤ b.hi) ∧ l.Pairwise (fun a b => b.hi + 1 < a.lo)

/-- WELL-FORMED: every emitted frame has at least one range and its ranges are valid, strictly
    descending, disjoint and non-adjacent (what the ACK frame encoder's gap arithmetic needs), and at
    most `ack_ranges_limit` of them -/
theorem ack_ranges_descending_wf (c : Settings) (hL : 1 ≤ c.ackRangesLimit) (pre : List Op) (op : Op)
    (r : State × List Out) (s' : State) (f : AckFrame) (ping : Bool)
    (hrun : run (init c) pre = some r) (hstep : step r.1 op = some (s', .frame f ping)) :
    f.ranges ≠ [] ∧ DescWF f.ranges ∧ f.ranges.length ≤ c.ackRangesLimit := by
  have hinv := (run_ranges c.ackRangesLimit pre (init c) r (Inv.new _ hL) hrun).2.1
  obtain ⟨hf, hne⟩ := step_frame r.1 op s' f ping hstep
  obtain ⟨_, _, hwf, hlen⟩ := hinv
  rw [hf]
  unfold AckRanges.ackRanges
  refine ⟨?_, ⟨?_, ?_⟩, by simpa using hlen⟩
  · intro h
    have : r.1.ackRanges.ivs = [] := by simpa using h
    unfold IvSet.isEmpty at hne; rw [this] at hne; cases hne
  · intro b hb; exact hwf.1 b (List.mem_reverse.1 hb)
  · rw [List.pairwise_reverse]; exact hwf.2

/-- NO PANIC: neither `.expect(..)` of the ack manager (`on_transmit_complete`: "transmission_state
    should be Disabled while ack_ranges is empty"; `on_packet_ack`: "The range should always shrink the
    interval length") can fire, whatever the history; and `ack_ranges` keeps its invariant -/
theorem ackmgr_no_panic (c : Settings) (hL : 1 ≤ c.ackRangesLimit) (ops : List Op) :
    ∃ r, run (init c) ops = some r ∧ Inv c.ackRangesLimit r.1.ackRanges := by
  obtain ⟨r, hr⟩ := run_isSome c.ackRangesLimit ops (init c) (Inv.new _ hL)
  exact ⟨r, hr, (run_ranges _ ops (init c) r (Inv.new _ hL) hr).2.1⟩

-- ---------------------------------------------------------------------------------------------
-- promptness

/-- FULL-STRENGTH statement (false of the code, see the two counterexamples): after every history in
    which time does not run backwards, every processed ack-eliciting packet that no ACK frame
    transmitted since covers is still in `ack_ranges`, the transmission state is not `Disabled`, and
    either the state is `Active` (forced transmission interest) or the delay timer is armed with a
    deadline ≤ its arrival + `max_ack_delay` -/
def AckPromptFull : Prop :=
  ∀ (c : Settings) (ops : List Op) (g : G), 1 ≤ c.ackRangesLimit →
    AllSteps TimeOk (ginit c) ops → grun (ginit c) ops = some g → ∀ e ∈ g.pend, PendOK c g.s e

/-- PARTIAL (what holds): the same statement under the two hypotheses the counterexamples violate —
    no `insert_packet_number` reports a dropped/refused range (`NoEviction`), and no acknowledged
    ACK-carrying packet cuts off a still pending packet number (`NoCutoff`) -/
theorem ack_prompt_inv_partial (c : Settings) (hL : 1 ≤ c.ackRangesLimit) (ops : List Op) (g : G)
    (htime : AllSteps TimeOk (ginit c) ops) (hev : AllSteps NoEviction (ginit c) ops)
    (hcut : AllSteps NoCutoff (ginit c) ops) (h : grun (ginit c) ops = some g) :
    ∀ e ∈ g.pend, PendOK c g.s e :=
  (prompt_run c ops (ginit c) g (promptInv_init c hL) htime hev hcut h).pend

/-- the same in the words of the property: pending ⇒ still tracked and (`Active` or timer armed in time) -/
theorem ack_prompt_partial_active_or_timed (c : Settings) (hL : 1 ≤ c.ackRangesLimit) (ops : List Op) (g : G)
    (htime : AllSteps TimeOk (ginit c) ops) (hev : AllSteps NoEviction (ginit c) ops)
    (hcut : AllSteps NoCutoff (ginit c) ops) (h : grun (ginit c) ops = some g)
    (pn arrival : Nat) (hp : (pn, arrival) ∈ g.pend) :
    g.s.ackRanges.contains pn = true ∧
    (forcedInterest g.s = true ∨ ∃ d, g.s.ackDelayTimer = some d ∧ d ≤ arrival + c.maxAckDelay) := by
  have hinv := prompt_run c ops (ginit c) g (promptInv_init c hL) htime hev hcut h
  obtain ⟨hm, _, hd⟩ := hinv.pend _ hp
  refine ⟨?_, hd⟩
  have := IvLemmas.contains_iff g.s.ackRanges.limit g.s.ackRanges.ivs pn hinv.ranges.2.2.1
  exact this.2 hm

/-- IMMEDIATE: an ack-eliciting packet that arrives out of order (below the largest stored number, or
    above it leaving a gap), is CE-marked, carries a PATH_CHALLENGE on the active path, or is the
    `packet_tolerance`-th (10th) since the last ACK transmission puts the manager into `Active`
    (forced transmission interest) in the same call, whatever the insert reported -/
theorem ack_immediate_on_reorder (L : Nat) (s : State) (p : Processed) (hinv : Inv L s.ackRanges)
    (hae : p.ackEliciting = true)
    (h : (∃ mx, s.ackRanges.maxValue = some mx ∧ mx < pnMax ∧ p.pn ≠ mx + 1) ∨ p.ecn = .ce ∨
         p.pathChallengeOnActivePath = true ∨ packetTolerance ≤ satInc s.processedPacketsSinceTransmission) :
    forcedInterest (onProcessedPacket s p).1 = true := by
  have hne : (procInsert s p).transmissionState ≠ .disabled := by
    rw [procInsert_state]; exact onUpdate_ne_disabled _ _ (insertPn_nonempty L _ _ hinv)
  have hact : shouldActivate (orderedLargest s.ackRanges p.pn).1 (orderedLargest s.ackRanges p.pn).2 p
      (procInsert s p).processedPacketsSinceTransmission = true := by
    unfold shouldActivate
    rcases h with ⟨mx, hmx, hlt, hne⟩ | h | h | h
    · simp only [orderedLargest, hmx, hlt, if_true]
      simp [hne]
    · simp [h]
    · simp [h]
    · have : (procInsert s p).processedPacketsSinceTransmission = satInc s.processedPacketsSinceTransmission := rfl
      rw [this]; simp [h]
  unfold forcedInterest
  simp only [onProcessedPacket]
  have h2 : (procSchedule (procInsert s p) p (orderedLargest s.ackRanges p.pn).1 (orderedLargest s.ackRanges p.pn).2).transmissionState.isActive = true := by
    unfold procSchedule
    rw [if_pos hae, if_pos hact]
    exact activate_active _ hne
  unfold onTimeout
  split
  · exact activate_keeps_active _ h2
  · exact h2

/-- TIMER: whenever the delay timer is armed (after any history in which time does not run backwards)
    its deadline is EXACTLY `t + max_ack_delay` for a time `t` an earlier operation carried — never
    later than `max_ack_delay` after the present -/
theorem ack_timer_armed_le_max_ack_delay (c : Settings) (ops : List Op) (g : G)
    (htime : AllSteps TimeOk (ginit c) ops) (h : grun (ginit c) ops = some g) (d : Nat)
    (hd : g.s.ackDelayTimer = some d) :
    (∃ t, t ≤ g.clock ∧ d = t + c.maxAckDelay) ∧ d ≤ g.clock + c.maxAckDelay := by
  have key : ∀ (ops : List Op) (g0 g : G), AllSteps TimeOk g0 ops → grun g0 ops = some g →
      (g0.s.ackSettings = c ∧ ∀ d, g0.s.ackDelayTimer = some d → ∃ t, t ≤ g0.clock ∧ d = t + c.maxAckDelay) →
      (g.s.ackSettings = c ∧ ∀ d, g.s.ackDelayTimer = some d → ∃ t, t ≤ g.clock ∧ d = t + c.maxAckDelay) := by
    intro ops
    induction ops with
    | nil => intro g0 g _ h hi; simp only [grun, Option.some.injEq] at h; subst h; exact hi
    | cons op rest ih =>
      intro g0 g ht h hi
      simp only [grun] at h
      cases hg : gstep g0 op with
      | none => rw [hg] at h; cases h
      | some g1 =>
        rw [hg] at h
        refine ih g1 g (ht.2 g1 hg) h ?_
        obtain ⟨hset, htm⟩ := hi
        unfold gstep at hg
        cases hs : step g0.s op with
        | none => rw [hs] at hg; cases hg
        | some r =>
          rw [hs] at hg
          simp only [Option.some.injEq] at hg
          subst hg
          refine ⟨by rw [(step_ranges g0.s op r hs).2, hset], ?_⟩
          have hmono : g0.clock ≤ clockAfter g0.clock op := by
            unfold clockAfter; split <;> omega
          have keep : ∀ d, g0.s.ackDelayTimer = some d → ∃ t, t ≤ clockAfter g0.clock op ∧ d = t + c.maxAckDelay := by
            intro d hd
            obtain ⟨t, ht, hdt⟩ := htm d hd
            exact ⟨t, by omega, hdt⟩
          intro d hd
          cases op with
          | processed p =>
            simp only [step, Option.some.injEq] at hs
            subst hs
            simp only [onProcessedPacket] at hd
            rcases timer_procSchedule _ _ _ _ _ (timer_onTimeout _ _ _ hd) with hd | ⟨_, hd⟩
            · exact keep d (by simpa using hd)
            · rw [procInsert_settings, hset] at hd
              exact ⟨p.now, by simp only [clockAfter, opTime]; omega, hd⟩
          | transmit cn m now own fits ae pf =>
            simp only [step, transmit] at hs
            cases hf : onTransmit g0.s cn m now fits with
            | none => rw [hf] at hs; simp only [Option.some.injEq] at hs; subst hs; exact keep d hd
            | some f =>
              rw [hf] at hs
              simp only at hs
              cases hc : onTransmitComplete g0.s cn own ae pf with
              | none => rw [hc] at hs; cases hs
              | some r' =>
                rw [hc] at hs
                simp only [Option.some.injEq] at hs
                subst hs
                rw [(onTransmitComplete_fields g0.s cn own ae pf r' hc).2.2.1] at hd
                cases hd
          | packetAck a =>
            simp only [step] at hs
            cases hpa : onPacketAck g0.s a with
            | none => rw [hpa] at hs; cases hs
            | some s1 =>
              rw [hpa] at hs
              simp only [Option.some.injEq] at hs
              subst hs
              exact keep d (by rw [← (onPacketAck_fields _ _ _ hpa).1]; exact hd)
          | packetLoss a =>
            simp only [step, Option.some.injEq] at hs
            subst hs
            rw [onPacketLoss_timer] at hd
            exact keep d hd
          | timeout now =>
            simp only [step, Option.some.injEq] at hs
            subst hs
            exact keep d (timer_onTimeout _ _ _ hd)
  have := (key ops (ginit c) g htime h ⟨rfl, fun d hd => by simp [ginit, init] at hd⟩).2 d hd
  obtain ⟨t, ht, hdt⟩ := this
  exact ⟨⟨t, ht, hdt⟩, by omega⟩

-- ---------------------------------------------------------------------------------------------
-- the should_transmit decision table and the retransmission budget

/-- the three shapes of `AckTransmissionState` -/
inductive Kind where
  | disabled | passive | active
  deriving DecidableEq, Repr

def kindOf : TxState → Kind
  | .disabled => .disabled
  | .passive _ => .passive
  | .active _ => .active

/-- independent reference for `should_transmit` (RFC 9000 §13.2 / RFC 9002 §7: ACK-only packets are not
    congestion controlled; ACKs are bundled into probes): an ACK frame is written iff there are ranges
    and (the packet is a probe, or the manager is Active, or it is Passive and the packet may carry
    new or retransmitted data anyway) -/
def shouldTransmitRef (k : Kind) (c : Constraint) (m : Mode) (hasRanges : Bool) : Bool :=
  hasRanges && (m != .normal || k == .active || (k == .passive && (c == .none || c == .retransmissionOnly)))

def allKinds : List Kind := [.disabled, .passive, .active]
def allConstraints : List Constraint := [.none, .retransmissionOnly, .congestionLimited, .amplificationLimited]
def allModes : List Mode := [.lossRecoveryProbing, .mtuProbing, .pathValidationOnly, .normal]
def stateOf : Kind → TxState
  | .disabled => .disabled
  | .passive => .passive 3
  | .active => .active 3

/-- the complete 3 × 4 × 4 × 2 decision table, checked by evaluation -/
theorem ack_state_machine_table :
    (allKinds.all fun k => allConstraints.all fun c => allModes.all fun m => [true, false].all fun h =>
      (stateOf k).shouldTransmit c m h == shouldTransmitRef k c m h) = true := by decide

/-- … and for every state (the retransmission counters play no role in the decision) -/
theorem ack_should_transmit_eq_ref (st : TxState) (c : Constraint) (m : Mode) (h : Bool) :
    st.shouldTransmit c m h = shouldTransmitRef (kindOf st) c m h := by
  cases st <;> cases c <;> cases m <;> cases h <;> rfl

/-- `Active` is the only state with forced transmission interest, and in `Active` with ranges an ACK
    frame is written under EVERY constraint and mode -/
theorem ack_active_always_transmits (r : Nat) (c : Constraint) (m : Mode) :
    (TxState.active r).shouldTransmit c m true = true := by
  cases c <;> cases m <;> rfl

/-- the retransmission budget of `on_update`: `interval_len / 2 + spread / 10`, capped at 10 -/
theorem ack_retransmission_budget (r : IvSet) :
    newRetransmissions r = min (r.ivs.length / 2 + AckRanges.spread r / 10) 10 ∧ newRetransmissions r ≤ 10 := by
  refine ⟨rfl, ?_⟩
  unfold newRetransmissions maxRetransmissions
  omega

/-- an ACK transmission consumes one unit of the budget and the last one disables the manager until
    the next processed packet -/
theorem ack_on_transmit_budget (r : Nat) :
    (TxState.active (r + 1)).onTransmit = .passive r ∧ (TxState.passive (r + 1)).onTransmit = .passive r ∧
    (TxState.active 0).onTransmit = .disabled ∧ (TxState.passive 0).onTransmit = .disabled := by
  simp [TxState.onTransmit]

-- ---------------------------------------------------------------------------------------------
-- counterexamples to the full-strength promptness statement

/-- no ACK frame emitted along the continuation `ext` from state `s` names packet number `x` -/
def NeverAcked (s : State) (ext : List Op) (x : Nat) : Prop :=
  ∀ pre op post r s' f ping, ext = pre ++ op :: post → run s pre = some r →
    step r.1 op = some (s', .frame f ping) → ¬ Mem f.ranges x

/-- once a packet number is out of `ack_ranges` it stays unacknowledged for ever (it cannot be processed
    a second time: duplicates are rejected before the ack manager) -/
theorem never_acked_of_not_mem (L : Nat) (s : State) (hinv : Inv L s.ackRanges) (x : Nat)
    (hx : ¬ Mem s.ackRanges.ivs x) (ext : List Op) (hext : ∀ p, Op.processed p ∈ ext → p.pn ≠ x) :
    NeverAcked s ext x := by
  intro pre op post r s' f ping hsplit hrun hstep hmem
  rw [(step_frame r.1 op s' f ping hstep).1] at hmem
  unfold AckRanges.ackRanges at hmem
  rw [mem_reverse] at hmem
  rcases sound_from L s hinv pre r hrun x hmem with h | ⟨p, hp, hpx⟩
  · exact hx h
  · exact hext p (by rw [hsplit]; exact List.mem_append_left _ hp) hpx

/-- (a) 11 isolated ack-eliciting packets 0, 2, …, 20 arrive (1 ms apart) before anything is sent -/
def evictionHistory : List Op :=
  (List.range 11).map (fun i => Op.processed ⟨2 * i, true, .notEct, false, 1000 * i⟩)

def evictionCheck : Bool :=
  match grun (ginit Settings.recommended) evictionHistory with
  | some g =>
    g.pend.contains (0, 0) && !coveredBy g.s.ackRanges.ivs 0 && g.s.ackRanges.ivs.length == 10 &&
    g.s.ackRanges.limit == some 10 && IvSpec.wfB g.s.ackRanges.ivs
  | none => false

/-- COUNTEREXAMPLE (a), range eviction: with the default `ack_ranges_limit` = 10, after the 11 isolated
    packets (time monotone, no `on_packet_ack` at all) packet 0 — processed, ack-eliciting, covered by no
    ACK frame — is no longer in `ack_ranges`, and NO continuation of the history ever acknowledges it -/
theorem ack_evicted_never_acked_counterexample :
    ∃ g, grun (ginit Settings.recommended) evictionHistory = some g ∧
      AllSteps TimeOk (ginit Settings.recommended) evictionHistory ∧
      AllSteps NoCutoff (ginit Settings.recommended) evictionHistory ∧
      (0, 0) ∈ g.pend ∧ ¬ PendOK Settings.recommended g.s (0, 0) ∧
      ∀ ext, (∀ p, Op.processed p ∈ ext → p.pn ≠ 0) → NeverAcked g.s ext 0 := by
  have hc : evictionCheck = true := by decide +kernel
  unfold evictionCheck at hc
  cases hg : grun (ginit Settings.recommended) evictionHistory with
  | none => rw [hg] at hc; cases hc
  | some g =>
    rw [hg] at hc
    simp only [Bool.and_eq_true, Bool.not_eq_true', beq_iff_eq, List.contains_iff_mem] at hc
    obtain ⟨⟨⟨⟨h1, h2⟩, h3⟩, h4⟩, h5⟩ := hc
    have hnm : ¬ Mem g.s.ackRanges.ivs 0 := by
      intro hm; rw [← coveredBy_iff, h2] at hm; cases hm
    refine ⟨g, rfl, ?_, ?_, h1, fun hp => hnm hp.1, ?_⟩
    · exact allSteps_of_B _ _ timeOk_of_B _ _ (by decide +kernel)
    · exact allSteps_of_B _ _ noCutoff_of_B _ _ (by decide +kernel)
    · intro ext hext
      exact never_acked_of_not_mem 10 g.s ⟨h4, by decide, wf_of_wfB _ h5, by omega⟩ 0 hnm ext hext

/-- (b) the minimal F8 history, read off the rule in `on_packet_ack`
    (`ack_ranges.remove(0 ..= largest_received_packet_number_acked of the acknowledged transmission)`):
    packet 5 is processed; an ack-eliciting packet (own number 0) carrying `ACK [5]` is sent; the
    reordered packet 3 is processed (the manager goes `Active`); the peer acknowledges own packet 0 -/
def cutoffHistory : List Op :=
  [ .processed ⟨5, true, .notEct, false, 0⟩,
    .transmit .none .normal 1000 0 true true true,
    .processed ⟨3, true, .notEct, false, 2000⟩,
    .packetAck [⟨0, 0⟩] ]

def cutoffCheck : Bool :=
  match grun (ginit Settings.recommended) cutoffHistory with
  | some g =>
    g.pend.contains (3, 2000) && g.s.ackRanges.ivs.isEmpty && g.s.ackRanges.limit == some 10 &&
    forcedInterest g.s && (onTransmit g.s .none .normal 3000 true).isNone
  | none => false

/-- COUNTEREXAMPLE (b), the RFC 9000 §13.2.4 cut-off (finding F8): after the four operations (time
    monotone, every insert reported `Ok`) packet 3 — processed, ack-eliciting, out of order, covered by
    no ACK frame — has been removed from `ack_ranges` together with everything ≤ 5; no continuation ever
    acknowledges it. The manager is left `Active` (forced transmission interest) with NO ranges, a state
    in which `on_transmit` writes nothing. -/
theorem ack_below_cutoff_never_acked_counterexample :
    ∃ g, grun (ginit Settings.recommended) cutoffHistory = some g ∧
      AllSteps TimeOk (ginit Settings.recommended) cutoffHistory ∧
      AllSteps NoEviction (ginit Settings.recommended) cutoffHistory ∧
      (3, 2000) ∈ g.pend ∧ ¬ PendOK Settings.recommended g.s (3, 2000) ∧
      (forcedInterest g.s = true ∧ onTransmit g.s .none .normal 3000 true = none) ∧
      ∀ ext, (∀ p, Op.processed p ∈ ext → p.pn ≠ 3) → NeverAcked g.s ext 3 := by
  have hc : cutoffCheck = true := by decide +kernel
  unfold cutoffCheck at hc
  cases hg : grun (ginit Settings.recommended) cutoffHistory with
  | none => rw [hg] at hc; cases hc
  | some g =>
    rw [hg] at hc
    simp only [Bool.and_eq_true, beq_iff_eq, List.contains_iff_mem, List.isEmpty_iff, Option.isNone_iff_eq_none] at hc
    obtain ⟨⟨⟨⟨h1, h2⟩, h3⟩, h4⟩, h5⟩ := hc
    have hnm : ¬ Mem g.s.ackRanges.ivs 3 := by rw [h2]; exact IvLemmas.mem_nil 3
    refine ⟨g, rfl, ?_, ?_, h1, fun hp => hnm hp.1, ⟨h4, h5⟩, ?_⟩
    · exact allSteps_of_B _ _ timeOk_of_B _ _ (by decide +kernel)
    · exact allSteps_of_B _ _ noEviction_of_B _ _ (by decide +kernel)
    · intro ext hext
      exact never_acked_of_not_mem 10 g.s ⟨h3, by decide, by rw [h2]; exact WF.nil, by rw [h2]; simp⟩ 3 hnm ext hext

/-- the full-strength promptness invariant is false of the code, by either counterexample -/
theorem ack_prompt_full_false : ¬ AckPromptFull := by
  intro hfull
  obtain ⟨g, hg, ht, _, hp, hn, _⟩ := ack_below_cutoff_never_acked_counterexample
  exact hn (hfull Settings.recommended cutoffHistory g (by decide) ht hg _ hp)

theorem ack_prompt_full_false_by_eviction : ¬ AckPromptFull := by
  intro hfull
  obtain ⟨g, hg, ht, _, hp, hn, _⟩ := ack_evicted_never_acked_counterexample
  exact hn (hfull Settings.recommended evictionHistory g (by decide) ht hg _ hp)

-- ---------------------------------------------------------------------------------------------
-- non-vacuity

/-- a history satisfying all three hypotheses of `ack_prompt_inv_partial` with a pending packet at the
    end: 1, 2 in order (timer armed), an ACK transmission, then 3 in order and 5 leaving a gap -/
def goodHistory : List Op :=
  [ .processed ⟨1, true, .notEct, false, 0⟩, .processed ⟨2, true, .notEct, false, 1000⟩,
    .timeout 24500, .transmit .congestionLimited .normal 24500 7 true true false,
    .processed ⟨3, true, .notEct, false, 30000⟩, .processed ⟨5, true, .notEct, false, 31000⟩,
    .packetLoss [⟨7, 7⟩] ]

example : allStepsB timeOkB (ginit Settings.recommended) goodHistory = true ∧
    allStepsB noEvictionB (ginit Settings.recommended) goodHistory = true ∧
    allStepsB noCutoffB (ginit Settings.recommended) goodHistory = true ∧
    ((grun (ginit Settings.recommended) goodHistory).map (fun g => g.pend)) = some [(5, 31000), (3, 30000)] := by
  decide +kernel

/-- the delay timer of the first packet fires at 24.5 ms (1 ms granularity: deadline 25 ms) and the
    ACK-only packet is written although the path is congestion limited -/
example : ((run (init Settings.recommended) (goodHistory.take 4)).map (fun r => r.2)) =
    some [.inserted .ok, .inserted .ok, .none, .frame ⟨2937, [⟨1, 2⟩], none⟩ false] := by decide +kernel

/-- `ack_immediate_on_reorder`: a gap -/
example : forcedInterest (onProcessedPacket (onProcessedPacket (init Settings.recommended) ⟨1, true, .notEct, false, 0⟩).1
    ⟨3, true, .notEct, false, 10⟩).1 = true := by decide +kernel

example : DescWF [⟨7, 9⟩, ⟨3, 4⟩, ⟨0, 0⟩] := ⟨by decide, by simp [List.pairwise_cons]⟩

end Quic.Proofs.C08
