import QuicProofs.Lemmas.TransportParams
/-
  C05 (transport-parameter block codec, RFC 9000 §18 Figures 20/21): property theorems.
  The model is `Codec.TransportParams` with the field table `fieldsWith k`; the table of the pinned
  commit is `pinnedFields = fieldsWith pinnedKnobs` (tie G: QuicProofs/Bridge/TransportParams.lean).
  Helper lemmas: QuicProofs/Lemmas/TransportParams.lean.
-/
namespace Quic.Proofs.C05
open Quic Quic.Codec Quic.Codec.TransportParams Quic.Proofs.TransportParams

/-- the `decode_parameters` loop reads exactly the RFC layout: when the block is a sequence of
    (varint id, varint length, value) triples the result is the item-by-item run over those triples;
    when it is not, the block is rejected. (Decoding is total: `decodeParameters` is a total function.) -/
theorem tp_layout_eq_rfc (fs : List Field) (role : Role) (blk : List Nat) (hb : BytesOk blk) :
    (∀ its, Rfc.TransportParams.parseItems blk.length blk = some its →
        decodeParameters fs role blk = itemsRun fs role ⟨[], []⟩ its) ∧
    (Rfc.TransportParams.parseItems blk.length blk = none → accepts fs role blk = false) :=
  ⟨fun its hp => decode_of_parse fs role blk its hb hp, fun hp => loop_no_parse fs role _ _ _ hb hp⟩

/-- round trip: whatever parameter struct the encoder is given (values its field types can hold, that pass
    the fields' validators, server-only fields only for servers), decoding the encoded block succeeds and
    yields the non-default fields in declaration order … -/
theorem tp_roundtrip (k : Knobs) (role : Role) (ps : Params) (hwf : ParamsWF (fieldsWith k) role ps) :
    decodeParameters (fieldsWith k) role (encode (fieldsWith k) ps) = .ok (canon (fieldsWith k) ps) :=
  decode_encode _ role ps (fieldsWF_knobs k) hwf

/-- … which, read as a struct (absent ⇒ `default_value()`), is the struct that was encoded -/
theorem tp_roundtrip_struct (k : Knobs) (role : Role) (ps : Params) (hwf : ParamsWF (fieldsWith k) role ps) :
    ∃ qs, decodeParameters (fieldsWith k) role (encode (fieldsWith k) ps) = .ok qs ∧
      ∀ f ∈ fieldsWith k, TransportParams.get qs f = TransportParams.get ps f :=
  ⟨_, tp_roundtrip k role ps hwf, fun f hf => get_canon _ ps (fieldsWF_knobs k) f hf⟩

/-- `WF p → decode role (encode p) = ok p` for parameter sets in the encoder's normal form -/
theorem tp_roundtrip_canonical (k : Knobs) (role : Role) (ps : Params) (hwf : ParamsWF (fieldsWith k) role ps)
    (hc : canon (fieldsWith k) ps = ps) :
    decodeParameters (fieldsWith k) role (encode (fieldsWith k) ps) = .ok ps := by
  rw [tp_roundtrip k role ps hwf, hc]

/-- the encoder omits a field that holds its default (`try_into_codec_value` = `None`) -/
theorem tp_encode_omits_default (ps : Params) (f : Field) (h : TransportParams.get ps f = f.default) :
    encodeField ps f = [] := by
  unfold encodeField wireValue
  rw [h]
  cases f.default <;> simp

/-- non-vacuity: a server parameter set with integers, a flag, connection ids, a token, a preferred address and
    dc versions satisfies the hypotheses; its encoding starts with max_idle_timeout (0x01), and it is canonical -/
def sampleServerParams : Params :=
  [(0x01, .int 30000), (0x03, .int 1472), (0x04, .int 1048576), (0x08, .int 100), (0x0a, .int 4), (0x0b, .int 26),
   (0x0c, .unit), (0x0e, .int 8), (0x00, .bytes [1, 2, 3, 4, 5, 6, 7, 8]),
   (0x02, .bytes [0, 1, 2, 3, 4, 5, 6, 7, 8, 9, 10, 11, 12, 13, 14, 15]),
   (0x0d, .pa (some [192, 0, 2, 1, 1, 187]) none [9, 9, 9, 9] [0, 1, 2, 3, 4, 5, 6, 7, 8, 9, 10, 11, 12, 13, 14, 15]),
   (0x0f, .bytes []), (0x10, .bytes [7, 7, 7, 7]), (0xdc0000, .versions [1, 2])]

example : ParamsWF pinnedFields .server sampleServerParams := paramsWFb_sound _ _ _ (by decide)
example : canon pinnedFields sampleServerParams = sampleServerParams := by decide
example : (encode pinnedFields sampleServerParams).take 6 = [0x01, 0x04, 0x80, 0x00, 0x75, 0x30] := by decide
example : decodeParameters pinnedFields .server (encode pinnedFields sampleServerParams) = .ok sampleServerParams :=
  tp_roundtrip_canonical pinnedKnobs .server _ (paramsWFb_sound _ _ _ (by decide)) (by decide)
/-- an explicit default is not re-emitted -/
example : encode pinnedFields [(0x0b, .int 25), (0x0a, .int 3), (0x04, .int 7)] = [0x04, 0x01, 0x07] := by decide

end Quic.Proofs.C05
