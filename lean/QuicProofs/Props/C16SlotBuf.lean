import QuicModel.Data.SlotBuf
import QuicModel.Data.RefBufSpec
import QuicProofs.Lemmas.SlotBuf
/-
  C16 part 3, second layer: `Data.SlotBuf` (the transcription of the slot/allocation code of
  `Reassembler`) against `Data.RefBuf` (the reference the C16/C01 theorems are about).

  `Refines b s`: the slot list satisfies the invariants the code asserts in `invariants()`
  (allocations ordered, disjoint, non-empty, above `start_offset`, data inside the allocation),
  the cursors agree and both hold the same byte at every offset.

  PROVED: the read path (`read_chunk`: front-slot test, final-slot `consume` rule, watermark,
  slot dropping), `skip` (slot clearing loop), all observers (`len`/`report().0`,
  `total_received_len`, `is_empty`, `is_writing_complete`, `is_reading_complete`), and for writes
  the error/cursor behaviour. Every chunk a single pop hands out is a legal chunk of the reference.

  NOT PROVED (kept as the explicit hypothesis `WriteDataPathRefines`, validated only by the
  differential run `reassembler-slots` incl. chunk boundaries and the exhaustive small-scope
  enumeration): that the slot loops of an accepted write store exactly the reference's bytes and
  keep the slot invariants. Full statement:

    theorem slotbuf_refines_refbuf (ops : List Op) (b) (os) :
        slotRun init ops = some (b, os) →
        ∃ ops', ops'.length = ops.length ∧ refOutputs RefBuf.init ops' = os ∧ Refines b (RefBuf.run RefBuf.init ops')

  `slotbuf_refines_refbuf_partial` below is this statement under `WriteDataPathRefines`.
-/
namespace Quic.Proofs.C16
open Quic.Data Quic.Data.SlotBuf Quic.Proofs.SlotBufLemmas

theorem slotbuf_init_refines : Refines SlotBuf.init RefBuf.init := refines_init

/-- READ PATH: one `pop_watermarked(w)` on the slot layer keeps the invariants, hands out exactly
    the bytes the reference hands out for a chunk of that length, and that chunk length is legal
    for the reference (`0` only when nothing is readable under the watermark, else `1..min w len`) -/
theorem slotbuf_read_refines (b : SlotBuf) (s : RefBuf.RefBuf) (h : Refines b s) (w : Option Nat) :
    Refines (readChunk b w).1 (RefBuf.take s (readChunk b w).2.length).1 ∧
    (readChunk b w).2 = (RefBuf.take s (readChunk b w).2.length).2 ∧
    RefBuf.popChunk s w (readChunk b w).2.length = some (RefBuf.take s (readChunk b w).2.length) :=
  refines_readChunk h w

/-- SKIP: same errors, and an accepted skip keeps the refinement -/
theorem slotbuf_skip_refines (b : SlotBuf) (s : RefBuf.RefBuf) (h : Refines b s) (n : Nat) :
    (∀ e, SlotBuf.skip b n = .error e ↔ RefBuf.skip s n = .error e) ∧
    (∀ b' s', SlotBuf.skip b n = .ok b' → RefBuf.skip s n = .ok s' → Refines b' s') :=
  refines_skip h n

/-- OBSERVERS: what the slot walk computes is what the reference computes -/
theorem slotbuf_observers_refine (b : SlotBuf) (s : RefBuf.RefBuf) (h : Refines b s) :
    SlotBuf.len b = RefBuf.len s ∧ b.start = RefBuf.consumedLen s ∧
    SlotBuf.totalReceivedLen b = RefBuf.totalReceivedLen s ∧ SlotBuf.isEmpty b = RefBuf.isEmpty s ∧
    SlotBuf.isWritingComplete b = RefBuf.isWritingComplete s ∧
    SlotBuf.isReadingComplete b = RefBuf.isReadingComplete s :=
  refines_observers h

/-- WRITES, control path: the same writes are rejected with the same error, and an accepted
    write moves the cursors identically (the stored bytes are the unproved part) -/
theorem slotbuf_write_cursors_refine (b : SlotBuf) (s : RefBuf.RefBuf) (h : Refines b s)
    (off : Nat) (d : List Nat) (fin : Bool) :
    (∀ e, SlotBuf.write b off d fin = some (.error e) ↔ RefBuf.write s off d fin = .error e) ∧
    (∀ b', SlotBuf.write b off d fin = some (.ok b') →
      ∃ s', RefBuf.write s off d fin = .ok s' ∧
        b'.start = s'.consumed ∧ b'.maxRecv = s'.maxRecv ∧ b'.finalOffset = s'.finalSize) :=
  refines_write_cursors h off d fin

/-- LOCK-STEP, every history (partial: under the write-data-path hypothesis): whatever the slot
    layer outputs over a history is what the reference buffer outputs over the history in which
    every single pop is replaced by the read with watermark = the chunk length; the final states
    are related. Hence every `refbuf_*` / `reasm_*` theorem transfers to the slot layer. -/
theorem slotbuf_refines_refbuf_partial (hW : WriteDataPathRefines) (ops : List RefBuf.Op)
    (b : SlotBuf) (os : List RefBuf.Out) (hr : slotRun SlotBuf.init ops = some (b, os)) :
    ∃ ops', ops'.length = ops.length ∧ refOutputs RefBuf.init ops' = os ∧
      Refines b (RefBuf.run RefBuf.init ops') :=
  slotRun_refines hW refines_init ops hr

/-! ### non-vacuity -/

/-- a slot-layer history with out-of-order writes across the 4096 boundary, a split, an unsplit,
    single pops and a skip: not stuck, chunk boundaries as the real code produces them -/
example :
    (slotRun SlotBuf.init
      [.write 4090 [1, 2, 3, 4, 5, 6, 7, 8] false, .write 0 [9] false, .pop none, .skip 4089, .pop (some 3), .pop none,
       .pop none]).map (·.2)
      = some [.done, .done, .bytes [9], .done, .bytes [1, 2, 3], .bytes [4, 5, 6], .bytes [7, 8]] := by decide

/-- a reachable related pair on which the read/skip/observer theorems apply -/
example :
    let b : SlotBuf := ⟨[⟨0, 2, [7, 8]⟩, ⟨2, 4096, [9]⟩], 0, 3, none⟩
    WF b ∧ SlotBuf.len b = 3 ∧ (readChunk b none).2 = [7, 8] ∧ (readChunk b (some 1)).2 = [7] := by
  refine ⟨?_, by decide, by decide, by decide⟩
  simp [WF, WFSlots, Slot.end_]

end Quic.Proofs.C16
