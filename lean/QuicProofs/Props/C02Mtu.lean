import QuicModel.Path.Mtu
import QuicProofs.Lemmas.Mtu
/-
  C02 (no endless waiting after faults), part `mtu`: the path-MTU discovery controller
  (`quic/s2n-quic-core/src/path/mtu.rs`). All statements are about the transcription `Quic.Path.Mtu`
  (tied to the code by D and by `QuicProofs.Bridge.Mtu`), over arbitrary event histories.
-/
namespace Quic.Proofs.C02Mtu
open Quic.Path.Mtu Quic.Proofs.Lemmas.Mtu

/-- what `Builder::build` / `Config::is_valid` + `TryFrom<u16>` guarantee -/
def ValidCfg (cfg : Config) : Prop :=
  MINIMUM_MTU ≤ cfg.base ∧ cfg.base ≤ cfg.initial ∧ cfg.initial ≤ cfg.max ∧ cfg.max ≤ 65535

theorem new_inv_abs (base pl maxUdp ips : Nat) (h1 : 1200 ≤ base) (h2 : base ≤ pl) (h3 : pl ≤ ips) (h4 : ips ≤ maxUdp) :
    Inv { state := if pl > base then St.early else if ips - base < PROBE_THRESHOLD then St.searchComplete else St.disabled,
          base := base, plpmtu := pl, maxUdp := maxUdp, probed := ips, maxProbe := maxUdp,
          probeCount := 0, bh := 0, largestAcked := none, timer := none } := by
  (repeat' split) <;> (constructor <;> simp_all [probing] <;> omega)

theorem mds_ge (m : Nat) (v6 : Bool) : 1200 ≤ maxDatagramSize m v6 := by
  unfold maxDatagramSize MINIMUM_MAX_DATAGRAM_SIZE; simp only [Nat.max_def]; split <;> omega

theorem mds_mono {a b : Nat} (h : a ≤ b) (v6 : Bool) : maxDatagramSize a v6 ≤ maxDatagramSize b v6 := by
  unfold maxDatagramSize MINIMUM_MAX_DATAGRAM_SIZE; simp only [Nat.max_def]; (repeat' split) <;> omega

/-- 1a. the invariant holds initially for every valid configuration and both address families -/
theorem inv_init (cfg : Config) (v6 : Bool) (h : ValidCfg cfg) : Inv (Ctl.new cfg v6) := by
  obtain ⟨h1, h2, h3, h4⟩ := h
  have a1 := mds_ge cfg.base v6
  have a2 := mds_mono h2 v6
  have a3 := mds_mono h3 v6
  apply new_inv_abs _ _ _ _ a1 a2
  · -- plpmtu ≤ initial probed size
    have hx : cfg.initial ≤ 1480 → maxDatagramSize cfg.initial v6 ≤ (if v6 then 1432 else 1452) := by
      intro hi
      cases v6 <;>
      · simp [maxDatagramSize, ipHdr, MINIMUM_MAX_DATAGRAM_SIZE, UDP_HEADER_LEN, IPV4_MIN_HEADER_LEN, IPV6_MIN_HEADER_LEN, Nat.max_def]
        split <;> omega
    apply Nat.le_min.mpr
    refine ⟨?_, a3⟩
    cases v6 <;>
    · simp only [ipHdr, IPV4_MIN_HEADER_LEN, IPV6_MIN_HEADER_LEN, ETHERNET_MTU, PROBE_THRESHOLD, UDP_HEADER_LEN,
        nextProbeSize, Bool.false_eq_true, if_false, if_true] at hx ⊢
      split <;> omega
  · exact Nat.min_le_right _ _

/-- 1b. … and after every event of every history (transmit / ack / loss / timeout / enable, any sizes, packet
    numbers and times): `1200 ≤ base_plpmtu ≤ plpmtu ≤ probed_size ≤ max_probe_size ≤ max_udp_payload`, a requested or
    in-flight probe is at least PROBE_THRESHOLD above the current MTU, counters stay in range. -/
theorem inv_always (cfg : Config) (v6 : Bool) (h : ValidCfg cfg) (es : List Ev) : Inv ((Ctl.new cfg v6).run es) := by
  have : ∀ (es : List Ev) (c : Ctl), Inv c → Inv (c.run es) := by
    intro es
    induction es with
    | nil => intro c hc; exact hc
    | cons e es ih => intro c hc; exact ih _ (inv_step hc e)
  exact this es _ (inv_init cfg v6 h)

/-- 1c. the size of a probe that is actually transmitted lies strictly above the current MTU (by ≥ 20) and never
    above the (possibly lowered) cap, which never exceeds the configured maximum payload; it fits the writer -/
theorem probe_size_bounds {c : Ctl} (h : Inv c) (hs : c.state = .searchRequested) (pn now cap : Nat)
    (ht : (c.onTx pn now cap false).state = .searching pn now) :
    c.plpmtu + PROBE_THRESHOLD ≤ c.probed ∧ c.probed ≤ c.maxProbe ∧ c.maxProbe ≤ c.maxUdp ∧ c.probed ≤ cap := by
  have hg := h.gap (by simp [hs, probing])
  refine ⟨by simpa [PROBE_THRESHOLD] using hg, h.pr_le, h.mp_le, ?_⟩
  unfold Ctl.onTx Ctl.setComplete at ht
  simp only [hs, ne_eq, not_true_eq_false, if_false] at ht
  split at ht
  · simp at ht
  · omega

theorem armTimer_fields (c : Ctl) (ts : Nat) :
    (c.armTimer ts).plpmtu = c.plpmtu ∧ (c.armTimer ts).state = c.state ∧ (c.armTimer ts).bh = c.bh ∧
    (c.armTimer ts).largestAcked = c.largestAcked ∧ (c.armTimer ts).maxProbe = c.maxUdp ∧ (c.armTimer ts).base = c.base := by
  unfold Ctl.armTimer Ctl.updateProbed; simp only []; split <;> simp

/-- 3a. black-hole detection: a counted loss (non-probe, `base < bytes ≤ plpmtu`, newer than the largest acked
    MTU-sized packet, new burst) when the counter already stands at BLACK_HOLE_THRESHOLD falls back to the base MTU -/
theorem black_hole_fallback (c : Ctl) (pn bytes now : Nat) (burst : Bool)
    (hc : c.lossCounts pn bytes burst = true) (hb : c.bh = BLACK_HOLE_THRESHOLD) :
    (c.lossOther pn bytes burst now).1.plpmtu = c.base ∧ (c.lossOther pn bytes burst now).1.state = .searchComplete ∧
    (c.lossOther pn bytes burst now).1.bh = 0 ∧ (c.lossOther pn bytes burst now).1.largestAcked = none ∧
    (c.lossOther pn bytes burst now).1.maxProbe = c.maxUdp ∧ (c.lossOther pn bytes burst now).2 = ⟨some c.base, 1⟩ := by
  have e : c.lossOther pn bytes burst now =
      (({ c with bh := 0, largestAcked := none, plpmtu := c.base } : Ctl).setComplete.armTimer (now + BLACK_HOLE_COOL_OFF_US),
       ⟨some (({ c with bh := 0, largestAcked := none, plpmtu := c.base } : Ctl).setComplete.armTimer (now + BLACK_HOLE_COOL_OFF_US)).plpmtu, 1⟩) := by
    unfold Ctl.lossOther Ctl.onBlackHole
    simp only [hc, hb, BLACK_HOLE_THRESHOLD, ↓reduceIte]
    simp
  rw [e]
  have f := armTimer_fields (({ c with bh := 0, largestAcked := none, plpmtu := c.base } : Ctl).setComplete) (now + BLACK_HOLE_COOL_OFF_US)
  obtain ⟨f1, f2, f3, f4, f5, f6⟩ := f
  simp only [f1, f2, f3, f4, f5]
  simp [Ctl.setComplete]

/-- 3b. below the threshold a counted loss only increments the counter -/
theorem black_hole_counts (c : Ctl) (pn bytes now : Nat) (burst : Bool)
    (hc : c.lossCounts pn bytes burst = true) (hb : c.bh < BLACK_HOLE_THRESHOLD) :
    c.lossOther pn bytes burst now = ({ c with bh := c.bh + 1 }, nc) := by
  unfold BLACK_HOLE_THRESHOLD at hb
  have h1 : min 255 (c.bh + 1) = c.bh + 1 := by omega
  have h2 : ¬ (c.bh + 1 > 3) := by omega
  unfold Ctl.lossOther
  simp only [hc, ↓reduceIte, h1, BLACK_HOLE_THRESHOLD, h2]

/-- 3c. BLACK_HOLE_THRESHOLD + 1 consecutive counted losses (as the code defines "exceeds") with nothing in
    between reset the MTU to the base MTU, from any counter value reachable (`bh = 0` here) -/
theorem four_losses_fall_back (c : Ctl) (p1 p2 p3 p4 b1 b2 b3 b4 n1 n2 n3 n4 : Nat) (h0 : c.bh = 0)
    (h1 : c.lossCounts p1 b1 true = true) (h2 : c.lossCounts p2 b2 true = true)
    (h3 : c.lossCounts p3 b3 true = true) (h4 : c.lossCounts p4 b4 true = true) :
    let c1 := (c.lossOther p1 b1 true n1).1
    let c2 := (c1.lossOther p2 b2 true n2).1
    let c3 := (c2.lossOther p3 b3 true n3).1
    let c4 := (c3.lossOther p4 b4 true n4).1
    c4.plpmtu = c.base ∧ c4.state = .searchComplete := by
  intro c1 c2 c3 c4
  have e1 : c1 = { c with bh := 1 } := by
    simp only [c1]; rw [black_hole_counts c p1 b1 n1 true h1 (by simp [h0, BLACK_HOLE_THRESHOLD])]; simp [h0]
  have e2 : c2 = { c with bh := 2 } := by
    simp only [c2]; rw [e1, black_hole_counts _ p2 b2 n2 true (by simpa [Ctl.lossCounts] using h2) (by simp [BLACK_HOLE_THRESHOLD])]
  have e3 : c3 = { c with bh := 3 } := by
    simp only [c3]; rw [e2, black_hole_counts _ p3 b3 n3 true (by simpa [Ctl.lossCounts] using h3) (by simp [BLACK_HOLE_THRESHOLD])]
  have := black_hole_fallback c3 p4 b4 n4 true (by rw [e3]; simpa [Ctl.lossCounts] using h4) (by rw [e3]; rfl)
  have hb : c3.base = c.base := by rw [e3]
  exact ⟨by rw [← hb]; exact this.1, this.2.1⟩

/-- 3d. outside the early-search state, a lost packet no larger than the base MTU never changes the MTU -/
theorem small_loss_keeps_mtu {c : Ctl} (h : Inv c) (hs : c.state ≠ .early) (pn bytes now : Nat) (burst app : Bool)
    (hb : bytes ≤ c.base) : (c.onLoss pn bytes burst now app).1.plpmtu = c.plpmtu := by
  have hbh := h.bh
  unfold Ctl.onLoss Ctl.lossOther Ctl.lossCounts Ctl.requestNewSearch Ctl.updateProbed Ctl.setComplete BLACK_HOLE_THRESHOLD
  have : ¬ (c.base + 1 ≤ bytes) := by omega
  simp only [this, decide_false, Bool.false_and, Bool.false_eq_true, if_false]
  (repeat' split) <;> simp_all <;> omega

/-- quirk of the code (documented, conservative): in `EarlySearchRequested` ANY reported loss — whatever its size —
    drops the MTU to the base MTU -/
theorem early_any_loss_falls_back (c : Ctl) (hs : c.state = .early) (pn bytes now : Nat) (burst app : Bool) :
    (c.onLoss pn bytes burst now app).1.plpmtu = c.base := by
  unfold Ctl.onLoss Ctl.setComplete
  simp only [hs]
  simp
  split <;> rfl

/-- 4. the loss of the probe itself never changes the MTU; it can only lower `max_probe_size` -/
theorem probe_loss_keeps_mtu {c : Ctl} (h : Inv c) {ppn t : Nat} (hs : c.state = .searching ppn t)
    (bytes now : Nat) (burst : Bool) :
    let c' := (c.onLoss ppn bytes burst now true).1
    c'.plpmtu = c.plpmtu ∧ c'.maxProbe ≤ c.maxProbe ∧ c'.bh = c.bh ∧
      (c.probeCount ≠ MAX_PROBES → c' = { c with state := .searchRequested }) := by
  have := h.pr_le
  unfold Ctl.onLoss Ctl.requestNewSearch Ctl.updateProbed Ctl.setComplete
  simp only [hs]
  simp
  (repeat' split) <;> simp_all

/-- 2 (partial: per-step measure, the ⌈log2⌉ bound over a whole round is not composed): every acknowledged probe
    strictly shrinks the remaining search range `max_probe_size − plpmtu` whenever the search goes on. -/
theorem probe_ack_shrinks_range_partial {c : Ctl} (h : Inv c) {ppn t : Nat} (hs : c.state = .searching ppn t) (bytes : Nat) :
    let c' := (c.onAck ppn bytes true).1
    c'.state = .searchRequested → c'.maxProbe - c'.plpmtu + PROBE_THRESHOLD ≤ c.maxProbe - c.plpmtu := by
  have hg := h.gap (by simp [hs, probing])
  have := h.pr_le
  rw [onAck_eq]
  have e1 : earlyStage c bytes = c := by unfold earlyStage; simp [hs]
  simp only [e1, hs]
  have e2 : (resetStage c ppn bytes).state = c.state := by unfold resetStage; split <;> rfl
  have e3 : (resetStage c ppn bytes).probed = c.probed := by unfold resetStage; split <;> rfl
  have e4 : (resetStage c ppn bytes).maxProbe = c.maxProbe := by unfold resetStage; split <;> rfl
  simp
  split
  · rename_i a b hh
    rw [e2, hs] at hh
    injection hh with hh1 hh2
    subst hh1
    simp only [if_true]
    unfold Ctl.requestNewSearch Ctl.armTimer Ctl.updateProbed Ctl.setComplete Ctl.above
    simp only [e3, e4]
    split
    · intro _; simp [PROBE_THRESHOLD] at *; omega
    · split <;> simp
  · rename_i hh; exact absurd (by rw [e2, hs]) (hh ppn t)

/-- 2b (partial): giving up on a probe size after MAX_PROBES losses never widens the range, and halves it when the
    probe was computed by `next_probe_size` -/
theorem probe_loss_shrinks_range_partial {c : Ctl} (h : Inv c) {ppn t : Nat} (hs : c.state = .searching ppn t)
    (hc : c.probeCount = MAX_PROBES) (bytes now : Nat) (burst : Bool) :
    let c' := (c.onLoss ppn bytes burst now true).1
    c'.maxProbe = c.probed ∧ c'.plpmtu = c.plpmtu ∧ c'.maxProbe - c'.plpmtu ≤ c.maxProbe - c.plpmtu := by
  have := h.pr_le
  unfold Ctl.onLoss Ctl.requestNewSearch Ctl.updateProbed Ctl.setComplete
  simp only [hs]
  simp [hc]
  (repeat' split) <;> simp_all <;> omega

/-! non-vacuity -/
example : ValidCfg ⟨1400, 1300, 9000⟩ := by unfold ValidCfg; decide
example : (Builder.build {}).map (·.isValid) = some true := by decide
example : ((Ctl.new ⟨1228, 1228, 1500⟩ false).run [.enable, .tx 1 10 100000 false, .ack 1 1472 true]).plpmtu = 1472 := by decide
/-- a black hole after the MTU was raised: four counted losses bring the MTU back to 1200 -/
example : ((Ctl.new ⟨1228, 1228, 1500⟩ false).run [.enable, .tx 1 10 100000 false, .ack 1 1472 true,
    .loss 2 1472 true 20 true, .loss 3 1472 true 21 true, .loss 4 1472 true 22 true, .loss 5 1472 true 23 true]).plpmtu = 1200 := by decide
example : ((Ctl.new ⟨1228, 1228, 1500⟩ false).run [.enable, .tx 1 10 100000 false, .ack 1 1472 true,
    .loss 2 1472 true 20 true, .loss 3 1472 true 21 true, .loss 4 1472 true 22 true]).plpmtu = 1472 := by decide

end Quic.Proofs.C02Mtu
