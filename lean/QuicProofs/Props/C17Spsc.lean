import QuicProofs.Lemmas.Spsc
import QuicProofs.Lemmas.Waker
/-
  C17 — the spsc ring queue, the shared ring cursors and the worker/waker primitives deliver every
  pushed item exactly once and in order, never expose an unwritten slot and never lose a wake-up,
  under every interleaving and every memory-ordering outcome.

  LEVEL: PARTIAL. What is proved, and about what:

  * The theorems are about an OPERATIONAL RELEASE/ACQUIRE SEMANTICS DEFINED IN LEAN
    (`QuicModel/Sync/RaMachine.lean`: per-location message histories with timestamps and views,
    stale reads, release/acquire view transfer, RMWs read the newest message, non-atomic accesses
    race unless the accessor's view covers the previous access). It is not the C11/Rust model: no
    SC fences (the only SeqCst operation, `open.swap`, is an RMW and is modelled as AcqRel), no
    consume, no out-of-thin-air values, no mixed-size accesses. Within that semantics the
    quantifiers are unbounded: every capacity ≥ 2, any number of items, every schedule (all
    interleavings × all stale-read choices), close/drop on either side at any point.
  * The step programs (`QuicModel/Sync/Spsc.lean`) are a HAND TRANSCRIPTION of
    `sync/spsc/{state,send,recv,slice}.rs`. Ties to the source: (G) the `Ordering::` argument of every
    atomic operation and the order of the loads / wakes / registers are read from the source on
    every run and compared with the pinned values (`Bridge/SyncOrderings.lean`); (D) the same
    step programs, run single-threaded, are compared with the real channel on generated op
    sequences (`spsc-seq` vs harness `spsc`: index/capacity/wrap arithmetic, close, drop_contents,
    wake counts); loom (the crate's scenarios + the add-only close/drop scenarios) is bounded model
    checking of the real code and is support only.
  * Wake-ups are proved for the abstract register → re-check → park / set → wake handshake
    (`QuicModel/Sync/Waker.lean`) with `AtomicWaker` ASSUMED to be a linearizable register whose
    operations are AcqRel RMWs. `sync/cursor.rs` (the xsk-style ring cursors), `sync/worker.rs`,
    `sync/atomic_waker.rs`, `s2n-quic-platform/src/socket/ring.rs` and
    `s2n-quic-transport/src/wakeup_queue.rs` are covered ONLY through that handshake and through
    the orderings/call-order bridge; their data paths are not modelled. `worker::Receiver::poll_acquire`
    (check; register; check; check; check) is covered by `no_lost_wakeup_any_rechecks`.
  * OBSERVATION (outside the property text, which speaks of slots, order and wake-ups): `State::close`
    (state.rs:366-372) wakes the peer AFTER `open.swap`; when the other side swaps, runs `drop_contents`
    (state.rs:472 `header.as_mut()`, :480 `dealloc`) in between, that wake uses the header concurrently
    with / after its deallocation (`close_wake_after_free_counterexample`). Witnessed on the real code
    by miri (hooks/spsc_close_miri: "Data race ... retag write of Header in drop_contents"); loom cannot
    see it. The slot/FIFO theorems hold regardless (`spsc_only_failure_is_header_use_after_free`).

  Ghost state (message tags, `gPeer`, `gPrev`, `pushed/popped/dropped`) is never read by a guard.
-/
namespace Quic.Proofs.C17
open Quic.Sync Quic.Sync.Ra Quic.Sync.Spsc

/-! ## the release/acquire machine, pinned orderings, every schedule -/

/-- no racy slot access is reachable -/
theorem spsc_no_race (cap : Nat) (hc : 2 ≤ cap) (acts : List Act) (s : Sys)
    (h : run pinned (init cap) acts = some s) : s.fail ≠ some .race := by
  rcases run_inv acts (inv_init hc) h with i | ⟨t, _, e⟩
  · rw [i.nofail]; simp
  · rw [e]; simp

/-- no slot is read before it was written or after it was moved out, and no undelivered slot is overwritten -/
theorem spsc_no_unwritten_slot (cap : Nat) (hc : 2 ≤ cap) (acts : List Act) (s : Sys)
    (h : run pinned (init cap) acts = some s) : s.fail ≠ some .unwritten ∧ s.fail ≠ some .overwrite := by
  rcases run_inv acts (inv_init hc) h with i | ⟨t, _, e⟩
  · rw [i.nofail]; simp
  · rw [e]; simp

/-- the only failure a schedule can reach is the use of the header after `drop_contents` freed it -/
theorem spsc_only_failure_is_header_use_after_free (cap : Nat) (hc : 2 ≤ cap) (acts : List Act) (s : Sys)
    (h : run pinned (init cap) acts = some s) : s.fail = none ∨ s.fail = some .useAfterFree := by
  rcases run_inv acts (inv_init hc) h with i | ⟨t, _, e⟩
  · exact .inl i.nofail
  · right; rw [e]

/-- FIFO, exactly once: the items taken out of the ring (popped by the receiver, then freed by
    `drop_contents`) are, in order, exactly the first items pushed — no loss, duplication or reordering -/
theorem spsc_fifo_exactly_once (cap : Nat) (hc : 2 ≤ cap) (acts : List Act) (s : Sys)
    (h : run pinned (init cap) acts = some s) :
    s.popped ++ s.dropped = s.pushed.take (s.popped.length + s.dropped.length) ∧ s.popped <+: s.pushed := by
  have key : ∀ t : Sys, Inv t →
      t.popped ++ t.dropped = t.pushed.take (t.popped.length + t.dropped.length) ∧ t.popped <+: t.pushed := by
    intro t i
    refine ⟨i.fifo, ?_⟩
    have : t.popped <+: t.popped ++ t.dropped := List.prefix_append _ _
    rw [i.fifo] at this
    exact this.trans (List.take_prefix _ _)
  rcases run_inv acts (inv_init hc) h with i | ⟨t, i, e⟩
  · exact key s i
  · rw [e]; exact key t i

/-- … and every pushed item that has not been taken yet still sits in its slot (nothing is lost in the ring) -/
theorem spsc_undelivered_items_in_slots (cap : Nat) (hc : 2 ≤ cap) (acts : List Act) (s : Sys)
    (h : run pinned (init cap) acts = some s) (j : Nat)
    (h1 : s.popped.length + s.dropped.length ≤ j) (h2 : j < s.pushed.length) :
    s.mem.cell (j % s.cap) = s.pushed[j]? := by
  rcases run_inv acts (inv_init hc) h with i | ⟨t, i, e⟩
  · exact i.cellF j h1 h2
  · subst e; exact i.cellF j h1 h2

/-- the index arithmetic of the code (`& (size - 1)` with `size` a power of two) is the `% size` of the model -/
theorem mask_eq_mod (x k : Nat) : x &&& (2 ^ k - 1) = x % 2 ^ k := Nat.and_two_pow_sub_one_eq_mod x k

/-! ## sequentially consistent memory (every interleaving, no stale reads) is a special case -/

theorem spsc_sc_all (cap : Nat) (hc : 2 ≤ cap) (acts : List Act) (s : Sys)
    (h : runSC pinned (init cap) acts = some s) :
    s.fail ≠ some .race ∧ s.fail ≠ some .unwritten ∧ s.fail ≠ some .overwrite ∧ s.popped <+: s.pushed ∧
    s.popped ++ s.dropped = s.pushed.take (s.popped.length + s.dropped.length) := by
  have h' := runSC_run acts h
  exact ⟨spsc_no_race cap hc acts s h', (spsc_no_unwritten_slot cap hc acts s h').1,
    (spsc_no_unwritten_slot cap hc acts s h').2, (spsc_fifo_exactly_once cap hc acts s h').2,
    (spsc_fifo_exactly_once cap hc acts s h').1⟩

/-! ## non-vacuity: concrete schedules -/

/-- two pushes, publication, two pops with wrap-around at 2 slots, close of both sides with one
    item left in the ring: runs to completion without failure, FIFO order observed -/
def demo : List Act :=
  [.pLoadOpen 0, .pLoadHead 0, .pPush 10, .pRelease, .cLoadTail 1, .cPop, .cRelease,
   .pLoadOpen 0, .pLoadHead 1, .pPush 11, .pRelease, .cLoadTail 2, .cPop, .cRelease,
   .pLoadOpen 0, .pLoadHead 2, .pPush 12, .pRelease,
   .swap .sender, .wake2 .sender, .swap .receiver, .wake2 .receiver,
   .dLoadHead .receiver 2, .dLoadTail .receiver 3, .dTake .receiver, .dTake .receiver]

example : (run pinned (init 2) demo).map (fun s => (s.fail, s.pushed, s.popped, s.dropped, s.mem.freed))
    = some (none, [10, 11, 12], [10, 11], [12], true) := by decide

/-- a stale read is a behaviour of the machine: the receiver may still read the initial `tail` after a publication -/
example : (run pinned (init 2) [.pLoadOpen 0, .pLoadHead 0, .pPush 10, .pRelease, .cLoadTail 0]).map
    (fun s => (s.fail, s.c.pc)) = some (none, .acq1 false) := by decide

/-! ## the orderings matter: weakened orderings reach a data race -/

/-- `persist_tail` publishing with `Relaxed` instead of `Release`: the receiver reads the new tail
    without acquiring the producer's slot write — a racy (unsynchronised) slot read is reachable -/
theorem spsc_relaxed_publish_counterexample :
    failOf { pinned with persistTail := .relaxed } 2
      [.pLoadOpen 0, .pLoadHead 0, .pPush 10, .pRelease, .cLoadTail 1, .cPop] = some .race := by decide

/-- `acquire_filled` loading `tail` with `Relaxed` instead of `Acquire`: same race -/
theorem spsc_relaxed_acquire_counterexample :
    failOf { pinned with fillTail := .relaxed } 2
      [.pLoadOpen 0, .pLoadHead 0, .pPush 10, .pRelease, .cLoadTail 1, .cPop] = some .race := by decide

/-- `persist_head` publishing with `Relaxed`: the producer re-uses a slot the receiver is not known to have left -/
theorem spsc_relaxed_release_head_counterexample :
    failOf { pinned with persistHead := .relaxed } 2
      [.pLoadOpen 0, .pLoadHead 0, .pPush 10, .pRelease, .cLoadTail 1, .cPop, .cRelease,
       .pLoadOpen 0, .pLoadHead 1, .pPush 11, .pRelease, .cLoadTail 2, .cPop, .cRelease,
       .pLoadOpen 0, .pLoadHead 2, .pPush 12] = some .race := by decide

/-- the same schedules are harmless under the pinned orderings -/
example : failOf pinned 2 [.pLoadOpen 0, .pLoadHead 0, .pPush 10, .pRelease, .cLoadTail 1, .cPop] = none := by decide

/-- FINDING: under the PINNED orderings the wake that `State::close` performs after `open.swap` can touch the
    header after the peer's `drop_contents` deallocated it (sender swaps first; receiver swaps, drains and frees;
    the sender's second wake follows) -/
theorem close_wake_after_free_counterexample :
    failOf pinned 2
      [.swap .sender, .swap .receiver, .wake2 .receiver, .dLoadHead .receiver 0, .dLoadTail .receiver 0,
       .dTake .receiver, .wake2 .sender] = some .useAfterFree := by decide

/-! ## wake-ups -/

open Quic.Sync.Waker in
/-- NO LOST WAKE-UP. Waiter `check; register; check; park`, ANY notifier program that performs a wake after
    its write (`pend false np`), ANY memory ordering of the condition accesses, every interleaving and
    stale read: whenever the waiter is parked, it has been woken or the notifier still has a wake to run
    after its write. -/
theorem no_lost_wakeup (oS oL : Ord) (np : List NAct) (hp : pend false np = true) (acts : List Waker.Act)
    (s : Waker.Sys) (h : Waker.run oS oL (Waker.init waiterPinned np) acts = some s)
    (hpark : s.wstat = .parked) : s.woken = true ∨ pend s.isSet s.nprog = true := by
  have inv := winv_run acts (winv_init hp) h
  rcases inv.j7 with hw | hw
  · obtain ⟨hr, h0⟩ := inv.j8 hpark
    rcases inv.j1 hr hw with h | h
    · exact .inl h
    · omega
  · exact .inr hw

open Quic.Sync.Waker in
/-- the same for every waiter of the shape `check^a; register; check^(b+1); park` — `worker::Receiver::poll_acquire`
    is `check; register; check; check; check` (a = 1, b = 2) -/
theorem no_lost_wakeup_any_rechecks (a b : Nat) (oS oL : Ord) (np : List NAct) (hp : pend false np = true)
    (acts : List Waker.Act) (s : Waker.Sys) (h : Waker.run oS oL (Waker.init (waiterShape a b) np) acts = some s)
    (hpark : s.wstat = .parked) : s.woken = true ∨ pend s.isSet s.nprog = true := by
  have inv := winv_run acts (winv_init_shape a b hp) h
  rcases inv.j7 with hw | hw
  · obtain ⟨hr, h0⟩ := inv.j8 hpark
    rcases inv.j1 hr hw with h | h
    · exact .inl h
    · omega
  · exact .inr hw

example : Waker.waiterShape 1 2 = [.check, .register, .check, .check, .check] := rfl
example : Waker.waiterShape 1 0 = Waker.waiterPinned := rfl

open Quic.Sync.Waker in
/-- … in particular once the notifier has finished, a parked waiter has been woken -/
theorem no_lost_wakeup_final (oS oL : Ord) (np : List NAct) (hp : pend false np = true) (acts : List Waker.Act)
    (s : Waker.Sys) (h : Waker.run oS oL (Waker.init waiterPinned np) acts = some s) :
    lost s = false := by
  cases hl : lost s
  · rfl
  · simp [lost] at hl
    obtain ⟨⟨hpark, hn⟩, hw⟩ := hl
    rcases no_lost_wakeup oS oL np hp acts s h hpark with h1 | h1
    · rw [hw] at h1; cases h1
    · rw [hn] at h1; cases hs : s.isSet <;> rw [hs] at h1 <;> simp [pend] at h1

open Quic.Sync.Waker in
/-- any later wake wakes a parked waiter: a parked waiter has its waker registered unless it was woken already -/
theorem parked_waiter_is_registered (oS oL : Ord) (np : List NAct) (hp : pend false np = true)
    (acts : List Waker.Act) (s : Waker.Sys) (h : Waker.run oS oL (Waker.init waiterPinned np) acts = some s)
    (hpark : s.wstat = .parked) :
    s.woken = true ∨ ∀ top rest, s.mem.hist WAKER = top :: rest → top.val = 1 := by
  have inv := winv_run acts (winv_init hp) h
  exact inv.j2 (inv.j8 hpark).1

/-- instances: `persist_head` / `persist_tail` / `submit` / `Drop` (set; wake) and `State::close` (wake; swap; wake) -/
example : Waker.pend false Waker.notifyPinned = true := by decide
example : Waker.pend false Waker.closePinned = true := by decide

/-- non-vacuity: the waiter does park, and is then woken -/
example : (Waker.run .release .acquire (Waker.init Waker.waiterPinned Waker.notifyPinned)
    [.w 0, .w 0, .w 0, .n]).map (fun s => (s.wstat, s.woken, s.nprog.length)) = some (.parked, false, 1) := by decide
example : (Waker.run .release .acquire (Waker.init Waker.waiterPinned Waker.notifyPinned)
    [.w 0, .w 0, .w 0, .n, .n]).map (fun s => (s.wstat, s.woken)) = some (.parked, true) := by decide

/-- register AFTER the re-check (check; check; register) loses the wake-up -/
theorem register_after_check_lost_wakeup_counterexample :
    (Waker.run .release .acquire (Waker.init [.check, .check, .register] Waker.notifyPinned)
      [.w 0, .w 0, .n, .n, .w 0]).map Waker.lost = some true := by decide

/-- a close that does not wake (only the swap) loses the wake-up -/
theorem close_without_wake_lost_wakeup_counterexample :
    (Waker.run .seqCst .acquire (Waker.init Waker.waiterPinned [.set])
      [.w 0, .w 0, .w 0, .n]).map Waker.lost = some true := by decide

end Quic.Proofs.C17
