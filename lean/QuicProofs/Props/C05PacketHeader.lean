import QuicProofs.Lemmas.PacketHeader
/-
  C05 (packet headers, RFC 9000 §17.2 / §17.3, RFC 8999): the property theorems about
  `Codec.PacketHeader` (the transcription of `ProtectedPacket::decode` and of the header encoders)
  and `Rfc.PacketHeader` (the independent transcription of the RFC).
-/
namespace Quic.Proofs.C05
open Quic Quic.Codec.PacketHeader Quic.Proofs.PacketHeader
open Quic.Rfc.PacketHeader (parsePacket parseV1 parseVn invariants take? u8? u32? cid? versions? lengthAndProtected)


/-- **The decoder agrees with the independent RFC parser** on every byte string that is a short-header
    packet, a Version Negotiation packet or a version-1 packet, outside the two connection-ID-length
    deviations `CidDeviation` (both shown to be real below).  `abs` forgets the error class and turns the
    code's offsets into the RFC's (Length = `packetLen - headerLen`).

    Full-strength statement (FALSE of the code, see `impl_eq_rfc_header_counterexample_initial` and
    `impl_eq_rfc_header_counterexample_vn`):
      `BytesOk b → KnownVersion b → abs (decodePacket n b) = parsePacket n b`.
    Other versions: see `unknown_version_fields`. -/
theorem impl_eq_rfc_header_partial (n : Nat) (b : List Nat) (hb : BytesOk b)
    (hv : KnownVersion b) (hq : ¬ CidDeviation b) :
    abs (decodePacket n b) = parsePacket n b := by
  match b, hb, hv, hq with
  | [], _, _, _ => rfl
  | first :: t, hb, hv, hq =>
    have hf : first < 256 := hb first (List.mem_cons_self ..)
    by_cases hform : first / 128 % 2 = 0
    · -- short header form
      by_cases hfix : first / 64 % 2 = 1
      · have hhi : shortTagLo ≤ first / 16 ∧ first / 16 ≤ shortTagHi := by
          unfold shortTagLo shortTagHi; omega
        have e : decodePacket n (first :: t) = decodeShort n first (first :: t) := by
          simp only [decodePacket]; rw [if_pos hhi]
        rw [e, decodeShort_spec]
        unfold parsePacket
        simp only []
        rw [if_pos hform, if_pos hfix]
        by_cases hlt : t.length < n
        · rw [if_pos hlt]
          have : take? n t = none := by unfold take?; rw [if_neg (by omega)]
          rw [this]
          simp only [abs]
          split <;> rfl
        · rw [if_neg hlt]
          have ht : take? n t = some (t.take n, t.drop n) := by unfold take?; rw [if_pos (by omega)]
          by_cases h20 : 20 < n
          · rw [if_pos h20, if_neg (by unfold Rfc.PacketHeader.v1MaxCid; omega)]
            rfl
          · rw [if_neg h20, if_pos (by unfold Rfc.PacketHeader.v1MaxCid; omega), ht]
            simp only [abs, Packet.version?, toRfc, List.length_drop, spinOf]
            have : (if first / 32 % 2 = 1 then 1 else 0) = first / 32 % 2 := by split <;> omega
            rw [this]
            congr 3
            omega
      · have h1 : ¬ (shortTagLo ≤ first / 16 ∧ first / 16 ≤ shortTagHi) := by
          unfold shortTagLo shortTagHi; omega
        have h2 : ¬ (vnTagLo ≤ first / 16 ∧ first / 16 ≤ vnTagHi) := by
          unfold vnTagLo vnTagHi; omega
        have e : decodePacket n (first :: t) = .error .invalidPacket := by
          simp only [decodePacket]
          rw [if_neg h1, if_neg h2, if_neg (by unfold initialTag; omega), if_neg (by unfold zeroRttTag; omega),
            if_neg (by unfold handshakeTag; omega), if_neg (by unfold retryTag; omega)]
        rw [e]
        unfold parsePacket
        simp only []
        rw [if_pos hform, if_neg hfix]
        rfl
    · -- long header form
      have hform1 : first / 128 % 2 = 1 := by omega
      have hns : ¬ (shortTagLo ≤ first / 16 ∧ first / 16 ≤ shortTagHi) := by
        unfold shortTagLo shortTagHi; omega
      by_cases ht : t.length < 4
      · rw [parsePacket_long_short n first t hform1 ht]
        have e : decodePacket n (first :: t) = .error .eof := by
          simp only [decodePacket, longPacket, decU32_short t ht]
          rw [if_neg hns]
          split
          · rfl
          · split
            · rfl
            · split
              · rfl
              · split
                · rfl
                · split
                  · rfl
                  · exfalso
                    rename_i a1 a2 a3 a4 a5
                    unfold vnTagLo vnTagHi at a1
                    unfold initialTag at a2; unfold zeroRttTag at a3
                    unfold handshakeTag at a4; unfold retryTag at a5
                    omega
        rw [e]; rfl
      · match t, ht with
        | [], ht => exact absurd (by simp) ht
        | [_], ht => exact absurd (by simp) ht
        | [_, _], ht => exact absurd (by simp) ht
        | [_, _, _], ht => exact absurd (by simp) ht
        | v0 :: v1 :: v2 :: v3 :: r1, _ =>
          have hbytes : BytesOk (first :: v0 :: v1 :: v2 :: v3 :: r1) := hb
          -- the version is 0 or 1
          have hver := hv (((v0 * 256 + v1) * 256 + v2) * 256 + v3) (by simp only [versionField]; rw [if_pos hform1])
          rw [parsePacket_long n first v0 v1 v2 v3 r1 hform1]
          -- the deviation hypothesis, once both connection IDs parse
          have hdev : ∀ d r2 s r3, cid? r1 = some (d, r2) → cid? r2 = some (s, r3) →
              ¬ ((20 < d.length ∨ 20 < s.length) ∧ ((((v0 * 256 + v1) * 256 + v2) * 256 + v3 = 0) ∨
                ((((v0 * 256 + v1) * 256 + v2) * 256 + v3 = 1) ∧ first / 16 % 4 = 0))) := by
            intro d r2 s r3 h1 h2 hc
            apply hq
            refine ⟨first, _, d, s, r3, ?_, hc.1, hc.2⟩
            rw [invariants_cons5 _ _ _ _ _ _ hform1, h1]
            simp only [h2]
          simp only [decodePacket, longPacket, decU32_cons4]
          rw [if_neg hns]
          rcases hver with hver0 | hver1
          · -- Version Negotiation, whatever the type bits say
            have e : (if vnTagLo ≤ first / 16 ∧ first / 16 ≤ vnTagHi then
                  (if vnVersion = ((v0 * 256 + v1) * 256 + v2) * 256 + v3 then decodeVn first (first :: v0 :: v1 :: v2 :: v3 :: r1)
                    else Except.error Err.invalidVn)
                else if first / 16 = initialTag then
                  (if ((v0 * 256 + v1) * 256 + v2) * 256 + v3 = vnVersion then decodeVn first (first :: v0 :: v1 :: v2 :: v3 :: r1)
                    else decodeInitial (((v0 * 256 + v1) * 256 + v2) * 256 + v3) (first :: v0 :: v1 :: v2 :: v3 :: r1))
                else if first / 16 = zeroRttTag then
                  (if ((v0 * 256 + v1) * 256 + v2) * 256 + v3 = vnVersion then decodeVn first (first :: v0 :: v1 :: v2 :: v3 :: r1)
                    else decodeZeroRtt (((v0 * 256 + v1) * 256 + v2) * 256 + v3) (first :: v0 :: v1 :: v2 :: v3 :: r1))
                else if first / 16 = handshakeTag then
                  (if ((v0 * 256 + v1) * 256 + v2) * 256 + v3 = vnVersion then decodeVn first (first :: v0 :: v1 :: v2 :: v3 :: r1)
                    else decodeHandshake (((v0 * 256 + v1) * 256 + v2) * 256 + v3) (first :: v0 :: v1 :: v2 :: v3 :: r1))
                else if first / 16 = retryTag then
                  (if ((v0 * 256 + v1) * 256 + v2) * 256 + v3 = vnVersion then decodeVn first (first :: v0 :: v1 :: v2 :: v3 :: r1)
                    else decodeRetry first (((v0 * 256 + v1) * 256 + v2) * 256 + v3) (first :: v0 :: v1 :: v2 :: v3 :: r1))
                else Except.error Err.invalidPacket) = decodeVn first (first :: v0 :: v1 :: v2 :: v3 :: r1) := by
              rw [hver0]
              unfold vnVersion vnTagLo vnTagHi initialTag zeroRttTag handshakeTag retryTag
              simp only [if_true]
              split
              · rfl
              · split
                · rfl
                · split
                  · rfl
                  · split
                    · rfl
                    · split
                      · rfl
                      · exfalso; omega
            rw [e, decodeVn_eq first first v0 v1 v2 v3 r1 rfl]
            cases h1 : cid? r1 with
            | none => rfl
            | some x1 =>
              obtain ⟨d, r2⟩ := x1
              simp only []
              cases h2 : cid? r2 with
              | none => split <;> rfl
              | some x2 =>
                obtain ⟨s, r3⟩ := x2
                simp only []
                have hd := hdev d r2 s r3 h1 h2
                have hd20 : d.length ≤ 20 := by
                  apply Nat.le_of_not_lt; intro h; exact hd ⟨Or.inl h, Or.inl hver0⟩
                have hs20 : s.length ≤ 20 := by
                  apply Nat.le_of_not_lt; intro h; exact hd ⟨Or.inr h, Or.inl hver0⟩
                rw [if_pos hd20, if_pos hs20, if_pos hver0, parseVn_eq]
                by_cases hl : r3.length < 4
                · rw [if_pos hl, if_pos hl]; rfl
                · rw [if_neg hl, if_neg hl]
                  by_cases h4 : r3.length % 4 ≠ 0
                  · rw [if_pos h4, if_pos h4]; rfl
                  · rw [if_neg h4, if_neg h4]; rfl
          · -- version 1
            have hne0 : ¬ (((v0 * 256 + v1) * 256 + v2) * 256 + v3 = 0) := by omega
            simp only [hver1] at hdev ⊢
            have hv10 : ¬ ((1 : Nat) = vnVersion) := by unfold vnVersion; omega
            have hv01 : ¬ (vnVersion = (1 : Nat)) := by unfold vnVersion; omega
            rw [if_neg hv10, if_neg hv10, if_neg hv10, if_neg hv10, if_neg hv01]
            have hlen : (first :: v0 :: v1 :: v2 :: v3 :: r1).length = r1.length + 5 := by simp
            by_cases hvn : vnTagLo ≤ first / 16 ∧ first / 16 ≤ vnTagHi
            · -- fixed bit clear
              rw [if_pos hvn]
              have hfix : ¬ first / 64 % 2 = 1 := by unfold vnTagLo vnTagHi at hvn; omega
              cases cid? r1 with
              | none => rfl
              | some x1 =>
                obtain ⟨d, r2⟩ := x1
                simp only []
                cases cid? r2 with
                | none => rfl
                | some x2 =>
                  obtain ⟨s, r3⟩ := x2
                  simp only [show ¬ ((1 : Nat) = 0) from by omega, if_false, if_true]
                  simp only [parseV1]
                  rw [if_neg hfix]
                  rfl
            · rw [if_neg hvn]
              have hfix : first / 64 % 2 = 1 := by unfold vnTagLo vnTagHi at hvn; omega
              have hhi : first / 16 = 12 ∨ first / 16 = 13 ∨ first / 16 = 14 ∨ first / 16 = 15 := by
                unfold vnTagLo vnTagHi at hvn; omega
              rcases hhi with h12 | h13 | h14 | h15
              · -- Initial
                have hty : first / 16 % 4 = 0 := by omega
                rw [if_pos (by unfold initialTag; exact h12), decodeInitial_eq 1 first v0 v1 v2 v3 r1 hbytes rfl]
                cases h1 : cid? r1 with
                | none => rfl
                | some x1 =>
                  obtain ⟨d, r2⟩ := x1
                  simp only []
                  cases h2 : cid? r2 with
                  | none => rfl
                  | some x2 =>
                    obtain ⟨s, r3⟩ := x2
                    simp only []
                    have hd := hdev d r2 s r3 h1 h2
                    have hd20 : d.length ≤ 20 := by
                      apply Nat.le_of_not_lt; intro h; exact hd ⟨Or.inl h, Or.inr ⟨trivial, hty⟩⟩
                    have hs20 : s.length ≤ 20 := by
                      apply Nat.le_of_not_lt; intro h; exact hd ⟨Or.inr h, Or.inr ⟨trivial, hty⟩⟩
                    simp only [show ¬ ((1 : Nat) = 0) from by omega, if_false, if_true]
                    have hcid : d.length ≤ 20 ∧ s.length ≤ 20 := ⟨hd20, hs20⟩
                    simp only [parseV1, Rfc.PacketHeader.v1MaxCid, if_pos hfix, if_pos hcid, hty]
                    cases Rfc.VarInt.parse r3 with
                    | none => rfl
                    | some x3 =>
                      obtain ⟨tl, r4⟩ := x3
                      simp only []
                      cases take? tl r4 with
                      | none => rfl
                      | some x4 =>
                        obtain ⟨tok, r5⟩ := x4
                        simp only []
                        cases lengthAndProtected (first :: v0 :: v1 :: v2 :: v3 :: r1).length r5 with
                        | none => rfl
                        | some x5 =>
                          obtain ⟨⟨off, len⟩, next⟩ := x5
                          simp only [abs, Packet.version?, toRfc, if_true, Nat.add_sub_cancel_left]
              · -- 0-RTT
                have hty : first / 16 % 4 = 1 := by omega
                rw [if_neg (by unfold initialTag; omega), if_pos (by unfold zeroRttTag; assumption)]
                unfold decodeZeroRtt
                rw [decodeLongPlain_eq _ first v0 v1 v2 v3 r1 hbytes rfl]
                cases h1 : cid? r1 with
                | none => rfl
                | some x1 =>
                  obtain ⟨d, r2⟩ := x1
                  simp only []
                  by_cases hd20 : d.length ≤ 20
                  · rw [if_pos hd20]
                    cases h2 : cid? r2 with
                    | none => rfl
                    | some x2 =>
                      obtain ⟨s, r3⟩ := x2
                      simp only [show ¬ ((1 : Nat) = 0) from by omega, if_false, if_true]
                      by_cases hs20 : s.length ≤ 20
                      · have hcid : d.length ≤ 20 ∧ s.length ≤ 20 := ⟨hd20, hs20⟩
                        rw [if_pos hs20]
                        simp only [parseV1, Rfc.PacketHeader.v1MaxCid, if_pos hfix, if_pos hcid, hty]
                        cases lengthAndProtected (first :: v0 :: v1 :: v2 :: v3 :: r1).length r3 with
                        | none => rfl
                        | some x5 =>
                          obtain ⟨⟨off, len⟩, next⟩ := x5
                          simp only [abs, Packet.version?, toRfc, if_true, Nat.add_sub_cancel_left]
                      · have hcid : ¬ (d.length ≤ Rfc.PacketHeader.v1MaxCid ∧ s.length ≤ Rfc.PacketHeader.v1MaxCid) := fun h => hs20 h.2
                        rw [if_neg hs20]
                        simp only [parseV1, if_pos hfix]
                        rw [if_neg hcid]
                        rfl
                  · rw [if_neg hd20]
                    cases h2 : cid? r2 with
                    | none => rfl
                    | some x2 =>
                      obtain ⟨s, r3⟩ := x2
                      have hcid : ¬ (d.length ≤ Rfc.PacketHeader.v1MaxCid ∧ s.length ≤ Rfc.PacketHeader.v1MaxCid) := fun h => hd20 h.1
                      simp only [show ¬ ((1 : Nat) = 0) from by omega, if_false, if_true]
                      simp only [parseV1, if_pos hfix]
                      rw [if_neg hcid]
                      rfl
              · -- Handshake
                have hty : first / 16 % 4 = 2 := by omega
                rw [if_neg (by unfold initialTag; omega), if_neg (by unfold zeroRttTag; omega), if_pos (by unfold handshakeTag; assumption)]
                unfold decodeHandshake
                rw [decodeLongPlain_eq _ first v0 v1 v2 v3 r1 hbytes rfl]
                cases h1 : cid? r1 with
                | none => rfl
                | some x1 =>
                  obtain ⟨d, r2⟩ := x1
                  simp only []
                  by_cases hd20 : d.length ≤ 20
                  · rw [if_pos hd20]
                    cases h2 : cid? r2 with
                    | none => rfl
                    | some x2 =>
                      obtain ⟨s, r3⟩ := x2
                      simp only [show ¬ ((1 : Nat) = 0) from by omega, if_false, if_true]
                      by_cases hs20 : s.length ≤ 20
                      · have hcid : d.length ≤ 20 ∧ s.length ≤ 20 := ⟨hd20, hs20⟩
                        rw [if_pos hs20]
                        simp only [parseV1, Rfc.PacketHeader.v1MaxCid, if_pos hfix, if_pos hcid, hty]
                        cases lengthAndProtected (first :: v0 :: v1 :: v2 :: v3 :: r1).length r3 with
                        | none => rfl
                        | some x5 =>
                          obtain ⟨⟨off, len⟩, next⟩ := x5
                          simp only [abs, Packet.version?, toRfc, if_true, Nat.add_sub_cancel_left]
                      · have hcid : ¬ (d.length ≤ Rfc.PacketHeader.v1MaxCid ∧ s.length ≤ Rfc.PacketHeader.v1MaxCid) := fun h => hs20 h.2
                        rw [if_neg hs20]
                        simp only [parseV1, if_pos hfix]
                        rw [if_neg hcid]
                        rfl
                  · rw [if_neg hd20]
                    cases h2 : cid? r2 with
                    | none => rfl
                    | some x2 =>
                      obtain ⟨s, r3⟩ := x2
                      have hcid : ¬ (d.length ≤ Rfc.PacketHeader.v1MaxCid ∧ s.length ≤ Rfc.PacketHeader.v1MaxCid) := fun h => hd20 h.1
                      simp only [show ¬ ((1 : Nat) = 0) from by omega, if_false, if_true]
                      simp only [parseV1, if_pos hfix]
                      rw [if_neg hcid]
                      rfl
              · -- Retry
                have hty : first / 16 % 4 = 3 := by omega
                rw [if_neg (by unfold initialTag; omega), if_neg (by unfold zeroRttTag; omega), if_neg (by unfold handshakeTag; omega), if_pos (by unfold retryTag; assumption)]
                rw [decodeRetry_eq first 1 first v0 v1 v2 v3 r1 rfl]
                cases h1 : cid? r1 with
                | none => rfl
                | some x1 =>
                  obtain ⟨d, r2⟩ := x1
                  simp only []
                  by_cases hd20 : d.length ≤ 20
                  · rw [if_pos hd20]
                    cases h2 : cid? r2 with
                    | none => rfl
                    | some x2 =>
                      obtain ⟨s, r3⟩ := x2
                      simp only [show ¬ ((1 : Nat) = 0) from by omega, if_false, if_true]
                      by_cases hs20 : s.length ≤ 20
                      · have hcid : d.length ≤ 20 ∧ s.length ≤ 20 := ⟨hd20, hs20⟩
                        rw [if_pos hs20]
                        simp only [parseV1, Rfc.PacketHeader.v1MaxCid, if_pos hfix, if_pos hcid, hty]
                        by_cases h16 : r3.length > 16
                        · have h16' : r3.length > Rfc.PacketHeader.retryIntegrityTagBytes := h16
                          rw [if_pos h16, if_pos h16']
                          simp only [abs, Packet.version?, toRfc, if_true, Rfc.PacketHeader.retryIntegrityTagBytes]
                        · have h16' : ¬ r3.length > Rfc.PacketHeader.retryIntegrityTagBytes := h16
                          rw [if_neg h16, if_neg h16']
                          rfl
                      · have hcid : ¬ (d.length ≤ Rfc.PacketHeader.v1MaxCid ∧ s.length ≤ Rfc.PacketHeader.v1MaxCid) := fun h => hs20 h.2
                        rw [if_neg hs20]
                        simp only [parseV1, if_pos hfix]
                        rw [if_neg hcid]
                        rfl
                  · rw [if_neg hd20]
                    cases h2 : cid? r2 with
                    | none => rfl
                    | some x2 =>
                      obtain ⟨s, r3⟩ := x2
                      have hcid : ¬ (d.length ≤ Rfc.PacketHeader.v1MaxCid ∧ s.length ≤ Rfc.PacketHeader.v1MaxCid) := fun h => hd20 h.1
                      simp only [show ¬ ((1 : Nat) = 0) from by omega, if_false, if_true]
                      simp only [parseV1, if_pos hfix]
                      rw [if_neg hcid]
                      rfl

/-- every decoded packet consumes at least one byte and leaves a suffix of the input:
    progress of the coalesced-packet loop -/
theorem header_decode_consumes (n : Nat) (b : List Nat) (p : Packet) (rest : List Nat) (hb : BytesOk b)
    (h : decodePacket n b = .ok (p, rest)) :
    ∃ k, 0 < k ∧ k ≤ b.length ∧ rest = b.drop k := by
  rcases decodePacket_ok_inv n b p rest hb h with
    ⟨first, t, hbdef, _, _, _, _, _, hrest⟩ | ⟨first, v0, v1, v2, v3, r1, d, r2, s, r3, hbdef, _, _, h1, h2, hok⟩
  · refine ⟨b.length, ?_, Nat.le_refl _, ?_⟩
    · rw [hbdef]; simp
    · rw [hrest, List.drop_length]
  · obtain ⟨k, hk, hr3, hkeq⟩ := cids_suffix hbdef h1 h2
    rcases longOk_length hb hk (by omega) hr3 hok with ⟨hrest, _⟩ | ⟨lenOff, hl, pl, h7, hlt, hle, hpl, hrest, _, _⟩
    · refine ⟨b.length, by omega, Nat.le_refl _, ?_⟩
      rw [hrest, List.drop_length]
    · exact ⟨pl, by omega, hpl, hrest⟩

/-- the loop over the coalesced packets of a datagram terminates on every input: the fuel
    `b.length + 1` of `decodeAll` is never exhausted -/
theorem decodeAll_terminates (n : Nat) (b : List Nat) (hb : BytesOk b) : (decodeAll n b).isSome = true := by
  have key : ∀ fuel (b : List Nat), BytesOk b → b.length < fuel → (decodeAllFuel n fuel b).isSome = true := by
    intro fuel
    induction fuel with
    | zero => intro b _ h; omega
    | succ fuel ih =>
      intro b hb hlen
      unfold decodeAllFuel
      by_cases he : b.isEmpty = true
      · rw [if_pos he]; rfl
      · rw [if_neg he]
        cases hd : decodePacket n b with
        | error e => rfl
        | ok x =>
          obtain ⟨p, rest⟩ := x
          obtain ⟨k, hk0, hkb, hrest⟩ := header_decode_consumes n b p rest hb hd
          have hr : rest.length < fuel := by rw [hrest, List.length_drop]; omega
          have := ih rest (by rw [hrest]; exact bytesOk_drop hb k) hr
          simp only []
          cases hw : decodeAllFuel n fuel rest with
          | none => rw [hw] at this; simp at this
          | some w => rfl
  exact key (b.length + 1) b hb (Nat.lt_succ_self _)

/-- RFC 9000 §17.2 "MUST NOT exceed 20 bytes … MUST drop": every accepted packet other than an
    Initial has connection IDs of at most 20 bytes — for EVERY version, at decode time.

    Full-strength statement (FALSE of the code for Initial packets, see
    `cid_len_le_20_initial_counterexample`; the endpoint applies the bound to Initial packets
    after version negotiation: `cid_len_le_20_after_endpoint_check`):
      `decodePacket n b = .ok (p, rest) → p.dcid.length ≤ 20 ∧ ∀ s, p.scid? = some s → s.length ≤ 20`. -/
theorem cid_len_le_20_enforced_partial (n : Nat) (b : List Nat) (p : Packet) (rest : List Nat) (hb : BytesOk b)
    (h : decodePacket n b = .ok (p, rest)) (hni : ∀ v d s t hl pl, p ≠ .initial v d s t hl pl) :
    p.dcid.length ≤ 20 ∧ ∀ s, p.scid? = some s → s.length ≤ 20 := by
  rcases decodePacket_ok_inv n b p rest hb h with
    ⟨first, t, hbdef, _, _, hn, hn20, hp, _⟩ | ⟨first, v0, v1, v2, v3, r1, d, r2, s, r3, hbdef, _, _, h1, h2, hok⟩
  · rw [hp]
    simp only [Packet.dcid, Packet.scid?, List.length_take]
    exact ⟨by omega, fun _ h => by simp at h⟩
  · cases hok with
    | vn _ hd hs => exact ⟨hd, fun s' h => by simp only [Packet.scid?, Option.some.injEq] at h; rw [← h]; exact hs⟩
    | initial tl r4 tok r5 off len next => exact absurd rfl (hni _ _ _ _ _ _)
    | zeroRtt off len next _ _ hd hs => exact ⟨hd, fun s' h => by simp only [Packet.scid?, Option.some.injEq] at h; rw [← h]; exact hs⟩
    | handshake off len next _ _ hd hs => exact ⟨hd, fun s' h => by simp only [Packet.scid?, Option.some.injEq] at h; rw [← h]; exact hs⟩
    | retry _ _ hd hs => exact ⟨hd, fun s' h => by simp only [Packet.scid?, Option.some.injEq] at h; rw [← h]; exact hs⟩

/-- after the check the endpoint applies to every decoded packet (`endpointCidCheck`) the bound
    holds for all packet types -/
theorem cid_len_le_20_after_endpoint_check (n : Nat) (b : List Nat) (p : Packet) (rest : List Nat)
    (h : endpointCidCheck (decodePacket n b) = .ok (p, rest)) :
    p.dcid.length ≤ 20 ∧ ∀ s, p.scid? = some s → s.length ≤ 20 := by
  unfold endpointCidCheck at h
  cases hd : decodePacket n b with
  | error e => rw [hd] at h; simp at h
  | ok x =>
    obtain ⟨q, r⟩ := x
    rw [hd] at h
    simp only [] at h
    by_cases h1 : q.dcid.length > maxDcidLen
    · rw [if_pos h1] at h; simp at h
    · rw [if_neg h1] at h
      unfold maxDcidLen at h1
      cases hs : q.scid? with
      | none =>
        rw [hs] at h
        simp only [Except.ok.injEq, Prod.mk.injEq] at h
        rw [← h.1]
        exact ⟨by omega, fun s h' => by rw [hs] at h'; simp at h'⟩
      | some s =>
        rw [hs] at h
        simp only [] at h
        by_cases h2 : s.length > maxScidLen
        · rw [if_pos h2] at h; simp at h
        · rw [if_neg h2] at h
          unfold maxScidLen at h2
          simp only [Except.ok.injEq, Prod.mk.injEq] at h
          rw [← h.1]
          exact ⟨by omega, fun s' h' => by rw [hs] at h'; simp only [Option.some.injEq] at h'; rw [← h']; omega⟩

/-- the declared Length is exactly the number of packet-number + payload bytes the packet occupies:
    the Length varint (starting at some `lenOff`) ends at `headerLen` (the packet-number offset),
    its value is `packetLen - headerLen`, the packet ends at `packetLen ≤ |b|`, and the next
    coalesced packet starts right there -/
theorem long_header_len_exact (n : Nat) (b : List Nat) (p : Packet) (rest : List Nat) (hb : BytesOk b)
    (h : decodePacket n b = .ok (p, rest)) (v : Nat) (d s : List Nat) (hl pl : Nat)
    (hp : (∃ tok, p = .initial v d s tok hl pl) ∨ p = .zeroRtt v d s hl pl ∨ p = .handshake v d s hl pl) :
    ∃ lenOff, lenOff < hl ∧ hl ≤ pl ∧ pl ≤ b.length ∧
      Codec.VarInt.decode (b.drop lenOff) = some (pl - hl, b.drop hl) ∧ rest = b.drop pl := by
  rcases decodePacket_ok_inv n b p rest hb h with
    ⟨first, t, _, _, _, _, _, hps, _⟩ | ⟨first, v0, v1, v2, v3, r1, d', r2, s', r3, hbdef, _, _, h1, h2, hok⟩
  · rcases hp with ⟨tok, hp⟩ | hp | hp <;> rw [hp] at hps <;> simp at hps
  · obtain ⟨k, hk, hr3, hkeq⟩ := cids_suffix hbdef h1 h2
    rcases longOk_length hb hk (by omega) hr3 hok with ⟨_, hvr⟩ | ⟨lenOff, hl', pl', h7, hlt, hle, hpl, hrest, hdec, hshape⟩
    · rcases hvr with ⟨_, _, _, _, hq⟩ | ⟨_, _, _, _, _, _, hq⟩ <;>
        rcases hp with ⟨tok, hp⟩ | hp | hp <;> rw [hp] at hq <;> simp at hq
    · have heq : hl' = hl ∧ pl' = pl := by
        rcases hshape with ⟨tok', hq⟩ | hq | hq <;> rcases hp with ⟨tok, hp⟩ | hp | hp <;>
          rw [hp] at hq <;> simp at hq <;> omega
      obtain ⟨e1, e2⟩ := heq
      subst e1; subst e2
      exact ⟨lenOff, hlt, hle, hpl, hdec, hrest⟩

/-- a long-header packet whose Version field is 0 is a Version Negotiation packet whatever its type
    bits say: it never has token / Length / packet-number fields — everything after the two
    connection IDs is the version list, and it consumes the entire datagram -/
theorem vn_never_has_payload_fields (n : Nat) (b : List Nat) (p : Packet) (rest : List Nat) (hb : BytesOk b)
    (hv : versionField b = some 0) (h : decodePacket n b = .ok (p, rest)) :
    ∃ tag d s sup, p = .versionNegotiation tag d s sup ∧ rest = [] ∧ b.head? = some tag ∧
      sup = b.drop (5 + (1 + d.length) + (1 + s.length)) ∧
      5 + (1 + d.length) + (1 + s.length) + sup.length = b.length ∧ 4 ≤ sup.length ∧ sup.length % 4 = 0 := by
  rcases decodePacket_ok_inv n b p rest hb h with
    ⟨first, t, hbdef, hform, _, _, _, _, _⟩ | ⟨first, v0, v1, v2, v3, r1, d, r2, s, r3, hbdef, hform, _, h1, h2, hok⟩
  · exfalso
    rw [hbdef] at hv
    match t, hv with
    | [], hv => simp [versionField] at hv
    | [_], hv => simp [versionField] at hv
    | [_, _], hv => simp [versionField] at hv
    | [_, _, _], hv => simp [versionField] at hv
    | _ :: _ :: _ :: _ :: _, hv =>
      simp only [versionField] at hv
      rw [if_neg (by omega)] at hv
      simp at hv
  · have hV : ((v0 * 256 + v1) * 256 + v2) * 256 + v3 = 0 := by
      rw [hbdef] at hv
      simp only [versionField] at hv
      rw [if_pos hform] at hv
      simpa using hv
    obtain ⟨k, hk, hr3, hkeq⟩ := cids_suffix hbdef h1 h2
    cases hok with
    | vn _ hd hs h4 hm =>
      refine ⟨first, d, s, r3, rfl, rfl, by rw [hbdef]; rfl, by rw [hr3, hkeq], ?_, h4, hm⟩
      rw [hr3, List.length_drop]; omega
    | initial tl r4 tok r5 off len next hne => exact absurd hV hne
    | zeroRtt off len next hne => exact absurd hV hne
    | handshake off len next hne => exact absurd hV hne
    | retry hne => exact absurd hV hne

/-- **never a panic**: none of the `expect(..)` / `debug_assert!` sites of the decoder
    (`HeaderDecoder::new_long` / `new_short`, the `skip` in `ProtectedVersionNegotiation::decode`,
    `ProtectedPayload::new`, the Retry tag `try_into().expect(..)`) can fire — the decoder returns a
    packet or one of the nine `DecoderError` classes on every byte string -/
theorem header_decode_total (n : Nat) (b : List Nat) (hb : BytesOk b) : decodePacket n b ≠ .error .panic := by
  intro h
  match b, hb, h with
  | [], _, h => simp [decodePacket] at h
  | first :: t, hb, h =>
    have hf : first < 256 := hb first (List.mem_cons_self ..)
    by_cases hform : first / 128 % 2 = 0
    · rw [decodePacket_shortForm n first t hf hform, decodeShort_spec] at h
      repeat' (split at h)
      all_goals simp at h
    · have hform1 : first / 128 % 2 = 1 := by omega
      by_cases ht : t.length < 4
      · rw [decodePacket_longTrunc n first t hf hform1 ht] at h; simp at h
      · match t, ht, hb, h with
        | [], ht, _, _ => exact absurd (by simp) ht
        | [_], ht, _, _ => exact absurd (by simp) ht
        | [_, _], ht, _, _ => exact absurd (by simp) ht
        | [_, _, _], ht, _, _ => exact absurd (by simp) ht
        | v0 :: v1 :: v2 :: v3 :: r1, _, hb, h =>
          rw [decodePacket_long n first v0 v1 v2 v3 r1 hf hform1] at h
          unfold decodeZeroRtt decodeHandshake at h
          rw [decodeVn_eq first first v0 v1 v2 v3 r1 rfl, decodeInitial_eq _ first v0 v1 v2 v3 r1 hb rfl,
            decodeLongPlain_eq _ first v0 v1 v2 v3 r1 hb rfl, decodeLongPlain_eq _ first v0 v1 v2 v3 r1 hb rfl,
            decodeRetry_eq first _ first v0 v1 v2 v3 r1 rfl] at h
          repeat' (split at h)
          all_goals simp at h

/-- **other versions.**  The code decodes every non-zero version with the version-1 layout; the RFC
    knows only the RFC 8999 fields of such a packet.  Whenever the code ACCEPTS a packet of a version
    other than 0 and 1, the version and both connection IDs it reports are the RFC 8999 ones (so a
    Version Negotiation packet built from them echoes the right IDs); the code is free to drop such
    packets, and does so for 0-RTT / Handshake / Retry typed ones with IDs longer than 20 bytes. -/
theorem unknown_version_fields (n : Nat) (b : List Nat) (p : Packet) (rest : List Nat) (hb : BytesOk b)
    (v : Nat) (hv : versionField b = some v) (h0 : v ≠ 0) (h1 : v ≠ 1)
    (h : decodePacket n b = .ok (p, rest)) :
    abs (decodePacket n b) = parsePacket n b ∧ p.version? = some v ∧
      ∃ s, p.scid? = some s ∧ parsePacket n b = some (.unsupportedVersion v p.dcid s, []) := by
  rcases decodePacket_ok_inv n b p rest hb h with
    ⟨first, t, hbdef, hform, _, _, _, _, _⟩ | ⟨first, v0, v1, v2, v3, r1, d, r2, s, r3, hbdef, hform, _, hc1, hc2, hok⟩
  · exfalso
    rw [hbdef] at hv
    match t, hv with
    | [], hv => simp [versionField] at hv
    | [_], hv => simp [versionField] at hv
    | [_, _], hv => simp [versionField] at hv
    | [_, _, _], hv => simp [versionField] at hv
    | _ :: _ :: _ :: _ :: _, hv =>
      simp only [versionField] at hv
      rw [if_neg (by omega)] at hv
      simp at hv
  · have hV : ((v0 * 256 + v1) * 256 + v2) * 256 + v3 = v := by
      rw [hbdef] at hv
      simp only [versionField] at hv
      rw [if_pos hform] at hv
      simpa using hv
    have hparse : parsePacket n b = some (.unsupportedVersion v d s, []) := by
      rw [hbdef, parsePacket_long n first v0 v1 v2 v3 r1 hform, hc1]
      simp only [hc2, hV]
      rw [if_neg h0, if_neg h1]
    rw [hV] at hok
    rw [h, hparse]
    cases hok with
    | vn hz => exact absurd hz h0
    | initial tl r4 tok r5 off len next =>
      refine ⟨?_, rfl, s, rfl, rfl⟩
      simp only [abs, Packet.version?, toRfc, if_neg h1]
    | zeroRtt off len next =>
      refine ⟨?_, rfl, s, rfl, rfl⟩
      simp only [abs, Packet.version?, toRfc, if_neg h1]
    | handshake off len next =>
      refine ⟨?_, rfl, s, rfl, rfl⟩
      simp only [abs, Packet.version?, toRfc, if_neg h1]
    | retry =>
      refine ⟨?_, rfl, s, rfl, rfl⟩
      simp only [abs, Packet.version?, toRfc, if_neg h1]

/-- RFC 9000 §17.2.1: "Version-specific rules for the connection ID MUST NOT influence a decision about
    whether to send a Version Negotiation packet": a packet with the Initial type bits (the only kind the
    server answers with Version Negotiation) is never rejected because of a connection-ID length -/
theorem initial_typed_never_rejected_for_cid_len (n first v0 v1 v2 v3 : Nat) (r1 : List Nat)
    (hb : BytesOk (first :: v0 :: v1 :: v2 :: v3 :: r1)) (hty : first / 16 = 12)
    (hV : ((v0 * 256 + v1) * 256 + v2) * 256 + v3 ≠ 0) :
    decodePacket n (first :: v0 :: v1 :: v2 :: v3 :: r1) ≠ .error .dcidLen ∧
    decodePacket n (first :: v0 :: v1 :: v2 :: v3 :: r1) ≠ .error .scidLen := by
  have hf : first < 256 := hb first (List.mem_cons_self ..)
  have hform : first / 128 % 2 = 1 := by omega
  rw [decodePacket_long n first v0 v1 v2 v3 r1 hf hform, if_neg hV, if_neg (by omega), if_pos hty]
  constructor <;> (intro h; have := decodeInitial_error_eof hb rfl h; simp at this)

/-- **decoder followed by the endpoint's connection-ID check = the RFC parser** on version-1 and
    short-header input: the only deviation left on such input (`CidDeviation` for Initial packets) is
    closed by `endpointCidCheck`, which s2n-quic applies to every decoded packet before routing it -/
theorem impl_eq_rfc_header_with_endpoint_check (n : Nat) (b : List Nat) (hb : BytesOk b)
    (hv : ∀ v, versionField b = some v → v = 1) :
    abs (endpointCidCheck (decodePacket n b)) = parsePacket n b := by
  have hkv : KnownVersion b := fun v h => Or.inr (hv v h)
  by_cases hq : CidDeviation b
  · -- an over-long connection ID in an Initial-typed version-1 packet: both sides reject
    obtain ⟨first, V, d, s, body, hinv, hlong, hver⟩ := hq
    obtain ⟨v0, v1, v2, v3, r1, r2, hbdef, hform, hVeq, hc1, hc2⟩ := invariants_some_inv hinv
    have hV1 : ((v0 * 256 + v1) * 256 + v2) * 256 + v3 = 1 := by
      apply hv
      rw [hbdef]; simp only [versionField]; rw [if_pos hform]
    have hty : first / 16 % 4 = 0 := by
      rcases hver with h | ⟨_, h⟩
      · omega
      · exact h
    have hparse : parsePacket n b = none := by
      rw [hbdef, parsePacket_long n first v0 v1 v2 v3 r1 hform, hc1]
      simp only [hc2, hV1]
      simp only [show ¬ ((1 : Nat) = 0) from by omega, if_false, if_true, parseV1]
      have hcid : ¬ (d.length ≤ Rfc.PacketHeader.v1MaxCid ∧ s.length ≤ Rfc.PacketHeader.v1MaxCid) := by
        unfold Rfc.PacketHeader.v1MaxCid; omega
      split <;> first | rfl | rw [if_neg hcid]
    rw [hparse]
    cases hd : decodePacket n b with
    | error e => rfl
    | ok x =>
      obtain ⟨p, rest⟩ := x
      rcases decodePacket_ok_inv n b p rest hb hd with
        ⟨f', t, hb', hform', _, _, _, _, _⟩ | ⟨f', w0, w1, w2, w3, q1, d', q2, s', q3, hb', _, _, hc1', hc2', hok⟩
      · rw [hbdef] at hb'
        simp only [List.cons.injEq] at hb'
        omega
      · rw [hbdef] at hb'
        simp only [List.cons.injEq] at hb'
        obtain ⟨e0, e1, e2, e3, e4, e5⟩ := hb'
        subst e0; subst e1; subst e2; subst e3; subst e4; subst e5
        rw [hc1] at hc1'
        simp only [Option.some.injEq, Prod.mk.injEq] at hc1'
        obtain ⟨ed, er⟩ := hc1'
        subst ed; subst er
        rw [hc2] at hc2'
        simp only [Option.some.injEq, Prod.mk.injEq] at hc2'
        obtain ⟨es, eb⟩ := hc2'
        subst es; subst eb
        have hchk : endpointCidCheck (.ok (p, rest)) = .error .dcidLen ∨ endpointCidCheck (.ok (p, rest)) = .error .scidLen := by
          have hds : p.dcid = d ∧ p.scid? = some s := by
            cases hok <;> exact ⟨rfl, rfl⟩
          unfold endpointCidCheck
          simp only [hds.1, hds.2]
          by_cases hd20 : d.length > maxDcidLen
          · left; rw [if_pos hd20]
          · right
            rw [if_neg hd20, if_pos (by unfold maxDcidLen at hd20; unfold maxScidLen; omega)]
        rcases hchk with e | e <;> rw [e] <;> rfl
  · rw [← impl_eq_rfc_header_partial n b hb hkv hq]
    cases hd : decodePacket n b with
    | error e => rfl
    | ok x =>
      obtain ⟨p, rest⟩ := x
      have hsame : endpointCidCheck (.ok (p, rest)) = .ok (p, rest) := by
        rcases decodePacket_ok_inv n b p rest hb hd with
          ⟨f', t, hb', _, _, hn, hn20, hp, _⟩ | ⟨f', w0, w1, w2, w3, q1, d, q2, s, q3, hb', hform, _, hc1, hc2, hok⟩
        · unfold endpointCidCheck
          rw [hp]
          simp only [Packet.dcid, Packet.scid?, List.length_take]
          rw [if_neg (by unfold maxDcidLen; omega)]
        · have hV1 : ((w0 * 256 + w1) * 256 + w2) * 256 + w3 = 1 := by
            apply hv
            rw [hb']; simp only [versionField]; rw [if_pos hform]
          have hbound : d.length ≤ 20 ∧ s.length ≤ 20 := by
            cases hok with
            | vn hz => omega
            | zeroRtt _ _ _ _ _ hdl hsl => exact ⟨hdl, hsl⟩
            | handshake _ _ _ _ _ hdl hsl => exact ⟨hdl, hsl⟩
            | retry _ _ hdl hsl => exact ⟨hdl, hsl⟩
            | initial tl r4 tok r5 off len next _ h12 =>
              have hinv : invariants b = some (f', 1, d, s, q3) := by
                rw [hb', invariants_cons5 _ _ _ _ _ _ hform, hc1]
                simp only [hc2, hV1]
              refine ⟨Nat.le_of_not_lt fun hlt => hq ⟨f', 1, d, s, q3, hinv, Or.inl hlt, Or.inr ⟨rfl, by omega⟩⟩,
                Nat.le_of_not_lt fun hlt => hq ⟨f', 1, d, s, q3, hinv, Or.inr hlt, Or.inr ⟨rfl, by omega⟩⟩⟩
          have hds : p.dcid = d ∧ p.scid? = some s := by
            cases hok <;> exact ⟨rfl, rfl⟩
          unfold endpointCidCheck
          simp only [hds.1, hds.2]
          rw [if_neg (by unfold maxDcidLen; omega), if_neg (by unfold maxScidLen; omega)]
      rw [hsame]

/-! ### the two deviations are real (witnesses replayed on the real decoder by `./check C05`:
    `dec 0 c000000001 15 07×21 00 00 02 0909` and `dec 0 8000000000 15 07×21 00 00000001`) -/

/-- a version-1 Initial packet with a 21-byte Destination Connection ID -/
def witnessInitialLongCid : List Nat := [0xc0, 0, 0, 0, 1, 21] ++ List.replicate 21 7 ++ [0, 0, 2, 9, 9]
/-- a Version Negotiation packet with a 21-byte Destination Connection ID and one supported version -/
def witnessVnLongCid : List Nat := [0x80, 0, 0, 0, 0, 21] ++ List.replicate 21 7 ++ [0, 0, 0, 0, 1]

/-- the full-strength `impl_eq_rfc_header` is FALSE: the code accepts a version-1 Initial packet whose
    DCID is 21 bytes long, RFC 9000 §17.2 says it MUST be dropped -/
theorem impl_eq_rfc_header_counterexample_initial :
    BytesOk witnessInitialLongCid ∧ KnownVersion witnessInitialLongCid ∧
    decodePacket 0 witnessInitialLongCid = .ok (.initial 1 (List.replicate 21 7) [] [] 30 32, []) ∧
    parsePacket 0 witnessInitialLongCid = none ∧
    abs (decodePacket 0 witnessInitialLongCid) ≠ parsePacket 0 witnessInitialLongCid := by
  refine ⟨bytesOk_of_all _ (by decide), ?_, by rfl, by decide, by decide⟩
  intro v hv
  have : versionField witnessInitialLongCid = some 1 := by decide
  rw [this] at hv
  simp only [Option.some.injEq] at hv
  omega

/-- … and it rejects a Version Negotiation packet with a 21-byte connection ID, which Figure 14
    (Destination Connection ID (0..2040)) allows -/
theorem impl_eq_rfc_header_counterexample_vn :
    BytesOk witnessVnLongCid ∧ KnownVersion witnessVnLongCid ∧
    decodePacket 0 witnessVnLongCid = .error .dcidLen ∧
    parsePacket 0 witnessVnLongCid = some (.versionNegotiation 0 (List.replicate 21 7) [] [1], []) ∧
    abs (decodePacket 0 witnessVnLongCid) ≠ parsePacket 0 witnessVnLongCid := by
  refine ⟨bytesOk_of_all _ (by decide), ?_, by rfl, by decide, by decide⟩
  intro v hv
  have : versionField witnessVnLongCid = some 0 := by decide
  rw [this] at hv
  simp only [Option.some.injEq] at hv
  omega

/-- the full-strength `cid_len_le_20_enforced` is FALSE at decode time for Initial packets -/
theorem cid_len_le_20_initial_counterexample :
    ∃ b p rest, BytesOk b ∧ decodePacket 0 b = .ok (p, rest) ∧ p.version? = some 1 ∧ 20 < p.dcid.length :=
  ⟨witnessInitialLongCid, .initial 1 (List.replicate 21 7) [] [] 30 32, [], bytesOk_of_all _ (by decide), by rfl, rfl,
    by decide⟩

/-- both witnesses are exactly the inputs excluded by `CidDeviation` -/
theorem witnesses_are_deviations : CidDeviation witnessInitialLongCid ∧ CidDeviation witnessVnLongCid :=
  ⟨⟨0xc0, 1, List.replicate 21 7, [], [0, 2, 9, 9], by decide, Or.inl (by decide), Or.inr ⟨rfl, by decide⟩⟩,
   ⟨0x80, 0, List.replicate 21 7, [], [0, 0, 0, 1], by decide, Or.inl (by decide), Or.inl rfl⟩⟩

/-! ### non-vacuity: concrete inputs satisfying the hypotheses of the theorems above -/

/-- a coalesced datagram: Initial (token `aa`, 3 protected bytes) ‖ Handshake (2 protected bytes) ‖ 1-RTT -/
def sampleDatagram : List Nat :=
  [0xc3, 0, 0, 0, 1, 2, 1, 2, 1, 3, 1, 0xaa, 3, 7, 8, 9] ++ [0xe0, 0, 0, 0, 1, 2, 1, 2, 0, 2, 5, 6] ++ [0x40, 1, 2, 9, 9, 9]

example : BytesOk sampleDatagram ∧ KnownVersion sampleDatagram ∧ ¬ CidDeviation sampleDatagram := by
  refine ⟨bytesOk_of_all _ (by decide), ?_, ?_⟩
  · intro v hv
    have : versionField sampleDatagram = some 1 := by decide
    rw [this] at hv; simp only [Option.some.injEq] at hv; omega
  · rintro ⟨first, V, d, s, body, hinv, hlong, _⟩
    have : invariants sampleDatagram = some (0xc3, 1, [1, 2], [3], [1, 0xaa, 3, 7, 8, 9, 0xe0, 0, 0, 0, 1, 2, 1, 2, 0, 2, 5, 6, 0x40, 1, 2, 9, 9, 9]) := by
      decide
    rw [this] at hinv
    simp only [Option.some.injEq, Prod.mk.injEq] at hinv
    obtain ⟨_, _, hd, hs, _⟩ := hinv
    rw [← hd, ← hs] at hlong
    simp at hlong

example : decodePacket 2 sampleDatagram =
    .ok (.initial 1 [1, 2] [3] [0xaa] 13 16, sampleDatagram.drop 16) := by rfl
example : abs (decodePacket 2 sampleDatagram) = parsePacket 2 sampleDatagram := by decide
example : decodeAll 2 sampleDatagram = some ⟨[(.initial 1 [1, 2] [3] [0xaa] 13 16, 16), (.handshake 1 [1, 2] [] 10 12, 12),
    (.short 0 [1, 2] 3 6, 6)], none⟩ := by decide
example : Rfc.PacketHeader.parseAll 2 sampleDatagram =
    [.initial 1 [1, 2] [3] [0xaa] 13 3, .handshake 1 [1, 2] [] 10 2, .oneRtt 0 [1, 2] 3 3] := by decide
/-- an unknown version (draft-29) with the Initial type bits and a 21-byte DCID is accepted, so the
    server can answer with Version Negotiation (hypotheses of `unknown_version_fields`) -/
example : versionField ([0xc0, 0xff, 0, 0, 0x1d, 21] ++ List.replicate 21 7 ++ [0, 0, 1, 9]) = some 0xff00001d ∧
    decodePacket 0 ([0xc0, 0xff, 0, 0, 0x1d, 21] ++ List.replicate 21 7 ++ [0, 0, 1, 9]) =
      .ok (.initial 0xff00001d (List.replicate 21 7) [] [] 30 31, []) := ⟨by decide, by rfl⟩
/-- a Retry and a Version Negotiation packet (hypothesis of `vn_never_has_payload_fields`: Version = 0,
    here with the Handshake type bits) -/
example : decodePacket 0 ([0xf5, 0, 0, 0, 1, 1, 4, 1, 5, 0xaa, 0xbb] ++ List.replicate 16 3) =
    .ok (.retry 0xf5 1 [4] [5] [0xaa, 0xbb] (List.replicate 16 3), []) := by rfl
example : versionField [0xe7, 0, 0, 0, 0, 1, 4, 1, 5, 0, 0, 0, 1, 0xff, 0, 0, 0x1d] = some 0 ∧
    decodePacket 0 [0xe7, 0, 0, 0, 0, 1, 4, 1, 5, 0, 0, 0, 1, 0xff, 0, 0, 0x1d] =
      .ok (.versionNegotiation 0xe7 [4] [5] [0, 0, 0, 1, 0xff, 0, 0, 0x1d], []) := ⟨by decide, by rfl⟩

/-! ### round trips: what the encoders emit decodes back to the same header fields, occupying exactly
    the bytes written.  `encodePacket h cap 0 0 pn la payload` is `PacketEncoder::encode_packet` under
    `crypto::testing::{Key, HeaderKey}` (the D harness drives exactly this); the Length field is written
    through the placeholder (`encode_updated`: possibly a non-minimal varint). -/

open Quic.Codec
theorem header_roundtrip_initial (n cap v pn la : Nat) (d s tok payload bytes : List Nat)
    (hv0 : v ≠ 0) (hv : v < 4294967296) (hd : d.length ≤ 255) (hs : s.length ≤ 255) (hcap : cap ≤ VarInt.maxValue)
    (he : encodePacket (.initial v d s tok) cap 0 0 pn la payload = .ok bytes) :
    ∃ t, PacketNumber.truncate pn la = some t ∧ bytes.length ≤ cap ∧
      decodePacket n bytes = .ok (.initial v d s tok
        (bytes.length - (PacketNumber.bytesize t.len + payload.length)) bytes.length, []) ∧
      bytes.drop (bytes.length - (PacketNumber.bytesize t.len + payload.length))
        = PacketNumber.encodeTruncated t ++ payload := by
  obtain ⟨t, hdr, ht, hh, hp0, hfit, hbytes⟩ := encodePacket_ok_inv he
  have hl3 := truncate_len_le pn la t ht
  simp only [Hdr.isLong, if_true] at hfit hbytes
  have hhdr : hdr = (192 + t.len) :: (be32 v ++ ((d.length :: d) ++ ((s.length :: s) ++ (VarInt.encode tok.length ++ tok)))) := by
    simp only [encodeHeader, encodeLongHeader, lenPrefixU8, if_pos hd, if_pos hs, initialTag,
      PacketNumber.intoPacketTagMask, Option.some.injEq] at hh
    rw [← hh]; simp [List.append_assoc]
  have hbl : (PacketNumber.encodeTruncated t ++ payload).length = PacketNumber.bytesize t.len + payload.length := by
    rw [List.length_append, encodeTruncated_length]
  have hmx : placeholderValue (cap - hdr.length) = cap - hdr.length := by
    unfold placeholderValue; rw [if_pos (by omega)]
  have hdec : VarInt.decode (encodeUpdated (placeholderValue (cap - hdr.length)) (PacketNumber.bytesize t.len + payload.length)
      ++ (PacketNumber.encodeTruncated t ++ payload)) =
      some ((PacketNumber.encodeTruncated t ++ payload).length, PacketNumber.encodeTruncated t ++ payload) := by
    rw [hbl]
    apply encodeUpdated_roundtrip
    · rw [hmx]; omega
    · rw [hmx]; omega
  have htok : tok.length ≤ VarInt.maxValue := by
    have : tok.length ≤ hdr.length := by rw [hhdr]; simp; omega
    omega
  have hshape : bytes = longLayout (192 + t.len) v d s (VarInt.encode tok.length ++ (tok ++
      (encodeUpdated (placeholderValue (cap - hdr.length)) (PacketNumber.bytesize t.len + payload.length)
        ++ (PacketNumber.encodeTruncated t ++ payload)))) := by
    rw [hbytes, hhdr, be32_eq]; simp [longLayout, List.append_assoc]
  refine ⟨t, ht, ?_, ?_, ?_⟩
  · rw [hbytes, List.length_append, List.length_append, hbl]
    rw [encodeUpdated_length]
    omega
  · rw [hshape, decodePacket_layout n _ v d s _ (by omega) (by omega) hv, if_neg hv0, if_neg (by omega), if_pos (by omega),
      decodeInitial_layout v _ v d s tok _ _ htok hdec, hbl]
  · rw [hbytes, ← List.append_assoc, ← hbl]
    exact drop_suffix_len _ _

theorem header_roundtrip_zeroRtt (n cap v pn la : Nat) (d s payload bytes : List Nat)
    (hv0 : v ≠ 0) (hv : v < 4294967296) (hd : d.length ≤ 20) (hs : s.length ≤ 20) (hcap : cap ≤ VarInt.maxValue)
    (he : encodePacket (.zeroRtt v d s) cap 0 0 pn la payload = .ok bytes) :
    ∃ t, PacketNumber.truncate pn la = some t ∧ bytes.length ≤ cap ∧
      decodePacket n bytes = .ok (.zeroRtt v d s
        (bytes.length - (PacketNumber.bytesize t.len + payload.length)) bytes.length, []) ∧
      bytes.drop (bytes.length - (PacketNumber.bytesize t.len + payload.length))
        = PacketNumber.encodeTruncated t ++ payload := by
  obtain ⟨t, hdr, ht, hh, hp0, hfit, hbytes⟩ := encodePacket_ok_inv he
  have hl3 := truncate_len_le pn la t ht
  simp only [Hdr.isLong, if_true] at hfit hbytes
  have hhdr : hdr = (208 + t.len) :: (be32 v ++ ((d.length :: d) ++ (s.length :: s))) := by
    simp only [encodeHeader, encodeLongHeader, lenPrefixU8, if_pos (show d.length ≤ 255 by omega),
      if_pos (show s.length ≤ 255 by omega), zeroRttTag, PacketNumber.intoPacketTagMask, Option.some.injEq] at hh
    rw [← hh]; simp [List.append_assoc]
  have hbl : (PacketNumber.encodeTruncated t ++ payload).length = PacketNumber.bytesize t.len + payload.length := by
    rw [List.length_append, encodeTruncated_length]
  have hmx : placeholderValue (cap - hdr.length) = cap - hdr.length := by
    unfold placeholderValue; rw [if_pos (by omega)]
  have hdec : VarInt.decode (encodeUpdated (placeholderValue (cap - hdr.length)) (PacketNumber.bytesize t.len + payload.length)
      ++ (PacketNumber.encodeTruncated t ++ payload)) =
      some ((PacketNumber.encodeTruncated t ++ payload).length, PacketNumber.encodeTruncated t ++ payload) := by
    rw [hbl]
    apply encodeUpdated_roundtrip
    · rw [hmx]; omega
    · rw [hmx]; omega
  have hshape : bytes = longLayout (208 + t.len) v d s
      (encodeUpdated (placeholderValue (cap - hdr.length)) (PacketNumber.bytesize t.len + payload.length)
        ++ (PacketNumber.encodeTruncated t ++ payload)) := by
    rw [hbytes, hhdr, be32_eq]; simp [longLayout, List.append_assoc]
  refine ⟨t, ht, ?_, ?_, ?_⟩
  · rw [hbytes, List.length_append, List.length_append, hbl, encodeUpdated_length]
    omega
  · rw [hshape, decodePacket_layout n _ v d s _ (by omega) (by omega) hv, if_neg hv0, if_neg (by omega)]
    rw [if_neg (by omega), if_pos (by omega)]
    unfold decodeZeroRtt
    rw [decodeLongPlain_layout _ _ v d s _ _ hd hs hdec, hbl]
  · rw [hbytes, ← List.append_assoc, ← hbl]
    exact drop_suffix_len _ _

theorem header_roundtrip_handshake (n cap v pn la : Nat) (d s payload bytes : List Nat)
    (hv0 : v ≠ 0) (hv : v < 4294967296) (hd : d.length ≤ 20) (hs : s.length ≤ 20) (hcap : cap ≤ VarInt.maxValue)
    (he : encodePacket (.handshake v d s) cap 0 0 pn la payload = .ok bytes) :
    ∃ t, PacketNumber.truncate pn la = some t ∧ bytes.length ≤ cap ∧
      decodePacket n bytes = .ok (.handshake v d s
        (bytes.length - (PacketNumber.bytesize t.len + payload.length)) bytes.length, []) ∧
      bytes.drop (bytes.length - (PacketNumber.bytesize t.len + payload.length))
        = PacketNumber.encodeTruncated t ++ payload := by
  obtain ⟨t, hdr, ht, hh, hp0, hfit, hbytes⟩ := encodePacket_ok_inv he
  have hl3 := truncate_len_le pn la t ht
  simp only [Hdr.isLong, if_true] at hfit hbytes
  have hhdr : hdr = (224 + t.len) :: (be32 v ++ ((d.length :: d) ++ (s.length :: s))) := by
    simp only [encodeHeader, encodeLongHeader, lenPrefixU8, if_pos (show d.length ≤ 255 by omega),
      if_pos (show s.length ≤ 255 by omega), handshakeTag, PacketNumber.intoPacketTagMask, Option.some.injEq] at hh
    rw [← hh]; simp [List.append_assoc]
  have hbl : (PacketNumber.encodeTruncated t ++ payload).length = PacketNumber.bytesize t.len + payload.length := by
    rw [List.length_append, encodeTruncated_length]
  have hmx : placeholderValue (cap - hdr.length) = cap - hdr.length := by
    unfold placeholderValue; rw [if_pos (by omega)]
  have hdec : VarInt.decode (encodeUpdated (placeholderValue (cap - hdr.length)) (PacketNumber.bytesize t.len + payload.length)
      ++ (PacketNumber.encodeTruncated t ++ payload)) =
      some ((PacketNumber.encodeTruncated t ++ payload).length, PacketNumber.encodeTruncated t ++ payload) := by
    rw [hbl]
    apply encodeUpdated_roundtrip
    · rw [hmx]; omega
    · rw [hmx]; omega
  have hshape : bytes = longLayout (224 + t.len) v d s
      (encodeUpdated (placeholderValue (cap - hdr.length)) (PacketNumber.bytesize t.len + payload.length)
        ++ (PacketNumber.encodeTruncated t ++ payload)) := by
    rw [hbytes, hhdr, be32_eq]; simp [longLayout, List.append_assoc]
  refine ⟨t, ht, ?_, ?_, ?_⟩
  · rw [hbytes, List.length_append, List.length_append, hbl, encodeUpdated_length]
    omega
  · rw [hshape, decodePacket_layout n _ v d s _ (by omega) (by omega) hv, if_neg hv0, if_neg (by omega)]
    rw [if_neg (by omega), if_neg (by omega), if_pos (by omega)]
    unfold decodeHandshake
    rw [decodeLongPlain_layout _ _ v d s _ _ hd hs hdec, hbl]
  · rw [hbytes, ← List.append_assoc, ← hbl]
    exact drop_suffix_len _ _

theorem header_roundtrip_short (cap spin phase pn la : Nat) (d payload bytes : List Nat)
    (hspin : spin ≤ 1) (hphase : phase ≤ 1) (hd : d.length ≤ 20)
    (he : encodePacket (.short spin phase d) cap 0 0 pn la payload = .ok bytes) :
    ∃ t, PacketNumber.truncate pn la = some t ∧ bytes.length ≤ cap ∧
      decodePacket d.length bytes = .ok (.short spin d (1 + d.length) bytes.length, []) ∧
      bytes.drop (1 + d.length) = PacketNumber.encodeTruncated t ++ payload ∧
      bytes.head? = some (64 + 32 * spin + 4 * phase + t.len) := by
  obtain ⟨t, hdr, ht, hh, hp0, hfit, hbytes⟩ := encodePacket_ok_inv he
  have hl3 := truncate_len_le pn la t ht
  simp only [Hdr.isLong, Bool.false_eq_true, if_false, List.nil_append, Nat.add_zero] at hfit hbytes
  have hfirst : (shortEncodingTag + (if spin = 1 then spinBitMask else 0) + (if phase = 1 then keyPhaseMask else 0)
      + PacketNumber.intoPacketTagMask t.len) = 64 + 32 * spin + 4 * phase + t.len := by
    unfold shortEncodingTag spinBitMask keyPhaseMask PacketNumber.intoPacketTagMask
    have : spin = 0 ∨ spin = 1 := by omega
    have : phase = 0 ∨ phase = 1 := by omega
    rcases ‹spin = 0 ∨ spin = 1› with h | h <;> rcases ‹phase = 0 ∨ phase = 1› with h' | h' <;> simp [h, h']
  have hhdr : hdr = (64 + 32 * spin + 4 * phase + t.len) :: d := by
    simp only [encodeHeader, encodeShortHeader, Option.some.injEq] at hh
    rw [← hh, hfirst]
  have hbl : (PacketNumber.encodeTruncated t ++ payload).length = PacketNumber.bytesize t.len + payload.length := by
    rw [List.length_append, encodeTruncated_length]
  have hshape : bytes = (64 + 32 * spin + 4 * phase + t.len) :: (d ++ (PacketNumber.encodeTruncated t ++ payload)) := by
    rw [hbytes, hhdr]; simp
  refine ⟨t, ht, ?_, ?_, ?_, ?_⟩
  · rw [hbytes, List.length_append, hbl]; omega
  · rw [hshape, decodePacket_shortForm _ _ _ (by omega) (by omega), if_pos (by omega), decodeShort_spec,
      if_neg (by simp), if_neg (by omega)]
    have hspin' : spinOf (64 + 32 * spin + 4 * phase + t.len) = spin := by
      unfold spinOf
      have : spin = 0 ∨ spin = 1 := by omega
      rcases this with h | h <;> subst h <;> split <;> omega
    rw [hspin', List.take_left']
    · simp only [List.length_cons]
    · rfl
  · rw [hshape]
    simp only [Nat.add_comm 1, List.drop_succ_cons, List.drop_left]
  · rw [hshape]; rfl

theorem header_roundtrip_vn (n tag : Nat) (d s sup bytes : List Nat) (htag : tag < 256)
    (hd : d.length ≤ 20) (hs : s.length ≤ 20) (h4 : 4 ≤ sup.length) (hm : sup.length % 4 = 0)
    (he : encodeVn tag d s sup = some bytes) :
    decodePacket n bytes = .ok (.versionNegotiation (tag ||| 192) d s sup, []) ∧
      bytes.length = 7 + d.length + s.length + sup.length := by
  have hor := or_c0 tag htag
  have hf : (tag ||| 192) < 256 := by omega
  have hform : (tag ||| 192) / 128 % 2 = 1 := by omega
  have hshape : bytes = longLayout (tag ||| 192) 0 d s sup := by
    simp only [encodeVn, lenPrefixU8, if_pos (show d.length ≤ 255 by omega), if_pos (show s.length ≤ 255 by omega),
      vnEncodingTag, vnVersion, Option.some.injEq] at he
    rw [← he, be32_eq]; simp [longLayout, List.append_assoc]
  constructor
  · rw [hshape, decodePacket_layout n _ 0 d s _ hf hform (by omega), if_pos rfl]
    unfold longLayout
    rw [decodeVn_eq _ _ _ _ _ _ _ rfl, cid?_append]
    simp only []
    rw [if_pos hd, cid?_append]
    simp only []
    rw [if_pos hs, if_neg (by omega), if_neg (by omega)]
  · rw [hshape]; simp [longLayout]; omega

theorem header_roundtrip_retry (n tag v : Nat) (d s tok itag bytes : List Nat) (htag : tag < 256) (hty : tag / 16 = 15)
    (hv0 : v ≠ 0) (hv : v < 4294967296) (hd : d.length ≤ 20) (hs : s.length ≤ 20) (htok : 0 < tok.length)
    (hitag : itag.length = 16) (he : encodeRetry tag v d s tok itag = some bytes) :
    decodePacket n bytes = .ok (.retry tag v d s tok itag, []) ∧
      bytes.length = 7 + d.length + s.length + tok.length + 16 := by
  have hshape : bytes = longLayout tag v d s (tok ++ itag) := by
    simp only [encodeRetry, lenPrefixU8, if_pos (show d.length ≤ 255 by omega), if_pos (show s.length ≤ 255 by omega),
      Option.some.injEq] at he
    rw [← he, be32_eq]; simp [longLayout, List.append_assoc]
  constructor
  · rw [hshape, decodePacket_layout n _ v d s _ htag (by omega) hv, if_neg hv0, if_neg (by omega), if_neg (by omega),
      if_neg (by omega), if_neg (by omega)]
    unfold longLayout
    rw [decodeRetry_eq _ _ _ _ _ _ _ _ rfl, cid?_append]
    simp only []
    rw [if_pos hd, cid?_append]
    simp only []
    have hlen : (tok ++ itag).length - 16 = tok.length := by rw [List.length_append]; omega
    rw [if_pos hs, if_pos (by rw [List.length_append]; omega), hlen, List.take_left', List.drop_left']
    · rfl
    · rfl
  · rw [hshape]; simp [longLayout]; omega


/-! non-vacuity of the round-trip hypotheses: the encoders succeed on concrete inputs, and the bytes are
    the ones the REAL `encode_packet` / `encode` produced for the same arguments in the D harness
    (`enc initial 1200 1 0102030405060708 0a0b 77 5 0 000102…1b` → `c000000001080102030405060708020a0b0177401d05 00…1b`:
    the Length field `401d` is the 2-byte placeholder holding 29 = 1 packet-number byte + 28 payload bytes) -/
example : encodePacket (.initial 1 [1, 2, 3, 4, 5, 6, 7, 8] [10, 11] [0x77]) 1200 0 0 5 0 (List.range 28) =
    .ok ([0xc0, 0, 0, 0, 1, 8, 1, 2, 3, 4, 5, 6, 7, 8, 2, 10, 11, 1, 0x77, 0x40, 0x1d, 5] ++ List.range 28) := by rfl
example : encodePacket (.handshake 1 [1, 2, 3, 4, 5, 6, 7, 8] [10, 11]) 100 0 0 300 0 (List.range 28) =
    .ok ([0xe1, 0, 0, 0, 1, 8, 1, 2, 3, 4, 5, 6, 7, 8, 2, 10, 11, 0x40, 0x1e, 1, 0x2c] ++ List.range 28) := by rfl
example : encodePacket (.short 1 1 [1, 2, 3, 4]) 1200 0 0 70000 3 (List.range 28) =
    .ok ([0x66, 1, 2, 3, 4, 1, 0x11, 0x70] ++ List.range 28) := by rfl
example : encodeVn 0 [1, 2] [3, 4, 5, 6] [0, 0, 0, 1, 0, 0, 0, 10] =
    some [0xc0, 0, 0, 0, 0, 2, 1, 2, 4, 3, 4, 5, 6, 0, 0, 0, 1, 0, 0, 0, 10] := by decide
example : encodeRetry 0xff 1 [1, 2] [3, 4] [0xaa, 0xbb] (List.range 16) =
    some ([0xff, 0, 0, 0, 1, 2, 1, 2, 2, 3, 4, 0xaa, 0xbb] ++ List.range 16) := by decide

end Quic.Proofs.C05
