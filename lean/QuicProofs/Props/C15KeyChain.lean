import QuicProofs.Lemmas.KeyChain
import QuicProofs.Lemmas.KeySet
/-
  C15 — the key chain: the assumption the generation-number model makes about
  `OneRttKey::derive_next_key`, stated as a hypothesis (`ChainOK`), what it buys, what breaks
  without it, and the soundness/completeness of the checker the driver runs on the table
  observed on the REAL keys (component `keychain-obs`).

  Physical keys: `keyOf g` is the key material of generation `g` (the handshake key after `g`
  applications of `derive_next_key`), `aead a b` says whether a packet sealed under key `a` opens
  under key `b`. The theorems of Props/C15KeySet.lean speak about generation numbers; the ones
  here transfer them to keys.
-/
namespace Quic.Proofs.C15
open Quic.Conn.KeySet Quic.Conn.KeyChain Quic.Proofs.KeySetLemmas Quic.Proofs.KeyChainLemmas

/-! ## 1. the observation-table checker -/

/-- SOUNDNESS of the driver's verdict: if the checker accepts a table of observations and `opens`
    is any relation the observations were made on, then `opens` is a proper chain on generations
    `0..n`: generation `i` packets open under generation `j` iff `i = j`. -/
theorem observed_table_establishes_chain (n : Nat) (t : List Obs) (opens : Nat → Nat → Bool)
    (hobs : ∀ o, o ∈ t → opens o.i o.j = o.opened) (h : check n t = .chainok) : ChainOKUpTo n opens := by
  intro i j hi hj
  obtain ⟨o, ho, rfl, rfl, hb⟩ := lookup_mem (((check_ok n t).mp h).2 i j hi hj)
  rw [hobs o ho, hb]

/-- COMPLETENESS: the complete table of a proper chain is accepted … -/
theorem chain_table_accepted (n : Nat) (opens : Nat → Nat → Bool) (h : ChainOKUpTo n opens) :
    check n (tabulate n opens) = .chainok := by
  rw [check_ok]
  refine ⟨tabulate_consistent opens n, fun i j hi hj => ?_⟩
  rw [lookup_tabulate opens n i j hi hj, h i j hi hj]

/-- … and a relation all of whose finite tables are accepted is `ChainOK` -/
theorem chainOK_iff_all_tables (opens : Nat → Nat → Bool) :
    ChainOK opens ↔ ∀ n, check n (tabulate n opens) = .chainok := by
  constructor
  · intro h n
    exact chain_table_accepted n opens (fun i j _ _ => h i j)
  · intro h i j
    have hn := h (max i j)
    have hobs : ∀ o, o ∈ tabulate (max i j) opens → opens o.i o.j = o.opened := by
      intro o ho
      unfold tabulate at ho
      obtain ⟨a, b, _, _, rfl⟩ := (mem_tabulateRows opens _ _ o).mp ho
      rfl
    exact observed_table_establishes_chain _ _ opens hobs hn i j (Nat.le_max_left _ _) (Nat.le_max_right _ _)

/-- non-vacuity: a table with a repeated observation, generations 0..2 -/
example : check 2 [⟨0, 0, true⟩, ⟨0, 1, false⟩, ⟨0, 2, false⟩, ⟨1, 0, false⟩, ⟨1, 1, true⟩, ⟨1, 2, false⟩,
    ⟨2, 0, false⟩, ⟨2, 1, false⟩, ⟨2, 2, true⟩, ⟨1, 1, true⟩] = .chainok := by decide

/-- what the checker says about the chain of the seeded change (`derive_next_key` keeps the current
    secrets: generations 1, 2, 3, … are one key) -/
theorem collapsed_chain_rejected :
    check 2 (tabulate 2 (fun i j => min i 1 == min j 1)) = .broken 1 2 true := by decide

/-- … about two endpoints whose chains diverge after the handshake key -/
theorem diverging_chain_rejected :
    check 2 (tabulate 2 (fun i j => i == j && i == 0)) = .broken 1 1 false := by decide

/-- … and about incomplete or contradictory observations -/
theorem incomplete_table_rejected : check 1 [⟨0, 0, true⟩, ⟨0, 1, false⟩, ⟨1, 1, true⟩] = .missing 1 0 := by decide
theorem conflicting_table_rejected :
    check 0 [⟨0, 0, true⟩, ⟨0, 0, false⟩] = .conflict 0 0 := by decide

/-! ## 2. a key is a generation -/

/-- under `ChainOK` different generations have different key material (AEAD correctness: every key
    opens what it sealed) -/
theorem chainOK_keys_distinct {K : Type} (keyOf : Nat → K) (aead : K → K → Bool)
    (h : ChainOK (fun i j => aead (keyOf i) (keyOf j))) (i j : Nat) (hk : keyOf i = keyOf j) : i = j := by
  have h1 := h i j
  have h2 := h j j
  simp only at h1 h2
  rw [hk] at h1
  rw [h1] at h2
  simpa using h2

/-- FULL STRENGTH, physical keys: with the repaired rotate guard and a proper key chain, no 1-RTT
    KEY (not merely: no generation number) ever protects more packets than the confidentiality
    limit, whatever the history. `(run …).2` is the log of sealing generations, `map keyOf` the log
    of the keys that sealed. -/
theorem conf_limit_per_physical_key {K : Type} [DecidableEq K] (keyOf : Nat → K) (aead : K → K → Bool)
    (hchain : ChainOK (fun i j => aead (keyOf i) (keyOf j)))
    (r : Repairs) (hr : r.rotateOnlyIfNoUpdateInProgress = true) (c i w : Nat) (ops : List Op) (k : K) :
    (((Conn.KeySet.run r (Conn.KeySet.init c i w, []) ops).2).map keyOf).count k ≤ c := by
  have hinj := chainOK_keys_distinct keyOf aead hchain
  generalize hlog : (Conn.KeySet.run r (Conn.KeySet.init c i w, []) ops).2 = log
  by_cases hk : ∃ g, g ∈ log ∧ keyOf g = k
  · obtain ⟨g, _, rfl⟩ := hk
    rw [count_map_of_injective keyOf hinj]
    rw [← hlog]
    exact (inv_run r hr ops (inv_init c i w)).capped g
  · have : (log.map keyOf).count k = 0 := by
      rw [List.count_eq_zero]
      intro hm
      obtain ⟨g, hg, hgk⟩ := List.mem_map.mp hm
      exact hk ⟨g, hg, hgk⟩
    omega

/-- non-vacuity of the hypotheses: keys = generation numbers, ideal AEAD -/
example : ChainOK (fun i j => (fun (a b : Nat) => a == b) ((fun g => g) i) ((fun g => g) j)) := fun _ _ => rfl

/-- WITHOUT the chain assumption the statement is false even of the fully repaired `KeySet`: if
    `derive_next_key` returns the same key from generation 1 on (the seeded change in the rustls
    provider), that one key seals 6 packets under a confidentiality limit of 3 — the per-slot
    counters restart with every "new" key. -/
theorem conf_limit_physical_key_counterexample_collapsed_chain :
    let ops : List Op := [.encrypt, .encrypt, .encrypt, .encrypt, .encrypt,
      .decrypt true (some 1) 7 0 100, .timeout 1000000, .encrypt, .encrypt, .encrypt]
    (Conn.KeySet.run Repairs.full (Conn.KeySet.init 3 9 2, []) ops).2 = [2, 2, 2, 1, 1, 1, 0, 0] ∧
      (((Conn.KeySet.run Repairs.full (Conn.KeySet.init 3 9 2, []) ops).2).map (fun g => min g 1)).count 1 = 6 := by
  decide +kernel

/-! ## 3. the model's AEAD verdict is the physical one -/

/-- under `ChainOK` the generation-number model IS the physical behaviour -/
theorem decryptPhys_eq_decrypt (opens : Nat → Nat → Bool) (h : ChainOK opens) (r : Repairs) (s : Conn.KeySet.State) (ph : Bool)
    (g : Option Nat) (pn la pto : Nat) : decryptPhys opens r s ph g pn la pto = decrypt r s ph g pn la pto := by
  cases g with
  | none => rfl
  | some g =>
    simp only [decryptPhys, h g (s.slot ph).keyGen]
    by_cases hg : g = (s.slot ph).keyGen
    · simp [hg]
    · have hne : (g == (s.slot ph).keyGen) = false := by simpa using hg
      simp only [hne, if_false, Bool.false_eq_true]
      rw [decrypt_eq, decrypt_eq]
      have h1 : Quic.Proofs.KeySetLemmas.opens s ph none = false := by simp [Quic.Proofs.KeySetLemmas.opens]
      have h2 : Quic.Proofs.KeySetLemmas.opens s ph (some g) = false := by
        simp [Quic.Proofs.KeySetLemmas.opens, hg]
      rw [h1, h2]

/-- WITHOUT it genuine packets are lost: if the peer's chain differs from generation 1 on (e.g. one
    side derives from the wrong secret or with another label), the first packet after a key update
    — sealed by the peer with ITS generation 1, tried under OUR generation 1 — fails authentication,
    although the generation-number model accepts it and follows the update -/
theorem genuine_packet_rejected_counterexample_diverging_chain :
    let s := Conn.KeySet.init 10 3 3
    (decrypt Repairs.full s true (some 1) 5 0 9000).2 = .rotated 1 ∧
      (decryptPhys (fun i j => i == j && i == 0) Repairs.full s true (some 1) 5 0 9000).2 = .decryptError := by
  decide

/-! ## 4. the abstract packet model of the `keychain` component -/

/-- the model opens a packet iff it is presented untouched to the PEER's opener of the sealing
    generation -/
theorem opensAt_iff (p : Packet) (opener : Side) (gen pn : Nat) (header : List Nat) (tampered : Bool) :
    p.opensAt opener gen pn header tampered = true ↔
      p.sealer ≠ opener ∧ p.gen = gen ∧ p.pn = pn ∧ p.header = header ∧ tampered = false := by
  simp [Packet.opensAt, and_assoc]

/-- for a fixed direction the model's table is the identity relation, i.e. it assumes `ChainOK` -/
theorem model_table_is_chainOK (p : Nat → Packet) (hs : ∀ i, (p i).sealer = .client) (hg : ∀ i, (p i).gen = i) :
    ChainOK (fun i j => (p i).opensAt .server j (p i).pn (p i).header false) := by
  intro i j
  simp [Packet.opensAt, hs, hg]

example : (⟨"a", .client, 3, 7, [1], [2]⟩ : Packet).opensAt .server 3 7 [1] false = true ∧
    (⟨"a", .client, 3, 7, [1], [2]⟩ : Packet).opensAt .server 4 7 [1] false = false ∧
    (⟨"a", .client, 3, 7, [1], [2]⟩ : Packet).opensAt .client 3 7 [1] false = false := by decide

end Quic.Proofs.C15
