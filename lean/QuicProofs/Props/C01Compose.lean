import QuicModel.Stream.DataSender
import QuicModel.Data.RefBufSpec
import QuicProofs.Lemmas.C01Compose
import QuicProofs.Props.C01Reassembly
/-
  Property C01, END-TO-END COMPOSITION: stream bytes are delivered exactly once, in order, unaltered.

  Sender  = the data sender of a stream (`Quic.Stream.DataSender`, tied to /repo by C12), under
            EVERY history of push / finish / transmit / ack / loss / reset / flow-control change
            and for ANY flow controller;
  Network = anything that does not forge or alter: every frame that ARRIVES is a frame the sender
            emitted in that history, but frames may be dropped, duplicated, reordered, delayed and
            re-delivered arbitrarily. This is exactly what C06 guarantees of the packet pipeline
            (`forged_no_effect` / `processed_only_authentic`: only packets sealed by the peer are
            processed, each at most once) and it is the ONLY assumption (`hnet`) below;
  Receiver = the reassembly buffer (`Quic.Data.RefBuf`, tied to the real Reassembler by C16/C01
            differential runs) under every interleaving of arrivals and application reads with
            any watermark.
-/
namespace Quic.Proofs.C01
open Quic.Stream.DataSender
open Quic.Proofs.DataSender (allFrames)
open Quic.Proofs.C01Compose (toRef acceptedPushes)

variable {F : Type}

/-- the bytes the sending application wrote = everything the sender accepted (ghost `written`) -/
def writtenBy (ops : FlowOps F) (fc : F) (hist : List (Op (F := F))) : List Nat :=
  (run ops (initStream fc) hist).1.sender.written

/-- the network assumption (C06): every frame arriving at the receiver is one the sender emitted -/
def Authentic (ops : FlowOps F) (fc : F) (hist : List (Op (F := F))) (evs : List Quic.Data.RefBuf.Ev) : Prop :=
  ∀ f, Quic.Data.RefBuf.Ev.frame f ∈ evs → ∃ fr ∈ allFrames (run ops (initStream fc) hist).2, f = toRef fr

/-- `written` is exactly the concatenation of the pushes made before the first `finish` / `reset`:
    the model accepts no push after `finish` (`SendStream::validate_push`), so the final size
    announced by a FIN is the total number of bytes pushed. -/
theorem written_eq_pushes (ops : FlowOps F) (fc : F) (hist : List (Op (F := F))) :
    writtenBy ops fc hist = acceptedPushes hist := by
  have := Quic.Proofs.C01Compose.run_written ops hist (initStream fc) (Quic.Proofs.DataSender.ok_init fc).1
  simpa [writtenBy, initStream, Quic.Proofs.C01Compose.IsOpen] using this

/-- every frame the sender ever emits — first transmission, retransmission of lost data in any
    segmentation, the FIN — is `Consistent` with what the application wrote: right bytes at the
    right offset, inside `written`, and a FIN ends exactly at `|written|`. -/
theorem sender_frames_consistent (ops : FlowOps F) (fc : F) (hist : List (Op (F := F))) (fr : Frame)
    (h : fr ∈ allFrames (run ops (initStream fc) hist).2) :
    Quic.Data.RefBuf.Consistent (writtenBy ops fc hist) (toRef fr) :=
  Quic.Proofs.C01Compose.frames_consistent_ref ops fc hist fr h

/-- END TO END, PREFIX: for every sender history, every network behaviour that only delivers
    frames the sender emitted (drop / duplicate / reorder / delay at will), and every read pattern
    of the receiving application, the bytes read are a prefix of the bytes written. -/
theorem c01_end_to_end (ops : FlowOps F) (fc : F) (hist : List (Op (F := F)))
    (evs : List Quic.Data.RefBuf.Ev) (hnet : Authentic ops fc hist evs) :
    Quic.Data.RefBuf.readsOf evs <+: writtenBy ops fc hist := by
  apply reasm_prefix
  intro f hf
  obtain ⟨fr, hfr, rfl⟩ := hnet f hf
  exact sender_frames_consistent ops fc hist fr hfr

/-- END TO END, COMPLETE: if the receiver reports reading complete (it has read up to a final
    size it learned from a FIN), it has read exactly the bytes the sender's application wrote
    before `finish` — no byte missing, none duplicated, none altered. -/
theorem c01_end_to_end_complete (ops : FlowOps F) (fc : F) (hist : List (Op (F := F)))
    (evs : List Quic.Data.RefBuf.Ev) (hnet : Authentic ops fc hist evs)
    (hc : Quic.Data.RefBuf.isReadingComplete (Quic.Data.RefBuf.bufOf evs) = true) :
    Quic.Data.RefBuf.readsOf evs = acceptedPushes hist := by
  rw [← written_eq_pushes ops fc hist]
  apply reasm_complete _ _ _ hc
  intro f hf
  obtain ⟨fr, hfr, rfl⟩ := hnet f hf
  exact sender_frames_consistent ops fc hist fr hfr

/-! ### non-vacuity: loss, retransmission in a different segmentation, duplicate, reordering -/

/-- 10 bytes in two pushes; packets 0 (6 bytes) and 1 (4 bytes); packet 0 is lost and
    retransmitted as 4 + 2 bytes in packets 2 and 3; the FIN goes out with packet 3 -/
def demoHist : List (Op (F := SimpleFc)) :=
  [.push [1, 2, 3, 4, 5, 6], .push [7, 8, 9, 10], .transmit 0 6 true true, .transmit 1 6 true true, .finish,
   .loss 0 0, .transmit 2 4 true true, .transmit 3 9 true true, .ack 1 3]

/-- what the sender put on the wire -/
example : allFrames (run simpleFlow (initStream ⟨100, false⟩) demoHist).2 =
    [⟨0, [1, 2, 3, 4, 5, 6], false⟩, ⟨6, [7, 8, 9, 10], false⟩, ⟨0, [1, 2, 3, 4], false⟩, ⟨4, [5, 6], false⟩,
     ⟨10, [], true⟩] := by decide

open Quic.Data.RefBuf in
/-- what the network delivers: the FIN first, the tail, a piece of the retransmission TWICE, a
    read in between, the other piece, the (late) original of the "lost" packet, final reads -/
def demoEvs : List Quic.Data.RefBuf.Ev :=
  [.frame ⟨10, [], true⟩, .frame ⟨6, [7, 8, 9, 10], false⟩, .frame ⟨4, [5, 6], false⟩, .frame ⟨4, [5, 6], false⟩,
   .pop none, .frame ⟨0, [1, 2, 3, 4], false⟩, .pop (some 3), .frame ⟨0, [1, 2, 3, 4, 5, 6], false⟩, .pop none]

/-- the hypothesis of the theorems holds for the demo … -/
example : Authentic simpleFlow ⟨100, false⟩ demoHist demoEvs := by
  intro f hf
  have hfr : allFrames (run simpleFlow (initStream ⟨100, false⟩) demoHist).2 =
      [⟨0, [1, 2, 3, 4, 5, 6], false⟩, ⟨6, [7, 8, 9, 10], false⟩, ⟨0, [1, 2, 3, 4], false⟩, ⟨4, [5, 6], false⟩,
       ⟨10, [], true⟩] := by decide
  rw [hfr]
  simp only [demoEvs, List.mem_cons, Quic.Data.RefBuf.Ev.frame.injEq, List.not_mem_nil, or_false, reduceCtorEq, false_or] at hf
  rcases hf with rfl | rfl | rfl | rfl | rfl | rfl <;> simp [toRef]

/-- … and so does the conclusion: everything is read, exactly once, in order -/
example : Quic.Data.RefBuf.readsOf demoEvs = [1, 2, 3, 4, 5, 6, 7, 8, 9, 10] ∧
    Quic.Data.RefBuf.isReadingComplete (Quic.Data.RefBuf.bufOf demoEvs) = true ∧
    acceptedPushes demoHist = [1, 2, 3, 4, 5, 6, 7, 8, 9, 10] := by decide

/-- a push after `finish` is not accepted (so it can never be delivered) -/
example : acceptedPushes (demoHist ++ [.push [11]]) = [1, 2, 3, 4, 5, 6, 7, 8, 9, 10] ∧
    writtenBy simpleFlow ⟨100, false⟩ (demoHist ++ [.push [11]]) = [1, 2, 3, 4, 5, 6, 7, 8, 9, 10] := by decide

end Quic.Proofs.C01
