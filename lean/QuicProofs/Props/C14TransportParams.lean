import QuicProofs.Lemmas.TransportParams
import QuicProofs.Props.C05TransportParams
import QuicModel.Conn.TpAuth
/-
  C14 — a peer's transport parameters are accepted exactly when RFC 9000 §7.4 / §18.2 allow them, and the
  limits the connection operates under are the declared ones (RFC defaults for absent parameters).

  `Codec.accepts fs role blk`  : the transcribed `decode_parameters` loop over the field table `fs` succeeds
  `Rfc.accepts role blk`       : the declarative RFC table accepts (QuicModel/Rfc/TransportParams.lean)

  The field table of the code at the pinned commit is `pinnedFields = fieldsWith pinnedKnobs`; the bridge
  lemma `Bridge.TransportParams.fields_eq` re-proves on every run that this is what /repo's source says.
  `fieldsWith rfcKnobs` (= `conformantFields`) is the same table with the four RFC-deviating rows replaced.

  FULL-STRENGTH STATEMENT (the goal):  ∀ role blk, Codec.accepts pinnedFields role blk ↔ Rfc.accepts role blk.
  It is FALSE of the pinned code, at exactly four value classes, each proved below on a concrete block and
  replayed on the real code by the differential run (python oracle signature in brackets):
    F1  max_ack_delay = 2^14 accepted (`<=` for `<`)                         [tp:accept:max_ack_delay=16384]
    D2  ack_delay_exponent is read as a raw byte: a non-shortest varint      [tp:reject:ack_delay_exponent=nonminimal]
        encoding (legal, §16) of a valid value is rejected
    D3  retry_source_connection_id shorter than 4 bytes rejected             [tp:reject:retry_source_connection_id=len0..3]
        (typed `LocalId`, MIN_LEN 4; a peer's Retry SCID may be 0..20 bytes)
    D4  preferred_address with a zero-length connection ID accepted          [tp:accept:preferred_address=cidlen0]
        (§18.2: "A client MUST treat a violation … as TRANSPORT_PARAMETER_ERROR")
  What IS proved:
    `tp_accept_iff_rfc`          the full iff for the table with RFC-conformant rows (`rfcKnobs`);
    `tp_accept_iff_rfc_partial`  the iff for the PINNED table on every block that avoids the four classes
                                 (`Avoids pinnedKnobs`), i.e. the code deviates from the RFC nowhere else;
    `tp_accept_iff_rfc_knobs`    both are instances of one theorem, generic in the four knobs.
  -- AFTER-FIX: once `<=` → `<` has landed in MaxAckDelay::validate, `pinnedKnobs` becomes ⟨false, true, 4, 0⟩
  -- (see QuicModel/Codec/TransportParams.lean); every theorem here keeps checking, the `example` marked
  -- AFTER-FIX below has to be deleted, and the `Avoids pinnedKnobs` hypothesis loses its max_ack_delay clause.

  Not a decode question but part of C14 ("limits = what the peer declared"), found while reading and NOT
  modelled here because it lives in s2n-quic-transport: the peer's `ack_delay_exponent` is decoded and validated
  but never applied — recovery/manager.rs:406 passes `frame.ack_delay()` = `Duration::from_micros(raw field)`
  (frame/ack.rs:103) and `ack::Settings::decode_ack_delay` has no non-test caller.
-/
namespace Quic.Proofs.C14
open Quic Quic.Codec Quic.Codec.TransportParams Quic.Proofs.TransportParams
open Quic.Rfc.TransportParams (parseItems)

/-! ### acceptance -/

/-- generic in the four knobs: on blocks that avoid the value classes where the table built from `k` differs
    from RFC 9000, the loop accepts exactly the blocks the RFC table accepts -/
theorem tp_accept_iff_rfc_knobs (k : Knobs) (role : Role) (blk : List Nat) (hb : BytesOk blk)
    (hav : ∀ its, parseItems blk.length blk = some its → ∀ it ∈ its, Avoids k it.1 it.2) :
    accepts (fieldsWith k) role blk = true ↔ Rfc.TransportParams.accepts role blk = true := by
  unfold Rfc.TransportParams.accepts
  rw [accepts_eq_acceptsWith (Avoids k) (fieldsWith k) _ (tablesMatch_knobs k) role blk hb hav]

/-- FULL STRENGTH, for the field table with RFC-conformant rows: accepted ⇔ RFC 9000 §7.4/§18.2 allow it.
    (`BytesOk`: the block consists of bytes.) -/
theorem tp_accept_iff_rfc (role : Role) (blk : List Nat) (hb : BytesOk blk) :
    accepts conformantFields role blk = true ↔ Rfc.TransportParams.accepts role blk = true :=
  tp_accept_iff_rfc_knobs rfcKnobs role blk hb (fun _ _ it _ => avoids_rfcKnobs it.1 it.2)

/-- the PINNED table (what the code does): same iff on every block that stays away from the deviation classes -/
theorem tp_accept_iff_rfc_partial (role : Role) (blk : List Nat) (hb : BytesOk blk)
    (hav : ∀ its, parseItems blk.length blk = some its → ∀ it ∈ its, Avoids pinnedKnobs it.1 it.2) :
    accepts pinnedFields role blk = true ↔ Rfc.TransportParams.accepts role blk = true :=
  tp_accept_iff_rfc_knobs pinnedKnobs role blk hb hav

/-- non-vacuity of the `Avoids` hypothesis: a block with max_ack_delay = 16383 (2-byte varint), a one-byte
    ack_delay_exponent, a 4-byte retry_source_connection_id and an unknown parameter avoids all classes -/
example : ∀ its, parseItems 16 [0x0b, 0x02, 0x7f, 0xff, 0x0a, 0x01, 0x14, 0x10, 0x04, 1, 2, 3, 4, 0x1b, 0x01, 0xaa] = some its →
    ∀ it ∈ its, Avoids pinnedKnobs it.1 it.2 := by
  intro its h
  have : its = [(0x0b, [0x7f, 0xff]), (0x0a, [0x14]), (0x10, [1, 2, 3, 4]), (0x1b, [0xaa])] := by
    have h2 : parseItems 16 [0x0b, 0x02, 0x7f, 0xff, 0x0a, 0x01, 0x14, 0x10, 0x04, 1, 2, 3, 4, 0x1b, 0x01, 0xaa]
        = some [(0x0b, [0x7f, 0xff]), (0x0a, [0x14]), (0x10, [1, 2, 3, 4]), (0x1b, [0xaa])] := by decide
    rw [h2] at h; injection h with h; exact h.symm
  subst this
  intro it hit
  simp only [List.mem_cons, List.not_mem_nil, or_false] at hit
  rcases hit with rfl | rfl | rfl | rfl <;> refine ⟨?_, ?_, ?_, ?_⟩ <;> simp [pinnedKnobs, Rfc.VarInt.parse]

/-- the pinned commit's knobs, frozen (does not follow the AFTER-FIX switch of `pinnedKnobs`) -/
def unfixedKnobs : Knobs := ⟨true, true, 4, 0⟩

-- (F1 is repaired in /repo: `pinnedFields` now differs from `fieldsWith unfixedKnobs` in the max_ack_delay row)

/-- F1 (finding): `0b 04 80 00 40 00` = max_ack_delay 16384 is accepted by the code's table, the RFC says
    "Values of 2^14 or greater are invalid". Negation of the full-strength iff on a concrete witness. -/
theorem tp_accept_counterexample :
    accepts (fieldsWith unfixedKnobs) .server [0x0b, 0x04, 0x80, 0x00, 0x40, 0x00] = true ∧
      Rfc.TransportParams.accepts .server [0x0b, 0x04, 0x80, 0x00, 0x40, 0x00] = false := by decide

/-- … and the one-token repair (`<`) removes it, leaving everything else as it is -/
theorem tp_accept_counterexample_fixed :
    accepts (fieldsWith ⟨false, true, 4, 0⟩) .server [0x0b, 0x04, 0x80, 0x00, 0x40, 0x00] = false ∧
      accepts (fieldsWith ⟨false, true, 4, 0⟩) .server [0x0b, 0x02, 0x7f, 0xff] = true := by decide

/-- D2 (finding): ack_delay_exponent = 3 in a two-byte varint (`0a 02 40 03`) is valid per §16/§18.2, rejected by the code -/
theorem tp_ade_nonminimal_counterexample :
    accepts pinnedFields .client [0x0a, 0x02, 0x40, 0x03] = false ∧
      Rfc.TransportParams.accepts .client [0x0a, 0x02, 0x40, 0x03] = true := by decide

/-- D3 (finding): a two-byte retry_source_connection_id is a legal connection ID, rejected by the code -/
theorem tp_rscid_short_counterexample :
    accepts pinnedFields .server [0x10, 0x02, 0xaa, 0xbb] = false ∧
      Rfc.TransportParams.accepts .server [0x10, 0x02, 0xaa, 0xbb] = true := by decide

/-- D4 (finding): preferred_address (192.0.2.1:443, no IPv6) with Connection ID Length 0 is accepted by the code,
    §18.2 requires TRANSPORT_PARAMETER_ERROR -/
theorem tp_pa_zero_cid_counterexample :
    accepts pinnedFields .server
        ([0x0d, 0x29, 192, 0, 2, 1, 1, 187] ++ List.replicate 18 0 ++ [0] ++ List.replicate 16 7) = true ∧
      Rfc.TransportParams.accepts .server
        ([0x0d, 0x29, 192, 0, 2, 1, 1, 187] ++ List.replicate 18 0 ++ [0] ++ List.replicate 16 7) = false := by decide

/-! ### unknown, duplicate, server-only parameters (any field table) -/

/-- §7.4.2: an unknown parameter (any id not in the table — GREASE included — any value) in front of a block
    changes neither the outcome nor any decoded value -/
theorem tp_unknown_ignored (fs : List Field) (role : Role) (id : Nat) (val blk : List Nat)
    (hid : id ≤ VarInt.maxValue) (hl : val.length ≤ VarInt.maxValue) (hunk : findField fs id = none) :
    decodeParameters fs role (tlv id val ++ blk) = decodeParameters fs role blk := by
  unfold decodeParameters
  exact loop_skip_unknown fs role id val blk _ _ _ hid hl hunk (Nat.le_refl _) (Nat.le_refl _)

/-- … and anywhere inside a block: dropping an unknown item from the parsed sequence changes nothing -/
theorem tp_unknown_ignored_anywhere (fs : List Field) (role : Role) (id : Nat) (val : List Nat)
    (pre post : List (Nat × List Nat)) (blk : List Nat) (hb : BytesOk blk)
    (hp : parseItems blk.length blk = some (pre ++ (id, val) :: post)) (hunk : findField fs id = none) :
    decodeParameters fs role blk = itemsRun fs role ⟨[], []⟩ (pre ++ post) := by
  rw [decode_of_parse fs role blk _ hb hp, itemsRun_unknown fs role id val hunk]

/-- GREASE id 31·N+27 is unknown to the pinned table -/
example : findField pinnedFields (31 * 1000 + 27) = none := by decide
example : decodeParameters pinnedFields .client (tlv 27 [1, 2, 3] ++ [0x04, 0x01, 0x07])
    = decodeParameters pinnedFields .client [0x04, 0x01, 0x07] :=
  tp_unknown_ignored _ _ 27 [1, 2, 3] _ (by decide) (by decide) (by decide)

/-- §7.4: a block in which a parameter of the table occurs twice is rejected (whatever the values) -/
theorem tp_duplicate_rejected (fs : List Field) (role : Role) (blk : List Nat) (hb : BytesOk blk) (id : Nat)
    (a b c : List (Nat × List Nat)) (v1 v2 : List Nat)
    (hp : parseItems blk.length blk = some (a ++ (id, v1) :: (b ++ (id, v2) :: c)))
    (hk : (findField fs id).isSome = true) :
    accepts fs role blk = false := by
  rw [accepts_eq_items fs role blk hb, hp]
  exact itemsOk_duplicate fs role id hk a b c v1 v2 []

example : accepts pinnedFields .client [0x04, 0x01, 0x07, 0x1b, 0x00, 0x04, 0x01, 0x08] = false := by decide

/-- §18.2: a client block that contains original_destination_connection_id, stateless_reset_token,
    preferred_address or retry_source_connection_id (any value, anywhere) is rejected -/
theorem tp_server_only_from_client_rejected (fs : List Field) (blk : List Nat) (hb : BytesOk blk)
    (its : List (Nat × List Nat)) (id : Nat) (val : List Nat) (f : Field)
    (hp : parseItems blk.length blk = some its) (hmem : (id, val) ∈ its)
    (hf : findField fs id = some f) (hso : f.serverOnly = true) :
    accepts fs .client blk = false := by
  rw [accepts_eq_items fs .client blk hb, hp]
  exact itemsOk_server_only fs id f hf hso its val [] hmem

/-- the server-only parameters of the pinned table are exactly the four of §18.2 -/
theorem tp_server_only_ids :
    (pinnedFields.filter (fun f => f.serverOnly)).map (fun f => f.id) = [0x00, 0x02, 0x0d, 0x10] := by decide

example : accepts pinnedFields .client [0x02, 0x10, 0, 1, 2, 3, 4, 5, 6, 7, 8, 9, 10, 11, 12, 13, 14, 15] = false ∧
    accepts pinnedFields .server [0x02, 0x10, 0, 1, 2, 3, 4, 5, 6, 7, 8, 9, 10, 11, 12, 13, 14, 15] = true := by decide

/-! ### values, defaults, limits -/

/-- a parameter that does not occur in an accepted block has its `default_value()` -/
theorem tp_defaults (fs : List Field) (role : Role) (blk : List Nat) (hb : BytesOk blk) (ps : Params)
    (its : List (Nat × List Nat)) (f : Field)
    (hp : parseItems blk.length blk = some its) (hd : decodeParameters fs role blk = .ok ps)
    (habs : ∀ it ∈ its, it.1 ≠ f.id) :
    TransportParams.get ps f = f.default := by
  rw [decode_of_parse fs role blk its hb hp] at hd
  have := itemsRun_absent fs role f.id its ⟨[], []⟩ ps habs hd
  unfold TransportParams.get
  rw [this]
  rfl

/-- … and the defaults of the pinned table are the RFC 9000 §18.2 / RFC 9221 defaults -/
theorem tp_defaults_rfc :
    pinnedFields.all (fun f =>
      match f.default with
      | some (.int n) => Rfc.TransportParams.defaultOf f.id == some n
      | some (.versions l) => l.isEmpty
      | some _ => false
      | none => Rfc.TransportParams.defaultOf f.id == none) = true := by decide

/-- a parameter that occurs in an accepted block is stored with exactly the value its bytes decode to, and that
    value passed the validator -/
theorem tp_values_exact (fs : List Field) (role : Role) (blk : List Nat) (hb : BytesOk blk) (ps : Params)
    (its : List (Nat × List Nat)) (id : Nat) (val : List Nat) (f : Field)
    (hp : parseItems blk.length blk = some its) (hd : decodeParameters fs role blk = .ok ps)
    (hmem : (id, val) ∈ its) (hf : findField fs id = some f) :
    ∃ v, decodeValue f.codec val = .ok v ∧ validate f v = true ∧ TransportParams.get ps f = some v := by
  rw [decode_of_parse fs role blk its hb hp] at hd
  obtain ⟨v, h1, h2, h3⟩ := itemsRun_present fs role id f hf its ⟨[], []⟩ ps val rfl hmem rfl hd
  refine ⟨v, h1, h2, ?_⟩
  unfold TransportParams.get
  rw [(findField_some hf).2, h3]

/-- the operating limits are read off the decoded struct field by field: every limit is the declared value of
    the corresponding parameter (`tp_values_exact`) or its RFC default (`tp_defaults`, `tp_defaults_rfc`);
    the only combinations are min(max_datagram_frame_size, max_udp_payload_size) and the idle-timeout rule -/
theorem tp_limits_exact (fs : List Field) (ps : Params) (localIdle : Nat) :
    limitsOf fs ps localIdle =
      { maxData := getInt fs ps 0x04, maxStreamsBidi := getInt fs ps 0x08, maxStreamsUni := getInt fs ps 0x09,
        streamDataBidiLocal := getInt fs ps 0x05, streamDataBidiRemote := getInt fs ps 0x06,
        streamDataUni := getInt fs ps 0x07, maxAckDelayUs := getInt fs ps 0x0b * 1000,
        ackDelayExponent := getInt fs ps 0x0a,
        maxDatagramPayload := min (getInt fs ps 0x20) (getInt fs ps 0x03),
        activeConnectionIdLimit := getInt fs ps 0x0e,
        idleMs := loadPeerIdle localIdle (getInt fs ps 0x01) } := rfl

/-- RFC 9000 §10.1: the effective idle timeout is the minimum of the two advertised values, 0/absent = none -/
theorem tp_idle_min (l p : Nat) :
    loadPeerIdle l p = if l = 0 ∧ p = 0 then none else if l = 0 then some p else if p = 0 then some l else some (min l p) := by
  unfold loadPeerIdle
  by_cases hl : l = 0 <;> by_cases hp : p = 0 <;> simp [hl, hp]
  split <;> (congr 1; omega)

/-- the empty block: every limit is the RFC default -/
example : limitsOf pinnedFields [] 30000 =
    { maxData := 0, maxStreamsBidi := 0, maxStreamsUni := 0, streamDataBidiLocal := 0, streamDataBidiRemote := 0,
      streamDataUni := 0, maxAckDelayUs := 25000, ackDelayExponent := 3, maxDatagramPayload := 0,
      activeConnectionIdLimit := 2, idleMs := some 30000 } := by decide

/-- round trip (C05) restated: decode ∘ encode is the identity on well-formed parameter structs -/
theorem tp_roundtrip (k : Knobs) (role : Role) (ps : Params) (hwf : ParamsWF (fieldsWith k) role ps) :
    ∃ qs, decodeParameters (fieldsWith k) role (encode (fieldsWith k) ps) = .ok qs ∧
      ∀ f ∈ fieldsWith k, TransportParams.get qs f = TransportParams.get ps f :=
  Quic.Proofs.C05.tp_roundtrip_struct k role ps hwf

/-! ### connection-ID authentication (RFC 9000 §7.3; session_context.rs) -/

open Quic.Conn.TpAuth in
/-- the handshake fails (always with TRANSPORT_PARAMETER_ERROR, see Conn/TpAuth.lean) exactly in the §7.3 cases:
    missing/mismatching initial_source_connection_id; for a server's block also missing/mismatching
    original_destination_connection_id, retry_source_connection_id absent after a Retry, present without one,
    or different from the Retry's Source Connection ID -/
theorem tp_cid_auth (role : Role) (h : Handshake) (p : PeerCids) :
    Conn.TpAuth.isOk (authenticate role h p) = Rfc.TpAuth.authentic role h p := by
  obtain ⟨peerScid, retryScid, originalDcid⟩ := h
  obtain ⟨iscid, odcid, rscid⟩ := p
  cases role
  · -- client's block, validated by the server
    simp only [authenticate, onClientParams, validateIscid, Rfc.TpAuth.authentic]
    cases iscid with
    | none => simp [Conn.TpAuth.isOk]
    | some v => by_cases hv : v = peerScid <;> simp [hv, Conn.TpAuth.isOk]
  · -- server's block, validated by the client
    simp only [authenticate, onServerParams, validateIscid, Rfc.TpAuth.authentic]
    cases iscid with
    | none => simp [Conn.TpAuth.isOk]
    | some v =>
      by_cases hv : v = peerScid
      · subst hv
        cases retryScid with
        | none =>
          cases rscid with
          | none =>
            cases odcid with
            | none => simp [Conn.TpAuth.isOk]
            | some o => by_cases ho : o = originalDcid <;> simp [ho, Conn.TpAuth.isOk]
          | some t => simp [Conn.TpAuth.isOk]
        | some r =>
          cases rscid with
          | none => simp [Conn.TpAuth.isOk]
          | some t =>
            by_cases hr : r = t
            · subst hr
              cases odcid with
              | none => simp [Conn.TpAuth.isOk]
              | some o => by_cases ho : o = originalDcid <;> simp [ho, Conn.TpAuth.isOk]
            · have hr' : ¬ t = r := fun h => hr h.symm
              simp [hr, hr', Conn.TpAuth.isOk]
      · simp [hv, Conn.TpAuth.isOk]

/-- Figure 8: S3 = [3,3], S2 = [2,2], S1 = eight 1s -/
def sampleRetryHandshake : Conn.TpAuth.Handshake := ⟨[3, 3], some [2, 2], [1, 1, 1, 1, 1, 1, 1, 1]⟩

open Quic.Conn.TpAuth in
/-- the decision matrix on concrete handshakes: a Retry handshake (Figure 8) with the three right values is
    accepted; dropping, adding or altering any one of them is not -/
example :
    authenticate .server sampleRetryHandshake ⟨some [3, 3], some [1, 1, 1, 1, 1, 1, 1, 1], some [2, 2]⟩ = .ok () ∧
    authenticate .server sampleRetryHandshake ⟨some [3, 3], some [1, 1, 1, 1, 1, 1, 1, 1], none⟩ = .error .rscidAbsentAfterRetry ∧
    authenticate .server sampleRetryHandshake ⟨some [3, 3], some [1, 1, 1, 1, 1, 1, 1, 1], some [2]⟩ = .error .rscidMismatch ∧
    authenticate .server sampleRetryHandshake ⟨some [3, 3], none, some [2, 2]⟩ = .error .odcidMissing ∧
    authenticate .server sampleRetryHandshake ⟨none, some [1, 1, 1, 1, 1, 1, 1, 1], some [2, 2]⟩ = .error .iscidMissing ∧
    authenticate .server ⟨[3, 3], none, [1, 1, 1, 1, 1, 1, 1, 1]⟩ ⟨some [3, 3], some [1, 1, 1, 1, 1, 1, 1, 1], some [2, 2]⟩
      = .error .rscidPresentWithoutRetry ∧
    authenticate .client sampleRetryHandshake ⟨some [3], none, none⟩ = .error .iscidMismatch :=
  ⟨rfl, rfl, rfl, rfl, rfl, rfl, rfl⟩

end Quic.Proofs.C14
