import QuicModel.Dc.Packets
import QuicModel.Dc.SecretMap
import QuicProofs.Lemmas.DcPackets
/-
  C18 — dc packets round-trip; only authenticated packets are acted upon.

  LEVEL: proof with the cryptographic primitives ASSUMED IDEAL. AES-GCM / HMAC / the token compare
  are not modelled: `Packets.CryptoCall` records which bytes reach which primitive and
  `Packets.idealOpen` / the `auth` oracle of `SecretMap` stand for "succeeds iff exactly this call was
  made by the sealing side". Everything else (layouts, dispatch, what the handlers do before and
  after `authenticate`) is proved for all field values, all byte strings and all map states.
-/
namespace Quic.Proofs.C18
open Quic Quic.Codec Quic.Dc Quic.Dc.Packets Quic.Dc.SecretMap Quic.Proofs.DcPackets

/-! ### every packet form decodes back to exactly what was encoded

  `…WF` (QuicProofs.Lemmas.DcPackets) are the ranges of the Rust types: 16-byte credential ids,
  `VarInt` fields ≤ 2^62-1, queue ids < 2^60, a u16 port, a u32 retransmission offset (zero on
  unreliable streams, original + offset still a `VarInt`), 16-byte auth tags, and the datagram
  encoder's API precondition (ack-eliciting ⇒ packet number present). The view returned by the
  decoder projects back (`toIn`) to every encoder argument incl. the sealed payload and tag, its
  `header` is exactly the byte range handed to the AEAD / MAC, and the rest of the buffer is untouched. -/

theorem dc_roundtrip_stream (i : StreamIn) (wf : StreamWF i) (rest : List Nat) :
    ∃ v, decodeStream (encodeStream i ++ rest) = .ok (v, rest) ∧ v.toIn = i ∧ v.header = encStreamHeader i :=
  roundtrip_stream i wf rest

theorem dc_roundtrip_datagram (i : DatagramIn) (wf : DatagramWF i) (rest : List Nat) :
    ∃ v, decodeDatagram (encodeDatagram i ++ rest) = .ok (v, rest) ∧ v.toIn = i ∧ v.header = encDatagramHeader i :=
  roundtrip_datagram i wf rest

theorem dc_roundtrip_control (i : ControlIn) (wf : ControlWF i) (rest : List Nat) :
    ∃ v, decodeControl (encodeControl i ++ rest) = .ok (v, rest) ∧ v.toIn = i ∧ v.header = encControlHeader i :=
  roundtrip_control i wf rest

theorem dc_roundtrip_unknown_path_secret (i : SecretIn) (wf : SecretWF i) (hk : i.kind = .unknownPathSecret)
    (rest : List Nat) :
    ∃ v, decodeSecret .unknownPathSecret (encodeSecret i ++ rest) = .ok (v, rest) ∧ v.toIn = i
      ∧ v.header = encSecretHeader i := hk ▸ roundtrip_secret i wf rest

theorem dc_roundtrip_stale_key (i : SecretIn) (wf : SecretWF i) (hk : i.kind = .staleKey) (rest : List Nat) :
    ∃ v, decodeSecret .staleKey (encodeSecret i ++ rest) = .ok (v, rest) ∧ v.toIn = i
      ∧ v.header = encSecretHeader i := hk ▸ roundtrip_secret i wf rest

theorem dc_roundtrip_replay_detected (i : SecretIn) (wf : SecretWF i) (hk : i.kind = .replayDetected) (rest : List Nat) :
    ∃ v, decodeSecret .replayDetected (encodeSecret i ++ rest) = .ok (v, rest) ∧ v.toIn = i
      ∧ v.header = encSecretHeader i := hk ▸ roundtrip_secret i wf rest

/-- the tag dispatcher (`packet::Packet::decode_parameterized_mut`) sends every encoded packet of
    every kind to its own decoder -/
theorem dc_roundtrip_dispatch :
    (∀ (i : StreamIn) (_ : StreamWF i) (rest : List Nat),
      ∃ v, decodeAny (encodeStream i ++ rest) = .ok (.stream v, rest) ∧ v.toIn = i) ∧
    (∀ (i : DatagramIn) (_ : DatagramWF i) (rest : List Nat),
      ∃ v, decodeAny (encodeDatagram i ++ rest) = .ok (.datagram v, rest) ∧ v.toIn = i) ∧
    (∀ (i : ControlIn) (_ : ControlWF i) (rest : List Nat),
      ∃ v, decodeAny (encodeControl i ++ rest) = .ok (.control v, rest) ∧ v.toIn = i) ∧
    (∀ (i : SecretIn) (_ : SecretWF i) (rest : List Nat),
      ∃ v, decodeAny (encodeSecret i ++ rest) = .ok (.secret v, rest) ∧ v.toIn = i) :=
  ⟨roundtrip_any_stream, roundtrip_any_datagram, roundtrip_any_control, roundtrip_any_secret⟩

/-- non-vacuity: a reliable bidirectional stream packet with every optional field, boundary varints
    (63/64, 16383/16384, 2^30, 2^62-1), a retransmission offset; it is well-formed and round-trips -/
example :
    let i : StreamIn := ⟨false, true, ⟨List.replicate 16 0xab, 4611686018427387903⟩, some 64, ⟨1073741824, true, true⟩,
      16383, 7, 16384, 63, some 1073741823, [1, 2, 3], [4, 5], [6, 7, 8, 9], List.replicate 16 0xcd⟩
    StreamWF i ∧ (decodeStream (encodeStream i ++ [0xee])).toOption.map (fun x => (x.1.toIn, x.2)) = some (i, [0xee]) := by
  refine ⟨⟨by decide, by decide, ?_, by decide, by decide, by decide, by decide, by decide, by decide, by decide, ?_,
    by decide, by decide, by decide, by decide⟩, by decide⟩
  · intro x h; cases h; decide
  · intro x h; cases h; decide

example :
    let i : DatagramIn := ⟨false, ⟨List.replicate 16 1, 16384⟩, 65535, some 64, some 4611686018427387903, [1], [2, 3],
      [4, 5, 6], List.replicate 16 9⟩
    DatagramWF i ∧ (decodeDatagram (encodeDatagram i ++ [7])).toOption.map (fun x => (x.1.toIn, x.2)) = some (i, [7]) := by
  refine ⟨⟨by decide, by decide, by decide, ?_, ?_, by decide, by decide, by decide, by decide, by decide, by decide⟩,
    by decide⟩
  · intro x h; cases h; decide
  · intro x h; cases h; decide

example :
    let i : SecretIn := ⟨.staleKey, List.replicate 16 3, 0, some 16384, 1073741824, List.replicate 16 8⟩
    SecretWF i ∧ (decodeSecretControl (encodeSecret i)).toOption.map (fun x => (x.1.toIn, x.2)) = some (i, []) := by
  refine ⟨⟨by decide, by decide, ?_, by decide, by decide, by decide⟩, by decide⟩
  intro x h; cases h; decide

/-! ### the independent field tables (Wireshark dissector) describe the same bytes -/

theorem encode_eq_spec_stream (i : StreamIn) : Spec.emit (Spec.stream i) = encodeStream i :=
  Quic.Proofs.DcPackets.encode_eq_spec_stream i
theorem encode_eq_spec_datagram (i : DatagramIn) : Spec.emit (Spec.datagram i) = encodeDatagram i :=
  Quic.Proofs.DcPackets.encode_eq_spec_datagram i
theorem encode_eq_spec_control (i : ControlIn) : Spec.emit (Spec.control i) = encodeControl i :=
  Quic.Proofs.DcPackets.encode_eq_spec_control i
theorem encode_eq_spec_secret (i : SecretIn) : Spec.emit (Spec.secret i) = encodeSecret i :=
  Quic.Proofs.DcPackets.encode_eq_spec_secret i

/-! ### arbitrary bytes: the decoders are total and consume exactly header ++ payload ++ tag -/

/-- every byte string gets an answer from the tag dispatcher: a packet or one of the two error kinds
    (the model functions are total by construction; panic-freedom of the Rust decoders is what the
    differential fuzzing checks) -/
theorem dc_decode_total (b : List Nat) :
    (∃ v r, decodeAny b = .ok (v, r)) ∨ decodeAny b = .error .eof ∨ decodeAny b = .error .invariant :=
  decode_total b

/-- what a successful decode consumed is exactly the packet's header, payload and auth tag; the
    remainder of the buffer is returned untouched -/
theorem dc_decode_consumes (b r : List Nat) (v : AnyView) (h : decodeAny b = .ok (v, r)) :
    b = AnyView.wire v ++ r := decodeAny_consumes b r v h

/-! ### every wire byte is covered by the AAD, the ciphertext or the tag

  `…CallOfWire b` = the call the receiver makes into the AEAD / MAC for a datagram `b` that is exactly
  one packet. The call's inputs concatenate to `b`: two different wire images never lead to the same
  call, so under the ideal-primitive assumption every mutation of a sealed packet is rejected.
  FULL STATEMENT (property text): this holds for every packet kind. It is FALSE for two forms:
  UnknownPathSecret (only credential id + token are compared) and retransmitted stream packets (the
  recovery bit is cleared before the check) — counterexamples below, confirmed on the real code. -/

theorem dc_every_byte_authenticated_datagram (b b' : List Nat) (c : CryptoCall)
    (h : datagramCallOfWire b = some c) (h' : datagramCallOfWire b' = some c) : b = b' := by
  rw [← datagram_call_covers b c h, ← datagram_call_covers b' c h']

theorem dc_every_byte_authenticated_control (b b' : List Nat) (c : CryptoCall)
    (h : controlCallOfWire b = some c) (h' : controlCallOfWire b' = some c) : b = b' := by
  rw [← control_call_covers b c h, ← control_call_covers b' c h']

theorem dc_every_byte_authenticated_stale_key (b b' : List Nat) (c : CryptoCall)
    (h : secretCallOfWire .staleKey b = some c) (h' : secretCallOfWire .staleKey b' = some c) : b = b' := by
  rw [← secret_call_covers .staleKey (by decide) b c h, ← secret_call_covers .staleKey (by decide) b' c h']

theorem dc_every_byte_authenticated_replay_detected (b b' : List Nat) (c : CryptoCall)
    (h : secretCallOfWire .replayDetected b = some c) (h' : secretCallOfWire .replayDetected b' = some c) : b = b' := by
  rw [← secret_call_covers .replayDetected (by decide) b c h, ← secret_call_covers .replayDetected (by decide) b' c h']

/-- stream packets that are not retransmissions (offset field zero): application packets and probes -/
theorem dc_every_byte_authenticated_stream_partial (b b' : List Nat) (c : CryptoCall)
    (h : streamCallOfWire false b = some c) (h' : streamCallOfWire false b' = some c) : b = b' := by
  rw [← stream_call_covers b c h, ← stream_call_covers b' c h']

/-- the headline form: a sealed packet `b` and any other datagram `b'` — the receiver's call for `b'`
    is not the sealer's call, so the ideal primitive refuses it (datagram shown; the other covered
    kinds follow from their injectivity theorems in the same way) -/
theorem dc_every_byte_authenticated (b b' : List Nat) (c c' : CryptoCall)
    (hb : datagramCallOfWire b = some c) (hb' : datagramCallOfWire b' = some c') (hne : b' ≠ b) :
    idealOpen [c] (.ok c') = .error .invalidTag := by
  have : c' ≠ c := fun e => hne (dc_every_byte_authenticated_datagram b' b c (e ▸ hb') hb)
  simp [idealOpen, this]

/-! ### genuine packets are accepted — and nothing else is

  `…SealCall i` is what the sealing side fed to the primitive when it produced `encode i`. The
  receiver's call for `encode i` is exactly that call (so the ideal primitive accepts), for every
  kind including probes and retransmissions in either packet space. -/

theorem dc_genuine_accepted_datagram (i : DatagramIn) (wf : DatagramWF i) (hkp : i.keyPhase = false) :
    datagramCallOfWire (encodeDatagram i) = some (datagramSealCall i) := genuine_accepted_datagram i wf hkp

theorem dc_genuine_accepted_control (i : ControlIn) (wf : ControlWF i) :
    controlCallOfWire (encodeControl i) = some (controlSealCall i) := genuine_accepted_control i wf

theorem dc_genuine_accepted_secret (i : SecretIn) (wf : SecretWF i) :
    secretCallOfWire i.kind (encodeSecret i) = some (secretSealCall i) := genuine_accepted_secret i wf

/-- application packets and probes (not retransmitted; awslc keys are always key phase zero) -/
theorem dc_genuine_accepted_stream (i : StreamIn) (wf : StreamWF i) (hkp : i.keyPhase = false) (hrel : i.relOffset = 0)
    (hprobe : i.recovery = true → i.payload = []) :
    streamCallOfWire false (encodeStream i) = some (streamSealCall i none) :=
  genuine_accepted_stream i wf hkp hrel hprobe

/-- retransmissions: offset k > 0, either packet space; `remove_retransmit` undoes exactly what
    `retransmit` did (mask, recovery bit, offset field) -/
theorem dc_genuine_accepted_stream_retx (i : StreamIn) (wf : StreamWF i) (hkp : i.keyPhase = false)
    (hrel : i.streamId.reliable = true) (hk : i.relOffset > 0) :
    streamCallOfWire true (encodeStream i) = some (streamSealCall i (some (i.pn, i.pn + i.relOffset))) :=
  genuine_accepted_stream_retx i wf hkp hrel hk

/-- ACTED UPON IFF AUTHENTIC (datagrams): with the sealer having produced exactly `encodeDatagram i`,
    a datagram `b` passes the ideal AEAD iff it is byte-for-byte that packet. -/
theorem dc_acted_upon_iff_authentic_datagram (i : DatagramIn) (wf : DatagramWF i) (hkp : i.keyPhase = false)
    (b : List Nat) (c : CryptoCall) (hb : datagramCallOfWire b = some c) :
    idealOpen [datagramSealCall i] (.ok c) = .ok () ↔ b = encodeDatagram i := by
  have hg := genuine_accepted_datagram i wf hkp
  constructor
  · intro h
    have hc : c = datagramSealCall i := by
      by_cases e : c = datagramSealCall i
      · exact e
      · simp [idealOpen, e] at h
    exact dc_every_byte_authenticated_datagram b _ _ (hc ▸ hb) hg
  · intro h
    subst h
    rw [hg] at hb
    cases hb
    simp [idealOpen]

/-- ACTED UPON IFF AUTHENTIC (StaleKey): the packet that can advance a sender's key id -/
theorem dc_acted_upon_iff_authentic_stale_key (i : SecretIn) (wf : SecretWF i) (hk : i.kind = .staleKey)
    (b : List Nat) (c : CryptoCall) (hb : secretCallOfWire .staleKey b = some c) :
    idealOpen [secretSealCall i] (.ok c) = .ok () ↔ b = encodeSecret i := by
  have hg := genuine_accepted_secret i wf
  rw [hk] at hg
  constructor
  · intro h
    have hc : c = secretSealCall i := by
      by_cases e : c = secretSealCall i
      · exact e
      · simp [idealOpen, e] at h
    exact dc_every_byte_authenticated_stale_key b _ _ (hc ▸ hb) hg
  · intro h
    subst h
    rw [hg] at hb
    cases hb
    simp [idealOpen]

/-- ACTED UPON IFF AUTHENTIC (control packets) -/
theorem dc_acted_upon_iff_authentic_control (i : ControlIn) (wf : ControlWF i)
    (b : List Nat) (c : CryptoCall) (hb : controlCallOfWire b = some c) :
    idealOpen [controlSealCall i] (.ok c) = .ok () ↔ b = encodeControl i := by
  have hg := genuine_accepted_control i wf
  constructor
  · intro h
    have hc : c = controlSealCall i := by
      by_cases e : c = controlSealCall i
      · exact e
      · simp [idealOpen, e] at h
    exact dc_every_byte_authenticated_control b _ _ (hc ▸ hb) hg
  · intro h
    subst h
    rw [hg] at hb
    cases hb
    simp [idealOpen]

/-- ACTED UPON IFF AUTHENTIC (stream application packets and probes) -/
theorem dc_acted_upon_iff_authentic_stream_partial (i : StreamIn) (wf : StreamWF i) (hkp : i.keyPhase = false)
    (hrel : i.relOffset = 0) (hprobe : i.recovery = true → i.payload = [])
    (b : List Nat) (c : CryptoCall) (hb : streamCallOfWire false b = some c) :
    idealOpen [streamSealCall i none] (.ok c) = .ok () ↔ b = encodeStream i := by
  have hg := genuine_accepted_stream i wf hkp hrel hprobe
  constructor
  · intro h
    have hc : c = streamSealCall i none := by
      by_cases e : c = streamSealCall i none
      · exact e
      · simp [idealOpen, e] at h
    exact dc_every_byte_authenticated_stream_partial b _ _ (hc ▸ hb) hg
  · intro h
    subst h
    rw [hg] at hb
    cases hb
    simp [idealOpen]

/-- COUNTEREXAMPLE (UnknownPathSecret): two packets that differ in the queue id lead to the same
    token comparison — the queue id is not authenticated. Replayed on the real code:
    `mutscan x1 ups 128 <cid> 0 5` reports the queue-id byte as accepted. -/
theorem dc_every_byte_authenticated_unknown_path_secret_counterexample :
    let b := [100] ++ List.replicate 16 7 ++ [0] ++ [5] ++ List.replicate 16 9
    let b' := [100] ++ List.replicate 16 7 ++ [0] ++ [6] ++ List.replicate 16 9
    b ≠ b' ∧ (secretCallOfWire .unknownPathSecret b).isSome = true
      ∧ secretCallOfWire .unknownPathSecret b = secretCallOfWire .unknownPathSecret b' := by
  decide

/-- COUNTEREXAMPLE (retransmitted stream packet): the same packet with and without the
    IS_RECOVERY_PACKET bit leads to the same AEAD call (`remove_retransmit` clears the bit first).
    Replayed on the real code: `mut x0:16 stream 128 retx-r …` is accepted. -/
theorem dc_every_byte_authenticated_stream_retx_counterexample :
    let i : StreamIn := ⟨false, true, ⟨List.replicate 16 1, 2⟩, none, ⟨3, true, true⟩, 5, 4, 2, 7, none, [], [],
      [0xaa, 0xbb], List.replicate 16 9⟩
    let b := encodeStream i
    let b' := encodeStream { i with recovery := false }
    b ≠ b' ∧ (streamCallOfWire true b).isSome = true ∧ streamCallOfWire true b = streamCallOfWire true b' := by
  decide

/-! ### the path-secret map: only authenticated secret-control packets have an effect -/

/-- A secret-control packet that does not authenticate under the entry it names (or names no
    entry) leaves the whole map state — ids, peers, every sender key id and receiver window, the
    requested handshakes — exactly as it was, for every map state, every packet and every
    authentication oracle. -/
theorem forged_control_no_state_change (auth : Entry → SecretView → Bool) (s : State) (v : SecretView)
    (h : ∀ e, lookup s v.credId = some e → auth e v = false) :
    (handleControlPacket auth s v).1 = s := by
  unfold handleControlPacket handleUnknownPathSecret handleStaleKey handleReplayDetected
  cases hk : v.kind <;> (cases hl : lookup s v.credId with | none => simp | some e => simp [h e hl])

/-- … and no `accepted` event is published for it. -/
theorem forged_control_not_accepted (auth : Entry → SecretView → Bool) (s : State) (v : SecretView)
    (h : ∀ e, lookup s v.credId = some e → auth e v = false) :
    ∀ ev ∈ (handleControlPacket auth s v).2, ∀ k id b x, ev ≠ Event.accepted k id b x := by
  unfold handleControlPacket handleUnknownPathSecret handleStaleKey handleReplayDetected
  cases hk : v.kind <;> (cases hl : lookup s v.credId with | none => simp | some e => simp [h e hl])

/-- any sequence of datagrams none of which authenticates leaves the map untouched (both production
    entry points) -/
theorem forged_datagrams_no_state_change (auth : Entry → SecretView → Bool) (s : State) (bytes : List Nat)
    (h : ∀ v e, lookup s v.credId = some e → auth e v = false) :
    (∀ r, onPossibleSecretControlPacket auth s bytes = some r → r.1 = s) ∧
    (∀ r, handleUnexpectedPacket auth s bytes = some r → r.1 = s) := by
  constructor
  · intro r hr
    unfold onPossibleSecretControlPacket at hr
    split at hr
    · simp at hr
    · split at hr
      · simp only [Option.some.injEq] at hr
        rw [← hr]; exact forged_control_no_state_change auth s _ (h _)
      · simp at hr
  · intro r hr
    unfold handleUnexpectedPacket at hr
    split at hr
    · simp at hr
    · simp only [Option.some.injEq] at hr
      rw [← hr]; exact forged_control_no_state_change auth s _ (h _)
    · simp only [Option.some.injEq] at hr
      rw [← hr]

/-- non-vacuity: a live entry, a StaleKey packet naming it; an oracle that accepts it moves the key id -/
example :
    let e : Entry := ⟨List.replicate 16 1, 0, 5, Dc.ReplayWindow.init, true, true⟩
    let s : State := ⟨[e], [(0, e.id)], [], true, false⟩
    let v : SecretView := ⟨.staleKey, 97, e.id, 0, none, 900, [], []⟩
    (lookup s v.credId).map (·.currentId) = some 5
      ∧ (handleControlPacket (fun _ _ => true) s v).1.entries.map (·.currentId) = [900] := by
  decide

/-- StaleKey only ever advances a sender's key id, and never beyond `max current min_key_id`
    (`fetch_max`); nothing else in the map moves. -/
theorem stale_key_only_advances (auth : Entry → SecretView → Bool) (s : State) (v : SecretView) :
    (handleStaleKey auth s v).1.peers = s.peers ∧ (handleStaleKey auth s v).1.handshakes = s.handshakes ∧
    (handleStaleKey auth s v).1.entries.length = s.entries.length ∧
    ∀ (k : Nat) (e : Entry), s.entries[k]? = some e → ∃ e' : Entry, (handleStaleKey auth s v).1.entries[k]? = some e' ∧
      e' = { e with currentId := e'.currentId } ∧ e.currentId ≤ e'.currentId ∧
      e'.currentId ≤ max e.currentId v.value := by
  unfold handleStaleKey
  cases hl : lookup s v.credId with
  | none => exact ⟨rfl, rfl, rfl, fun k e hk => ⟨e, hk, rfl, Nat.le_refl _, Nat.le_max_left _ _⟩⟩
  | some e0 =>
    by_cases ha : auth e0 v
    · simp only [ha, Bool.not_true, Bool.false_eq_true, if_false, updateForStaleKey, List.length_map, true_and]
      intro k e hk
      by_cases hc : (e.live && e.id == e0.id) = true
      · exact ⟨{ e with currentId := max e.currentId v.value },
          by rw [List.getElem?_map, hk, Option.map_some, if_pos hc], rfl, Nat.le_max_left _ _, Nat.le_refl _⟩
      · exact ⟨e, by rw [List.getElem?_map, hk, Option.map_some, if_neg hc], rfl, Nat.le_refl _, Nat.le_max_left _ _⟩
    · have hb : (!auth e0 v) = true := by simp [ha]
      simp only [hb, if_true, true_and]
      exact fun k e hk => ⟨e, hk, rfl, Nat.le_refl _, Nat.le_max_left _ _⟩

/-- the authenticated StaleKey really is a `fetch_max` on the named entry -/
theorem stale_key_fetch_max (auth : Entry → SecretView → Bool) (s : State) (v : SecretView) (e : Entry)
    (hl : lookup s v.credId = some e) (ha : auth e v = true) :
    (handleStaleKey auth s v).1 = updateForStaleKey s e.id v.value := by
  unfold handleStaleKey
  simp [hl, ha]

/-- An UnknownPathSecret packet changes the set of known secrets or peers only if it authenticated
    against the entry it names, eviction is configured and the entry passed the age guard. -/
theorem unknown_path_secret_evicts_only_authenticated (auth : Entry → SecretView → Bool) (s : State) (v : SecretView)
    (h : (handleUnknownPathSecret auth s v).1.entries ≠ s.entries ∨ (handleUnknownPathSecret auth s v).1.peers ≠ s.peers) :
    ∃ e, lookup s v.credId = some e ∧ auth e v = true ∧ s.evictOnUnknown = true ∧ (s.cfgTest = true ∨ e.aged = true) := by
  unfold handleUnknownPathSecret at h
  cases hl : lookup s v.credId with
  | none => simp [hl] at h
  | some e =>
    refine ⟨e, rfl, ?_⟩
    by_cases ha : auth e v
    · by_cases hev : (s.evictOnUnknown && (s.cfgTest || e.aged)) = true
      · simp only [Bool.and_eq_true, Bool.or_eq_true] at hev
        exact ⟨ha, hev.1, hev.2⟩
      · simp [hl, ha, hev, requestHandshake] at h
    · simp [hl, ha] at h

/-- an authenticated UnknownPathSecret always asks for a handshake with the entry's peer, and a
    ReplayDetected does nothing else -/
theorem replay_detected_only_requests_handshake (auth : Entry → SecretView → Bool) (s : State) (v : SecretView) :
    let s' := (handleReplayDetected auth s v).1
    s'.entries = s.entries ∧ s'.peers = s.peers ∧
    (s'.handshakes = s.handshakes ∨ ∃ e, lookup s v.credId = some e ∧ auth e v = true ∧ s'.handshakes = s.handshakes ++ [e.peer]) := by
  unfold handleReplayDetected
  cases hl : lookup s v.credId with
  | none => simp
  | some e =>
    by_cases ha : auth e v
    · simp [ha, requestHandshake]
    · simp [ha]

/-- END TO END (ideal MAC): the peer of one entry sealed exactly one StaleKey / ReplayDetected packet;
    every other datagram handed to `on_possible_secret_control_packet` leaves the map as it was. -/
theorem forged_wire_no_state_change (s : State) (i : SecretIn) (hk : i.kind ≠ .unknownPathSecret)
    (owner : List Nat) (b : List Nat) (hb : b ≠ encodeSecret i) :
    ∀ r, onPossibleSecretControlPacket (idealAuth [(owner, secretSealCall i)]) s b = some r → r.1 = s := by
  intro r hr
  unfold onPossibleSecretControlPacket at hr
  split at hr
  · simp at hr
  · rename_i v tail hd
    split at hr
    · rename_i htail
      simp only [Option.some.injEq] at hr
      rw [← hr]
      apply forged_control_no_state_change
      intro e _
      have htl : tail = [] := by simpa using htail
      subst htl
      obtain ⟨k, hk'⟩ := decodeSecretControl_inv b [] v hd
      obtain ⟨hcons, _, hkind⟩ := decodeSecret_consumes k b [] v hk'
      unfold idealAuth
      simp only [List.any_cons, List.any_nil, Bool.or_false, Bool.and_eq_false_imp, beq_iff_eq]
      intro _
      apply beq_eq_false_iff_ne.mpr
      intro hcall
      apply hb
      unfold secretSealCall secretOpenCall at hcall
      cases hik : i.kind with
      | unknownPathSecret => exact absurd hik hk
      | staleKey =>
        rw [hik] at hcall
        cases hvk : v.kind with
        | unknownPathSecret => rw [hvk] at hcall; simp at hcall
        | staleKey =>
          rw [hvk] at hcall
          simp only [CryptoCall.mk.injEq, true_and, and_true] at hcall
          rw [hcons, ← hcall.1, ← hcall.2]; simp [encodeSecret]
        | replayDetected =>
          rw [hvk] at hcall
          simp only [CryptoCall.mk.injEq, true_and, and_true] at hcall
          rw [hcons, ← hcall.1, ← hcall.2]; simp [encodeSecret]
      | replayDetected =>
        rw [hik] at hcall
        cases hvk : v.kind with
        | unknownPathSecret => rw [hvk] at hcall; simp at hcall
        | staleKey =>
          rw [hvk] at hcall
          simp only [CryptoCall.mk.injEq, true_and, and_true] at hcall
          rw [hcons, ← hcall.1, ← hcall.2]; simp [encodeSecret]
        | replayDetected =>
          rw [hvk] at hcall
          simp only [CryptoCall.mk.injEq, true_and, and_true] at hcall
          rw [hcons, ← hcall.1, ← hcall.2]; simp [encodeSecret]
    · simp at hr

/-- non-vacuity of the end-to-end statement, and the other direction on a concrete map: the one
    sealed StaleKey packet does advance the named sender (5 -> 900), one flipped bit anywhere in a
    copy of it (here: the value field) does not -/
example :
    let id := List.replicate 16 1
    let e : Entry := ⟨id, 0, 5, Dc.ReplayWindow.init, true, true⟩
    let s : State := ⟨[e], [(0, id)], [], true, false⟩
    let i : SecretIn := ⟨.staleKey, id, 0, none, 900, List.replicate 16 0xA5⟩
    let auth := idealAuth [(id, secretSealCall i)]
    (onPossibleSecretControlPacket auth s (encodeSecret i)).map (fun r => r.1.entries.map (·.currentId)) = some [900]
      ∧ (onPossibleSecretControlPacket auth s (mutate (encodeSecret i) (.xor 19 1))).map
          (fun r => r.1.entries.map (·.currentId)) = some [5] := by
  decide

end Quic.Proofs.C18
