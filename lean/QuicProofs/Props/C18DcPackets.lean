import QuicModel.Dc.Packets
import QuicModel.Dc.SecretMap
/-
  C18 — dc packets round-trip; only authenticated packets are acted upon.

  LEVEL: proof with the cryptographic primitives ASSUMED IDEAL. AES-GCM / HMAC / the token compare
  are not modelled: `Packets.CryptoCall` records which bytes reach which primitive and
  `Packets.idealOpen` / the `auth` oracle of `SecretMap` stand for "succeeds iff exactly this call was
  made by the sealing side". Everything else (layouts, dispatch, what the handlers do before and
  after `authenticate`) is proved for all field values, all byte strings and all map states.
-/
namespace Quic.Proofs.C18
open Quic Quic.Dc.Packets Quic.Dc.SecretMap

/-! ### the path-secret map: only authenticated secret-control packets have an effect -/

/-- A secret-control packet that does not authenticate under the entry it names (or names no
    entry) leaves the whole map state — ids, peers, every sender key id and receiver window, the
    requested handshakes — exactly as it was, for every map state, every packet and every
    authentication oracle. -/
theorem forged_control_no_state_change (auth : Entry → SecretView → Bool) (s : State) (v : SecretView)
    (h : ∀ e, lookup s v.credId = some e → auth e v = false) :
    (handleControlPacket auth s v).1 = s := by
  unfold handleControlPacket handleUnknownPathSecret handleStaleKey handleReplayDetected
  cases hk : v.kind <;> (cases hl : lookup s v.credId with | none => simp | some e => simp [h e hl])

/-- … and no `accepted` event is published for it. -/
theorem forged_control_not_accepted (auth : Entry → SecretView → Bool) (s : State) (v : SecretView)
    (h : ∀ e, lookup s v.credId = some e → auth e v = false) :
    ∀ ev ∈ (handleControlPacket auth s v).2, ∀ k id b x, ev ≠ Event.accepted k id b x := by
  unfold handleControlPacket handleUnknownPathSecret handleStaleKey handleReplayDetected
  cases hk : v.kind <;> (cases hl : lookup s v.credId with | none => simp | some e => simp [h e hl])

/-- any sequence of datagrams none of which authenticates leaves the map untouched (both production
    entry points) -/
theorem forged_datagrams_no_state_change (auth : Entry → SecretView → Bool) (s : State) (bytes : List Nat)
    (h : ∀ v e, lookup s v.credId = some e → auth e v = false) :
    (∀ r, onPossibleSecretControlPacket auth s bytes = some r → r.1 = s) ∧
    (∀ r, handleUnexpectedPacket auth s bytes = some r → r.1 = s) := by
  constructor
  · intro r hr
    unfold onPossibleSecretControlPacket at hr
    split at hr
    · simp at hr
    · split at hr
      · simp only [Option.some.injEq] at hr
        rw [← hr]; exact forged_control_no_state_change auth s _ (h _)
      · simp at hr
  · intro r hr
    unfold handleUnexpectedPacket at hr
    split at hr
    · simp at hr
    · simp only [Option.some.injEq] at hr
      rw [← hr]; exact forged_control_no_state_change auth s _ (h _)
    · simp only [Option.some.injEq] at hr
      rw [← hr]

/-- non-vacuity: a live entry, a StaleKey packet naming it; an oracle that accepts it moves the key id -/
example :
    let e : Entry := ⟨List.replicate 16 1, 0, 5, Dc.ReplayWindow.init, true, true⟩
    let s : State := ⟨[e], [(0, e.id)], [], true, false⟩
    let v : SecretView := ⟨.staleKey, 97, e.id, 0, none, 900, [], []⟩
    (lookup s v.credId).map (·.currentId) = some 5
      ∧ (handleControlPacket (fun _ _ => true) s v).1.entries.map (·.currentId) = [900] := by
  decide

/-- StaleKey only ever advances a sender's key id, and never beyond `max current min_key_id`
    (`fetch_max`); nothing else in the map moves. -/
theorem stale_key_only_advances (auth : Entry → SecretView → Bool) (s : State) (v : SecretView) :
    (handleStaleKey auth s v).1.peers = s.peers ∧ (handleStaleKey auth s v).1.handshakes = s.handshakes ∧
    (handleStaleKey auth s v).1.entries.length = s.entries.length ∧
    ∀ (k : Nat) (e : Entry), s.entries[k]? = some e → ∃ e' : Entry, (handleStaleKey auth s v).1.entries[k]? = some e' ∧
      e' = { e with currentId := e'.currentId } ∧ e.currentId ≤ e'.currentId ∧
      e'.currentId ≤ max e.currentId v.value := by
  unfold handleStaleKey
  cases hl : lookup s v.credId with
  | none => exact ⟨rfl, rfl, rfl, fun k e hk => ⟨e, hk, rfl, Nat.le_refl _, Nat.le_max_left _ _⟩⟩
  | some e0 =>
    by_cases ha : auth e0 v
    · simp only [ha, Bool.not_true, Bool.false_eq_true, if_false, updateForStaleKey, List.length_map, true_and]
      intro k e hk
      by_cases hc : (e.live && e.id == e0.id) = true
      · exact ⟨{ e with currentId := max e.currentId v.value },
          by rw [List.getElem?_map, hk, Option.map_some, if_pos hc], rfl, Nat.le_max_left _ _, Nat.le_refl _⟩
      · exact ⟨e, by rw [List.getElem?_map, hk, Option.map_some, if_neg hc], rfl, Nat.le_refl _, Nat.le_max_left _ _⟩
    · have hb : (!auth e0 v) = true := by simp [ha]
      simp only [hb, if_true, true_and]
      exact fun k e hk => ⟨e, hk, rfl, Nat.le_refl _, Nat.le_max_left _ _⟩

/-- the authenticated StaleKey really is a `fetch_max` on the named entry -/
theorem stale_key_fetch_max (auth : Entry → SecretView → Bool) (s : State) (v : SecretView) (e : Entry)
    (hl : lookup s v.credId = some e) (ha : auth e v = true) :
    (handleStaleKey auth s v).1 = updateForStaleKey s e.id v.value := by
  unfold handleStaleKey
  simp [hl, ha]

/-- An UnknownPathSecret packet changes the set of known secrets or peers only if it authenticated
    against the entry it names, eviction is configured and the entry passed the age guard. -/
theorem unknown_path_secret_evicts_only_authenticated (auth : Entry → SecretView → Bool) (s : State) (v : SecretView)
    (h : (handleUnknownPathSecret auth s v).1.entries ≠ s.entries ∨ (handleUnknownPathSecret auth s v).1.peers ≠ s.peers) :
    ∃ e, lookup s v.credId = some e ∧ auth e v = true ∧ s.evictOnUnknown = true ∧ (s.cfgTest = true ∨ e.aged = true) := by
  unfold handleUnknownPathSecret at h
  cases hl : lookup s v.credId with
  | none => simp [hl] at h
  | some e =>
    refine ⟨e, rfl, ?_⟩
    by_cases ha : auth e v
    · by_cases hev : (s.evictOnUnknown && (s.cfgTest || e.aged)) = true
      · simp only [Bool.and_eq_true, Bool.or_eq_true] at hev
        exact ⟨ha, hev.1, hev.2⟩
      · simp [hl, ha, hev, requestHandshake] at h
    · simp [hl, ha] at h

/-- an authenticated UnknownPathSecret always asks for a handshake with the entry's peer, and a
    ReplayDetected does nothing else -/
theorem replay_detected_only_requests_handshake (auth : Entry → SecretView → Bool) (s : State) (v : SecretView) :
    let s' := (handleReplayDetected auth s v).1
    s'.entries = s.entries ∧ s'.peers = s.peers ∧
    (s'.handshakes = s.handshakes ∨ ∃ e, lookup s v.credId = some e ∧ auth e v = true ∧ s'.handshakes = s.handshakes ++ [e.peer]) := by
  unfold handleReplayDetected
  cases hl : lookup s v.credId with
  | none => simp
  | some e =>
    by_cases ha : auth e v
    · simp [ha, requestHandshake]
    · simp [ha]

end Quic.Proofs.C18
