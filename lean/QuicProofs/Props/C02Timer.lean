import QuicModel.Time.Timer
import QuicModel.Recovery.Pacer
import QuicProofs.Lemmas.Timer
/-
  C02, part `timer`: soundness of the minimum over the armed timers a connection sleeps on
  (time/timer.rs `Provider::next_expiration`, `Timer::poll_expiration`, `Timestamp::has_elapsed`)
  and of the pacer's departure time (recovery/pacing.rs).
-/
namespace Quic.Proofs.C02
open Quic.Time.Timer

/-- 1. `next_expiration` of ANY list of timers: none iff no timer is armed; otherwise it is the deadline
    of an armed timer and ≤ every armed deadline (the minimum). -/
theorem timer_next_expiration_is_min (ts : List Timer) :
    (nextExpiration ts = none ↔ ∀ t ∈ ts, t = none) ∧
    (∀ m, nextExpiration ts = some m → some m ∈ ts ∧ ∀ d, some d ∈ ts → m ≤ d) := by
  have h := Lemmas.Timer.fold_spec ts none
  refine ⟨by simpa [nextExpiration] using h.1, fun m hm => ?_⟩
  have := h.2 m (by simpa [nextExpiration] using hm)
  exact ⟨by simpa using this.1, this.2.2⟩

example : nextExpiration [none, some 7, some 3, none, some 9] = some 3 := by decide

/-- 2a. `poll_expiration(now)` is Ready iff armed ∧ `deadline < now + 1 ms` (`has_elapsed`); Ready disarms,
    Pending leaves the timer untouched. -/
theorem timer_poll_ready_iff (t : Timer) (now : Nat) :
    ((pollExpiration t now).2 = true ↔ ∃ d, t = some d ∧ d < now + 1000) ∧
    ((pollExpiration t now).2 = true → (pollExpiration t now).1 = none) ∧
    ((pollExpiration t now).2 = false → (pollExpiration t now).1 = t) := by
  cases t with
  | none => simp [pollExpiration, isExpired]
  | some d =>
    by_cases h : d < now + 1000 <;> simp [pollExpiration, isExpired, hasElapsed, granularityUs, cancel, h]

/-- 2b. never before the deadline minus the documented granularity (fires at `now ≥ deadline - 999 µs`),
    always at or after the deadline. -/
theorem timer_fires_within_granularity (d now : Nat) :
    ((pollExpiration (some d) now).2 = true → d ≤ now + 999) ∧
    (d ≤ now → (pollExpiration (some d) now).2 = true) := by
  by_cases h : d < now + 1000 <;> simp [pollExpiration, isExpired, hasElapsed, granularityUs, h] <;> (try omega)

/-- 2c. never twice for one arming: after Ready the timer is disarmed and every later poll (any time) is Pending;
    `cancel` ⇒ never fires. (The op-history form over `run` is not proved in this round.) -/
theorem timer_ready_then_disarmed (t : Timer) (now now' : Nat) (h : (pollExpiration t now).2 = true) :
    (pollExpiration (pollExpiration t now).1 now').2 = false := by
  rw [(timer_poll_ready_iff t now).2.1 h]; rfl

theorem timer_cancel_never_fires (t : Timer) (now : Nat) : (pollExpiration (cancel t) now).2 = false := rfl

/-- 3. wake-up soundness: sleeping until `next_expiration` (any `now` with `m < now + 1 ms`, in particular `now = m`)
    some timer polls Ready; after polling all timers the new `next_expiration` is none or ≥ now + 1 ms > now. -/
theorem timer_wake_sound (ts : List Timer) (m now : Nat) (h : nextExpiration ts = some m) (hn : m < now + 1000) :
    (∃ t ∈ ts, (pollExpiration t now).2 = true) ∧
    (∀ m', nextExpiration (pollAll ts now) = some m' → now + 1000 ≤ m') := by
  refine ⟨⟨some m, ((timer_next_expiration_is_min ts).2 m h).1, ((timer_poll_ready_iff _ _).1).2 ⟨m, rfl, hn⟩⟩, ?_⟩
  intro m' h'
  have hm := ((timer_next_expiration_is_min _).2 m' h').1
  simp only [pollAll, List.mem_map] at hm
  obtain ⟨t, _, ht⟩ := hm
  cases hb : (pollExpiration t now).2 with
  | true => rw [(timer_poll_ready_iff t now).2.1 hb] at ht; cases ht
  | false =>
    rw [(timer_poll_ready_iff t now).2.2 hb] at ht
    subst ht
    have := (timer_poll_ready_iff (some m') now).1
    simp [hb] at this
    omega

example : nextExpiration [some 5000, none, some 4500] = some 4500 ∧ (4500 : Nat) < 4500 + 1000 := by decide

open Quic.Recovery.Pacer in
/-- 4a. `earliest_departure_time` never decreases and is never forgotten, whatever the arguments of the send. -/
theorem pacer_edt_monotone (s s' : State) (now b srtt cwnd mds : Nat) (ss : Bool)
    (h : onPacketSent s now b srtt cwnd mds ss = some s') :
    ∀ a, s.next = some a → ∃ a', s'.next = some a' ∧ a ≤ a' := by
  intro a ha
  unfold onPacketSent at h
  simp only [ha] at h
  split at h
  · cases h; exact ⟨a, ha, Nat.le_refl _⟩
  · split at h
    · split at h
      · cases h
      · cases h; exact ⟨_, rfl, by simp only [tsAdd]; exact Nat.le_trans (Nat.le_add_right _ _) (Nat.le_max_left _ _)⟩
    · cases h; exact ⟨a, by simpa using ha, Nat.le_refl _⟩

open Quic.Recovery.Pacer in
/-- the documented boundary witnesses: cwnd = 0 panics (debug assertion), a 2^53 ns RTT with a 1-byte window
    overflows `4 * npk` outside slow start, and is fine in slow start. -/
theorem pacer_boundary_witnesses :
    onPacketSent { capacity := 0, next := some 5 } 9 1 10000000 0 1200 true = none ∧
    onPacketSent { capacity := 0, next := some 5 } 9 1 (2 ^ 53) 1 1200 false = none ∧
    (onPacketSent { capacity := 0, next := some 5 } 9 1 (2 ^ 53) 1 1200 true).isSome = true := by
  decide +kernel

end Quic.Proofs.C02
