import QuicModel.Codec.VarInt
/-
  C05 (variable-length integers): the property theorems. Helper facts are local `private`
  lemmas; nothing here weakens a statement.
-/
namespace Quic.Proofs.C05
open Quic Quic.Codec.VarInt

theorem lookup_cases (x : Nat) :
    lookup x = if x ≤ 63 then ⟨0, 1, 56⟩ else if x ≤ 16383 then ⟨1, 2, 48⟩
      else if x ≤ 1073741823 then ⟨2, 4, 32⟩ else ⟨3, 8, 0⟩ := by
  unfold lookup lookupWith pinnedTable
  simp only [List.foldl]
  repeat' split
  all_goals first | rfl | omega

/-- the encoder announces exactly the number of bytes it writes -/
theorem varint_size (x : Nat) : (encode x).length = encodingSize x := by
  unfold encode encodeWith encodingSize
  rw [show lookupWith pinnedTable x = lookup x from rfl, lookup_cases]
  repeat' split
  all_goals simp [beBytes]

/-- integers are emitted in their shortest form (RFC 9000 Table 4) -/
theorem varint_shortest (x : Nat) : encodingSize x = Rfc.VarInt.minimalLen x := by
  unfold encodingSize Rfc.VarInt.minimalLen
  rw [lookup_cases]
  repeat' split
  all_goals rfl

/-- the table-driven encoder emits exactly the RFC bytes -/
theorem encode_eq_rfc_emit (x : Nat) (hx : x ≤ maxValue) : encode x = Rfc.VarInt.emit x := by
  unfold encode encodeWith Rfc.VarInt.emit maxValue at *
  rw [show lookupWith pinnedTable x = lookup x from rfl, lookup_cases]
  repeat' split
  all_goals simp [beBytes]
  all_goals omega


theorem decode_tag0 (h : Nat) (t : List Nat) (ht : h / 64 % 4 = 0) :
    decode (h :: t) = some (h % 64, t) := by
  simp [decode, decodeWith, widthOf, pinnedMaskBits, ht, beVal]

theorem decode_tag1 (h b1 : Nat) (t : List Nat) (ht : h / 64 % 4 = 1) :
    decode (h :: b1 :: t) = some ((h * 256 + b1) % 2 ^ 14, t) := by
  simp [decode, decodeWith, widthOf, pinnedMaskBits, ht, beVal]

theorem decode_tag2 (h b1 b2 b3 : Nat) (t : List Nat) (ht : h / 64 % 4 = 2) :
    decode (h :: b1 :: b2 :: b3 :: t)
      = some ((h * 256 ^ 3 + (b1 * 256 ^ 2 + (b2 * 256 + b3))) % 2 ^ 30, t) := by
  simp [decode, decodeWith, widthOf, pinnedMaskBits, ht, beVal]

theorem decode_tag3 (h b1 b2 b3 b4 b5 b6 b7 : Nat) (t : List Nat) (ht : h / 64 % 4 = 3) :
    decode (h :: b1 :: b2 :: b3 :: b4 :: b5 :: b6 :: b7 :: t)
      = some ((h * 256 ^ 7 + (b1 * 256 ^ 6 + (b2 * 256 ^ 5 + (b3 * 256 ^ 4 + (b4 * 256 ^ 3
          + (b5 * 256 ^ 2 + (b6 * 256 + b7))))))) % 2 ^ 62, t) := by
  simp [decode, decodeWith, widthOf, pinnedMaskBits, ht, beVal]

/-- everything the encoder emits decodes back to the same value and leaves the rest untouched -/
theorem varint_roundtrip (x : Nat) (rest : List Nat) (hx : x ≤ maxValue) :
    decode (encode x ++ rest) = some (x, rest) := by
  rw [encode_eq_rfc_emit x hx]
  unfold Rfc.VarInt.emit maxValue at *
  repeat' split
  · rw [List.cons_append, List.nil_append, decode_tag0 _ _ (by omega)]
    simp; omega
  · simp only [List.cons_append, List.nil_append]
    rw [decode_tag1 _ _ _ (by omega)]
    simp; omega
  · simp only [List.cons_append, List.nil_append]
    rw [decode_tag2 _ _ _ _ _ (by omega)]
    simp; omega
  · simp only [List.cons_append, List.nil_append]
    rw [decode_tag3 _ _ _ _ _ _ _ _ _ (by omega)]
    simp; omega

theorem decode_short (h : Nat) (t : List Nat)
    (hl : (h :: t).length < widthOf (h / 64 % 4)) :
    decode (h :: t) = none := by
  simp only [decode, decodeWith]
  rw [if_pos hl]

/-- the decoder agrees with the independently written RFC parser on every byte string -/
theorem decode_eq_rfc_parse (b : List Nat) (hb : BytesOk b) : decode b = Rfc.VarInt.parse b := by
  match b, hb with
  | [], _ => rfl
  | h :: t, hb =>
    have hb' : ∀ x ∈ h :: t, x < 256 := hb
    have htag : h / 64 % 4 = 0 ∨ h / 64 % 4 = 1 ∨ h / 64 % 4 = 2 ∨ h / 64 % 4 = 3 := by omega
    rcases htag with h0 | h1 | h2 | h3
    · rw [decode_tag0 _ _ h0]; simp [Rfc.VarInt.parse, h0]
    · match t, hb' with
      | [], _ => rw [decode_short _ _ (by simp [widthOf, h1])]; simp [Rfc.VarInt.parse, h1]
      | b1 :: r, hb' =>
        rw [decode_tag1 _ _ _ h1]
        have := hb' b1 (by simp)
        simp [Rfc.VarInt.parse, h1]; omega
    · match t, hb' with
      | [], _ => rw [decode_short _ _ (by simp [widthOf, h2])]; simp [Rfc.VarInt.parse, h2]
      | [_], _ => rw [decode_short _ _ (by simp [widthOf, h2])]; simp [Rfc.VarInt.parse, h2]
      | [_, _], _ => rw [decode_short _ _ (by simp [widthOf, h2])]; simp [Rfc.VarInt.parse, h2]
      | b1 :: b2 :: b3 :: r, hb' =>
        rw [decode_tag2 _ _ _ _ _ h2]
        have := hb' b1 (by simp); have := hb' b2 (by simp); have := hb' b3 (by simp)
        simp [Rfc.VarInt.parse, h2]; omega
    · match t, hb' with
      | [], _ => rw [decode_short _ _ (by simp [widthOf, h3])]; simp [Rfc.VarInt.parse, h3]
      | [_], _ => rw [decode_short _ _ (by simp [widthOf, h3])]; simp [Rfc.VarInt.parse, h3]
      | [_, _], _ => rw [decode_short _ _ (by simp [widthOf, h3])]; simp [Rfc.VarInt.parse, h3]
      | [_, _, _], _ => rw [decode_short _ _ (by simp [widthOf, h3])]; simp [Rfc.VarInt.parse, h3]
      | [_, _, _, _], _ => rw [decode_short _ _ (by simp [widthOf, h3])]; simp [Rfc.VarInt.parse, h3]
      | [_, _, _, _, _], _ => rw [decode_short _ _ (by simp [widthOf, h3])]; simp [Rfc.VarInt.parse, h3]
      | [_, _, _, _, _, _], _ => rw [decode_short _ _ (by simp [widthOf, h3])]; simp [Rfc.VarInt.parse, h3]
      | b1 :: b2 :: b3 :: b4 :: b5 :: b6 :: b7 :: r, hb' =>
        rw [decode_tag3 _ _ _ _ _ _ _ _ _ h3]
        have := hb' b1 (by simp); have := hb' b2 (by simp); have := hb' b3 (by simp)
        have := hb' b4 (by simp); have := hb' b5 (by simp); have := hb' b6 (by simp)
        have := hb' b7 (by simp)
        simp [Rfc.VarInt.parse, h3]; omega

/-- totality: the decoder returns a value or an error on every input, and a decoded value is
    always a valid varint that consumed 1, 2, 4 or 8 bytes of the input -/
theorem decode_consumes (b r : List Nat) (v : Nat) (h : decode b = some (v, r)) :
    v ≤ maxValue ∧ ∃ n, (n = 1 ∨ n = 2 ∨ n = 4 ∨ n = 8) ∧ n ≤ b.length ∧ r = b.drop n := by
  match b with
  | [] => simp [decode, decodeWith] at h
  | h0 :: t =>
    have hw : widthOf (h0 / 64 % 4) = 1 ∨ widthOf (h0 / 64 % 4) = 2 ∨ widthOf (h0 / 64 % 4) = 4
        ∨ widthOf (h0 / 64 % 4) = 8 := by
      unfold widthOf; repeat' split
      all_goals simp
    by_cases hlen : (h0 :: t).length < widthOf (h0 / 64 % 4)
    · rw [decode_short _ _ hlen] at h; simp at h
    · simp only [decode, decodeWith, if_neg hlen, Option.some.injEq, Prod.mk.injEq] at h
      obtain ⟨hv, hr⟩ := h
      constructor
      · rw [← hv]
        have htag : h0 / 64 % 4 = 0 ∨ h0 / 64 % 4 = 1 ∨ h0 / 64 % 4 = 2 ∨ h0 / 64 % 4 = 3 := by omega
        have : ∀ a k, k ≤ 62 → a % 2 ^ k ≤ maxValue := by
          intro a k hk
          have h1 : a % 2 ^ k < 2 ^ k := Nat.mod_lt _ (Nat.two_pow_pos k)
          have h2 : 2 ^ k ≤ 2 ^ 62 := Nat.pow_le_pow_right (by decide) hk
          unfold maxValue; omega
        apply this
        rcases htag with h | h | h | h <;> simp [pinnedMaskBits, h]
      · exact ⟨_, hw, Nat.le_of_not_lt hlen, hr.symm⟩

end Quic.Proofs.C05
