import QuicModel.Sync.SocketTask
/-
  C17, socket tasks: a `poll` call never returns with entries released to the endpoint but the endpoint not woken.
-/
namespace Quic.Proofs.C17
open Quic.Sync.SocketTask

theorem poll_noLostWake_aux (evs : List Ev) (pending unwoken : Bool) (h : unwoken = true → pending = true) :
    noLostWake unwoken (poll pinned pending evs) = true := by
  induction evs generalizing pending unwoken with
  | nil => simp [poll, noLostWake]
  | cons e rest ih =>
    cases e with
    | ringReady => simpa [poll] using ih pending unwoken h
    | io count =>
      by_cases hc : count > 0
      · simp only [poll, hc, if_true, noLostWake]
        exact ih true true (fun _ => rfl)
      · simp only [poll, hc, if_false]
        exact ih pending unwoken h
    | ringPending =>
      cases pending <;> cases unwoken <;> simp_all [poll, noLostWake, pinned]
    | socketBlocked =>
      cases pending <;> cases unwoken <;> simp_all [poll, noLostWake, pinned]

/-- for EVERY sequence of ring / socket events inside a `poll` call of the TX or RX socket task (as pinned from the
    source), whenever the call returns, each `release_no_wake` of that call has been followed by `ring.wake()`:
    the endpoint waiting on the ring is never left asleep with released entries. -/
theorem socket_task_no_lost_wakeup (evs : List Ev) : noLostWake false (poll pinned false evs) = true :=
  poll_noLostWake_aux evs false false (fun h => by cases h)

/-- non-vacuity: entries are released, the ring runs empty, the wake is delivered before returning -/
example : poll pinned false [.ringReady, .io 8, .ringPending] = [.release 8, .wake, .ret] := by decide
example : poll pinned false [.ringReady, .io 3, .ringReady, .io 0, .socketBlocked] = [.release 3, .wake, .ret] := by decide

/-- without the wake in the `Poll::Pending` arm a producer waiting for TX space is never woken once the ring drains -/
theorem missing_pending_arm_wake_counterexample :
    noLostWake false (poll ⟨false, true⟩ false [.ringReady, .io 8, .ringPending]) = false := by decide

/-- without the wake after the loop the same happens when the socket blocks -/
theorem missing_after_loop_wake_counterexample :
    noLostWake false (poll ⟨true, false⟩ false [.ringReady, .io 8, .socketBlocked]) = false := by decide

end Quic.Proofs.C17
