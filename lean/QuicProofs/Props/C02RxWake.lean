import QuicModel.Conn.Wakers
import QuicProofs.Lemmas.Wakers
import QuicProofs.Lemmas.WakersAnyLow
/-
  C02 (stream read waiter, every request of the transport-level request API): the two cooperating tests of
  `stream/receive_stream.rs` — `poll_request` parks the reader while `len < min(fc watermark, low watermark)` (or the buffer is
  empty), `on_data` wakes it once `len ≥ min(low watermark, fc watermark)` — are consistent over EVERY history of read requests
  with ANY low watermark and ANY number of requested bytes, data frames, FINs, resets and STOP_SENDING requests:

    * `reader_never_parked_with_watermark_met`  a stored waker's low watermark is never already met (no "data is there but the
                                                reader sleeps" state is reachable);
    * `network_event_wakes_or_keeps_short`      a data frame / reset either reports the wake-up in the same step or leaves a waiter
                                                whose watermark is still not met;
    * `parked_reader_holds_less_than_fc_watermark`  a parked reader never sits on `fc watermark` (= half the desired window, bridge
                                                `RxWake.fc_watermark_eq`) or more unread bytes — whatever low watermark it asked
                                                for.  This is what keeps reader and writer from waiting for each other: the peer
                                                can only be blocked by flow control after filling the window.
  `C02Timers.no_parked_without_wakeup` proves the stronger `blocked` condition (the peer still owes data / FIN / RESET) for the
  requests of the PUBLIC stream API (`lw = 0`); for an arbitrary low watermark that stronger condition is FALSE in the model:
  `low_watermark_beyond_final_size_parks_forever_counterexample` (a request with a low watermark above what is left of a stream
  whose FIN has arrived parks although nothing more will ever arrive).  The public `s2n-quic` API cannot issue such a request
  (`rx_request` is `pub(crate)`, `with_high_watermark` clamps the low one), so this is recorded as an observation, not a finding
  (replayed on the real ReceiveStream by hand: harness/hooks-draft/read_low_watermark_after_fin_test.rs answers Pending).

  Tie G: `Bridge/RxWake.lean` — the watermark expressions of BOTH sites are translated from /repo's text on every run and proved
  equal to the model's `ready` / `pollReadReceiving` tests for all arguments.
-/
namespace Quic.Proofs.Props.C02RxWake
open Quic.Conn.Wakers Quic.Conn.Wakers.ReadWaiter Quic.Proofs.Lemmas.WakersAnyLow

/-- over every history (any low watermark, any request size): a stored read waker ⇒ the stream is still `Receiving` and the
    wake test of `on_data` is currently false for the stored low watermark -/
theorem reader_never_parked_with_watermark_met (fcw : Nat) (ops : List Op) (lw : Nat)
    (hw : (run { fcWatermark := fcw } ops).waiter = some lw) :
    (run { fcWatermark := fcw } ops).st = .receiving ∧ ready (run { fcWatermark := fcw } ops) lw = false :=
  (wfg_run ops _ (wfg_init fcw)).r4 lw hw

/-- one network event on any reachable state with a parked reader: afterwards either a waiter is still stored and its watermark is
    still not met, or the waiter is gone and the step reported the wake-up -/
theorem network_event_wakes_or_keeps_short (s : State) (op : Op) (lw : Nat) (hwf : WFG s)
    (hnet : (∃ n fin, op = .onData n fin) ∨ op = .onReset) (hw : s.waiter = some lw) :
    (∃ lw2, (step s op).1.waiter = some lw2 ∧ ready (step s op).1 lw2 = false) ∨
    ((step s op).1.waiter = none ∧ (step s op).2 = true) := by
  cases hx : (step s op).1.waiter with
  | none => exact Or.inr ⟨rfl, Lemmas.Wakers.Read.net_wakes s op hnet lw hw hx⟩
  | some lw2 => exact Or.inl ⟨lw2, rfl, ((wfg_step s op hwf).r4 lw2 hx).2⟩

/-- a parked reader holds fewer unread bytes than the flow-controller watermark (or none at all), whatever it asked for -/
theorem parked_reader_holds_less_than_fc_watermark (fcw : Nat) (ops : List Op) (lw : Nat)
    (hw : (run { fcWatermark := fcw } ops).waiter = some lw) :
    len (run { fcWatermark := fcw } ops) = 0 ∨ len (run { fcWatermark := fcw } ops) < fcw := by
  have h := (reader_never_parked_with_watermark_met fcw ops lw hw).2
  have hf : (run { fcWatermark := fcw } ops).fcWatermark = fcw := by
    have : ∀ (ops : List Op) (s : State), (run s ops).fcWatermark = s.fcWatermark := by
      intro ops
      induction ops with
      | nil => intro s; rfl
      | cons op ops ih =>
        intro s
        show (run (step s op).1 ops).fcWatermark = s.fcWatermark
        rw [ih]
        unfold step
        split
        · rfl
        · cases op with
          | pollRead l w =>
            simp only [pollRead]
            split
            · simp only [pollReadReceiving]; repeat' split
              all_goals rfl
            · rfl
          | pollStopSending => simp only [pollStopSending]; repeat' split
                               all_goals rfl
          | onData n fin =>
            simp only [onData]
            split
            · simp only [onDataCore, wake]; repeat' split
              all_goals rfl
            all_goals rfl
          | onReset => simp only [onReset, wake]; repeat' split
                       all_goals rfl
    exact this ops _
  have := (ready_false_iff _ lw).1 h
  rw [hf] at this
  unfold len
  omega

/-- non-vacuity: a reader asking for 8192 bytes on a stream whose flow-controller watermark is 2048 parks on an empty buffer,
    stays parked (correctly) at 1000 buffered bytes and is woken when 2048 bytes are buffered -/
example :
    (run { fcWatermark := 2048 } [.pollRead 8192 1]).waiter = some 8192 ∧
    (step (run { fcWatermark := 2048 } [.pollRead 8192 1]) (.onData 1000 none)).2 = false ∧
    (step (run { fcWatermark := 2048 } [.pollRead 8192 1, .onData 1000 none]) (.onData 2048 none)).2 = true := by decide

/-- COUNTEREXAMPLE (model): for an arbitrary low watermark the stronger condition of `no_parked_without_wakeup` ("the peer still
    owes something") fails — 5 bytes and the FIN have arrived, a request with low watermark 10 parks, nothing more will arrive -/
theorem low_watermark_beyond_final_size_parks_forever_counterexample :
    let s := run { fcWatermark := 100 } [.onData 5 (some 5), .pollRead 10 1]
    s.waiter = some 10 ∧ allReceived s = true ∧ blocked s 10 = false := by decide

end Quic.Proofs.Props.C02RxWake
