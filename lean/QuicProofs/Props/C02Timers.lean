import QuicProofs.Lemmas.IdleTimer
import QuicProofs.Lemmas.ValueSync
import QuicProofs.Lemmas.PtoArmed
import QuicProofs.Lemmas.Wakers
import QuicProofs.Lemmas.FairRound
/-
  C02 — "every operation terminates or the failure is reported", Lean half.   STATUS: PARTIAL.

  What is PROVED here (for every history of operations of the respective model, unbounded):
    * `pto_armed_inv`            the recovery manager's `check_consistency`: ack-eliciting data in flight and not
                                 amplification-limited ⇒ the loss timer or the PTO timer is armed;
    * `idle_deadline_bound`, `idle_timer_fires_at_deadline`, `idle_timer_armed_after_first_packet`
                                 the idle timer always stands at  restart + max(idle, 3·PTO(restart))  and reports the
                                 failure there; finding-style remark `idle_not_armed_before_first_processed_packet`;
    * `max_frames_retransmitted_until_acked`, `unsynced_value_is_pending`, `blocked_frames_periodic`
                                 MAX_* / *_BLOCKED frames are re-sent until acknowledged / periodically;
    * `no_parked_without_wakeup` a stored read/write waker ⇒ its blocking condition holds, and the network
                                 operation that falsifies it wakes in the same step; for the open-stream waiters
                                 of `LocalInitiated` the same statement is FALSE in the model
                                 (`open_waiter_lost_wakeup_counterexample`) and only `open_waiters_partial` holds;
    * `progress_fair_round`, `fair_rounds_complete`   the liveness SKELETON.

  What is NOT proved: liveness of the real endpoint.  `progress_fair_round` is liveness for ONE fair schedule
  class of the composed abstract model `Compose.FairRound` (all armed timers fire, then every transmittable
  frame is delivered and acknowledged); it says nothing about the schedules the real executor (tokio / bach,
  real timers, wake-up delivery) can produce.  That half of C02 is EXPLORATION by tie T
  (`props/parts/C02_e2e.py`, `C02_idletrace.py` — real idle closes replayed through `Conn.IdleTimer`,
  `C02_recover.py` — no idle-out after the network recovered), not proof.  Hence C02 is claimed PARTIAL.
  Ties of the models: G `Bridge/Timers.lean` (tools/extractors/timers.py); T idle-trace; D `C02_openwaiters.py`
  (real `stream::Controller` vs `Conn.Wakers.OpenWaiters`, reproduces finding C02-F1 on the implementation).
-/
namespace Quic.Proofs.C02
open Quic.Conn Quic.Sync

/-! ## PTO / loss timer armed (`recovery/manager.rs` `check_consistency`) -/
section PtoArmedSec
open Quic.Conn.PtoArmed Quic.Proofs.Lemmas.PtoArmed

/-- `pto_armed_inv` = the code's `check_consistency`, after EVERY operation of EVERY history of the
    recovery-manager timer view (sends, burst ends, ACKs with any loss-detection outcome, timer expiries,
    amplification limit reached / lifted, path validation, handshake confirmation):
    outside a transmission burst (`pto_update_pending` is only set between `on_packet_sent` and
    `on_transmit_burst_complete`, where the code does not call `check_consistency` either),
    `timer_required ⇒ armed_timer_count ≠ 0`. -/
theorem pto_armed_inv (app pv amp : Bool) (ops : List Op)
    (hlive : (run (init app pv amp) ops).discarded = false)
    (hq : (run (init app pv amp) ops).ptoUpdatePending = false) :
    consistent (run (init app pv amp) ops) = true :=
  (inv_run ops _ (inv_init app pv amp) hlive).cons hq

/-- … spelled out: ack-eliciting packets in flight ∧ not amplification-limited (∧ the space may arm its
    PTO: not the application space before the handshake is confirmed) ⇒ loss timer or PTO timer armed. -/
theorem pto_armed_when_in_flight (app pv amp : Bool) (ops : List Op)
    (hlive : (run (init app pv amp) ops).discarded = false)
    (hq : (run (init app pv amp) ops).ptoUpdatePending = false)
    (hae : ackElicitingInFlight (run (init app pv amp) ops) = true)
    (hamp : (run (init app pv amp) ops).atAmplificationLimit = false)
    (hsp : (run (init app pv amp) ops).applicationSpace = false ∨ (run (init app pv amp) ops).handshakeConfirmed = true) :
    (run (init app pv amp) ops).lossTimer = true ∨ (run (init app pv amp) ops).ptoTimer = true := by
  have hi := inv_run ops _ (inv_init app pv amp) hlive
  have hc := hi.cons hq
  have hs := hi.aeSent hae
  simp only [consistent, timerRequired, armed, hae, hamp, hs] at hc
  rcases hsp with h | h <;> simp [h] at hc <;> exact hc

/-- the burst end re-establishes it: right after `on_transmit_burst_complete` the assertion holds -/
theorem pto_armed_after_burst (app pv amp : Bool) (ops : List Op)
    (hlive : (run (init app pv amp) (ops ++ [.burstComplete])).discarded = false) :
    consistent (run (init app pv amp) (ops ++ [.burstComplete])) = true := by
  apply pto_armed_inv app pv amp _ hlive
  have : ∀ (l : List Op) (s : State), run s (l ++ [.burstComplete]) = step (run s l) .burstComplete := by
    intro l; induction l with
    | nil => intro s; rfl
    | cons o l ih => intro s; simp only [List.cons_append, run]; exact ih _
  rw [this] at hlive ⊢
  unfold step at hlive ⊢
  split
  · simp only [apply]
    split
    · exact (update_fields _).2.2.1
    · rename_i h; simpa using h
  · rename_i hv
    simp only [Op.valid, Bool.and_true, Bool.not_eq_true'] at hv
    rw [if_neg (by simpa [Op.valid] using hv)] at hlive
    simp_all

/-- the loss timer is only ever armed while a packet it was set for is still tracked -/
theorem loss_timer_tracks_packet (app pv amp : Bool) (ops : List Op)
    (hlive : (run (init app pv amp) ops).discarded = false)
    (h : (run (init app pv amp) ops).lossTimer = true) : (run (init app pv amp) ops).sent ≠ [] :=
  (inv_run ops _ (inv_init app pv amp) hlive).lossHas h

/-- the abstract `update_pto_timer` IS the one of the detailed, differential-tested manager model
    (`Recovery.Manager.updatePtoTimer`, tie D of C09) under the timer-view abstraction -/
theorem update_pto_timer_refines_manager (m : Quic.Recovery.Manager.Manager) (now : Nat) :
    ofManager (Quic.Recovery.Manager.updatePtoTimer m now) = updatePtoTimer (ofManager m) :=
  ofManager_updatePtoTimer m now

/-- non-vacuity: a handshake-space history — send, burst end (PTO armed), amplification limit hit,
    ACK of packet 0 with packet 1 not yet lost (loss timer armed, PTO cancelled), loss timer fires -/
def exPto : List Op :=
  [.send 0 true, .send 1 true, .send 2 false, .burstComplete, .ampLimited, .onAmplificationUnblocked,
   .ack [2] { lost := [0], notLostYet := some 1 }]

example : (run (init false true false) exPto).sent.map (·.pn) = [1] ∧
    (run (init false true false) exPto).lossTimer = true ∧ (run (init false true false) exPto).ptoTimer = false ∧
    ackElicitingInFlight (run (init false true false) exPto) = true := by decide
example : (run (init false true false) (exPto ++ [.timeout true {}])).lossTimer = false ∧
    (run (init false true false) (exPto ++ [.timeout true {}])).ptoTimer = true := by decide
/-- amplification-limited server: data in flight but NO timer (the exception in the property text) -/
example : (run (init false false false) [.send 0 true, .ampLimited, .burstComplete]).ptoTimer = false ∧
    (run (init false false false) [.send 0 true, .ampLimited, .burstComplete, .onAmplificationUnblocked]).ptoTimer = true := by decide

end PtoArmedSec

/-! ## idle timer (`connection_impl.rs` l.470–546, l.1245) -/
section IdleSec
open Quic.Conn.IdleTimer Quic.Proofs.Lemmas.IdleTimer

/-- `idle_deadline_bound`: at every moment of every history, as long as the idle expiry has not been
    reported, the armed idle deadline equals

        restart + max(negotiated idle, 3 · PTO at the restart instant)        (ms arithmetic as in the code)

    where `restart` is the time of the last processed packet `(t, p)` or of the FIRST ack-eliciting packet
    sent after it (`restartOf`, RFC 9000 §10.1) — whatever else happened before (`pre`) and in between
    (`post`: any number of further sends and timer polls). -/
theorem idle_deadline_bound (idle : Nat) (pre post : List Op) (t p : Nat) (hnp : NoProcessed post)
    (hlive : (run (init (some idle)) (pre ++ .processed t p :: post)).expired = false) :
    (run (init (some idle)) (pre ++ .processed t p :: post)).deadline =
      some ((restartOf t p post).1 + effectiveMs idle (restartOf t p post).2 * 1000) := by
  rw [run_append] at hlive ⊢
  simp only [run] at hlive ⊢
  have hi : (run (init (some idle)) pre).idleMs = some idle := by rw [run_idleMs]; rfl
  by_cases hx : (run (init (some idle)) pre).expired = true
  · rw [step_expired _ _ hx, run_expired post _ hx, hx] at hlive; cases hlive
  · have hx' : (run (init (some idle)) pre).expired = false := by
      cases h : (run (init (some idle)) pre).expired <;> simp_all
    have hs : step (run (init (some idle)) pre) (.processed t p) =
        { run (init (some idle)) pre with deadline := some (t + effectiveMs idle p * 1000), resetOnSend := true } := by
      simp [step, hx', processed, duration, hi, arm, effectiveMs, PTO_MULTIPLIER]
    rw [hs] at hlive ⊢
    exact afterProcessed post _ idle t p hnp hi rfl rfl hlive

/-- "… in particular expiry ≤ last progress + max(idle, 3·PTO) + the PTO wait before that first send":
    with `wait` = time between the last processed packet and the restart instant. -/
theorem idle_deadline_from_last_progress (idle : Nat) (pre post : List Op) (t p : Nat) (hnp : NoProcessed post)
    (hlive : (run (init (some idle)) (pre ++ .processed t p :: post)).expired = false)
    (hmono : t ≤ (restartOf t p post).1) :
    (run (init (some idle)) (pre ++ .processed t p :: post)).deadline =
      some (t + ((restartOf t p post).1 - t) + effectiveMs idle (restartOf t p post).2 * 1000) := by
  rw [idle_deadline_bound idle pre post t p hnp hlive]
  congr 1; omega

/-- the failure IS reported: a timer poll at `now` reports `idle_timer_expired` exactly when the armed deadline is
    less than one timer granule (1 ms) ahead — in particular at `now = deadline`, the instant the armed timer
    asks to be woken — instead of waiting forever -/
theorem idle_timer_fires_at_deadline (s : State) (D now : Nat) (hd : s.deadline = some D) :
    ((timeout s now).2 = true ↔ D < now + 1000) ∧ (timeout s D).2 = true ∧ (timeout s D).1.expired = true := by
  refine ⟨?_, ?_, ?_⟩
  · by_cases h : D < now + 1000 <;> simp [timeout, isExpired, hd, K_GRANULARITY_US, h]
  · simp [timeout, isExpired, hd, K_GRANULARITY_US]
  · simp [timeout, isExpired, hd, K_GRANULARITY_US]

/-- once a packet has been processed the idle timer is armed until the expiry is reported -/
theorem idle_timer_armed_after_first_packet (idle : Nat) (ops : List Op) (t p : Nat)
    (hmem : Op.processed t p ∈ ops) (hlive : (run (init (some idle)) ops).expired = false) :
    (run (init (some idle)) ops).deadline.isSome = true := by
  obtain ⟨pre, post, rfl⟩ := List.append_of_mem hmem
  rw [run_append] at hlive ⊢
  simp only [run] at hlive ⊢
  have hi : (run (init (some idle)) pre).idleMs = some idle := by rw [run_idleMs]; rfl
  rcases run_armedOrExpired post _ (processed_armedOrExpired _ idle t p hi) with h | h
  · rw [h] at hlive; cases hlive
  · exact h

/-- REMARK (finding-style, a proved fact about the model; code: `connection_impl.rs` l.500–505 is the only place
    that sets `reset_peer_idle_timer_on_send`, l.541 only re-arms when that flag is set): BEFORE the first packet
    is processed nothing arms the idle timer — no number of ack-eliciting transmissions does, and no timer poll
    ever reports an idle expiry.  A client whose packets all vanish therefore has NO idle timer; its failure is
    reported by `max_handshake_duration` (default 10 s, `connection_impl.rs` l.835/l.1233–1243, bridged in
    `Bridge/Timers.lean`), not "within the effective idle timeout". -/
theorem idle_not_armed_before_first_processed_packet (idle : Option Nat) (ops : List Op) (hnp : NoProcessed ops) :
    (run (init idle) ops).deadline = none ∧ (run (init idle) ops).expired = false :=
  let h := unarmed ops (init idle) hnp rfl rfl rfl
  ⟨h.1, h.2.2⟩

/-- the concrete history: a client sends its Initial at 1 µs and PTO probes at 1 s and 3 s (PTO 999 ms),
    polls its timers at 100 s: idle timer still unarmed, nothing reported (idle timeout 30 s) -/
example : (run (init (some 30000)) [.sentAckEliciting 1 999000, .sentAckEliciting 1000000 1998000,
    .sentAckEliciting 3000000 3996000, .timeout 100000000]) = { idleMs := some 30000 } := by decide

/-- non-vacuity of `idle_deadline_bound`, the values of a real trace (client of a blackholed connection,
    idle 5 s): last packet processed at 4.8 s, first ack-eliciting packet after it is the PTO probe at
    8418561 µs sent with PTO 8399808 µs (back-off 64) ⇒ deadline 8418561 + 3·8399 ms = 33615561 µs,
    which is the instant the real endpoint reported `IdleTimerExpired`. -/
example : (run (init (some 5000)) [.processed 4800000 4199904, .sentAckEliciting 8418561 8399808,
    .sentAckEliciting 16818369 16799616, .timeout 33614561]).deadline = some 33615561 := by decide
example : (timeout (run (init (some 5000)) [.processed 4800000 4199904, .sentAckEliciting 8418561 8399808]) 33615561).2 = true := by
  decide

end IdleSec

/-! ## MAX_DATA / MAX_STREAM_DATA / MAX_STREAMS (`sync/incremental_value_sync.rs`) -/
section ValueSyncSec
open Quic.Sync.IncrementalValueSync Quic.Proofs.Lemmas.ValueSync

/-- `max_frames_retransmitted_until_acked`:
    (1) from ANY state, when the packet carrying the frame is declared lost, delivery of the LATEST value is
        requested again (`Lost(latest)`, transmission interest, and the next transmission that is allowed to
        retransmit writes the latest value);
    (2) once a packet carrying the latest value is acknowledged the value is recorded as delivered and nothing more
        is sent, whatever happens afterwards, until the value changes;
    (3) over every history from `new`, the value reported delivered (`value_ackd_up_to`) is the initial one or a
        value that was written into some packet `pn` that a LATER processed ACK covered. -/
theorem max_frames_retransmitted_until_acked :
    (∀ (s : State) (v pn : Nat) (set : List Nat), s.delivery = .inFlight v pn → set.contains pn = true →
        (onPacketLoss s set).delivery = .lost s.latest ∧ (onPacketLoss s set).delivery.hasInterest = true ∧
        ∀ (c : Constraint) (pn' : Nat), c.canRetransmit = true →
          onTransmit (onPacketLoss s set) c (some pn') =
            ({ onPacketLoss s set with delivery := .inFlight s.latest pn' }, some s.latest)) ∧
    (∀ (s : State) (pn : Nat) (set : List Nat), s.delivery = .inFlight s.latest pn → set.contains pn = true →
        (onPacketAck s set).ackdUpTo = s.latest ∧ (onPacketAck s set).delivery = .notRequested ∧
        ∀ ops : List Op, (∀ v, Op.update v ∈ ops → v ≤ s.latest) →
          ∀ e ∈ (run (onPacketAck s set) ops).2, ∀ v pn', e ≠ Event.sent v pn') ∧
    (∀ (latest ackd thr : Nat) (ops : List Op),
        (run (new latest ackd thr) ops).1.ackdUpTo = ackd ∨
        SentThenAcked (run (new latest ackd thr) ops).2 (run (new latest ackd thr) ops).1.ackdUpTo) := by
  refine ⟨?_, ?_, ?_⟩
  · intro s v pn set hd hc
    have h1 : onPacketLoss s set = { s with delivery := .lost s.latest } := by
      simp only [onPacketLoss, hd, hc, if_true]
    rw [h1]
    refine ⟨rfl, rfl, ?_⟩
    intro c pn' hcr
    simp [onTransmit, Delivery.tryTransmit, hcr]
  · intro s pn set hd hc
    have h1 : onPacketAck s set = { s with ackdUpTo := s.latest, delivery := .notRequested } := by
      simp only [onPacketAck, hd, hc, if_true]
    rw [h1]
    refine ⟨rfl, rfl, ?_⟩
    -- quiescence: `Quiet` is preserved and nothing is sent
    have hq : Quiet { s with ackdUpTo := s.latest, delivery := .notRequested } := Or.inl ⟨rfl, rfl⟩
    have hl : ({ s with ackdUpTo := s.latest, delivery := .notRequested } : State).latest = s.latest := rfl
    revert hq hl
    generalize ({ s with ackdUpTo := s.latest, delivery := .notRequested } : State) = q
    intro hq hl ops
    induction ops generalizing q with
    | nil => intro _ e he; simp [run] at he
    | cons op ops ih =>
      intro hup e he
      simp only [run, List.mem_append] at he
      have hstep := quiet_step q op hq (fun v hv => by rw [hl]; exact hup v (by rw [hv]; exact List.mem_cons_self))
      rcases he with he | he
      · exact hstep.2 e he
      · have hl' : (step q op).1.latest = s.latest := by
          rw [step_latest q op, hl]
          cases op with
          | update v =>
            have hv := hup v List.mem_cons_self
            simp only; split <;> omega
          | _ => rfl
        exact ih _ hstep.1 hl' (fun v hv => hup v (List.mem_cons_of_mem _ hv)) e he
  · intro latest ackd thr ops
    have h0 : LogInv ackd (new latest ackd thr) [] := by
      refine ⟨Or.inl ?_, ?_⟩
      · simp only [new, requestDeliveryIfNecessary]; split <;> rfl
      · intro v pn hd
        simp only [new, requestDeliveryIfNecessary] at hd
        split at hd <;> cases hd
    have := logInv_run ackd ops _ [] h0
    simpa using this.ackd

/-- the value a peer is owed never gets forgotten: over every history from `new` (with a consistent start
    `ackd ≤ latest`), if the synchroniser is idle (`NotRequested`) then the latest value is NOT unsynced
    (it equals the acknowledged one or differs by less than the configured threshold); otherwise a frame is
    requested, lost-and-re-requested, or in flight (or the sync was stopped). -/
theorem unsynced_value_is_pending (latest ackd thr : Nat) (h : ackd ≤ latest) (ops : List Op) :
    let s := (run (new latest ackd thr) ops).1
    s.ackdUpTo ≤ s.latest ∧ (unsynced s → s.delivery ≠ .notRequested) := by
  have hi := inv_run ops _ (inv_new latest ackd thr h)
  exact ⟨hi.mono, fun hu hd => hi.notReq hd hu⟩

/-- non-vacuity ("latest value wins"; what is re-sent after a loss): MAX_DATA 100 → sent in packet 7 →
    the application reads on (value 130, below the threshold 50 over the in-flight value) → packet 7 lost →
    the frame re-sent in packet 9 carries 130 → acknowledged: 130 is recorded, nothing further is owed. -/
example : (run (new 100 0 50) [.transmit .none (some 7), .update 130, .loss [7], .transmit .retransmissionOnly (some 9),
    .ack [9], .transmit .none (some 10)]) =
    ({ latest := 130, ackdUpTo := 130, threshold := 50, delivery := .notRequested },
     [.sent 100 7, .sent 130 9, .acked [9]]) := by decide

end ValueSyncSec

/-! ## DATA_BLOCKED / STREAM_DATA_BLOCKED / STREAMS_BLOCKED (`sync/periodic_sync.rs`) -/
section PeriodicSec
open Quic.Sync.PeriodicSync Quic.Proofs.Lemmas.ValueSync.Periodic
open Quic.Sync.IncrementalValueSync (Delivery Constraint)

/-- `blocked_frames_periodic`: over every history from `new`,
    (1) while delivery is requested and not stopped the machine is never idle — a BLOCKED frame is waiting for
        (re)transmission, in flight, or the re-send timer is armed;
    (2) an acknowledged BLOCKED frame leaves the re-send timer armed, and when that timer expires the frame is
        requested AGAIN with the latest value (so BLOCKED frames are re-sent periodically while blocked);
    (3) the period is `sync_period × backoff` counted from the transmission time, the back-off doubling with every
        transmission (saturating at `u16::MAX`). -/
theorem blocked_frames_periodic (ops : List Op) :
    let s := run new ops
    (s.active = true → s.delivery.hasInterest = true ∨ inFlight s.delivery = true ∨ s.timer.isSome = true) ∧
    (isDelivered s.delivery = true → s.timer.isSome = true ∧
        ∀ now, timerExpired s now = true → (onTimeout s now).delivery = .requested s.latest ∧
          (onTransmit (onTimeout s now) .none (some 0) now).2 = some s.latest) ∧
    (∀ v pn set, s.delivery = .inFlight v pn → set.contains pn = true →
        (onPacketAck s set).timer = some (s.inFlightTime + s.syncPeriodUs * s.backoff) ∧
        (onPacketAck s set).delivery = .delivered v) ∧
    (∀ c pn now, s.delivery.tryTransmit c = true →
        (onTransmit s c (some pn) now).1.backoff = min (s.backoff * 2) 65535) := by
  have hi := pinv_run ops _ pinv_new
  refine ⟨hi.active, ?_, ?_, ?_⟩
  · intro hd
    refine ⟨hi.delivered hd, ?_⟩
    intro now he
    simp [onTimeout, he, onTransmit, Delivery.tryTransmit, Constraint.canTransmit]
  · intro v pn set hd hc
    have hm : pn ∈ set := by simpa using hc
    simp [PeriodicSync.onPacketAck, hd, hm, updateTimer, period]
  · intro c pn now ht
    simp [onTransmit, ht, doubleBackoff, U16_MAX]

/-- non-vacuity: STREAMS_BLOCKED(4) sent at 1 s in packet 3, acknowledged; the timer stands at
    1 s + 999 ms × 2; when it fires the frame is requested again -/
example : (run new [.request 4, .transmit .none (some 3) 1000000, .ack [3]]).timer = some 2998000 ∧
    (run new [.request 4, .transmit .none (some 3) 1000000, .ack [3], .timeout 2998000]).delivery = .requested 4 := by decide

end PeriodicSec

/-! ## wakers (`stream/receive_stream.rs`, `stream/send_stream.rs`, `stream/controller/local_initiated.rs`) -/
section WakersSec
open Quic.Conn.Wakers Quic.Proofs.Lemmas.Wakers

/-- `no_parked_without_wakeup` for the stream read and write waiters.  Over every history of application polls
    (as the public stream API issues them) and network events:
      * a stored waker ⇒ its blocking condition currently holds (hence no state "stored waker ∧ ¬condition" is reachable);
      * a network operation leaves the stored waker in place (then the condition still holds) or removes it — and
        then reports a wake action in the same step. -/
theorem no_parked_without_wakeup :
    (∀ (fcw : Nat) (ops : List ReadWaiter.Op), (∀ op ∈ ops, Read.PublicOp op) →
        ∀ lw, (ReadWaiter.run { fcWatermark := fcw } ops).waiter = some lw →
          ReadWaiter.blocked (ReadWaiter.run { fcWatermark := fcw } ops) lw = true) ∧
    (∀ (s : ReadWaiter.State) (op : ReadWaiter.Op) (lw : Nat), Read.WF s → Read.PublicOp op →
        ((∃ n fin, op = .onData n fin) ∨ op = .onReset) → s.waiter = some lw →
          ((ReadWaiter.step s op).1.waiter = some lw ∧ ReadWaiter.blocked (ReadWaiter.step s op).1 lw = true) ∨
          ((ReadWaiter.step s op).1.waiter = none ∧ (ReadWaiter.step s op).2 = true)) ∧
    (∀ (cap : Nat) (ops : List WriteWaiter.Op) (f : Bool), (WriteWaiter.run { cap := cap } ops).waiter = some f →
        WriteWaiter.blocked (WriteWaiter.run { cap := cap } ops) f = true) ∧
    (∀ (s : WriteWaiter.State) (op : WriteWaiter.Op) (f : Bool), Write.WF s → (∀ r, op ≠ .poll r) → s.waiter = some f →
        ((WriteWaiter.step s op).1.waiter = some f ∧ WriteWaiter.blocked (WriteWaiter.step s op).1 f = true ∧
            (WriteWaiter.step s op).2 = false) ∨
        ((WriteWaiter.step s op).1.waiter = none ∧ (WriteWaiter.step s op).2 = true)) := by
  refine ⟨?_, ?_, ?_, ?_⟩
  · intro fcw ops hp lw hw
    exact ((Read.wf_run ops _ hp (Read.wf_init fcw)).r4 lw hw).2
  · intro s op lw hwf hp hnet hw
    have hwf' := Read.wf_step s op hp hwf
    cases hx : (ReadWaiter.step s op).1.waiter with
    | none => exact Or.inr ⟨rfl, Read.net_wakes s op hnet lw hw hx⟩
    | some lw' =>
      have h4 := hwf'.r4 lw' hx
      have h0 := (hwf.r4 lw hw).1
      left
      rw [h0, ← h4.1]
      exact ⟨rfl, h4.2⟩
  · intro cap ops f hw
    exact (Write.wf_run ops _ (Write.wf_init cap)).w4 f hw
  · intro s op f hwf hnet hw
    have hwf' := Write.wf_net s op hwf
    rcases Write.net_keeps_or_wakes s op hnet f hw with ⟨h1, h2⟩ | ⟨h1, h2⟩
    · exact Or.inl ⟨h1, hwf'.w4 f h1, h2⟩
    · exact Or.inr ⟨h1, h2⟩

/-- non-vacuity (read): the reader parks on an empty buffer; 10 bytes arrive ⇒ woken; parks again after reading;
    the FIN arrives without new data ⇒ woken (nothing else would ever wake it) -/
example : (ReadWaiter.run {} [.pollRead 0 100]).waiter = some 0 ∧
    ReadWaiter.step (ReadWaiter.run {} [.pollRead 0 100]) (.onData 10 none) =
      ({ recv := 10 }, true) ∧
    ReadWaiter.step (ReadWaiter.run {} [.pollRead 0 100, .onData 10 none, .pollRead 0 100, .pollRead 0 100]) (.onData 10 (some 10)) =
      ({ st := .dataRead, recv := 10, consumed := 10, final := some 10 }, true) := by decide
/-- non-vacuity (write): buffer of 100 bytes full ⇒ the writer parks; an ACK releasing 40 bytes wakes it;
    `poll_close` parks until the FIN is acknowledged -/
example : (WriteWaiter.run { cap := 100 } [.poll (.send 100), .poll (.send 5)]).waiter = some false ∧
    (WriteWaiter.step (WriteWaiter.run { cap := 100 } [.poll (.send 100), .poll (.send 5)]) (.ack 40 false false)).2 = true ∧
    (WriteWaiter.run { cap := 100 } [.poll (.send 100), .poll .close, .ack 100 false false]).waiter = some true ∧
    (WriteWaiter.step (WriteWaiter.run { cap := 100 } [.poll (.send 100), .poll .close, .ack 100 false false]) (.ack 0 true false)).2 = true := by
  decide

/-- REMARK (model fact; code `receive_stream.rs` l.833 vs l.477–529): with a low watermark above what will ever
    arrive the stored reader would wait for nothing — 5 bytes + FIN buffered, reader asks for ≥ 8: parked, all data
    received, no further wake-up.  NOT reachable through the public stream API, which never sets a low watermark
    (`Read.PublicOp`; `s2n-quic/src/stream/receive.rs` only uses `with_high_watermark`). -/
example : let s := ReadWaiter.run { fcWatermark := 1000 } [.onData 5 (some 5), .pollRead 8 100]
    s.waiter = some 8 ∧ ReadWaiter.allReceived s = true ∧ ReadWaiter.blocked s 8 = false := by decide

open OpenWaiters in
/-- the open-stream waiters (`LocalInitiated::wakers`): what DOES hold over every history —
    (1) the token bookkeeping is exact: the parked tasks hold the consecutive tokens `expired+1 … counter-1`
        in list order, so every parked task's token indexes its own waker slot;
    (2) every operation that raises the available capacity (`on_close_stream`, `on_max_streams`) wakes, in the same
        step, the `min(#parked, capacity)` LONGEST-waiting registered wakers.
    It is only PARTIAL: it does not imply that a parked task is released when capacity is available — see
    `open_waiter_lost_wakeup_counterexample`. -/
theorem open_waiters_partial (ml pl : Nat) (ops : List Op) :
    let s := ops.foldl (fun s op => (step s op).1) ({ maxLocal := ml, peerLimit := pl } : State)
    (s.isClosed = false → Open.TokInv s ∧ ∀ i (hi : i < s.wakers.length), tokenIndex (s.wakers[i]) s.expired = some i) ∧
    (∀ l, (onMaxStreams s l).2 = if s.peerLimit ≥ l then [] else
        s.wakers.take (min s.wakers.length (capacity { s with peerLimit := l }))) ∧
    ((onCloseStream s).2 = if s.closed < s.opened then
        s.wakers.take (min s.wakers.length (capacity { s with closed := s.closed + 1 })) else []) := by
  refine ⟨?_, ?_, ?_⟩
  · intro hc
    have closed_sticky : ∀ (s : State) (op : Op), s.isClosed = true → (step s op).1.isClosed = true := by
      intro s op h
      cases op <;> simp [step, pollOpen, onCloseStream, onMaxStreams, wakeUnblocked, close] <;> (repeat' split) <;> simp_all
    have : ∀ (l : List Op) (s : State), Open.TokInv s →
        (l.foldl (fun s op => (step s op).1) s).isClosed = false → Open.TokInv (l.foldl (fun s op => (step s op).1) s) := by
      intro l
      induction l with
      | nil => intro s h _; exact h
      | cons op l ih =>
        intro s h hcl
        simp only [List.foldl_cons] at hcl ⊢
        by_cases hx : (step s op).1.isClosed = true
        · exfalso
          have : ∀ (l : List Op) (s : State), s.isClosed = true → (l.foldl (fun s op => (step s op).1) s).isClosed = true := by
            intro l; induction l with
            | nil => intro s h; exact h
            | cons o l ih2 => intro s h; exact ih2 _ (closed_sticky s o h)
          rw [this l _ hx] at hcl; cases hcl
        · have hx' : (step s op).1.isClosed = false := by cases h' : (step s op).1.isClosed <;> simp_all
          exact ih _ (Open.tok_step s op h hx') hcl
    have ht := this ops _ (Open.tok_init ml pl) hc
    exact ⟨ht, fun i hi => Open.tok_index _ ht i hi⟩
  · intro l
    simp only [onMaxStreams, wakeUnblocked]
    split <;> rfl
  · simp only [onCloseStream, wakeUnblocked]
    split <;> rfl

open OpenWaiters in
/-- COUNTEREXAMPLE to `no_parked_without_wakeup` for the open-stream waiters, in the model of
    `poll_open_stream` / `wake_unblocked` (peer limit 1, tasks A and B on their own connection handles):

      1. a stream is opened (capacity 0);  2. A polls → parked with token 1;  3. B polls → parked with token 2;
      4. MAX_STREAMS 2 → capacity 1, `wake_unblocked` wakes A (token 1);
      5. B polls BEFORE A runs (any unrelated wake-up of B's task, e.g. a `select!`/`join!` sibling) → capacity 1 ⇒
         `Ready`, B opens the stream; its waker slot stays in `wakers` (the code only clears the token);
      6. A runs and polls → capacity 0 → parked again at the BACK (token 3), behind B's stale slot;
      7. MAX_STREAMS 3 → capacity 1, `wake_unblocked` wakes the front slot = B's stale waker.

    Final state: A is parked (`wakers = [3]`), one stream of capacity is available, the wake-ups of the last step
    went to token 2 only, and no timer is involved: A stays parked until some LATER stream closes or limit grows. -/
theorem open_waiter_lost_wakeup_counterexample :
    let ops : List Op := [.pollOpen 0, .pollOpen 0, .pollOpen 0, .maxStreams 2, .pollOpen 2, .pollOpen 1, .maxStreams 3]
    let trace := ops.foldl (fun (acc : State × List (List Nat × Nat × Bool)) op =>
      let r := step acc.1 op; (r.1, acc.2 ++ [r.2])) (({ maxLocal := 100, peerLimit := 1 } : State), [])
    -- per step: (tasks woken, token handed back, stream opened)
    trace.2 = [([], 0, true), ([], 1, false), ([], 2, false), ([1], 0, false), ([], 0, true), ([], 3, false), ([2], 0, false)] ∧
    trace.1.wakers = [3] ∧ capacity trace.1 = 1 ∧ trace.1.isClosed = false := by
  decide

end WakersSec

/-! ## liveness skeleton -/
section FairSec
open Quic.Compose.FairRound Quic.Proofs.Lemmas.FairRound

/-- `progress_fair_round`: in the composed abstract model (stream bytes, pending FIN, the real MAX_* value
    synchronisers, and the recovery timers through the consequence of `pto_armed_inv` recorded in `WF`), ONE
    fault-free fair round — all armed timers fire, every transmittable frame is transmitted, delivered and
    acknowledged — preserves consistency and STRICTLY decreases the measure
    `cost = unacknowledged bytes + pending FIN + unsynced limit updates`, unless it is already 0.
    (Liveness for this one schedule class of the MODEL; not a statement about the real executor.) -/
theorem progress_fair_round (s : Sys) (h : WF s) :
    WF (round s) ∧ (cost s > 0 → cost (round s) < cost s) ∧ (cost s = 0 → cost (round s) = 0) := by
  have := round_props s h
  refine ⟨this.1, ?_, ?_⟩
  · intro hp; rcases this.2 with h1 | h1 <;> omega
  · intro hz; rcases this.2 with h1 | h1 <;> omega

/-- … hence finitely many fair rounds complete the transfer: after `cost s` rounds nothing is owed —
    every written byte acknowledged, the FIN acknowledged, every limit update synchronised. -/
theorem fair_rounds_complete (s : Sys) (h : WF s) :
    cost (rounds (cost s) s) = 0 ∧ (rounds (cost s) s).toSend = 0 ∧ (rounds (cost s) s).inFlight = 0 ∧
    (rounds (cost s) s).fin ≠ .pending ∧ pendingSyncs (rounds (cost s) s).syncs = 0 := by
  have hc := (rounds_complete (cost s) s h (Nat.le_refl _)).1
  generalize rounds (cost s) s = X at hc ⊢
  have hc' : X.toSend + X.inFlight + finCost X.fin + pendingSyncs X.syncs = 0 := hc
  refine ⟨hc, by omega, by omega, ?_, by omega⟩
  intro hf
  rw [hf] at hc'
  simp [finCost] at hc'

/-- the hypothesis `WF.armed` (= what `pto_armed_inv` provides) is NECESSARY: with data in flight and no timer
    armed a fair round changes nothing that matters — the measure does not decrease -/
example : cost (round { inFlight := 1200, timerArmed := false }) = cost ({ inFlight := 1200, timerArmed := false } : Sys) := by
  decide

/-- non-vacuity: 3000 bytes (2400 of them in flight and lost in the faulty period), a pending FIN, a lost
    MAX_DATA update; window 1200 per round: cost 3002 → 1801 → 601 → 0 -/
def exSys : Sys :=
  { toSend := 600, inFlight := 2400, fin := .pending, timerArmed := true, nextPn := 5, window := 1200,
    syncs := [{ latest := 70000, ackdUpTo := 50000, threshold := 10000, delivery := .inFlight 70000 4 }] }

example : WF exSys := by
  refine ⟨fun _ => rfl, (fun pn h => by cases h), ?_, by decide⟩
  intro y hy v pn hd
  simp only [exSys, List.mem_singleton] at hy
  subst hy
  cases hd
  decide
example : (cost exSys, cost (round exSys), cost (rounds 2 exSys), cost (rounds 3 exSys)) = (3002, 1801, 601, 0) ∧
    (rounds 3 exSys).fin = .acked ∧ (rounds 3 exSys).syncs.map (·.ackdUpTo) = [70000] := by decide

end FairSec

end Quic.Proofs.C02
