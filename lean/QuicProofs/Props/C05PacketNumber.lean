import QuicModel.Codec.PacketNumber
import QuicProofs.Lemmas.PacketNumber
/-
  C05 (packet-number field of the packet headers): the 1–4 byte truncated packet number and the
  two length bits of the first header byte — total decoding, round trip, RFC 9000 §17.1 /
  §17.2 / §17.3.1 layout. (The reconstruction theorems are in Props/C08PacketNumber.lean.)
-/
namespace Quic.Proofs.C05
open Quic Quic.Codec.PacketNumber Quic.Proofs.PacketNumber

/-- the encoder writes exactly `bytesize` (= 1 + the two length bits) bytes -/
theorem pn_encode_size (t : Truncated) : (encodeTruncated t).length = bytesize t.len := by
  unfold encodeTruncated; exact beBytes_length _ _

/-- every byte the encoder writes is a byte -/
theorem pn_encode_bytes_ok (t : Truncated) : BytesOk (encodeTruncated t) := by
  unfold encodeTruncated
  generalize bytesize t.len = n
  intro x hx
  induction n with
  | zero => simp [beBytes] at hx
  | succ n ih =>
    simp only [beBytes, List.mem_cons] at hx
    rcases hx with h | h
    · subst h; exact Nat.mod_lt _ (by decide)
    · exact ih h

/-- wire round trip: whatever length the first byte's two low bits announce, decoding the emitted
    bytes (followed by anything) gives back the truncated number and leaves the rest untouched;
    the upper six bits of the first byte are irrelevant -/
theorem pn_wire_roundtrip (t : Truncated) (rest : List Nat) (hi : Nat) (ht : WF t) :
    decodeTruncated (fromPacketTag (hi * 4 + intoPacketTagMask t.len)) (encodeTruncated t ++ rest)
      = some (t, rest) := by
  obtain ⟨hlen, hv⟩ := ht
  have htag : fromPacketTag (hi * 4 + intoPacketTagMask t.len) = t.len := by
    unfold fromPacketTag lenMask intoPacketTagMask
    rw [show (3 : Nat) = 2 ^ 2 - 1 from rfl, Nat.and_two_pow_sub_one_eq_mod]
    omega
  rw [htag]
  unfold decodeTruncated
  have hl := pn_encode_size t
  simp only [List.length_append, hl]
  rw [if_neg (by omega)]
  rw [List.take_left' hl, List.drop_left' hl]
  unfold encodeTruncated
  rw [beVal_beBytes, ← two_pow_bitsize, Nat.mod_eq_of_lt hv]

/-- length bits: `PacketNumberLen` ↔ the two least significant bits of the first header byte,
    exactly as RFC 9000 §17.2 / §17.3.1 ("one less than the length of the Packet Number field in
    bytes"), for every first byte -/
theorem pn_len_eq_rfc_first_byte (b : Nat) :
    bytesize (fromPacketTag b) = Rfc.PacketNumber.pnLenOfFirstByte b := by
  unfold fromPacketTag lenMask bytesize Rfc.PacketNumber.pnLenOfFirstByte
  rw [show (3 : Nat) = 2 ^ 2 - 1 from rfl, Nat.and_two_pow_sub_one_eq_mod]

theorem pn_len_tag_roundtrip (len : Nat) (h : len ≤ 3) :
    fromPacketTag (intoPacketTagMask len) = len := by
  unfold fromPacketTag lenMask intoPacketTagMask
  rw [show (3 : Nat) = 2 ^ 2 - 1 from rfl, Nat.and_two_pow_sub_one_eq_mod]
  omega

theorem pn_from_tag_le (b : Nat) : fromPacketTag b ≤ 3 := by
  unfold fromPacketTag lenMask
  rw [show (3 : Nat) = 2 ^ 2 - 1 from rfl, Nat.and_two_pow_sub_one_eq_mod]
  omega

/-- totality of the decoder: it fails exactly on a short buffer, otherwise consumes exactly the
    announced number of bytes and yields a well-formed truncated number -/
theorem pn_decode_total (len : Nat) (b : List Nat) (hb : BytesOk b) (hlen : len ≤ 3) :
    (decodeTruncated len b = none ↔ b.length < bytesize len) ∧
      ∀ t r, decodeTruncated len b = some (t, r) →
        WF t ∧ t.len = len ∧ r = b.drop (bytesize len) ∧ b = encodeTruncated t ++ r := by
  unfold decodeTruncated
  constructor
  · by_cases h : b.length < bytesize len
    · simp [h]
    · simp [h]
  · intro t r h
    by_cases hs : b.length < bytesize len
    · simp [hs] at h
    · simp only [hs, if_false, Option.some.injEq, Prod.mk.injEq] at h
      obtain ⟨ht, hr⟩ := h
      subst ht
      have htake : BytesOk (b.take (bytesize len)) := fun x hx => hb x (List.mem_of_mem_take hx)
      have hlt : (b.take (bytesize len)).length = bytesize len := by
        rw [List.length_take]; omega
      have hv := beVal_lt _ htake
      rw [hlt] at hv
      refine ⟨⟨hlen, ?_⟩, rfl, hr.symm, ?_⟩
      · simp only; rw [two_pow_bitsize]; exact hv
      · rw [← hr]
        unfold encodeTruncated
        simp only
        have := beBytes_beVal _ htake
        rw [hlt] at this
        rw [this, List.take_append_drop]

/-- the bytes put on the wire for a truncated packet number are exactly RFC 9000 A.2's
    "num_bytes least significant bytes" of the full packet number, in network byte order -/
theorem pn_truncated_bytes_eq_rfc (pn la : Nat) (t : Truncated) (h : truncate pn la = some t) :
    encodeTruncated t = Rfc.PacketNumber.encode pn (bytesize t.len) := by
  rw [truncate_cases] at h
  repeat' split at h
  all_goals first
    | (exfalso; simp only [reduceCtorEq] at h; done)
    | (simp only [Option.some.injEq] at h; subst h
       simp [encodeTruncated, bytesize, beBytes, Rfc.PacketNumber.encode, List.range_succ]
       try omega)

/-- header decoding of a packet number can not panic: for every largest number and every truncated
    number a decoder can produce, `TruncatedPacketNumber::expand` returns a packet number in range -/
theorem pn_expand_total (L : Nat) (t : Truncated) (hL : L ≤ maxPn) (ht : WF t) :
    ∃ pn, expand L t = some pn ∧ pn ≤ maxPn := by
  refine ⟨_, decode_eq_arith L t hL ht, ?_⟩
  rcases bitsize_cases ht.1 with h | h | h | h <;> rw [h]
  · exact le_max_8 L _
  · exact le_max_16 L _
  · exact le_max_24 L _
  · exact le_max_32 L _

-- non-vacuity
example : decodeTruncated (fromPacketTag 0xc1) (encodeTruncated ⟨1, 0x9b32⟩ ++ [7, 7]) = some (⟨1, 0x9b32⟩, [7, 7]) := by decide
example : encodeTruncated ⟨2, 0xace8fe⟩ = [0xac, 0xe8, 0xfe] := by decide
example : decodeTruncated 3 [1, 2, 3] = none := by decide

end Quic.Proofs.C05
