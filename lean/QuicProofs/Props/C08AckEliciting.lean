import QuicModel.Rfc.FrameClasses
/-
  C08 (which packets must be acknowledged): RFC 9002 §2 classification. The bridge
  `QuicProofs.Bridge.FrameClasses` ties the table to the Rust impls on every run.
-/
namespace Quic.Proofs.C08
open Quic.Rfc.FrameClasses

/-- exactly ACK, PADDING and CONNECTION_CLOSE are not ack-eliciting -/
theorem ack_eliciting_iff (f : String) (hf : f ∈ allFrames) :
    ackEliciting f = true ↔ f ≠ "Ack" ∧ f ≠ "Padding" ∧ f ≠ "ConnectionClose" := by
  revert f
  decide

/-- a packet must be acknowledged iff it carries a frame other than ACK / PADDING / CONNECTION_CLOSE -/
theorem packet_ack_eliciting_iff (frames : List String) :
    packetAckEliciting frames = true ↔ ∃ f ∈ frames, ackEliciting f = true := by
  simp [packetAckEliciting, List.any_eq_true]

example : packetAckEliciting ["Ack", "Padding", "Datagram"] = true := by decide
example : packetAckEliciting ["Ack", "Padding", "ConnectionClose"] = false := by decide

end Quic.Proofs.C08
