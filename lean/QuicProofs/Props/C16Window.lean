import QuicModel.Data.SlidingWindow
namespace Quic.Proofs.C16
open Quic.Data.SlidingWindow

theorem window_width_is_129 : windowWidth = 129 := by decide

end Quic.Proofs.C16
