import QuicModel.Data.SlidingWindow
import QuicProofs.Lemmas.SlidingWindow
/-
  C16 (duplicate-detection window), also the at-most-once lemma C06 and C01 rely on.

  `SlidingWindow` (QuicModel/Data/SlidingWindow.lean) transcribes
  quic/s2n-quic-core/src/packet/number/sliding_window.rs; `RefWindow` is a receiver that remembers
  every accepted packet number in a plain list.  All statements are about *arbitrary histories*
  (`ops : List Op`, any packet numbers, any order) started from `SlidingWindow::default()`.

  `accepted init ops` is the set "S" of the property: the packet numbers for which the window's own
  `insert` has answered `Ok` during the history.  The edge the CODE has (WINDOW_WIDTH = 129):
  numbers up to distance 128 below the right edge are still told apart, distance ≥ 129 is `TooOld`.
-/
namespace Quic.Proofs.C16
open Quic.Data Quic.Data.SlidingWindow
open Quic.Proofs.Lemmas.SlidingWindow

/-- Refinement: on every history the window gives exactly the answers of a plain set of accepted
    packet numbers (with the "too old" rule at distance ≥ 129 from the largest one). -/
theorem window_refines_set (ops : List Op) :
    (run init ops).2 = (RefWindow.run RefWindow.init ops).2 :=
  (run_sim rel_init ops).1

/-- … and the reference set is nothing but the numbers the window itself accepted. -/
theorem window_ref_set_is_accepted (ops : List Op) :
    (RefWindow.run RefWindow.init ops).1.seen = (accepted init ops).reverse := by
  have := ref_seen_eq rel_init ops
  simpa [RefWindow.init] using this

/-- The right edge is the largest accepted packet number. -/
theorem window_right_edge_is_max (ops : List Op) :
    (run init ops).1.rightEdge = RefWindow.maxOf (accepted init ops).reverse :=
  (rel_accepted ops).edge

/-- Abstraction of the state: after any history, bit `d-1` of the bitfield (1 ≤ d ≤ 128) is set
    exactly when `right_edge - d` was accepted; the bitfield fits in 128 bits. -/
theorem window_bits_exact (ops : List Op) (d : Nat) (h1 : 1 ≤ d) (h2 : d ≤ 128) :
    ((run init ops).1.window.testBit (d - 1) = true ↔
      ∃ re, (run init ops).1.rightEdge = some re ∧ d ≤ re ∧ re - d ∈ accepted init ops) ∧
    (run init ops).1.window < 2 ^ 128 := by
  have h := rel_accepted ops
  refine ⟨?_, h.bound⟩
  have := h.bits d h1 h2
  simpa using this

/-- After any history: `check pn = Duplicate` exactly when `pn` was accepted before and lies at
    most 128 below the right edge. -/
theorem window_check_duplicate_iff (ops : List Op) (pn : Nat) :
    check (run init ops).1 pn = .error .duplicate ↔
      pn ∈ accepted init ops ∧ ∃ re, (run init ops).1.rightEdge = some re ∧ pn ≤ re ∧ re - pn ≤ 128 := by
  have h := rel_accepted ops
  have hc := check_eq_classify h pn
  have he := h.edge
  unfold RefWindow.classify RefWindow.rightEdge at hc
  cases hre : (run init ops).1.rightEdge with
  | none =>
    rw [hre] at he
    simp only [← he] at hc
    constructor
    · intro hd; rw [hd] at hc; cases hc
    · rintro ⟨_, re, hr, _⟩; cases hr
  | some re =>
    rw [hre] at he
    simp only [← he] at hc
    constructor
    · intro hd
      rw [hd] at hc
      simp only [Res.ofExcept] at hc
      by_cases h1 : re < pn
      · simp [h1] at hc
      · by_cases h2 : RefWindow.reach < re - pn
        · simp [h1, h2] at hc
        · by_cases h3 : pn ∈ (accepted init ops).reverse
          · unfold RefWindow.reach at h2
            exact ⟨by simpa using h3, re, rfl, by omega, by omega⟩
          · simp [h1, h2] at hc
            exact absurd hc (by simpa using h3)
    · rintro ⟨hm, re', hr, hle, hw⟩
      simp only [Option.some.injEq] at hr
      subst hr
      have h1 : ¬ re < pn := by omega
      have h2 : ¬ RefWindow.reach < re - pn := by unfold RefWindow.reach; omega
      have h3 : pn ∈ (accepted init ops).reverse := by simpa using hm
      simp only [h1, h2, h3, if_false, if_true] at hc
      cases hx : check (run init ops).1 pn with
      | ok u => rw [hx] at hc; cases hc
      | error e => cases e with
        | duplicate => rfl
        | tooOld => rw [hx] at hc; cases hc

/-- After any history: `check pn = TooOld` exactly when `pn` lies 129 or more below the right edge. -/
theorem window_check_tooOld_iff (ops : List Op) (pn : Nat) :
    check (run init ops).1 pn = .error .tooOld ↔
      ∃ re, (run init ops).1.rightEdge = some re ∧ pn + 129 ≤ re := by
  have h := rel_accepted ops
  have hc := check_eq_classify h pn
  have he := h.edge
  unfold RefWindow.classify RefWindow.rightEdge at hc
  cases hre : (run init ops).1.rightEdge with
  | none =>
    rw [hre] at he
    simp only [← he] at hc
    constructor
    · intro hd; rw [hd] at hc; cases hc
    · rintro ⟨re, hr, _⟩; cases hr
  | some re =>
    rw [hre] at he
    simp only [← he] at hc
    constructor
    · intro hd
      rw [hd] at hc
      simp only [Res.ofExcept] at hc
      refine ⟨re, rfl, ?_⟩
      by_cases h1 : re < pn
      · simp [h1] at hc
      · by_cases h2 : RefWindow.reach < re - pn
        · unfold RefWindow.reach at h2; omega
        · simp only [h1, h2, if_false] at hc
          split at hc <;> cases hc
    · rintro ⟨re', hr, hle⟩
      simp only [Option.some.injEq] at hr
      subst hr
      have h1 : ¬ re < pn := by omega
      have h2 : RefWindow.reach < re - pn := by unfold RefWindow.reach; omega
      simp only [h1, h2, if_false, if_true] at hc
      cases hx : check (run init ops).1 pn with
      | ok u => rw [hx] at hc; cases hc
      | error e => cases e with
        | duplicate => rw [hx] at hc; cases hc
        | tooOld => rfl

/-- `insert` answers like `check` does beforehand (`Ok` ↔ `Ok`, same error kind), in every state
    a history can reach. -/
theorem window_insert_result_eq_check (ops : List Op) (pn : Nat) :
    Res.ofInsertOut (insertInner (run init ops).1 pn).2 = Res.ofExcept (check (run init ops).1 pn) := by
  have h := rel_accepted ops
  rw [(insert_rel h pn).1, check_eq_classify h pn]

/-- `insert pn = Ok` only for a packet number that was never accepted before. -/
theorem window_insert_ok_fresh (ops : List Op) (pn : Nat)
    (hok : Res.ofInsertOut (insertInner (run init ops).1 pn).2 = .ok) : pn ∉ accepted init ops := by
  have h := rel_accepted ops
  rw [(insert_rel h pn).1] at hok
  have := classify_ok_not_mem hok
  simpa using this

/-- At most once: in any history each packet number is answered `Ok` by `insert` at most once
    (the list of accepted numbers has no repetition). Used by C06 (`replay_at_most_once`) and C01. -/
theorem window_at_most_once (ops : List Op) : (accepted init ops).Nodup :=
  (accepted_nodup rel_init ops).1

/-- the same, counted: no packet number occurs twice among the accepted ones -/
theorem window_at_most_once_count (ops : List Op) (pn : Nat) : (accepted init ops).count pn ≤ 1 :=
  List.nodup_iff_count.mp (window_at_most_once ops) pn

/-- No false duplicate: a packet number that was never accepted is never reported `Duplicate`,
    neither by `check` nor by `insert` (it is `Ok` or, 129 or more below the right edge, `TooOld`). -/
theorem window_never_false_duplicate (ops : List Op) (pn : Nat) (hfresh : pn ∉ accepted init ops) :
    check (run init ops).1 pn ≠ .error .duplicate ∧
    (insertInner (run init ops).1 pn).2 ≠ .err .duplicate := by
  have hc : check (run init ops).1 pn ≠ .error .duplicate := by
    intro hd
    exact hfresh ((window_check_duplicate_iff ops pn).mp hd).1
  refine ⟨hc, ?_⟩
  intro hi
  have := window_insert_result_eq_check ops pn
  rw [hi] at this
  cases hx : check (run init ops).1 pn with
  | ok u => rw [hx] at this; cases this
  | error e => cases e with
    | duplicate => exact hc hx
    | tooOld => rw [hx] at this; cases this

/-- Completeness: a never-accepted packet number that is right of the right edge, or at most 128
    below it, or arrives at an empty window, is accepted. -/
theorem window_fresh_in_window_accepted (ops : List Op) (pn : Nat) (hfresh : pn ∉ accepted init ops)
    (hwin : ∀ re, (run init ops).1.rightEdge = some re → re ≤ pn + 128) :
    Res.ofInsertOut (insertInner (run init ops).1 pn).2 = .ok := by
  rw [window_insert_result_eq_check]
  cases hx : check (run init ops).1 pn with
  | ok u => rfl
  | error e => cases e with
    | duplicate => exact absurd ((window_check_duplicate_iff ops pn).mp hx).1 hfresh
    | tooOld =>
      obtain ⟨re, hr, hle⟩ := (window_check_tooOld_iff ops pn).mp hx
      have := hwin re hr
      omega

/-- The `assert!(removed == 0)` of `insert_with_evicted_inner` never fires. -/
theorem window_insert_never_panics (ops : List Op) : Res.panic ∉ (run init ops).2 := by
  rw [window_refines_set]
  generalize RefWindow.init = r
  induction ops generalizing r with
  | nil => simp [RefWindow.run]
  | cons op ops ih =>
    simp only [RefWindow.run, List.mem_cons, not_or]
    refine ⟨?_, ih _⟩
    cases op with
    | check pn =>
      simp only [RefWindow.step, RefWindow.classify]
      repeat' split
      all_goals simp
    | insert pn =>
      simp only [RefWindow.step]
      have : RefWindow.classify r pn ≠ .panic := by
        unfold RefWindow.classify
        repeat' split
        all_goals simp
      cases hc : RefWindow.classify r pn <;> simp_all

/-- `insert` is `insert_with_evicted` with the evicted set dropped: same state change, same
    `Ok`/error answer (so every theorem about `insertInner` is a theorem about `insert`). -/
theorem window_insert_eq (s : State) (pn : Nat) :
    (SlidingWindow.insert s pn).1 = (insertInner s pn).1 ∧
    (∀ ev, (insertInner s pn).2 = .ok ev → (SlidingWindow.insert s pn).2 = .ok ()) ∧
    (∀ e, (insertInner s pn).2 = .err e → (SlidingWindow.insert s pn).2 = .error e) := by
  unfold SlidingWindow.insert
  cases h : insertInner s pn with
  | mk s' o => cases o <;> simp

/-- A rejected `insert` leaves the window unchanged (what the crate's debug check asserts). -/
theorem window_rejected_insert_unchanged (ops : List Op) (pn : Nat) (e : Err)
    (herr : (insertInner (run init ops).1 pn).2 = .err e) :
    (insertInner (run init ops).1 pn).1 = (run init ops).1 := by
  have h := rel_accepted ops
  generalize (run init ops).1 = s at h herr ⊢
  cases hre : s.rightEdge with
  | none =>
    unfold insertInner at herr
    rw [pos_empty hre] at herr
    cases herr
  | some re =>
    by_cases h1 : re < pn
    · obtain ⟨_, ev, hout⟩ := insertInner_right hre h1
      rw [hout] at herr; cases herr
    · by_cases h2 : pn = re
      · subst h2; unfold insertInner; rw [pos_rightEdge hre]
      · by_cases h3 : pn + 129 ≤ re
        · unfold insertInner; rw [pos_left hre h3]
        · have hlt : pn < re := by omega
          have hw : re ≤ pn + 128 := by omega
          rw [insertInner_within hre hlt hw] at herr ⊢
          cases hb : s.window.testBit (re - pn - 1) with
          | false => rw [hb] at herr; simp at herr
          | true =>
            simp only [if_true]
            have hsame : s.window ||| bitOf (re - pn) = s.window := by
              apply Nat.eq_of_testBit_eq
              intro i
              rw [Nat.testBit_or, testBit_bitOf]
              by_cases hi : re - pn - 1 = i
              · subst hi; rw [hb]; rfl
              · simp [hi]
            rw [hsame]

/-! ### non-vacuity and the exact edge on concrete histories -/

/-- the repo's `insert_at_edge` scenario and the two sides of the edge: after accepting 0 and 128,
    number 0 (distance 128) is still a detectable duplicate; after 129 it is too old -/
example :
    (run init [.insert 0, .insert 128, .insert 0, .check 0, .insert 129, .insert 0, .check 0, .insert 1, .insert 1]).2
      = [.ok, .ok, .duplicate, .duplicate, .ok, .tooOld, .tooOld, .ok, .duplicate] := by decide

example : accepted init [.insert 0, .insert 128, .insert 0, .insert 129, .insert 0, .insert 1, .insert 1]
    = [0, 128, 129, 1] := by decide

/-- hypotheses of `window_never_false_duplicate` / `window_fresh_in_window_accepted` are satisfiable:
    5 was never accepted and is within the window of right edge 130 -/
example : 5 ∉ accepted init [.insert 7, .insert 130, .insert 2] ∧
    (run init [.insert 7, .insert 130, .insert 2]).1.rightEdge = some 130 ∧
    Res.ofInsertOut (insertInner (run init [.insert 7, .insert 130, .insert 2]).1 5).2 = .ok ∧
    Res.ofExcept (check (run init [.insert 7, .insert 130, .insert 2]).1 1) = .tooOld ∧
    Res.ofExcept (check (run init [.insert 7, .insert 130, .insert 2]).1 2) = .duplicate := by decide

/-- a jump larger than the window (and larger than 2^32) resets the bitfield -/
example : (run init [.insert 3, .insert 4294967297, .check 3, .check 4294967297, .check 4294967296]).2
    = [.ok, .ok, .tooOld, .duplicate, .ok] := by decide

end Quic.Proofs.C16
