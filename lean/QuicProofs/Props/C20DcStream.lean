import QuicModel.Dc.StreamRecv
import QuicModel.Dc.StreamSend
import QuicProofs.Props.C01Reassembly
import QuicProofs.Lemmas.DcStreamRecv
import QuicProofs.Lemmas.DcStreamSend
/-
  C20 — "over s2n-quic-dc streams the bytes one application reads are exactly the bytes the other wrote,
  in order and complete at end of stream, under loss, duplication and reordering …; a stream whose peer
  vanished fails with an error within its idle timeout".

  The composition theorem for dc is an INSTANCE of the QUIC one (C01 `reasm_prefix`/`reasm_complete`):

    sender skeleton   (`Dc.StreamSend`)  ⊢ `dc_frames_consistent`: in every history of
        write / load / ack / loss detection / MAX_DATA / congestion-window change / flow release /
        PTO / (re)transmission / detach / error, every packet ever put on the wire — first
        transmission, retransmission or probe — carries exactly the written bytes at its offset, ends
        inside the written string, carries FIN only at its end, and lies within the peer's MAX_DATA;
        a first transmission also lies within the flow offset the application was given, and every
        flow offset ever released is min(cca offset, local offset, peer MAX_DATA).
    network           anything: loss, duplication, reordering, forged/corrupted packets (`authentic =
        false`), replays of old packets — `evs` below is an arbitrary list.
    receiver skeleton (`Dc.StreamRecv`)  ⊢ a packet that fails authentication or is a duplicate leaves
        the reassembly buffer unchanged (the fallible-reader rollback), each packet number is accepted at
        most once per space (`dc_dedupe_at_most_once`), the reads are a prefix of the written string
        (`dc_reasm_prefix`), and are the whole string once the stream reports `DataRead` = clean EOF
        (`dc_reasm_complete`); while data is expected the idle timer is armed, and when nothing was
        accepted for the idle timeout the receiver is in `ResetRead` with `IdleTimeout`
        (`dc_idle_fails`).

  LEVEL: PARTIAL. `Dc.StreamSend`/`Dc.StreamRecv` are skeletons (their file headers say exactly which
  Rust functions each definition abstracts); packet encoding/AEAD is the ideal-primitive assumption
  `authentic`; the TCP transport, the tokio/bach runtime and real time are outside the model. The
  tie to the code is T (harness/vh-dc `dc_stream_sim`: real client+server in the bach simulation
  with an adversarial network, and over loopback TCP) plus G (tools/extractors/dc_stream.py).
-/
namespace Quic.Proofs.C20
open Quic.Data Quic.Data.RefBuf
open Quic.Dc
open Quic.Proofs.DcStreamRecvLemmas Quic.Proofs.DcStreamSendLemmas
open Quic.Recovery.Time (hasElapsed timerExpired)

/-! ## receiver -/

/-- a receiver created at `now` with the given idle timeout (µs) and flow-control parameters -/
abbrev recvInit (now idleTimeout remoteMaxData localRecvMaxData : Nat) : StreamRecv.Trace :=
  StreamRecv.Trace.init now idleTimeout remoteMaxData localRecvMaxData

/-- DEDUPE — in every history (any packets, any order, forged ones included) each packet number
    passes the duplicate filter at most once per packet-number space, and each packet's payload is
    committed to the reassembly buffer at most once. -/
theorem dc_dedupe_at_most_once (now it md w : Nat) (evs : List StreamRecv.Ev) :
    let t := StreamRecv.run (recvInit now it md w) evs
    t.acceptedStream.Nodup ∧ t.acceptedRecovery.Nodup ∧ t.committed.Nodup := by
  have hf := finv_run (finv_init now it md w) evs
  exact ⟨hf.nodupS, hf.nodupR, committed_nodup now it md w evs⟩

/-- ROLLBACK — a packet that fails authentication leaves the receiver exactly as it was — reassembly
    buffer, final size, duplicate filters, state machine, timers — whatever it claims (offset, FIN,
    length, packet number), and nothing of it reaches the application. -/
theorem dc_unauthentic_rollback (t : StreamRecv.Trace) (now : Nat) (p : StreamRecv.Packet) (h : p.authentic = false) :
    let t' := t.step (.packet now p)
    t'.recv = t.recv ∧ t'.reads = t.reads ∧ t'.bufEvs = t.bufEvs ∧ t'.committed = t.committed ∧
    t'.acceptedStream = t.acceptedStream ∧ t'.acceptedRecovery = t.acceptedRecovery := by
  simp [StreamRecv.Trace.step, unauthentic_noop t.recv now p h, StreamRecv.passesFilter, h]

/-- PREFIX (instance of C01 `reasm_prefix`) — whatever arrives at the receiver, in whatever order,
    with whatever duplicates, forged packets and read pattern: if the AUTHENTIC packets carry frames
    consistent with the sender's byte string `w` (which `dc_frames_consistent` shows for every packet
    the sender skeleton emits), then what the application has read is a prefix of `w`. -/
theorem dc_reasm_prefix (w : List Nat) (now it md win : Nat) (evs : List StreamRecv.Ev)
    (h : ∀ t p, StreamRecv.Ev.packet t p ∈ evs → p.authentic = true → Consistent w p.frame) :
    (StreamRecv.run (recvInit now it md win) evs).reads <+: w := by
  have hr := rinv_run (rinv_init now it md win) evs
  have hfr := frames_run (P := Consistent w) (t := recvInit now it md win) (by intro f hf; cases hf) evs h
  rw [hr.reads]
  exact C01.reasm_prefix w _ hfr

/-- COMPLETE (instance of C01 `reasm_complete`) — once the receiver's state machine is `DataRead`
    (the application's read returns the clean end of stream), the application has read exactly `w`. -/
theorem dc_reasm_complete (w : List Nat) (now it md win : Nat) (evs : List StreamRecv.Ev)
    (h : ∀ t p, StreamRecv.Ev.packet t p ∈ evs → p.authentic = true → Consistent w p.frame)
    (hd : (StreamRecv.run (recvInit now it md win) evs).recv.state = .dataRead) :
    (StreamRecv.run (recvInit now it md win) evs).reads = w := by
  have hr := rinv_run (rinv_init now it md win) evs
  have hfr := frames_run (P := Consistent w) (t := recvInit now it md win) (by intro f hf; cases hf) evs h
  have hc := dataRead_complete now it md win evs hd
  rw [hr.reads]
  rw [hr.buf] at hc
  exact C01.reasm_complete w _ hfr hc

/-- the same for a buffer that reports reading complete, whatever the state machine says -/
theorem dc_reasm_complete_buf (w : List Nat) (now it md win : Nat) (evs : List StreamRecv.Ev)
    (h : ∀ t p, StreamRecv.Ev.packet t p ∈ evs → p.authentic = true → Consistent w p.frame)
    (hc : isReadingComplete (StreamRecv.run (recvInit now it md win) evs).recv.buf = true) :
    (StreamRecv.run (recvInit now it md win) evs).reads = w := by
  have hr := rinv_run (rinv_init now it md win) evs
  have hfr := frames_run (P := Consistent w) (t := recvInit now it md win) (by intro f hf; cases hf) evs h
  rw [hr.reads]
  rw [hr.buf] at hc
  exact C01.reasm_complete w _ hfr hc

/-- IDLE TIMER ARMED — at every point of every history: while the receiver still expects data
    (`Recv | SizeKnown`) its idle timer is armed, at (time of the last accepted packet or creation) +
    idle timeout, and no error has been recorded. -/
theorem dc_idle_timer_armed (now it md win : Nat) (evs : List StreamRecv.Ev) :
    let t := StreamRecv.run (recvInit now it md win) evs
    t.recv.state.expectsData = true → t.recv.idleTimer = some (t.lastArm + it) ∧ t.recv.error = none := by
  intro t hx
  have hi := (iinv_run (iinv_init now it md win) evs).armed hx
  have ht := idleTimeout_run (recvInit now it md win) evs
  rw [ht] at hi
  exact hi

/-- IDLE FAILS — if, after any history, the receiver still expects data and neither it (since
    `lastArm`) nor the stream's other half (`lastPeerActivity`) has accepted a packet for the idle
    timeout, then `on_timeout` leaves it in `ResetRead` with the error `IdleTimeout`, which every
    later read reports (`check_error`); the timer is disarmed (nothing hangs on it). -/
theorem dc_idle_fails (now it md win : Nat) (evs : List StreamRecv.Ev) (tnow lastPeerActivity : Nat)
    (hx : (StreamRecv.run (recvInit now it md win) evs).recv.state.expectsData = true)
    (h1 : hasElapsed ((StreamRecv.run (recvInit now it md win) evs).lastArm + it) tnow = true)
    (h2 : hasElapsed (lastPeerActivity + it) tnow = true) :
    let r := StreamRecv.onTimeout (StreamRecv.run (recvInit now it md win) evs).recv tnow lastPeerActivity
    r.state = .resetRead ∧ r.error = some (.idleTimeout, true) ∧ StreamRecv.checkError r = some .idleTimeout ∧
    r.idleTimer = none ∧ r.shouldTransmit = false := by
  have ha := dc_idle_timer_armed now it md win evs hx
  have ht := idleTimeout_run (recvInit now it md win) evs
  exact idle_expires _ tnow lastPeerActivity it ht hx ha.1 ha.2 h1 h2

/-! ## sender -/

/-- FRAMES CONSISTENT — in every history of the sender skeleton, every packet ever put on the wire
    (first transmission by the application, retransmission of a stored segment under a new recovery
    packet number, PTO probe) is `Consistent` with the string written so far — its bytes are the
    written bytes at its offset, it ends inside the string, a FIN ends exactly at its end and is only
    sent once the application finished — and it ends within the peer's MAX_DATA. -/
theorem dc_frames_consistent (s0 : StreamSend.Send) (h0 : SInv ⟨s0, []⟩) (ops : List StreamSend.Op) :
    let t := StreamSend.run s0 ops
    ∀ wr ∈ t.emitted, Consistent t.send.written wr.frame ∧ (wr.frame.fin = true → t.send.finWritten = true) ∧
      wr.frame.end_ ≤ t.send.maxData := by
  intro t wr hw
  have hi := sinv_run h0 ops
  have hg := hi.emitted wr hw
  exact ⟨hg.1, hg.2, Nat.le_trans hg.1.2.1 hi.flow.2⟩

/-- … in particular from a freshly created sender (`State::new`) -/
theorem dc_frames_consistent_init (remoteMaxData localSendMaxData cwnd : Nat) (ops : List StreamSend.Op) :
    let t := StreamSend.run (StreamSend.init remoteMaxData localSendMaxData cwnd) ops
    ∀ wr ∈ t.emitted, Consistent t.send.written wr.frame ∧ wr.frame.end_ ≤ t.send.maxData := by
  intro t wr hw
  have := dc_frames_consistent _ (sinv_init remoteMaxData localSendMaxData cwnd) ops wr hw
  exact ⟨this.1, this.2.2⟩

/-- NEVER BEYOND THE FLOW OFFSET — a write hands out at most the flow credits the application holds:
    every packet it produces ends at or below the current `flow_offset` of the flow-control state. -/
theorem dc_write_within_flow_offset (s : StreamSend.Send) (data : List Nat) (fin : Bool) (mss : Nat) :
    ∀ wr ∈ (StreamSend.write s data fin mss).2.1, wr.frame.end_ ≤ s.flowOffset ∧ wr.recovery = false :=
  write_within_flow s data fin mss

/-- … and every flow offset the worker releases is `min(cca_offset, local_offset, peer max_data)` of
    the sender state at that moment, so in particular never above the peer's MAX_DATA. -/
theorem dc_flow_offset_is_min (s : StreamSend.Send) :
    (StreamSend.step s .release).1.flowOffset = min (min (StreamSend.ccaOffset s) (StreamSend.localOffset s)) s.maxData ∧
    (StreamSend.step s .release).1.flowOffset ≤ StreamSend.ccaOffset s ∧
    (StreamSend.step s .release).1.flowOffset ≤ StreamSend.localOffset s ∧
    (StreamSend.step s .release).1.flowOffset ≤ s.maxData := by
  refine ⟨rfl, ?_, ?_, ?_⟩ <;>
    (show min (min (StreamSend.ccaOffset s) (StreamSend.localOffset s)) s.maxData ≤ _; omega)

/-- the sender never exceeds the peer's MAX_DATA: after every history the written length and the
    released flow offset are within it -/
theorem dc_within_max_data (remoteMaxData localSendMaxData cwnd : Nat) (ops : List StreamSend.Op) :
    let t := StreamSend.run (StreamSend.init remoteMaxData localSendMaxData cwnd) ops
    t.send.written.length ≤ t.send.maxData ∧ t.send.flowOffset ≤ t.send.maxData := by
  intro t
  have hi := sinv_run (sinv_init remoteMaxData localSendMaxData cwnd) ops
  exact ⟨hi.flow.2, hi.flow.1⟩

/-! ## composition: sender skeleton → any network → receiver skeleton -/

/-- END TO END (skeleton level) — take ANY history of the sender, and ANY list of events at the
    receiver in which every authentic packet is one the sender emitted in that history (loss,
    duplication, reordering, delay and forged packets are all allowed). Then what the receiving
    application has read is a prefix of what the sending application wrote, and is exactly that once
    the receiver reports the end of the stream. -/
theorem dc_end_to_end (remoteMaxData localSendMaxData cwnd : Nat) (ops : List StreamSend.Op)
    (now it md win : Nat) (evs : List StreamRecv.Ev)
    (hnet : ∀ t p, StreamRecv.Ev.packet t p ∈ evs → p.authentic = true →
      ∃ wr ∈ (StreamSend.run (StreamSend.init remoteMaxData localSendMaxData cwnd) ops).emitted, wr.frame = p.frame) :
    let w := (StreamSend.run (StreamSend.init remoteMaxData localSendMaxData cwnd) ops).send.written
    let r := StreamRecv.run (recvInit now it md win) evs
    r.reads <+: w ∧ (r.recv.state = .dataRead → r.reads = w) := by
  intro w r
  have hc : ∀ t p, StreamRecv.Ev.packet t p ∈ evs → p.authentic = true → Consistent w p.frame := by
    intro t p hm ha
    obtain ⟨wr, hwr, he⟩ := hnet t p hm ha
    rw [← he]
    exact (dc_frames_consistent_init remoteMaxData localSendMaxData cwnd ops wr hwr).1
  exact ⟨dc_reasm_prefix w now it md win evs hc, dc_reasm_complete w now it md win evs hc⟩

/-! ## defects of /repo found by the C20 simulation: the upper half of the MTU range (≥ 16384)

  The property says "any MTU 1250..32k" (`stream::MAX_DATAGRAM_SIZE = 2^15`, bridged by
  `max_datagram_size_eq`). Three places compute in too small a type / reserve too little, all only
  reachable with `max_datagram_size ≥ 16384`; each is replayed on the real code by the simulation
  (signatures `dcstream:panic:…@…/recovery/bbr.rs`, `…/recovery/bbr/pacing.rs`,
  `dcstream:panic:position_N_exceeded_capacity_of_N@s2n-codec/src/encoder/buffer.rs`). -/

/-- `BbrCongestionController::minimum_window`: `(MIN_PIPE_CWND_PACKETS * max_datagram_size) as u32`
    where BOTH factors are `u16` — the product is taken in `u16` before the cast. `none` = overflow
    (panic with overflow checks, wrap-around without). -/
def bbrMinimumWindow? (maxDatagramSize : Nat) : Option Nat :=
  if 4 * maxDatagramSize < 2 ^ 16 then some (4 * maxDatagramSize) else none

/-- `bbr::pacing::Pacer::set_send_quantum`: `floor = max_datagram_size * 2` in `u16` -/
def bbrSendQuantumFloor? (maxDatagramSize : Nat) : Option Nat :=
  if 2 * maxDatagramSize < 2 ^ 16 then some (2 * maxDatagramSize) else none

/-- encoded size of a QUIC VarInt -/
def varintLen (v : Nat) : Nat := if v < 64 then 1 else if v < 16384 then 2 else if v < 2 ^ 30 then 4 else 8

/-- `packet::stream::encoder::encode_header`, payload part, for a packet without extra header and
    control data: with `cap` bytes left for (length prefix + payload) — the tag is already
    subtracted — the code takes `payload_len = cap − 2` (one byte of the unencoded empty `header_len`
    plus the `saturating_sub(1)` of "TODO figure out encoding size for the capacity") and then writes
    the VarInt prefix and the payload. `true` = it fits. -/
def payloadFits (cap : Nat) : Bool := decide (varintLen (cap - 2) + (cap - 2) ≤ cap)

/-- FULL-STRENGTH STATEMENT (false of the code): for every MTU a dc stream may be configured with
    (`1250 ≤ mtu ≤ 2^15`) the congestion controller's arithmetic does not overflow and a full-sized
    stream packet fits its datagram. COUNTEREXAMPLES: mtu = 16384 (minimum window), mtu = 32768 (send
    quantum floor), 16500 bytes of room (4-byte length prefix, 2 bytes too many). -/
theorem dc_mtu_range_counterexample :
    ¬ (∀ mtu, 1250 ≤ mtu → mtu ≤ 2 ^ 15 → (bbrMinimumWindow? mtu).isSome) ∧
    ¬ (∀ mtu, 1250 ≤ mtu → mtu ≤ 2 ^ 15 → (bbrSendQuantumFloor? mtu).isSome) ∧
    ¬ (∀ cap, 1250 ≤ cap → cap ≤ 2 ^ 15 → payloadFits cap = true) := by
  refine ⟨fun h => ?_, fun h => ?_, fun h => ?_⟩
  · have := h 16384 (by decide) (by decide); revert this; decide
  · have := h 32768 (by decide) (by decide); revert this; decide
  · have := h 16500 (by decide) (by decide); revert this; decide

/-- what does hold: the minimum window is fine exactly up to 16383, the send quantum floor up to
    32767, and a full packet fits exactly while its payload needs at most a 2-byte prefix -/
theorem dc_mtu_range_partial (mtu : Nat) :
    ((bbrMinimumWindow? mtu).isSome ↔ mtu ≤ 16383) ∧ ((bbrSendQuantumFloor? mtu).isSome ↔ mtu ≤ 32767) ∧
    (2 ≤ mtu → (payloadFits mtu = true ↔ mtu ≤ 16385)) := by
  refine ⟨?_, ?_, ?_⟩
  · unfold bbrMinimumWindow?; split <;> simp <;> omega
  · unfold bbrSendQuantumFloor?; split <;> simp <;> omega
  · intro h2
    unfold payloadFits varintLen
    simp only [decide_eq_true_eq]
    split
    · omega
    · split
      · omega
      · split <;> omega

/-! ## non-vacuity -/

/-- sender: write 5 bytes + FIN with mss 2 under a flow offset of 4 (only 4 bytes are accepted), load,
    more MAX_DATA, release, write the rest + FIN, load; the third packet is acknowledged, so the first
    is lost; PTO with 2 transmissions and a congestion budget of 1: 3 first transmissions, one
    retransmission of the stored first segment under recovery packet number 2 and one FIN probe at
    offset 5 are on the wire; all consistent with `[1,2,3,4,5]` -/
example :
    let s0 := StreamSend.init 4 100 100
    let ops : List StreamSend.Op :=
      [.write [1, 2, 3, 4, 5] true 2, .load, .maxData 10, .release, .write [5] true 2, .load,
       .ack false 2 2, .detectLost false 2, .timeout 2, .transmit 1]
    let t := StreamSend.run s0 ops
    t.send.written = [1, 2, 3, 4, 5] ∧ t.send.state = .dataSent ∧
    t.emitted = [⟨false, 0, ⟨0, [1, 2], false⟩⟩, ⟨false, 1, ⟨2, [3, 4], false⟩⟩, ⟨false, 2, ⟨4, [5], true⟩⟩,
      ⟨true, 2, ⟨0, [1, 2], false⟩⟩, ⟨true, 3, ⟨5, [], true⟩⟩] := by
  decide

/-- receiver: the sender's packets arrive reordered and duplicated, with a forged packet (wrong
    bytes, fails authentication) and a forged early FIN in between; the application reads `[1,2,3,4,5]`
    and the stream ends in `DataRead` -/
example :
    let evs : List StreamRecv.Ev :=
      [.packet 10 ⟨.stream, 2, 4, [5], true, true, .none⟩,
       .packet 11 ⟨.stream, 7, 0, [9, 9, 9], false, false, .none⟩,
       .packet 12 ⟨.stream, 8, 1, [], true, false, .none⟩,
       .read none,
       .packet 13 ⟨.stream, 1, 2, [3, 4], false, true, .none⟩,
       .packet 14 ⟨.stream, 1, 2, [3, 4], false, true, .none⟩,
       .packet 15 ⟨.recovery, 3, 0, [1, 2], false, true, .none⟩,
       .packet 16 ⟨.stream, 0, 0, [1, 2], false, true, .none⟩,
       .read (some 3), .read none]
    let t := StreamRecv.run (recvInit 0 30000000 100 100) evs
    t.reads = [1, 2, 3, 4, 5] ∧ t.recv.state = .dataRead ∧
    t.committed = [(.stream, 0), (.recovery, 3), (.stream, 1), (.stream, 2)] ∧
    t.acceptedStream = [0, 1, 2] ∧ t.acceptedRecovery = [3] := by
  decide

/-- idle timeout: a receiver created at t = 0 with a 30 s idle timeout that got one packet at 1 s and
    nothing else is `ResetRead`/`IdleTimeout` when polled at 31 s (and still fine at 30.9 s) -/
example :
    let t := StreamRecv.run (recvInit 0 30000000 100 100) [.packet 1000000 ⟨.stream, 0, 0, [1], false, true, .none⟩]
    (StreamRecv.onTimeout t.recv 31000000 1000000).state = .resetRead ∧
    StreamRecv.checkError (StreamRecv.onTimeout t.recv 31000000 1000000) = some .idleTimeout ∧
    (StreamRecv.onTimeout t.recv 30900000 1000000).state = .recv ∧ t.lastArm = 1000000 := by
  decide

end Quic.Proofs.C20
