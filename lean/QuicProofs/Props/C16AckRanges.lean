import QuicModel.Data.AckRanges
namespace Quic.Proofs.C16
open Quic.Data.IvSet Quic.Data.IvSpec Quic.Data.AckRanges

/-- the repo's own `insert_value_test` scenario on the model -/
theorem ackranges_unit_test_scenario :
    insertPn ⟨some 3, [⟨0, 0⟩, ⟨2, 2⟩, ⟨4, 4⟩]⟩ 6 = (⟨some 3, [⟨2, 2⟩, ⟨4, 4⟩, ⟨6, 6⟩]⟩, .lowestRangeDropped 0 0) := by decide

end Quic.Proofs.C16
